(** C06 correspondence interface.  Must not import the proofs. *)
From Coq Require Import List NArith Bool Arith.
Import ListNotations.
From Verif Require Import Gen.Tables.
From Verif Require Export C06.Base C06.LazySeq C06.Machine C06.Spec.

Definition FUEL : nat := 2500.
Definition EXPLORE_FUEL : nat := 60.

(** The shape of the error path of _compute_seq as read off seq.rs by harness/tr/tr_lazyseq.py. *)
Definition RESTORE : bool := lazyseq_restore_on_error.

Inductive case :=
| CSt (scripts : list (list action)) (its : list iter) (nev : nat) (roots : list rootspec) (ops : list op)
      (* one thread: a consumption history *)
| CMt (scripts : list (list action)) (its : list iter) (nev : nat) (roots : list obj) (progs : list (list cop)).
      (* several threads; cell (length scripts + i) is (iterator-seq its[i]) *)

Inductive out :=
| OSt (obs : list obs) (counts throws : list N) (fcalls : N) (seen : list (cid * bool)) (realized : list bool)
| OMt (o : outcome)               (* one observed run *)
| OMtSet (l : list outcome)       (* model: the outcomes of all interleavings *)
| OErr (k : N).                   (* 1 timeout/hang of the harness, 2 harness error, 9 the two models disagree *)

(* ---- equalities ---- *)
Fixpoint list_eqb {A} (e : A -> A -> bool) (a b : list A) : bool :=
  match a, b with
  | [], [] => true
  | x :: a', y :: b' => e x y && list_eqb e a' b'
  | _, _ => false
  end.
Fixpoint forall2b {A B} (e : A -> B -> bool) (a : list A) (b : list B) : bool :=
  match a, b with
  | [], [] => true
  | x :: a', y :: b' => e x y && forall2b e a' b'
  | _, _ => false
  end.
Definition opt_eqb {A} (e : A -> A -> bool) (a b : option A) : bool :=
  match a, b with Some x, Some y => e x y | None, None => true | _, _ => false end.
Definition obs_eqb (a b : obs) : bool :=
  match a, b with
  | BVal x, BVal y => opt_eqb N.eqb x y
  | BKind x, BKind y => N.eqb x y
  | BNum x, BNum y => N.eqb x y
  | BList x, BList y => list_eqb N.eqb x y
  | BExn x, BExn y => N.eqb x y
  | _, _ => false
  end.
Definition seen_eqb (a b : cid * bool) : bool := Nat.eqb (fst a) (fst b) && Bool.eqb (snd a) (snd b).
Definition outcome_eqb (a b : outcome) : bool :=
  match a, b with
  | Done o c t s, Done o' c' t' s' =>
      list_eqb (list_eqb obs_eqb) o o' && list_eqb N.eqb c c' && list_eqb N.eqb t t'
      && list_eqb (list_eqb seen_eqb) s s'
  | Wedged, Wedged => true
  | _, _ => false
  end.

(** [out_eqb (model c) impl]: an observed multi-threaded run agrees with the model when it is one
    of the outcomes the model's interleavings produce. *)
Definition out_eqb (m i : out) : bool :=
  match m, i with
  | OSt o c t f s r, OSt o' c' t' f' s' r' =>
      list_eqb obs_eqb o o' && list_eqb N.eqb c c' && list_eqb N.eqb t t' && N.eqb f f'
      && list_eqb seen_eqb s s' && list_eqb Bool.eqb r r'
  | OMtSet l, OMt o => existsb (outcome_eqb o) l
  | OErr a, OErr b => N.eqb a b
  | _, _ => false
  end.

(* ---- the model ---- *)
Definition is_realized (c : cell) : bool := match cst c with Realized _ => true | _ => false end.

Definition run_big (scripts : list (list action)) its nev roots ops : out :=
  let s0 := init_st scripts its nev in
  let (s1, regs) := build_roots roots s0 in
  let (s2, obs) := do_ops RESTORE FUEL ops regs s1 [] in
  let stat := firstn (length scripts) (heap s2) in
  OSt obs (map ncalls stat) (map nthrows stat) (fcalls s2) (seen s2) (map is_realized stat).

(** the same history on the small-step machine with one thread, when it can express it *)
Definition op_to_cop (o : op) : option cop :=
  match o with
  | OpFirst r => Some (CFirst r) | OpRest r => Some (CRest r) | OpNext r => Some (CNext r)
  | OpSeq r => Some (CSeqOp r) | OpIter r n => Some (CIter r n) | _ => None
  end.
Fixpoint ops_to_cops (l : list op) : option (list cop) :=
  match l with
  | [] => Some []
  | o :: t => match op_to_cop o, ops_to_cops t with Some c, Some r => Some (c :: r) | _, _ => None end
  end.
Fixpoint plain_roots (l : list rootspec) : option (list obj) :=
  match l with
  | [] => Some []
  | RObj o :: t => option_map (cons o) (plain_roots t)
  | _ => None
  end.

Definition run_small1 scripts nev (roots : list obj) (cops : list cop) : list outcome :=
  explore RESTORE EXPLORE_FUEL FUEL (length scripts) (init_m scripts [] nev roots [cops]).

Definition cross_check (scripts : list (list action)) (its : list iter) nev roots ops (big : out) : bool :=
  match its, plain_roots roots, ops_to_cops ops, big with
  | [], Some ros, Some cops, OSt obs cnt thr _ sn _ =>
      match run_small1 scripts nev ros cops with
      | [Done [obs'] cnt' thr' [sn']] =>
          list_eqb obs_eqb obs obs' && list_eqb N.eqb cnt cnt' && list_eqb N.eqb thr thr' && list_eqb seen_eqb sn sn'
      | _ => false
      end
  | _, _, _, _ => true
  end.

Definition model (c : case) : out :=
  match c with
  | CSt scripts its nev roots ops =>
      let big := run_big scripts its nev roots ops in
      if cross_check scripts its nev roots ops big then big else OErr 9
  | CMt scripts its nev roots progs =>
      OMtSet (explore RESTORE EXPLORE_FUEL FUEL (length scripts) (init_m scripts its nev roots progs))
  end.

(* ---- the specification ---- *)
Definition spec_obs_eqb (o : op) (s i : obs) : bool :=
  match o, s, i with
  | OpRest _, BKind _, BKind _ => true                        (* rest returns some seq object *)
  | (OpSeq _ | OpNext _), BKind a, BKind b => Bool.eqb (N.eqb a 0) (N.eqb b 0)     (* nil or not *)
  | _, _, _ => obs_eqb s i
  end.
Fixpoint spec_obs_list (ops : list op) (s i : list obs) : bool :=
  match ops, s, i with
  | [], [], [] => true
  | o :: ops', x :: s', y :: i' => spec_obs_eqb o x y && spec_obs_list ops' s' i'
  | _, _, _ => false
  end.

(** [ai]: the parameter [ask_inner] of Spec.v (false = the reference) *)
Definition spec_run_with (ai : bool) scripts its nev roots ops : list obs * list N * N * list (cid * bool) :=
  let s0 := s_init scripts its nev in
  let (s1, regs) := s_build_roots roots s0 in
  let (s2, obs) := s_do_ops_with ai FUEL ops regs s1 [] in
  (obs, map snd (firstn (length scripts) (sheap s2)), sfcalls s2, sseen s2).
Definition spec_run := spec_run_with false.

(** multi-threaded cases: cell (length scripts + i) is (iterator-seq its[i]), as in [init_m] *)
Definition spec_run_mt scripts its nev roots ops : list obs * list N * N * list (cid * bool) :=
  let s0 := s_init scripts its nev in
  (* events only force an order between threads: a lone consumer never waits *)
  let s0' := mkS (sheap s0 ++ map (fun i => (SThunk (GSeqIt i), 0%N)) (seq 0 (length its)))
                 (siters s0) (repeat true nev) (stick s0) (sfcalls s0) (sseen s0) in
  let (s1, regs) := s_build_roots roots s0' in
  let (s2, obs) := s_do_ops FUEL ops regs s1 [] in
  (obs, map snd (firstn (length scripts) (sheap s2)), sfcalls s2, sseen s2).

Definition cop_to_op (c : cop) : option op :=
  match c with
  | CFirst r => Some (OpFirst r) | CRest r => Some (OpRest r) | CNext r => Some (OpNext r)
  | CSeqOp r => Some (OpSeq r) | CIter r n => Some (OpIter r n) | _ => None
  end.
Fixpoint cops_to_ops (l : list cop) : list op :=
  match l with
  | [] => []
  | c :: t => match cop_to_op c with Some o => o :: cops_to_ops t | None => cops_to_ops t end
  end.

Definition has_tick (scripts : list (list action)) : bool :=
  existsb (existsb (fun a => match a with ARetTick _ => true | _ => false end)) scripts.

Definition le1_plus (cs ts : list N) : bool :=
  forallb (fun p => (fst p <=? 1 + snd p)%N) (combine cs ts).

Fixpoint all_equal {A} (e : A -> A -> bool) (l : list A) : bool :=
  match l with
  | x :: ((y :: _) as t) => e x y && all_equal e t
  | _ => true
  end.

Definition spec_ok (c : case) (o : out) : bool :=
  match c, o with
  | CSt scripts its nev roots ops, OSt obs cnt thr fc sn _ =>
      (* the property does not say whether following a returned lazy seq asks the lazy seqs on the
         way (Spec.v, [ask_inner]): the implementation may agree with either reading.  [if], not
         [||]: the second run is only evaluated when the first disagrees *)
      let agrees (ai : bool) :=
        let '(sobs, scnt, sfc, ssn) := spec_run_with ai scripts its nev roots ops in
        spec_obs_list ops sobs obs && list_eqb N.eqb scnt cnt && N.eqb sfc fc && list_eqb seen_eqb ssn sn in
      if agrees false then true else agrees true
  | CMt scripts its nev roots progs, OMt (Done obss cnt thr _) =>
      (* nobody is stuck; at most one successful run per producer; every thread sees what a lone
         consumer sees (schedule-independent producers), or, with the shared counter, what the
         other threads see *)
      le1_plus cnt thr &&
      if has_tick scripts then
        all_equal (list_eqb obs_eqb) obss
      else
        forall2b (fun p iobs =>
                    let ops := cops_to_ops p in
                    let '(sobs, _, _, _) := spec_run_mt scripts its nev (map RObj roots) ops in
                    spec_obs_list ops sobs iobs) progs obss
  | _, _ => false
  end.

(* ---- defect tags computed on the model side ---- *)
Definition tag (c : case) : N :=
  match c with
  | CSt scripts its nev roots ops =>
      let s0 := init_st scripts its nev in
      let (s1, regs) := build_roots roots s0 in
      let (s2, _) := do_ops RESTORE FUEL ops regs s1 [] in
      ((if existsb (fun k => negb (nthrows k =? 0)%N) (heap s2) then 2 else 0) + N.land (flags s2) 12)%N
  | CMt scripts its nev roots progs =>
      if existsb (fun o => match o with Wedged => true | _ => false end)
                 (explore RESTORE EXPLORE_FUEL FUEL (length scripts) (init_m scripts its nev roots progs))
      then 1%N else 0%N
  end.
