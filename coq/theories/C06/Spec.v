(** C06 -- what the property prescribes: a lazy sequence is a chain of memoised thunks.

    A cell is a thunk, holds what its thunk returned, holds a value (nil or a cons), or is
    being forced.  Forcing a cell -- a consumer or a producer ASKS for its value -- runs the
    thunk (once: what it returned is kept), follows a returned lazy seq to the first object
    that is not a lazy seq, and keeps that as the cell's value.
    - An exception leaves the cell a thunk again (nothing is remembered of the failed attempt),
      so the exception reaches this consumer and every later one.
    - A producer that looks at a cell which is being forced (its own, or one further out in
      the chain being followed) sees it empty, and that look changes nothing (the documented
      behaviour for co-recursive definitions such as `primes`).
    - The lazy seqs ON THE WAY of a follow-up (A's thunk returned B, B's thunk returned C, ...)
      have their thunks run (once each, what they returned is kept).  Whether following through
      B also ASKS B -- B is "being forced" meanwhile and keeps the value the follow-up arrives
      at -- is something the property does not say: each producer runs once, every answer given
      to a consumer stays, nothing further is computed either way.  It is the parameter
      [ask_inner] of this file:
        false (the reference; so does Clojure's LazySeq.seq, which takes `sval()` of the lazy
              seqs on the way): B only keeps what its thunk returned and finds its own value
              when somebody asks B;
        true: following through B asks B.
      The two differ only when the follow-up arrives at a cell that is being forced (it sees
      "empty" there, an answer that depends on the moment of asking) or when a producer looks
      at a cell on the way.  [Corr.spec_ok] accepts an implementation that agrees with either.
    This file does not mention Initialized / Computing / Computed / Realized, locks or the GIL. *)
From Coq Require Import List NArith Bool Arith Lia.
Import ListNotations.
From Verif Require Export C06.Base.

Inductive scell :=
| SThunk (g : gen)          (* not yet run *)
| SBusy (g : gen)           (* its producer is running *)
| SGot (o : obj)            (* its producer has returned o; o's value not yet known (a follow-up was interrupted) *)
| SChasing (o : obj)        (* following o *)
| SVal (o : obj).           (* ONil or OCons *)

Record sst := mkS {
  sheap : list (scell * N);      (* cell, number of producer runs *)
  siters : list iter;
  sevs : list bool;
  stick : N;
  sfcalls : N;
  sseen : list (cid * bool)
}.

Definition sget (s : sst) (c : cid) : option (scell * N) := nth_error (sheap s) c.
Definition sset_heap (s : sst) h := mkS h (siters s) (sevs s) (stick s) (sfcalls s) (sseen s).
Definition sset (s : sst) (c : cid) (x : scell) : sst :=
  match sget s c with Some (_, n) => sset_heap s (upd (sheap s) c (x, n)) | None => s end.
Definition sstart (s : sst) (c : cid) (g : gen) : sst :=
  match sget s c with Some (_, n) => sset_heap s (upd (sheap s) c (SBusy g, N.succ n)) | None => s end.
Definition salloc (s : sst) (g : gen) : sst * cid :=
  (sset_heap s (sheap s ++ [(SThunk g, 0%N)]), length (sheap s)).
Definition sset_iter (s : sst) i x := mkS (sheap s) (upd (siters s) i x) (sevs s) (stick s) (sfcalls s) (sseen s).
Definition sset_ev (s : sst) e := mkS (sheap s) (siters s) (upd (sevs s) e true) (stick s) (sfcalls s) (sseen s).
Definition sbump_tick (s : sst) := mkS (sheap s) (siters s) (sevs s) (N.succ (stick s)) (sfcalls s) (sseen s).
Definition sbump_f (s : sst) := mkS (sheap s) (siters s) (sevs s) (stick s) (N.succ (sfcalls s)) (sseen s).
Definition snote (s : sst) c b := mkS (sheap s) (siters s) (sevs s) (stick s) (sfcalls s) (sseen s ++ [(c, b)]).

Inductive scall :=
| SForce (c : cid)              (* the value of cell c: ONil or OCons *)
| SFollow (c : cid) (o : obj)   (* c's producer returned o: find o's value, keep it in c *)
| SChase (d : cid)              (* d is on the way of a follow-up and is not asked: what d's thunk returned, followed *)
| SValue (o : obj)              (* (seq o) for any object *)
| SGen (g : gen)
| SScript (l : list action)
| SPull (it : nat)
| SNext (cur : obj).            (* one step of iterating over cur: OCons v cur' | ONil *)

Section Ref.
(** does following a returned lazy seq ASK the lazy seqs on the way?  (see the head of the file) *)
Variable ask_inner : bool.

Fixpoint sev (fuel : nat) (k : scall) (s : sst) : sst * res :=
  match fuel with
  | O => (s, OutOfFuel)
  | S f =>
    match k with
    | SForce c =>
        match sget s c with
        | None => (s, Bad)
        | Some (SVal o, _) => (s, Ok o)
        | Some (SBusy _, _) | Some (SChasing _, _) => (s, Ok ONil)
        | Some (SGot o, _) => sev f (SFollow c o) s
        | Some (SThunk g, _) =>
            let (s1, r) := sev f (SGen g) (sstart s c g) in
            match r with
            | Ok o => sev f (SFollow c o) s1
            | Exn => (sset s1 c (SThunk g), Exn)
            | e => (s1, e)
            end
        end
    | SFollow c o =>
        match o with
        | OLazy d =>
            let (s1, r) := sev f (if ask_inner then SForce d else SChase d) (sset s c (SChasing o)) in
            match r with
            | Ok v => (sset s1 c (SVal v), Ok v)
            | Exn => (sset s1 c (SGot o), Exn)
            | e => (s1, e)
            end
        | _ => let v := seq_or_nil o in (sset s c (SVal v), Ok v)
        end
    | SChase d =>
        let chase (o : obj) (s' : sst) : sst * res :=
          match o with
          | OLazy e => sev f (SChase e) s'
          | _ => (s', Ok (seq_or_nil o))
          end in
        match sget s d with
        | None => (s, Bad)
        | Some (SVal o, _) => (s, Ok o)
        | Some (SBusy _, _) | Some (SChasing _, _) => (s, Ok ONil)
        | Some (SGot o, _) => chase o s
        | Some (SThunk g, _) =>
            let (s1, r) := sev f (SGen g) (sstart s d g) in
            match r with
            | Ok o => chase o (sset s1 d (SGot o))
            | Exn => (sset s1 d (SThunk g), Exn)
            | e => (s1, e)
            end
        end
    | SValue o =>
        match o with
        | OLazy c => sev f (SForce c) s
        | _ => (s, Ok (seq_or_nil o))
        end
    | SGen g =>
        match g with
        | GScript l => sev f (SScript l) s
        | GSeqIt it =>
            let (s1, r) := sev f (SPull it) s in
            match r with
            | Ok (OCons v _) => let (s2, n) := salloc s1 (GSeqIt it) in (s2, Ok (OCons v (OLazy n)))
            | Ok _ => (s1, Ok ONil)
            | e => (s1, e)
            end
        | GMap fn src =>
            let (s1, r) := sev f (SValue src) s in
            match r with
            | Ok (OCons v rst) =>
                let (s2, n) := salloc (sbump_f s1) (GMap fn (rest_norm rst)) in
                (s2, Ok (OCons (app_fn fn v) (OLazy n)))
            | Ok _ => (s1, Ok ONil)
            | e => (s1, e)
            end
        | GFilter p src =>
            let (s1, r) := sev f (SValue src) s in
            match r with
            | Ok (OCons v rst) =>
                let (s2, n) := salloc (sbump_f s1) (GFilter p (rest_norm rst)) in
                if app_pred p v then (s2, Ok (OCons v (OLazy n))) else (s2, Ok (OLazy n))
            | Ok _ => (s1, Ok ONil)
            | e => (s1, e)
            end
        | GTake n src =>
            if (n =? 0)%N then (s, Ok ONil) else
            let (s1, r) := sev f (SValue src) s in
            match r with
            | Ok (OCons v rst) =>
                let (s2, m) := salloc s1 (GTake (N.pred n) (rest_norm rst)) in (s2, Ok (OCons v (OLazy m)))
            | Ok _ => (s1, Ok ONil)
            | e => (s1, e)
            end
        | GIterate fn x =>
            let (s2, n) := salloc (sbump_f s) (GIterate fn (app_fn fn x)) in (s2, Ok (OCons x (OLazy n)))
        end
    | SScript l =>
        match l with
        | [] => (s, Ok ONil)
        | AYield :: l' => sev f (SScript l') s
        | ASet e :: l' => sev f (SScript l') (sset_ev s e)
        | AWait e :: l' => if nth e (sevs s) false then sev f (SScript l') s else (s, Bad)
        | ATouch d :: l' =>
            let (s1, r) := sev f (SForce d) s in
            match r with
            | Ok o => sev f (SScript l') (snote s1 d (is_nil o))
            | e => (s1, e)
            end
        | ARet o :: _ => (s, Ok o)
        | ARetTick r :: _ => (sbump_tick s, Ok (OCons (stick s) r))
        | AThrow :: _ => (s, Exn)
        end
    | SPull it =>
        match nth_error (siters s) it with
        | None => (s, Bad)
        | Some (ItList []) => (s, Ok ONil)
        | Some (ItList (IVal v :: l)) => (sset_iter s it (ItList l), Ok (OCons v ONil))
        | Some (ItList (IRaise :: l)) => (sset_iter s it (ItList l), Exn)
        | Some (ItSeq cur) =>
            let (s1, r) := sev f (SNext cur) s in
            match r with
            | Ok (OCons v cur') => (sset_iter s1 it (ItSeq cur'), Ok (OCons v ONil))
            | Ok _ => (s1, Ok ONil)
            | e => (s1, e)
            end
        | Some (ItChain (Some cur) srcs) =>
            let (s1, r) := sev f (SNext cur) s in
            match r with
            | Ok (OCons v cur') => (sset_iter s1 it (ItChain (Some cur') srcs), Ok (OCons v ONil))
            | Ok _ => sev f (SPull it) (sset_iter s1 it (ItChain None srcs))
            | e => (s1, e)
            end
        | Some (ItChain None []) => (s, Ok ONil)
        | Some (ItChain None (src :: srcs)) =>
            let (s1, r) := sev f (SValue src) (sset_iter s it (ItChain None srcs)) in
            match r with
            | Ok ONil => sev f (SPull it) s1
            | Ok o => sev f (SPull it) (sset_iter s1 it (ItChain (Some o) srcs))
            | Exn => (sset_iter s1 it (ItChain None (src :: srcs)), Exn)     (* nothing is lost: the next pull tries src again *)
            | e => (s1, e)
            end
        end
    | SNext cur =>
        match cur with
        | OLazy c =>
            let (s1, r) := sev f (SForce c) s in
            match r with
            | Ok (OCons v rst) => (s1, Ok (OCons v (rest_norm rst)))
            | Ok _ => (s1, Ok ONil)
            | e => (s1, e)
            end
        | OCons v rst => (s, Ok (OCons v (rest_norm rst)))
        | _ => (s, Ok ONil)
        end
    end
  end.

(** ** consumer operations in terms of values *)
Definition s_first fuel (o : obj) (s : sst) : sst * res :=
  let (s1, r) := sev fuel (SValue o) s in
  match r with Ok (OCons v _) => (s1, Ok (OCons v ONil)) | Ok _ => (s1, Ok ONil) | e => (s1, e) end.
Definition s_rest fuel (o : obj) (s : sst) : sst * res :=
  let (s1, r) := sev fuel (SValue o) s in
  match r with Ok (OCons _ rst) => (s1, Ok (rest_norm rst)) | Ok _ => (s1, Ok OEmpty) | e => (s1, e) end.
Definition s_seq fuel (o : obj) (s : sst) : sst * res := sev fuel (SValue o) s.
Definition s_next fuel (o : obj) (s : sst) : sst * res :=
  let (s1, r) := s_rest fuel o s in
  match r with Ok o' => s_seq fuel o' s1 | e => (s1, e) end.

Fixpoint s_walk (fuel n : nat) (cur : obj) (acc : list N) (s : sst) : sst * res * list N :=
  match n with
  | O => (s, Ok cur, acc)
  | S m =>
      let (s1, r) := sev fuel (SNext cur) s in
      match r with
      | Ok (OCons v cur') => s_walk fuel m cur' (v :: acc) s1
      | Ok _ => (s1, Ok ONil, acc)
      | e => (s1, e, acc)
      end
  end.

Section Run.
Variable fuel : nat.

Fixpoint s_build_root (r : rootspec) (s : sst) : sst * obj :=
  match r with
  | RObj o => (s, o)
  | RMap f r' => let (s1, o) := s_build_root r' s in let (s2, n) := salloc s1 (GMap f o) in (s2, OLazy n)
  | RFilter p r' => let (s1, o) := s_build_root r' s in let (s2, n) := salloc s1 (GFilter p o) in (s2, OLazy n)
  | RTake k r' => let (s1, o) := s_build_root r' s in let (s2, n) := salloc s1 (GTake k o) in (s2, OLazy n)
  | RIterate f x => let (s2, n) := salloc s (GIterate f x) in (s2, OLazy n)
  | RConcat rs =>
      let fix go (l : list rootspec) (s : sst) : sst * list obj :=
        match l with
        | [] => (s, [])
        | r' :: t => let (s1, o) := s_build_root r' s in let (s2, os) := go t s1 in (s2, o :: os)
        end in
      let (s1, os) := go rs s in
      let it := length (siters s1) in
      let s2 := mkS (sheap s1) (siters s1 ++ [ItChain None os]) (sevs s1) (stick s1) (sfcalls s1) (sseen s1) in
      let (s3, n) := salloc s2 (GSeqIt it) in (s3, OLazy n)
  | RItSeq it => let (s2, n) := salloc s (GSeqIt it) in (s2, OLazy n)
  end.

Fixpoint s_build_roots (l : list rootspec) (s : sst) : sst * list obj :=
  match l with
  | [] => (s, [])
  | r :: t => let (s1, o) := s_build_root r s in let (s2, os) := s_build_roots t s1 in (s2, o :: os)
  end.

Definition sreg (regs : list obj) (r : nat) : obj := nth r regs ONil.
Definition okobj (x : res) : obj := match x with Ok o => o | _ => ONil end.

Definition s_do_op (o : op) (regs : list obj) (s : sst) : sst * list obj * obs :=
  match o with
  | OpFirst r =>
      let (s1, x) := s_first fuel (sreg regs r) s in
      (s1, regs, obs_of_res x (fun o => match o with OCons v _ => BVal (Some v) | _ => BVal None end))
  | OpRest r =>
      let (s1, x) := s_rest fuel (sreg regs r) s in
      (s1, regs ++ [okobj x], obs_of_res x (fun o => BKind (kind_of o)))
  | OpNext r =>
      let (s1, x) := s_next fuel (sreg regs r) s in
      (s1, regs ++ [okobj x], obs_of_res x (fun o => BKind (kind_of o)))
  | OpSeq r =>
      let (s1, x) := s_seq fuel (sreg regs r) s in
      (s1, regs ++ [okobj x], obs_of_res x (fun o => BKind (kind_of o)))
  | OpCount r =>
      let '(s1, x, acc) := s_walk fuel fuel (sreg regs r) [] s in
      (s1, regs, match x with Ok ONil => BNum (N.of_nat (length acc)) | Exn => BExn 1 | _ => BBad end)
  | OpNth r i =>
      match sreg regs r with
      | ONil => (s, regs, BVal None)
      | cur =>
        let '(s1, x, acc) := s_walk fuel (S i) cur [] s in
        (s1, regs, match x with
                   | Ok _ => if Nat.eqb (length acc) (S i) then BVal (hd_error acc) else BExn 2
                   | Exn => BExn 1 | _ => BBad end)
      end
  | OpIter r limit =>
      match sreg regs r with
      | ONil => (s, regs, BExn 3)
      | cur =>
        let '(s1, x, acc) := s_walk fuel limit cur [] s in
        (s1, regs, match x with Ok _ => BList (rev acc) | Exn => BExn 1 | _ => BBad end)
      end
  end.

Fixpoint s_do_ops_with (l : list op) (regs : list obj) (s : sst) (acc : list obs) : sst * list obs :=
  match l with
  | [] => (s, rev acc)
  | o :: t => let '(s1, regs1, b) := s_do_op o regs s in s_do_ops_with t regs1 s1 (b :: acc)
  end.
End Run.
End Ref.

(** the reference run: [ask_inner = false] *)
Definition s_do_ops (fuel : nat) := s_do_ops_with false fuel.

Definition s_init (scripts : list (list action)) (its : list iter) (nev : nat) : sst :=
  mkS (map (fun l => (SThunk (GScript l), 0%N)) scripts) its (repeat false nev) 0 0 [].
