(** C13 correspondence interface.  Does not import the proofs. *)
From Coq Require Import List Bool Arith ZArith NArith.
Import ListNotations.
From Verif Require Import Common.ListX Gen.Tables.
From Verif Require Export C13.Spec C13.Delay C13.Promise C13.Future.

(** delay values are integers; promise values are [option Z] (None = Python None) *)
Definition pv := option Z.
Definition pv_eqb : pv -> pv -> bool := option_eqb Z.eqb.

(** the compare-and-set test of the inner atom on _DelayState records (attrs equality on
    (f, value, computed); [f] is the same object): by the mode regenerated from atom.py *)
Definition dstate_eq (a b : option Z) : bool := option_eqb Z.eqb a b.
Definition d_cas_ok (cur old : option Z) : bool :=
  match atom_cas_mode with
  | 0%N => dstate_eq cur old
  | _ => dstate_eq cur old      (* identity implies equality here: no NaN in the test universe *)
  end.

Definition script_body (script : list (option Z)) (i : nat) : option Z :=
  nth i script (last script None).

(** future actions, run one after the other by the harness on one future whose body is
    gated: [FRelease] lets the body finish (and waits until the future is done) *)
Inductive fbody := FBVal (z : Z) | FBRaise (e : exn).
Inductive fact := FDerefTimed (tv : Z) | FDeref (tv : Z) | FRealized | FRelease.
Inductive fres := FRet (z : Z) | FExc (e : exn) | FBool (b : bool) | FUnit.

Inductive hev := HCall (t : nat) (i : nat) | HRet (t : nat) (i : nat).

Inductive case :=
| CDelay (script : list (option Z)) (threads : list (list dop)) (sched : list (nat * dlab * bool))
| CPromise (threads : list (list (pop pv))) (sched : list (nat * plab * pkind))
| CFuture (b : fbody) (acts : list fact).

Inductive out :=
| ODelay (results : list (list (dres Z))) (bl : list (nat * bev)) (sched : list (nat * dlab * bool))
| OPromise (results : list (list (pres pv))) (hist : list hev) (deadlock : bool)
           (sched : list (nat * plab * pkind))
| OFuture (results : list fres)
| OFail (code : N).

(** ---- equality of observations ---- *)
Definition dres_eqb (a b : dres Z) : bool :=
  match a, b with
  | DVal x, DVal y => Z.eqb x y
  | DExc, DExc => true
  | DBool x, DBool y => Bool.eqb x y
  | _, _ => false
  end.
Definition bev_eqb (a b : nat * bev) : bool :=
  Nat.eqb (fst a) (fst b) &&
  match snd a, snd b with
  | BBegin, BBegin => true
  | BEnd x, BEnd y => Bool.eqb x y
  | _, _ => false
  end.
Definition dev_eqb (a b : nat * dlab * bool) : bool :=
  let '(t1, l1, b1) := a in let '(t2, l2, b2) := b in
  Nat.eqb t1 t2 && dlab_eqb l1 l2 && Bool.eqb b1 b2.
Definition pres_eqb (a b : pres pv) : bool :=
  match a, b with
  | PRet x, PRet y => pv_eqb x y
  | PBool x, PBool y => Bool.eqb x y
  | _, _ => false
  end.
Definition pkind_eqb (a b : @pkind) : bool :=
  match a, b with
  | KRun, KRun | KBlock, KBlock | KWait, KWait | KWake, KWake | KTimeout, KTimeout
  | KWakeBlock, KWakeBlock | KTimeoutBlock, KTimeoutBlock => true
  | _, _ => false
  end.
Definition pev_eqb (a b : nat * plab * pkind) : bool :=
  let '(t1, l1, k1) := a in let '(t2, l2, k2) := b in
  Nat.eqb t1 t2 && plab_eqb l1 l2 && pkind_eqb k1 k2.
Definition exn_eqb (a b : exn) : bool :=
  match a, b with
  | ETimeoutError, ETimeoutError => true
  | EOther x, EOther y => Nat.eqb x y
  | _, _ => false
  end.
Definition fres_eqb (a b : fres) : bool :=
  match a, b with
  | FRet x, FRet y => Z.eqb x y
  | FExc x, FExc y => exn_eqb x y
  | FBool x, FBool y => Bool.eqb x y
  | FUnit, FUnit => true
  | _, _ => false
  end.
Definition hev_eqb (a b : hev) : bool :=
  match a, b with
  | HCall t i, HCall u j | HRet t i, HRet u j => Nat.eqb t u && Nat.eqb i j
  | _, _ => false
  end.

Definition out_eqb (a b : out) : bool :=
  match a, b with
  | ODelay r1 b1 s1, ODelay r2 b2 s2 =>
      list_eqb (list_eqb dres_eqb) r1 r2 && list_eqb bev_eqb b1 b2 && list_eqb dev_eqb s1 s2
  | OPromise r1 _ d1 s1, OPromise r2 _ d2 s2 =>
      (* the call/return history is an input of the specification only: the model run
         does not produce it *)
      list_eqb (list_eqb pres_eqb) r1 r2 && Bool.eqb d1 d2 && list_eqb pev_eqb s1 s2
  | OFuture r1, OFuture r2 => list_eqb fres_eqb r1 r2
  | OFail x, OFail y => N.eqb x y
  | _, _ => false
  end.

(** ---- the model ---- *)
Definition progs_of {A} (l : list (list A)) (t : nat) : list A := nth t l [].

Definition delay_run script threads sched : option (dstate Z) :=
  drun delay_deref_mode d_cas_ok (script_body script) sched (dinit (progs_of threads)).

Definition dthread_results (th : dthread Z) : list (dres Z) := map snd (rev (d_done th)).

Definition promise_run threads sched : option (pstate pv) :=
  prun None sched (pinit None (progs_of threads)).

Definition pthread_results (th : pthread pv) : list (pres pv) := map snd (rev (p_done th)).

Definition unfinished (s : pstate pv) (n : nat) : bool :=
  existsb (fun t => match p_ops (pthr s t) with [] => false | _ => true end) (seq 0 n).
Definition none_enabled (s : pstate pv) (n : nat) : bool :=
  forallb (fun t => negb (p_enabled None s t)) (seq 0 n).

(** the future model: the cell is the body's outcome once released *)
Definition f_outcome (b : fbody) : outcome Z :=
  match b with FBVal z => OVal z | FBRaise e => ORaise e end.
Definition f_yield (y : option (yield Z)) : fres :=
  match y with Some (YRet z) => FRet z | Some (YRaise e) => FExc e | None => FUnit end.

Fixpoint future_run (b : fbody) (c : option (outcome Z)) (acts : list fact) : list fres :=
  match acts with
  | [] => []
  | a :: r =>
      match a with
      | FDerefTimed tv =>
          f_yield (@deref_timed Z (option (outcome Z)) (fun x => x) future_deref_mode c c c tv)
          :: future_run b c r
      | FDeref tv =>
          f_yield (@deref_done Z (option (outcome Z)) (fun x => x) future_deref_mode c c c tv)
          :: future_run b c r
      | FRealized => FBool (@cf_done Z (option (outcome Z)) (fun x => x) c) :: future_run b c r
      | FRelease => FUnit :: future_run b (Some (f_outcome b)) r
      end
  end.

Definition model (c : case) : out :=
  match c with
  | CDelay script threads sched =>
      match delay_run script threads sched with
      | None => OFail 9
      | Some s => ODelay (map (fun t => dthread_results (dthr s t)) (seq 0 (length threads)))
                         (rev (blog s)) sched
      end
  | CPromise threads sched =>
      match promise_run threads sched with
      | None => OFail 9
      | Some s =>
          let n := length threads in
          if unfinished s n && negb (none_enabled s n) then OFail 8   (* schedule ended early *)
          else OPromise (map (fun t => pthread_results (pthr s t)) (seq 0 n)) []
                        (unfinished s n) sched
      end
  | CFuture b acts => OFuture (future_run b None acts)
  end.

(** defect tag (none of the C13 findings is open) *)
Definition tag (c : case) : N := 0%N.

(** ---- what the property prescribes ---- *)

(* delay: the log is once-only, every returned value is the value of the returned run *)
Fixpoint returned_run (l : list bev) (k : nat) : option nat :=
  match l with
  | [] => None
  | BBegin :: r => returned_run r (S k)
  | BEnd true :: _ => Some (pred k)
  | BEnd false :: r => returned_run r k
  end.

Definition delay_spec_ok script (threads : list (list dop)) (results : list (list (dres Z)))
           (bl : list (nat * bev)) : bool :=
  let evs := map snd bl in
  once_log evs
  && Nat.eqb (length results) (length threads)
  && forallb (fun pr : list dop * list (dres Z) => Nat.eqb (length (fst pr)) (length (snd pr)))
             (combine threads results)
  && forallb (fun pr : list dop * list (dres Z) =>
        forallb (fun x : dop * dres Z =>
           match fst x, snd x with
           | DDeref, DVal v =>
               match returned_run evs 0 with
               | Some k => match script_body script k with Some w => Z.eqb v w | None => false end
               | None => false
               end
           | DDeref, DExc => true      (* the run this deref made threw *)
           | DReal, DBool b =>
               (* realized? true needs a returned run *)
               negb b || match returned_run evs 0 with Some _ => true | None => false end
           | _, _ => false
           end) (combine (fst pr) (snd pr))
        (* realized? is monotone along each thread *)
        && mono_bools (flat_map (fun r => match r with DBool b => [b] | DVal _ => [true] | DExc => [] end) (snd pr)))
     (combine threads results).

(* promise: linearizability of the call/return history against the reference promise *)
Definition pseq (o : pop pv) (st : option pv) : option (option pv * pres pv) :=
  match o, st with
  | PDeliver v, None => Some (Some v, PRet None)
  | PDeliver _, Some w => Some (Some w, PRet None)
  | PDeref _, Some w => Some (Some w, PRet w)
  | PDeref None, None => None                          (* would block *)
  | PDeref (Some tv), None => Some (None, PRet tv)     (* times out *)
  | PReal, st => Some (st, PBool (match st with Some _ => true | None => false end))
  end.

Definition opid := (nat * nat)%type.
Definition opid_eqb (a b : opid) : bool := Nat.eqb (fst a) (fst b) && Nat.eqb (snd a) (snd b).

Fixpoint rm {A} (id : opid) (l : list (opid * A)) : list (opid * A) :=
  match l with
  | [] => []
  | x :: r => if opid_eqb (fst x) id then r else x :: rm id r
  end.
Fixpoint look {A} (id : opid) (l : list (opid * A)) : option A :=
  match l with
  | [] => None
  | x :: r => if opid_eqb (fst x) id then Some (snd x) else look id r
  end.

Section PLin.
  Variable threads : list (list (pop pv)).
  Variable results : list (list (pres pv)).
  Definition op_at (id : opid) : option (pop pv) := nth_error (nth (fst id) threads []) (snd id).
  Definition res_at (id : opid) : option (pres pv) := nth_error (nth (fst id) results []) (snd id).

  Fixpoint plin (fuel : nat) (h : list hev) (pend : list (opid * pop pv))
           (lind : list (opid * pres pv)) (st : option pv) : bool :=
    match fuel with
    | O => false
    | S k =>
        existsb (fun x : opid * pop pv =>
                   match pseq (snd x) st with
                   | Some (st', r) => plin k h (rm (fst x) pend) ((fst x, r) :: lind) st'
                   | None => false
                   end) pend
        || match h with
           | [] =>
               (* what never returned must be blocked for ever: untimed derefs, undelivered *)
               forallb (fun x : opid * pop pv =>
                          match snd x, st with PDeref None, None => true | _, _ => false end) pend
               && match lind with [] => true | _ => false end
           | HCall t i :: h' =>
               match op_at (t, i) with
               | Some o => plin k h' (((t, i), o) :: pend) lind st
               | None => false
               end
           | HRet t i :: h' =>
               match look (t, i) lind, res_at (t, i) with
               | Some r, Some r' => pres_eqb r r' && plin k h' pend (rm (t, i) lind) st
               | _, _ => false
               end
           end
    end.
End PLin.

Definition promise_spec_ok threads results hist (deadlock : bool) : bool :=
  let nops := length (concat threads) in
  plin threads results (3 * nops + 3) hist [] [] None
  (* deadlock is reported iff some call never returned *)
  && Bool.eqb deadlock
       (negb (Nat.eqb (length (filter (fun e => match e with HRet _ _ => true | _ => false end) hist)) nops)).

(* future: replay against the outcome of the body *)
Fixpoint future_spec (b : fbody) (done : bool) (acts : list fact) (rs : list fres) : bool :=
  match acts, rs with
  | [], [] => true
  | a :: ar, r :: rr =>
      match a with
      | FRelease => fres_eqb r FUnit && future_spec b true ar rr
      | FRealized => fres_eqb r (FBool done) && future_spec b done ar rr
      | FDerefTimed tv | FDeref tv =>
          (if done
           then match b with FBVal z => fres_eqb r (FRet z) | FBRaise e => fres_eqb r (FExc e) end
           else match a with FDerefTimed _ => fres_eqb r (FRet tv) | _ => fres_eqb r FUnit end)
          && future_spec b done ar rr
      end
  | _, _ => false
  end.

Definition spec_ok (c : case) (o : out) : bool :=
  match c, o with
  | CDelay script threads _, ODelay results bl _ => delay_spec_ok script threads results bl
  | CPromise threads _, OPromise results hist dl _ => promise_spec_ok threads results hist dl
  | CFuture b acts, OFuture rs => future_spec b false acts rs
  | _, _ => false
  end.
