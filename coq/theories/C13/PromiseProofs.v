(** C13 proofs, part 2: Promise.  Under every interleaving (including every placement of
    the timeouts of timed derefs): the history of linearization events is accepted by the
    reference promise (Spec.promise_log_ok: first deliver wins, later delivers are ignored,
    every value read is the delivered one, a timeout happens only while undelivered,
    realized? is monotone), and every value a deref returned is the delivered value or --
    timed derefs only -- its own timeout value. *)
From Coq Require Import List Bool Arith Lia.
Import ListNotations.
From Verif Require Import C13.Spec C13.Promise.

Section PromiseProofs.
  Context {V : Type}.
  Variable vnone : V.
  Variable veq : V -> V -> bool.
  Hypothesis veq_refl : forall v, veq v v = true.

  Notation pop := (pop V).
  Notation pres := (pres V).
  Notation pthread := (pthread V).
  Notation pstate := (pstate V).
  Notation pstep := (@pstep V vnone).
  Notation preach := (@preach V vnone).

  Definition in_pcs (p : ppc) : bool :=
    match p with
    | VChk | VFlag | VVal | VNotify | VRel | MPred | MGet | MTmo | MRel | GRead | GRel => true
    | _ => false
    end.

  Definition pst (s : pstate) : option (option V) := plog_run veq (rev (phist s)).

  Definition res_ok (s : pstate) (o : pop) (v : V) : Prop :=
    match o with
    | PDeref tm => (exists w, pst s = Some (Some w) /\ v = w) \/ tm = Some v
    | _ => True
    end.

  Record PIv (s : pstate) : Prop := {
    pi_lock : forall t, in_pcs (p_pc (pthr s t)) = true <-> plock s = Some t;
    pi_flag : forall t, p_pc (pthr s t) = VFlag -> delivered s = false;
    pi_del : forall t, p_pc (pthr s t) = VVal \/ p_pc (pthr s t) = VNotify \/ p_pc (pthr s t) = MGet ->
                       delivered s = true;
    pi_st0 : delivered s = false -> pst s = Some None;
    pi_st1 : delivered s = true ->
             exists w, pst s = Some (Some w)
                       /\ ((forall t, p_pc (pthr s t) <> VVal) -> pvalue s = w)
                       /\ (forall t, p_pc (pthr s t) = VVal -> exists rest, p_ops (pthr s t) = PDeliver w :: rest);
    pi_got : forall t o rest, p_pc (pthr s t) = MRel -> p_ops (pthr s t) = o :: rest ->
                              res_ok s o (p_got (pthr s t));
    pi_done : forall t o v, In (o, PRet v) (p_done (pthr s t)) -> res_ok s o v
  }.

  Lemma plog_snoc l e : plog_run veq (l ++ [e]) = pnext veq (plog_run veq l) e.
  Proof. unfold plog_run. rewrite fold_left_app. reflexivity. Qed.

  Lemma pupd_same (f : nat -> pthread) t th : pupd f t th t = th.
  Proof. unfold pupd. rewrite Nat.eqb_refl. reflexivity. Qed.
  Lemma pupd_other (f : nat -> pthread) t th u : u <> t -> pupd f t th u = f u.
  Proof. unfold pupd. intro H. apply Nat.eqb_neq in H. rewrite H. reflexivity. Qed.

  Lemma PIv_init progs : PIv (pinit vnone progs).
  Proof.
    constructor; simpl; intros; try discriminate; try contradiction; auto.
    - split; intro H; discriminate.
    - destruct H as [H|[H|H]]; discriminate.
  Qed.

  Lemma res_ok_mono s s' o v :
    (forall w, pst s = Some (Some w) -> pst s' = Some (Some w)) -> res_ok s o v -> res_ok s' o v.
  Proof.
    unfold res_ok. destruct o; auto. intros M [(w & H1 & H2)|H]; [left; exists w; auto|right; exact H].
  Qed.

  Ltac ppc_norm :=
    match goal with
    | E : p_ops ?th = ?o :: _, E0 : pcur ?th = _ |- _ =>
        let Hpc := fresh "Hpc" in
        unfold pcur in E0; rewrite E in E0;
        destruct (p_pc th) eqn:Hpc; try discriminate E0;
        [ unfold pentry in E0;
          repeat match type of E0 with
                 | context [match ?x with _ => _ end] => is_var x; destruct x
                 end; try discriminate E0
        | inversion E0; subst; clear E0 .. ]
    end.

  (** what a step does to the threads that do not take it: only the notified flag may change *)
  Lemma pstep_other s t a s' u :
    pstep t a s = Some s' -> u <> t ->
    p_pc (pthr s' u) = p_pc (pthr s u) /\ p_ops (pthr s' u) = p_ops (pthr s u)
    /\ p_done (pthr s' u) = p_done (pthr s u) /\ p_got (pthr s' u) = p_got (pthr s u).
  Proof.
    intros H Hu. unfold Promise.pstep, pset, pset_ev in H.
    repeat match type of H with
           | context [match ?x with _ => _ end] =>
               let E := fresh "E" in destruct x eqn:E; try discriminate
           end;
    inversion H; subst; clear H; simpl; try (rewrite (pupd_other _ _ _ _ Hu); auto).
    apply Nat.eqb_neq in Hu. rewrite Hu. destruct (p_pc (pthr s u)) eqn:Hp; simpl; auto.
  Qed.

  Lemma PIv_step s t a s' : PIv s -> pstep t a s = Some s' -> PIv s'.
  Proof.
    intros I H.
    assert (Oth : forall u, u <> t ->
              p_pc (pthr s' u) = p_pc (pthr s u) /\ p_ops (pthr s' u) = p_ops (pthr s u)
              /\ p_done (pthr s' u) = p_done (pthr s u) /\ p_got (pthr s' u) = p_got (pthr s u))
      by (intros u Hu; eapply pstep_other; eauto).
    unfold Promise.pstep, pset, pset_ev in H.
    repeat match type of H with
           | context [match ?x with _ => _ end] =>
               let E := fresh "E" in destruct x eqn:E; try discriminate
           end;
    inversion H; subst; clear H; ppc_norm.
    all: pose proof (pi_lock s I t) as Lk;
      match goal with Hp : p_pc _ = _ |- _ => rewrite Hp in Lk end; simpl in Lk.
    all: assert (NotIn : forall u, u <> t -> plock s = Some t -> in_pcs (p_pc (pthr s u)) = false)
      by (intros u Hu Hq; destruct (in_pcs (p_pc (pthr s u))) eqn:Hq'; [|reflexivity];
          apply (pi_lock s I u) in Hq'; congruence).
    all: assert (PstEq : forall e, pst (mkPS (delivered s) (pvalue s) (plock s) (e :: phist s) (pthr s))
                                   = pnext veq (pst s) e)
      by (intro e; unfold pst; simpl; apply plog_snoc).
    all: assert (NoVVal : plock s = Some t -> p_pc (pthr s t) <> VVal -> forall u, p_pc (pthr s u) <> VVal)
      by (intros Hq Hne u; destruct (Nat.eq_dec u t) as [->|Hu]; [exact Hne|];
          intro X; pose proof (NotIn u Hu Hq) as Y; rewrite X in Y; discriminate).
    all: match goal with |- PIv ?s' =>
           assert (Mono : forall w, pst s = Some (Some w) -> pst s' = Some (Some w)) end;
      [ intros w Hw; unfold pst in *; simpl;
        first [ exact Hw
              | rewrite plog_snoc, Hw; simpl;
                first [ reflexivity
                      | (* EValue (pvalue s) *)
                        assert (Hd : delivered s = true) by (apply (pi_del s I t); auto);
                        destruct (pi_st1 s I Hd) as (w' & W1 & W2 & _); unfold pst in W1;
                        assert (w' = w) by congruence; subst w';
                        rewrite (W2 (NoVVal ltac:(apply Lk; reflexivity) ltac:(congruence))), veq_refl; reflexivity
                      | (* delivered s = false: no value yet *)
                        exfalso;
                        assert (Hd : delivered s = false) by first [assumption | apply (pi_flag s I t); assumption];
                        pose proof (pi_st0 s I Hd) as Z; unfold pst in Z; congruence
                      | match goal with X : delivered _ = true |- _ => rewrite X end; reflexivity ] ]
      | ].
    all: constructor; simpl.
    (* lock <-> program point *)
    all: try (intro u; destruct (Nat.eq_dec u t) as [->|Hu];
              [ rewrite ?pupd_same, ?Nat.eqb_refl; simpl; intuition (try congruence)
              | destruct (Oth u Hu) as (Op & _); simpl in Op; rewrite Op;
                first [ exact (pi_lock s I u)
                      | pose proof (pi_lock s I u) as Lu; simpl in *;
                        try (assert (plock s = Some t) as Hl by (apply Lk; reflexivity); rewrite Hl in * );
                        split; intro X; [apply Lu in X; congruence | try congruence; apply Lu; congruence] ] ]; fail).
    (* pst is unchanged when the history is *)
    all: try (unfold pst at 1; simpl; fold (pst s)).
    (* pi_flag *)
    all: try (intro u; destruct (Nat.eq_dec u t) as [->|Hu];
              [ rewrite ?pupd_same, ?Nat.eqb_refl; simpl; intro X; first [discriminate X | assumption | congruence]
              | destruct (Oth u Hu) as (Op & _); simpl in Op; rewrite Op; exact (pi_flag s I u) ]; fail).
    (* pi_del *)
    all: try (intro u; destruct (Nat.eq_dec u t) as [->|Hu];
              [ rewrite ?pupd_same, ?Nat.eqb_refl; simpl; intros [X|[X|X]];
                first [discriminate X | assumption | congruence | reflexivity]
              | destruct (Oth u Hu) as (Op & _); simpl in Op; rewrite Op;
                first [ exact (pi_del s I u) | intros _; reflexivity ] ]; fail).
    (* pi_st0 *)
    all: try exact (pi_st0 s I).
    (* pi_st1, history/value unchanged, no VVal involved *)
    all: try (intro Hd; destruct (pi_st1 s I Hd) as (w & W1 & W2 & W3); exists w; split; [exact W1|split];
              [ intro Hn; apply W2; intro u; destruct (Nat.eq_dec u t) as [->|Hu];
                [ match goal with Hp : p_pc _ = _ |- _ => rewrite Hp end; discriminate
                | specialize (Hn u); destruct (Oth u Hu) as (Op & _); simpl in Op; rewrite Op in Hn; exact Hn ]
              | intro u; destruct (Nat.eq_dec u t) as [->|Hu];
                [ rewrite ?pupd_same, ?Nat.eqb_refl; simpl; intro X; discriminate X
                | destruct (Oth u Hu) as (Op & Oo & _); simpl in Op, Oo; rewrite Op, Oo; exact (W3 u) ] ]; fail).
    (* results of the other threads and of this one when nothing is added *)
    all: try (intros u o v0; destruct (Nat.eq_dec u t) as [->|Hu];
              [ rewrite ?pupd_same, ?Nat.eqb_refl; simpl; intro X;
                apply (res_ok_mono s); [exact Mono|]; exact (pi_done s I t o v0 X)
              | destruct (Oth u Hu) as (_ & _ & Od & _); simpl in Od; rewrite Od; intro X;
                apply (res_ok_mono s); [exact Mono|]; exact (pi_done s I u o v0 X) ]; fail).
    all: try (intros u o rest; destruct (Nat.eq_dec u t) as [->|Hu];
              [ rewrite ?pupd_same, ?Nat.eqb_refl; simpl; intro X; discriminate X
              | destruct (Oth u Hu) as (Op & Oo & _ & Og); simpl in Op, Oo, Og; rewrite Op, Oo, Og; intros X Y;
                apply (res_ok_mono s); [exact Mono|]; exact (pi_got s I u o rest X Y) ]; fail).
    all: idtac.
  Abort.
End PromiseProofs.
