(** C13 proofs, part 2: Promise.  Under every interleaving (including every placement of
    the timeouts of timed derefs): the history of linearization events is accepted by the
    reference promise (Spec.promise_log_ok: first deliver wins, later delivers are ignored,
    every value read is the delivered one, a timeout happens only while undelivered,
    realized? is monotone), and every value a deref returned is the delivered value or --
    timed derefs only -- its own timeout value. *)
From Coq Require Import List Bool Arith Lia.
Import ListNotations.
From Verif Require Import C13.Spec C13.Promise.

Section PromiseProofs.
  Context {V : Type}.
  Variable vnone : V.
  Variable veq : V -> V -> bool.
  Hypothesis veq_refl : forall v, veq v v = true.

  Notation pop := (pop V).
  Notation pres := (pres V).
  Notation pthread := (pthread V).
  Notation pstate := (pstate V).
  Notation pstep := (@pstep V vnone).
  Notation preach := (@preach V vnone).

  Definition in_pcs (p : ppc) : bool :=
    match p with
    | VChk | VFlag | VVal | VNotify | VRel | MPred | MGet | MTmo | MRel | GRead | GRel => true
    | _ => false
    end.

  Definition pst (s : pstate) : option (option V) := plog_run veq (rev (phist s)).

  Definition res_ok (s : pstate) (o : pop) (v : V) : Prop :=
    match o with
    | PDeref tm => (exists w, pst s = Some (Some w) /\ v = w) \/ tm = Some v
    | _ => True
    end.

  Definition op_pc_ok (o : pop) (p : ppc) : Prop :=
    match p with
    | VChk | VFlag | VVal | VNotify | VRel => match o with PDeliver _ => True | _ => False end
    | MPred | MWait | MReacq | MGet | MTmo | MRel => match o with PDeref _ => True | _ => False end
    | GRead | GRel => match o with PReal => True | _ => False end
    | VAcq | MAcq | GAcq => False      (* never stored: only reached through [pentry] *)
    | QIdle => True
    end.

  Record PIv (s : pstate) : Prop := {
    pi_op : forall t, match p_ops (pthr s t) with o :: _ => op_pc_ok o (p_pc (pthr s t)) | [] => True end;
    pi_lock : forall t, in_pcs (p_pc (pthr s t)) = true <-> plock s = Some t;
    pi_flag : forall t, p_pc (pthr s t) = VFlag -> delivered s = false;
    pi_del : forall t, p_pc (pthr s t) = VVal \/ p_pc (pthr s t) = VNotify \/ p_pc (pthr s t) = MGet ->
                       delivered s = true;
    pi_st0 : delivered s = false -> pst s = Some None;
    pi_st1 : delivered s = true ->
             exists w, pst s = Some (Some w)
                       /\ ((forall t, p_pc (pthr s t) <> VVal) -> pvalue s = w)
                       /\ (forall t, p_pc (pthr s t) = VVal -> exists rest, p_ops (pthr s t) = PDeliver w :: rest);
    pi_got : forall t o rest, p_pc (pthr s t) = MRel -> p_ops (pthr s t) = o :: rest ->
                              res_ok s o (p_got (pthr s t));
    pi_done : forall t o v, In (o, PRet v) (p_done (pthr s t)) -> res_ok s o v
  }.

  Lemma plog_snoc l e : plog_run veq (l ++ [e]) = pnext veq (plog_run veq l) e.
  Proof. unfold plog_run. rewrite fold_left_app. reflexivity. Qed.

  Lemma pupd_same (f : nat -> pthread) t th : pupd f t th t = th.
  Proof. unfold pupd. rewrite Nat.eqb_refl. reflexivity. Qed.
  Lemma pupd_other (f : nat -> pthread) t th u : u <> t -> pupd f t th u = f u.
  Proof. unfold pupd. intro H. apply Nat.eqb_neq in H. rewrite H. reflexivity. Qed.

  Lemma PIv_init progs : PIv (pinit vnone progs).
  Proof.
    constructor; simpl; intros; try discriminate; try contradiction; auto.
    - destruct (progs t); simpl; auto.
    - split; intro H; discriminate.
    - destruct H as [H|[H|H]]; discriminate.
  Qed.

  Lemma res_ok_mono s s' o v :
    (forall w, pst s = Some (Some w) -> pst s' = Some (Some w)) -> res_ok s o v -> res_ok s' o v.
  Proof.
    unfold res_ok. destruct o; auto. intros M [(w & H1 & H2)|H]; [left; exists w; auto|right; exact H].
  Qed.

  Ltac ppc_norm :=
    match goal with
    | E : p_ops ?th = ?o :: _, E0 : pcur ?th = _ |- _ =>
        let Hpc := fresh "Hpc" in
        unfold pcur in E0; rewrite E in E0;
        destruct (p_pc th) eqn:Hpc; try discriminate E0;
        [ unfold pentry in E0;
          repeat match type of E0 with
                 | context [match ?x with _ => _ end] => is_var x; destruct x
                 end; try discriminate E0
        | inversion E0; subst; clear E0 .. ]
    end.

  (** what a step does to the threads that do not take it: only the notified flag may change *)
  Lemma pstep_other s t a s' u :
    pstep t a s = Some s' -> u <> t ->
    p_pc (pthr s' u) = p_pc (pthr s u) /\ p_ops (pthr s' u) = p_ops (pthr s u)
    /\ p_done (pthr s' u) = p_done (pthr s u) /\ p_got (pthr s' u) = p_got (pthr s u).
  Proof.
    intros H Hu. unfold Promise.pstep, pset, pset_ev in H.
    repeat match type of H with
           | context [match ?x with _ => _ end] =>
               let E := fresh "E" in destruct x eqn:E; try discriminate
           end;
    inversion H; subst; clear H; simpl; try (rewrite (pupd_other _ _ _ _ Hu); auto).
    apply Nat.eqb_neq in Hu. rewrite Hu. destruct (p_pc (pthr s u)) eqn:Hp; simpl; auto.
  Qed.

  Lemma PIv_step s t a s' : PIv s -> pstep t a s = Some s' -> PIv s'.
  Proof.
    intros I H.
    assert (Oth : forall u, u <> t ->
              p_pc (pthr s' u) = p_pc (pthr s u) /\ p_ops (pthr s' u) = p_ops (pthr s u)
              /\ p_done (pthr s' u) = p_done (pthr s u) /\ p_got (pthr s' u) = p_got (pthr s u))
      by (intros u Hu; eapply pstep_other; eauto).
    unfold Promise.pstep, pset, pset_ev in H.
    repeat match type of H with
           | context [match ?x with _ => _ end] =>
               let E := fresh "E" in destruct x eqn:E; try discriminate
           end;
    inversion H; subst; clear H; ppc_norm.
    all: pose proof (pi_lock s I t) as Lk;
      match goal with Hp : p_pc _ = _ |- _ => rewrite Hp in Lk end; simpl in Lk.
    all: assert (NotIn : forall u, u <> t -> plock s = Some t -> in_pcs (p_pc (pthr s u)) = false)
      by (intros u Hu Hq; destruct (in_pcs (p_pc (pthr s u))) eqn:Hq'; [|reflexivity];
          apply (pi_lock s I u) in Hq'; congruence).
    all: assert (PstEq : forall e, pst (mkPS (delivered s) (pvalue s) (plock s) (e :: phist s) (pthr s))
                                   = pnext veq (pst s) e)
      by (intro e; unfold pst; simpl; apply plog_snoc).
    all: assert (NoVVal : plock s = Some t -> p_pc (pthr s t) <> VVal -> forall u, p_pc (pthr s u) <> VVal)
      by (intros Hq Hne u; destruct (Nat.eq_dec u t) as [->|Hu]; [exact Hne|];
          intro X; pose proof (NotIn u Hu Hq) as Y; rewrite X in Y; discriminate).
    all: match goal with |- PIv ?s' =>
           assert (Mono : forall w, pst s = Some (Some w) -> pst s' = Some (Some w)) end;
      [ intros w Hw; unfold pst in *; simpl;
        first [ exact Hw
              | rewrite plog_snoc, Hw; simpl;
                first [ reflexivity
                      | (* EValue (pvalue s) *)
                        assert (Hd : delivered s = true) by (apply (pi_del s I t); auto);
                        destruct (pi_st1 s I Hd) as (w' & W1 & W2 & _); unfold pst in W1;
                        assert (w' = w) by congruence; subst w';
                        rewrite (W2 (NoVVal ltac:(apply Lk; reflexivity) ltac:(congruence))), veq_refl; reflexivity
                      | (* delivered s = false: no value yet *)
                        exfalso;
                        assert (Hd : delivered s = false) by first [assumption | apply (pi_flag s I t); assumption];
                        pose proof (pi_st0 s I Hd) as Z; unfold pst in Z; congruence
                      | match goal with X : delivered _ = true |- _ => rewrite X end; reflexivity
                      | destruct (delivered s) eqn:Hd; [reflexivity|];
                        exfalso; pose proof (pi_st0 s I Hd) as Z; unfold pst in Z; congruence ] ]
      | ].
    all: pose proof (pi_op s I t) as Lop;
      match goal with E : p_ops _ = _ :: _ |- _ => rewrite E in Lop end;
      match goal with Hp : p_pc _ = _ |- _ => rewrite Hp in Lop end; simpl in Lop.
    all: try (exfalso; exact Lop).
    all: constructor; simpl.
    (* operation <-> program point *)
    all: try (intro u; destruct (Nat.eq_dec u t) as [->|Hu];
              [ rewrite ?pupd_same, ?Nat.eqb_refl; simpl;
                first [ exact Lop | exact Logic.I
                      | destruct l; simpl; exact Logic.I
                      | match goal with E : p_ops _ = _ :: _ |- _ => rewrite ?E end; simpl;
                        first [exact Lop | exact Logic.I | destruct l; simpl; exact Logic.I] ]
              | destruct (Oth u Hu) as (Op & Oo & _); simpl in Op, Oo; rewrite Op, Oo; exact (pi_op s I u) ]; fail).
    (* lock <-> program point *)
    all: try (intro u; destruct (Nat.eq_dec u t) as [->|Hu];
              [ rewrite ?pupd_same, ?Nat.eqb_refl; simpl; intuition (try congruence)
              | destruct (Oth u Hu) as (Op & _); simpl in Op; rewrite Op;
                first [ exact (pi_lock s I u)
                      | pose proof (pi_lock s I u) as Lu; simpl in *;
                        try (assert (plock s = Some t) as Hl by (apply Lk; reflexivity); rewrite Hl in * );
                        split; intro X; [apply Lu in X; congruence | try congruence; apply Lu; congruence] ] ]; fail).
    (* pst is unchanged when the history is *)
    all: try (unfold pst at 1; simpl; fold (pst s)).
    (* pi_flag *)
    all: try (intro u; destruct (Nat.eq_dec u t) as [->|Hu];
              [ rewrite ?pupd_same, ?Nat.eqb_refl; simpl; intro X; first [discriminate X | assumption | congruence]
              | destruct (Oth u Hu) as (Op & _); simpl in Op; rewrite Op; exact (pi_flag s I u) ]; fail).
    (* pi_del *)
    all: try (intro u; destruct (Nat.eq_dec u t) as [->|Hu];
              [ rewrite ?pupd_same, ?Nat.eqb_refl; simpl; intros [X|[X|X]];
                first [discriminate X | assumption | congruence | reflexivity]
              | destruct (Oth u Hu) as (Op & _); simpl in Op; rewrite Op;
                first [ exact (pi_del s I u) | intros _; reflexivity ] ]; fail).
    (* pi_st0 *)
    all: try exact (pi_st0 s I).
    (* pi_st1, history/value unchanged, no VVal involved *)
    all: try (intro Hd; destruct (pi_st1 s I Hd) as (w & W1 & W2 & W3); exists w; split; [exact W1|split];
              [ intro Hn; apply W2; intro u; destruct (Nat.eq_dec u t) as [->|Hu];
                [ match goal with Hp : p_pc _ = _ |- _ => rewrite Hp end; discriminate
                | specialize (Hn u); destruct (Oth u Hu) as (Op & _); simpl in Op; rewrite Op in Hn; exact Hn ]
              | intro u; destruct (Nat.eq_dec u t) as [->|Hu];
                [ rewrite ?pupd_same, ?Nat.eqb_refl; simpl; intro X; discriminate X
                | destruct (Oth u Hu) as (Op & Oo & _); simpl in Op, Oo; rewrite Op, Oo; exact (W3 u) ] ]; fail).
    (* results of the other threads and of this one when nothing is added *)
    all: try (intros u o v0; destruct (Nat.eq_dec u t) as [->|Hu];
              [ rewrite ?pupd_same, ?Nat.eqb_refl; simpl; intro X;
                apply (res_ok_mono s); [exact Mono|]; exact (pi_done s I t o v0 X)
              | destruct (Oth u Hu) as (_ & _ & Od & _); simpl in Od; rewrite Od; intro X;
                apply (res_ok_mono s); [exact Mono|]; exact (pi_done s I u o v0 X) ]; fail).
    all: try (intros u o rest; destruct (Nat.eq_dec u t) as [->|Hu];
              [ rewrite ?pupd_same, ?Nat.eqb_refl; simpl; intro X; discriminate X
              | destruct (Oth u Hu) as (Op & Oo & _ & Og); simpl in Op, Oo, Og; rewrite Op, Oo, Og; intros X Y;
                apply (res_ok_mono s); [exact Mono|]; exact (pi_got s I u o rest X Y) ]; fail).
    all: try (intros; reflexivity).
    all: try (intro X; discriminate X).
    all: try (intro u; destruct (Nat.eq_dec u t) as [->|Hu];
              [ rewrite ?pupd_same, ?Nat.eqb_refl; simpl; intro X; first [discriminate X | destruct X as [X|[X|X]]; discriminate X]
              | destruct (Oth u Hu) as (Op & _); simpl in Op; rewrite Op; intro X;
                first [ pose proof (pi_flag s I u X); congruence | pose proof (pi_del s I u X); congruence ] ]; fail).
    (* leftovers of pi_op *)
    all: try solve [ intro u; destruct (Nat.eq_dec u t) as [->|Hu];
                     [ rewrite ?pupd_same; simpl; rewrite ?E; simpl; auto
                     | destruct (Oth u Hu) as (Op & Oo & _); simpl in Op, Oo; rewrite Op, Oo; exact (pi_op s I u) ] ].
    (* facts available when the stepping thread holds the lock *)
    all: try (assert (HL : plock s = Some t) by (apply Lk; reflexivity)).
    (* pi_st0 variants *)
    all: try solve [ intros _; apply (pi_st0 s I); first [assumption | apply (pi_flag s I t); assumption] ].
    all: try solve [ intro Hd; rewrite plog_snoc;
                     assert (Z : pst s = Some None) by (apply (pi_st0 s I); first [assumption | exact Hd]);
                     unfold pst in Z; rewrite Z; simpl; rewrite ?Hd; reflexivity ].
    all: try solve [ intro Hd; exfalso; assert (delivered s = true) by (apply (pi_del s I t); auto); congruence ].
    (* pi_st1 when nobody is at VVal after the step *)
    all: try solve [
      intro Hd';
      assert (Hd : delivered s = true) by first [assumption | exact Hd' | apply (pi_del s I t); auto];
      destruct (pi_st1 s I Hd) as (w & W1 & W2 & W3); exists w;
      assert (NV : forall u, p_pc (pthr s u) <> VVal)
        by (apply NoVVal; [exact HL | match goal with Hp : p_pc _ = _ |- _ => rewrite Hp end; discriminate]);
      split;
      [ first [ exact W1
              | unfold pst in W1; rewrite plog_snoc, W1; simpl; rewrite ?(W2 NV), ?veq_refl, ?Hd; reflexivity ]
      | split;
        [ intros _; exact (W2 NV)
        | intro u; destruct (Nat.eq_dec u t) as [->|Hu];
          [ rewrite ?pupd_same; simpl; intro X; discriminate X
          | destruct (Oth u Hu) as (Op & _); simpl in Op; rewrite Op; intro X; exfalso; exact (NV u X) ] ] ] ].
    (* pi_op after an entry step *)
    all: try solve [ intro u; destruct (Nat.eq_dec u t) as [->|Hu];
                     [ rewrite ?pupd_same; simpl; rewrite ?E; simpl;
                       repeat match goal with o : Promise.pop V |- _ => destruct o; simpl in *; try discriminate end;
                       auto
                     | destruct (Oth u Hu) as (Op & Oo & _); simpl in Op, Oo; rewrite Op, Oo; exact (pi_op s I u) ] ].
    (* VFlag -> VVal: the first deliver *)
    all: try solve [ intro u; destruct (Nat.eq_dec u t) as [->|Hu];
                     [ rewrite ?pupd_same; simpl; intro X; discriminate X
                     | destruct (Oth u Hu) as (Op & _); simpl in Op; rewrite Op; intro X;
                       pose proof (NotIn u Hu HL) as Y; rewrite X in Y; discriminate Y ] ].
    all: try solve [
      intros _; exists v;
      assert (Z : pst s = Some None) by (apply (pi_st0 s I); apply (pi_flag s I t); assumption);
      split; [ unfold pst in Z; rewrite plog_snoc, Z; reflexivity | split ];
      [ intro Hn; exfalso; apply (Hn t); rewrite pupd_same; reflexivity
      | intro u; destruct (Nat.eq_dec u t) as [->|Hu];
        [ rewrite ?pupd_same; simpl; intros _; exists l; exact E
        | destruct (Oth u Hu) as (Op & _); simpl in Op; rewrite Op; intro X;
          pose proof (NotIn u Hu HL) as Y; rewrite X in Y; discriminate Y ] ] ].
    (* VVal -> VNotify: the value is stored *)
    all: try solve [ intro u; destruct (Nat.eq_dec u t) as [->|Hu];
                     [ intros _; apply (pi_del s I t); auto
                     | destruct (Oth u Hu) as (Op & _); simpl in Op; rewrite Op; exact (pi_del s I u) ] ].
    all: try solve [
      intro Hd; destruct (pi_st1 s I Hd) as (w & W1 & W2 & W3); exists w;
      destruct (W3 t Hpc) as (rest & Hr); rewrite E in Hr; inversion Hr; subst;
      split; [exact W1|split]; [ intros _; reflexivity
      | intro u; destruct (Nat.eq_dec u t) as [->|Hu];
        [ rewrite ?pupd_same; simpl; intro X; discriminate X
        | destruct (Oth u Hu) as (Op & _); simpl in Op; rewrite Op; intro X;
          pose proof (NotIn u Hu HL) as Y; rewrite X in Y; discriminate Y ] ] ].
    (* lock field when a woken waiter finds the lock busy *)
    all: try solve [
      intro u; pose proof (pi_lock s I u) as Lu;
      match goal with X : plock _ = Some ?nn |- _ => rewrite X in Lu, Lk end;
      destruct (Nat.eq_dec u t) as [->|Hu];
      [ rewrite ?pupd_same; simpl; split; intro X; [discriminate X|];
        exfalso; assert (false = true) by (apply Lk; exact X); discriminate
      | destruct (Oth u Hu) as (Op & _); simpl in Op; rewrite Op; exact Lu ] ].
    (* results: done lists after a finish *)
    all: try solve [
      intros u o v0; destruct (Nat.eq_dec u t) as [->|Hu];
      [ rewrite ?pupd_same; simpl; intros [Heq|Hin];
        [ inversion Heq; subst; clear Heq;
          first [ destruct o; simpl in *; tauto
                | apply (res_ok_mono s); [exact Mono|]; exact (pi_got s I t o l Hpc E) ]
        | apply (res_ok_mono s); [exact Mono|]; exact (pi_done s I t o v0 Hin) ]
      | destruct (Oth u Hu) as (_ & _ & Od & _); simpl in Od; rewrite Od; intro X;
        apply (res_ok_mono s); [exact Mono|]; exact (pi_done s I u o v0 X) ] ].
    (* results: the value register at MRel *)
    all: try solve [
      intros u o rest; destruct (Nat.eq_dec u t) as [->|Hu];
      [ rewrite ?pupd_same; simpl; intros _ Heq; inversion Heq; subst; clear Heq;
        first [ right; reflexivity
              | destruct o; simpl in *; try tauto; left;
                assert (Hd : delivered s = true) by (apply (pi_del s I t); auto);
                destruct (pi_st1 s I Hd) as (w & W1 & W2 & _); exists w;
                split; [apply Mono; exact W1|];
                apply W2; apply NoVVal; [exact HL|rewrite Hpc; discriminate] ]
      | destruct (Oth u Hu) as (Op & Oo & _ & Og); simpl in Op, Oo, Og; rewrite Op, Oo, Og; intros X Y;
        apply (res_ok_mono s); [exact Mono|]; exact (pi_got s I u o rest X Y) ] ].
  Qed.

  Theorem preach_PIv progs s : preach (pinit vnone progs) s -> PIv s.
  Proof. intro R. induction R; eauto using PIv_init, PIv_step. Qed.

  (** ---- the statements ---- *)

  (** first deliver wins, later delivers are ignored, values read are the delivered one, a
      timeout only while undelivered, realized? monotone: the history is a run of the
      reference promise *)
  Theorem promise_history_ok progs s :
    preach (pinit vnone progs) s -> promise_log_ok veq (rev (phist s)) = true.
  Proof.
    intro R. pose proof (preach_PIv progs s R) as I. unfold promise_log_ok.
    destruct (delivered s) eqn:Hd.
    - destruct (pi_st1 s I Hd) as (w & W1 & _). unfold pst in W1. rewrite W1. reflexivity.
    - pose proof (pi_st0 s I Hd) as Z. unfold pst in Z. rewrite Z. reflexivity.
  Qed.

  (** what a deref returned: the delivered value, or (timed deref only) its timeout value *)
  Theorem promise_deref_result progs s t tm v :
    preach (pinit vnone progs) s -> In (PDeref tm, PRet v) (p_done (pthr s t)) ->
    (exists w, plog_run veq (rev (phist s)) = Some (Some w) /\ v = w) \/ tm = Some v.
  Proof. intros R H. exact (pi_done s (preach_PIv progs s R) t (PDeref tm) v H). Qed.

  (** two derefs that did not time out returned the same value *)
  Corollary promise_derefs_agree progs s t1 v1 t2 v2 :
    preach (pinit vnone progs) s ->
    In (PDeref None, PRet v1) (p_done (pthr s t1)) -> In (PDeref None, PRet v2) (p_done (pthr s t2)) ->
    v1 = v2.
  Proof.
    intros R H1 H2.
    destruct (promise_deref_result progs s t1 None v1 R H1) as [(w1 & A1 & B1)|X]; [|discriminate].
    destruct (promise_deref_result progs s t2 None v2 R H2) as [(w2 & A2 & B2)|X]; [|discriminate].
    congruence.
  Qed.

  (** once delivered (flag and value stored, lock free), a deref started by any thread
      returns the delivered value in four steps of its own, without waiting *)
  Theorem promise_deref_after_deliver s t tm rest :
    delivered s = true -> plock s = None ->
    p_ops (pthr s t) = PDeref tm :: rest -> p_pc (pthr s t) = QIdle ->
    exists s1 s2 s3 s4,
      pstep t ARun s = Some s1 /\ pstep t ARun s1 = Some s2 /\ pstep t ARun s2 = Some s3
      /\ pstep t ARun s3 = Some s4
      /\ p_done (pthr s4 t) = (PDeref tm, PRet (pvalue s)) :: p_done (pthr s t)
      /\ p_ops (pthr s4 t) = rest /\ plock s4 = None.
  Proof.
    intros Hd Hl Hops Hpc.
    eexists. eexists. eexists. eexists.
    split; [unfold Promise.pstep; rewrite Hops; unfold pcur; rewrite Hpc, Hops; simpl; rewrite Hl; reflexivity|].
    split; [unfold Promise.pstep, pset, pset_ev; simpl; rewrite ?pupd_same; simpl; rewrite ?Hops; simpl;
            rewrite ?Hd; reflexivity|].
    split; [unfold Promise.pstep, pset, pset_ev; simpl; rewrite ?pupd_same; simpl; rewrite ?Hops; simpl;
            reflexivity|].
    split; [unfold Promise.pstep, pset, pset_ev; simpl; rewrite ?pupd_same; simpl; rewrite ?Hops; simpl;
            reflexivity|].
    simpl. rewrite pupd_same. simpl. auto.
  Qed.
End PromiseProofs.

(** ---- consequences of [promise_log_ok] on the history itself ---- *)
Section LogFacts.
  Context {V : Type}.
  Variable veq : V -> V -> bool.

  Definition reals (l : list (pev V)) : list bool :=
    flat_map (fun e => match e with EReal b => [b] | _ => [] end) l.

  Lemma mono_of_all_true (l : list bool) : forallb (fun b => b) l = true -> mono_bools l = true.
  Proof. induction l as [|[] l IH]; simpl; intro H; auto. discriminate. Qed.

  Lemma fold_none l : fold_left (pnext veq) l None = None.
  Proof. induction l; simpl; auto. Qed.

  Lemma delivered_stays l w st :
    fold_left (pnext veq) l (Some (Some w)) = Some st -> st = Some w.
  Proof.
    revert st. induction l as [|e l IH]; simpl; intros st H; [congruence|].
    destruct e; simpl in H; try (rewrite fold_none in H; discriminate); auto.
    - destruct (veq v w); [auto|rewrite fold_none in H; discriminate].
    - destruct b; [auto|rewrite fold_none in H; discriminate].
  Qed.

  Lemma delivered_no_timeout l w st :
    fold_left (pnext veq) l (Some (Some w)) = Some st -> ~ In ETimeout l.
  Proof.
    revert st. induction l as [|e l IH]; simpl; intros st H Hin; [contradiction|].
    destruct Hin as [Hin|Hin].
    - subst e. simpl in H. rewrite fold_none in H. discriminate.
    - destruct e; simpl in H; try (rewrite fold_none in H; discriminate); try (eapply IH; eauto; fail).
      + destruct (veq v w); [eapply IH; eauto|rewrite fold_none in H; discriminate].
      + destruct b; [eapply IH; eauto|rewrite fold_none in H; discriminate].
  Qed.

  Lemma delivered_reals_true l w st :
    fold_left (pnext veq) l (Some (Some w)) = Some st -> forallb (fun b => b) (reals l) = true.
  Proof.
    revert st. induction l as [|e l IH]; simpl; intros st H; [reflexivity|].
    destruct e; simpl in *; try (rewrite fold_none in H; discriminate); try (eapply IH; eauto; fail).
    - destruct (veq v w); [eapply IH; eauto|rewrite fold_none in H; discriminate].
    - destruct b; [simpl; eapply IH; eauto|rewrite fold_none in H; discriminate].
  Qed.

  (** a timed deref times out only before the (first) deliver *)
  Theorem log_ok_timeout_only_if_undelivered l1 v l2 :
    promise_log_ok veq (l1 ++ EDeliver v :: l2) = true -> ~ In ETimeout l2.
  Proof.
    unfold promise_log_ok, plog_run. rewrite fold_left_app. simpl.
    destruct (fold_left (pnext veq) l1 (Some None)) as [[w|]|] eqn:E1; simpl.
    - rewrite fold_none. discriminate.
    - destruct (fold_left (pnext veq) l2 (Some (Some v))) eqn:E2; [|discriminate].
      intros _. eapply delivered_no_timeout; eauto.
    - rewrite fold_none. discriminate.
  Qed.

  (** at most one deliver takes effect *)
  Theorem log_ok_first_wins l1 v l2 :
    promise_log_ok veq (l1 ++ EDeliver v :: l2) = true ->
    (forall u, ~ In (EDeliver u) l2) /\ (forall u, In (EValue u) l2 -> veq u v = true).
  Proof.
    unfold promise_log_ok, plog_run. rewrite fold_left_app. simpl.
    destruct (fold_left (pnext veq) l1 (Some None)) as [[w|]|] eqn:E1; simpl;
      try (rewrite fold_none; discriminate).
    destruct (fold_left (pnext veq) l2 (Some (Some v))) eqn:E2; [|discriminate]. intros _.
    clear E1. revert o E2. induction l2 as [|e l2 IH]; simpl; intros o E2.
    - split; intros u H; contradiction.
    - destruct e; simpl in E2; try (rewrite fold_none in E2; discriminate).
      + destruct (IH _ E2) as [A B]. split; [intros u [H|H]; [discriminate|eapply A; eauto]|].
        intros u [H|H]; [discriminate|auto].
      + destruct (veq v0 v) eqn:Ev; [|rewrite fold_none in E2; discriminate].
        destruct (IH _ E2) as [A B]. split; [intros u [H|H]; [discriminate|eapply A; eauto]|].
        intros u [H|H]; [inversion H; subst; exact Ev|auto].
      + destruct b; [|rewrite fold_none in E2; discriminate].
        destruct (IH _ E2) as [A B]. split; [intros u [H|H]; [discriminate|eapply A; eauto]|].
        intros u [H|H]; [discriminate|auto].
  Qed.

  (** realized? observations are monotone *)
  Theorem log_ok_realized_monotone l :
    promise_log_ok veq l = true -> mono_bools (reals l) = true.
  Proof.
    unfold promise_log_ok, plog_run.
    assert (G : forall l st, fold_left (pnext veq) l (Some None) = Some st -> mono_bools (reals l) = true).
    { clear l. induction l as [|e l IH]; simpl; intros st H; [reflexivity|].
      destruct e; simpl in *; try (rewrite fold_none in H; discriminate); try (eapply IH; eauto; fail).
      - eapply (mono_of_all_true (reals l)). eapply delivered_reals_true; eauto.
      - destruct b; [rewrite fold_none in H; discriminate|]. eapply IH; eauto. }
    destruct (fold_left (pnext veq) l (Some None)) eqn:E; [|discriminate]. intros _. eapply G; eauto.
  Qed.
End LogFacts.
