(** C13 proofs, part 2: Promise.  Under every interleaving (including every placement of
    the timeouts of timed derefs): the history of linearization events is accepted by the
    reference promise (Spec.promise_log_ok: first deliver wins, later delivers are ignored,
    every value read is the delivered one, a timeout happens only while undelivered,
    realized? is monotone), and every value a deref returned is the delivered value or --
    timed derefs only -- its own timeout value. *)
From Coq Require Import List Bool Arith Lia.
Import ListNotations.
From Verif Require Import C13.Spec C13.Promise.

Section PromiseProofs.
  Context {V : Type}.
  Variable vnone : V.
  Variable veq : V -> V -> bool.
  Hypothesis veq_refl : forall v, veq v v = true.

  Notation pop := (pop V).
  Notation pres := (pres V).
  Notation pthread := (pthread V).
  Notation pstate := (pstate V).
  Notation pstep := (@pstep V vnone).
  Notation preach := (@preach V vnone).

  Definition in_pcs (p : ppc) : bool :=
    match p with
    | VChk | VFlag | VVal | VNotify | VRel | MPred | MGet | MTmo | MRel | GRead | GRel => true
    | _ => false
    end.

  Definition pst (s : pstate) : option (option V) := plog_run veq (rev (phist s)).

  Definition res_ok (s : pstate) (o : pop) (v : V) : Prop :=
    match o with
    | PDeref tm => (exists w, pst s = Some (Some w) /\ v = w) \/ tm = Some v
    | _ => True
    end.

  Record PIv (s : pstate) : Prop := {
    pi_lock : forall t, in_pcs (p_pc (pthr s t)) = true <-> plock s = Some t;
    pi_flag : forall t, p_pc (pthr s t) = VFlag -> delivered s = false;
    pi_del : forall t, p_pc (pthr s t) = VVal \/ p_pc (pthr s t) = VNotify \/ p_pc (pthr s t) = MGet ->
                       delivered s = true;
    pi_st0 : delivered s = false -> pst s = Some None;
    pi_st1 : delivered s = true ->
             exists w, pst s = Some (Some w)
                       /\ ((forall t, p_pc (pthr s t) <> VVal) -> pvalue s = w)
                       /\ (forall t, p_pc (pthr s t) = VVal -> exists rest, p_ops (pthr s t) = PDeliver w :: rest);
    pi_got : forall t o rest, p_pc (pthr s t) = MRel -> p_ops (pthr s t) = o :: rest ->
                              res_ok s o (p_got (pthr s t));
    pi_done : forall t o v, In (o, PRet v) (p_done (pthr s t)) -> res_ok s o v
  }.

  Lemma plog_snoc l e : plog_run veq (l ++ [e]) = pnext veq (plog_run veq l) e.
  Proof. unfold plog_run. rewrite fold_left_app. reflexivity. Qed.

  Lemma pupd_same (f : nat -> pthread) t th : pupd f t th t = th.
  Proof. unfold pupd. rewrite Nat.eqb_refl. reflexivity. Qed.
  Lemma pupd_other (f : nat -> pthread) t th u : u <> t -> pupd f t th u = f u.
  Proof. unfold pupd. intro H. apply Nat.eqb_neq in H. rewrite H. reflexivity. Qed.

  Lemma PIv_init progs : PIv (pinit vnone progs).
  Proof.
    constructor; simpl; intros; try discriminate; try contradiction; auto.
    - split; intro H; discriminate.
    - destruct H as [H|[H|H]]; discriminate.
  Qed.

  Lemma res_ok_mono s s' o v :
    (forall w, pst s = Some (Some w) -> pst s' = Some (Some w)) -> res_ok s o v -> res_ok s' o v.
  Proof.
    unfold res_ok. destruct o; auto. intros M [(w & H1 & H2)|H]; [left; exists w; auto|right; exact H].
  Qed.
End PromiseProofs.
