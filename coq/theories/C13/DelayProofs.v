(** C13 proofs, part 1: the repaired Delay (double-checked lock).  Under every
    interleaving of any number of threads: a body run begins only when no run is in
    progress and none has ever returned; the body log is accepted by Spec.once_log; all
    derefs that return a value return the value of that unique run; realized? is monotone. *)
From Coq Require Import List Bool Arith NArith Lia.
Import ListNotations.
From Verif Require Import C13.Spec C13.Delay.

Ltac dstep_destruct H :=
  unfold dstep, set_thr, set_alock, set_qlock in H;
  repeat match type of H with
         | context [match ?x with _ => _ end] =>
             let E := fresh "E" in destruct x eqn:E; try discriminate
         end;
  inversion H; subst; clear H.

Section DelayProofs.
  Context {V : Type}.
  Variable mode : N.
  Variable cas_ok : option V -> option V -> bool.
  Variable body : nat -> option V.
  Hypothesis Hlocked : locked mode = true.
  Hypothesis cas_refl : forall x, cas_ok x x = true.

  Notation dthread := (dthread V).
  Notation dstate := (dstate V).
  Notation dstep := (@dstep V mode cas_ok body).
  Notation dreach := (@dreach V mode cas_ok body).

  Definition in_acs (p : dpc) : bool :=
    match p with DRdRead | DRdRel | DSCmp | DSSet | DSRel _ => true | _ => false end.
  Definition in_q (p : dpc) : bool :=
    match p with
    | DSRead | DSComp | DBodyB | DBodyE | DSVal | DSAcq | DSCmp | DSSet | DSRel _ | DQRel _ => true
    | _ => false
    end.
  Definition window (p : dpc) : bool :=
    match p with DSVal | DSAcq | DSCmp | DSSet => true | _ => false end.

  Definition bst (s : dstate) : bstate :=
    match rets s, inbody s with
    | [], O => BIdle
    | [], _ => BRunning
    | _ :: _, _ => BDone
    end.

  (** facts about a thread that holds Delay._lock, by program point *)
  Definition holder_ok (s : dstate) (th : dthread) : Prop :=
    match d_pc th with
    | DSComp => d_old th = dcell s
    | DBodyB => d_old th = dcell s /\ dcell s = None
    | DBodyE => d_old th = dcell s /\ dcell s = None /\ inbody s = 1
    | DSVal | DSAcq | DSCmp | DSSet =>
        d_old th = dcell s /\ exists v, d_new th = Some v /\ rets s = [v]
                                        /\ (d_old th = None \/ d_old th = Some v)
    | DSRel true | DQRel false => d_new th = dcell s /\ exists v, dcell s = Some v
    | DSRel false => False
    | _ => True
    end.

  Record DInv (s : dstate) : Prop := {
    di_a : forall t, in_acs (d_pc (dthr s t)) = true <-> alock s = Some t;
    di_q : forall t, in_q (d_pc (dthr s t)) = true <-> qlock s = Some t;
    di_h : forall t, holder_ok s (dthr s t);
    di_cell : forall v, dcell s = Some v -> rets s = [v];
    di_body : inbody s = 0 \/ (inbody s = 1 /\ rets s = [] /\ exists t, d_pc (dthr s t) = DBodyE);
    di_rets : dcell s = None -> rets s = [] \/ exists t, window (d_pc (dthr s t)) = true;
    di_st : forall t v, d_st (dthr s t) = Some v -> rets s = [v];
    di_done : forall t o v, In (o, DVal v) (d_done (dthr s t)) -> rets s = [v];
    di_log : brun (map snd (rev (blog s))) = bst s;
    di_real : (dcell s = None -> forallb negb (rlog s) = true) /\ mono_bools (rev (rlog s)) = true
  }.

  Lemma dupd_same (f : nat -> dthread) t th : dupd f t th t = th.
  Proof. unfold dupd. rewrite Nat.eqb_refl. reflexivity. Qed.
  Lemma dupd_other (f : nat -> dthread) t th u : u <> t -> dupd f t th u = f u.
  Proof. unfold dupd. intro H. apply Nat.eqb_neq in H. rewrite H. reflexivity. Qed.

  Lemma DInv_init progs : DInv (dinit progs).
  Proof.
    constructor; simpl; intros; try discriminate; auto.
    - split; intro H; discriminate.
    - split; intro H; discriminate.
    - unfold holder_ok; simpl; auto.
    - contradiction.
  Qed.

  Lemma brun_snoc l e : brun (l ++ [e]) = bnext (brun l) e.
  Proof. unfold brun. rewrite fold_left_app. reflexivity. Qed.

  Lemma mono_snoc_true l : mono_bools l = true -> mono_bools (l ++ [true]) = true.
  Proof.
    induction l as [|[] l IH]; simpl; intro H; auto.
    rewrite forallb_app, H. reflexivity.
  Qed.
  Lemma mono_all_false l : forallb negb l = true -> mono_bools (l ++ [false]) = true.
  Proof.
    induction l as [|[] l IH]; simpl; intro H; auto; discriminate.
  Qed.
  Lemma forallb_rev {A} (f : A -> bool) l : forallb f (rev l) = forallb f l.
  Proof.
    induction l as [|x l IH]; simpl; auto. rewrite forallb_app, IH. simpl.
    rewrite andb_true_r. apply andb_comm.
  Qed.

  Lemma holder_ok_other (s' : dstate) (th : dthread) : in_q (d_pc th) = false -> holder_ok s' th.
  Proof. unfold holder_ok. destruct (d_pc th) as [| | | | | | | | | | | | | |[]|[]]; simpl; intro H; try discriminate; auto. Qed.

  Lemma holder_ok_same (s s' : dstate) (th : dthread) :
    dcell s = dcell s' -> rets s = rets s' -> inbody s = inbody s' -> holder_ok s th -> holder_ok s' th.
  Proof. unfold holder_ok. intros H1 H2 H3. rewrite H1, H2, H3. auto. Qed.

  Ltac dpc_norm :=
    match goal with
    | E : d_ops ?th = ?o :: _, E0 : dcur _ ?th = _ |- _ =>
        let Hpc := fresh "Hpc" in
        unfold dcur in E0; rewrite E in E0;
        destruct (d_pc th) eqn:Hpc; try discriminate E0;
        [ unfold dentry in E0; try rewrite Hlocked in E0;
          repeat match type of E0 with
                 | context [match ?x with _ => _ end] => is_var x; destruct x
                 end; try discriminate E0
        | inversion E0; subst; clear E0 .. ]
    end.

  Lemma DInv_step s t s' : DInv s -> dstep t s = Some s' -> DInv s'.
  Proof.
    intros I H.
    unfold Delay.dstep, set_thr, set_alock, set_qlock in H. rewrite ?Hlocked in H.
    repeat match type of H with
           | context [match ?x with _ => _ end] =>
               let E := fresh "E" in destruct x eqn:E; try discriminate
           end;
    inversion H; subst; clear H; dpc_norm.
    all: pose proof (di_h s I t) as L; unfold holder_ok in L;
      match goal with Hp : d_pc _ = _ |- _ => rewrite Hp in L end; simpl in L.
    all: pose proof (di_a s I t) as La; pose proof (di_q s I t) as Lq;
      match goal with Hp : d_pc _ = _ |- _ => rewrite Hp in La, Lq end; simpl in La, Lq.
    all: try (exfalso; exact L).
    all: constructor; simpl.
    (* alock / qlock <-> program point *)
    all: try (intro u; destruct (Nat.eq_dec u t) as [->|Hu];
              [ rewrite dupd_same | rewrite (dupd_other _ _ _ _ Hu) ]; simpl;
              [ intuition (try congruence)
              | first [ exact (di_a s I u) | exact (di_q s I u)
                      | pose proof (di_a s I u) as Lu; simpl in *;
                        try (assert (alock s = Some t) as Hl by (apply La; reflexivity); rewrite Hl in * );
                        split; intro X; [apply Lu in X; congruence | try congruence; apply Lu; congruence]
                      | pose proof (di_q s I u) as Lu; simpl in *;
                        try (assert (qlock s = Some t) as Hl by (apply Lq; reflexivity); rewrite Hl in * );
                        split; intro X; [apply Lu in X; congruence | try congruence; apply Lu; congruence] ] ]; fail).
    (* facts used below *)
    all: assert (NotQ : forall u, u <> t -> qlock s = Some t -> in_q (d_pc (dthr s u)) = false)
      by (intros u Hu Hq; destruct (in_q (d_pc (dthr s u))) eqn:Hq'; [|reflexivity];
          apply (di_q s I u) in Hq'; congruence).
    (* holder facts of the other threads *)
    all: try (intro u; destruct (Nat.eq_dec u t) as [->|Hu];
              [ rewrite dupd_same
              | rewrite (dupd_other _ _ _ _ Hu);
                first [ apply (holder_ok_same s); [reflexivity|reflexivity|reflexivity|exact (di_h s I u)]
                      | apply holder_ok_other; apply NotQ; [exact Hu|apply Lq; reflexivity] ] ]).
    (* unchanged fields *)
    all: try exact (di_cell s I).
    all: try exact (di_log s I).
    all: try exact (di_real s I).
    all: try (intros u v; destruct (Nat.eq_dec u t) as [->|Hu];
              [ rewrite dupd_same | rewrite (dupd_other _ _ _ _ Hu); exact (di_st s I u v) ];
              simpl; exact (di_st s I t v)).
    all: try (intros u o v; destruct (Nat.eq_dec u t) as [->|Hu];
              [ rewrite dupd_same | rewrite (dupd_other _ _ _ _ Hu); exact (di_done s I u o v) ];
              simpl; exact (di_done s I t o v)).
    all: try (unfold holder_ok; simpl; exact Logic.I).
    all: try (destruct (di_body s I) as [B|(B1 & B2 & u & Bu)];
              [ left; exact B
              | right; split; [exact B1|split; [exact B2|]]; exists u;
                destruct (Nat.eq_dec u t) as [->|Hu];
                [congruence|rewrite (dupd_other _ _ _ _ Hu); exact Bu] ]).
    all: try (intro Hc; destruct (di_rets s I Hc) as [R|(u & Wu)];
              [ left; exact R
              | right; exists u; destruct (Nat.eq_dec u t) as [->|Hu];
                [ rewrite dupd_same; simpl;
                  match goal with Hp : d_pc _ = _ |- _ => rewrite Hp in Wu end; simpl in Wu;
                  first [discriminate Wu | reflexivity]
                | rewrite (dupd_other _ _ _ _ Hu); exact Wu ] ]).
    all: assert (RetsEmpty : dcell s = None -> qlock s = Some t ->
                             window (d_pc (dthr s t)) = false -> rets s = [])
      by (intros Hc Hq Hw; destruct (di_rets s I Hc) as [R|(u & Wu)]; [exact R|];
          exfalso; destruct (Nat.eq_dec u t) as [->|Hu]; [congruence|];
          pose proof (NotQ u Hu Hq) as Nq; destruct (d_pc (dthr s u)); simpl in *; discriminate).
    all: assert (NoBody : qlock s = Some t -> d_pc (dthr s t) <> DBodyE -> inbody s = 0)
      by (intros Hq Hp; destruct (di_body s I) as [B|(B1 & B2 & u & Bu)]; [exact B|];
          exfalso; destruct (Nat.eq_dec u t) as [->|Hu]; [congruence|];
          pose proof (NotQ u Hu Hq) as Nq; rewrite Bu in Nq; discriminate).
    all: unfold holder_ok, bst in *; simpl in *.
    all: repeat match goal with
         | X : _ /\ _ |- _ => destruct X
         | X : exists _, _ |- _ => destruct X
         end.
    all: try (assert (Hq : qlock s = Some t) by (apply Lq; reflexivity)).
    (* d_st / d_done of the stepping thread *)
    all: try (intros u v0; destruct (Nat.eq_dec u t) as [->|Hu];
              [ rewrite dupd_same; simpl | rewrite (dupd_other _ _ _ _ Hu); intro X; try (exact (di_st s I u v0 X)) ]).
    all: try (intros u o' v0; destruct (Nat.eq_dec u t) as [->|Hu];
              [ rewrite dupd_same; simpl; intros [Heq|Hin];
                [ inversion Heq; subst; clear Heq | try (exact (di_done s I t o' v0 Hin)) ]
              | rewrite (dupd_other _ _ _ _ Hu); intro X; try (exact (di_done s I u o' v0 X)) ]).
    all: try (exact (di_cell s I _)).
    all: try (apply (di_st s I t); assumption).
    all: try match goal with
         | |- In (?o, DVal ?x) (d_done (dthr ?s0 ?u)) -> _ =>
             let Hin := fresh "Hin" in intro Hin; pose proof (di_done s0 I u o x Hin) as Hd
         | |- forall v1, In (?o, DVal v1) (d_done (dthr ?s0 ?u)) -> _ =>
             let Hin := fresh "Hin" in intros v1 Hin; pose proof (di_done s0 I u o v1 Hin) as Hd
         | |- forall v1, _ = (_, DVal v1) \/ In (?o, DVal v1) (d_done (dthr ?s0 ?u)) -> _ =>
             let Hin := fresh "Hin" in
             intros v1 [Heq|Hin]; [inversion Heq; subst; clear Heq | pose proof (di_done s0 I u o v1 Hin) as Hd]
         | |- d_st (dthr ?s0 ?u) = Some ?x -> _ =>
             let Hst := fresh "Hst" in intro Hst; pose proof (di_st s0 I u x Hst) as Hd
         end.
    all: try (assert (RE : rets s = [])
                by (apply RetsEmpty; [assumption|assumption|
                      match goal with Hp : d_pc _ = _ |- _ => rewrite Hp end; reflexivity])).
    all: try (assert (NB : inbody s = 0)
                by (apply NoBody; [assumption|
                      match goal with Hp : d_pc _ = _ |- _ => rewrite Hp end; discriminate])).
    all: try (rewrite RE in * ); try (rewrite NB in * ); simpl in *.
    all: try congruence.
    all: try (rewrite map_app, brun_snoc, (di_log s I); unfold bst; simpl;
              try rewrite RE; try rewrite NB; simpl; reflexivity).
    all: try (destruct (di_real s I) as [R1 R2]).
    all: try (destruct (dcell s) eqn:Hc; simpl; split;
              [ first [discriminate | intros _; apply R1; reflexivity]
              | first [ apply mono_snoc_true; exact R2
                      | apply mono_all_false; rewrite forallb_rev; apply R1; reflexivity ] ]; fail).
    all: try match goal with X : inbody _ = 1 |- _ => rewrite X in *; simpl in * end.
    all: try (left; reflexivity).
    all: try (right; repeat split; auto; exists t; rewrite dupd_same; reflexivity).
    all: try (rewrite map_app, brun_snoc, (di_log s I); unfold bst; simpl;
              repeat match goal with X : rets _ = _ |- _ => rewrite X | X : inbody _ = _ |- _ => rewrite X end;
              simpl; reflexivity).
    all: try (repeat split; eauto; fail).
    all: try (rewrite map_app; simpl; rewrite brun_snoc, (di_log s I); unfold bst;
              repeat match goal with X : rets _ = _ |- _ => rewrite X | X : inbody _ = _ |- _ => rewrite X end;
              simpl; reflexivity).
    all: try (intros v1 [Heq|Hin];
              [ inversion Heq; subst; apply (di_st s I t); assumption | exact (di_done s I t _ _ Hin) ]).
    all: try (intros v1 Hin; pose proof (di_done s I t _ _ Hin); congruence).
    all: try match goal with X : d_st (dthr _ ?u) = Some ?x |- _ => pose proof (di_st _ I u x X); congruence end.
    all: try (split; congruence).
    all: try match goal with |- _ /\ (exists v0, Some ?v = Some v0 /\ _) =>
               split; [congruence|]; exists v; repeat split; auto;
               first [ apply (di_cell s I); congruence | left; congruence ] end.
    all: try (split; [match goal with X : d_new _ = Some _ |- _ => rewrite X end; discriminate|assumption]).
    all: try (match goal with X : val_res _ = DVal _, Y : d_new _ = dcell _, Z : dcell _ = Some _ |- _ =>
                rewrite Y, Z in X; simpl in X; inversion X; subst; apply (di_cell s I); assumption end).
    destruct (dcell s) eqn:Hc; simpl; split.
    - discriminate.
    - apply mono_snoc_true; exact R2.
    - intros _; apply R1; reflexivity.
    - apply mono_all_false. rewrite forallb_rev. apply R1; reflexivity.
  Qed.

  Theorem dreach_DInv progs s : dreach (dinit progs) s -> DInv s.
  Proof. intro R. induction R; eauto using DInv_init, DInv_step. Qed.


  (** ---- the statements ---- *)
  Lemma holder_unique s t u : DInv s -> qlock s = Some t -> in_q (d_pc (dthr s u)) = true -> u = t.
  Proof. intros I Hq Hu. apply (di_q s I u) in Hu. congruence. Qed.

  (** a body run begins only when no run is in progress and none has ever returned *)
  Theorem delay_once progs s t s' :
    dreach (dinit progs) s -> dstep t s = Some s' -> dcur mode (dthr s t) = DBodyB ->
    inbody s = 0 /\ rets s = [].
  Proof.
    intros R St Hc. pose proof (dreach_DInv progs s R) as I.
    assert (Hpc : d_pc (dthr s t) = DBodyB).
    { unfold dcur in Hc. destruct (d_pc (dthr s t)) eqn:Hp; try discriminate; auto.
      destruct (d_ops (dthr s t)) as [|[] ?]; try discriminate.
      unfold dentry in Hc. rewrite Hlocked in Hc. discriminate. }
    assert (Hq : qlock s = Some t) by (apply (di_q s I t); rewrite Hpc; reflexivity).
    pose proof (di_h s I t) as L. unfold holder_ok in L. rewrite Hpc in L. destruct L as [_ Hcell].
    split.
    - destruct (di_body s I) as [B|(B1 & B2 & u & Bu)]; [exact B|].
      assert (u = t) by (eapply holder_unique; eauto; rewrite Bu; reflexivity). subst. congruence.
    - destruct (di_rets s I Hcell) as [Rr|(u & Wu)]; [exact Rr|].
      assert (u = t).
      { eapply holder_unique; eauto. destruct (d_pc (dthr s u)); simpl in *; try discriminate; reflexivity. }
      subst. rewrite Hpc in Wu. discriminate.
  Qed.

  Theorem delay_log_once progs s :
    dreach (dinit progs) s ->
    once_log (map snd (rev (blog s))) = true /\ inbody s <= 1 /\ length (rets s) <= 1.
  Proof.
    intro R. pose proof (dreach_DInv progs s R) as I. split; [|split].
    - unfold once_log. rewrite (di_log s I). unfold bst. destruct (rets s), (inbody s); reflexivity.
    - destruct (di_body s I) as [B|(B1 & _)]; lia.
    - destruct (dcell s) as [v|] eqn:Hc.
      + rewrite (di_cell s I v Hc). simpl. lia.
      + destruct (di_rets s I Hc) as [Rr|(u & Wu)]; [rewrite Rr; simpl; lia|].
        pose proof (di_h s I u) as L. unfold holder_ok in L.
        destruct (d_pc (dthr s u)); simpl in Wu; try discriminate;
          destruct L as (_ & v & _ & Hr & _); rewrite Hr; simpl; lia.
  Qed.

  (** every deref that returned a value returned the value of the one run that returned *)
  Theorem delay_value_stable progs s t o v :
    dreach (dinit progs) s -> In (o, DVal v) (d_done (dthr s t)) -> rets s = [v].
  Proof. intros R. apply (di_done s (dreach_DInv progs s R)). Qed.

  Corollary delay_derefs_agree progs s t1 o1 v1 t2 o2 v2 :
    dreach (dinit progs) s -> In (o1, DVal v1) (d_done (dthr s t1)) -> In (o2, DVal v2) (d_done (dthr s t2)) ->
    v1 = v2.
  Proof.
    intros R H1 H2. pose proof (delay_value_stable progs s t1 o1 v1 R H1).
    pose proof (delay_value_stable progs s t2 o2 v2 R H2). congruence.
  Qed.

  (** realized? observations, in the order they were made, never go back to false *)
  Theorem delay_realized_monotone progs s :
    dreach (dinit progs) s -> mono_bools (rev (rlog s)) = true.
  Proof. intro R. apply (di_real s (dreach_DInv progs s R)). Qed.
End DelayProofs.
