(** C13 model, part 3: basilisp.lang.futures.Future, a wrapper over
    concurrent.futures.Future.  The wrapped future is an abstract one-shot cell given by
    Section hypotheses (it lives outside the repository's logic):

      [outcome c]   None while pending, [Some o] once done; done is for ever ([cf_stable])
      result(timeout)  done: returns the value / raises the body's exception;
                       pending and timed: raises TimeoutError when the timeout elapses
                       (pending and untimed blocks: no result)

    The wrapper (futures.py, shape regenerated: Gen.Tables.future_deref_mode):
      mode 0   try: return self._future.result(timeout) except TimeoutError: return timeout_val
      mode 1   ... except TimeoutError:
                       if self._future.done(): return self._future.result()
                       return timeout_val
    Since Python 3.11 concurrent.futures.TimeoutError IS the builtin TimeoutError, so in
    mode 0 a body that itself raises TimeoutError makes deref return the timeout value. *)
From Coq Require Import List Bool Arith NArith.
Import ListNotations.

Inductive exn := ETimeoutError | EOther (k : nat).

Inductive outcome {V : Type} := OVal (v : V) | ORaise (e : exn).
Arguments outcome : clear implicits.

(** what a call yields *)
Inductive yield {V : Type} := YRet (v : V) | YRaise (e : exn).
Arguments yield : clear implicits.

Section Future.
  Context {V Cell : Type}.
  Variable outcome_of : Cell -> option (outcome V).
  (** the cell as seen by successive calls of one deref: it may advance between them *)
  Variable cstep : Cell -> Cell -> Prop.
  Hypothesis cf_stable : forall c c' o, cstep c c' -> outcome_of c = Some o -> outcome_of c' = Some o.
  Hypothesis cstep_refl : forall c, cstep c c.

  (** concurrent.futures.Future.result(timeout) on a cell in state [c], timed *)
  Definition cf_result_timed (c : Cell) : yield V :=
    match outcome_of c with
    | Some (OVal v) => YRet v
    | Some (ORaise e) => YRaise e
    | None => YRaise ETimeoutError
    end.
  (** ... untimed: only defined when done (otherwise it blocks) *)
  Definition cf_result (c : Cell) : option (yield V) :=
    match outcome_of c with
    | Some (OVal v) => Some (YRet v)
    | Some (ORaise e) => Some (YRaise e)
    | None => None
    end.
  Definition cf_done (c : Cell) : bool := match outcome_of c with Some _ => true | None => false end.

  Variable mode : N.

  (** Future.deref(timeout, timeout_val): the three calls see cells c1, c2, c3 *)
  Definition deref_timed (c1 c2 c3 : Cell) (tv : V) : option (yield V) :=
    match cf_result_timed c1 with
    | YRet v => Some (YRet v)
    | YRaise ETimeoutError =>
        if N.eqb mode 0 then Some (YRet tv)
        else if cf_done c2 then cf_result c3 else Some (YRet tv)
    | YRaise e => Some (YRaise e)
    end.

  (** Future.deref() without timeout on a done cell *)
  Definition deref_done (c1 c2 c3 : Cell) (tv : V) : option (yield V) :=
    match cf_result c1 with
    | Some (YRaise ETimeoutError) =>
        if N.eqb mode 0 then Some (YRet tv)
        else if cf_done c2 then cf_result c3 else Some (YRet tv)
    | r => r
    end.

  Definition yield_of (o : outcome V) : yield V :=
    match o with OVal v => YRet v | ORaise e => YRaise e end.

  (** the outcome of the body, whenever the future is done -- repaired code *)
  Theorem future_outcome_timed : mode <> 0%N -> forall c1 c2 c3 tv o,
    cstep c1 c2 -> cstep c2 c3 -> outcome_of c1 = Some o ->
    deref_timed c1 c2 c3 tv = Some (yield_of o).
  Proof.
    intros Hm c1 c2 c3 tv o S12 S23 H1.
    pose proof (cf_stable _ _ _ S12 H1) as H2. pose proof (cf_stable _ _ _ S23 H2) as H3.
    unfold deref_timed, cf_result_timed, cf_done, cf_result. rewrite H1, H2, H3.
    apply N.eqb_neq in Hm. rewrite Hm.
    destruct o as [v|[|k]]; reflexivity.
  Qed.

  Theorem future_outcome_untimed : mode <> 0%N -> forall c1 c2 c3 tv o,
    cstep c1 c2 -> cstep c2 c3 -> outcome_of c1 = Some o ->
    deref_done c1 c2 c3 tv = Some (yield_of o).
  Proof.
    intros Hm c1 c2 c3 tv o S12 S23 H1.
    pose proof (cf_stable _ _ _ S12 H1) as H2. pose proof (cf_stable _ _ _ S23 H2) as H3.
    unfold deref_done, cf_done, cf_result. rewrite H1, H2, H3.
    apply N.eqb_neq in Hm. rewrite Hm.
    destruct o as [v|[|k]]; reflexivity.
  Qed.

  (** a timed deref yields the timeout value only if the future was not done when it
      waited, and otherwise it yields the (final) outcome *)
  Theorem future_timeout_only_if_pending : mode <> 0%N -> forall c1 c2 c3 tv r,
    cstep c1 c2 -> cstep c2 c3 -> deref_timed c1 c2 c3 tv = Some r ->
    (outcome_of c1 = None /\ r = YRet tv) \/ (exists o, outcome_of c3 = Some o /\ r = yield_of o).
  Proof.
    intros Hm c1 c2 c3 tv r S12 S23 H.
    apply N.eqb_neq in Hm.
    unfold deref_timed, cf_result_timed in H.
    destruct (outcome_of c1) as [o|] eqn:H1.
    - right. pose proof (cf_stable _ _ _ S12 H1) as H2. pose proof (cf_stable _ _ _ S23 H2) as H3.
      exists o. split; [exact H3|].
      unfold cf_done, cf_result in H. rewrite Hm, H2, H3 in H.
      destruct o as [v|[|k]]; inversion H; reflexivity.
    - rewrite Hm in H. unfold cf_done, cf_result in H.
      destruct (outcome_of c2) as [o2|] eqn:H2.
      + right. pose proof (cf_stable _ _ _ S23 H2) as H3. rewrite H3 in H.
        exists o2. split; [exact H3|]. destruct o2 as [v|e]; inversion H; reflexivity.
      + left. inversion H; auto.
  Qed.

  (** realized? (= done) is monotone along the life of the cell *)
  Theorem future_realized_monotone : forall c c', cstep c c' -> cf_done c = true -> cf_done c' = true.
  Proof.
    intros c c' S H. unfold cf_done in *. destruct (outcome_of c) as [o|] eqn:E; [|discriminate].
    rewrite (cf_stable _ _ _ S E). reflexivity.
  Qed.
End Future.

(** the unrepaired wrapper swallows a TimeoutError raised by the body *)
Lemma future_mode0_swallows : forall (tv : nat),
  @deref_done nat (option (outcome nat)) (fun c => c) 0%N
      (Some (ORaise ETimeoutError)) (Some (ORaise ETimeoutError)) (Some (ORaise ETimeoutError)) tv
  = Some (YRet tv).
Proof. reflexivity. Qed.
