(** C13: the statements of Properties/C13.v, instantiated for the model of the current
    code (modes regenerated from delay.py / promise.py / futures.py / atom.py). *)
From Coq Require Import List Bool Arith ZArith NArith Lia.
Import ListNotations.
From Verif Require Import Common.ListX Gen.Tables.
From Verif Require Import C13.Spec C13.Delay C13.Promise C13.Future C13.Corr.
From Verif Require Import C13.DelayProofs C13.PromiseProofs.

Lemma modes : delay_deref_mode = 1%N /\ promise_shape = 1%N /\ future_deref_mode = 1%N /\ atom_cas_mode = 1%N.
Proof. repeat split; reflexivity. Qed.

Lemma delay_locked : locked delay_deref_mode = true.
Proof. reflexivity. Qed.

Lemma d_cas_refl x : d_cas_ok x x = true.
Proof.
  unfold d_cas_ok, dstate_eq. destruct atom_cas_mode; destruct x; simpl; auto using Z.eqb_refl.
Qed.

Lemma pv_eqb_refl v : pv_eqb v v = true.
Proof. destruct v; simpl; auto using Z.eqb_refl. Qed.

Notation dreachZ body := (@dreach Z delay_deref_mode d_cas_ok body).
Notation dstepZ body := (@dstep Z delay_deref_mode d_cas_ok body).
Notation preachZ := (@preach pv None).

Lemma delay_once : forall body progs s t s',
  dreachZ body (dinit progs) s -> dstepZ body t s = Some s' ->
  dcur delay_deref_mode (dthr s t) = DBodyB ->
  inbody s = 0 /\ rets s = [].
Proof. intros body. exact (DelayProofs.delay_once delay_deref_mode d_cas_ok body delay_locked d_cas_refl). Qed.

Lemma delay_log_once : forall body progs s,
  dreachZ body (dinit progs) s ->
  once_log (map snd (rev (blog s))) = true /\ inbody s <= 1 /\ length (rets s) <= 1.
Proof. intros body. exact (DelayProofs.delay_log_once delay_deref_mode d_cas_ok body delay_locked d_cas_refl). Qed.

Lemma delay_value_stable : forall body progs s t1 o1 v1 t2 o2 v2,
  dreachZ body (dinit progs) s ->
  In (o1, DVal v1) (d_done (dthr s t1)) -> In (o2, DVal v2) (d_done (dthr s t2)) ->
  rets s = [v1] /\ v1 = v2.
Proof.
  intros body progs s t1 o1 v1 t2 o2 v2 R H1 H2. split.
  - exact (DelayProofs.delay_value_stable delay_deref_mode d_cas_ok body delay_locked d_cas_refl progs s t1 o1 v1 R H1).
  - exact (DelayProofs.delay_derefs_agree delay_deref_mode d_cas_ok body delay_locked d_cas_refl
             progs s t1 o1 v1 t2 o2 v2 R H1 H2).
Qed.

Lemma delay_realized_monotone : forall body progs s,
  dreachZ body (dinit progs) s -> mono_bools (rev (rlog s)) = true.
Proof. intros body. exact (DelayProofs.delay_realized_monotone delay_deref_mode d_cas_ok body delay_locked d_cas_refl). Qed.

(** the code before the repair (mode 0): two racing derefs both run the body *)
Definition unlocked_sched : list (nat * dlab * bool) :=
  [(0, LRead, false); (0, LCompute, false); (0, LBodyB, false);
   (1, LRead, false); (1, LCompute, false); (1, LBodyB, false);
   (0, LBodyE, false); (1, LBodyE, false)].

Lemma delay_unlocked_runs_twice :
  exists s, drun 0%N d_cas_ok (script_body [Some 7%Z]) unlocked_sched
                 (dinit (progs_of [[DDeref]; [DDeref]])) = Some s
            /\ @dreach Z 0%N d_cas_ok (script_body [Some 7%Z]) (dinit (progs_of [[DDeref]; [DDeref]])) s
            /\ rets s = [7%Z; 7%Z] /\ once_log (map snd (rev (blog s))) = false.
Proof.
  pose (chk := fun s : dstate Z =>
          list_eqb Z.eqb (rets s) [7%Z; 7%Z] && negb (once_log (map snd (rev (blog s))))).
  assert (G : match drun 0%N d_cas_ok (script_body [Some 7%Z]) unlocked_sched
                         (dinit (progs_of [[DDeref]; [DDeref]])) with
              | Some s => chk s | None => false end = true) by (vm_compute; reflexivity).
  destruct (drun 0%N d_cas_ok (script_body [Some 7%Z]) unlocked_sched
                 (dinit (progs_of [[DDeref]; [DDeref]]))) as [s|] eqn:E; [|discriminate G].
  exists s. split; [reflexivity|]. split; [eapply drun_reach; [apply dreach_refl|exact E]|].
  unfold chk in G. apply andb_true_iff in G as [G1 G2]. split.
  - apply (list_eqb_spec Z.eqb Z.eqb_eq). exact G1.
  - apply negb_true_iff. exact G2.
Qed.

(** promise *)
Lemma promise_history_ok : forall progs s,
  preachZ (pinit None progs) s -> promise_log_ok pv_eqb (rev (phist s)) = true.
Proof. exact (PromiseProofs.promise_history_ok None pv_eqb pv_eqb_refl). Qed.

Lemma promise_first_wins : forall progs s l1 v l2,
  preachZ (pinit None progs) s -> rev (phist s) = l1 ++ EDeliver v :: l2 ->
  (forall u, ~ In (EDeliver u) l2) /\ (forall u, In (EValue u) l2 -> pv_eqb u v = true).
Proof.
  intros progs s l1 v l2 R E. apply (log_ok_first_wins pv_eqb l1 v l2).
  rewrite <- E. exact (promise_history_ok progs s R).
Qed.

Lemma timeout_only_if_undelivered : forall progs s l1 v l2,
  preachZ (pinit None progs) s -> rev (phist s) = l1 ++ EDeliver v :: l2 -> ~ In ETimeout l2.
Proof.
  intros progs s l1 v l2 R E. apply (log_ok_timeout_only_if_undelivered pv_eqb l1 v l2).
  rewrite <- E. exact (promise_history_ok progs s R).
Qed.

Lemma promise_deref_result : forall progs s t tm v,
  preachZ (pinit None progs) s -> In (PDeref tm, PRet v) (p_done (pthr s t)) ->
  (exists w, plog_run pv_eqb (rev (phist s)) = Some (Some w) /\ v = w) \/ tm = Some v.
Proof. exact (PromiseProofs.promise_deref_result None pv_eqb pv_eqb_refl). Qed.

Lemma promise_deref_after_deliver : forall (s : pstate pv) t tm rest,
  delivered s = true -> plock s = None ->
  p_ops (pthr s t) = PDeref tm :: rest -> p_pc (pthr s t) = QIdle ->
  exists s1 s2 s3 s4,
    pstep None t ARun s = Some s1 /\ pstep None t ARun s1 = Some s2 /\ pstep None t ARun s2 = Some s3
    /\ pstep None t ARun s3 = Some s4
    /\ p_done (pthr s4 t) = (PDeref tm, PRet (pvalue s)) :: p_done (pthr s t)
    /\ p_ops (pthr s4 t) = rest /\ plock s4 = None.
Proof. exact (PromiseProofs.promise_deref_after_deliver None). Qed.

Lemma promise_realized_monotone : forall progs s,
  preachZ (pinit None progs) s -> mono_bools (reals (rev (phist s))) = true.
Proof. intros progs s R. apply (log_ok_realized_monotone pv_eqb). exact (promise_history_ok progs s R). Qed.

(** future: for ANY one-shot cell satisfying the stated hypotheses *)
Lemma future_mode_nonzero : future_deref_mode <> 0%N.
Proof. discriminate. Qed.
