(** C13 specification: what the property prescribes, stated on observations only.

    Delay.  The body log is the chronological list of body events (thread, begin | end ok?).
    [once_log] accepts exactly the logs in which runs do not overlap and nothing happens
    after a run has returned normally: Idle -begin-> Running -end(threw)-> Idle,
    Running -end(returned)-> Done, and Done accepts nothing.  (A body that throws caches
    nothing: the property only forbids re-running "after a run has returned".)
    Every deref that returns a value returns the value of the unique returned run.

    Promise.  The history of linearization events (oldest first) must be
    (timeout | realized?=false)* [deliver v (value v | realized?=true)*]: first deliver wins,
    every later deref yields it, a timeout only while undelivered, realized? monotone.

    Future.  A deref yields the outcome of the body (value or the exception it raised) when
    the future is done, the timeout value only when it is not, and realized? is monotone. *)
From Coq Require Import List Bool Arith ZArith.
Import ListNotations.

(** ---- delay ---- *)
Inductive bev := BBegin | BEnd (returned : bool).

Inductive bstate := BIdle | BRunning | BDone | BBad.

Definition bnext (st : bstate) (e : bev) : bstate :=
  match st, e with
  | BIdle, BBegin => BRunning
  | BRunning, BEnd true => BDone
  | BRunning, BEnd false => BIdle
  | _, _ => BBad
  end.

Definition brun (l : list bev) : bstate := fold_left bnext l BIdle.

Definition once_log (l : list bev) : bool :=
  match brun l with BBad => false | _ => true end.

(** ---- promise ---- *)
Inductive pev {V : Type} :=
| EDeliver (v : V)        (* a deliver that found the promise undelivered *)
| EIgnored                (* a deliver that found it delivered *)
| EValue (v : V)          (* a deref that returned the stored value v *)
| ETimeout                (* a timed deref that returned its timeout value *)
| EReal (b : bool).       (* realized? *)
Arguments pev : clear implicits.

Section PSpec.
  Context {V : Type}.
  Variable veq : V -> V -> bool.

  (** state of the reference promise: None = undelivered *)
  Definition pnext (st : option (option V)) (e : pev V) : option (option V) :=
    match st with
    | None => None                                   (* already violated *)
    | Some None =>                                   (* undelivered *)
        match e with
        | EDeliver v => Some (Some v)
        | ETimeout | EReal false => Some None
        | _ => None
        end
    | Some (Some w) =>                               (* delivered w *)
        match e with
        | EIgnored | EReal true => Some (Some w)
        | EValue v => if veq v w then Some (Some w) else None
        | _ => None
        end
    end.

  Definition plog_run (l : list (pev V)) : option (option V) := fold_left pnext l (Some None).
  Definition promise_log_ok (l : list (pev V)) : bool :=
    match plog_run l with None => false | Some _ => true end.
End PSpec.

(** ---- monotone boolean observations (realized?) : oldest first, false* true* ---- *)
Fixpoint mono_bools (l : list bool) : bool :=
  match l with
  | [] => true
  | true :: r => forallb (fun b => b) r
  | false :: r => mono_bools r
  end.
