(** C13 model, part 2: basilisp.lang.promise.Promise (flag + value under a condition
    variable).  threading.Condition is modelled as a lock with an owner plus a wait set: a
    waiting thread has released the lock; notify_all marks every waiter notified; a waiter
    leaves the wait when it is notified ([AWake]) or -- timed waits only -- when its timeout
    elapses, which is a nondeterministic step of the schedule ([ATimeout]); either way it
    must re-take the lock before it re-evaluates the predicate.

      deliver   VAcq [PL] VChk [PCHK] VFlag [PFLAG] VVal [PVAL] VNotify [PNOTIFY] VRel [PL]
      deref     MAcq [PL] MPred [PRED: lambda: self._is_delivered] (MWait) (MReacq)
                MGet [PGET] | MTmo [PTMO]  MRel [PL]
      realized? GAcq [PL] GRead [PREAL] GRel [PL]

    Ghost: [phist], the linearization events (Spec.pev), newest first. *)
From Coq Require Import List Bool Arith Lia.
Import ListNotations.
From Verif Require Export C13.Spec.

Inductive ppc :=
| QIdle
| VAcq | VChk | VFlag | VVal | VNotify | VRel
| MAcq | MPred | MWait | MReacq | MGet | MTmo | MRel
| GAcq | GRead | GRel.

Inductive plab := LPL | LPChk | LPFlag | LPVal | LPNotify | LPred | LPGet | LPTmo | LPReal.

Definition plab_of (p : ppc) : option plab :=
  match p with
  | QIdle => None
  | VAcq | VRel | MAcq | MRel | GAcq | GRel => Some LPL
  | VChk => Some LPChk
  | VFlag => Some LPFlag
  | VVal => Some LPVal
  | VNotify => Some LPNotify
  | MPred | MWait | MReacq => Some LPred
  | MGet => Some LPGet
  | MTmo => Some LPTmo
  | GRead => Some LPReal
  end.

Definition plab_eqb (a b : plab) : bool :=
  match a, b with
  | LPL, LPL | LPChk, LPChk | LPFlag, LPFlag | LPVal, LPVal | LPNotify, LPNotify
  | LPred, LPred | LPGet, LPGet | LPTmo, LPTmo | LPReal, LPReal => true
  | _, _ => false
  end.

(** what a scheduler step does to the chosen thread *)
Inductive pact := ARun | ATimeout.

Section Promise.
  Context {V : Type}.
  Variable vnone : V.          (* Python None: the initial _value and the result of deliver *)

  Inductive pop :=
  | PDeliver (v : V)
  | PDeref (timed : option V)      (* None: (deref p);  Some tv: (deref p ms tv) *)
  | PReal.

  Inductive pres := PRet (v : V) | PBool (b : bool).

  Record pthread := mkPT {
    p_ops : list pop;
    p_pc : ppc;
    p_notified : bool;
    p_expired : bool;
    p_got : V;
    p_done : list (pop * pres)
  }.

  Record pstate := mkPS {
    delivered : bool;
    pvalue : V;
    plock : option nat;
    phist : list (pev V);
    pthr : nat -> pthread
  }.

  Definition pentry (o : pop) : ppc :=
    match o with PDeliver _ => VAcq | PDeref _ => MAcq | PReal => GAcq end.
  Definition pcur (th : pthread) : ppc :=
    match p_pc th with
    | QIdle => match p_ops th with o :: _ => pentry o | [] => QIdle end
    | p => p
    end.

  Definition pwith_pc (th : pthread) (p : ppc) : pthread :=
    mkPT (p_ops th) p (p_notified th) (p_expired th) (p_got th) (p_done th).
  Definition pfinish (th : pthread) (o : pop) (r : pres) : pthread :=
    mkPT (tl (p_ops th)) QIdle false false (p_got th) ((o, r) :: p_done th).
  Definition pupd (f : nat -> pthread) (t : nat) (th : pthread) : nat -> pthread :=
    fun i => if Nat.eqb i t then th else f i.

  Definition pset (s : pstate) (l : option nat) (t : nat) (th : pthread) : pstate :=
    mkPS (delivered s) (pvalue s) l (phist s) (pupd (pthr s) t th).
  Definition pset_ev (s : pstate) (l : option nat) (e : pev V) (t : nat) (th : pthread) : pstate :=
    mkPS (delivered s) (pvalue s) l (e :: phist s) (pupd (pthr s) t th).

  Definition is_timed (o : pop) : bool := match o with PDeref (Some _) => true | _ => false end.

  Definition pstep (t : nat) (a : pact) (s : pstate) : option pstate :=
    let th := pthr s t in
    match p_ops th with
    | [] => None
    | o :: _ =>
      match pcur th, a with
      | (VAcq | MAcq | GAcq) as p, ARun =>
          match plock s with
          | Some _ => None
          | None => Some (pset s (Some t) t
                            (pwith_pc th (match p with VAcq => VChk | MAcq => MPred | _ => GRead end)))
          end
      | VChk, ARun =>
          if delivered s
          then Some (pset_ev s (plock s) EIgnored t (pwith_pc th VRel))
          else Some (pset s (plock s) t (pwith_pc th VFlag))
      | VFlag, ARun =>
          match o with
          | PDeliver v =>
              Some (mkPS true (pvalue s) (plock s) (EDeliver v :: phist s)
                         (pupd (pthr s) t (pwith_pc th VVal)))
          | _ => None
          end
      | VVal, ARun =>
          match o with
          | PDeliver v =>
              Some (mkPS (delivered s) v (plock s) (phist s) (pupd (pthr s) t (pwith_pc th VNotify)))
          | _ => None
          end
      | VNotify, ARun =>
          (* notify_all: every thread in the wait set becomes notified *)
          Some (mkPS (delivered s) (pvalue s) (plock s) (phist s)
                     (fun i => if Nat.eqb i t then pwith_pc th VRel
                               else match p_pc (pthr s i) with
                                    | MWait => mkPT (p_ops (pthr s i)) MWait true (p_expired (pthr s i))
                                                    (p_got (pthr s i)) (p_done (pthr s i))
                                    | _ => pthr s i
                                    end))
      | VRel, ARun => Some (pset s None t (pfinish th o (PRet vnone)))
      | MPred, ARun =>
          if delivered s then Some (pset s (plock s) t (pwith_pc th MGet))
          else if p_expired th
               then Some (pset_ev s (plock s) ETimeout t (pwith_pc th MTmo))
               else (* Condition.wait: release the lock and join the wait set *)
                 Some (pset s None t (mkPT (p_ops th) MWait false false (p_got th) (p_done th)))
      | MWait, ARun =>
          if p_notified th
          then match plock s with
               | None => Some (pset s (Some t) t (pwith_pc th MPred))
               | Some _ => Some (pset s (plock s) t (pwith_pc th MReacq))
               end
          else None
      | MWait, ATimeout =>
          if negb (p_notified th) && is_timed o
          then let th' := mkPT (p_ops th) MWait false true (p_got th) (p_done th) in
               match plock s with
               | None => Some (pset s (Some t) t (pwith_pc th' MPred))
               | Some _ => Some (pset s (plock s) t (pwith_pc th' MReacq))
               end
          else None
      | MReacq, ARun =>
          match plock s with
          | Some _ => None
          | None => Some (pset s (Some t) t (pwith_pc th MPred))
          end
      | MGet, ARun =>
          Some (pset_ev s (plock s) (EValue (pvalue s)) t
                        (mkPT (p_ops th) MRel (p_notified th) (p_expired th) (pvalue s) (p_done th)))
      | MTmo, ARun =>
          match o with
          | PDeref (Some tv) =>
              Some (pset s (plock s) t (mkPT (p_ops th) MRel (p_notified th) (p_expired th) tv (p_done th)))
          | _ => None
          end
      | MRel, ARun => Some (pset s None t (pfinish th o (PRet (p_got th))))
      | GRead, ARun =>
          Some (pset_ev s (plock s) (EReal (delivered s)) t
                        (mkPT (p_ops th) GRel (delivered s) (p_expired th) (p_got th) (p_done th)))
      | GRel, ARun => Some (pset s None t (pfinish th o (PBool (p_notified th))))
      | _, _ => None
      end
    end.

  Definition pinit_thread (p : list pop) : pthread := mkPT p QIdle false false vnone [].
  Definition pinit (progs : nat -> list pop) : pstate :=
    mkPS false vnone None [] (fun t => pinit_thread (progs t)).

  Inductive preach (s0 : pstate) : pstate -> Prop :=
  | preach_refl : preach s0 s0
  | preach_step : forall s t a s', preach s0 s -> pstep t a s = Some s' -> preach s0 s'.

  (** the observed schedule: (thread, label, kind) with the kinds of harness/vlib/sched.py *)
  Inductive pkind := KRun | KBlock | KWait | KWake | KTimeout | KWakeBlock | KTimeoutBlock.

  Definition p_is_acq (p : ppc) : bool :=
    match p with VAcq | MAcq | GAcq | MReacq => true | _ => false end.
  Definition lock_busy (s : pstate) (t : nat) : bool :=
    match plock s with Some u => negb (Nat.eqb u t) | None => false end.

  Definition goes_to (s' : pstate) (t : nat) (p : ppc) : bool :=
    match p_pc (pthr s' t), p with
    | MWait, MWait | MReacq, MReacq | MPred, MPred => true
    | _, _ => false
    end.

  Fixpoint prun (sch : list (nat * plab * pkind)) (s : pstate) : option pstate :=
    match sch with
    | [] => Some s
    | (t, l, k) :: r =>
        let p := pcur (pthr s t) in
        match plab_of p with
        | None => None
        | Some l' =>
            if negb (plab_eqb l l') then None
            else
              match k with
              | KBlock =>
                  if p_is_acq p && lock_busy s t
                     && match p_ops (pthr s t) with [] => false | _ => true end
                  then prun r s else None
              | KRun =>
                  match p with
                  | MWait => None
                  | _ => match pstep t ARun s with
                         | Some s' => if goes_to s' t MWait then None else prun r s'
                         | None => None end
                  end
              | KWait =>
                  match p with
                  | MPred => match pstep t ARun s with
                             | Some s' => if goes_to s' t MWait then prun r s' else None
                             | None => None end
                  | _ => None
                  end
              | KWake | KWakeBlock | KTimeout | KTimeoutBlock =>
                  match p with
                  | MWait =>
                      match pstep t (match k with KWake | KWakeBlock => ARun | _ => ATimeout end) s with
                      | Some s' =>
                          if goes_to s' t (match k with KWakeBlock | KTimeoutBlock => MReacq | _ => MPred end)
                          then prun r s' else None
                      | None => None
                      end
                  | _ => None
                  end
              end
        end
    end.

  Lemma prun_reach s0 : forall sch s s', preach s0 s -> prun sch s = Some s' -> preach s0 s'.
  Proof.
    induction sch as [|[[t l] k] r IH]; simpl; intros s s' R H.
    - inversion H; subst; exact R.
    - destruct (plab_of (pcur (pthr s t))); [|discriminate].
      destruct (negb (plab_eqb l p)); [discriminate|].
      destruct k.
      + destruct (pcur (pthr s t)); try discriminate;
          (destruct (pstep t ARun s) eqn:E; [|discriminate];
           destruct (goes_to _ _ _); [discriminate|];
           eapply IH; [|exact H]; econstructor; eauto).
      + destruct (_ && _ && _); [|discriminate]. eapply IH; eauto.
      + destruct (pcur (pthr s t)); try discriminate.
        destruct (pstep t ARun s) eqn:E; [|discriminate].
        destruct (goes_to _ _ _); [|discriminate]. eapply IH; [|exact H]. econstructor; eauto.
      + destruct (pcur (pthr s t)); try discriminate.
        destruct (pstep t ARun s) eqn:E; [|discriminate].
        destruct (goes_to _ _ _); [|discriminate]. eapply IH; [|exact H]. econstructor; eauto.
      + destruct (pcur (pthr s t)); try discriminate.
        destruct (pstep t ATimeout s) eqn:E; [|discriminate].
        destruct (goes_to _ _ _); [|discriminate]. eapply IH; [|exact H]. econstructor; eauto.
      + destruct (pcur (pthr s t)); try discriminate.
        destruct (pstep t ARun s) eqn:E; [|discriminate].
        destruct (goes_to _ _ _); [|discriminate]. eapply IH; [|exact H]. econstructor; eauto.
      + destruct (pcur (pthr s t)); try discriminate.
        destruct (pstep t ATimeout s) eqn:E; [|discriminate].
        destruct (goes_to _ _ _); [|discriminate]. eapply IH; [|exact H]. econstructor; eauto.
  Qed.

  (** no thread can take a step: used to recognise a deadlock (an untimed deref of a promise
      nobody delivers) *)
  Definition p_enabled (s : pstate) (t : nat) : bool :=
    match pstep t ARun s, pstep t ATimeout s with
    | None, None => false
    | _, _ => true
    end.
End Promise.

Arguments pop : clear implicits.
Arguments pres : clear implicits.
Arguments pthread : clear implicits.
Arguments pstate : clear implicits.
