(** C13 model, part 1: basilisp.lang.delay.Delay as it is in the working tree.

    [mode] is the shape of Delay.deref regenerated from delay.py (Gen.Tables.delay_deref_mode):
      0  return self._state.swap(self.__deref).value          (body inside swap's retry loop)
      1  state = self._state.deref()
         if not state.computed:
             with self._lock: state = self._state.swap(self.__deref)
         return state.value
    The inner atom is the C12 machine specialised to Delay (no validator, no watches, cell =
    [option V]: None = not computed), at the same granularity; the body is a function of
    the number of runs begun before it ([body i = None]: the i-th run throws).

    program points (label of the line event in brackets):
      DRdAcq [DL] DRdRead [DREAD] DRdRel [DL]       Atom.deref (outer check / is_realized)
      DChk [QCHK]                                    if not state.computed
      DQAcq [QL] ... DQRel [QL]                      with self._lock
      DSRead [READ] DSComp [COMPUTE] DBodyB [BODYB] DBodyE [BODYE]
      DSVal [VAL] DSAcq [CL] DSCmp [CMP] DSSet [SET] DSRel [CL]      Atom.swap *)
From Coq Require Import List Bool Arith NArith Lia.
Import ListNotations.
From Verif Require Export C13.Spec.

Inductive dpc :=
| DIdle
| DRdAcq | DRdRead | DRdRel
| DChk
| DQAcq
| DSRead | DSComp | DBodyB | DBodyE
| DSVal | DSAcq | DSCmp | DSSet | DSRel (ok : bool)
| DQRel (exc : bool).

Inductive dlab := LDL | LDRead | LQChk | LQL | LRead | LCompute | LBodyB | LBodyE
                | LVal | LCL | LCmp | LSet.

Definition dlab_of (p : dpc) : option dlab :=
  match p with
  | DIdle => None
  | DRdAcq | DRdRel => Some LDL
  | DRdRead => Some LDRead
  | DChk => Some LQChk
  | DQAcq | DQRel _ => Some LQL
  | DSRead => Some LRead
  | DSComp => Some LCompute
  | DBodyB => Some LBodyB
  | DBodyE => Some LBodyE
  | DSVal => Some LVal
  | DSAcq | DSRel _ => Some LCL
  | DSCmp => Some LCmp
  | DSSet => Some LSet
  end.

Definition dlab_eqb (a b : dlab) : bool :=
  match a, b with
  | LDL, LDL | LDRead, LDRead | LQChk, LQChk | LQL, LQL | LRead, LRead | LCompute, LCompute
  | LBodyB, LBodyB | LBodyE, LBodyE | LVal, LVal | LCL, LCL | LCmp, LCmp | LSet, LSet => true
  | _, _ => false
  end.

Inductive dop := DDeref | DReal.

Inductive dres {V : Type} := DVal (v : V) | DExc | DBool (b : bool).
Arguments dres : clear implicits.

Section Delay.
  Context {V : Type}.
  Variable mode : N.
  Variable cas_ok : option V -> option V -> bool.
  Variable body : nat -> option V.

  Record dthread := mkDT {
    d_ops : list dop;
    d_pc : dpc;
    d_st : option V;        (* state read by the outer self._state.deref() *)
    d_old : option V;       (* oldval of the swap *)
    d_new : option V;       (* newval of the swap *)
    d_idx : nat;            (* index of the body run in progress *)
    d_done : list (dop * dres V)
  }.

  Record dstate := mkDS {
    dcell : option V;
    alock : option nat;              (* Atom._lock *)
    qlock : option nat;              (* Delay._lock *)
    nbeg : nat;                      (* body runs begun *)
    inbody : nat;                    (* body runs in progress *)
    rets : list V;                   (* values of the runs that returned, oldest first *)
    blog : list (nat * bev);         (* body events (thread, event), newest first *)
    rlog : list bool;                (* is_realized observations, newest first *)
    dthr : nat -> dthread
  }.

  Definition locked : bool := negb (N.eqb mode 0).

  Definition dentry (o : dop) : dpc :=
    match o with
    | DReal => DRdAcq
    | DDeref => if locked then DRdAcq else DSRead
    end.

  Definition dcur (th : dthread) : dpc :=
    match d_pc th with
    | DIdle => match d_ops th with o :: _ => dentry o | [] => DIdle end
    | p => p
    end.

  Definition dwith_pc (th : dthread) (p : dpc) : dthread :=
    mkDT (d_ops th) p (d_st th) (d_old th) (d_new th) (d_idx th) (d_done th).
  Definition dfinish (th : dthread) (o : dop) (r : dres V) : dthread :=
    mkDT (tl (d_ops th)) DIdle (d_st th) (d_old th) (d_new th) (d_idx th) ((o, r) :: d_done th).
  Definition dupd (f : nat -> dthread) (t : nat) (th : dthread) : nat -> dthread :=
    fun i => if Nat.eqb i t then th else f i.

  Definition val_res (x : option V) : dres V := match x with Some v => DVal v | None => DExc end.
  Definition computed (x : option V) : bool := match x with Some _ => true | None => false end.

  Definition set_thr (s : dstate) (t : nat) (th : dthread) : dstate :=
    mkDS (dcell s) (alock s) (qlock s) (nbeg s) (inbody s) (rets s) (blog s) (rlog s) (dupd (dthr s) t th).
  Definition set_alock (s : dstate) (l : option nat) : dstate :=
    mkDS (dcell s) l (qlock s) (nbeg s) (inbody s) (rets s) (blog s) (rlog s) (dthr s).
  Definition set_qlock (s : dstate) (l : option nat) : dstate :=
    mkDS (dcell s) (alock s) l (nbeg s) (inbody s) (rets s) (blog s) (rlog s) (dthr s).

  Definition dstep (t : nat) (s : dstate) : option dstate :=
    let th := dthr s t in
    match d_ops th with
    | [] => None
    | o :: _ =>
      match dcur th with
      | DIdle => None
      | DRdAcq =>
          match alock s with
          | Some _ => None
          | None => Some (set_thr (set_alock s (Some t)) t (dwith_pc th DRdRead))
          end
      | DRdRead =>
          let th' := mkDT (d_ops th) DRdRel (dcell s) (d_old th) (d_new th) (d_idx th) (d_done th) in
          Some (mkDS (dcell s) (alock s) (qlock s) (nbeg s) (inbody s) (rets s) (blog s)
                     (match o with DReal => computed (dcell s) :: rlog s | DDeref => rlog s end)
                     (dupd (dthr s) t th'))
      | DRdRel =>
          Some (set_thr (set_alock s None) t
                  (match o with
                   | DReal => dfinish th o (DBool (computed (d_st th)))
                   | DDeref => dwith_pc th DChk
                   end))
      | DChk =>
          Some (set_thr s t (match d_st th with
                             | Some v => dfinish th o (DVal v)
                             | None => dwith_pc th DQAcq
                             end))
      | DQAcq =>
          match qlock s with
          | Some _ => None
          | None => Some (set_thr (set_qlock s (Some t)) t (dwith_pc th DSRead))
          end
      | DSRead =>
          Some (set_thr s t (mkDT (d_ops th) DSComp (d_st th) (dcell s) (d_new th) (d_idx th) (d_done th)))
      | DSComp =>
          Some (set_thr s t (match d_old th with
                             | Some _ => mkDT (d_ops th) DSVal (d_st th) (d_old th) (d_old th) (d_idx th) (d_done th)
                             | None => dwith_pc th DBodyB
                             end))
      | DBodyB =>
          Some (mkDS (dcell s) (alock s) (qlock s) (S (nbeg s)) (S (inbody s)) (rets s)
                     ((t, BBegin) :: blog s) (rlog s)
                     (dupd (dthr s) t (mkDT (d_ops th) DBodyE (d_st th) (d_old th) (d_new th) (nbeg s) (d_done th))))
      | DBodyE =>
          match body (d_idx th) with
          | Some v =>
              Some (mkDS (dcell s) (alock s) (qlock s) (nbeg s) (pred (inbody s)) (rets s ++ [v])
                         ((t, BEnd true) :: blog s) (rlog s)
                         (dupd (dthr s) t (mkDT (d_ops th) DSVal (d_st th) (d_old th) (Some v) (d_idx th) (d_done th))))
          | None =>
              Some (mkDS (dcell s) (alock s) (qlock s) (nbeg s) (pred (inbody s)) (rets s)
                         ((t, BEnd false) :: blog s) (rlog s)
                         (dupd (dthr s) t (if locked then dwith_pc th (DQRel true) else dfinish th o DExc)))
          end
      | DSVal => Some (set_thr s t (dwith_pc th DSAcq))
      | DSAcq =>
          match alock s with
          | Some _ => None
          | None => Some (set_thr (set_alock s (Some t)) t (dwith_pc th DSCmp))
          end
      | DSCmp =>
          Some (set_thr s t (dwith_pc th (if cas_ok (dcell s) (d_old th) then DSSet else DSRel false)))
      | DSSet =>
          Some (mkDS (d_new th) (alock s) (qlock s) (nbeg s) (inbody s) (rets s) (blog s) (rlog s)
                     (dupd (dthr s) t (dwith_pc th (DSRel true))))
      | DSRel true =>
          Some (set_thr (set_alock s None) t
                  (if locked then dwith_pc th (DQRel false) else dfinish th o (val_res (d_new th))))
      | DSRel false => Some (set_thr (set_alock s None) t (dwith_pc th DSRead))
      | DQRel exc =>
          Some (set_thr (set_qlock s None) t (dfinish th o (if exc then DExc else val_res (d_new th))))
      end
    end.

  Definition dinit_thread (p : list dop) : dthread := mkDT p DIdle None None None 0 [].
  Definition dinit (progs : nat -> list dop) : dstate :=
    mkDS None None None 0 0 [] [] [] (fun t => dinit_thread (progs t)).

  Inductive dreach (s0 : dstate) : dstate -> Prop :=
  | dreach_refl : dreach s0 s0
  | dreach_step : forall s t s', dreach s0 s -> dstep t s = Some s' -> dreach s0 s'.

  Definition d_is_acq (p : dpc) : bool := match p with DRdAcq | DSAcq | DQAcq => true | _ => false end.
  Definition d_lock_busy (s : dstate) (p : dpc) (t : nat) : bool :=
    match p with
    | DQAcq => match qlock s with Some u => negb (Nat.eqb u t) | None => false end
    | _ => match alock s with Some u => negb (Nat.eqb u t) | None => false end
    end.

  Fixpoint drun (sch : list (nat * dlab * bool)) (s : dstate) : option dstate :=
    match sch with
    | [] => Some s
    | (t, l, blocked) :: r =>
        let p := dcur (dthr s t) in
        match dlab_of p with
        | None => None
        | Some l' =>
            if negb (dlab_eqb l l') then None
            else if blocked
            then (if d_is_acq p && d_lock_busy s p t
                     && match d_ops (dthr s t) with [] => false | _ => true end
                  then drun r s else None)
            else match dstep t s with Some s' => drun r s' | None => None end
        end
    end.

  Lemma drun_reach s0 : forall sch s s', dreach s0 s -> drun sch s = Some s' -> dreach s0 s'.
  Proof.
    induction sch as [|[[t l] b] r IH]; simpl; intros s s' R H.
    - inversion H; subst; exact R.
    - destruct (dlab_of (dcur (dthr s t))); [|discriminate].
      destruct (negb (dlab_eqb l d)); [discriminate|].
      destruct b.
      + destruct (d_is_acq _ && _ && _); [|discriminate]. eapply IH; eauto.
      + destruct (dstep t s) eqn:E; [|discriminate]. eapply IH; [|exact H]. econstructor; eauto.
  Qed.
End Delay.

Arguments dthread : clear implicits.
Arguments dstate : clear implicits.
