(** First-order core extended with fn* (single arity, optionally named so that the body can
    call the function itself, closures over their lexical environment) and invocation of
    function values.  Evaluation rules on explicit fuel
    (self-application can diverge).  Effects are recorded as observations (closures show
    as [OFn]). *)
From Coq Require Import List ZArith NArith Bool.
Import ListNotations.
From Verif Require C01.FLisp.

Notation const := Verif.C01.FLisp.const.
Notation obs := Verif.C01.FLisp.obs.
Notation prim := Verif.C01.FLisp.prim.
Notation KNil := Verif.C01.FLisp.KNil.
Notation KBool := Verif.C01.FLisp.KBool.
Notation KInt := Verif.C01.FLisp.KInt.
Notation KVec := Verif.C01.FLisp.KVec.
Notation ONil := Verif.C01.FLisp.ONil.
Notation OBool := Verif.C01.FLisp.OBool.
Notation OInt := Verif.C01.FLisp.OInt.
Notation OVec := Verif.C01.FLisp.OVec.
Notation OFn := Verif.C01.FLisp.OFn.
Notation PTrace := Verif.C01.FLisp.PTrace.
Notation PVec := Verif.C01.FLisp.PVec.
Notation PConj := Verif.C01.FLisp.PConj.
Notation PInc := Verif.C01.FLisp.PInc.
Notation PLt := Verif.C01.FLisp.PLt.

Definition trace := list obs.

Inductive cexpr :=
| CConst (k : const)
| CLocal (x : N)
| CIf (c t e : cexpr)
| CDo (s r : cexpr)
| CLet (x : N) (i b : cexpr)
| CCall (f : prim) (args : list cexpr)
| CFn (self : option N) (params : list N) (body : cexpr)
| CInvoke (f : cexpr) (args : list cexpr).

Inductive cval :=
| CVNil | CVBool (b : bool) | CVInt (z : Z) | CVVec (l : list cval)
| CVClo (self : option N) (params : list N) (body : cexpr) (env : list (N * cval)).

Definition env := list (N * cval).

Fixpoint lookup (rho : env) (x : N) : option cval :=
  match rho with
  | [] => None
  | (y, v) :: r => if N.eqb x y then Some v else lookup r x
  end.

Fixpoint obs_of (v : cval) : obs :=
  match v with
  | CVNil => ONil | CVBool b => OBool b | CVInt z => OInt z
  | CVVec l => OVec (map obs_of l)
  | CVClo _ _ _ _ => OFn
  end.

Fixpoint of_const (k : const) : cval :=
  match k with
  | KNil => CVNil | KBool b => CVBool b | KInt z => CVInt z
  | KVec l => CVVec (map of_const l)
  end.

Definition falsey (v : cval) : bool :=
  match v with CVNil => true | CVBool false => true | _ => false end.

Definition apply_prim (p : prim) (vs : list cval) : option (cval * trace) :=
  match p, vs with
  | PTrace, [v] => Some (v, [obs_of v])
  | PVec, _ => Some (CVVec vs, [])
  | PConj, [CVVec l; v] => Some (CVVec (l ++ [v]), [])
  | PInc, [CVInt z] => Some (CVInt (z + 1), [])
  | PLt, [CVInt a; CVInt b] => Some (CVBool (Z.ltb a b), [])
  | _, _ => None
  end.

(** parameters are bound left to right (a later duplicate would shadow an earlier one; the
    generator's guard excludes duplicates, Python rejects them) *)
Fixpoint bind_params (ps : list N) (vs : list cval) (rho : env) : option env :=
  match ps, vs with
  | [], [] => Some rho
  | p :: ps', v :: vs' => bind_params ps' vs' ((p, v) :: rho)
  | _, _ => None
  end.

(** the environment of a call: the closure's, plus the function itself under its own name *)
Definition self_env (self : option N) (ps : list N) (body : cexpr) (rc : env) : env :=
  match self with Some f => (f, CVClo self ps body rc) :: rc | None => rc end.

Section Lists.
  Variable ev : cexpr -> option (cval * trace).
  Fixpoint evals (l : list cexpr) : option (list cval * trace) :=
    match l with
    | [] => Some ([], [])
    | a :: r =>
        match ev a with
        | Some (v, t1) =>
            match evals r with Some (vs, t2) => Some (v :: vs, t1 ++ t2) | None => None end
        | None => None
        end
    end.
End Lists.

Fixpoint ceval (fuel : nat) (rho : env) (e : cexpr) : option (cval * trace) :=
  match fuel with
  | O => None
  | S n =>
      match e with
      | CConst k => Some (of_const k, [])
      | CLocal x => match lookup rho x with Some v => Some (v, []) | None => None end
      | CIf c t e =>
          match ceval n rho c with
          | Some (vc, t1) =>
              match (if falsey vc then ceval n rho e else ceval n rho t) with
              | Some (v, t2) => Some (v, t1 ++ t2)
              | None => None
              end
          | None => None
          end
      | CDo s r =>
          match ceval n rho s with
          | Some (_, t1) => match ceval n rho r with Some (v, t2) => Some (v, t1 ++ t2) | None => None end
          | None => None
          end
      | CLet x i b =>
          match ceval n rho i with
          | Some (vi, t1) =>
              match ceval n ((x, vi) :: rho) b with Some (v, t2) => Some (v, t1 ++ t2) | None => None end
          | None => None
          end
      | CCall f args =>
          match evals (ceval n rho) args with
          | Some (vs, t1) =>
              match apply_prim f vs with Some (v, t2) => Some (v, t1 ++ t2) | None => None end
          | None => None
          end
      | CFn self ps body => Some (CVClo self ps body rho, [])
      | CInvoke f args =>
          match evals (ceval n rho) (f :: args) with
          | Some (CVClo self ps body rc :: vs, t1) =>
              match bind_params ps vs (self_env self ps body rc) with
              | Some rho' =>
                  match ceval n rho' body with Some (v, t2) => Some (v, t1 ++ t2) | None => None end
              | None => None
              end
          | _ => None
          end
      end
  end.
