(** Generator model for the closure fragment (generator.py: _fn_to_py_ast for single-arity
    fns, _invoke_to_py_ast, on top of the first-order core of C01/Gen.v). *)
From Coq Require Import List ZArith NArith Bool.
Import ListNotations.
From Verif Require Import C01C.CLisp C01C.CPy.
Local Open Scope N_scope.

Definition senv := N -> option pname.
Definition upd (sg : senv) (x : N) (p : pname) : senv := fun y => if N.eqb y x then Some p else sg y.

Definition atomic (e : pexpr) : bool := match e with PConst _ | PName _ => true | _ => false end.
Definition is_nil {A} (l : list A) : bool := match l with [] => true | _ => false end.

Fixpoint bind_sg (sg : senv) (ps : list N) : senv :=
  match ps with [] => sg | x :: r => bind_sg (upd sg x (NParam x)) r end.

Fixpoint memb (x : N) (l : list N) : bool :=
  match l with [] => false | y :: r => N.eqb x y || memb x r end.
Fixpoint nodupb (l : list N) : bool :=
  match l with [] => true | x :: r => negb (memb x r) && nodupb r end.

(** a named fn* sees itself under its own name: the Python function's name in the defining frame *)
Definition self_sg (sg : senv) (self : option N) (n : N) : senv :=
  match self with Some f => upd sg f (NFn n) | None => sg end.

Definition cout := (list cstmt * pexpr * N * bool)%type.

(** arguments left to right; an argument's inline expression is evaluated after the
    statements of all later arguments, so it must be atomic unless there are none *)
Definition cgen_args (g : N -> cexpr -> cout) : list cexpr -> N -> list cstmt * list pexpr * N * bool :=
  fix go (l : list cexpr) (n : N) :=
    match l with
    | [] => ([], [], n, true)
    | a :: r =>
        let '(d, e, n1, k1) := g n a in
        let '(ds, es, n2, k2) := go r n1 in
        (d ++ ds, e :: es, n2, k1 && k2 && (atomic e || is_nil ds))
    end.

Fixpoint cgen (sg : senv) (n : N) (e : cexpr) : cout :=
  match e with
  | CConst k => ([], PConst k, n, true)
  | CLocal x => ([], PName (match sg x with Some p => p | None => NLocal x 0 end), n, true)
  | CIf c t e =>
      let '(dc, ec, n1, k1) := cgen sg n c in
      let test := NTemp n1 in
      let res := NTemp (n1 + 1) in
      let '(dt, et, n2, k2) := cgen sg (n1 + 2) t in
      let '(de, ee, n3, k3) := cgen sg n2 e in
      (dc ++ [SAssign test ec; SIf test (de ++ [SAssign res ee]) (dt ++ [SAssign res et])],
       PName res, n3, k1 && k2 && k3)
  | CDo s r =>
      let '(ds, es, n1, k1) := cgen sg n s in
      let '(dr, er, n2, k2) := cgen sg n1 r in
      (ds ++ [SExpr es] ++ dr, er, n2, k1 && k2)
  | CLet x i b =>
      let '(di, ei, n1, k1) := cgen sg n i in
      let p := NLocal x n1 in
      let '(db, eb, n2, k2) := cgen (upd sg x p) (n1 + 1) b in
      (di ++ [SAssign p ei] ++ db, eb, n2, k1 && k2)
  | CCall f args =>
      let '(ds, es, n', k) := cgen_args (fun n a => cgen sg n a) args n in
      (ds, PCall f es, n', k)
  | CFn self ps body =>
      let fname := NFn n in
      let '(db, eb, n1, k) := cgen (bind_sg (self_sg sg self n) ps) (n + 1) body in
      ([SDef fname (n + 1) (map NParam ps) db eb], PName fname, n1, k && nodupb ps)
  | CInvoke f args =>
      let '(df, ef, n1, k1) := cgen sg n f in
      let '(ds, es, n', k2) := cgen_args (fun n a => cgen sg n a) args n1 in
      (df ++ ds, PInvoke ef es, n', k1 && k2 && (atomic ef || is_nil ds))
  end.

Definition cgen_list (sg : senv) (n : N) (l : list cexpr) := cgen_args (cgen sg) l n.

Lemma cgen_list_cons sg n a r :
  cgen_list sg n (a :: r) =
    let '(d, e, n1, k1) := cgen sg n a in
    let '(ds, es, n2, k2) := cgen_list sg n1 r in
    (d ++ ds, e :: es, n2, k1 && k2 && (atomic e || is_nil ds)).
Proof. reflexivity. Qed.

Definition hazard_free (e : cexpr) : bool :=
  let '(_, _, _, k) := cgen (fun _ => None) 0 e in k.

Definition crun (fuel : nat) (e : cexpr) : option (obs * trace) :=
  let '(d, pe, _, _) := cgen (fun _ => None) 0 e in
  match cexec fuel 0%nat [fun _ => None] d with
  | Some (H1, t1) =>
      match peval fuel 0%nat H1 pe with Some (v, _, t2) => Some (pobs_of v, t1 ++ t2) | None => None end
  | None => None
  end.

Definition ceval_obs (fuel : nat) (e : cexpr) : option (obs * trace) :=
  match ceval fuel [] e with Some (v, t) => Some (obs_of v, t) | None => None end.
