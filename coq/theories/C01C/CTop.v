(** Whole-program theorem for the closure fragment. *)
From Coq Require Import List ZArith NArith Bool Lia Arith.
Import ListNotations.
From Verif Require Import C01C.CLisp C01C.CPy C01C.CGen C01C.CMono C01C.CSim.
Local Open Scope N_scope.

Lemma R_empty : R [] (fun _ => None) [fun _ => None] 0%nat 0.
Proof.
  exists (fun _ => None). split; [reflexivity|]. split; [intros x v X; discriminate|].
  split; [intros x p X; discriminate|]. split; [intros x y X; discriminate|]. intros p X. congruence.
Qed.

(** If the evaluation rules give a value and a trace for a closed hazard-free program of the
    fragment (constants, locals, if, do, let*, primitive calls, fn* of one arity, invocation of
    function values; closures may be returned, stored in vectors, passed around and called
    any number of times, from anywhere), then for every sufficiently large fuel the compiled
    code yields the same observable value and exactly the same trace: every closure sees, each
    time it is called, the bindings that were in effect when it was created. *)
Theorem ccompile_correct fuel e v tr :
  ceval fuel [] e = Some (v, tr) -> hazard_free e = true ->
  exists m, forall m', (m <= m')%nat -> crun m' e = Some (obs_of v, tr).
Proof.
  intros He Hh. unfold hazard_free, crun in *.
  destruct (cgen (fun _ => None) 0 e) as [[[d pe] n'] k] eqn:G. subst k.
  destruct (csim_all fuel e _ _ _ _ _ _ _ _ _ _ _ R_empty eq_refl He G)
    as (m & H1 & H2 & pv & t1 & t2 & F1 & X & P & T & V & _).
  exists m. intros m' Hm.
  rewrite (cexec_mono m m' _ _ _ _ Hm X), (peval_mono m m' _ _ _ _ Hm P), T, (VR_obs _ _ _ V). reflexivity.
Qed.

Definition t1 (z : Z) : cexpr := CCall PTrace [CConst (KInt z)].

(** (let* [a 1 f (fn* [x] (vector a x (t 5)))] (vector (f 2) (f (t 3)))) *)
Definition adder : cexpr :=
  CLet 0 (CConst (KInt 1)) (CLet 1 (CFn None [2] (CCall PVec [CLocal 0; CLocal 2; t1 5]))
    (CCall PVec [CInvoke (CLocal 1) [CConst (KInt 2)]; CInvoke (CLocal 1) [t1 3]])).

(** (let* [mk (fn* [n] (fn* [] n)) a (mk 1) b (mk 2)] (vector (a) (b))): each closure keeps its own n *)
Definition counters : cexpr :=
  CLet 0 (CFn None [1] (CFn None [] (CLocal 1)))
    (CLet 2 (CInvoke (CLocal 0) [CConst (KInt 1)]) (CLet 3 (CInvoke (CLocal 0) [CConst (KInt 2)])
       (CCall PVec [CInvoke (CLocal 2) []; CInvoke (CLocal 3) []]))).

(** (let* [a 1 f (fn* [] a) a 2] (vector (f) a)): a later binding of the same name does not reach the closure *)
Definition rebind : cexpr :=
  CLet 0 (CConst (KInt 1)) (CLet 1 (CFn None [] (CLocal 0)) (CLet 0 (CConst (KInt 2))
    (CCall PVec [CInvoke (CLocal 1) []; CLocal 0]))).

(** a named fn* calling itself: ((fn* go [n acc] (if (< n 3) (go (inc n) (conj acc (t n))) acc)) 0 []) *)
Definition recursive : cexpr :=
  CInvoke (CFn (Some 0) [1; 2]
             (CIf (CCall PLt [CLocal 1; CConst (KInt 3)])
                  (CInvoke (CLocal 0) [CCall PInc [CLocal 1]; CCall PConj [CLocal 2; CCall PTrace [CLocal 1]]])
                  (CLocal 2)))
          [CConst (KInt 0); CConst (KVec [])].

Example recursive_ok :
  hazard_free recursive = true /\
  ceval_obs 60 recursive = Some (OVec [OInt 0; OInt 1; OInt 2], [OInt 0; OInt 1; OInt 2]) /\
  crun 60 recursive = ceval_obs 60 recursive.
Proof. repeat split; vm_compute; reflexivity. Qed.

Example adder_ok :
  hazard_free adder = true /\
  ceval_obs 30 adder = Some (OVec [OVec [OInt 1; OInt 2; OInt 5]; OVec [OInt 1; OInt 3; OInt 5]], [OInt 5; OInt 3; OInt 5]) /\
  crun 30 adder = ceval_obs 30 adder.
Proof. repeat split; vm_compute; reflexivity. Qed.

Example counters_ok :
  hazard_free counters = true /\ ceval_obs 40 counters = Some (OVec [OInt 1; OInt 2], []) /\
  crun 40 counters = ceval_obs 40 counters.
Proof. repeat split; vm_compute; reflexivity. Qed.

Example rebind_ok :
  hazard_free rebind = true /\ ceval_obs 40 rebind = Some (OVec [OInt 1; OInt 2], []) /\
  crun 40 rebind = ceval_obs 40 rebind.
Proof. repeat split; vm_compute; reflexivity. Qed.
