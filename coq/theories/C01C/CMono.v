(** Python semantics of the closure fragment: unfolding lemmas, fuel monotonicity,
    sequencing, and frame locality (evaluating an expression only appends frames; executing
    statements in frame [fid] otherwise only changes frame [fid]). *)
From Coq Require Import List ZArith NArith Bool Lia Arith.
Import ListNotations.
From Verif Require Import C01C.CLisp C01C.CPy.

(** ---- unfolding ---- *)
Lemma peval_S_const n fid H k : peval (S n) fid H (PConst k) = Some (pv_of_const k, H, []).
Proof. reflexivity. Qed.
Lemma peval_S_name n fid H p :
  peval (S n) fid H (PName p) = match frame_get H fid p with Some v => Some (v, H, []) | None => None end.
Proof. reflexivity. Qed.
Lemma peval_S_call n fid H f args :
  peval (S n) fid H (PCall f args) =
    match pevall n fid H args with
    | Some (vs, H1, t1) => match papply f vs with Some (v, t2) => Some (v, H1, t1 ++ t2) | None => None end
    | None => None
    end.
Proof. reflexivity. Qed.
Lemma peval_S_invoke n fid H ef eargs :
  peval (S n) fid H (PInvoke ef eargs) =
    match pevall n fid H (ef :: eargs) with
    | Some (PVClo lo ps body ret dfid :: vs, H1, t1) =>
        match nth_error H1 dfid with
        | Some Fd =>
            match bind_pparams ps vs (restrict lo Fd) with
            | Some Fc =>
                match cexec n (length H1) (H1 ++ [Fc]) body with
                | Some (H2, t2) =>
                    match peval n (length H1) H2 ret with
                    | Some (v, H3, t3) => Some (v, H3, t1 ++ t2 ++ t3)
                    | None => None
                    end
                | None => None
                end
            | None => None
            end
        | None => None
        end
    | _ => None
    end.
Proof. reflexivity. Qed.
Lemma cexec1_S_assign n fid H p e :
  cexec1 (S n) fid H (SAssign p e) =
    match peval n fid H e with Some (v, H1, t) => Some (set_frame H1 fid p v, t) | None => None end.
Proof. reflexivity. Qed.
Lemma cexec1_S_expr n fid H e :
  cexec1 (S n) fid H (SExpr e) = match peval n fid H e with Some (_, H1, t) => Some (H1, t) | None => None end.
Proof. reflexivity. Qed.
Lemma cexec1_S_if n fid H t fb tb :
  cexec1 (S n) fid H (SIf t fb tb) =
    match frame_get H fid t with Some v => cexec n fid H (if pfalsey v then fb else tb) | None => None end.
Proof. reflexivity. Qed.
Lemma cexec1_S_def n fid H name lo ps body ret :
  cexec1 (S n) fid H (SDef name lo ps body ret) = Some (set_frame H fid name (PVClo lo ps body ret fid), []).
Proof. reflexivity. Qed.

Lemma cexec_nil m fid H : cexec m fid H [] = Some (H, []).
Proof. reflexivity. Qed.
Lemma cexec_cons m fid H s r :
  cexec m fid H (s :: r) =
    match cexec1 m fid H s with
    | Some (H1, t1) => match cexec m fid H1 r with Some (H2, t2) => Some (H2, t1 ++ t2) | None => None end
    | None => None
    end.
Proof. reflexivity. Qed.
Lemma pevall_nil m fid H : pevall m fid H [] = Some ([], H, []).
Proof. reflexivity. Qed.
Lemma pevall_cons m fid H a r :
  pevall m fid H (a :: r) =
    match peval m fid H a with
    | Some (v, H1, t1) =>
        match pevall m fid H1 r with Some (vs, H2, t2) => Some (v :: vs, H2, t1 ++ t2) | None => None end
    | None => None
    end.
Proof. reflexivity. Qed.

Lemma cexec_app m fid H l1 l2 :
  cexec m fid H (l1 ++ l2) =
    match cexec m fid H l1 with
    | Some (H1, t1) => match cexec m fid H1 l2 with Some (H2, t2) => Some (H2, t1 ++ t2) | None => None end
    | None => None
    end.
Proof.
  revert H. induction l1 as [|s r IH]; intro H.
  - cbn [app]. rewrite cexec_nil. destruct (cexec m fid H l2) as [[H2 t2]|]; reflexivity.
  - rewrite <- app_comm_cons, !cexec_cons.
    destruct (cexec1 m fid H s) as [[H1 t1]|]; [|reflexivity].
    rewrite IH. destruct (cexec m fid H1 r) as [[H2 t2]|]; [|reflexivity].
    destruct (cexec m fid H2 l2) as [[H3 t3]|]; [|reflexivity].
    rewrite app_assoc. reflexivity.
Qed.

(** ---- fuel monotonicity ---- *)
Definition exte (f g : heap -> pexpr -> option (pval * heap * trace)) : Prop :=
  forall H e r, f H e = Some r -> g H e = Some r.
Definition exts (f g : heap -> cstmt -> option (heap * trace)) : Prop :=
  forall H s r, f H s = Some r -> g H s = Some r.

Lemma pevals_ext f g : exte f g -> forall l H r, pevals f H l = Some r -> pevals g H l = Some r.
Proof.
  intros E. induction l as [|a l IH]; intros H r Hr; simpl in *; [exact Hr|].
  destruct (f H a) as [[[v H1] t1]|] eqn:E1; [|discriminate]. rewrite (E _ _ _ E1).
  destruct (pevals f H1 l) as [[[vs H2] t2]|] eqn:E2; [|discriminate]. rewrite (IH _ _ E2). exact Hr.
Qed.

Lemma execs_ext f g : exts f g -> forall l H r, execs f H l = Some r -> execs g H l = Some r.
Proof.
  intros E. induction l as [|s l IH]; intros H r Hr; simpl in *; [exact Hr|].
  destruct (f H s) as [[H1 t1]|] eqn:E1; [|discriminate]. rewrite (E _ _ _ E1).
  destruct (execs f H1 l) as [[H2 t2]|] eqn:E2; [|discriminate]. rewrite (IH _ _ E2). exact Hr.
Qed.

Lemma mono_step : forall m,
  (forall fid H e r, peval m fid H e = Some r -> peval (S m) fid H e = Some r) /\
  (forall fid H s r, cexec1 m fid H s = Some r -> cexec1 (S m) fid H s = Some r).
Proof.
  induction m as [|m [IH1 IH2]]; [split; intros; discriminate|].
  assert (EE : forall fid, exte (peval m fid) (peval (S m) fid)) by (intros fid H e r; apply IH1).
  assert (ES : forall fid, exts (cexec1 m fid) (cexec1 (S m) fid)) by (intros fid H s r; apply IH2).
  split.
  - intros fid H e r Hr. destruct e as [k|p|f args|ef eargs].
    + exact Hr.
    + exact Hr.
    + rewrite peval_S_call in *. unfold pevall in *.
      destruct (pevals (peval m fid) H args) as [[[vs H1] t1]|] eqn:E1; [|discriminate].
      rewrite (pevals_ext _ _ (EE fid) _ _ _ E1). exact Hr.
    + rewrite peval_S_invoke in *. unfold pevall in *.
      destruct (pevals (peval m fid) H (ef :: eargs)) as [[[vs H1] t1]|] eqn:E1; [|discriminate].
      rewrite (pevals_ext _ _ (EE fid) _ _ _ E1).
      destruct vs as [|[| | | |lo ps body ret dfid] vs]; try discriminate.
      destruct (nth_error H1 dfid) as [Fd|]; [|discriminate].
      destruct (bind_pparams ps vs (restrict lo Fd)) as [Fc|]; [|discriminate].
      unfold cexec in *.
      destruct (execs (cexec1 m (length H1)) (H1 ++ [Fc]) body) as [[H2 t2]|] eqn:E2; [|discriminate].
      rewrite (execs_ext _ _ (ES _) _ _ _ E2).
      destruct (peval m (length H1) H2 ret) as [[[v H3] t3]|] eqn:E3; [|discriminate].
      rewrite (IH1 _ _ _ _ E3). exact Hr.
  - intros fid H s r Hr. destruct s as [p e|e|t fb tb|name lo ps body ret].
    + rewrite cexec1_S_assign in *.
      destruct (peval m fid H e) as [[[v H1] t]|] eqn:E1; [|discriminate]. rewrite (IH1 _ _ _ _ E1). exact Hr.
    + rewrite cexec1_S_expr in *.
      destruct (peval m fid H e) as [[[v H1] t]|] eqn:E1; [|discriminate]. rewrite (IH1 _ _ _ _ E1). exact Hr.
    + rewrite cexec1_S_if in *. destruct (frame_get H fid t) as [v|]; [|discriminate].
      unfold cexec in *. eapply execs_ext; [apply ES|exact Hr].
    + exact Hr.
Qed.

Lemma peval_mono m m' fid H e r : (m <= m')%nat -> peval m fid H e = Some r -> peval m' fid H e = Some r.
Proof. intros L Hr. induction L as [|m' L IH]; [exact Hr|]. apply (proj1 (mono_step m')). exact IH. Qed.
Lemma cexec1_mono m m' fid H s r : (m <= m')%nat -> cexec1 m fid H s = Some r -> cexec1 m' fid H s = Some r.
Proof. intros L Hr. induction L as [|m' L IH]; [exact Hr|]. apply (proj2 (mono_step m')). exact IH. Qed.
Lemma cexec_mono m m' fid H l r : (m <= m')%nat -> cexec m fid H l = Some r -> cexec m' fid H l = Some r.
Proof. intros L. unfold cexec. apply execs_ext. intros H0 s r0. apply cexec1_mono. exact L. Qed.
Lemma pevall_mono m m' fid H l r : (m <= m')%nat -> pevall m fid H l = Some r -> pevall m' fid H l = Some r.
Proof. intros L. unfold pevall. apply pevals_ext. intros H0 e r0. apply peval_mono. exact L. Qed.

Lemma cexec_seq m1 m2 fid H l1 l2 H1 t1 H2 t2 :
  cexec m1 fid H l1 = Some (H1, t1) -> cexec m2 fid H1 l2 = Some (H2, t2) ->
  cexec (Nat.max m1 m2) fid H (l1 ++ l2) = Some (H2, t1 ++ t2).
Proof.
  intros X1 X2. rewrite cexec_app.
  rewrite (cexec_mono m1 (Nat.max m1 m2) _ _ _ _ (Nat.le_max_l _ _) X1).
  rewrite (cexec_mono m2 (Nat.max m1 m2) _ _ _ _ (Nat.le_max_r _ _) X2). reflexivity.
Qed.

Lemma cexec_single m fid H s r : cexec1 m fid H s = Some r -> cexec m fid H [s] = Some r.
Proof. intro X. rewrite cexec_cons, X. destruct r as [H1 t1]. rewrite cexec_nil, app_nil_r. reflexivity. Qed.

(** ---- frames ---- *)
Lemma set_frame_length H fid p v : length (set_frame H fid p v) = length H.
Proof. revert fid. induction H as [|F r IH]; intros [|k]; simpl; auto. Qed.

Lemma set_frame_same H fid p v F : nth_error H fid = Some F -> nth_error (set_frame H fid p v) fid = Some (set F p v).
Proof.
  revert fid. induction H as [|F0 r IH]; intros [|k] E; simpl in *; try discriminate.
  - inversion E; reflexivity.
  - apply IH. exact E.
Qed.

Lemma set_frame_other H fid p v g : g <> fid -> nth_error (set_frame H fid p v) g = nth_error H g.
Proof.
  revert fid g. induction H as [|F0 r IH]; intros [|k] [|g] N; simpl; auto; try congruence.
Qed.

(** [pres H H']: H' extends H by new frames only *)
Definition pres (H H' : heap) : Prop :=
  (length H <= length H')%nat /\ forall g, (g < length H)%nat -> nth_error H' g = nth_error H g.
(** [pres_except fid H H']: the same except for frame [fid] *)
Definition pres_except (fid : nat) (H H' : heap) : Prop :=
  (length H <= length H')%nat /\ forall g, (g < length H)%nat -> g <> fid -> nth_error H' g = nth_error H g.

Lemma pres_refl H : pres H H.
Proof. split; auto. Qed.
Lemma pres_trans H1 H2 H3 : pres H1 H2 -> pres H2 H3 -> pres H1 H3.
Proof. intros [L1 A1] [L2 A2]. split; [lia|]. intros g Hg. rewrite A2 by lia. apply A1. exact Hg. Qed.
Lemma pres_pe fid H H' : pres H H' -> pres_except fid H H'.
Proof. intros [L A]. split; [exact L|]. intros g Hg _. apply A. exact Hg. Qed.
Lemma pe_refl fid H : pres_except fid H H.
Proof. split; auto. Qed.
Lemma pe_trans fid H1 H2 H3 : pres_except fid H1 H2 -> pres_except fid H2 H3 -> pres_except fid H1 H3.
Proof. intros [L1 A1] [L2 A2]. split; [lia|]. intros g Hg N. rewrite A2 by (lia || exact N). apply A1; assumption. Qed.
Lemma pres_app H fs : pres H (H ++ fs).
Proof. split; [rewrite app_length; lia|]. intros g Hg. apply nth_error_app1. exact Hg. Qed.
Lemma pe_set_frame H fid p v : pres_except fid H (set_frame H fid p v).
Proof. split; [rewrite set_frame_length; lia|]. intros g _ N. apply set_frame_other. exact N. Qed.
(** a change confined to a frame that did not exist before is no change *)
Lemma pe_new H H' cf : (length H <= cf)%nat -> pres H H' -> forall H'', pres_except cf H' H'' -> pres H H''.
Proof.
  intros Lc [L A] H'' [L2 A2]. split; [lia|]. intros g Hg. rewrite A2 by lia. apply A. exact Hg.
Qed.

Lemma locality : forall m,
  (forall fid H e v H' t, peval m fid H e = Some (v, H', t) -> pres H H') /\
  (forall fid H s H' t, cexec1 m fid H s = Some (H', t) -> pres_except fid H H').
Proof.
  induction m as [|m [IH1 IH2]]; [split; intros; discriminate|].
  assert (IL : forall fid l H vs H' t, pevall m fid H l = Some (vs, H', t) -> pres H H').
  { intros fid l. induction l as [|a l IHl]; intros H vs H' t X.
    - rewrite pevall_nil in X. inversion X; subst. apply pres_refl.
    - rewrite pevall_cons in X.
      destruct (peval m fid H a) as [[[v H1] t1]|] eqn:E1; [|discriminate].
      destruct (pevall m fid H1 l) as [[[vs' H2] t2]|] eqn:E2; [|discriminate]. inversion X; subst.
      eapply pres_trans; [eapply IH1; exact E1|eapply IHl; exact E2]. }
  assert (IS : forall fid l H H' t, cexec m fid H l = Some (H', t) -> pres_except fid H H').
  { intros fid l. induction l as [|s l IHl]; intros H H' t X.
    - rewrite cexec_nil in X. inversion X; subst. apply pe_refl.
    - rewrite cexec_cons in X.
      destruct (cexec1 m fid H s) as [[H1 t1]|] eqn:E1; [|discriminate].
      destruct (cexec m fid H1 l) as [[H2 t2]|] eqn:E2; [|discriminate]. inversion X; subst.
      eapply pe_trans; [eapply IH2; exact E1|eapply IHl; exact E2]. }
  split.
  - intros fid H e v H' t X. destruct e as [k|p|f args|ef eargs].
    + rewrite peval_S_const in X. inversion X; subst. apply pres_refl.
    + rewrite peval_S_name in X. destruct (frame_get H fid p); inversion X; subst. apply pres_refl.
    + rewrite peval_S_call in X.
      destruct (pevall m fid H args) as [[[vs H1] t1]|] eqn:E1; [|discriminate].
      destruct (papply f vs) as [[v' t2]|]; [|discriminate]. inversion X; subst. eapply IL; exact E1.
    + rewrite peval_S_invoke in X.
      destruct (pevall m fid H (ef :: eargs)) as [[[vs H1] t1]|] eqn:E1; [|discriminate].
      destruct vs as [|[| | | |lo ps body ret dfid] vs]; try discriminate.
      destruct (nth_error H1 dfid) as [Fd|]; [|discriminate].
      destruct (bind_pparams ps vs (restrict lo Fd)) as [Fc|]; [|discriminate].
      destruct (cexec m (length H1) (H1 ++ [Fc]) body) as [[H2 t2]|] eqn:E2; [|discriminate].
      destruct (peval m (length H1) H2 ret) as [[[v' H3] t3]|] eqn:E3; [|discriminate]. inversion X; subst.
      eapply pres_trans; [eapply IL; exact E1|].
      eapply pres_trans; [|eapply IH1; exact E3].
      eapply (pe_new H1 (H1 ++ [Fc]) (length H1)); [lia|apply pres_app|eapply IS; exact E2].
  - intros fid H s H' t X. destruct s as [p e|e|tst fb tb|name lo ps body ret].
    + rewrite cexec1_S_assign in X.
      destruct (peval m fid H e) as [[[v H1] t1]|] eqn:E1; [|discriminate]. inversion X; subst.
      eapply pe_trans; [apply pres_pe; eapply IH1; exact E1|apply pe_set_frame].
    + rewrite cexec1_S_expr in X.
      destruct (peval m fid H e) as [[[v H1] t1]|] eqn:E1; [|discriminate]. inversion X; subst.
      apply pres_pe. eapply IH1; exact E1.
    + rewrite cexec1_S_if in X. destruct (frame_get H fid tst); [|discriminate]. eapply IS; exact X.
    + rewrite cexec1_S_def in X. inversion X; subst. apply pe_set_frame.
Qed.

Lemma peval_pres m fid H e v H' t : peval m fid H e = Some (v, H', t) -> pres H H'.
Proof. apply (proj1 (locality m)). Qed.
