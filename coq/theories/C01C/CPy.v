(** Python subset with function definitions and calls.  A heap of frames; a function value
    refers to its defining frame BY REFERENCE (it is read when the function is called, as
    Python's closure cells are), restricted to the names generated before the definition
    (Python captures exactly the free variables of the body; in generated code those all lie
    below the counter value recorded in the definition).  The called function's frame starts
    as that view of the defining frame overridden by the parameters; a function body assigns
    only its own frame (no nonlocal/global in this subset). *)
From Coq Require Import List ZArith NArith Bool.
Import ListNotations.
From Verif Require Import C01C.CLisp.
Local Open Scope N_scope.

Inductive pname := NLocal (x i : N) | NTemp (i : N) | NParam (x : N) | NFn (i : N).

Definition idx (p : pname) : N :=
  match p with NLocal _ i => i | NTemp i => i | NParam _ => 0 | NFn i => i end.

Definition pname_eqb (a b : pname) : bool :=
  match a, b with
  | NLocal x i, NLocal y j => N.eqb x y && N.eqb i j
  | NTemp i, NTemp j => N.eqb i j
  | NParam x, NParam y => N.eqb x y
  | NFn i, NFn j => N.eqb i j
  | _, _ => false
  end.

Lemma pname_eqb_eq a b : pname_eqb a b = true <-> a = b.
Proof.
  destruct a, b; simpl; split; intro H; try discriminate; try (inversion H; subst);
    rewrite ?andb_true_iff, ?N.eqb_eq in *; try (destruct H; subst); auto;
    try (apply N.eqb_eq in H; subst; reflexivity); try (split; reflexivity); try apply N.eqb_refl.
Qed.

Inductive pexpr :=
| PConst (k : const)
| PName (p : pname)
| PCall (f : prim) (args : list pexpr)
| PInvoke (f : pexpr) (args : list pexpr).

Inductive cstmt :=
| SAssign (n : pname) (e : pexpr)
| SExpr (e : pexpr)
| SIf (test : pname) (fb tb : list cstmt)
| SDef (name : pname) (lo : N) (params : list pname) (body : list cstmt) (ret : pexpr).

Inductive pval :=
| PVNil | PVBool (b : bool) | PVInt (z : Z) | PVVec (l : list pval)
| PVClo (lo : N) (params : list pname) (body : list cstmt) (ret : pexpr) (dfid : nat).

Definition frame := pname -> option pval.
Definition heap := list frame.

Definition set (F : frame) (p : pname) (v : pval) : frame :=
  fun q => if pname_eqb q p then Some v else F q.

Fixpoint set_frame (H : heap) (fid : nat) (p : pname) (v : pval) : heap :=
  match H, fid with
  | [], _ => []
  | F :: r, O => set F p v :: r
  | F :: r, S k => F :: set_frame r k p v
  end.

Definition frame_get (H : heap) (fid : nat) (p : pname) : option pval :=
  match nth_error H fid with Some F => F p | None => None end.

Definition restrict (lo : N) (F : frame) : frame := fun p => if N.ltb (idx p) lo then F p else None.

Fixpoint bind_pparams (ps : list pname) (vs : list pval) (F : frame) : option frame :=
  match ps, vs with
  | [], [] => Some F
  | p :: ps', v :: vs' => bind_pparams ps' vs' (set F p v)
  | _, _ => None
  end.

Fixpoint pobs_of (v : pval) : obs :=
  match v with
  | PVNil => ONil | PVBool b => OBool b | PVInt z => OInt z
  | PVVec l => OVec (map pobs_of l)
  | PVClo _ _ _ _ _ => OFn
  end.

Fixpoint pv_of_const (k : const) : pval :=
  match k with
  | KNil => PVNil | KBool b => PVBool b | KInt z => PVInt z
  | KVec l => PVVec (map pv_of_const l)
  end.

Definition pfalsey (v : pval) : bool :=
  match v with PVNil => true | PVBool false => true | _ => false end.

Definition papply (p : prim) (vs : list pval) : option (pval * trace) :=
  match p, vs with
  | PTrace, [v] => Some (v, [pobs_of v])
  | PVec, _ => Some (PVVec vs, [])
  | PConj, [PVVec l; v] => Some (PVVec (l ++ [v]), [])
  | PInc, [PVInt z] => Some (PVInt (z + 1), [])
  | PLt, [PVInt a; PVInt b] => Some (PVBool (Z.ltb a b), [])
  | _, _ => None
  end.

Section Lists.
  Variable ev : heap -> pexpr -> option (pval * heap * trace).
  Fixpoint pevals (H : heap) (l : list pexpr) : option (list pval * heap * trace) :=
    match l with
    | [] => Some ([], H, [])
    | a :: r =>
        match ev H a with
        | Some (v, H1, t1) =>
            match pevals H1 r with Some (vs, H2, t2) => Some (v :: vs, H2, t1 ++ t2) | None => None end
        | None => None
        end
    end.
  Variable ex1 : heap -> cstmt -> option (heap * trace).
  Fixpoint execs (H : heap) (l : list cstmt) : option (heap * trace) :=
    match l with
    | [] => Some (H, [])
    | s :: r =>
        match ex1 H s with
        | Some (H1, t1) => match execs H1 r with Some (H2, t2) => Some (H2, t1 ++ t2) | None => None end
        | None => None
        end
    end.
End Lists.

Fixpoint peval (fuel : nat) (fid : nat) (H : heap) (e : pexpr) : option (pval * heap * trace) :=
  match fuel with
  | O => None
  | S n =>
      match e with
      | PConst k => Some (pv_of_const k, H, [])
      | PName p => match frame_get H fid p with Some v => Some (v, H, []) | None => None end
      | PCall f args =>
          match pevals (peval n fid) H args with
          | Some (vs, H1, t1) =>
              match papply f vs with Some (v, t2) => Some (v, H1, t1 ++ t2) | None => None end
          | None => None
          end
      | PInvoke ef eargs =>
          match pevals (peval n fid) H (ef :: eargs) with
          | Some (PVClo lo ps body ret dfid :: vs, H1, t1) =>
              match nth_error H1 dfid with
              | Some Fd =>
                  match bind_pparams ps vs (restrict lo Fd) with
                  | Some Fc =>
                      let cf := length H1 in
                      match execs (cexec1 n cf) (H1 ++ [Fc]) body with
                      | Some (H2, t2) =>
                          match peval n cf H2 ret with
                          | Some (v, H3, t3) => Some (v, H3, t1 ++ t2 ++ t3)
                          | None => None
                          end
                      | None => None
                      end
                  | None => None
                  end
              | None => None
              end
          | _ => None
          end
      end
  end

with cexec1 (fuel : nat) (fid : nat) (H : heap) (s : cstmt) : option (heap * trace) :=
  match fuel with
  | O => None
  | S n =>
      match s with
      | SAssign p e =>
          match peval n fid H e with Some (v, H1, t) => Some (set_frame H1 fid p v, t) | None => None end
      | SExpr e => match peval n fid H e with Some (_, H1, t) => Some (H1, t) | None => None end
      | SIf t fb tb =>
          match frame_get H fid t with
          | Some v => execs (cexec1 n fid) H (if pfalsey v then fb else tb)
          | None => None
          end
      | SDef name lo ps body ret => Some (set_frame H fid name (PVClo lo ps body ret fid), [])
      end
  end.

Definition cexec (fuel : nat) (fid : nat) := execs (cexec1 fuel fid).
Definition pevall (fuel : nat) (fid : nat) := pevals (peval fuel fid).
