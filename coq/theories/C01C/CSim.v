(** Forward simulation for the closure fragment: fn* values are related to Python function
    values compiled from them whose defining frame holds related values for the captured
    names; frames only ever gain fresh names, so the relation is stable as execution goes on. *)
From Coq Require Import List ZArith NArith Bool Lia Arith.
Import ListNotations.
From Verif Require Import C01C.CLisp C01C.CPy C01C.CGen C01C.CMono.
Local Open Scope N_scope.

Definition agree_below (n : N) (F F' : frame) : Prop := forall p, idx p < n -> F' p = F p.
Definition below (n : N) (F : frame) : Prop := forall p, F p <> None -> idx p < n.
Definition incl_frame (F F' : frame) : Prop := forall p v, F p = Some v -> F' p = Some v.
Definition Hle (H H' : heap) : Prop :=
  forall g F, nth_error H g = Some F -> exists F', nth_error H' g = Some F' /\ incl_frame F F'.
Definition sg_wf (sg : senv) : Prop := forall x y, sg x = Some (NParam y) -> y = x.

Lemma agree_refl n F : agree_below n F F.
Proof. intros p _; reflexivity. Qed.
Lemma agree_trans n m F1 F2 F3 : n <= m -> agree_below n F1 F2 -> agree_below m F2 F3 -> agree_below n F1 F3.
Proof. intros L A B p Hp. rewrite B by lia. apply A; auto. Qed.
Lemma agree_weaken n m F F' : n <= m -> agree_below m F F' -> agree_below n F F'.
Proof. intros L A p Hp. apply A. lia. Qed.
Lemma set_same F p v : set F p v p = Some v.
Proof. unfold set. assert (E : pname_eqb p p = true) by (apply pname_eqb_eq; reflexivity). rewrite E. reflexivity. Qed.
Lemma set_other F p v q : q <> p -> set F p v q = F q.
Proof.
  intro Hn. unfold set. destruct (pname_eqb q p) eqn:E; [|reflexivity].
  apply pname_eqb_eq in E. contradiction.
Qed.
Lemma agree_set n F p v : n <= idx p -> agree_below n F (set F p v).
Proof. intros L q Hq. apply set_other. intro E; subst. lia. Qed.
Lemma below_set n m F p v : below n F -> n <= m -> idx p < m -> below m (set F p v).
Proof.
  intros B L Lp q Hq. unfold set in Hq. destruct (pname_eqb q p) eqn:E.
  - apply pname_eqb_eq in E. subst. exact Lp.
  - specialize (B q Hq). lia.
Qed.
Lemma below_weaken n m F : below n F -> n <= m -> below m F.
Proof. intros B L p Hp. specialize (B p Hp). lia. Qed.
Lemma below_unbound n F p : below n F -> n <= idx p -> F p = None.
Proof. intros B L. destruct (F p) eqn:E; [|reflexivity]. assert (idx p < n) by (apply B; congruence). lia. Qed.
Lemma incl_refl F : incl_frame F F.
Proof. intros p v E; exact E. Qed.
Lemma incl_set F p v : F p = None -> incl_frame F (set F p v).
Proof. intros Hn q w E. rewrite set_other; [exact E|]. intro X; subst. congruence. Qed.
Lemma Hle_refl H : Hle H H.
Proof. intros g F E. exists F. split; [exact E|apply incl_refl]. Qed.
Lemma Hle_trans H1 H2 H3 : Hle H1 H2 -> Hle H2 H3 -> Hle H1 H3.
Proof.
  intros A B g F E. destruct (A g F E) as (F2 & E2 & I2). destruct (B g F2 E2) as (F3 & E3 & I3).
  exists F3. split; [exact E3|]. intros p v X. apply I3, I2, X.
Qed.
Lemma nth_lt {A} (l : list A) g x : nth_error l g = Some x -> (g < length l)%nat.
Proof. intro E. apply nth_error_Some. congruence. Qed.
Lemma Hle_pres H H' : pres H H' -> Hle H H'.
Proof.
  intros [L A] g F E. exists F. split; [|apply incl_refl]. rewrite A; [exact E|]. eapply nth_lt; eauto.
Qed.
Lemma Hle_set H fid F p v : nth_error H fid = Some F -> F p = None -> Hle H (set_frame H fid p v).
Proof.
  intros E Hn g Fg Eg. destruct (Nat.eq_dec g fid) as [Eq|N]; [subst g|].
  - pose proof (eq_trans (eq_sym E) Eg) as X; inversion X; subst Fg; clear X. exists (set F p v). split; [apply set_frame_same; exact E|apply incl_set; exact Hn].
  - exists Fg. split; [rewrite set_frame_other by exact N; exact Eg|apply incl_refl].
Qed.
(** what executing statements in frame [fid] does to the heap as a whole *)
Lemma Hle_exec n fid H H1 F F1 :
  nth_error H fid = Some F -> below n F -> pres_except fid H H1 ->
  nth_error H1 fid = Some F1 -> agree_below n F F1 -> Hle H H1.
Proof.
  intros E B [L A] E1 Ag g Fg Eg. destruct (Nat.eq_dec g fid) as [Eq|N]; [subst g|].
  - pose proof (eq_trans (eq_sym E) Eg) as X; inversion X; subst Fg; clear X. exists F1. split; [exact E1|].
    intros p v X. rewrite Ag; [exact X|]. apply B. congruence.
  - exists Fg. split; [|apply incl_refl]. rewrite A; [exact Eg| |exact N]. eapply nth_lt; eauto.
Qed.

(** ---- values ---- *)
Inductive VR (H : heap) : cval -> pval -> Prop :=
| VR_nil : VR H CVNil PVNil
| VR_bool b : VR H (CVBool b) (PVBool b)
| VR_int z : VR H (CVInt z) (PVInt z)
| VR_vec l pl : Forall2 (VR H) l pl -> VR H (CVVec l) (PVVec pl)
| VR_clo self ps body rc sg n pb pr n' dfid Fd :
    nth_error H dfid = Some Fd ->
    cgen (bind_sg (self_sg sg self n) ps) (n + 1) body = (pb, pr, n', true) ->
    (forall x p, sg x = Some p -> idx p < n) -> sg_wf sg ->
    (forall x v, lookup rc x = Some v -> exists p pv, sg x = Some p /\ Fd p = Some pv /\ VR H v pv) ->
    Fd (NFn n) = Some (PVClo (n + 1) (map NParam ps) pb pr dfid) ->
    VR H (CVClo self ps body rc) (PVClo (n + 1) (map NParam ps) pb pr dfid).

Section CvalInd.
  Variable P : cval -> Prop.
  Hypothesis HNil : P CVNil.
  Hypothesis HBool : forall b, P (CVBool b).
  Hypothesis HInt : forall z, P (CVInt z).
  Hypothesis HVec : forall l, Forall P l -> P (CVVec l).
  Hypothesis HClo : forall self ps body rc, Forall (fun xv => P (snd xv)) rc -> P (CVClo self ps body rc).
  Fixpoint cval_ind' (v : cval) : P v :=
    match v with
    | CVNil => HNil | CVBool b => HBool b | CVInt z => HInt z
    | CVVec l => HVec l ((fix go (l : list cval) : Forall P l :=
                            match l with [] => Forall_nil P | a :: r => Forall_cons a (cval_ind' a) (go r) end) l)
    | CVClo self ps body rc =>
        HClo self ps body rc ((fix go (l : list (N * cval)) : Forall (fun xv => P (snd xv)) l :=
                            match l with [] => Forall_nil _ | xv :: r => Forall_cons xv (cval_ind' (snd xv)) (go r) end) rc)
    end.
End CvalInd.

Lemma lookup_in rc x v : lookup rc x = Some v -> In (x, v) rc.
Proof.
  induction rc as [|[y w] r IH]; simpl; [discriminate|].
  destruct (N.eqb x y) eqn:E.
  - apply N.eqb_eq in E. subst. intro X. inversion X; subst. left; reflexivity.
  - intro X. right. apply IH. exact X.
Qed.

Lemma VR_mono : forall v pv H H', Hle H H' -> VR H v pv -> VR H' v pv.
Proof.
  induction v as [| b | z | l IHl | self ps body rc IHrc] using cval_ind'; intros pv H H' L X; inversion X; subst;
    try constructor.
  - (* vec *)
    match goal with F2 : Forall2 _ l _ |- _ => revert F2 end. generalize pl. clear X.
    induction IHl as [|a r Pa Pr IHr]; intros pl0 F2; inversion F2; subst; constructor; eauto.
  - (* closure *)
    match goal with E : nth_error H dfid = Some Fd |- _ => destruct (L _ _ E) as (Fd' & E' & I') end.
    econstructor; eauto.
    intros x v Hx.
    match goal with Henv : forall x v, lookup rc x = Some v -> _ |- _ => destruct (Henv x v Hx) as (p & pv0 & S1 & S2 & S3) end.
    exists p, pv0. split; [exact S1|]. split; [apply I'; exact S2|].
    rewrite Forall_forall in IHrc. apply (IHrc (x, v) (lookup_in _ _ _ Hx) pv0 H H' L S3).
Qed.

Lemma VR_mono_list H H' vs pvs : Hle H H' -> Forall2 (VR H) vs pvs -> Forall2 (VR H') vs pvs.
Proof. intros L F2. induction F2; constructor; eauto using VR_mono. Qed.

Fixpoint VR_const (H : heap) (k : const) : VR H (of_const k) (pv_of_const k) :=
  match k with
  | Verif.C01.FLisp.KNil => VR_nil H
  | Verif.C01.FLisp.KBool b => VR_bool H b
  | Verif.C01.FLisp.KInt z => VR_int H z
  | Verif.C01.FLisp.KVec l =>
      VR_vec H _ _ ((fix go (l : list const) : Forall2 (VR H) (map of_const l) (map pv_of_const l) :=
                       match l with
                       | [] => Forall2_nil _
                       | x :: r => Forall2_cons _ _ (VR_const H x) (go r)
                       end) l)
  end.

Lemma VR_obs : forall v pv H, VR H v pv -> pobs_of pv = obs_of v.
Proof.
  induction v as [| b | z | l IHl | self ps body rc _] using cval_ind'; intros pv H X; inversion X; subst; try reflexivity.
  simpl. f_equal.
  match goal with F2 : Forall2 _ l _ |- _ => revert F2 end. generalize pl. clear X.
  induction IHl as [|a r Pa Pr IHr]; intros pl0 F2; inversion F2; subst; simpl; [reflexivity|].
  f_equal; eauto.
Qed.

Lemma VR_falsey H v pv : VR H v pv -> pfalsey pv = falsey v.
Proof. intro X. inversion X; reflexivity. Qed.

Lemma Forall2_app_one {A B} (P : A -> B -> Prop) l pl a b : Forall2 P l pl -> P a b -> Forall2 P (l ++ [a]) (pl ++ [b]).
Proof. intros F2 Pab. induction F2; simpl; constructor; auto. Qed.

Lemma papply_rel H f vs pvs v t :
  Forall2 (VR H) vs pvs -> apply_prim f vs = Some (v, t) ->
  exists pv, papply f pvs = Some (pv, t) /\ VR H v pv.
Proof.
  intros F2 A. destruct f; simpl in A.
  - (* trace *)
    destruct vs as [|v1 [|? ?]]; try discriminate. inversion A; subst.
    inversion F2 as [|? pv1 ? ? V1 F2']; subst. inversion F2'; subst.
    exists pv1. simpl. rewrite (VR_obs _ _ _ V1). split; [reflexivity|exact V1].
  - inversion A; subst. exists (PVVec pvs). split; [reflexivity|constructor; exact F2].
  - (* conj *)
    destruct vs as [|[| | |l|] [|v2 [|? ?]]]; try discriminate. inversion A; subst.
    inversion F2 as [|? pv1 ? ? V1 F2']; subst. inversion F2' as [|? pv2 ? ? V2 F2'']; subst. inversion F2''; subst.
    inversion V1; subst. exists (PVVec (pl ++ [pv2])). split; [reflexivity|].
    constructor. apply Forall2_app_one; assumption.
  - destruct vs as [|[| |z| |] [|? ?]]; try discriminate. inversion A; subst.
    inversion F2 as [|? pv1 ? ? V1 F2']; subst. inversion F2'; subst. inversion V1; subst.
    exists (PVInt (z + 1)). split; [reflexivity|constructor].
  - destruct vs as [|[| |a| |] [|[| |b| |] [|? ?]]]; try discriminate. inversion A; subst.
    inversion F2 as [|? pv1 ? ? V1 F2']; subst. inversion F2' as [|? pv2 ? ? V2 F2'']; subst. inversion F2''; subst.
    inversion V1; subst. inversion V2; subst.
    exists (PVBool (Z.ltb a b)). split; [reflexivity|constructor].
  - discriminate.
Qed.

(** ---- environments ---- *)
Definition R (rho : env) (sg : senv) (H : heap) (fid : nat) (n : N) : Prop :=
  exists F, nth_error H fid = Some F /\
    (forall x v, lookup rho x = Some v -> exists p pv, sg x = Some p /\ F p = Some pv /\ VR H v pv) /\
    (forall x p, sg x = Some p -> idx p < n) /\ sg_wf sg /\ below n F.

Lemma R_frame rho sg H fid n F : R rho sg H fid n -> nth_error H fid = Some F ->
  (forall x v, lookup rho x = Some v -> exists p pv, sg x = Some p /\ F p = Some pv /\ VR H v pv) /\
  (forall x p, sg x = Some p -> idx p < n) /\ sg_wf sg /\ below n F.
Proof.
  intros (F0 & E0 & A & B & C & D) E. pose proof (eq_trans (eq_sym E0) E) as X. inversion X; subst. auto.
Qed.

(** the relation after running code generated at counters [n, n') in the current frame *)
Lemma R_after rho sg H fid n n' H1 H2 F F1 :
  R rho sg H fid n -> nth_error H fid = Some F -> n <= n' ->
  pres_except fid H H1 -> nth_error H1 fid = Some F1 -> agree_below n F F1 -> below n' F1 -> pres H1 H2 ->
  R rho sg H2 fid n' /\ nth_error H2 fid = Some F1 /\ Hle H H2.
Proof.
  intros HR E L PE E1 Ag B1 P12.
  destruct (R_frame _ _ _ _ _ _ HR E) as (A & Bs & W & B).
  assert (L01 : Hle H H1) by (eapply Hle_exec; eauto).
  assert (L02 : Hle H H2) by (eapply Hle_trans; [exact L01|apply Hle_pres; exact P12]).
  assert (E2 : nth_error H2 fid = Some F1).
  { destruct P12 as [_ P]. rewrite P; [exact E1|]. eapply nth_lt; eauto. }
  split; [|split; [exact E2|exact L02]].
  exists F1. split; [exact E2|]. split; [|split; [|split; [exact W|exact B1]]].
  - intros x v Hx. destruct (A x v Hx) as (p & pv & S1 & S2 & S3). exists p, pv.
    split; [exact S1|]. split; [rewrite Ag; [exact S2|eapply Bs; eauto]|eapply VR_mono; eauto].
  - intros x p Hx. specialize (Bs x p Hx). lia.
Qed.

(** binding one more source variable to a fresh Python name *)
Lemma R_let rho sg H fid n F x v p pv m :
  R rho sg H fid n -> nth_error H fid = Some F -> F p = None -> idx p < m -> n <= m ->
  (forall y, p <> NParam y) -> VR H v pv ->
  R ((x, v) :: rho) (upd sg x p) (set_frame H fid p pv) fid m.
Proof.
  intros HR E Hn Lp L NP V.
  destruct (R_frame _ _ _ _ _ _ HR E) as (A & Bs & W & B).
  assert (LH : Hle H (set_frame H fid p pv)) by (eapply Hle_set; eauto).
  exists (set F p pv). split; [apply set_frame_same; exact E|].
  split; [|split; [|split]].
  - intros y w Hy. simpl in Hy. unfold upd. destruct (N.eqb y x) eqn:Eyx.
    + inversion Hy; subst. exists p, pv. split; [reflexivity|]. split; [apply set_same|eapply VR_mono; eauto].
    + destruct (A y w Hy) as (q & qv & S1 & S2 & S3). exists q, qv. split; [exact S1|].
      split; [rewrite set_other; [exact S2|intro X; subst; congruence]|eapply VR_mono; eauto].
  - intros y q Hy. unfold upd in Hy. destruct (N.eqb y x).
    + inversion Hy; subst. exact Lp.
    + specialize (Bs y q Hy). lia.
  - intros y z Hy. unfold upd in Hy. destruct (N.eqb y x) eqn:Eyx.
    + inversion Hy as [X]. exfalso. apply (NP z). exact X.
    + apply W. exact Hy.
  - eapply below_set; eauto.
Qed.

(** assigning a fresh name that is not a source variable's *)
Lemma R_set rho sg H fid n F p pv m :
  R rho sg H fid n -> nth_error H fid = Some F -> F p = None -> idx p < m -> n <= m ->
  R rho sg (set_frame H fid p pv) fid m.
Proof.
  intros HR E Hn Lp L.
  destruct (R_frame _ _ _ _ _ _ HR E) as (A & Bs & W & B).
  assert (LH : Hle H (set_frame H fid p pv)) by (eapply Hle_set; eauto).
  exists (set F p pv). split; [apply set_frame_same; exact E|].
  split; [|split; [|split; [exact W|eapply below_set; eauto]]].
  - intros y w Hy. destruct (A y w Hy) as (q & qv & S1 & S2 & S3). exists q, qv. split; [exact S1|].
    split; [rewrite set_other; [exact S2|intro X; subst; congruence]|eapply VR_mono; eauto].
  - intros y q Hy. specialize (Bs y q Hy). lia.
Qed.

(** ---- generator facts ---- *)
Section CexprInd.
  Variable P : cexpr -> Prop.
  Hypothesis HConst : forall k, P (CConst k).
  Hypothesis HLocal : forall x, P (CLocal x).
  Hypothesis HIf : forall c t e, P c -> P t -> P e -> P (CIf c t e).
  Hypothesis HDo : forall s r, P s -> P r -> P (CDo s r).
  Hypothesis HLet : forall x i b, P i -> P b -> P (CLet x i b).
  Hypothesis HCall : forall f args, Forall P args -> P (CCall f args).
  Hypothesis HFn : forall self ps body, P body -> P (CFn self ps body).
  Hypothesis HInvoke : forall f args, P f -> Forall P args -> P (CInvoke f args).
  Fixpoint cexpr_ind' (e : cexpr) : P e :=
    match e with
    | CConst k => HConst k
    | CLocal x => HLocal x
    | CIf c t e => HIf c t e (cexpr_ind' c) (cexpr_ind' t) (cexpr_ind' e)
    | CDo s r => HDo s r (cexpr_ind' s) (cexpr_ind' r)
    | CLet x i b => HLet x i b (cexpr_ind' i) (cexpr_ind' b)
    | CCall f args =>
        HCall f args ((fix go (l : list cexpr) : Forall P l :=
                         match l with [] => Forall_nil P | a :: r => Forall_cons a (cexpr_ind' a) (go r) end) args)
    | CFn self ps body => HFn self ps body (cexpr_ind' body)
    | CInvoke f args =>
        HInvoke f args (cexpr_ind' f)
          ((fix go (l : list cexpr) : Forall P l :=
              match l with [] => Forall_nil P | a :: r => Forall_cons a (cexpr_ind' a) (go r) end) args)
    end.
End CexprInd.

Lemma cgen_mono : forall e sg n d pe n' k, cgen sg n e = (d, pe, n', k) -> n <= n'.
Proof.
  assert (LL : forall args, Forall (fun e => forall sg n d pe n' k, cgen sg n e = (d, pe, n', k) -> n <= n') args ->
               forall sg n ds es n' k, cgen_list sg n args = (ds, es, n', k) -> n <= n').
  { induction args as [|a r IHr]; intros HF sg n ds es n' k G.
    - cbv in G. inversion G; lia.
    - rewrite cgen_list_cons in G.
      destruct (cgen sg n a) as [[[? ?] b1] ?] eqn:Ga.
      destruct (cgen_list sg b1 r) as [[[? ?] b2] ?] eqn:Gr.
      cbv beta iota in G. inversion G; subst. inversion HF as [|? ? Pa Pr]; subst.
      apply Pa in Ga. apply (IHr Pr) in Gr. lia. }
  induction e as [k0|x|c t e IHc IHt IHe|s r IHs IHr|x i b IHi IHb|f args IHargs|self ps body IHbody|f args IHf IHargs]
    using cexpr_ind'; intros sg n d pe n' k G; cbn [cgen] in G.
  - inversion G; lia.
  - inversion G; lia.
  - destruct (cgen sg n c) as [[[? ?] a1] ?] eqn:G1.
    destruct (cgen sg (a1 + 2) t) as [[[? ?] a2] ?] eqn:G2.
    destruct (cgen sg a2 e) as [[[? ?] a3] ?] eqn:G3. cbv beta iota zeta in G. inversion G; subst.
    apply IHc in G1. apply IHt in G2. apply IHe in G3. lia.
  - destruct (cgen sg n s) as [[[? ?] a1] ?] eqn:G1.
    destruct (cgen sg a1 r) as [[[? ?] a2] ?] eqn:G2. cbv beta iota in G. inversion G; subst.
    apply IHs in G1. apply IHr in G2. lia.
  - destruct (cgen sg n i) as [[[? ?] a1] ?] eqn:G1. cbv zeta in G.
    destruct (cgen (upd sg x (NLocal x a1)) (a1 + 1) b) as [[[? ?] a2] ?] eqn:G2. cbv beta iota in G. inversion G; subst.
    apply IHi in G1. apply IHb in G2. lia.
  - change (cgen_args (fun n a => cgen sg n a) args n) with (cgen_list sg n args) in G.
    destruct (cgen_list sg n args) as [[[ds es] a1] ka] eqn:G1. cbv beta iota in G. inversion G; subst.
    eapply LL; eauto.
  - cbv zeta in G.
    destruct (cgen (bind_sg (self_sg sg self n) ps) (n + 1) body) as [[[? ?] a1] ?] eqn:G1. cbv beta iota in G. inversion G; subst.
    apply IHbody in G1. lia.
  - destruct (cgen sg n f) as [[[? ?] a1] ?] eqn:G1.
    change (cgen_args (fun n a => cgen sg n a) args a1) with (cgen_list sg a1 args) in G.
    destruct (cgen_list sg a1 args) as [[[ds es] a2] ka] eqn:G2. cbv beta iota in G. inversion G; subst.
    apply IHf in G1. apply (LL args IHargs) in G2. lia.
Qed.

Lemma cgen_list_mono : forall r sg m ds es n' k, cgen_list sg m r = (ds, es, n', k) -> m <= n'.
Proof.
  induction r as [|b r IHr]; intros sg m ds es n' k G.
  - cbv in G. inversion G; lia.
  - rewrite cgen_list_cons in G.
    destruct (cgen sg m b) as [[[? ?] b1] ?] eqn:Gb.
    destruct (cgen_list sg b1 r) as [[[? ?] b2] ?] eqn:Gr. cbv beta iota in G. inversion G; subst.
    apply cgen_mono in Gb. apply IHr in Gr. lia.
Qed.

(** invocation is generated as the argument list (f :: args) *)
Lemma cgen_invoke sg n f args :
  cgen sg n (CInvoke f args) =
    let '(ds, es, n', k) := cgen_list sg n (f :: args) in
    match es with ef :: eargs => (ds, PInvoke ef eargs, n', k) | [] => (ds, PConst KNil, n', false) end.
Proof.
  cbn [cgen]. rewrite cgen_list_cons.
  destruct (cgen sg n f) as [[[df ef] n1] k1].
  change (cgen_args (fun n a => cgen sg n a) args n1) with (cgen_list sg n1 args).
  destruct (cgen_list sg n1 args) as [[[ds es] n'] k2]. reflexivity.
Qed.

(** names of an atomic inline expression lie below the counter *)
Definition nba (n : N) (e : pexpr) : bool := match e with PName p => N.ltb (idx p) n | _ => true end.

Lemma nba_mono n m e : n <= m -> nba n e = true -> nba m e = true.
Proof. intros L. destruct e; simpl; auto. intro X. apply N.ltb_lt in X. apply N.ltb_lt. lia. Qed.

(** an atomic expression evaluates without effect, and to the same value wherever the current
    frame agrees *)
Lemma atomic_eval m fid H e pv H' t :
  atomic e = true -> peval m fid H e = Some (pv, H', t) -> H' = H /\ t = [].
Proof.
  destruct m; [discriminate|]. destruct e; try discriminate; intros _ X.
  - rewrite peval_S_const in X. inversion X; auto.
  - rewrite peval_S_name in X. destruct (frame_get H fid p); inversion X; auto.
Qed.

Lemma atomic_reeval m fid H e pv H' t n F H3 F3 :
  atomic e = true -> nba n e = true -> peval m fid H e = Some (pv, H', t) ->
  nth_error H fid = Some F -> nth_error H3 fid = Some F3 -> agree_below n F F3 ->
  peval 1 fid H3 e = Some (pv, H3, []).
Proof.
  destruct m; [discriminate|]. destruct e; try discriminate; intros _ Nb X E E3 Ag.
  - rewrite peval_S_const in X |- *. inversion X; subst. reflexivity.
  - rewrite peval_S_name in X |- *. unfold frame_get in *. rewrite E in X. rewrite E3.
    simpl in Nb. apply N.ltb_lt in Nb. rewrite (Ag p Nb).
    destruct (F p); inversion X; subst. reflexivity.
Qed.

Lemma cexec_pe m fid H l H' t : cexec m fid H l = Some (H', t) -> pres_except fid H H'.
Proof.
  revert H H' t. induction l as [|s l IHl]; intros H H' t X.
  - rewrite cexec_nil in X. inversion X; subst. apply pe_refl.
  - rewrite cexec_cons in X.
    destruct (cexec1 m fid H s) as [[H1 t1]|] eqn:E1; [|discriminate].
    destruct (cexec m fid H1 l) as [[H2 t2]|] eqn:E2; [|discriminate]. inversion X; subst.
    eapply pe_trans; [eapply (proj2 (locality m)); exact E1|eapply IHl; exact E2].
Qed.

Lemma pevall_pres m fid l : forall H vs H' t, pevall m fid H l = Some (vs, H', t) -> pres H H'.
Proof.
  induction l as [|a l IHl]; intros H vs H' t X.
  - rewrite pevall_nil in X. inversion X; subst. apply pres_refl.
  - rewrite pevall_cons in X.
    destruct (peval m fid H a) as [[[v H1] t1]|] eqn:E1; [|discriminate].
    destruct (pevall m fid H1 l) as [[[vs' H2] t2]|] eqn:E2; [|discriminate]. inversion X; subst.
    eapply pres_trans; [eapply peval_pres; exact E1|eapply IHl; exact E2].
Qed.

(** ---- the simulation statement ---- *)
Definition csim (fuel : nat) : Prop :=
  forall e sg n rho H fid F v tr d pe n',
    R rho sg H fid n -> nth_error H fid = Some F ->
    ceval fuel rho e = Some (v, tr) -> cgen sg n e = (d, pe, n', true) ->
    exists m H1 H2 pv t1 t2 F1,
      cexec m fid H d = Some (H1, t1) /\ peval m fid H1 pe = Some (pv, H2, t2) /\ tr = t1 ++ t2 /\
      VR H2 v pv /\ nth_error H1 fid = Some F1 /\ agree_below n F F1 /\ below n' F1 /\ nba n' pe = true.

Definition csim_list (fuel : nat) : Prop :=
  forall l sg n rho H fid F vs tr ds es n',
    R rho sg H fid n -> nth_error H fid = Some F ->
    evals (ceval fuel rho) l = Some (vs, tr) -> cgen_list sg n l = (ds, es, n', true) ->
    exists m H1 H2 pvs t1 t2 F1,
      cexec m fid H ds = Some (H1, t1) /\ pevall m fid H1 es = Some (pvs, H2, t2) /\ tr = t1 ++ t2 /\
      Forall2 (VR H2) vs pvs /\ nth_error H1 fid = Some F1 /\ agree_below n F F1 /\ below n' F1 /\
      forallb (nba n') es = true.

Lemma is_nil_nil {A} (l : list A) : is_nil l = true -> l = [].
Proof. destruct l; [reflexivity|discriminate]. Qed.

Lemma csim_list_of fuel : csim fuel -> csim_list fuel.
Proof.
  intros HS l. induction l as [|a r IH]; intros sg n rho H fid F vs tr ds es n' HR E He Hg.
  - simpl in He. inversion He; subst. cbv in Hg. inversion Hg; subst.
    exists 1%nat, H, H, [], [], [], F.
    destruct (R_frame _ _ _ _ _ _ HR E) as (_ & _ & _ & B).
    repeat split; auto using agree_refl.
  - simpl in He. rewrite cgen_list_cons in Hg.
    destruct (cgen sg n a) as [[[d e] n1] k1] eqn:Ga.
    destruct (cgen_list sg n1 r) as [[[ds' es'] n2] k2] eqn:Gr.
    cbv beta iota in Hg. injection Hg as Hg1 Hg2 Hg3 Hk. subst.
    apply andb_true_iff in Hk as [Hk Hhz]. apply andb_true_iff in Hk as [Hk1 Hk2]. subst.
    pose proof (cgen_mono _ _ _ _ _ _ _ Ga) as La.
    pose proof (cgen_list_mono _ _ _ _ _ _ _ Gr) as Lr.
    destruct (ceval fuel rho a) as [[va ta]|] eqn:Ea; [|discriminate].
    destruct (evals (ceval fuel rho) r) as [[vr trr]|] eqn:Er; [|discriminate].
    inversion He; subst; clear He.
    destruct (HS a sg n rho H fid F va ta d e n1 HR E Ea Ga)
      as (m1 & Ha1 & Ha2 & pva & ta1 & ta2 & Fa1 & X1 & P1 & T1 & V1 & E1 & A1 & B1 & N1).
    pose proof (cexec_pe _ _ _ _ _ _ X1) as PE1.
    pose proof (peval_pres _ _ _ _ _ _ _ P1) as PP1.
    destruct (R_after rho sg H fid n n1 Ha1 Ha2 F Fa1 HR E La PE1 E1 A1 B1 PP1) as (HR2 & E2 & L02).
    apply orb_true_iff in Hhz as [Hat|Hnil].
    + (* the head's inline expression is atomic: it can be evaluated after the later statements *)
      destruct (atomic_eval _ _ _ _ _ _ _ Hat P1) as [-> ->].
      destruct (IH sg n1 rho Ha1 fid Fa1 vr trr ds' es' n' HR2 E1 Er Gr)
        as (m2 & Hb1 & Hb2 & pvs & tb1 & tb2 & Fb1 & X2 & P2 & T2 & V2 & Eb1 & A2 & B2 & N2).
      pose proof (cexec_pe _ _ _ _ _ _ X2) as PE2.
      pose proof (pevall_pres _ _ _ _ _ _ _ P2) as PP2.
      destruct (R_frame _ _ _ _ _ _ HR2 E1) as (_ & _ & _ & Bb).
      assert (L12 : Hle Ha1 Hb2).
      { eapply Hle_trans; [eapply (Hle_exec n1 fid Ha1 Hb1 Fa1 Fb1); eauto|apply Hle_pres; exact PP2]. }
      exists (Nat.max (Nat.max m1 m2) 1), Hb1, Hb2, (pva :: pvs), (ta1 ++ tb1), tb2, Fb1.
      split; [apply (cexec_mono (Nat.max m1 m2)); [lia|eapply cexec_seq; eauto]|].
      split.
      { rewrite pevall_cons.
        rewrite (peval_mono 1 (Nat.max (Nat.max m1 m2) 1) _ _ _ _ ltac:(lia) (atomic_reeval _ _ _ _ _ _ _ n1 Fa1 Hb1 Fb1 Hat N1 P1 E1 Eb1 A2)).
        rewrite (pevall_mono m2 (Nat.max (Nat.max m1 m2) 1) _ _ _ _ ltac:(lia) P2). reflexivity. }
      split; [subst; rewrite !app_nil_r, <- ?app_assoc; reflexivity|].
      split; [constructor; [eapply VR_mono; eauto|exact V2]|].
      split; [exact Eb1|].
      split; [eapply agree_trans; eauto|].
      split; [exact B2|].
      simpl. rewrite (nba_mono n1 n' e Lr N1). exact N2.
    + (* no later statements: the order of evaluation is the source order as it stands *)
      apply is_nil_nil in Hnil. subst ds'.
      destruct (IH sg n1 rho Ha2 fid Fa1 vr trr [] es' n' HR2 E2 Er Gr)
        as (m2 & Hb1 & Hb2 & pvs & tb1 & tb2 & Fb1 & X2 & P2 & T2 & V2 & Eb1 & A2 & B2 & N2).
      rewrite cexec_nil in X2. inversion X2; subst Hb1 tb1; clear X2.
      pose proof (pevall_pres _ _ _ _ _ _ _ P2) as PP2.
      pose proof (eq_trans (eq_sym E2) Eb1) as XF. inversion XF; subst Fb1; clear XF.
      exists (Nat.max m1 m2), Ha1, Hb2, (pva :: pvs), ta1, (ta2 ++ tb2), Fa1.
      split; [rewrite app_nil_r; apply (cexec_mono m1); [lia|exact X1]|].
      split.
      { rewrite pevall_cons.
        rewrite (peval_mono m1 (Nat.max m1 m2) _ _ _ _ ltac:(lia) P1).
        rewrite (pevall_mono m2 (Nat.max m1 m2) _ _ _ _ ltac:(lia) P2). reflexivity. }
      split; [subst; rewrite ?app_nil_l, <- ?app_assoc; reflexivity|].
      split; [constructor; [eapply VR_mono; [apply Hle_pres; exact PP2|exact V1]|exact V2]|].
      split; [exact E1|].
      split; [exact A1|].
      split; [exact B2|].
      simpl. rewrite (nba_mono n1 n' e Lr N1). exact N2.
Qed.

Lemma R_weaken rho sg H fid n m : R rho sg H fid n -> n <= m -> R rho sg H fid m.
Proof.
  intros (F & E & A & B & W & Bl) L. exists F. split; [exact E|]. split; [exact A|].
  split; [intros x p Hx; specialize (B x p Hx); lia|]. split; [exact W|eapply below_weaken; eauto].
Qed.

(** binding the parameters of a call: source environment, symbol table and new frame in step *)
Lemma bind_rel H : forall ps vs pvs rc sg F rho',
  Forall2 (VR H) vs pvs -> bind_params ps vs rc = Some rho' ->
  (forall x v, lookup rc x = Some v -> exists p pv, sg x = Some p /\ F p = Some pv /\ VR H v pv) ->
  sg_wf sg ->
  exists Fc, bind_pparams (map NParam ps) pvs F = Some Fc /\
    (forall x v, lookup rho' x = Some v -> exists p pv, bind_sg sg ps x = Some p /\ Fc p = Some pv /\ VR H v pv) /\
    sg_wf (bind_sg sg ps) /\
    (forall n, below n F -> 0 < n -> below n Fc) /\
    (forall n, (forall x p, sg x = Some p -> idx p < n) -> 0 < n -> forall x p, bind_sg sg ps x = Some p -> idx p < n).
Proof.
  induction ps as [|p0 ps IH]; intros vs pvs rc sg F rho' F2 Hb Henv W.
  - destruct vs; [|discriminate]. inversion F2; subst. simpl in Hb. inversion Hb; subst.
    exists F. simpl. repeat split; auto.
  - destruct vs as [|v0 vs]; [discriminate|]. inversion F2 as [|? pv0 ? pvs' V0 F2']; subst.
    simpl in Hb. simpl.
    destruct (IH vs pvs' ((p0, v0) :: rc) (upd sg p0 (NParam p0)) (set F (NParam p0) pv0) rho' F2' Hb)
      as (Fc & Bp & Env & W' & Bel & Bnd).
    + intros x v Hx. simpl in Hx. unfold upd. destruct (N.eqb x p0) eqn:Ex.
      * inversion Hx; subst. exists (NParam p0), pv0. split; [reflexivity|]. split; [apply set_same|exact V0].
      * destruct (Henv x v Hx) as (p & pv & S1 & S2 & S3). exists p, pv. split; [exact S1|]. split; [|exact S3].
        rewrite set_other; [exact S2|]. intro X. subst p. apply W in S1. subst. rewrite N.eqb_refl in Ex. discriminate.
    + intros x y Hy. unfold upd in Hy. destruct (N.eqb x p0) eqn:Ex.
      * inversion Hy; subst. apply N.eqb_eq in Ex. congruence.
      * apply W. exact Hy.
    + exists Fc. split; [exact Bp|]. split; [exact Env|]. split; [exact W'|]. split.
      * intros n Bn Ln. apply Bel; [|exact Ln]. eapply below_set; [exact Bn|apply N.le_refl|simpl; exact Ln].
      * intros n Hn Ln. apply Bnd; [|exact Ln]. intros x p Hx. unfold upd in Hx. destruct (N.eqb x p0).
        -- inversion Hx; subst. simpl. exact Ln.
        -- eapply Hn; eauto.
Qed.

Theorem csim_all : forall fuel, csim fuel.
Proof.
  induction fuel as [fuel IH] using lt_wf_ind.
  destruct fuel as [|fuel]; [intros e sg n rho H fid F v tr d pe n' HR E He; discriminate|].
  assert (HS : csim fuel) by (apply IH; lia).
  pose proof (csim_list_of fuel HS) as HL.
  intros e sg n rho H fid F v tr d pe n' HR E He Hg.
  destruct (R_frame _ _ _ _ _ _ HR E) as (RA & RB & RW & RBel).
  destruct e as [k|x|c t e|s r|x i b|f args|self ps body|f args].
  - (* const *)
    cbn [ceval] in He. inversion He; subst. cbn [cgen] in Hg. inversion Hg; subst.
    exists 1%nat, H, H, (pv_of_const k), [], [], F.
    split; [reflexivity|]. split; [reflexivity|]. split; [reflexivity|]. split; [apply VR_const|].
    split; [exact E|]. split; [apply agree_refl|]. split; [exact RBel|reflexivity].
  - (* local *)
    cbn [ceval] in He. destruct (lookup rho x) as [vx|] eqn:Ex; [|discriminate]. inversion He; subst; clear He.
    cbn [cgen] in Hg. inversion Hg; subst; clear Hg.
    destruct (RA x v Ex) as (p & pv & S1 & S2 & S3). rewrite S1.
    exists 1%nat, H, H, pv, [], [], F.
    split; [reflexivity|].
    split; [rewrite peval_S_name; unfold frame_get; rewrite E, S2; reflexivity|].
    split; [reflexivity|]. split; [exact S3|]. split; [exact E|]. split; [apply agree_refl|]. split; [exact RBel|].
    simpl. apply N.ltb_lt. eapply RB; eauto.
  - (* if *)
    cbn [ceval] in He. cbn [cgen] in Hg.
    destruct (cgen sg n c) as [[[dc ec] n1] k1] eqn:Gc.
    destruct (cgen sg (n1 + 2) t) as [[[dt et] n2] k2] eqn:Gt.
    destruct (cgen sg n2 e) as [[[de ee] n3] k3] eqn:Ge.
    cbv beta iota zeta in Hg. injection Hg as Hg1 Hg2 Hg3 Hk. subst.
    apply andb_true_iff in Hk as [Hk Hk3]. apply andb_true_iff in Hk as [Hk1 Hk2]. subst.
    pose proof (cgen_mono _ _ _ _ _ _ _ Gc) as Lc.
    pose proof (cgen_mono _ _ _ _ _ _ _ Gt) as Lt.
    pose proof (cgen_mono _ _ _ _ _ _ _ Ge) as Le.
    destruct (ceval fuel rho c) as [[vc tc]|] eqn:Ec; [|discriminate].
    destruct (HS c sg n rho H fid F vc tc dc ec n1 HR E Ec Gc)
      as (m1 & H1 & H2 & pvc & tc1 & tc2 & F1 & X1 & P1 & T1 & V1 & E1 & A1 & B1 & N1).
    pose proof (cexec_pe _ _ _ _ _ _ X1) as PE1.
    pose proof (peval_pres _ _ _ _ _ _ _ P1) as PP1.
    destruct (R_after rho sg H fid n n1 H1 H2 F F1 HR E Lc PE1 E1 A1 B1 PP1) as (HR2 & E2 & L02).
    set (test := NTemp n1) in *. set (res := NTemp (n1 + 1)) in *.
    assert (Ut : F1 test = None) by (eapply below_unbound; [exact B1|unfold test; simpl; lia]).
    assert (Ur : F1 res = None) by (eapply below_unbound; [exact B1|unfold res; simpl; lia]).
    set (H3 := set_frame H2 fid test pvc). set (F3 := set F1 test pvc).
    assert (E3 : nth_error H3 fid = Some F3) by (apply set_frame_same; exact E2).
    assert (Xt : cexec (Nat.max m1 (S m1)) fid H (dc ++ [SAssign test ec]) = Some (H3, tc1 ++ tc2)).
    { eapply cexec_seq; [exact X1|]. apply cexec_single. rewrite cexec1_S_assign, P1. reflexivity. }
    assert (Hbr : exists br dbr ebr nb nb',
               (if falsey vc then ceval fuel rho e else ceval fuel rho t) = ceval fuel rho br /\
               cgen sg nb br = (dbr, ebr, nb', true) /\ n1 + 2 <= nb /\ nb' <= n' /\
               (if falsey vc then de ++ [SAssign res ee] else dt ++ [SAssign res et]) = dbr ++ [SAssign res ebr]).
    { destruct (falsey vc); [exists e, de, ee, n2, n'|exists t, dt, et, (n1 + 2), n2]; repeat split; auto; lia. }
    destruct Hbr as (br & dbr & ebr & nb & nb' & Ebr & Gbr & Lb1 & Lb2 & Elist).
    rewrite Ebr in He. destruct (ceval fuel rho br) as [[vb tb]|] eqn:Eb; [|discriminate].
    inversion He; subst v tr; clear He.
    assert (HR3 : R rho sg H3 fid nb).
    { eapply R_set; [exact HR2|exact E2|exact Ut|unfold test; simpl; lia|lia]. }
    destruct (HS br sg nb rho H3 fid F3 vb tb dbr ebr nb' HR3 E3 Eb Gbr)
      as (m2 & H4 & H5 & pvb & tb1 & tb2 & F4 & X2 & P2 & T2 & V2 & E4 & A2 & B2 & N2).
    pose proof (cgen_mono _ _ _ _ _ _ _ Gbr) as Lbr.
    pose proof (cexec_pe _ _ _ _ _ _ X2) as PE2.
    pose proof (peval_pres _ _ _ _ _ _ _ P2) as PP2.
    destruct (R_after rho sg H3 fid nb nb' H4 H5 F3 F4 HR3 E3 Lbr PE2 E4 A2 B2 PP2) as (HR5 & E5 & L35).
    assert (Ur4 : F4 res = None).
    { rewrite (A2 res) by (unfold res; simpl; lia). unfold F3. rewrite set_other; [exact Ur|]. unfold res, test. intro X. inversion X. lia. }
    set (H6 := set_frame H5 fid res pvb). set (F6 := set F4 res pvb).
    assert (E6 : nth_error H6 fid = Some F6) by (apply set_frame_same; exact E5).
    assert (Xb : cexec (Nat.max m2 (S m2)) fid H3 (dbr ++ [SAssign res ebr]) = Some (H6, tb1 ++ tb2)).
    { eapply cexec_seq; [exact X2|]. apply cexec_single. rewrite cexec1_S_assign, P2. reflexivity. }
    assert (Xi : cexec (S (Nat.max m2 (S m2))) fid H3
                   [SIf test (de ++ [SAssign res ee]) (dt ++ [SAssign res et])] = Some (H6, tb1 ++ tb2)).
    { apply cexec_single. rewrite cexec1_S_if. unfold frame_get. rewrite E3. unfold F3. rewrite set_same.
      rewrite (VR_falsey _ _ _ V1), Elist. exact Xb. }
    exists (Nat.max (Nat.max m1 (S m1)) (S (Nat.max m2 (S m2)))), H6, H6, pvb, ((tc1 ++ tc2) ++ (tb1 ++ tb2)), [], F6.
    split.
    { pose proof (cexec_seq _ _ fid H (dc ++ [SAssign test ec]) _ _ _ _ _ Xt Xi) as X3.
      rewrite <- app_assoc in X3. exact X3. }
    split.
    { apply (peval_mono 1); [lia|]. rewrite peval_S_name. unfold frame_get. rewrite E6. unfold F6. rewrite set_same. reflexivity. }
    split; [rewrite T1, T2, app_nil_r; reflexivity|].
    split; [eapply VR_mono; [eapply Hle_set; [exact E5|exact Ur4]|exact V2]|].
    split; [exact E6|].
    split.
    { apply (agree_trans n n F F1 F6); [apply N.le_refl|exact A1|].
      apply (agree_trans n n F1 F3 F6); [apply N.le_refl|apply agree_set; unfold test; simpl; lia|].
      apply (agree_trans n n F3 F4 F6); [apply N.le_refl|apply (agree_weaken n nb); [lia|exact A2]|].
      apply agree_set. unfold res. simpl. lia. }
    split; [eapply below_set; [exact B2|lia|unfold res; simpl; lia]|].
    simpl. apply N.ltb_lt. unfold res. simpl. lia.
  - (* do *)
    cbn [ceval] in He. cbn [cgen] in Hg.
    destruct (cgen sg n s) as [[[ds es] n1] k1] eqn:Gs.
    destruct (cgen sg n1 r) as [[[dr er] n2] k2] eqn:Gr.
    cbv beta iota in Hg. injection Hg as Hg1 Hg2 Hg3 Hk. subst.
    apply andb_true_iff in Hk as [Hk1 Hk2]. subst.
    pose proof (cgen_mono _ _ _ _ _ _ _ Gs) as Ls.
    pose proof (cgen_mono _ _ _ _ _ _ _ Gr) as Lr.
    destruct (ceval fuel rho s) as [[vs0 ts]|] eqn:Es; [|discriminate].
    destruct (ceval fuel rho r) as [[vr trr]|] eqn:Er; [|discriminate]. inversion He; subst v tr; clear He.
    destruct (HS s sg n rho H fid F vs0 ts ds es n1 HR E Es Gs)
      as (m1 & H1 & H2 & pvs0 & ts1 & ts2 & F1 & X1 & P1 & T1 & V1 & E1 & A1 & B1 & N1).
    pose proof (cexec_pe _ _ _ _ _ _ X1) as PE1.
    pose proof (peval_pres _ _ _ _ _ _ _ P1) as PP1.
    destruct (R_after rho sg H fid n n1 H1 H2 F F1 HR E Ls PE1 E1 A1 B1 PP1) as (HR2 & E2 & L02).
    destruct (HS r sg n1 rho H2 fid F1 vr trr dr pe n' HR2 E2 Er Gr)
      as (m2 & H3 & H4 & pv & tr1 & tr2 & F3 & X2 & P2 & T2 & V2 & E3 & A2 & B2 & N2).
    assert (Xs : cexec (Nat.max m1 (S m1)) fid H (ds ++ [SExpr es]) = Some (H2, ts1 ++ ts2)).
    { eapply cexec_seq; [exact X1|]. apply cexec_single. rewrite cexec1_S_expr, P1. reflexivity. }
    exists (Nat.max (Nat.max m1 (S m1)) m2), H3, H4, pv, ((ts1 ++ ts2) ++ tr1), tr2, F3.
    split.
    { pose proof (cexec_seq _ _ fid H (ds ++ [SExpr es]) dr _ _ _ _ Xs X2) as X3.
      rewrite <- app_assoc in X3. exact X3. }
    split; [apply (peval_mono m2); [lia|exact P2]|].
    split; [rewrite T1, T2, <- !app_assoc; reflexivity|].
    split; [exact V2|]. split; [exact E3|].
    split; [eapply agree_trans; eauto|]. split; [exact B2|exact N2].
  - (* let *)
    cbn [ceval] in He. cbn [cgen] in Hg.
    destruct (cgen sg n i) as [[[di ei] n1] k1] eqn:Gi. cbv zeta in Hg.
    destruct (cgen (upd sg x (NLocal x n1)) (n1 + 1) b) as [[[db eb] n2] k2] eqn:Gb.
    cbv beta iota in Hg. injection Hg as Hg1 Hg2 Hg3 Hk. subst.
    apply andb_true_iff in Hk as [Hk1 Hk2]. subst.
    pose proof (cgen_mono _ _ _ _ _ _ _ Gi) as Li.
    pose proof (cgen_mono _ _ _ _ _ _ _ Gb) as Lb.
    destruct (ceval fuel rho i) as [[vi ti]|] eqn:Ei; [|discriminate].
    destruct (ceval fuel ((x, vi) :: rho) b) as [[vb tb]|] eqn:Eb; [|discriminate]. inversion He; subst v tr; clear He.
    destruct (HS i sg n rho H fid F vi ti di ei n1 HR E Ei Gi)
      as (m1 & H1 & H2 & pvi & ti1 & ti2 & F1 & X1 & P1 & T1 & V1 & E1 & A1 & B1 & N1).
    pose proof (cexec_pe _ _ _ _ _ _ X1) as PE1.
    pose proof (peval_pres _ _ _ _ _ _ _ P1) as PP1.
    destruct (R_after rho sg H fid n n1 H1 H2 F F1 HR E Li PE1 E1 A1 B1 PP1) as (HR2 & E2 & L02).
    set (p := NLocal x n1) in *.
    assert (Up : F1 p = None) by (eapply below_unbound; [exact B1|unfold p; simpl; lia]).
    set (H3 := set_frame H2 fid p pvi). set (F3 := set F1 p pvi).
    assert (E3 : nth_error H3 fid = Some F3) by (apply set_frame_same; exact E2).
    assert (HR3 : R ((x, vi) :: rho) (upd sg x p) H3 fid (n1 + 1)).
    { eapply R_let; [exact HR2|exact E2|exact Up|unfold p; simpl; lia|lia|intros y X; discriminate|exact V1]. }
    destruct (HS b (upd sg x p) (n1 + 1) ((x, vi) :: rho) H3 fid F3 vb tb db pe n' HR3 E3 Eb Gb)
      as (m2 & H4 & H5 & pv & tb1 & tb2 & F4 & X2 & P2 & T2 & V2 & E4 & A2 & B2 & N2).
    assert (Xs : cexec (Nat.max m1 (S m1)) fid H (di ++ [SAssign p ei]) = Some (H3, ti1 ++ ti2)).
    { eapply cexec_seq; [exact X1|]. apply cexec_single. rewrite cexec1_S_assign, P1. reflexivity. }
    exists (Nat.max (Nat.max m1 (S m1)) m2), H4, H5, pv, ((ti1 ++ ti2) ++ tb1), tb2, F4.
    split.
    { pose proof (cexec_seq _ _ fid H (di ++ [SAssign p ei]) db _ _ _ _ Xs X2) as X3.
      rewrite <- app_assoc in X3. exact X3. }
    split; [apply (peval_mono m2); [lia|exact P2]|].
    split; [rewrite T1, T2, <- !app_assoc; reflexivity|].
    split; [exact V2|]. split; [exact E4|].
    split.
    { apply (agree_trans n n F F1 F4); [apply N.le_refl|exact A1|].
      apply (agree_trans n n F1 F3 F4); [apply N.le_refl|apply agree_set; unfold p; simpl; lia|].
      apply (agree_weaken n (n1 + 1)); [lia|exact A2]. }
    split; [exact B2|exact N2].
  - (* call of a primitive *)
    cbn [ceval] in He. cbn [cgen] in Hg.
    change (cgen_args (fun n a => cgen sg n a) args n) with (cgen_list sg n args) in Hg.
    destruct (cgen_list sg n args) as [[[ds es] n1] k1] eqn:Gl.
    cbv beta iota in Hg. injection Hg as Hg1 Hg2 Hg3 Hk. subst.
    destruct (evals (ceval fuel rho) args) as [[vs ta]|] eqn:Ea; [|discriminate].
    destruct (apply_prim f vs) as [[vr tp]|] eqn:Ep; [|discriminate]. inversion He; subst v tr; clear He.
    destruct (HL args sg n rho H fid F vs ta d es n' HR E Ea Gl)
      as (m & H1 & H2 & pvs & t1 & t2 & F1 & X1 & P1 & T1 & V1 & E1 & A1 & B1 & N1).
    destruct (papply_rel H2 f vs pvs vr tp V1 Ep) as (pv & Pa & Vr).
    exists (S m), H1, H2, pv, t1, (t2 ++ tp), F1.
    split; [apply (cexec_mono m); [lia|exact X1]|].
    split; [rewrite peval_S_call, P1, Pa; reflexivity|].
    split; [rewrite T1, app_assoc; reflexivity|].
    split; [exact Vr|]. split; [exact E1|]. split; [exact A1|]. split; [exact B1|reflexivity].
  - (* fn *)
    cbn [ceval] in He. inversion He; subst v tr; clear He.
    cbn [cgen] in Hg. cbv zeta in Hg.
    destruct (cgen (bind_sg (self_sg sg self n) ps) (n + 1) body) as [[[db eb] n1] k] eqn:Gb.
    cbv beta iota in Hg. injection Hg as Hg1 Hg2 Hg3 Hk. subst.
    apply andb_true_iff in Hk as [Hk Hnd]. subst k.
    pose proof (cgen_mono _ _ _ _ _ _ _ Gb) as Lb.
    set (fname := NFn n) in *.
    set (clo := PVClo (n + 1) (map NParam ps) db eb fid).
    assert (Uf : F fname = None) by (eapply below_unbound; [exact RBel|unfold fname; simpl; lia]).
    set (H1 := set_frame H fid fname clo). set (F1 := set F fname clo).
    assert (E1 : nth_error H1 fid = Some F1) by (apply set_frame_same; exact E).
    assert (L01 : Hle H H1) by (eapply Hle_set; eauto).
    exists 1%nat, H1, H1, clo, [], [], F1.
    split; [apply cexec_single; rewrite cexec1_S_def; reflexivity|].
    split; [rewrite peval_S_name; unfold frame_get; rewrite E1; unfold F1; rewrite set_same; reflexivity|].
    split; [reflexivity|].
    split.
    { unfold clo. eapply (VR_clo H1 self ps body rho sg n db eb n' fid F1); [exact E1|exact Gb|exact RB|exact RW| |unfold F1; apply set_same].
      intros x v Hx. destruct (RA x v Hx) as (p & pv & S1 & S2 & S3). exists p, pv.
      split; [exact S1|]. split; [|eapply VR_mono; eauto].
      unfold F1. rewrite set_other; [exact S2|]. intro X. subst p. congruence. }
    split; [exact E1|].
    split; [apply agree_set; unfold fname; simpl; lia|].
    split; [eapply below_set; [exact RBel|lia|unfold fname; simpl; lia]|].
    simpl. apply N.ltb_lt. lia.
  - (* invocation of a function value *)
    cbn [ceval] in He. rewrite cgen_invoke in Hg.
    destruct (cgen_list sg n (f :: args)) as [[[ds es] n2] k] eqn:Gl.
    destruct es as [|ef eargs]; [cbv beta iota in Hg; inversion Hg|].
    cbv beta iota in Hg. injection Hg as Hg1 Hg2 Hg3 Hk. subst.
    destruct (evals (ceval fuel rho) (f :: args)) as [[vsall ta]|] eqn:Ea; [|discriminate].
    destruct vsall as [|[| | | |self ps body rc] vs]; try discriminate.
    destruct (bind_params ps vs (self_env self ps body rc)) as [rho'|] eqn:Eb; [|discriminate].
    destruct (ceval fuel rho' body) as [[vb tb]|] eqn:Ebody; [|discriminate]. inversion He; subst v tr; clear He.
    destruct (HL (f :: args) sg n rho H fid F _ ta d (ef :: eargs) n' HR E Ea Gl)
      as (m & H1 & H2 & pvall & t1 & t2 & F1 & X1 & P1 & T1 & V1 & E1 & A1 & B1 & N1).
    inversion V1 as [|? pvf ? pvs Vf Vs]; subst.
    inversion Vf as [| | | |? ? ? ? sgc nc pb pr nc' dfid Fd Ed Gc Bc Wc Envc Eself]; subst.
    assert (Bc' : forall x p, self_sg sgc self nc x = Some p -> idx p < nc + 1).
    { intros x p Hx. unfold self_sg in Hx. destruct self as [f0|]; [|specialize (Bc x p Hx); lia].
      unfold upd in Hx. destruct (N.eqb x f0); [inversion Hx; subst; simpl; lia|specialize (Bc x p Hx); lia]. }
    assert (Wc' : sg_wf (self_sg sgc self nc)).
    { intros x y Hy. unfold self_sg in Hy. destruct self as [f0|]; [|apply Wc; exact Hy].
      unfold upd in Hy. destruct (N.eqb x f0); [discriminate|apply Wc; exact Hy]. }
    destruct (bind_rel H2 ps vs pvs (self_env self ps body rc) (self_sg sgc self nc) (restrict (nc + 1) Fd) rho' Vs Eb)
      as (Fc & Bp & Envp & Wp & Belp & Bndp).
    { assert (Base : forall x v, lookup rc x = Some v ->
                exists p pv, sgc x = Some p /\ restrict (nc + 1) Fd p = Some pv /\ VR H2 v pv).
      { intros x v Hx. destruct (Envc x v Hx) as (p & pv & S1 & S2 & S3). exists p, pv.
        split; [exact S1|]. split; [|exact S3]. unfold restrict.
        assert (Lt : N.ltb (idx p) (nc + 1) = true) by (apply N.ltb_lt; specialize (Bc x p S1); lia).
        rewrite Lt. exact S2. }
      unfold self_env, self_sg. destruct self as [f0|]; [|exact Base].
      intros x v Hx. simpl in Hx. unfold upd. destruct (N.eqb x f0) eqn:Exf.
      - inversion Hx; subst. exists (NFn nc), (PVClo (nc + 1) (map NParam ps) pb pr dfid).
        split; [reflexivity|]. split; [|exact Vf]. unfold restrict.
        assert (Lt : N.ltb (idx (NFn nc)) (nc + 1) = true) by (apply N.ltb_lt; simpl; lia).
        rewrite Lt. exact Eself.
      - apply Base. exact Hx. }
    { exact Wc'. }
    set (cf := length H2). set (H' := H2 ++ [Fc]).
    assert (Ec : nth_error H' cf = Some Fc).
    { unfold H', cf. rewrite nth_error_app2 by lia. rewrite Nat.sub_diag. reflexivity. }
    assert (L2' : Hle H2 H') by (apply Hle_pres, pres_app).
    assert (HRc : R rho' (bind_sg (self_sg sgc self nc) ps) H' cf (nc + 1)).
    { exists Fc. split; [exact Ec|]. split; [|split; [|split; [exact Wp|]]].
      - intros x v Hx. destruct (Envp x v Hx) as (p & pv & S1 & S2 & S3). exists p, pv.
        split; [exact S1|]. split; [exact S2|eapply VR_mono; eauto].
      - apply Bndp; [|lia]. exact Bc'.
      - apply Belp; [|lia]. intros p Hp. unfold restrict in Hp. destruct (N.ltb (idx p) (nc + 1)) eqn:Lt; [|congruence].
        apply N.ltb_lt in Lt. exact Lt. }
    destruct (HS body (bind_sg (self_sg sgc self nc) ps) (nc + 1) rho' H' cf Fc vb tb pb pr nc' HRc Ec Ebody Gc)
      as (m2 & H3 & H4 & pv & tb1 & tb2 & F3 & X2 & P2 & T2 & V2 & E3 & A2 & B2 & N2).
    exists (S (Nat.max m m2)), H1, H4, pv, t1, (t2 ++ tb1 ++ tb2), F1.
    split; [apply (cexec_mono m); [lia|exact X1]|].
    split.
    { rewrite peval_S_invoke.
      rewrite (pevall_mono m (Nat.max m m2) _ _ _ _ ltac:(lia) P1).
      rewrite Ed, Bp. fold cf. fold H'.
      rewrite (cexec_mono m2 (Nat.max m m2) _ _ _ _ ltac:(lia) X2).
      rewrite (peval_mono m2 (Nat.max m m2) _ _ _ _ ltac:(lia) P2). reflexivity. }
    split; [try rewrite T2; rewrite <- ?app_assoc; reflexivity|].
    split; [exact V2|]. split; [exact E1|]. split; [exact A1|]. split; [exact B1|reflexivity].
Qed.
