(** Witnesses that the (model of the) pass performs rewrites outside the allowed set. *)
From Coq Require Import List NArith Bool.
Import ListNotations.
From Verif Require Import C15.Tree C15.Opt C15.Allowed C15.Corr.
Local Open Scope N_scope.

Definition op_attr (f : N) : tree := Nd T_Attribute [Nd T_Name [At H_OPERATOR; Nd T_Load []]; At f; Nd T_Load []].
Definition name (h : N) : tree := Nd T_Name [At h; Nd T_Load []].
Definition lit (h : N) : tree := Nd T_Constant [At h; At 0].          (* a non-singleton literal *)
Definition call2 (f : N) (a b : tree) : tree := Nd T_Call [op_attr f; Nd T_LIST [a; b]; Nd T_LIST []].
Definition call1f (g : N) (a : tree) : tree := Nd T_Call [name g; Nd T_LIST [a]; Nd T_LIST []].

Ltac finish :=
  repeat match goal with
         | X : operator_attr _ = Some _ |- _ => vm_compute in X; inversion X; subst; clear X
         end;
  try match goal with X : _ \/ _ |- _ => destruct X as [X|X]; vm_compute in X; discriminate end;
  try match goal with X : pure _ = true |- _ => vm_compute in X; discriminate end;
  try discriminate.

(** operator.is_(1.0, a)  ~>  1.0 == a *)
Definition w_is := call2 H_is_ (lit 77) (name 5).
Lemma is_to_eq_rewritten : Opt.opt w_is = Nd T_Compare [lit 77; Nd T_LIST [Nd T_Eq []]; Nd T_LIST [name 5]].
Proof. vm_compute. reflexivity. Qed.

Theorem is_to_eq_not_allowed : ~ allowed w_is (Opt.opt w_is).
Proof.
  rewrite is_to_eq_rewritten. intros [d' H]. unfold w_is, call2 in H.
  inversion H; subst; try discriminate; finish.
Qed.

(** operator.contains(f(a), g(b))  ~>  g(b) in f(a) : operands swapped *)
Definition w_contains := call2 H_contains (call1f 8 (name 1)) (call1f 9 (name 2)).
Lemma contains_rewritten :
  Opt.opt w_contains = Nd T_Compare [call1f 9 (name 2); Nd T_LIST [Nd T_In []]; Nd T_LIST [call1f 8 (name 1)]].
Proof. vm_compute. reflexivity. Qed.

Theorem contains_swap_not_allowed : ~ allowed w_contains (Opt.opt w_contains).
Proof.
  rewrite contains_rewritten. intros [d' H]. unfold w_contains, call2 in H.
  inversion H; subst; try discriminate; finish.
Qed.

(** def outer(): global x; ...; async def inner(): global x; ...   -- the inner `global` is dropped *)
Definition glob (h : N) : tree := Nd T_Global [Nd T_LIST [At h]].
Definition fundef (tag : N) (body : list tree) : tree :=
  Nd tag [At 1; At 2; Nd T_LIST body; Nd T_LIST []; Nd T_NONE []; Nd T_NONE []; Nd T_LIST []].
Definition w_async := Nd T_Module [Nd T_LIST [fundef T_FunctionDef [glob 7; fundef T_AsyncFunctionDef [glob 7; At 3]]]; Nd T_LIST []].
Theorem async_global_rejected : check w_async (Opt.opt w_async) = false /\ tag1 w_async = 4.
Proof. split; vm_compute; reflexivity. Qed.

(** if t: [raise; global x; ...] else: [global x; x = ...]  -- the live `global` is dropped *)
Definition w_dead := Nd T_Module [Nd T_LIST [fundef T_FunctionDef
   [Nd T_If [name 4; Nd T_LIST [Nd T_Raise [name 6; Nd T_NONE []]; glob 7; At 11]; Nd T_LIST [glob 7; At 12]]]]; Nd T_LIST []].
Theorem dead_global_rejected : check w_dead (Opt.opt w_dead) = false /\ tag1 w_dead = 8.
Proof. split; vm_compute; reflexivity. Qed.

(** what IS accepted: add(a, b) ~> a + b; dead code; bare constants; an empty if *)
Definition w_ok := Nd T_Module [Nd T_LIST [fundef T_FunctionDef
   [Nd T_Expr [lit 1];
    Nd T_If [name 4; Nd T_LIST [Nd T_Expr [name 5]]; Nd T_LIST [Nd T_Expr [lit 2]]];
    Nd T_Return [call2 36703235253973704 (name 1) (name 2)];
    Nd T_Expr [call1f 9 (name 2)]]]; Nd T_LIST []].
Example accepted_sample : check w_ok (Opt.opt w_ok) = true /\ tree_eqb w_ok (Opt.opt w_ok) = false.
Proof. split; vm_compute; reflexivity. Qed.

(** try: g(x)  finally: <constant>     (no handlers): every statement of the finally clause is
    eliminated.  A result with an empty clause is not a statement Python accepts ([wf]); the pass
    (since the repair of F-15e) leaves `finally: pass`, which is. *)
Definition w_try_with (fin : list tree) : tree :=
  Nd T_Module [Nd T_LIST [Nd T_Try [Nd T_LIST [Nd T_Expr [call1f 9 (name 2)]]; Nd T_LIST []; Nd T_LIST []; Nd T_LIST fin]];
               Nd T_LIST []].
Definition w_try := w_try_with [Nd T_Expr [lit 3]].
Theorem try_without_finally_rejected :
  accept w_try (w_try_with []) = false /\ accept w_try (w_try_with [Nd T_Pass []]) = true /\
  Opt.opt w_try = w_try_with [Nd T_Pass []].
Proof. repeat split; vm_compute; reflexivity. Qed.
