(** C15 specification: the changes the optimization pass may make, as an inductive
    relation on (before, after) trees, and an executable checker.
      1. drop a statement that is a bare constant or name;
      2. drop the statements following return / raise / break / continue in a block;
      3. drop an `if` whose branches both become empty and whose test is pure, or turn
         `if t: <empty> else: B` into `if not t: B`;
      4. drop names of a `global` statement already declared earlier in the same scope
         (function / async function / class body); a statement that becomes empty is dropped;
      5. replace `operator.<f>(a, b)` by the native operator with the reference meaning of
         <f>, same operands, same order;
      6. on a `try` without handlers whose `finally` clause is entirely dropped by 1-4, leave
         `finally: pass` (Python has no try statement with neither).
    The result must moreover be a statement tree Python accepts wherever the input was one
    ([wf]: no compound statement with an empty body, no `try` with neither handlers nor finally).
    Everything else must be unchanged.  The relation threads the set of names declared
    `global` so far in the current scope (d -> d'). *)
From Coq Require Import List NArith Bool.
Import ListNotations.
From Verif Require Import C15.Tree.
Local Open Scope N_scope.

Fixpoint assoc {A} (l : list (N * A)) (k : N) : option A :=
  match l with [] => None | (k', a) :: r => if N.eqb k k' then Some a else assoc r k end.

Definition scope_tag (tg : N) : bool :=
  N.eqb tg T_FunctionDef || N.eqb tg T_AsyncFunctionDef || N.eqb tg T_ClassDef || N.eqb tg T_Lambda.

Definition plain_tag (tg : N) : bool :=
  negb (scope_tag tg) && negb (N.eqb tg T_LIST) && negb (N.eqb tg T_Global).

Definition is_bare (t : tree) : bool :=
  match t with
  | Nd tg [Nd vt _] => N.eqb tg T_Expr && (N.eqb vt T_Constant || N.eqb vt T_Name)
  | _ => false
  end.

Definition is_term_ref (t : tree) : bool :=
  match t with
  | Nd tg _ => N.eqb tg T_Break || N.eqb tg T_Continue || N.eqb tg T_Raise || N.eqb tg T_Return
  | At _ => false
  end.

(** tests whose evaluation has no effect: names, constants, `is` comparisons, and/or/not *)
Definition all_trees (f : tree -> bool) : list tree -> bool :=
  fix go (l : list tree) : bool := match l with [] => true | x :: r => f x && go r end.

Fixpoint pure (t : tree) : bool :=
  match t with
  | At _ => false
  | Nd tg ks =>
      if N.eqb tg T_Name || N.eqb tg T_Constant then true
      else if N.eqb tg T_Compare || N.eqb tg T_BoolOp || N.eqb tg T_UnaryOp || N.eqb tg T_LIST
              || N.eqb tg T_Is || N.eqb tg T_IsNot || N.eqb tg T_Or || N.eqb tg T_And || N.eqb tg T_Not
      then all_trees pure ks
      else false
  end.

Definition operator_attr (func : tree) : option N :=
  match func with
  | Nd tg [Nd tn [At nm; _]; At attr; _] =>
      if N.eqb tg T_Attribute && N.eqb tn T_Name && N.eqb nm H_OPERATOR then Some attr else None
  | _ => None
  end.

Definition no_kw : tree := Nd T_LIST [].
Definition is_at (t : tree) : bool := match t with At _ => true | _ => false end.
Definition atoms_of (l : list tree) : list N :=
  flat_map (fun t => match t with At h => [h] | _ => [] end) l.
Definition all_in (l d : list N) : bool := forallb (fun n => mem n d) l.

Inductive al : list N -> tree -> tree -> list N -> Prop :=
| al_at d h : al d (At h) (At h) d
| al_list d items items' d' : alsl d items items' d' -> al d (Nd T_LIST items) (Nd T_LIST items') d'
| al_node d tg ks ks' d' : plain_tag tg = true -> als d ks ks' d' -> al d (Nd tg ks) (Nd tg ks') d'
| al_scope d tg ks ks' d' : scope_tag tg = true -> als [] ks ks' d' -> al d (Nd tg ks) (Nd tg ks') d
| al_fundef d nm args body decos rets tc tp nm' args' body' decos' rets' d' :
    (* the rebuilt FunctionDef forgets type_comment / type_params (no run-time meaning) *)
    als [] [nm; args; body; decos; rets] [nm'; args'; body'; decos'; rets'] d' ->
    al d (Nd T_FunctionDef [nm; args; body; decos; rets; tc; tp])
         (Nd T_FunctionDef [nm'; args'; body'; decos'; rets'; Nd T_NONE []; Nd T_LIST []]) d
| al_global d names names' :
    names' <> [] -> all_in names' names = true ->
    forallb (fun n => mem n names' || mem n d) names = true ->
    al d (Nd T_Global [Nd T_LIST (map At names)]) (Nd T_Global [Nd T_LIST (map At names')]) (names ++ d)
| al_binop d func f op a b a' b' :
    operator_attr func = Some f -> assoc ref_binops f = Some op ->
    al d a a' d -> al d b b' d ->
    al d (Nd T_Call [func; Nd T_LIST [a; b]; no_kw]) (Nd T_BinOp [a'; Nd op []; b']) d
| al_unary d func f op a a' :
    operator_attr func = Some f -> assoc ref_unaryops f = Some op ->
    al d a a' d ->
    al d (Nd T_Call [func; Nd T_LIST [a]; no_kw]) (Nd T_UnaryOp [Nd op []; a']) d
| al_compare d func f op a b a' b' :
    operator_attr func = Some f ->
    (assoc ref_compareops f = Some op \/ assoc ref_isops f = Some op) ->
    al d a a' d -> al d b b' d ->
    al d (Nd T_Call [func; Nd T_LIST [a; b]; no_kw])
         (Nd T_Compare [a'; Nd T_LIST [Nd op []]; Nd T_LIST [b']]) d
| al_contains d func a b a' b' :
    (* operator.contains(a, b) is `b in a`; allowed only when evaluating b before a cannot be
       observed: both operands pure *)
    operator_attr func = Some H_contains -> pure a = true -> pure b = true ->
    al d a a' d -> al d b b' d ->
    al d (Nd T_Call [func; Nd T_LIST [a; b]; no_kw])
         (Nd T_Compare [b'; Nd T_LIST [Nd T_In []]; Nd T_LIST [a']]) d
| al_getitem d func a b a' b' :
    operator_attr func = Some H_getitem -> al d a a' d -> al d b b' d ->
    al d (Nd T_Call [func; Nd T_LIST [a; b]; no_kw]) (Nd T_Subscript [a'; b'; Nd T_Load []]) d
| al_delitem d func a b a' b' :
    operator_attr func = Some H_delitem -> al d a a' d -> al d b b' d ->
    al d (Nd T_Call [func; Nd T_LIST [a; b]; no_kw])
         (Nd T_Delete [Nd T_LIST [Nd T_Subscript [a'; b'; Nd T_Del []]]]) d
| al_if_neg d test test' body orelse orelse' d0 d1 d2 :
    al d test test' d0 -> alsl d0 body [] d1 -> alsl d1 orelse orelse' d2 -> orelse' <> [] ->
    al d (Nd T_If [test; Nd T_LIST body; Nd T_LIST orelse])
         (Nd T_If [Nd T_UnaryOp [Nd T_Not []; test']; Nd T_LIST orelse'; Nd T_LIST []]) d2
| al_try_pass d body body' orelse orelse' fin d1 d2 d3 :
    al d body body' d1 -> al d1 orelse orelse' d2 -> alsl d2 fin [] d3 ->
    al d (Nd T_Try [body; Nd T_LIST []; orelse; Nd T_LIST fin])
         (Nd T_Try [body'; Nd T_LIST []; orelse'; Nd T_LIST [Nd T_Pass []]]) d3
with als : list N -> list tree -> list tree -> list N -> Prop :=
| s_nil d : als d [] [] d
| s_cons d x x' d1 r r' d2 : al d x x' d1 -> als d1 r r' d2 -> als d (x :: r) (x' :: r') d2
with alsl : list N -> list tree -> list tree -> list N -> Prop :=
| sl_nil d : alsl d [] [] d
| sl_cons d x x' d1 r r' d2 : al d x x' d1 -> alsl d1 r r' d2 -> alsl d (x :: r) (x' :: r') d2
| sl_drop_bare d x r r' d2 : is_bare x = true -> alsl d r r' d2 -> alsl d (x :: r) r' d2
| sl_dead d x x' d1 r : is_term_ref x = true -> al d x x' d1 -> alsl d (x :: r) [x'] d1
| sl_drop_global d names r r' d2 :
    all_in names d = true -> alsl d r r' d2 ->
    alsl d (Nd T_Global [Nd T_LIST (map At names)] :: r) r' d2
| sl_drop_if d test body orelse d1 d2 r r' d3 :
    pure test = true -> alsl d body [] d1 -> alsl d1 orelse [] d2 -> alsl d2 r r' d3 ->
    alsl d (Nd T_If [test; Nd T_LIST body; Nd T_LIST orelse] :: r) r' d3.

Definition allowed (b a : tree) : Prop := exists d', al [] b a d'.

(** ---- the checker ---- *)
Definition obind {A B} (o : option A) (f : A -> option B) : option B :=
  match o with Some a => f a | None => None end.

(** can a whole statement list be dropped?  (bare constants/names, redundant `global`s,
    `if`s with a pure test whose branches can be dropped) *)
Definition drop_list_with (drop1 : tree -> list N -> option (list N)) : list tree -> list N -> option (list N) :=
  fix go (l : list tree) (d : list N) : option (list N) :=
    match l with
    | [] => Some d
    | x :: r => obind (drop1 x d) (go r)
    end.

Fixpoint drop1 (t : tree) (d : list N) : option (list N) :=
  match t with
  | At _ => None
  | Nd tg ks =>
      if is_bare t then Some d
      else if N.eqb tg T_Global then
        match ks with
        | [Nd tl names] =>
            if N.eqb tl T_LIST && forallb is_at names && all_in (atoms_of names) d then Some d else None
        | _ => None
        end
      else if N.eqb tg T_If then
        match ks with
        | [test; Nd t1 body; Nd t2 orelse] =>
            if N.eqb t1 T_LIST && N.eqb t2 T_LIST && pure test
            then obind (drop_list_with drop1 body d) (drop_list_with drop1 orelse)
            else None
        | _ => None
        end
      else None
  end.
Definition drop_list := drop_list_with drop1.

Definition chks_with (chk : tree -> tree -> list N -> option (list N))
  : list tree -> list tree -> list N -> option (list N) :=
  fix go (l l' : list tree) (d : list N) : option (list N) :=
    match l, l' with
    | [], [] => Some d
    | x :: r, x' :: r' => obind (chk x x' d) (go r r')
    | _, _ => None
    end.

(** statement lists: prefer matching the next statement of `after`; otherwise the
    statement of `before` must be droppable *)
Definition chksl_with (chk : tree -> tree -> list N -> option (list N))
  : list tree -> list tree -> list N -> option (list N) :=
  fix go (l l' : list tree) (d : list N) : option (list N) :=
    match l with
    | [] => match l' with [] => Some d | _ => None end
    | x :: r =>
        let dropped := obind (drop1 x d) (go r l') in
        match l' with
        | x' :: r' =>
            match chk x x' d with
            | Some d1 =>
                match go r r' d1 with
                | Some d2 => Some d2
                | None =>
                    (* dead code after a terminator *)
                    if is_term_ref x then (match r' with [] => Some d1 | _ => dropped end) else dropped
                end
            | None => dropped
            end
        | [] => dropped
        end
    end.

Definition is_global_list (ks : list tree) : option (list N) :=
  match ks with
  | [Nd tl names] => if N.eqb tl T_LIST && forallb is_at names then Some (atoms_of names) else None
  | _ => None
  end.

Definition nonempty {A} (l : list A) : bool := match l with [] => false | _ => true end.

Fixpoint list_eq (a b : list N) : bool :=
  match a, b with
  | [], [] => true
  | x :: r, y :: r' => N.eqb x y && list_eq r r'
  | _, _ => false
  end.

Definition chk1 (chk : tree -> tree -> list N -> option (list N)) (x x' : tree) (d : list N) : option (list N) :=
  obind (chk x x' d) (fun d1 => if list_eq d1 d then Some d else None).
Definition chk2 (chk : tree -> tree -> list N -> option (list N)) (x x' y y' : tree) (d : list N) : option (list N) :=
  obind (chk1 chk x x' d) (fun _ => chk1 chk y y' d).

Definition orelse {A} (a b : option A) : option A := match a with Some _ => a | None => b end.
Definition ref_is (tbl : list (N * N)) (f op : N) : bool :=
  match assoc tbl f with Some op0 => N.eqb op op0 | None => false end.

Definition try_binop (chk : tree -> tree -> list N -> option (list N)) (f : N) (args ks' : list tree) (tg' : N) (d : list N) :=
  match args, ks' with
  | [x; y], [x'; Nd op []; y'] =>
      if N.eqb tg' T_BinOp && ref_is ref_binops f op then chk2 chk x x' y y' d else None
  | _, _ => None
  end.
Definition try_unary (chk : tree -> tree -> list N -> option (list N)) (f : N) (args ks' : list tree) (tg' : N) (d : list N) :=
  match args, ks' with
  | [x], [Nd op []; x'] =>
      if N.eqb tg' T_UnaryOp && ref_is ref_unaryops f op then chk1 chk x x' d else None
  | _, _ => None
  end.
Definition try_compare (chk : tree -> tree -> list N -> option (list N)) (f : N) (args ks' : list tree) (tg' : N) (d : list N) :=
  match args, ks' with
  | [x; y], [l'; Nd tl1 [Nd op []]; Nd tl2 [r']] =>
      if N.eqb tg' T_Compare && N.eqb tl1 T_LIST && N.eqb tl2 T_LIST then
        if ref_is ref_compareops f op || ref_is ref_isops f op then chk2 chk x l' y r' d
        else if N.eqb f H_contains && N.eqb op T_In && pure x && pure y then chk2 chk x r' y l' d
        else None
      else None
  | _, _ => None
  end.
Definition try_getitem (chk : tree -> tree -> list N -> option (list N)) (f : N) (args ks' : list tree) (tg' : N) (d : list N) :=
  match args, ks' with
  | [x; y], [x'; y'; Nd tld []] =>
      if N.eqb tg' T_Subscript && N.eqb f H_getitem && N.eqb tld T_Load then chk2 chk x x' y y' d else None
  | _, _ => None
  end.
Definition try_delitem (chk : tree -> tree -> list N -> option (list N)) (f : N) (args ks' : list tree) (tg' : N) (d : list N) :=
  match args, ks' with
  | [x; y], [Nd tl1 [Nd ts [x'; y'; Nd tdel []]]] =>
      if N.eqb tg' T_Delete && N.eqb tl1 T_LIST && N.eqb ts T_Subscript && N.eqb f H_delitem && N.eqb tdel T_Del
      then chk2 chk x x' y y' d else None
  | _, _ => None
  end.

Fixpoint chk (b a : tree) (d : list N) {struct b} : option (list N) :=
  match b with
  | At h => match a with At h' => if N.eqb h h' then Some d else None | _ => None end
  | Nd tg ks =>
      match a with
      | At _ => None
      | Nd tg' ks' =>
          if N.eqb tg T_LIST then
            if N.eqb tg' T_LIST then chksl_with chk ks ks' d else None
          else if N.eqb tg T_Global then
            if N.eqb tg' T_Global then
              match is_global_list ks, is_global_list ks' with
              | Some names, Some names' =>
                  if nonempty names' && all_in names' names
                     && forallb (fun n => mem n names' || mem n d) names
                  then Some (names ++ d) else None
              | _, _ => None
              end
            else None
          else if N.eqb tg T_Call && negb (N.eqb tg' T_Call) then
            (* operator rewrites *)
            match ks with
            | [func; Nd tl args; kw] =>
                if negb (N.eqb tl T_LIST && tree_eqb kw no_kw) then None else
                match operator_attr func with
                | None => None
                | Some f =>
                    orelse (try_binop chk f args ks' tg' d)
                      (orelse (try_unary chk f args ks' tg' d)
                         (orelse (try_compare chk f args ks' tg' d)
                            (orelse (try_getitem chk f args ks' tg' d) (try_delitem chk f args ks' tg' d))))
                end
            | _ => None
            end
          else if negb (N.eqb tg tg') then None
          else if N.eqb tg T_FunctionDef then
            match ks, ks' with
            | [nm; args; body; decos; rets; tc; tp], [nm'; args'; body'; decos'; rets'; tc'; tp'] =>
                if tree_eqb tc' (Nd T_NONE []) && tree_eqb tp' (Nd T_LIST []) then
                  obind (chks_with chk [nm; args; body; decos; rets] [nm'; args'; body'; decos'; rets'] [])
                        (fun _ => Some d)
                else obind (chks_with chk ks ks' []) (fun _ => Some d)
            | _, _ => obind (chks_with chk ks ks' []) (fun _ => Some d)
            end
          else if scope_tag tg then obind (chks_with chk ks ks' []) (fun _ => Some d)
          else
            match chks_with chk ks ks' d with
            | Some d' => Some d'
            | None =>
                if N.eqb tg T_If then
                  match ks, ks' with
                  | [test; Nd t1 body; Nd t2 orelse], [Nd tu [Nd tn []; test']; Nd t3 orelse'; Nd t4 []] =>
                      if N.eqb t1 T_LIST && N.eqb t2 T_LIST && N.eqb t3 T_LIST && N.eqb t4 T_LIST
                         && N.eqb tu T_UnaryOp && N.eqb tn T_Not && nonempty orelse' then
                        obind (chk test test' d) (fun d0 => obind (drop_list body d0)
                          (fun d1 => chksl_with chk orelse orelse' d1))
                      else None
                  | _, _ => None
                  end
                else if N.eqb tg T_Try then
                  match ks, ks' with
                  | [body; Nd th []; orelse; Nd tf fin], [body'; Nd th' []; orelse'; Nd tf' [Nd tp []]] =>
                      if N.eqb th T_LIST && N.eqb th' T_LIST && N.eqb tf T_LIST && N.eqb tf' T_LIST && N.eqb tp T_Pass then
                        obind (chk body body' d) (fun d1 => obind (chk orelse orelse' d1) (fun d2 => drop_list fin d2))
                      else None
                  | _, _ => None
                  end
                else None
            end
      end
  end.

Definition check (b a : tree) : bool :=
  match chk b a [] with Some _ => true | None => false end.

(** ---- well-formedness of a statement tree (what Python's compiler insists on) ---- *)
Definition body_ok (t : tree) : bool := match t with Nd _ (_ :: _) => true | _ => false end.

Definition node_ok (tg : N) (ks : list tree) : bool :=
  if N.eqb tg T_Try then
    match ks with
    | [body; handlers; _; fin] => body_ok body && (body_ok handlers || body_ok fin)
    | _ => true
    end
  else if N.eqb tg T_If || N.eqb tg T_While then
    match ks with [_; body; _] => body_ok body | _ => true end
  else if N.eqb tg T_ExceptHandler then
    match ks with [_; _; body] => body_ok body | _ => true end
  else if N.eqb tg T_FunctionDef || N.eqb tg T_AsyncFunctionDef then
    match ks with _ :: _ :: body :: _ => body_ok body | _ => true end
  else true.

Fixpoint wf (t : tree) : bool :=
  match t with
  | At _ => true
  | Nd tg ks => node_ok tg ks && all_trees wf ks
  end.

(** the full acceptance test of one (before, after) pair *)
Definition accept (b a : tree) : bool := check b a && (wf a || negb (wf b)).
Definition acceptable (b a : tree) : Prop := allowed b a /\ (wf b = true -> wf a = true).
