(** Semantic preservation of the statement-level rewrites on the Python subset with loops and
    exceptions (C01X/XPy.v): dropping bare constant/name statements, dropping the statements
    that follow `break` / `continue` / `raise` in a block (in `if` branches, loop bodies, `try`
    bodies, handlers and `finally` clauses), dropping `if`s whose branches are both empty -- the
    optimised code yields the same outcome (normal, break, continue or exception), frame and
    trace for the same fuel.  Composed with the simulation theorem of C01X. *)
From Coq Require Import List ZArith NArith Bool Lia Arith.
Import ListNotations.
From Verif Require Import C01X.XLisp C01X.XPy C01X.XGen C01X.XMono C01X.XSim C01X.XTop.

Definition xdroppable (e : pexpr) : bool := match e with PConst _ | PName _ => true | PCall _ _ => false end.
Definition x_is_jump (s : xstmt) : bool := match s with XBreak | XContinue | XRaise _ => true | _ => false end.

Definition xopt_with (o1 : xstmt -> list xstmt) : list xstmt -> list xstmt :=
  fix go (l : list xstmt) : list xstmt :=
    match l with
    | [] => []
    | s :: r => if x_is_jump s then [s] else o1 s ++ go r      (* _filter_dead_code *)
    end.

Fixpoint xopt1 (s : xstmt) : list xstmt :=
  match s with
  | XExpr e => if xdroppable e then [] else [s]
  | XSIf t fb tb =>
      match xopt_with xopt1 fb, xopt_with xopt1 tb with
      | [], [] => []
      | fb', tb' => [XSIf t fb' tb']
      end
  | XWhile body => [XWhile (xopt_with xopt1 body)]
  | XSTry body h fin =>
      (* an emptied `finally` clause stands for `finally: pass` *)
      [XSTry (xopt_with xopt1 body)
             (match h with Some (c, x, hb) => Some (c, x, xopt_with xopt1 hb) | None => None end)
             (xopt_with xopt1 fin)]
  | _ => [s]
  end.
Definition xopt := xopt_with xopt1.
Definition xopt_handler (h : option (N * pname * list xstmt)) :=
  match h with Some (c, x, hb) => Some (c, x, xopt hb) | None => None end.

Lemma xopt_cons s r : xopt (s :: r) = if x_is_jump s then [s] else xopt1 s ++ xopt r.
Proof. reflexivity. Qed.

Lemma xdroppable_exec F e v t : xdroppable e = true -> peval F e = Some (v, t) -> t = [].
Proof.
  destruct e as [c|p|f args]; simpl; try discriminate; intros _ H.
  - inversion H; reflexivity.
  - destruct (F p); inversion H; reflexivity.
Qed.

Lemma xexec_one m F s r : xexec1 m F s = Some r -> xexec m F [s] = Some r.
Proof. destruct r as [[o F'] t]. apply xexec_single. Qed.

Section Step.
  Variable m : nat.
  Hypothesis IH2 : forall F l r, xexec m F l = Some r -> xexec m F (xopt l) = Some r.

  Lemma py_r1_opt F b h r : py_r1 m F b h = Some r -> py_r1 m F (xopt b) (xopt_handler h) = Some r.
  Proof.
    unfold py_r1. intro H.
    destruct (xexec m F b) as [[[o F1] t1]|] eqn:E; [|discriminate].
    rewrite (IH2 _ _ _ E).
    destruct o; try exact H.
    destruct h as [[[hc x] hb]|]; [|exact H]. cbn [xopt_handler].
    destruct (catches hc cls); [|exact H].
    destruct (xexec m (set F1 x (VExc cls payload)) hb) as [[[o2 F2] t2]|] eqn:E2; [|discriminate].
    rewrite (IH2 _ _ _ E2). exact H.
  Qed.

  Lemma py_fin_opt r1 f r : py_fin m r1 f = Some r -> py_fin m r1 (xopt f) = Some r.
  Proof.
    unfold py_fin. intro H. destruct r1 as [[[o F1] t1]|]; [|discriminate].
    destruct (xexec m F1 f) as [[[o2 F2] t2]|] eqn:E; [|discriminate].
    rewrite (IH2 _ _ _ E). exact H.
  Qed.
End Step.

Theorem xopt_preserves : forall m,
  (forall F s r, xexec1 m F s = Some r -> xexec m F (xopt1 s) = Some r) /\
  (forall F l r, xexec m F l = Some r -> xexec m F (xopt l) = Some r) /\
  (forall F b r, xwhile m F b = Some r -> xwhile m F (xopt b) = Some r).
Proof.
  induction m as [|m [IH1 [IH2 IH3]]].
  - split; [intros; discriminate|]. split; [|intros; discriminate].
    intros F l r H. destruct l as [|s l]; [exact H|]. rewrite xexec_cons in H. discriminate.
  - assert (S1 : forall F s r, xexec1 (S m) F s = Some r -> xexec (S m) F (xopt1 s) = Some r).
    { intros F s r H. destruct s as [x e|xs es|e|t fb tb|body| | |e|body h fin]; cbn [xopt1];
        try (apply xexec_one; exact H).
      - (* expression statement *)
        destruct (xdroppable e) eqn:D; [|apply xexec_one; exact H].
        cbn [xexec1] in H. destruct (peval F e) as [[v t']|] eqn:E; [|discriminate].
        inversion H; subst. rewrite (xdroppable_exec _ _ _ _ D E). reflexivity.
      - (* if *)
        cbn [xexec1] in H. destruct (F t) as [v|] eqn:Ft; [|discriminate].
        fold (xexec m) in H. apply IH2 in H.
        fold (xopt fb). fold (xopt tb).
        destruct (xopt fb) as [|f1 fr] eqn:Ofb, (xopt tb) as [|t1 tr] eqn:Otb.
        + destruct (falsey v); [rewrite Ofb in H|rewrite Otb in H]; rewrite xexec_nil in H;
            inversion H; subst; apply xexec_nil.
        + apply xexec_one. cbn [xexec1]. rewrite Ft. fold (xexec m).
          destruct (falsey v); [rewrite Ofb in H|rewrite Otb in H]; exact H.
        + apply xexec_one. cbn [xexec1]. rewrite Ft. fold (xexec m).
          destruct (falsey v); [rewrite Ofb in H|rewrite Otb in H]; exact H.
        + apply xexec_one. cbn [xexec1]. rewrite Ft. fold (xexec m).
          destruct (falsey v); [rewrite Ofb in H|rewrite Otb in H]; exact H.
      - (* while *)
        cbn [xexec1] in H. apply IH3 in H. fold (xopt body). apply xexec_one. cbn [xexec1]. exact H.
      - (* try *)
        rewrite xexec1_S_try in H. fold (xopt body). fold (xopt fin).
        change (match h with Some (c, x, hb) => Some (c, x, xopt_with xopt1 hb) | None => None end) with (xopt_handler h).
        apply xexec_one. rewrite xexec1_S_try.
        destruct (py_r1 m F body h) as [r1|] eqn:E1; [|discriminate].
        rewrite (py_r1_opt m IH2 _ _ _ _ E1). apply (py_fin_opt m IH2). exact H. }
    assert (S2 : forall F l r, xexec (S m) F l = Some r -> xexec (S m) F (xopt l) = Some r).
    { intros F l. revert F. induction l as [|s l IHl]; intros F r H; [exact H|].
      rewrite xopt_cons. rewrite xexec_cons in H.
      destruct (x_is_jump s) eqn:J.
      - destruct s; try discriminate; rewrite xexec_cons.
        + cbn [xexec1] in H |- *. exact H.
        + cbn [xexec1] in H |- *. exact H.
        + cbn [xexec1] in H |- *. destruct (peval F e) as [[[| | | |c p] t]|]; try discriminate. exact H.
      - destruct (xexec1 (S m) F s) as [[[o F1] t1]|] eqn:E1; [|discriminate].
        pose proof (S1 F s _ E1) as X1.
        destruct o.
        + destruct (xexec (S m) F1 l) as [[[o2 F2] t2]|] eqn:E2; [|discriminate]. inversion H; subst.
          rewrite xexec_app, X1, (IHl F1 _ E2). reflexivity.
        + inversion H; subst. apply xexec_stop; [discriminate|exact X1].
        + inversion H; subst. apply xexec_stop; [discriminate|exact X1].
        + inversion H; subst. apply xexec_stop; [discriminate|exact X1]. }
    split; [exact S1|]. split; [exact S2|].
    intros F b r H. cbn [xwhile] in H |- *. fold (xexec m) in H |- *.
    destruct (xexec m F b) as [[[o F1] t1]|] eqn:Eb; [|discriminate].
    rewrite (IH2 F b _ Eb).
    destruct o; try exact H;
      (destruct (xwhile m F1 b) as [[[o2 F2] t2]|] eqn:Ew; [|discriminate]; rewrite (IH3 _ _ _ Ew); exact H).
Qed.

Theorem xopt_stmts_preserves m F l r : xexec m F l = Some r -> xexec m F (xopt l) = Some r.
Proof. apply (proj1 (proj2 (xopt_preserves m))). Qed.

Definition xrun_opt (fuel : nat) (e : xexpr) : option xresult :=
  let '(d, pe, _, _) := xgen (fun _ => None) [] 0 e in
  match xexec fuel (fun _ => None) (xopt d) with
  | Some (Normal, F, t1) => match peval F pe with Some (v, t2) => Some (XRVal v (t1 ++ t2)) | None => None end
  | Some (Exc c _, _, t1) => Some (XRExc c t1)
  | _ => None
  end.

Lemma xrun_opt_of fuel e r : xrun fuel e = Some r -> xrun_opt fuel e = Some r.
Proof.
  unfold xrun, xrun_opt. destruct (xgen (fun _ => None) [] 0 e) as [[[d pe] n'] k].
  destruct (xexec fuel (fun _ => None) d) as [[[o F] t1]|] eqn:E; [|discriminate].
  rewrite (xopt_stmts_preserves _ _ _ _ E). auto.
Qed.

Theorem optimized_exceptions_compile_correct fuel e o tr :
  xeval fuel (fun _ => None) e = Some (o, tr) -> hazard_free e = true ->
  match o with
  | OVal v => exists m, forall m', (m <= m')%nat -> xrun_opt m' e = Some (XRVal v tr)
  | OExc c _ => exists m, forall m', (m <= m')%nat -> xrun_opt m' e = Some (XRExc c tr)
  | ORec _ => True
  end.
Proof.
  intros He Hh. pose proof (xcompile_correct fuel e o tr He Hh) as H.
  destruct o as [v|?|c p]; [|exact I|]; destruct H as [m Hm]; exists m; intros m' L;
    apply xrun_opt_of; apply Hm; exact L.
Qed.

(** the rules really fire on generated code: the statement after `raise`, the constant `finally` *)
Example xopt_nonvacuous :
  (let '(d, _, _, _) := xgen (fun _ => None) [] 0 caught in xopt d <> d) /\
  (let '(d, _, _, _) := xgen (fun _ => None) [] 0 (XTry (tr1 1) None (XConst VNil) true (XConst (VInt 5))) in xopt d <> d).
Proof. split; vm_compute; discriminate. Qed.
