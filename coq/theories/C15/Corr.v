(** C15 correspondence interface: the case is the module body the real optimizer received,
    the output is what it returned.  spec = the pair is [allowed] (checker); model = the
    Coq transcription of the optimizer reproduces the output exactly. *)
From Coq Require Import List NArith Bool.
Import ListNotations.
From Verif Require Export C15.Tree C15.Opt C15.Allowed.
Local Open Scope N_scope.

Inductive case :=
| CForm (b : tree)                 (* one top-level form of a namespace *)
| CTriv                            (* unchanged form / index past the end *)
| CProg (bs : list tree).          (* generated program: its forms *)

Inductive out :=
| OForm (a : tree)
| OTriv
| OProg (same_exec : bool) (afters : list tree)
| OErr (n : N).

Fixpoint all2 (f : tree -> tree -> bool) (l1 l2 : list tree) : bool :=
  match l1, l2 with
  | [], [] => true
  | x :: r1, y :: r2 => f x y && all2 f r1 r2
  | _, _ => false
  end.

Definition spec_ok (c : case) (o : out) : bool :=
  match c, o with
  | CForm b, OForm a => accept b a
  | CTriv, OTriv => true
  | CProg bs, OProg se afters => se && all2 accept bs afters
  | _, _ => false
  end.

Definition model (c : case) : out :=
  match c with
  | CForm b => OForm (Opt.opt b)
  | CTriv => OTriv
  | CProg bs => OProg true (map Opt.opt bs)
  end.

Definition out_eqb (m o : out) : bool :=
  match m, o with
  | OForm a, OForm a' => tree_eqb a a'
  | OTriv, OTriv => true
  | OProg _ l, OProg _ l' => all2 tree_eqb l l'
  | _, _ => false
  end.

(** ---- defect tags: which disallowed rewrite the pass performs on this input ---- *)
Definition any_tree (f : tree -> bool) : list tree -> bool :=
  fix go (l : list tree) : bool := match l with [] => false | x :: r => f x || go r end.

Definition call_of (t : tree) : option (N * list tree) :=
  match t with
  | Nd tg [func; Nd tl args; _] =>
      if N.eqb tg T_Call && N.eqb tl T_LIST then
        match Allowed.operator_attr func with Some f => Some (f, args) | None => None end
      else None
  | _ => None
  end.

(** F-15a: is_/is_not with a non-singleton literal operand becomes ==/!= *)
Fixpoint has_is_literal (t : tree) : bool :=
  match t with
  | At _ => false
  | Nd _ ks =>
      (match call_of t with
       | Some (f, args) => (N.eqb f H_is_ || N.eqb f H_is_not) && any_tree Opt.needs_eq args
       | None => false
       end) || any_tree has_is_literal ks
  end.

(** F-15b: contains(a, b) with an operand whose evaluation may be observed *)
Fixpoint has_contains_impure (t : tree) : bool :=
  match t with
  | At _ => false
  | Nd _ ks =>
      (match call_of t with
       | Some (f, args) => N.eqb f H_contains && negb (all_trees pure args)
       | None => false
       end) || any_tree has_contains_impure ks
  end.

Fixpoint has_global (t : tree) : bool :=
  match t with
  | At _ => false
  | Nd tg ks => N.eqb tg T_Global || any_tree has_global ks
  end.

(** F-15c: a `global` declaration inside an async def (no context is opened for it) *)
Fixpoint has_async_global (t : tree) : bool :=
  match t with
  | At _ => false
  | Nd tg ks => (N.eqb tg T_AsyncFunctionDef && any_tree has_global ks) || any_tree has_async_global ks
  end.

(** F-15d: a `global` declaration in code that is removed as unreachable *)
Fixpoint dead_part (l : list tree) : list tree :=
  match l with
  | [] => []
  | x :: r => if Allowed.is_term_ref x then r else dead_part r
  end.

Fixpoint has_dead_global (t : tree) : bool :=
  match t with
  | At _ => false
  | Nd tg ks =>
      (N.eqb tg T_LIST && any_tree has_global (dead_part ks)) || any_tree has_dead_global ks
  end.

Definition tag1 (b : tree) : N :=
  (if has_is_literal b then 1 else 0) + (if has_contains_impure b then 2 else 0)
  + (if has_async_global b then 4 else 0) + (if has_dead_global b then 8 else 0).

Definition tag (c : case) : N :=
  match c with
  | CForm b => tag1 b
  | CTriv => 0
  | CProg bs => fold_right (fun b acc => N.lor (tag1 b) acc) 0 bs
  end.
