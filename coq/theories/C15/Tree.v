(** Generic tree encoding of Python ASTs: [Nd tag fields] for an AST node (fields in
    [_fields] order; a list-valued field is [Nd T_LIST items], a missing one [Nd T_NONE []]),
    [At h] for identifiers / constants / abstracted identical expression subtrees (hashed). *)
From Coq Require Import List NArith Bool.
Import ListNotations.
From Verif Require Export C15.Tags.
Local Open Scope N_scope.

Inductive tree := Nd (tag : N) (kids : list tree) | At (h : N).

Fixpoint tree_eqb (a b : tree) : bool :=
  match a, b with
  | At x, At y => N.eqb x y
  | Nd t1 k1, Nd t2 k2 =>
      N.eqb t1 t2 &&
      (fix go (l1 l2 : list tree) : bool :=
         match l1, l2 with
         | [], [] => true
         | x :: r1, y :: r2 => tree_eqb x y && go r1 r2
         | _, _ => false
         end) k1 k2
  | _, _ => false
  end.

Section TreeInd.
  Variable P : tree -> Prop.
  Hypothesis HAt : forall h, P (At h).
  Hypothesis HNd : forall tag kids, Forall P kids -> P (Nd tag kids).
  Fixpoint tree_ind' (t : tree) : P t :=
    match t with
    | At h => HAt h
    | Nd tag kids =>
        HNd tag kids ((fix go (l : list tree) : Forall P l :=
                         match l with
                         | [] => Forall_nil P
                         | a :: r => Forall_cons a (tree_ind' a) (go r)
                         end) kids)
    end.
End TreeInd.

Definition trees_eqb : list tree -> list tree -> bool :=
  fix go (l1 l2 : list tree) : bool :=
    match l1, l2 with
    | [], [] => true
    | x :: r1, y :: r2 => tree_eqb x y && go r1 r2
    | _, _ => false
    end.

Lemma tree_eqb_nd t1 k1 t2 k2 : tree_eqb (Nd t1 k1) (Nd t2 k2) = N.eqb t1 t2 && trees_eqb k1 k2.
Proof. reflexivity. Qed.

Lemma tree_eqb_eq : forall a b, tree_eqb a b = true -> a = b.
Proof.
  induction a as [h|tag kids IH] using tree_ind'; intros [tag2 kids2|h2]; try discriminate.
  - simpl. intro E. apply N.eqb_eq in E. congruence.
  - rewrite tree_eqb_nd. intro E. apply andb_true_iff in E as [E1 E2]. apply N.eqb_eq in E1. subst.
    f_equal. revert kids2 E2. induction kids as [|x r IHr]; intros [|y r2] E2; simpl in E2; try discriminate; auto.
    apply andb_true_iff in E2 as [Ex Er]. inversion IH as [|? ? Px Pr]; subst.
    f_equal; [apply Px; auto|apply IHr; auto].
Qed.

Definition is_tag (tag : N) (t : tree) : bool :=
  match t with Nd tg _ => N.eqb tg tag | At _ => false end.

Definition mem (x : N) (l : list N) : bool := existsb (N.eqb x) l.
