(** Semantic preservation of the statement-level rewrites on the Python subset with loops
    (C01L/LPy.v): dropping bare constant/name statements, dropping the statements that follow
    `break` / `continue` in a block, dropping `if`s whose branches are both empty -- the
    optimised code yields the same outcome, frame and trace for the same fuel.  Composed with
    the loop simulation theorem of C01L. *)
From Coq Require Import List ZArith NArith Bool Lia Arith.
Import ListNotations.
From Verif Require Import C01L.LLisp C01L.LPy C01L.LGen C01L.LMono C01L.LSim C01L.LTop.

Definition ldroppable (e : pexpr) : bool := match e with PConst _ | PName _ => true | PCall _ _ => false end.
Definition is_jump (s : lstmt) : bool := match s with LBreak | LContinue => true | _ => false end.

Definition lopt_with (o1 : lstmt -> list lstmt) : list lstmt -> list lstmt :=
  fix go (l : list lstmt) : list lstmt :=
    match l with
    | [] => []
    | s :: r => if is_jump s then [s] else o1 s ++ go r      (* _filter_dead_code *)
    end.

Fixpoint lopt1 (s : lstmt) : list lstmt :=
  match s with
  | LExpr e => if ldroppable e then [] else [s]
  | LSIf t fb tb =>
      match lopt_with lopt1 fb, lopt_with lopt1 tb with
      | [], [] => []
      | fb', tb' => [LSIf t fb' tb']
      end
  | LWhile body => [LWhile (lopt_with lopt1 body)]
  | _ => [s]
  end.
Definition lopt := lopt_with lopt1.

Lemma lopt_cons s r : lopt (s :: r) = if is_jump s then [s] else lopt1 s ++ lopt r.
Proof. reflexivity. Qed.

Lemma ldroppable_exec F e v t : ldroppable e = true -> peval F e = Some (v, t) -> t = [].
Proof.
  destruct e as [c|p|f args]; simpl; try discriminate; intros _ H.
  - inversion H; reflexivity.
  - destruct (F p); inversion H; reflexivity.
Qed.

Theorem lopt_preserves : forall m,
  (forall F s r, lexec1 m F s = Some r -> lexec m F (lopt1 s) = Some (match r with (o, F', t) => (o, F', t) end)) /\
  (forall F l r, lexec m F l = Some r -> lexec m F (lopt l) = Some r) /\
  (forall F b r, lwhile m F b = Some r -> lwhile m F (lopt b) = Some r).
Proof.
  induction m as [|m [IH1 [IH2 IH3]]].
  - split; [intros; discriminate|]. split; [|intros; discriminate].
    intros F l r H. destruct l as [|s l]; [exact H|]. rewrite lexec_cons in H. discriminate.
  - assert (S1 : forall F s r, lexec1 (S m) F s = Some r -> lexec (S m) F (lopt1 s) = Some r).
    { intros F s r H. destruct s as [x e|xs es|e|t fb tb|body| |]; cbn [lopt1].
      - rewrite lexec_cons, H. destruct r as [[[| |] F'] t]; try reflexivity. rewrite lexec_nil, app_nil_r. reflexivity.
      - rewrite lexec_cons, H. destruct r as [[[| |] F'] t]; try reflexivity. rewrite lexec_nil, app_nil_r. reflexivity.
      - destruct (ldroppable e) eqn:D.
        + cbn [lexec1] in H. destruct (peval F e) as [[v t']|] eqn:E; [|discriminate].
          inversion H; subst. rewrite (ldroppable_exec _ _ _ _ D E). reflexivity.
        + rewrite lexec_cons, H. destruct r as [[[| |] F'] t]; try reflexivity. rewrite lexec_nil, app_nil_r. reflexivity.
      - cbn [lexec1] in H. destruct (F t) as [v|] eqn:Ft; [|discriminate].
        fold (lexec m) in H. apply IH2 in H.
        fold (lopt fb). fold (lopt tb).
        destruct (lopt fb) as [|f1 fr] eqn:Ofb, (lopt tb) as [|t1 tr] eqn:Otb.
        + destruct (falsey v); [rewrite Ofb in H|rewrite Otb in H]; rewrite lexec_nil in H;
            inversion H; subst; apply lexec_nil.
        + rewrite lexec_cons. cbn [lexec1]. rewrite Ft. fold (lexec m).
          destruct (falsey v); [rewrite Ofb in H|rewrite Otb in H]; rewrite H;
            destruct r as [[[| |] F'] t0]; try reflexivity; rewrite lexec_nil, app_nil_r; reflexivity.
        + rewrite lexec_cons. cbn [lexec1]. rewrite Ft. fold (lexec m).
          destruct (falsey v); [rewrite Ofb in H|rewrite Otb in H]; rewrite H;
            destruct r as [[[| |] F'] t0]; try reflexivity; rewrite lexec_nil, app_nil_r; reflexivity.
        + rewrite lexec_cons. cbn [lexec1]. rewrite Ft. fold (lexec m).
          destruct (falsey v); [rewrite Ofb in H|rewrite Otb in H]; rewrite H;
            destruct r as [[[| |] F'] t0]; try reflexivity; rewrite lexec_nil, app_nil_r; reflexivity.
      - cbn [lexec1] in H. apply IH3 in H. fold (lopt body).
        rewrite lexec_cons. cbn [lexec1]. rewrite H.
        destruct r as [[[| |] F'] t0]; try reflexivity. rewrite lexec_nil, app_nil_r. reflexivity.
      - rewrite lexec_cons, H. destruct r as [[[| |] F'] t]; try reflexivity. rewrite lexec_nil, app_nil_r. reflexivity.
      - rewrite lexec_cons, H. destruct r as [[[| |] F'] t]; try reflexivity. rewrite lexec_nil, app_nil_r. reflexivity. }
    assert (S2 : forall F l r, lexec (S m) F l = Some r -> lexec (S m) F (lopt l) = Some r).
    { intros F l. revert F. induction l as [|s l IHl]; intros F r H; [exact H|].
      rewrite lopt_cons. rewrite lexec_cons in H.
      destruct (is_jump s) eqn:J.
      - destruct s; try discriminate; cbn [lexec1] in H; inversion H; subst; reflexivity.
      - destruct (lexec1 (S m) F s) as [[[o F1] t1]|] eqn:E1; [|discriminate].
        pose proof (S1 F s _ E1) as X1.
        destruct o.
        + destruct (lexec (S m) F1 l) as [[[o2 F2] t2]|] eqn:E2; [|discriminate]. inversion H; subst.
          rewrite lexec_app, X1, (IHl F1 _ E2). reflexivity.
        + inversion H; subst. apply lexec_stop; [discriminate|exact X1].
        + inversion H; subst. apply lexec_stop; [discriminate|exact X1]. }
    split; [intros F s r H; rewrite (S1 F s r H); destruct r as [[o F'] t]; reflexivity|].
    split; [exact S2|].
    intros F b r H. cbn [lwhile] in H |- *. fold (lexec m) in H |- *.
    destruct (lexec m F b) as [[[o F1] t1]|] eqn:Eb; [|discriminate].
    rewrite (IH2 F b _ Eb).
    destruct o; try exact H;
      (destruct (lwhile m F1 b) as [[[o2 F2] t2]|] eqn:Ew; [|discriminate]; rewrite (IH3 _ _ _ Ew); exact H).
Qed.

Theorem lopt_stmts_preserves m F l r : lexec m F l = Some r -> lexec m F (lopt l) = Some r.
Proof. apply (proj1 (proj2 (lopt_preserves m))). Qed.

Definition lrun_opt (fuel : nat) (e : lexpr) : option (value * trace) :=
  let '(d, pe, _, _) := lgen (fun _ => None) [] 0 e in
  match lexec fuel (fun _ => None) (lopt d) with
  | Some (Normal, F, t1) => match peval F pe with Some (v, t2) => Some (v, t1 ++ t2) | None => None end
  | _ => None
  end.

Theorem optimized_loops_compile_correct fuel e v tr :
  leval fuel (fun _ => None) e = Some (OVal v, tr) -> hazard_free e = true ->
  exists m, forall m', (m <= m')%nat -> lrun_opt m' e = Some (v, tr).
Proof.
  intros He Hh. destruct (lcompile_correct fuel e v tr He Hh) as [m Hm].
  exists m. intros m' L. specialize (Hm m' L). unfold lrun, lrun_opt in *.
  destruct (lgen (fun _ => None) [] 0 e) as [[[d pe] n'] k].
  destruct (lexec m' (fun _ => None) d) as [[[o F] t1]|] eqn:E; [|discriminate].
  rewrite (lopt_stmts_preserves _ _ _ _ E). exact Hm.
Qed.

(** the dead-code rule really fires on generated loops: the statement after `continue` *)
Example lopt_nonvacuous :
  let '(d, _, _, _) := lgen (fun _ => None) [] 0 count_loop in
  lopt d <> d.
Proof. vm_compute. discriminate. Qed.
