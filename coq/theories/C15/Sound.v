(** Soundness of the C15 checker: every pair it accepts is related by [allowed]. *)
From Coq Require Import List NArith Bool Lia Arith.
Import ListNotations.
From Verif Require Import C15.Tree C15.Allowed.
Local Open Scope N_scope.

Fixpoint size (t : tree) : nat :=
  match t with
  | At _ => 1%nat
  | Nd _ ks => S ((fix go (l : list tree) : nat := match l with [] => 0%nat | x :: r => (size x + go r)%nat end) ks)
  end.

Fixpoint sizes (l : list tree) : nat :=
  match l with [] => 0%nat | x :: r => (size x + sizes r)%nat end.

Lemma size_nd tg ks : size (Nd tg ks) = S (sizes ks).
Proof. reflexivity. Qed.

Lemma size_in x l : In x l -> (size x <= sizes l)%nat.
Proof.
  induction l as [|y r IH]; simpl; [tauto|]. intros [->|H]; [lia|]. specialize (IH H). lia.
Qed.

Lemma size_pos t : (1 <= size t)%nat.
Proof. destruct t; simpl; lia. Qed.

Lemma list_eq_eq a : forall b, list_eq a b = true -> a = b.
Proof.
  induction a as [|x r IH]; intros [|y r']; simpl; try discriminate; auto.
  intro H. apply andb_true_iff in H as [H1 H2]. apply N.eqb_eq in H1. f_equal; auto.
Qed.

Lemma atoms_map names : forallb is_at names = true -> names = map At (atoms_of names).
Proof.
  induction names as [|x r IH]; simpl; auto.
  intro H. apply andb_true_iff in H as [H1 H2]. destruct x as [tg ks|h]; [discriminate|].
  simpl. f_equal. apply IH; auto.
Qed.

Lemma is_global_list_spec ks names :
  is_global_list ks = Some names -> ks = [Nd T_LIST (map At names)].
Proof.
  unfold is_global_list. destruct ks as [|[tl nm|h] [|? ?]]; try discriminate.
  destruct (N.eqb tl T_LIST && forallb is_at nm) eqn:E; [|discriminate].
  apply andb_true_iff in E as [E1 E2]. apply N.eqb_eq in E1. subst.
  intro H. inversion H; subst. rewrite <- (atoms_map nm E2). reflexivity.
Qed.

(** ---- dropping whole statements ---- *)
Lemma drop_sound : forall n,
  (forall x, (size x <= n)%nat -> forall d d', drop1 x d = Some d' ->
     d' = d /\ forall r r' d2, alsl d r r' d2 -> alsl d (x :: r) r' d2) /\
  (forall l, (sizes l <= n)%nat -> forall d d', drop_list l d = Some d' -> d' = d /\ alsl d l [] d).
Proof.
  induction n as [|n [IH1 IH2]].
  - split.
    + intros x Hx. pose proof (size_pos x). lia.
    + intros [|x r] Hl d d' H; simpl in *.
      * inversion H; subst. split; [reflexivity|constructor].
      * pose proof (size_pos x). lia.
  - assert (D1 : forall x, (size x <= S n)%nat -> forall d d', drop1 x d = Some d' ->
             d' = d /\ forall r r' d2, alsl d r r' d2 -> alsl d (x :: r) r' d2).
    { intros x Hx d d' H. destruct x as [tg ks|h]; [|discriminate].
      rewrite size_nd in Hx.
      cbn [drop1] in H.
      destruct (is_bare (Nd tg ks)) eqn:B.
      { inversion H; subst. split; [reflexivity|]. intros. apply sl_drop_bare; auto. }
      destruct (N.eqb tg T_Global) eqn:G.
      { apply N.eqb_eq in G. subst tg.
        destruct ks as [|[tl names|?] [|? ?]]; try discriminate.
        destruct (N.eqb tl T_LIST && forallb is_at names && all_in (atoms_of names) d) eqn:E; [|discriminate].
        apply andb_true_iff in E as [E E3]. apply andb_true_iff in E as [E1 E2].
        apply N.eqb_eq in E1. subst. inversion H; subst. split; [reflexivity|].
        intros r r' d2 A. rewrite (atoms_map names E2). apply sl_drop_global; auto. }
      destruct (N.eqb tg T_If) eqn:I; [|discriminate].
      apply N.eqb_eq in I. subst tg.
      destruct ks as [|test [|[t1 body|?] [|[t2 orelse|?] [|? ?]]]]; try discriminate.
      destruct (N.eqb t1 T_LIST && N.eqb t2 T_LIST && pure test) eqn:E; [|discriminate].
      apply andb_true_iff in E as [E E3]. apply andb_true_iff in E as [E1 E2].
      apply N.eqb_eq in E1, E2. subst.
      cbn [sizes] in Hx. rewrite !size_nd in Hx.
      destruct (drop_list_with drop1 body d) as [d1|] eqn:Db; [|discriminate]. simpl in H.
      destruct (IH2 body ltac:(lia) d d1 Db) as [-> Ab].
      destruct (IH2 orelse ltac:(lia) d d' H) as [-> Ao].
      split; [reflexivity|]. intros r r' d2 A. eapply sl_drop_if; eauto. }
    split; [exact D1|].
    intros l. induction l as [|x r IHl]; intros Hl d d' H.
    + inversion H; subst. split; [reflexivity|constructor].
    + simpl in Hl. unfold drop_list in H. cbn [drop_list_with] in H.
      destruct (drop1 x d) as [d1|] eqn:Dx; [|discriminate]. simpl in H.
      destruct (D1 x ltac:(lia) d d1 Dx) as [-> Ax].
      destruct (IHl ltac:(lia) d d' H) as [-> Ar].
      split; [reflexivity|]. apply Ax. exact Ar.
Qed.

Lemma drop1_sound x d d' : drop1 x d = Some d' ->
  d' = d /\ forall r r' d2, alsl d r r' d2 -> alsl d (x :: r) r' d2.
Proof. apply (proj1 (drop_sound (size x)) x (le_n _)). Qed.

Lemma drop_list_sound l d d' : drop_list l d = Some d' -> d' = d /\ alsl d l [] d.
Proof. apply (proj2 (drop_sound (sizes l)) l (le_n _)). Qed.

(** ---- the main induction ---- *)
Definition P (b : tree) : Prop := forall a d d', chk b a d = Some d' -> al d b a d'.

Lemma chks_sound l : (forall x, In x l -> P x) ->
  forall l' d d', chks_with chk l l' d = Some d' -> als d l l' d'.
Proof.
  induction l as [|x r IH]; intros HP [|x' r'] d d' H; simpl in H; try discriminate.
  - inversion H; subst. constructor.
  - destruct (chk x x' d) as [d1|] eqn:E; [|discriminate]. simpl in H.
    econstructor; [apply HP; [left; reflexivity|exact E]|].
    apply IH; auto. intros y Hy. apply HP. right; auto.
Qed.

Lemma chksl_sound l : (forall x, In x l -> P x) ->
  forall l' d d', chksl_with chk l l' d = Some d' -> alsl d l l' d'.
Proof.
  induction l as [|x r IH]; intros HP l' d d' H.
  - simpl in H. destruct l'; [|discriminate]. inversion H; subst. constructor.
  - assert (HPr : forall y, In y r -> P y) by (intros y Hy; apply HP; right; auto).
    assert (Dropped : forall l2, obind (drop1 x d) (chksl_with chk r l2) = Some d' -> alsl d (x :: r) l2 d').
    { intros l2 Hd. destruct (drop1 x d) as [d1|] eqn:Dx; [|discriminate]. simpl in Hd.
      destruct (drop1_sound x d d1 Dx) as [-> Ax]. apply Ax. apply IH; auto. }
    cbn [chksl_with] in H. fold (chksl_with chk) in H.
    destruct l' as [|x' r'].
    + apply Dropped. exact H.
    + destruct (chk x x' d) as [d1|] eqn:E.
      * destruct (chksl_with chk r r' d1) as [d2|] eqn:E2.
        -- inversion H; subst. econstructor; [apply HP; [left; reflexivity|exact E]|]. apply IH; auto.
        -- destruct (is_term_ref x) eqn:T.
           ++ destruct r' as [|? ?].
              ** inversion H; subst. apply sl_dead; auto. apply HP; [left; reflexivity|exact E].
              ** apply Dropped. exact H.
           ++ apply Dropped. exact H.
      * apply Dropped. exact H.
Qed.

Lemma chk1_sound x x' d d' : P x -> chk1 chk x x' d = Some d' -> d' = d /\ al d x x' d.
Proof.
  intros HP H. unfold chk1 in H. destruct (chk x x' d) as [d1|] eqn:E; [|discriminate]. simpl in H.
  destruct (list_eq d1 d) eqn:L; [|discriminate]. apply list_eq_eq in L. subst.
  inversion H; subst. split; [reflexivity|]. apply HP. exact E.
Qed.

Lemma chk2_sound x x' y y' d d' : P x -> P y -> chk2 chk x x' y y' d = Some d' ->
  d' = d /\ al d x x' d /\ al d y y' d.
Proof.
  intros Hx Hy H. unfold chk2 in H. destruct (chk1 chk x x' d) as [d1|] eqn:E; [|discriminate]. simpl in H.
  destruct (chk1_sound x x' d d1 Hx E) as [-> Ax].
  destruct (chk1_sound y y' d d' Hy H) as [-> Ay]. auto.
Qed.

Ltac beq :=
  repeat match goal with
         | H : (_ && _) = true |- _ => apply andb_true_iff in H as [? ?]
         | H : N.eqb _ _ = true |- _ => apply N.eqb_eq in H; subst
         end.

Lemma nonempty_ne {A} (l : list A) : nonempty l = true -> l <> [].
Proof. destruct l; [discriminate|]. intros _ E; discriminate. Qed.

Lemma ref_is_spec tbl f op : ref_is tbl f op = true -> assoc tbl f = Some op.
Proof. unfold ref_is. destruct (assoc tbl f) as [op0|]; [|discriminate]. intro E. apply N.eqb_eq in E. congruence. Qed.

Section Tries.
  Variables (d : list N) (func : tree) (f : N) (args ks' : list tree) (tg' : N) (d' : list N).
  Hypothesis OA : operator_attr func = Some f.
  Hypothesis HA : forall x, In x args -> P x.
  Let goal := al d (Nd T_Call [func; Nd T_LIST args; no_kw]) (Nd tg' ks') d'.

  Lemma try_binop_sound : try_binop chk f args ks' tg' d = Some d' -> goal.
  Proof.
    unfold try_binop, goal.
    destruct args as [|x [|y [|? ?]]]; try discriminate.
    destruct ks' as [|x' [|[op [|? ?]|?] [|y' [|? ?]]]]; try discriminate.
    destruct (N.eqb tg' T_BinOp && ref_is ref_binops f op) eqn:E; [|discriminate].
    apply andb_true_iff in E as [E1 E2]. apply N.eqb_eq in E1. subst. apply ref_is_spec in E2.
    intro H. destruct (chk2_sound x x' y y' d d' (HA x (or_introl eq_refl)) (HA y (or_intror (or_introl eq_refl))) H)
      as (-> & Ax & Ay).
    eapply al_binop; eauto.
  Qed.

  Lemma try_unary_sound : try_unary chk f args ks' tg' d = Some d' -> goal.
  Proof.
    unfold try_unary, goal.
    destruct args as [|x [|? ?]]; try discriminate.
    destruct ks' as [|[op [|? ?]|?] [|x' [|? ?]]]; try discriminate.
    destruct (N.eqb tg' T_UnaryOp && ref_is ref_unaryops f op) eqn:E; [|discriminate].
    apply andb_true_iff in E as [E1 E2]. apply N.eqb_eq in E1. subst. apply ref_is_spec in E2.
    intro H. destruct (chk1_sound x x' d d' (HA x (or_introl eq_refl)) H) as [-> Ax].
    eapply al_unary; eauto.
  Qed.

  Lemma try_compare_sound : try_compare chk f args ks' tg' d = Some d' -> goal.
  Proof.
    unfold try_compare, goal.
    destruct args as [|x [|y [|? ?]]]; try discriminate.
    destruct ks' as [|l' [|[tl1 [|[op [|? ?]|?] [|? ?]]|?] [|[tl2 [|r' [|? ?]]|?] [|? ?]]]]; try discriminate.
    destruct (N.eqb tg' T_Compare && N.eqb tl1 T_LIST && N.eqb tl2 T_LIST) eqn:E; [|discriminate].
    apply andb_true_iff in E as [E E3]. apply andb_true_iff in E as [E1 E2].
    apply N.eqb_eq in E1, E2, E3. subst.
    assert (Px : P x) by (apply HA; left; reflexivity).
    assert (Py : P y) by (apply HA; right; left; reflexivity).
    destruct (ref_is ref_compareops f op || ref_is ref_isops f op) eqn:EO.
    - intro H. destruct (chk2_sound x l' y r' d d' Px Py H) as (-> & Ax & Ay).
      eapply al_compare; eauto.
      apply orb_true_iff in EO as [EO|EO]; apply ref_is_spec in EO; auto.
    - destruct (N.eqb f H_contains && N.eqb op T_In && pure x && pure y) eqn:EC; [|discriminate].
      apply andb_true_iff in EC as [EC C4]. apply andb_true_iff in EC as [EC C3].
      apply andb_true_iff in EC as [C1 C2]. apply N.eqb_eq in C1, C2. subst.
      intro H. destruct (chk2_sound x r' y l' d d' Px Py H) as (-> & Ax & Ay).
      eapply al_contains; eauto.
  Qed.

  Lemma try_getitem_sound : try_getitem chk f args ks' tg' d = Some d' -> goal.
  Proof.
    unfold try_getitem, goal.
    destruct args as [|x [|y [|? ?]]]; try discriminate.
    destruct ks' as [|x' [|y' [|[tld [|? ?]|?] [|? ?]]]]; try discriminate.
    destruct (N.eqb tg' T_Subscript && N.eqb f H_getitem && N.eqb tld T_Load) eqn:E; [|discriminate].
    apply andb_true_iff in E as [E E3]. apply andb_true_iff in E as [E1 E2].
    apply N.eqb_eq in E1, E2, E3. subst.
    intro H. destruct (chk2_sound x x' y y' d d' (HA x (or_introl eq_refl)) (HA y (or_intror (or_introl eq_refl))) H)
      as (-> & Ax & Ay).
    eapply al_getitem; eauto.
  Qed.

  Lemma try_delitem_sound : try_delitem chk f args ks' tg' d = Some d' -> goal.
  Proof.
    unfold try_delitem, goal.
    destruct args as [|x [|y [|? ?]]]; try discriminate.
    destruct ks' as [|[tl1 [|[ts [|x' [|y' [|[tdel [|? ?]|?] [|? ?]]]]|?] [|? ?]]|?] [|? ?]]; try discriminate.
    destruct (N.eqb tg' T_Delete && N.eqb tl1 T_LIST && N.eqb ts T_Subscript && N.eqb f H_delitem && N.eqb tdel T_Del) eqn:E;
      [|discriminate].
    repeat match goal with X : (_ && _) = true |- _ => apply andb_true_iff in X as [? ?] end.
    repeat match goal with X : N.eqb _ _ = true |- _ => apply N.eqb_eq in X end. subst.
    intro H. destruct (chk2_sound x x' y y' d d' (HA x (or_introl eq_refl)) (HA y (or_intror (or_introl eq_refl))) H)
      as (-> & Ax & Ay).
    eapply al_delitem; eauto.
  Qed.
End Tries.

Theorem chk_sound_n : forall n b, (size b <= n)%nat -> P b.
Proof.
  induction n as [|n IH]; intros b Hb; [pose proof (size_pos b); lia|].
  intros a d d' H.
  destruct b as [tg ks|h].
  2:{ destruct a as [?|h']; [discriminate|]. simpl in H.
      destruct (N.eqb h h') eqn:E; [|discriminate]. apply N.eqb_eq in E. inversion H; subst. constructor. }
  rewrite size_nd in Hb.
  assert (HK : forall x, In x ks -> P x).
  { intros x Hx. apply IH. pose proof (size_in x ks Hx). lia. }
  destruct a as [tg' ks'|?]; [|discriminate].
  cbn [chk] in H.
  destruct (N.eqb tg T_LIST) eqn:EL.
  { apply N.eqb_eq in EL. subst. destruct (N.eqb tg' T_LIST) eqn:EL'; [|discriminate].
    apply N.eqb_eq in EL'. subst. apply al_list. apply chksl_sound; auto. }
  destruct (N.eqb tg T_Global) eqn:EG.
  { apply N.eqb_eq in EG. subst. destruct (N.eqb tg' T_Global) eqn:EG'; [|discriminate].
    apply N.eqb_eq in EG'. subst.
    destruct (is_global_list ks) as [names|] eqn:G1; [|discriminate].
    destruct (is_global_list ks') as [names'|] eqn:G2; [|discriminate].
    destruct (nonempty names' && all_in names' names && forallb (fun n0 => mem n0 names' || mem n0 d) names) eqn:C;
      [|discriminate].
    apply andb_true_iff in C as [C C3]. apply andb_true_iff in C as [C1 C2].
    inversion H; subst.
    rewrite (is_global_list_spec _ _ G1), (is_global_list_spec _ _ G2).
    apply al_global; auto using nonempty_ne. }
  destruct (N.eqb tg T_Call && negb (N.eqb tg' T_Call)) eqn:EC.
  { (* operator rewrites *)
    apply andb_true_iff in EC as [EC _]. apply N.eqb_eq in EC. subst tg.
    destruct ks as [|func [|[tl args|?] [|kw [|? ?]]]]; try discriminate.
    destruct (negb (N.eqb tl T_LIST && tree_eqb kw no_kw)) eqn:EK; [discriminate|].
    apply negb_false_iff in EK. apply andb_true_iff in EK as [EK1 EK2].
    apply N.eqb_eq in EK1. apply tree_eqb_eq in EK2. subst tl kw.
    destruct (operator_attr func) as [f|] eqn:OA; [|discriminate].
    cbn [sizes] in Hb. rewrite !size_nd in Hb.
    (* sizes of the operands *)
    assert (HA : forall x, In x args -> P x).
    { intros x Hx. apply IH. pose proof (size_in x args Hx). lia. }
    unfold orelse in H.
    destruct (try_binop chk f args ks' tg' d) eqn:T1.
    { inversion H; subst. eapply try_binop_sound; eauto. }
    destruct (try_unary chk f args ks' tg' d) eqn:T2.
    { inversion H; subst. eapply try_unary_sound; eauto. }
    destruct (try_compare chk f args ks' tg' d) eqn:T3.
    { inversion H; subst. eapply try_compare_sound; eauto. }
    destruct (try_getitem chk f args ks' tg' d) eqn:T4.
    { inversion H; subst. eapply try_getitem_sound; eauto. }
    eapply try_delitem_sound; eauto.
  }
  destruct (negb (N.eqb tg tg')) eqn:ET; [discriminate|].
  apply negb_false_iff in ET. apply N.eqb_eq in ET. subst tg'.
  destruct (N.eqb tg T_FunctionDef) eqn:EF.
  { apply N.eqb_eq in EF. subst.
    assert (Generic : obind (chks_with chk ks ks' []) (fun _ => Some d) = Some d' -> al d (Nd T_FunctionDef ks) (Nd T_FunctionDef ks') d').
    { intro Hg. destruct (chks_with chk ks ks' []) as [d1|] eqn:E; [|discriminate]. inversion Hg; subst.
      eapply al_scope; [reflexivity|]. apply chks_sound; eauto. }
    destruct ks as [|nm [|args [|body [|decos [|rets [|tc [|tp [|? ?]]]]]]]]; try (apply Generic; exact H).
    destruct ks' as [|nm' [|args' [|body' [|decos' [|rets' [|tc' [|tp' [|? ?]]]]]]]]; try (apply Generic; exact H).
    destruct (tree_eqb tc' (Nd T_NONE []) && tree_eqb tp' (Nd T_LIST [])) eqn:E; [|apply Generic; exact H].
    apply andb_true_iff in E as [E1 E2]. apply tree_eqb_eq in E1, E2. subst.
    destruct (chks_with chk [nm; args; body; decos; rets] [nm'; args'; body'; decos'; rets'] []) as [d1|] eqn:E;
      [|discriminate].
    inversion H; subst. eapply al_fundef. apply chks_sound; [|exact E].
    intros x Hx. apply HK. simpl in *. intuition. }
  destruct (scope_tag tg) eqn:ES.
  { destruct (chks_with chk ks ks' []) as [d1|] eqn:E; [|discriminate]. inversion H; subst.
    eapply al_scope; [exact ES|]. apply chks_sound; eauto. }
  destruct (chks_with chk ks ks' d) as [d1|] eqn:E.
  { inversion H; subst. apply al_node; [|apply chks_sound; auto].
    unfold plain_tag. rewrite ES, EL, EG. reflexivity. }
  destruct (N.eqb tg T_If) eqn:EI.
  { apply N.eqb_eq in EI. subst.
  destruct ks as [|test [|[t1 body|?] [|[t2 orelse|?] [|? ?]]]]; try discriminate.
  destruct ks' as [|[tu [|[tn [|? ?]|?] [|test' [|? ?]]]|?] [|[t3 orelse'|?] [|[t4 [|? ?]|?] [|? ?]]]]; try discriminate.
  destruct (N.eqb t1 T_LIST && N.eqb t2 T_LIST && N.eqb t3 T_LIST && N.eqb t4 T_LIST && N.eqb tu T_UnaryOp
            && N.eqb tn T_Not && nonempty orelse') eqn:C; [|discriminate].
  apply andb_true_iff in C as [C C7]. beq.
  destruct (chk test test' d) as [d0|] eqn:Et; [|discriminate]. simpl in H.
  destruct (drop_list body d0) as [d1'|] eqn:Db; [|discriminate]. simpl in H.
  destruct (drop_list_sound body d0 d1' Db) as [-> Ab].
  cbn [sizes] in Hb. rewrite !size_nd in Hb.
  eapply al_if_neg.
  - apply HK; [left; reflexivity|exact Et].
  - exact Ab.
  - apply chksl_sound; [|exact H]. intros x Hx. apply IH. pose proof (size_in x orelse Hx). lia.
  - apply nonempty_ne; auto. }
  (* try without handlers whose finally clause is dropped entirely: `finally: pass` *)
  destruct (N.eqb tg T_Try) eqn:ETr; [|discriminate].
  apply N.eqb_eq in ETr. subst.
  destruct ks as [|body [|[th [|? ?]|?] [|orelse [|[tf fin|?] [|? ?]]]]]; try discriminate.
  destruct ks' as [|body' [|[th' [|? ?]|?] [|orelse' [|[tf' [|[tp [|? ?]|?] [|? ?]]|?] [|? ?]]]]]; try discriminate.
  destruct (N.eqb th T_LIST && N.eqb th' T_LIST && N.eqb tf T_LIST && N.eqb tf' T_LIST && N.eqb tp T_Pass) eqn:C;
    [|discriminate].
  beq.
  destruct (chk body body' d) as [d1|] eqn:E1; [|discriminate]. simpl in H.
  destruct (chk orelse orelse' d1) as [d2|] eqn:E2; [|discriminate]. simpl in H.
  destruct (drop_list_sound fin d2 d' H) as [-> Af].
  eapply al_try_pass.
  - apply HK; [left; reflexivity|exact E1].
  - apply HK; [right; right; left; reflexivity|exact E2].
  - exact Af.
Qed.

Theorem chk_sound b a d d' : chk b a d = Some d' -> al d b a d'.
Proof. apply (chk_sound_n (size b) b (le_n _)). Qed.

Theorem check_sound b a : check b a = true -> allowed b a.
Proof.
  unfold check, allowed. destruct (chk b a []) as [d'|] eqn:E; [|discriminate].
  intros _. exists d'. apply chk_sound. exact E.
Qed.

Theorem accept_sound b a : accept b a = true -> acceptable b a.
Proof.
  unfold accept, acceptable. intro H. apply andb_true_iff in H as [H1 H2].
  split; [apply check_sound; exact H1|].
  intro Wb. rewrite Wb in H2. simpl in H2. rewrite orb_false_r in H2. exact H2.
Qed.
