(** Semantic preservation of the statement-level rewrites on the Python subset with function
    definitions and calls (C01C/CPy.v): dropping bare constant/name statements and empty `if`s,
    also inside function bodies (visit_FunctionDef).  Optimised and unoptimised runs build
    different function values (their bodies differ), so the statement is a simulation between
    two heaps related frame by frame; observable values and traces are equal.  Composed with the
    simulation theorem of C01C. *)
From Coq Require Import List ZArith NArith Bool Lia Arith.
Import ListNotations.
From Verif Require Import C01C.CLisp C01C.CPy C01C.CGen C01C.CMono C01C.CSim C01C.CTop.

Definition copt_with (o1 : cstmt -> list cstmt) : list cstmt -> list cstmt :=
  fix go (l : list cstmt) : list cstmt := match l with [] => [] | s :: r => o1 s ++ go r end.

Fixpoint copt1 (s : cstmt) : list cstmt :=
  match s with
  | SExpr e => if atomic e then [] else [s]
  | SIf t fb tb =>
      match copt_with copt1 fb, copt_with copt1 tb with
      | [], [] => []
      | fb', tb' => [SIf t fb' tb']
      end
  | SDef name lo ps body ret => [SDef name lo ps (copt_with copt1 body) ret]
  | _ => [s]
  end.
Definition copt := copt_with copt1.

Lemma copt_cons s r : copt (s :: r) = copt1 s ++ copt r.
Proof. reflexivity. Qed.

(** values up to optimisation of function bodies *)
Inductive OV : pval -> pval -> Prop :=
| OV_nil : OV PVNil PVNil
| OV_bool b : OV (PVBool b) (PVBool b)
| OV_int z : OV (PVInt z) (PVInt z)
| OV_vec l l' : Forall2 OV l l' -> OV (PVVec l) (PVVec l')
| OV_clo lo ps body ret dfid : OV (PVClo lo ps body ret dfid) (PVClo lo ps (copt body) ret dfid).

Definition OO (a b : option pval) : Prop :=
  match a, b with Some v, Some v' => OV v v' | None, None => True | _, _ => False end.
Definition OF (F F' : frame) : Prop := forall p, OO (F p) (F' p).
Definition OH (H H' : heap) : Prop := Forall2 OF H H'.

Section PvalInd.
  Variable P : pval -> Prop.
  Hypothesis HNil : P PVNil.
  Hypothesis HBool : forall b, P (PVBool b).
  Hypothesis HInt : forall z, P (PVInt z).
  Hypothesis HVec : forall l, Forall P l -> P (PVVec l).
  Hypothesis HClo : forall lo ps body ret dfid, P (PVClo lo ps body ret dfid).
  Fixpoint pval_ind' (v : pval) : P v :=
    match v with
    | PVNil => HNil | PVBool b => HBool b | PVInt z => HInt z
    | PVVec l => HVec l ((fix go (l : list pval) : Forall P l :=
                            match l with [] => Forall_nil P | a :: r => Forall_cons a (pval_ind' a) (go r) end) l)
    | PVClo lo ps body ret dfid => HClo lo ps body ret dfid
    end.
End PvalInd.

Lemma OV_obs : forall v v', OV v v' -> pobs_of v' = pobs_of v.
Proof.
  induction v as [| b | z | l IHl | lo ps body ret dfid] using pval_ind'; intros v' X; inversion X; subst; try reflexivity.
  simpl. f_equal.
  match goal with F2 : Forall2 _ l _ |- _ => revert F2 end. generalize l'. clear X.
  induction IHl as [|a r Pa Pr IHr]; intros l0 F2; inversion F2; subst; simpl; [reflexivity|]. f_equal; eauto.
Qed.

Lemma OV_falsey v v' : OV v v' -> pfalsey v' = pfalsey v.
Proof. intro X. inversion X; reflexivity. Qed.

Fixpoint OV_const (k : const) : OV (pv_of_const k) (pv_of_const k) :=
  match k with
  | Verif.C01.FLisp.KNil => OV_nil
  | Verif.C01.FLisp.KBool b => OV_bool b
  | Verif.C01.FLisp.KInt z => OV_int z
  | Verif.C01.FLisp.KVec l =>
      OV_vec _ _ ((fix go (l : list const) : Forall2 OV (map pv_of_const l) (map pv_of_const l) :=
                     match l with [] => Forall2_nil _ | x :: r => Forall2_cons _ _ (OV_const x) (go r) end) l)
  end.

Lemma papply_ov f vs vs' v t :
  Forall2 OV vs vs' -> papply f vs = Some (v, t) -> exists v', papply f vs' = Some (v', t) /\ OV v v'.
Proof.
  intros F2 A. destruct f; simpl in A.
  - destruct vs as [|v1 [|? ?]]; try discriminate. inversion A; subst.
    inversion F2 as [|? v1' ? ? V1 F2']; subst. inversion F2'; subst.
    exists v1'. simpl. rewrite (OV_obs _ _ V1). split; [reflexivity|exact V1].
  - inversion A; subst. exists (PVVec vs'). split; [reflexivity|constructor; exact F2].
  - destruct vs as [|[| | |l|] [|v2 [|? ?]]]; try discriminate. inversion A; subst.
    inversion F2 as [|? v1' ? ? V1 F2']; subst. inversion F2' as [|? v2' ? ? V2 F2'']; subst. inversion F2''; subst.
    inversion V1; subst. exists (PVVec (l' ++ [v2'])). split; [reflexivity|].
    constructor. apply Forall2_app_one; assumption.
  - destruct vs as [|[| |z| |] [|? ?]]; try discriminate. inversion A; subst.
    inversion F2 as [|? v1' ? ? V1 F2']; subst. inversion F2'; subst. inversion V1; subst.
    exists (PVInt (z + 1)). split; [reflexivity|constructor].
  - destruct vs as [|[| |a| |] [|[| |b| |] [|? ?]]]; try discriminate. inversion A; subst.
    inversion F2 as [|? v1' ? ? V1 F2']; subst. inversion F2' as [|? v2' ? ? V2 F2'']; subst. inversion F2''; subst.
    inversion V1; subst. inversion V2; subst.
    exists (PVBool (Z.ltb a b)). split; [reflexivity|constructor].
  - discriminate.
Qed.

(** ---- frames and heaps ---- *)
Lemma OF_set F F' p v v' : OF F F' -> OV v v' -> OF (set F p v) (set F' p v').
Proof. intros A V q. unfold set. destruct (pname_eqb q p); [exact V|apply A]. Qed.

Lemma OF_restrict lo F F' : OF F F' -> OF (restrict lo F) (restrict lo F').
Proof. intros A q. unfold restrict. destruct (N.ltb (idx q) lo); [apply A|exact I]. Qed.

Lemma OH_nth H H' g F : OH H H' -> nth_error H g = Some F -> exists F', nth_error H' g = Some F' /\ OF F F'.
Proof.
  intros X. revert g. induction X as [|F0 F0' r r' A X IH]; intros [|g] E; simpl in *; try discriminate.
  - inversion E; subst. eauto.
  - apply IH. exact E.
Qed.

Lemma OH_get H H' fid p v : OH H H' -> frame_get H fid p = Some v -> exists v', frame_get H' fid p = Some v' /\ OV v v'.
Proof.
  unfold frame_get. intros X E. destruct (nth_error H fid) as [F|] eqn:EF; [|discriminate].
  destruct (OH_nth _ _ _ _ X EF) as (F' & EF' & A). rewrite EF'.
  specialize (A p). rewrite E in A. destruct (F' p) as [v'|]; [|destruct A]. eauto.
Qed.

Lemma OH_set H H' fid p v v' : OH H H' -> OV v v' -> OH (set_frame H fid p v) (set_frame H' fid p v').
Proof.
  intros X V. revert fid. induction X as [|F F' r r' A X IH]; intros [|k]; simpl.
  - constructor.
  - constructor.
  - constructor; [apply OF_set; assumption|exact X].
  - constructor; [exact A|apply IH].
Qed.

Lemma OH_length H H' : OH H H' -> length H' = length H.
Proof. intro X. induction X; simpl; congruence. Qed.

Lemma OH_snoc H H' F F' : OH H H' -> OF F F' -> OH (H ++ [F]) (H' ++ [F']).
Proof. intros X A. apply Forall2_app; [exact X|constructor; [exact A|constructor]]. Qed.

Lemma bind_ov : forall ps vs vs' F F' Fc,
  Forall2 OV vs vs' -> OF F F' -> bind_pparams ps vs F = Some Fc ->
  exists Fc', bind_pparams ps vs' F' = Some Fc' /\ OF Fc Fc'.
Proof.
  induction ps as [|p ps IH]; intros vs vs' F F' Fc F2 A B.
  - destruct vs; [|discriminate]. inversion F2; subst. simpl in *. inversion B; subst. eauto.
  - destruct vs as [|v vs]; [discriminate|]. inversion F2 as [|? v' ? vs'' V F2']; subst. simpl in *.
    eapply IH; [exact F2'|apply OF_set; eauto|exact B].
Qed.

(** ---- the simulation between the unoptimised and the optimised run ---- *)
Definition sim_e (m : nat) : Prop :=
  forall fid H e v H1 t H', peval m fid H e = Some (v, H1, t) -> OH H H' ->
    exists v' H1', peval m fid H' e = Some (v', H1', t) /\ OV v v' /\ OH H1 H1'.
Definition sim_s (m : nat) : Prop :=
  forall fid H s H1 t H', cexec1 m fid H s = Some (H1, t) -> OH H H' ->
    exists H1', cexec m fid H' (copt1 s) = Some (H1', t) /\ OH H1 H1'.
Definition sim_l (m : nat) : Prop :=
  forall fid l H H1 t H', cexec m fid H l = Some (H1, t) -> OH H H' ->
    exists H1', cexec m fid H' (copt l) = Some (H1', t) /\ OH H1 H1'.
Definition sim_es (m : nat) : Prop :=
  forall fid l H vs H1 t H', pevall m fid H l = Some (vs, H1, t) -> OH H H' ->
    exists vs' H1', pevall m fid H' l = Some (vs', H1', t) /\ Forall2 OV vs vs' /\ OH H1 H1'.

Lemma sim_l_of m : sim_s m -> sim_l m.
Proof.
  intros SS fid l. induction l as [|s l IHl]; intros H H1 t H' X O.
  - rewrite cexec_nil in X. inversion X; subst. exists H'. split; [reflexivity|exact O].
  - rewrite cexec_cons in X.
    destruct (cexec1 m fid H s) as [[Ha ta]|] eqn:E1; [|discriminate].
    destruct (cexec m fid Ha l) as [[Hb tb]|] eqn:E2; [|discriminate]. inversion X; subst.
    destruct (SS _ _ _ _ _ _ E1 O) as (Ha' & Xa & Oa).
    destruct (IHl _ _ _ _ E2 Oa) as (Hb' & Xb & Ob).
    exists Hb'. split; [|exact Ob]. rewrite copt_cons, cexec_app, Xa, Xb. reflexivity.
Qed.

Lemma sim_es_of m : sim_e m -> sim_es m.
Proof.
  intros SE fid l. induction l as [|a l IHl]; intros H vs H1 t H' X O.
  - rewrite pevall_nil in X. inversion X; subst. exists [], H'. split; [reflexivity|]. split; [constructor|exact O].
  - rewrite pevall_cons in X.
    destruct (peval m fid H a) as [[[va Ha] ta]|] eqn:E1; [|discriminate].
    destruct (pevall m fid Ha l) as [[[vr Hb] tb]|] eqn:E2; [|discriminate]. inversion X; subst.
    destruct (SE _ _ _ _ _ _ _ E1 O) as (va' & Ha' & Xa & Va & Oa).
    destruct (IHl _ _ _ _ _ E2 Oa) as (vr' & Hb' & Xb & Vr & Ob).
    exists (va' :: vr'), Hb'. split; [rewrite pevall_cons, Xa, Xb; reflexivity|]. split; [constructor; assumption|exact Ob].
Qed.

Theorem copt_sim : forall m, sim_e m /\ sim_s m.
Proof.
  induction m as [|m [IHe IHs]]; [split; intros ? ? ? ? ? ? ? X; discriminate|].
  pose proof (sim_l_of m IHs) as IHl. pose proof (sim_es_of m IHe) as IHes.
  split.
  - intros fid H e v H1 t H' X O. destruct e as [k|p|f args|ef eargs].
    + rewrite peval_S_const in X |- *. inversion X; subst. exists (pv_of_const k), H'. auto using OV_const.
    + rewrite peval_S_name in X |- *. destruct (frame_get H fid p) as [v0|] eqn:E; [|discriminate]. inversion X; subst.
      destruct (OH_get _ _ _ _ _ O E) as (v' & E' & V). rewrite E'. eauto.
    + rewrite peval_S_call in X |- *.
      destruct (pevall m fid H args) as [[[vs Ha] ta]|] eqn:E1; [|discriminate].
      destruct (papply f vs) as [[v0 tp]|] eqn:Ep; [|discriminate]. inversion X; subst.
      destruct (IHes _ _ _ _ _ _ _ E1 O) as (vs' & Ha' & Xa & Vs & Oa).
      destruct (papply_ov _ _ _ _ _ Vs Ep) as (v' & Ep' & V).
      rewrite Xa, Ep'. eauto.
    + rewrite peval_S_invoke in X |- *.
      destruct (pevall m fid H (ef :: eargs)) as [[[vs Ha] ta]|] eqn:E1; [|discriminate].
      destruct vs as [|[| | | |lo ps body ret dfid] vs]; try discriminate.
      destruct (nth_error Ha dfid) as [Fd|] eqn:Ed; [|discriminate].
      destruct (bind_pparams ps vs (restrict lo Fd)) as [Fc|] eqn:Eb; [|discriminate].
      destruct (cexec m (length Ha) (Ha ++ [Fc]) body) as [[Hb tb]|] eqn:E2; [|discriminate].
      destruct (peval m (length Ha) Hb ret) as [[[v0 Hc] tc]|] eqn:E3; [|discriminate]. inversion X; subst.
      destruct (IHes _ _ _ _ _ _ _ E1 O) as (vs' & Ha' & Xa & Vs & Oa).
      inversion Vs as [|? vf' ? vs'' Vf Vs']; subst. inversion Vf; subst.
      destruct (OH_nth _ _ _ _ Oa Ed) as (Fd' & Ed' & Ad).
      destruct (bind_ov _ _ _ _ _ _ Vs' (OF_restrict lo _ _ Ad) Eb) as (Fc' & Eb' & Ac).
      destruct (IHl _ _ _ _ _ _ E2 (OH_snoc _ _ _ _ Oa Ac)) as (Hb' & Xb & Ob).
      destruct (IHe _ _ _ _ _ _ _ E3 Ob) as (v' & Hc' & Xc & V & Oc).
      rewrite Xa, Ed', Eb', (OH_length _ _ Oa), Xb, Xc. eauto.
  - intros fid H s H1 t H' X O. destruct s as [p e|e|tst fb tb|name lo ps body ret]; cbn [copt1].
    + rewrite cexec1_S_assign in X.
      destruct (peval m fid H e) as [[[v Ha] ta]|] eqn:E1; [|discriminate]. inversion X; subst.
      destruct (IHe _ _ _ _ _ _ _ E1 O) as (v' & Ha' & Xa & V & Oa).
      exists (set_frame Ha' fid p v'). split; [apply cexec_single; rewrite cexec1_S_assign, Xa; reflexivity|].
      apply OH_set; assumption.
    + rewrite cexec1_S_expr in X.
      destruct (peval m fid H e) as [[[v Ha] ta]|] eqn:E1; [|discriminate]. inversion X; subst.
      destruct (atomic e) eqn:At.
      * destruct (atomic_eval _ _ _ _ _ _ _ At E1) as [-> ->]. exists H'. split; [reflexivity|exact O].
      * destruct (IHe _ _ _ _ _ _ _ E1 O) as (v' & Ha' & Xa & V & Oa).
        exists Ha'. split; [apply cexec_single; rewrite cexec1_S_expr, Xa; reflexivity|exact Oa].
    + rewrite cexec1_S_if in X. destruct (frame_get H fid tst) as [v|] eqn:Et; [|discriminate].
      destruct (OH_get _ _ _ _ _ O Et) as (v' & Et' & V).
      destruct (IHl _ _ _ _ _ _ X O) as (H1' & Xb & Ob).
      fold (copt fb). fold (copt tb).
      assert (Gen : cexec (S m) fid H' [SIf tst (copt fb) (copt tb)] = Some (H1', t)).
      { apply cexec_single. rewrite cexec1_S_if, Et', (OV_falsey _ _ V).
        destruct (pfalsey v); exact Xb. }
      destruct (copt fb) as [|f1 fr] eqn:Ofb, (copt tb) as [|t1 tr] eqn:Otb; try (exists H1'; split; [exact Gen|exact Ob]).
      (* both branches are empty: the statement is dropped *)
      assert (Xn : cexec m fid H' [] = Some (H1', t)) by (destruct (pfalsey v); [rewrite Ofb in Xb|rewrite Otb in Xb]; exact Xb).
      rewrite cexec_nil in Xn. inversion Xn; subst. exists H1'. split; [reflexivity|exact Ob].
    + rewrite cexec1_S_def in X. inversion X; subst. fold (copt body).
      exists (set_frame H' fid name (PVClo lo ps (copt body) ret fid)).
      split; [apply cexec_single; rewrite cexec1_S_def; reflexivity|].
      apply OH_set; [exact O|constructor].
Qed.

Theorem copt_stmts_preserve m fid l H H1 t H' :
  cexec m fid H l = Some (H1, t) -> OH H H' -> exists H1', cexec m fid H' (copt l) = Some (H1', t) /\ OH H1 H1'.
Proof. apply (sim_l_of m (proj2 (copt_sim m))). Qed.

Definition crun_opt (fuel : nat) (e : cexpr) : option (obs * trace) :=
  let '(d, pe, _, _) := cgen (fun _ => None) 0 e in
  match cexec fuel 0%nat [fun _ => None] (copt d) with
  | Some (H1, t1) =>
      match peval fuel 0%nat H1 pe with Some (v, _, t2) => Some (pobs_of v, t1 ++ t2) | None => None end
  | None => None
  end.

Lemma crun_opt_of fuel e r : crun fuel e = Some r -> crun_opt fuel e = Some r.
Proof.
  unfold crun, crun_opt. destruct (cgen (fun _ => None) 0 e) as [[[d pe] n'] k].
  destruct (cexec fuel 0%nat [fun _ => None] d) as [[H1 t1]|] eqn:E; [|discriminate].
  assert (O0 : OH [fun _ => None] [fun _ => None]) by (constructor; [intro p; exact I|constructor]).
  destruct (copt_stmts_preserve _ _ _ _ _ _ _ E O0) as (H1' & X & O1). rewrite X.
  destruct (peval fuel 0%nat H1 pe) as [[[v H2] t2]|] eqn:P; [|discriminate].
  destruct (proj1 (copt_sim fuel) _ _ _ _ _ _ _ P O1) as (v' & H2' & P' & V & _). rewrite P', (OV_obs _ _ V). auto.
Qed.

Theorem optimized_closures_compile_correct fuel e v tr :
  ceval fuel [] e = Some (v, tr) -> hazard_free e = true ->
  exists m, forall m', (m <= m')%nat -> crun_opt m' e = Some (obs_of v, tr).
Proof.
  intros He Hh. destruct (ccompile_correct fuel e v tr He Hh) as [m Hm].
  exists m. intros m' L. apply crun_opt_of. apply Hm. exact L.
Qed.

(** the rule fires inside a function body: (fn* [x] (do 1 x)) *)
Example copt_nonvacuous :
  let '(d, _, _, _) := cgen (fun _ => None) 0%N (CFn None [0%N] (CDo (CConst (KInt 1)) (CLocal 0%N))) in copt d <> d.
Proof. vm_compute. discriminate. Qed.
