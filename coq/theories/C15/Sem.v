(** Semantic preservation of the statement-level rewrites on the first-order Python subset
    of C01/Py.v (assignments, expression statements, the nil/false `if`): dropping bare
    constant/name statements and `if`s whose branches are both empty yields the same frame
    and the same effect trace whenever the unoptimised code runs (i.e. raises no NameError),
    and therefore the compile-correctness theorem of C01 carries over to optimised code. *)
From Coq Require Import List ZArith NArith Bool Lia.
Import ListNotations.
From Verif Require Import C01.Lisp C01.Py C01.Gen C01.Sim C01.Top.

Definition droppable (e : pexpr) : bool := match e with PConst _ | PName _ => true | PCall _ _ => false end.

Definition opt_with (o1 : stmt -> list stmt) : list stmt -> list stmt :=
  fix go (l : list stmt) : list stmt := match l with [] => [] | s :: r => o1 s ++ go r end.

(** one statement becomes zero or one statements *)
Fixpoint opt1 (s : stmt) : list stmt :=
  match s with
  | SAssign _ _ => [s]
  | SExpr e => if droppable e then [] else [s]
  | SIf t fb tb =>
      match opt_with opt1 fb, opt_with opt1 tb with
      | [], [] => []
      | fb', tb' => [SIf t fb' tb']
      end
  end.
Definition opt_stmts := opt_with opt1.

Fixpoint ssize (s : stmt) : nat :=
  match s with
  | SIf _ fb tb =>
      S ((fix go (l : list stmt) : nat := match l with [] => 0 | x :: r => ssize x + go r end) fb
         + (fix go (l : list stmt) : nat := match l with [] => 0 | x :: r => ssize x + go r end) tb)
  | _ => 1
  end.
Fixpoint ssizes (l : list stmt) : nat := match l with [] => 0 | x :: r => ssize x + ssizes r end.

Lemma ssize_if t fb tb : ssize (SIf t fb tb) = S (ssizes fb + ssizes tb).
Proof. reflexivity. Qed.

Lemma droppable_exec F e v t : droppable e = true -> peval F e = Some (v, t) -> t = [].
Proof.
  destruct e as [c|p|f args]; simpl; try discriminate; intros _ H.
  - inversion H; reflexivity.
  - destruct (F p); inversion H; reflexivity.
Qed.

Lemma opt_preserves : forall n,
  (forall s, ssize s <= n -> forall F F' t, exec1 F s = Some (F', t) -> exec F (opt1 s) = Some (F', t)) /\
  (forall l, ssizes l <= n -> forall F F' t, exec F l = Some (F', t) -> exec F (opt_stmts l) = Some (F', t)).
Proof.
  induction n as [|n [IH1 IH2]].
  - split.
    + intros s Hs. destruct s; simpl in Hs; lia.
    + intros [|s r] Hl F F' t H; [exact H|]. simpl in Hl. destruct s; simpl in Hl; lia.
  - assert (S1 : forall s, ssize s <= S n -> forall F F' t, exec1 F s = Some (F', t) -> exec F (opt1 s) = Some (F', t)).
    { intros s Hs F F' t H. destruct s as [x e|e|tst fb tb].
      - cbn [opt1]. rewrite exec_cons, H, exec_nil, app_nil_r. reflexivity.
      - cbn [opt1]. destruct (droppable e) eqn:D.
        + rewrite exec1_expr in H. destruct (peval F e) as [[v t']|] eqn:E; [|discriminate].
          inversion H; subst. rewrite (droppable_exec _ _ _ _ D E). reflexivity.
        + rewrite exec_cons, H, exec_nil, app_nil_r. reflexivity.
      - rewrite ssize_if in Hs. rewrite exec1_if in H.
        destruct (F tst) as [v|] eqn:Ft; [|discriminate].
        assert (Hb : exec F (opt_stmts (if falsey v then fb else tb)) = Some (F', t)).
        { apply IH2; [destruct (falsey v); lia|exact H]. }
        cbn [opt1]. fold (opt_stmts fb). fold (opt_stmts tb).
        destruct (opt_stmts fb) as [|f1 fr] eqn:Ofb, (opt_stmts tb) as [|t1 tr] eqn:Otb.
        + destruct (falsey v); [rewrite Ofb in Hb|rewrite Otb in Hb]; exact Hb.
        + rewrite exec_cons, exec1_if, Ft. destruct (falsey v); [rewrite Ofb in Hb|rewrite Otb in Hb];
            rewrite Hb, exec_nil, app_nil_r; reflexivity.
        + rewrite exec_cons, exec1_if, Ft. destruct (falsey v); [rewrite Ofb in Hb|rewrite Otb in Hb];
            rewrite Hb, exec_nil, app_nil_r; reflexivity.
        + rewrite exec_cons, exec1_if, Ft. destruct (falsey v); [rewrite Ofb in Hb|rewrite Otb in Hb];
            rewrite Hb, exec_nil, app_nil_r; reflexivity. }
    split; [exact S1|].
    intros l. induction l as [|s r IHl]; intros Hl F F' t H; [exact H|].
    simpl in Hl. rewrite exec_cons in H.
    destruct (exec1 F s) as [[F1 t1]|] eqn:E1; [|discriminate].
    destruct (exec F1 r) as [[F2 t2]|] eqn:E2; [|discriminate]. inversion H; subst.
    unfold opt_stmts. cbn [opt_with]. fold opt_stmts.
    rewrite exec_app. rewrite (S1 s ltac:(lia) F F1 t1 E1).
    rewrite (IHl ltac:(lia) F1 F' t2 E2). reflexivity.
Qed.

Theorem opt_stmts_preserves l F F' t : exec F l = Some (F', t) -> exec F (opt_stmts l) = Some (F', t).
Proof. apply (proj2 (opt_preserves (ssizes l)) l (le_n _)). Qed.

(** compile, optimise, run *)
Definition run_opt (e : expr) : option (value * trace) :=
  let '(d, pe, _, _) := gen (fun _ => None) 0 e in
  match exec (fun _ => None) (opt_stmts d) with
  | Some (F, t1) => match peval F pe with Some (v, t2) => Some (v, t1 ++ t2) | None => None end
  | None => None
  end.

Theorem optimized_compile_correct e v tr :
  eval (fun _ => None) e = Some (v, tr) -> hazard_free e = true -> run_opt e = Some (v, tr).
Proof.
  intros He Hh. pose proof (compile_correct e v tr He Hh) as R.
  unfold run, run_opt in *.
  destruct (gen (fun _ => None) 0 e) as [[[d pe] n'] k].
  destruct (exec (fun _ => None) d) as [[F t1]|] eqn:E; [|discriminate].
  rewrite (opt_stmts_preserves _ _ _ _ E). exact R.
Qed.

(** the rewrite really fires on generated code: (do (if (t 1) 2 3) 4) has a droppable
    statement *)
Example opt_nonvacuous :
  let e := EDo (EConst (VInt 2)) (ECall PTrace [EConst (VInt 4)]) in
  let '(d, _, _, _) := gen (fun _ => None) 0 e in
  length (opt_stmts d) < length d.
Proof. vm_compute. lia. Qed.
