(** Model of PythonASTOptimizer (compiler/optimizer.py) on generic trees: a transcription
    of ast.NodeTransformer.generic_visit (fields in order, [None] results dropped from
    list fields) and of the eight visit_ methods, driven by the tables regenerated from the
    source (Gen/Tables.v: operator dictionaries, terminator kinds, droppable expression
    kinds, which visitors open a new `global` context, operand order of `contains`,
    ==-for-is rule).  State = stack of `global` contexts, as in the source. *)
From Coq Require Import List NArith Bool.
Import ListNotations.
From Verif Require Import C15.Tree Gen.Tables.
Local Open Scope N_scope.

Fixpoint assoc {A} (l : list (N * A)) (k : N) : option A :=
  match l with [] => None | (k', a) :: r => if N.eqb k k' then Some a else assoc r k end.

Definition is_term (t : tree) : bool :=
  match t with Nd tg _ => mem tg opt_terminators | At _ => false end.

(** _filter_dead_code *)
Fixpoint filter_dead (l : list tree) : list tree :=
  match l with
  | [] => []
  | x :: r => if is_term x then [x] else x :: filter_dead r
  end.

Definition filter_body (t : tree) : tree :=
  match t with
  | Nd tg items => if N.eqb tg T_LIST then Nd T_LIST (filter_dead items) else t
  | _ => t
  end.

Definition items_of (t : tree) : list tree :=
  match t with Nd tg items => if N.eqb tg T_LIST then items else [] | _ => [] end.

Definition none_node : tree := Nd T_NONE [].

(** _needs_eq_operator: a Constant whose value is not one of True/False/None/Ellipsis *)
Definition needs_eq (t : tree) : bool :=
  match t with
  | Nd tg [At _; At single] => N.eqb tg T_Constant && N.eqb single 0
  | _ => false
  end.

(** is the callee `operator_alias.<attr>` ?  returns the attr hash *)
Definition operator_attr (func : tree) : option N :=
  match func with
  | Nd tg [Nd tn [At nm; _]; At attr; _] =>
      if N.eqb tg T_Attribute && N.eqb tn T_Name && N.eqb nm H_OPERATOR then Some attr else None
  | _ => None
  end.


(** _optimize_operator_call_attr applied to the (already visited) Call node *)
Definition optimize_call (func args keywords : tree) : tree :=
  let same := Nd T_Call [func; args; keywords] in
  match operator_attr func with
  | None => same
  | Some attr =>
      match assoc opt_binops attr, items_of args with
      | Some op, [a1; a2] => Nd T_BinOp [a1; Nd op []; a2]
      | Some _, _ => same
      | None, _ =>
      match assoc opt_unaryops attr, items_of args with
      | Some op, [a1] => Nd T_UnaryOp [Nd op []; a1]
      | Some _, _ => same
      | None, _ =>
      match assoc opt_compareops attr, items_of args with
      | Some op, [a1; a2] => Nd T_Compare [a1; Nd T_LIST [Nd op []]; Nd T_LIST [a2]]
      | Some _, _ => same
      | None, _ =>
      match assoc opt_isops attr, items_of args with
      | Some (isop, eqop), [a1; a2] =>
          let op := if opt_is_uses_eq && (needs_eq a1 || needs_eq a2) then eqop else isop in
          Nd T_Compare [a1; Nd T_LIST [Nd op []]; Nd T_LIST [a2]]
      | Some _, _ => same
      | None, _ =>
      if N.eqb attr H_contains then
        match items_of args with
        | [a1; a2] =>
            if opt_contains_swapped then Nd T_Compare [a2; Nd T_LIST [Nd T_In []]; Nd T_LIST [a1]]
            else Nd T_Compare [a1; Nd T_LIST [Nd T_In []]; Nd T_LIST [a2]]
        | _ => same
        end
      else if N.eqb attr H_delitem && opt_has_delitem then
        match items_of args with
        | [target; index] => Nd T_Delete [Nd T_LIST [Nd T_Subscript [target; index; Nd T_Del []]]]
        | _ => same
        end
      else if N.eqb attr H_getitem && opt_has_getitem then
        match items_of args with
        | [target; index] => Nd T_Subscript [target; index; Nd T_Load []]
        | _ => same
        end
      else same
      end end end end
  end.

Definition gstack := list (list N).

Definition top (g : gstack) : list N := match g with s :: _ => s | [] => [] end.
Definition set_top (g : gstack) (s : list N) : gstack := match g with _ :: r => s :: r | [] => [s] end.

Definition atoms_of (l : list tree) : list N :=
  flat_map (fun t => match t with At h => [h] | _ => [] end) l.

(** generic_visit over the children, threading the context stack; [None] = removed *)
Definition visit_kids (visit : tree -> gstack -> option tree * gstack)
  : list tree -> gstack -> list (option tree) * gstack :=
  fix go (l : list tree) (g : gstack) :=
    match l with
    | [] => ([], g)
    | x :: r =>
        let '(x', g1) := visit x g in
        let '(r', g2) := go r g1 in
        (x' :: r', g2)
    end.

Definition keep_some (l : list (option tree)) : list tree :=
  flat_map (fun o => match o with Some t => [t] | None => [] end) l.
Definition none_to_node (l : list (option tree)) : list tree :=
  map (fun o => match o with Some t => t | None => none_node end) l.

Fixpoint visit (t : tree) (g : gstack) : option tree * gstack :=
  match t with
  | At _ => (Some t, g)
  | Nd tg kids =>
      if N.eqb tg T_Expr then
        (* visit_Expr: drop a bare constant/name; otherwise return the node WITHOUT visiting it *)
        match kids with
        | [Nd vt _] => if mem vt opt_expr_droppable then (None, g) else (Some t, g)
        | _ => (Some t, g)
        end
      else if N.eqb tg T_Global then
        (* visit_Global *)
        match kids with
        | [Nd _ names] =>
            let ns := atoms_of names in
            let fresh := filter (fun n => negb (mem n (top g))) ns in
            let g' := set_top g (fresh ++ top g) in
            match fresh with
            | [] => (None, g')
            | _ => (Some (Nd T_Global [Nd T_LIST (map At fresh)]), g')
            end
        | _ => (Some t, g)
        end
      else
        let opens := mem tg opt_ctx_openers in
        let '(ks, g1) := visit_kids visit kids (if opens then (if opt_ctx_fresh then [] else top g) :: g else g) in
        let g2 := if opens then tl g1 else g1 in
        let ks' := if N.eqb tg T_LIST then keep_some ks else none_to_node ks in
        if N.eqb tg T_Call then
          match ks' with
          | [func; args; keywords] => (Some (optimize_call func args keywords), g2)
          | _ => (Some (Nd tg ks'), g2)
          end
        else if N.eqb tg T_ExceptHandler then
          match ks' with
          | [ty; nm; body] => (Some (Nd tg [ty; nm; filter_body body]), g2)
          | _ => (Some (Nd tg ks'), g2)
          end
        else if N.eqb tg T_FunctionDef then
          match ks' with
          | [nm; args; body; decos; returns; _; _] =>
              (Some (Nd tg [nm; args; filter_body body; decos; returns; none_node; Nd T_LIST []]), g2)
          | _ => (Some (Nd tg ks'), g2)
          end
        else if N.eqb tg T_If then
          match ks' with
          | [test; body; orelse] =>
              let nb := filter_dead (items_of body) in
              let no := filter_dead (items_of orelse) in
              match nb, no with
              | _ :: _, _ => (Some (Nd tg [test; Nd T_LIST nb; Nd T_LIST no]), g2)
              | [], _ :: _ => (Some (Nd tg [Nd T_UnaryOp [Nd T_Not []; test]; Nd T_LIST no; Nd T_LIST []]), g2)
              | [], [] => (None, g2)
              end
          | _ => (Some (Nd tg ks'), g2)
          end
        else if N.eqb tg T_While then
          match ks' with
          | [test; body; orelse] => (Some (Nd tg [test; filter_body body; filter_body orelse]), g2)
          | _ => (Some (Nd tg ks'), g2)
          end
        else if N.eqb tg T_Try then
          match ks' with
          | [body; handlers; orelse; fin] =>
              (* a `finally` clause of which nothing is left stays as `pass` when the statement has
                 no handlers either (Python rejects a try with neither) *)
              let fin' :=
                match filter_dead (items_of fin), items_of handlers with
                | [], [] => if opt_try_keeps_finally then Nd T_LIST [Nd T_Pass []] else filter_body fin
                | _, _ => filter_body fin
                end in
              (Some (Nd tg [filter_body body; handlers; filter_body orelse; fin']), g2)
          | _ => (Some (Nd tg ks'), g2)
          end
        else (Some (Nd tg ks'), g2)
  end.

(** the pass applied to one Module with a fresh optimizer *)
Definition opt (t : tree) : tree :=
  match visit t [[]] with
  | (Some t', _) => t'
  | (None, _) => none_node
  end.
