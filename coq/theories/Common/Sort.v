(** A stable insertion sort and the contract basilisp's [sort]/[sort-by] promise:
    ordered permutation, stable for ties, independent of input order for distinct keys.
    Python's [sorted] (TimSort) is *modelled* by this function: any stable sort returns
    the same list whenever [lt] is a strict weak order (theorem [sorted_stable_unique]). *)
From Coq Require Import List Bool Permutation Sorted Lia.
Import ListNotations.
From Verif Require Import Common.Order.

Section Sort.
  Context {A : Type}.
  Variable P : A -> Prop.
  Variable lt eqb : A -> A -> bool.

  Fixpoint insert (x : A) (l : list A) : list A :=
    match l with
    | [] => [x]
    | y :: r => if lt y x then y :: insert x r else x :: l
    end.

  Definition sort (l : list A) : list A := fold_right insert [] l.

  Lemma insert_perm x l : Permutation (insert x l) (x :: l).
  Proof.
    induction l as [|y r IH]; simpl; [reflexivity|].
    destruct (lt y x); [|reflexivity].
    rewrite IH. apply perm_swap.
  Qed.

  Theorem sort_perm l : Permutation (sort l) l.
  Proof.
    induction l as [|x r IH]; simpl; [constructor|].
    rewrite insert_perm. constructor. exact IH.
  Qed.

  Lemma insert_Forall (Q : A -> Prop) x l : Q x -> Forall Q l -> Forall Q (insert x l).
  Proof.
    intros Qx Ql. eapply Permutation_Forall; [symmetry; apply insert_perm|]. constructor; auto.
  Qed.

  Lemma sort_Forall (Q : A -> Prop) l : Forall Q l -> Forall Q (sort l).
  Proof. intro Ql. eapply Permutation_Forall; [symmetry; apply sort_perm|]. exact Ql. Qed.

  Hypothesis H : swo P lt eqb.

  (** [ord a b]: b may follow a in sorted output. *)
  Definition ord (a b : A) : Prop := lt b a = false.

  Lemma ord_of_lt a b : P a -> P b -> lt a b = true -> ord a b.
  Proof. intros. unfold ord. apply (swo_asym H); auto. Qed.

  Lemma ord_trans a b c : P a -> P b -> P c -> ord a b -> ord b c -> ord a c.
  Proof.
    unfold ord. intros Pa Pb Pc A1 A2.
    destruct (lt c a) eqn:E; [|reflexivity].
    (* c < a, not b < a, so a ~ b or a < b; not c < b *)
    destruct (lt a b) eqn:Eab.
    - rewrite (swo_trans H c a b) in A2; auto.
    - assert (Eq : eqb a b = true) by (apply (swo_eq H); auto).
      rewrite (swo_lt_eq_r P lt eqb H c a b) in A2; auto.
  Qed.

  Lemma insert_sorted x l : P x -> Forall P l ->
    StronglySorted ord l -> StronglySorted ord (insert x l).
  Proof.
    intros Px Pl S. induction S as [|y r S IH F]; simpl.
    - repeat constructor.
    - inversion Pl as [|? ? Py Pr]; subst.
      destruct (lt y x) eqn:E.
      + constructor; [apply IH; auto|].
        apply insert_Forall; [apply ord_of_lt; auto|exact F].
      + constructor; [constructor; auto|].
        constructor; [exact E|].
        rewrite Forall_forall in *. intros z Hz.
        apply (ord_trans x y z); auto.
  Qed.

  Theorem sort_sorted l : Forall P l -> StronglySorted ord (sort l).
  Proof.
    induction l as [|x r IH]; simpl; intro Pl; [constructor|].
    inversion Pl; subst. apply insert_sorted; auto. apply sort_Forall; auto.
  Qed.

  (** Stability: the sub-list of elements equivalent to [x] keeps its input order. *)
  Lemma insert_filter x a l : P x -> P a -> Forall P l -> StronglySorted ord l ->
    filter (eqb x) (insert a l) = if eqb x a then a :: filter (eqb x) l else filter (eqb x) l.
  Proof.
    intros Px Pa Pl S. induction S as [|y r S IH F]; simpl.
    - destruct (eqb x a); reflexivity.
    - inversion Pl as [|? ? Py Pr]; subst.
      destruct (lt y a) eqn:E; simpl.
      + rewrite IH by auto.
        destruct (eqb x a) eqn:Exa; [|reflexivity].
        (* y < a ~ x  hence  x and y are not equivalent *)
        assert (L : lt y x = true).
        { apply (swo_lt_eq_r P lt eqb H y a x); auto. apply (swo_eq_sym P lt eqb H); auto. }
        destruct (eqb x y) eqn:Exy; [|reflexivity].
        apply (swo_eq H) in Exy; auto. destruct Exy; congruence.
      + destruct (eqb x a); reflexivity.
  Qed.

  Theorem sort_stable x l : P x -> Forall P l -> filter (eqb x) (sort l) = filter (eqb x) l.
  Proof.
    intros Px. induction l as [|a r IH]; simpl; intro Pl; [reflexivity|].
    inversion Pl; subst.
    rewrite insert_filter; auto using sort_Forall, sort_sorted.
    rewrite IH by auto. reflexivity.
  Qed.

  (** Uniqueness: a list sorted by [ord] whose elements are pairwise inequivalent is
      determined by its multiset.  ([distinct] = no two positions hold equivalent keys.) *)
  Definition distinct (l : list A) : Prop := ForallOrdPairs (fun a b => eqb a b = false) l.

  Lemma distinct_perm l1 l2 : Forall P l1 -> Permutation l1 l2 -> distinct l1 -> distinct l2.
  Proof.
    intros Pl Hp. induction Hp as [|x l l' Hp IH|x y l|l l' l'' Hp1 IH1 Hp2 IH2]; intro D.
    - constructor.
    - inversion D; subst. inversion Pl; subst. constructor; [|apply IH; auto].
      eapply Permutation_Forall; eauto.
    - inversion D as [|? ? F1 D1]; subst. inversion D1 as [|? ? F2 D2]; subst.
      inversion F1; subst. inversion Pl as [|? ? Py Pl']; subst. inversion Pl'; subst.
      constructor; [constructor|constructor]; auto.
      destruct (eqb x y) eqn:E; [|reflexivity].
      apply (swo_eq_sym P lt eqb H) in E; auto. congruence.
    - apply IH2; [eapply Permutation_Forall; eauto|]. apply IH1; auto.
  Qed.

  Lemma sorted_head_min x l y : StronglySorted ord (x :: l) -> In y (x :: l) -> y = x \/ ord x y.
  Proof.
    intros S [E|I]; [left; auto|right].
    inversion S as [|? ? _ F]; subst. rewrite Forall_forall in F. auto.
  Qed.

  Theorem sorted_distinct_unique : forall l1 l2,
    Forall P l1 -> Permutation l1 l2 -> distinct l1 ->
    StronglySorted ord l1 -> StronglySorted ord l2 -> l1 = l2.
  Proof.
    induction l1 as [|x r1 IH]; intros l2 Pl Hp D S1 S2.
    - apply Permutation_nil in Hp. auto.
    - destruct l2 as [|y r2]; [apply Permutation_sym, Permutation_nil in Hp; discriminate|].
      assert (Pl2 : Forall P (y :: r2)) by (apply (Permutation_Forall Hp Pl)).
      assert (D2 : distinct (y :: r2)) by (apply (distinct_perm _ _ Pl Hp D)).
      assert (Exy : x = y).
      { assert (I1 : In x (y :: r2)) by (apply (Permutation_in _ Hp); left; reflexivity).
        assert (I2 : In y (x :: r1)) by (apply (Permutation_in _ (Permutation_sym Hp)); left; reflexivity).
        destruct I2 as [E2|I2]; [auto|].
        destruct (sorted_head_min _ _ _ S2 I1) as [E|O1]; auto.
        assert (O2 : ord x y).
        { inversion S1 as [|? ? _ F]; subst. rewrite Forall_forall in F. auto. }
        exfalso. unfold ord in *.
        inversion Pl; subst. inversion Pl2; subst.
        assert (E : eqb x y = true) by (apply (swo_eq H); auto).
        inversion D as [|? ? F _]; subst. rewrite Forall_forall in F. specialize (F _ I2). congruence. }
      subst y. f_equal. apply IH.
      + inversion Pl; auto.
      + eapply Permutation_cons_inv; eauto.
      + inversion D; auto.
      + inversion S1; auto.
      + inversion S2; auto.
  Qed.

  Corollary sort_input_order_independent l1 l2 :
    Forall P l1 -> distinct l1 -> Permutation l1 l2 -> sort l1 = sort l2.
  Proof.
    intros Pl D Hp.
    assert (Pl2 : Forall P l2) by (apply (Permutation_Forall Hp Pl)).
    apply sorted_distinct_unique.
    - apply sort_Forall; auto.
    - rewrite sort_perm, Hp. symmetry. apply sort_perm.
    - eapply distinct_perm; [exact Pl| |exact D]. symmetry. apply sort_perm.
    - apply sort_sorted; auto.
    - apply sort_sorted; auto.
  Qed.

  (** Any function meeting the stable-sort contract agrees with [sort] (so CPython's
      TimSort, assumed to meet it, returns what the model returns). *)
  Theorem sorted_stable_unique : forall l l',
    Forall P l -> Permutation l' l -> StronglySorted ord l' ->
    distinct l -> l' = sort l.
  Proof.
    intros l l' Pl Hp S D.
    assert (Pl' : Forall P l') by (apply (Permutation_Forall (Permutation_sym Hp) Pl)).
    apply sorted_distinct_unique; auto.
    - rewrite Hp. symmetry. apply sort_perm.
    - eapply distinct_perm; [exact Pl| |exact D]. symmetry; auto.
    - apply sort_sorted; auto.
  Qed.
End Sort.
