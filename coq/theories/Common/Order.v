(** Strict weak orders presented by boolean functions, the three-way comparison derived
    from them the way basilisp's [compare] derives it from Python's [<] and [>], and the
    lifting to "shorter first, then lexicographic" vectors. *)
From Coq Require Import List Bool ZArith Lia Arith.
Import ListNotations.

Definition b2z (b : bool) : Z := if b then 1%Z else 0%Z.

Section SWO.
  Context {A : Type}.
  Variable P : A -> Prop.          (* the family *)
  Variable lt eqb : A -> A -> bool.

  (** [lt] is a strict weak order on [P] whose incomparability relation is [eqb]. *)
  Record swo : Prop := {
    swo_trans : forall x y z, P x -> P y -> P z -> lt x y = true -> lt y z = true -> lt x z = true;
    swo_eq    : forall x y, P x -> P y -> (eqb x y = true <-> (lt x y = false /\ lt y x = false));
    swo_eqtrans : forall x y z, P x -> P y -> P z -> eqb x y = true -> eqb y z = true -> eqb x z = true;
    swo_asym : forall x y, P x -> P y -> lt x y = true -> lt y x = false;
  }.

  Hypothesis H : swo.

  Lemma swo_irrefl x : P x -> lt x x = false.
  Proof. intro Px. destruct (lt x x) eqn:E; [|reflexivity]. rewrite (swo_asym H x x Px Px E) in E. discriminate. Qed.

  Lemma swo_eq_refl x : P x -> eqb x x = true.
  Proof. intro Px. apply (swo_eq H); auto using swo_irrefl. Qed.

  Lemma swo_eq_sym x y : P x -> P y -> eqb x y = true -> eqb y x = true.
  Proof. intros Px Py E. apply (swo_eq H) in E; auto. apply (swo_eq H); tauto. Qed.

  Lemma swo_lt_eq_l x y z : P x -> P y -> P z -> eqb x y = true -> lt y z = true -> lt x z = true.
  Proof.
    intros Px Py Pz E L. destruct (lt x z) eqn:Exz; [reflexivity|].
    destruct (lt z x) eqn:Ezx.
    - pose proof (swo_trans H _ _ _ Py Pz Px L Ezx) as T. apply (swo_eq H) in E; auto. destruct E as [_ E]. congruence.
    - assert (Ez : eqb x z = true) by (apply (swo_eq H); auto).
      assert (Eyz : eqb y z = true) by (eapply (swo_eqtrans H y x z); auto using swo_eq_sym).
      apply (swo_eq H) in Eyz; auto. destruct Eyz; congruence.
  Qed.

  Lemma swo_lt_eq_r x y z : P x -> P y -> P z -> lt x y = true -> eqb y z = true -> lt x z = true.
  Proof.
    intros Px Py Pz L E. destruct (lt x z) eqn:Exz; [reflexivity|].
    destruct (lt z x) eqn:Ezx.
    - pose proof (swo_trans H _ _ _ Pz Px Py Ezx L) as T. apply (swo_eq H) in E; auto. destruct E as [_ E]. congruence.
    - assert (Ez : eqb x z = true) by (apply (swo_eq H); auto).
      assert (Exy : eqb x y = true) by (eapply (swo_eqtrans H x z y); auto using swo_eq_sym).
      apply (swo_eq H) in Exy; auto. destruct Exy; congruence.
  Qed.

  (** Python: [x > y] as synthesised by functools.total_ordering from [__lt__] and [__eq__]. *)
  Definition gt_total (x y : A) : bool := negb (lt x y) && negb (eqb x y).
  (** Python: [x > y] for types with a native reflected comparison. *)
  Definition gt_native (x y : A) : bool := lt y x.

  Lemma gt_total_native x y : P x -> P y -> gt_total x y = gt_native x y.
  Proof.
    intros Px Py. unfold gt_total, gt_native.
    destruct (lt x y) eqn:L; simpl.
    - symmetry. apply (swo_asym H); auto.
    - destruct (eqb x y) eqn:E; simpl.
      + apply (swo_eq H) in E; auto. destruct E; congruence.
      + destruct (lt y x) eqn:L2; [reflexivity|].
        assert (eqb x y = true) by (apply (swo_eq H); auto). congruence.
  Qed.

  (** runtime.compare: [(x > y) - (x < y)]. *)
  Definition cmp3 (gt : A -> A -> bool) (x y : A) : Z := (b2z (gt x y) - b2z (lt x y))%Z.

  Section Laws.
    Variable gt : A -> A -> bool.
    Hypothesis Hgt : forall x y, P x -> P y -> gt x y = lt y x.

    Lemma cmp3_range x y : P x -> P y -> (cmp3 gt x y = -1 \/ cmp3 gt x y = 0 \/ cmp3 gt x y = 1)%Z.
    Proof.
      intros Px Py. unfold cmp3. rewrite Hgt by auto.
      destruct (lt y x) eqn:A1, (lt x y) eqn:A2; simpl; auto.
    Qed.

    Lemma cmp3_antisym x y : P x -> P y -> cmp3 gt x y = (- cmp3 gt y x)%Z.
    Proof. intros Px Py. unfold cmp3. rewrite !Hgt by auto. destruct (lt x y), (lt y x); reflexivity. Qed.

    Lemma cmp3_zero_iff x y : P x -> P y -> (cmp3 gt x y = 0%Z <-> eqb x y = true).
    Proof.
      intros Px Py. unfold cmp3. rewrite Hgt by auto. split.
      - intro E. apply (swo_eq H); auto.
        destruct (lt x y) eqn:A1, (lt y x) eqn:A2; simpl in E; try discriminate; auto.
        rewrite (swo_asym H x y) in A2; auto; discriminate.
      - intro E. apply (swo_eq H) in E; auto. destruct E as [E1 E2]. rewrite E1, E2. reflexivity.
    Qed.

    Lemma cmp3_lt_iff x y : P x -> P y -> (cmp3 gt x y = (-1)%Z <-> lt x y = true).
    Proof.
      intros Px Py. unfold cmp3. rewrite Hgt by auto.
      destruct (lt x y) eqn:A1, (lt y x) eqn:A2; simpl; split; intro E; try discriminate; auto.
      rewrite (swo_asym H x y) in A2; auto; discriminate.
    Qed.

    Lemma cmp3_trans_lt x y z : P x -> P y -> P z ->
      cmp3 gt x y = (-1)%Z -> cmp3 gt y z = (-1)%Z -> cmp3 gt x z = (-1)%Z.
    Proof.
      intros Px Py Pz. rewrite !cmp3_lt_iff by auto. apply (swo_trans H); auto.
    Qed.

    Lemma cmp3_trans_le x y z : P x -> P y -> P z ->
      (cmp3 gt x y <= 0)%Z -> (cmp3 gt y z <= 0)%Z -> (cmp3 gt x z <= 0)%Z.
    Proof.
      intros Px Py Pz A1 A2.
      destruct (cmp3_range x y Px Py) as [E1|[E1|E1]]; try lia;
      destruct (cmp3_range y z Py Pz) as [E2|[E2|E2]]; try lia.
      - rewrite (cmp3_trans_lt x y z); auto; lia.
      - apply cmp3_lt_iff in E1; auto. apply cmp3_zero_iff in E2; auto.
        assert (L : lt x z = true) by (apply (swo_lt_eq_r x y z); auto).
        apply cmp3_lt_iff in L; auto. lia.
      - apply cmp3_zero_iff in E1; auto. apply cmp3_lt_iff in E2; auto.
        assert (L : lt x z = true) by (apply (swo_lt_eq_l x y z); auto).
        apply cmp3_lt_iff in L; auto. lia.
      - apply cmp3_zero_iff in E1; auto. apply cmp3_zero_iff in E2; auto.
        assert (E : eqb x z = true) by (apply (swo_eqtrans H x y z); auto).
        apply cmp3_zero_iff in E; auto. lia.
    Qed.
  End Laws.
End SWO.
Arguments swo_trans {A P lt eqb}.
Arguments swo_eq {A P lt eqb}.
Arguments swo_eqtrans {A P lt eqb}.
Arguments swo_asym {A P lt eqb}.

(** Vectors: shorter first, otherwise the first strictly ordered pair decides
    (PersistentVector.__lt__); equality is same length and pointwise [eqb]. *)
Section Vec.
  Context {A : Type}.
  Variable P : A -> Prop.
  Variable lt eqb : A -> A -> bool.

  Fixpoint lex (l1 l2 : list A) : bool :=
    match l1, l2 with
    | x :: t1, y :: t2 => if lt x y then true else if lt y x then false else lex t1 t2
    | _, _ => false
    end.

  Definition vec_lt (l1 l2 : list A) : bool :=
    if Nat.eqb (length l1) (length l2) then lex l1 l2 else Nat.ltb (length l1) (length l2).

  Fixpoint all_eqb (l1 l2 : list A) : bool :=
    match l1, l2 with
    | [], [] => true
    | x :: t1, y :: t2 => eqb x y && all_eqb t1 t2
    | _, _ => false
    end.

  Definition vec_eqb (l1 l2 : list A) : bool :=
    if Nat.eqb (length l1) (length l2) then all_eqb l1 l2 else false.

  Hypothesis H : swo P lt eqb.
  Let PV (l : list A) : Prop := Forall P l.

  Lemma lex_trans : forall l1 l2 l3, PV l1 -> PV l2 -> PV l3 ->
    length l1 = length l2 -> length l2 = length l3 ->
    lex l1 l2 = true -> lex l2 l3 = true -> lex l1 l3 = true.
  Proof.
    induction l1 as [|x t1 IH]; intros [|y t2] [|z t3] P1 P2 P3 L1 L2; simpl in *; try discriminate; auto.
    inversion P1; inversion P2; inversion P3; subst. intros A1 A2.
    destruct (lt x y) eqn:Exy.
    - destruct (lt y z) eqn:Eyz.
      + rewrite (swo_trans H x y z); auto.
      + destruct (lt z y) eqn:Ezy; [discriminate|].
        assert (E : eqb y z = true) by (apply (swo_eq H); auto).
        rewrite (swo_lt_eq_r P lt eqb H x y z); auto.
    - destruct (lt y x) eqn:Eyx; [discriminate|].
      assert (E : eqb x y = true) by (apply (swo_eq H); auto).
      destruct (lt y z) eqn:Eyz.
      + rewrite (swo_lt_eq_l P lt eqb H x y z); auto.
      + destruct (lt z y) eqn:Ezy; [discriminate|].
        assert (E2 : eqb y z = true) by (apply (swo_eq H); auto).
        assert (E3 : eqb x z = true) by (apply (swo_eqtrans H x y z); auto).
        apply (swo_eq H) in E3; auto. destruct E3 as [E3 E4]. rewrite E3, E4.
        apply (IH t2 t3); auto; lia.
  Qed.

  Lemma lex_asym : forall l1 l2, PV l1 -> PV l2 -> lex l1 l2 = true -> lex l2 l1 = false.
  Proof.
    induction l1 as [|x t1 IH]; intros [|y t2] P1 P2; simpl; try discriminate; auto.
    inversion P1; inversion P2; subst.
    destruct (lt x y) eqn:Exy.
    - intros _. rewrite (swo_asym H x y); auto.
    - destruct (lt y x) eqn:Eyx; [discriminate|]. apply IH; auto.
  Qed.

  Lemma lex_eq : forall l1 l2, PV l1 -> PV l2 -> length l1 = length l2 ->
    (all_eqb l1 l2 = true <-> (lex l1 l2 = false /\ lex l2 l1 = false)).
  Proof.
    induction l1 as [|x t1 IH]; intros [|y t2] P1 P2 L; simpl in *; try discriminate; try tauto.
    inversion P1; inversion P2; subst. injection L as L.
    rewrite andb_true_iff, (swo_eq H x y), (IH t2) by auto.
    destruct (lt x y) eqn:Exy, (lt y x) eqn:Eyx; simpl; try tauto; intuition congruence.
  Qed.

  Lemma all_eqb_trans : forall l1 l2 l3, PV l1 -> PV l2 -> PV l3 ->
    all_eqb l1 l2 = true -> all_eqb l2 l3 = true -> all_eqb l1 l3 = true.
  Proof.
    induction l1 as [|x t1 IH]; intros [|y t2] [|z t3] P1 P2 P3; simpl; try discriminate; auto.
    inversion P1; inversion P2; inversion P3; subst.
    rewrite !andb_true_iff. intros [A1 A2] [B1 B2]. split.
    - apply (swo_eqtrans H x y z); auto.
    - apply (IH t2 t3); auto.
  Qed.

  Lemma all_eqb_length : forall l1 l2, all_eqb l1 l2 = true -> length l1 = length l2.
  Proof. induction l1 as [|x t IH]; intros [|y t2]; simpl; try discriminate; auto.
    intro E. apply andb_true_iff in E as [_ E]. f_equal; auto. Qed.

  Theorem vec_swo : swo PV vec_lt vec_eqb.
  Proof.
    constructor.
    - intros x y z Px Py Pz. unfold vec_lt.
      destruct (Nat.eqb_spec (length x) (length y)) as [E1|E1],
               (Nat.eqb_spec (length y) (length z)) as [E2|E2],
               (Nat.eqb_spec (length x) (length z)) as [E3|E3]; try lia;
        rewrite ?Nat.ltb_lt; try lia.
      apply lex_trans; auto.
    - intros x y Px Py. unfold vec_lt, vec_eqb. rewrite (Nat.eqb_sym (length y)).
      destruct (Nat.eqb_spec (length x) (length y)) as [E1|E1].
      + apply lex_eq; auto.
      + split; [discriminate|]. rewrite !Nat.ltb_ge. lia.
    - intros x y z Px Py Pz. unfold vec_eqb.
      destruct (Nat.eqb_spec (length x) (length y)) as [E1|E1]; [|discriminate].
      destruct (Nat.eqb_spec (length y) (length z)) as [E2|E2]; [|discriminate].
      destruct (Nat.eqb_spec (length x) (length z)) as [E3|E3]; [|lia].
      apply all_eqb_trans; auto.
    - intros x y Px Py. unfold vec_lt. rewrite (Nat.eqb_sym (length y)).
      destruct (Nat.eqb_spec (length x) (length y)) as [E1|E1].
      + apply lex_asym; auto.
      + rewrite Nat.ltb_lt, Nat.ltb_ge. lia.
  Qed.
End Vec.
