(** Correspondence runner: classifies each (case, implementation output) pair against the
    property's specification and against the Coq model of the code.
    code bit0 = implementation differs from spec; bit1 = implementation differs from model. *)
From Coq Require Import List NArith Bool.
Import ListNotations.

Inductive marker := VERIF_BEGIN | VERIF_END | VERIF_COUNT.

Section Run.
  Context {C O : Type}.
  Variable spec_ok : C -> O -> bool.
  Variable model : C -> O.
  Variable oeqb : O -> O -> bool.

  Definition code (c : C) (o : O) : N :=
    ((if spec_ok c o then 0 else 1) + (if oeqb (model c) o then 0 else 2))%N.

  Fixpoint run_from (i : N) (l : list (C * O)) : list (N * N) :=
    match l with
    | [] => []
    | (c, o) :: t =>
        let k := code c o in
        if N.eqb k 0 then run_from (N.succ i) t else (i, k) :: run_from (N.succ i) t
    end.

  Definition run := run_from 0%N.

  (** Variant with a defect tag computed by the model side (0 = none): reported as
      code + 4 * tag for the cases whose code is non-zero. *)
  Variable tag : C -> N.
  Fixpoint run_tagged_from (i : N) (l : list (C * O)) : list (N * N) :=
    match l with
    | [] => []
    | (c, o) :: t =>
        let k := code c o in
        if N.eqb k 0 then run_tagged_from (N.succ i) t
        else (i, (k + 4 * tag c)%N) :: run_tagged_from (N.succ i) t
    end.
  Definition run_tagged := run_tagged_from 0%N.
End Run.
