(** Small list utilities shared by the models: decidable equality helpers and
    lexicographic comparison of code-point strings (Python's str ordering). *)
From Coq Require Import List NArith ZArith Bool Lia.
Import ListNotations.

Fixpoint list_eqb {A} (eqb : A -> A -> bool) (l1 l2 : list A) : bool :=
  match l1, l2 with
  | [], [] => true
  | x :: t1, y :: t2 => eqb x y && list_eqb eqb t1 t2
  | _, _ => false
  end.

Lemma list_eqb_spec {A} (eqb : A -> A -> bool) :
  (forall x y, eqb x y = true <-> x = y) ->
  forall l1 l2, list_eqb eqb l1 l2 = true <-> l1 = l2.
Proof.
  intros H l1; induction l1 as [|x t1 IH]; intros [|y t2]; simpl; split; intro E;
    try reflexivity; try discriminate.
  - apply andb_true_iff in E as [E1 E2]. apply H in E1. apply IH in E2. congruence.
  - inversion E; subst. apply andb_true_iff; split; [apply H|apply IH]; reflexivity.
Qed.

Definition option_eqb {A} (eqb : A -> A -> bool) (a b : option A) : bool :=
  match a, b with
  | None, None => true
  | Some x, Some y => eqb x y
  | _, _ => false
  end.

Lemma option_eqb_spec {A} (eqb : A -> A -> bool) :
  (forall x y, eqb x y = true <-> x = y) ->
  forall a b, option_eqb eqb a b = true <-> a = b.
Proof.
  intros H [x|] [y|]; simpl; split; intro E; try reflexivity; try discriminate.
  - apply H in E; congruence.
  - inversion E; subst; apply H; reflexivity.
Qed.

(** Python string comparison: lexicographic on code points, a proper prefix is smaller. *)
Definition str := list N.

Fixpoint str_ltb (a b : str) : bool :=
  match a, b with
  | [], [] => false
  | [], _ :: _ => true
  | _ :: _, [] => false
  | x :: a', y :: b' => if N.ltb x y then true else if N.eqb x y then str_ltb a' b' else false
  end.

Definition str_eqb : str -> str -> bool := list_eqb N.eqb.

Lemma str_eqb_eq a b : str_eqb a b = true <-> a = b.
Proof. apply list_eqb_spec. intros; apply N.eqb_eq. Qed.

Lemma str_eqb_refl a : str_eqb a a = true.
Proof. apply str_eqb_eq; reflexivity. Qed.

Lemma str_ltb_irrefl a : str_ltb a a = false.
Proof. induction a as [|x a IH]; simpl; [reflexivity|]. rewrite N.ltb_irrefl, N.eqb_refl. exact IH. Qed.

Lemma str_ltb_trans a : forall b c, str_ltb a b = true -> str_ltb b c = true -> str_ltb a c = true.
Proof.
  induction a as [|x a IH]; intros [|y b] [|z c]; simpl; intros H1 H2; try discriminate; try reflexivity.
  destruct (N.ltb_spec x y), (N.ltb_spec y z), (N.ltb_spec x z); try reflexivity; try lia;
  destruct (N.eqb_spec x y), (N.eqb_spec y z), (N.eqb_spec x z); try discriminate; try lia.
  eapply IH; eassumption.
Qed.

Lemma str_ltb_total a : forall b, str_ltb a b = false -> str_ltb b a = false -> a = b.
Proof.
  induction a as [|x a IH]; intros [|y b]; simpl; intros H1 H2; try discriminate; try reflexivity.
  destruct (N.ltb_spec x y), (N.ltb_spec y x); try discriminate; try lia.
  destruct (N.eqb_spec x y), (N.eqb_spec y x); try discriminate; try lia.
  subst. f_equal. apply IH; assumption.
Qed.

Lemma str_ltb_asym a b : str_ltb a b = true -> str_ltb b a = false.
Proof.
  intro H. destruct (str_ltb b a) eqn:E; [|reflexivity].
  pose proof (str_ltb_trans _ _ _ H E) as T. rewrite str_ltb_irrefl in T. discriminate.
Qed.
