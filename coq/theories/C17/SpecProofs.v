From Coq Require Import List Bool ZArith QArith NArith Lia Permutation Sorted.
Import ListNotations.
From Verif Require Import Common.ListX Common.Order Common.Sort Gen.Prims Gen.Tables C17.Model C17.Spec C17.Proofs.

Lemma ref_same a b : Proofs.name_lt_ref a b = Spec.name_lt_ref a b.
Proof. reflexivity. Qed.

Lemma kw_lt_is_ref a b : kw_lt (fst a) (snd a) (fst b) (snd b) = Spec.name_lt_ref a b.
Proof. rewrite <- ref_same. apply kw_lt_ref. Qed.
Lemma sym_lt_is_ref a b : sym_lt (fst a) (snd a) (fst b) (snd b) = Spec.name_lt_ref a b.
Proof. rewrite <- ref_same. apply sym_lt_ref. Qed.

Lemma lex_ext {A} (f g : A -> A -> bool) : (forall a b, f a b = g a b) ->
  forall l1 l2, lex f l1 l2 = lex g l1 l2.
Proof.
  intros E. induction l1 as [|x t IH]; intros [|y t2]; simpl; auto.
  rewrite !E, IH. reflexivity.
Qed.

Lemma lt_is_ref t : forall a b, lt t a b = ref_lt t a b.
Proof.
  induction t as [| | | |t IH]; simpl; intros a b; auto.
  - apply kw_lt_is_ref.
  - apply sym_lt_is_ref.
  - unfold vec_lt. rewrite (lex_ext _ _ IH). reflexivity.
Qed.

Theorem compare_is_ref t x y : compare t x y = ref_compare t x y.
Proof.
  destruct x as [a|], y as [b|]; simpl; auto.
  unfold cmp3. rewrite gt_is_lt_flip, <- !lt_is_ref.
  destruct (lt t a b) eqn:A.
  - rewrite (swo_asym (family_swo t) a b I I A). reflexivity.
  - destruct (lt t b a); reflexivity.
Qed.

Theorem any_stable_sort_agrees t l l' :
  Permutation l' l -> StronglySorted (Sort.ord (key_lt t)) l' ->
  Sort.distinct (key_eqb t) l -> l' = sort t l.
Proof.
  intros Hp S D.
  apply (Sort.sorted_stable_unique _ _ _ (key_swo t) l l' (FT l) Hp S); auto.
Qed.

Example nonvacuous :
  sort TKw [Some (Some [98%N], [97%N]); Some (Some [97%N], [98%N]); Some (None, [122%N]); None]
  = [None; Some (None, [122%N]); Some (Some [97%N], [98%N]); Some (Some [98%N], [97%N])].
Proof. vm_compute. reflexivity. Qed.
