(** C17 specification: the reference order of each family, written without reference to
    the code: numbers by value, strings by code point, keywords/symbols un-namespaced
    first then by namespace then by name, vectors shorter-first then lexicographic;
    nil below everything.  [sort] must return the stable ordered permutation. *)
From Coq Require Import List Bool ZArith QArith NArith.
Import ListNotations.
From Verif Require Import Common.ListX Common.Order C17.Model.

Definition name_lt_ref (a b : name) : bool :=
  match fst a, fst b with
  | None, None => str_ltb (snd a) (snd b)
  | None, Some _ => true
  | Some _, None => false
  | Some n1, Some n2 => str_ltb n1 n2 || (str_eqb n1 n2 && str_ltb (snd a) (snd b))
  end.

Fixpoint ref_lt (t : ty) : val t -> val t -> bool :=
  match t with
  | TNum => Qltb
  | TStr => str_ltb
  | TKw => name_lt_ref
  | TSym => name_lt_ref
  | TVec t' => vec_lt (ref_lt t')
  end.

Definition ref_compare (t : ty) (x y : option (val t)) : Z :=
  match x, y with
  | None, None => 0
  | None, Some _ => -1
  | Some _, None => 1
  | Some a, Some b => if ref_lt t a b then -1 else if ref_lt t b a then 1 else 0
  end.

(** sort output given as the list of input positions, in output order *)
Fixpoint is_perm_of_range (n : nat) (l : list N) : bool :=
  match n with
  | O => match l with [] => true | _ => false end
  | S n' => existsb (N.eqb (N.of_nat n')) l
            && is_perm_of_range n' (filter (fun i => negb (N.eqb i (N.of_nat n'))) l)
  end.

Fixpoint adj_ok {A} (ok : A -> A -> bool) (l : list A) : bool :=
  match l with
  | a :: ((b :: _) as r) => ok a b && adj_ok ok r
  | _ => true
  end.

(** [cmp i j] three-way on input positions; stable-ordered: each adjacent pair is strictly
    increasing, or tied with increasing position. *)
Definition stable_sorted (cmp : N -> N -> Z) (l : list N) : bool :=
  adj_ok (fun i j => (cmp i j <? 0)%Z || ((cmp i j =? 0)%Z && N.ltb i j)) l.
