From Coq Require Import List Bool ZArith QArith NArith Lia Permutation Sorted.
Import ListNotations.
From Verif Require Import Common.ListX Common.Order Common.Sort Gen.Prims Gen.Tables C17.Model.

(** Reference order on names: namespace-less names first, then by namespace, then by name. *)
Definition name_lt_ref (a b : name) : bool :=
  match fst a, fst b with
  | None, None => str_ltb (snd a) (snd b)
  | None, Some _ => true
  | Some _, None => false
  | Some n1, Some n2 => str_ltb n1 n2 || (str_eqb n1 n2 && str_ltb (snd a) (snd b))
  end.

Ltac bool_atoms :=
  repeat match goal with
         | |- context [str_ltb ?a ?b] => destruct (str_ltb a b)
         | |- context [str_eqb ?a ?b] => destruct (str_eqb a b)
         end; try reflexivity.

(** Obligation on the regenerated tables: the source's [__lt__] is the reference order. *)
Lemma kw_lt_ref a b : kw_lt (fst a) (snd a) (fst b) (snd b) = name_lt_ref a b.
Proof.
  destruct a as [[n1|] s1], b as [[n2|] s2]; unfold kw_lt, name_lt_ref, ostr_ltb, ostr_eqb, onone; simpl; bool_atoms.
Qed.

Lemma sym_lt_ref a b : sym_lt (fst a) (snd a) (fst b) (snd b) = name_lt_ref a b.
Proof.
  destruct a as [[n1|] s1], b as [[n2|] s2]; unfold sym_lt, name_lt_ref, ostr_ltb, ostr_eqb, onone; simpl; bool_atoms.
Qed.

Lemma vector_shape_ok : vector_lt_shape = 1%N.
Proof. reflexivity. Qed.

Definition T {A} (_ : A) : Prop := True.

Lemma str_swo : swo T str_ltb str_eqb.
Proof.
  constructor.
  - intros x y z _ _ _. apply str_ltb_trans.
  - intros x y _ _. rewrite str_eqb_eq. split.
    + intros ->. split; apply str_ltb_irrefl.
    + intros [A B]. apply str_ltb_total; auto.
  - intros x y z _ _ _. rewrite !str_eqb_eq. congruence.
  - intros x y _ _. apply str_ltb_asym.
Qed.

Lemma name_eqb_eq a b : name_eqb a b = true <-> a = b.
Proof.
  destruct a as [n1 s1], b as [n2 s2]. unfold name_eqb, ostr_eqb; simpl.
  rewrite andb_true_iff, str_eqb_eq, (option_eqb_spec str_eqb str_eqb_eq). split.
  - intros [-> ->]; reflexivity.
  - intros E; inversion E; auto.
Qed.

Lemma name_swo : swo T name_lt_ref name_eqb.
Proof.
  constructor.
  - intros [[n1|] s1] [[n2|] s2] [[n3|] s3] _ _ _; unfold name_lt_ref; simpl; try discriminate; auto.
    + rewrite !orb_true_iff, !andb_true_iff, !str_eqb_eq.
      intros A B. destruct A as [A|[EA A]], B as [B|[EB B]]; subst.
      * left. eapply str_ltb_trans; eauto.
      * left. exact A.
      * left. exact B.
      * right. split; [reflexivity|]. eapply str_ltb_trans; eauto.
    + apply str_ltb_trans.
  - intros a b _ _. rewrite name_eqb_eq. split.
    + intros ->. destruct b as [[n|] s]; unfold name_lt_ref; simpl;
        rewrite ?str_ltb_irrefl, ?str_eqb_refl; simpl; rewrite ?str_ltb_irrefl; auto.
    + destruct a as [[n1|] s1], b as [[n2|] s2]; unfold name_lt_ref; simpl; intros [A B]; try discriminate.
      * apply orb_false_iff in A as [A1 A2]. apply orb_false_iff in B as [B1 B2].
        assert (n1 = n2) by (apply str_ltb_total; auto). subst.
        rewrite str_eqb_refl in A2, B2. simpl in *. assert (s1 = s2) by (apply str_ltb_total; auto). subst. reflexivity.
      * f_equal. apply str_ltb_total; auto.
  - intros x y z _ _ _. rewrite !name_eqb_eq. congruence.
  - intros [[n1|] s1] [[n2|] s2] _ _; unfold name_lt_ref; simpl; try discriminate; auto.
    + rewrite orb_true_iff, andb_true_iff, str_eqb_eq. intros [A|[-> A]].
      * rewrite (str_ltb_asym _ _ A). simpl.
        destruct (str_eqb n2 n1) eqn:E; [|reflexivity]. apply str_eqb_eq in E. subst.
        rewrite str_ltb_irrefl in A. discriminate.
      * rewrite str_ltb_irrefl, str_eqb_refl. simpl. apply str_ltb_asym; auto.
    + apply str_ltb_asym.
Qed.

Lemma Qltb_lt a b : Qltb a b = true <-> (a < b)%Q.
Proof. unfold Qltb, Qlt. apply Z.ltb_lt. Qed.

Lemma Qltb_nlt a b : Qltb a b = false <-> ~ (a < b)%Q.
Proof. rewrite <- Qltb_lt. destruct (Qltb a b); split; congruence. Qed.

Lemma num_swo : swo T Qltb Qeq_bool.
Proof.
  constructor.
  - intros x y z _ _ _. rewrite !Qltb_lt. apply Qlt_trans.
  - intros x y _ _. rewrite Qeq_bool_iff, !Qltb_nlt. split.
    + intros E. rewrite E. split; apply Qlt_irrefl.
    + intros [A B]. apply Qnot_lt_le in A, B. apply Qle_antisym; auto.
  - intros x y z _ _ _. rewrite !Qeq_bool_iff. apply Qeq_trans.
  - intros x y _ _. rewrite Qltb_lt, Qltb_nlt. intros A B. eapply Qlt_irrefl, Qlt_trans; eauto.
Qed.

Lemma swo_ext {A} (P : A -> Prop) lt1 lt2 eqb :
  (forall a b, lt1 a b = lt2 a b) -> swo P lt2 eqb -> swo P lt1 eqb.
Proof.
  intros E [t e et a]. constructor; intros; rewrite ?E in *; eauto.
Qed.

(** Every family is strictly weakly ordered by the model's [lt], with [eqb] as its
    equivalence -- by induction on the type, vectors of any nesting depth included. *)
Theorem family_swo (t : ty) : swo (fun _ : val t => True) (lt t) (eqb t).
Proof.
  induction t as [| | | |t IH]; simpl.
  - exact num_swo.
  - exact str_swo.
  - eapply swo_ext; [exact kw_lt_ref|exact name_swo].
  - eapply swo_ext; [exact sym_lt_ref|exact name_swo].
  - pose proof (vec_swo _ _ _ IH) as V.
    destruct V as [t1 e1 et1 a1].
    assert (FT : forall l : list (val t), Forall (fun _ => True) l) by (intro l; apply Forall_forall; auto).
    constructor.
    + intros x y z _ _ _. apply (t1 x y z); auto.
    + intros x y _ _. apply e1; auto.
    + intros x y z _ _ _. apply (et1 x y z); auto.
    + intros x y _ _. apply a1; auto.
Qed.

Lemma gt_is_lt_flip t a b : gt t a b = lt t b a.
Proof.
  destruct t; try reflexivity; unfold gt.
  - apply (gt_total_native (fun _ => True) (lt TKw) (eqb TKw) (family_swo TKw) a b I I).
  - apply (gt_total_native (fun _ => True) (lt TSym) (eqb TSym) (family_swo TSym) a b I I).
  - apply (gt_total_native (fun _ => True) (lt (TVec t)) (eqb (TVec t)) (family_swo (TVec t)) a b I I).
Qed.

Definition TT (t : ty) : val t -> Prop := fun _ => True.
Lemma Hgt t : forall x y, TT t x -> TT t y -> gt t x y = lt t y x.
Proof. intros; apply gt_is_lt_flip. Qed.
Definition c_range t a b := cmp3_range (TT t) (lt t) (gt t) (Hgt t) a b I I.
Definition c_antisym t a b := cmp3_antisym (TT t) (lt t) (gt t) (Hgt t) a b I I.
Definition c_zero t a b := cmp3_zero_iff (TT t) (lt t) (eqb t) (family_swo t) (gt t) (Hgt t) a b I I.
Definition c_trans_le t a b c := cmp3_trans_le (TT t) (lt t) (eqb t) (family_swo t) (gt t) (Hgt t) a b c I I I.
Definition c_trans_lt t a b c := cmp3_trans_lt (TT t) (lt t) (eqb t) (family_swo t) (gt t) (Hgt t) a b c I I I.

Theorem compare_antisym t x y : compare t x y = (- compare t y x)%Z.
Proof. destruct x as [a|], y as [b|]; simpl; try reflexivity. apply c_antisym. Qed.

Theorem compare_range t x y : (compare t x y = -1 \/ compare t x y = 0 \/ compare t x y = 1)%Z.
Proof. destruct x as [a|], y as [b|]; simpl; auto. apply c_range. Qed.

Definition oeqb t (x y : option (val t)) : bool :=
  match x, y with
  | None, None => true
  | Some a, Some b => eqb t a b
  | _, _ => false
  end.

Theorem compare_zero_iff_eq t x y : compare t x y = 0%Z <-> oeqb t x y = true.
Proof.
  destruct x as [a|], y as [b|]; simpl; try (split; discriminate); try tauto.
  apply c_zero.
Qed.

Theorem compare_trans t x y z :
  (compare t x y <= 0 -> compare t y z <= 0 -> compare t x z <= 0)%Z.
Proof.
  destruct x as [a|], y as [b|], z as [c|]; simpl; try lia.
  apply c_trans_le.
Qed.

Theorem compare_trans_strict t x y z :
  (compare t x y < 0 -> compare t y z < 0 -> compare t x z < 0)%Z.
Proof.
  destruct x as [a|], y as [b|], z as [c|]; simpl; try lia.
  intros A B.
  assert (A' : cmp3 (lt t) (gt t) a b = (-1)%Z) by (destruct (c_range t a b) as [E|[E|E]]; lia).
  assert (B' : cmp3 (lt t) (gt t) b c = (-1)%Z) by (destruct (c_range t b c) as [E|[E|E]]; lia).
  rewrite (c_trans_lt t a b c A' B'). lia.
Qed.

Theorem nil_least t (v : val t) : compare t None (Some v) = (-1)%Z /\ compare t (Some v) None = 1%Z
                                  /\ compare t None None = 0%Z.
Proof. simpl; auto. Qed.

(** Keywords and symbols: by namespace, then by name; un-namespaced first. *)
Theorem kw_ns_then_name (n1 n2 : str) (s1 s2 : str) :
  compare TKw (Some (Some n1, s1)) (Some (Some n2, s2)) =
    if str_ltb n1 n2 then (-1)%Z else if str_ltb n2 n1 then 1%Z
    else if str_ltb s1 s2 then (-1)%Z else if str_ltb s2 s1 then 1%Z else 0%Z.
Proof.
  unfold compare, cmp3. rewrite (gt_is_lt_flip TKw). cbn [lt]. rewrite !kw_lt_ref. unfold name_lt_ref; cbn [fst snd].
  destruct (str_ltb n1 n2) eqn:A.
  - rewrite (str_ltb_asym _ _ A). simpl.
    destruct (str_eqb n2 n1) eqn:E; [apply str_eqb_eq in E; subst; rewrite str_ltb_irrefl in A; discriminate|reflexivity].
  - destruct (str_ltb n2 n1) eqn:B; simpl.
    + destruct (str_eqb n1 n2) eqn:E; [apply str_eqb_eq in E; subst; rewrite str_ltb_irrefl in B; discriminate|reflexivity].
    + assert (n1 = n2) by (apply str_ltb_total; auto). subst. rewrite str_eqb_refl. simpl.
      destruct (str_ltb s1 s2) eqn:C.
      * rewrite (str_ltb_asym _ _ C). reflexivity.
      * destruct (str_ltb s2 s1); reflexivity.
Qed.

Theorem sym_ns_then_name (n1 n2 : str) (s1 s2 : str) :
  compare TSym (Some (Some n1, s1)) (Some (Some n2, s2)) =
    if str_ltb n1 n2 then (-1)%Z else if str_ltb n2 n1 then 1%Z
    else if str_ltb s1 s2 then (-1)%Z else if str_ltb s2 s1 then 1%Z else 0%Z.
Proof.
  unfold compare, cmp3. rewrite (gt_is_lt_flip TSym). cbn [lt]. rewrite !sym_lt_ref. unfold name_lt_ref; cbn [fst snd].
  destruct (str_ltb n1 n2) eqn:A.
  - rewrite (str_ltb_asym _ _ A). simpl.
    destruct (str_eqb n2 n1) eqn:E; [apply str_eqb_eq in E; subst; rewrite str_ltb_irrefl in A; discriminate|reflexivity].
  - destruct (str_ltb n2 n1) eqn:B; simpl.
    + destruct (str_eqb n1 n2) eqn:E; [apply str_eqb_eq in E; subst; rewrite str_ltb_irrefl in B; discriminate|reflexivity].
    + assert (n1 = n2) by (apply str_ltb_total; auto). subst. rewrite str_eqb_refl. simpl.
      destruct (str_ltb s1 s2) eqn:C.
      * rewrite (str_ltb_asym _ _ C). reflexivity.
      * destruct (str_ltb s2 s1); reflexivity.
Qed.

(** The sort key order is a strict weak order on every family extended with nil. *)
Theorem key_swo t : swo (fun _ => True) (key_lt t) (key_eqb t).
Proof.
  unfold key_lt, key_eqb. constructor.
  - intros x y z _ _ _. rewrite !Z.ltb_lt. apply compare_trans_strict.
  - intros x y _ _. rewrite Z.eqb_eq, !Z.ltb_ge. rewrite (compare_antisym t y x). lia.
  - intros x y z _ _ _. rewrite !Z.eqb_eq.
    intros A B. pose proof (compare_trans t x y z). pose proof (compare_trans t z y x).
    rewrite (compare_antisym t z y), (compare_antisym t y x), (compare_antisym t z x) in *. lia.
  - intros x y _ _. rewrite Z.ltb_lt, Z.ltb_ge. rewrite (compare_antisym t y x). lia.
Qed.

Theorem sort_perm t l : Permutation (sort t l) l.
Proof. apply Sort.sort_perm. Qed.

Lemma StronglySorted_impl {A} (R R' : A -> A -> Prop) l :
  (forall a b, R a b -> R' a b) -> StronglySorted R l -> StronglySorted R' l.
Proof.
  intros HR S. induction S as [|a r S IH F]; constructor; auto.
  eapply Forall_impl; [|exact F]. intros b. apply HR.
Qed.

Lemma FT {A} (l : list A) : Forall (fun _ => True) l.
Proof. apply Forall_forall; auto. Qed.

Theorem sort_ordered t l : StronglySorted (fun a b => (compare t a b <= 0)%Z) (sort t l).
Proof.
  pose proof (Sort.sort_sorted _ _ _ (key_swo t) l (FT l)) as S.
  eapply StronglySorted_impl; [|exact S].
  intros a b F. unfold ord, key_lt in F. apply Z.ltb_ge in F. rewrite (compare_antisym t a b). lia.
Qed.

Theorem sort_stable t x l : filter (key_eqb t x) (sort t l) = filter (key_eqb t x) l.
Proof. apply (Sort.sort_stable _ _ _ (key_swo t) x l I (FT l)). Qed.

Theorem sort_input_order_independent t l1 l2 :
  ForallOrdPairs (fun a b => compare t a b <> 0%Z) l1 -> Permutation l1 l2 -> sort t l1 = sort t l2.
Proof.
  intros D Hp. apply (Sort.sort_input_order_independent _ _ _ (key_swo t) l1 l2 (FT l1)); [|exact Hp].
  clear Hp. unfold distinct, key_eqb. induction D as [|a l F D IH]; constructor; auto.
  eapply Forall_impl; [|exact F]. intros b Hb. apply Z.eqb_neq; auto.
Qed.

(** sort-by: same contract on the keys. *)
Theorem sort_by_perm t B (l : list (option (val t) * B)) : Permutation (sort_by t l) l.
Proof. apply Sort.sort_perm. Qed.

Lemma key_swo_by t B : swo (fun _ : option (val t) * B => True)
                  (fun a b => key_lt t (fst a) (fst b)) (fun a b => key_eqb t (fst a) (fst b)).
Proof.
  destruct (key_swo t) as [t1 e1 et1 a1]. constructor.
  - intros x y z _ _ _. apply (t1 (fst x) (fst y) (fst z)); auto.
  - intros x y _ _. apply e1; auto.
  - intros x y z _ _ _. apply (et1 (fst x) (fst y) (fst z)); auto.
  - intros x y _ _. apply a1; auto.
Qed.

Theorem sort_by_ordered t B (l : list (option (val t) * B)) :
  StronglySorted (fun a b => (compare t (fst a) (fst b) <= 0)%Z) (sort_by t l).
Proof.
  pose proof (Sort.sort_sorted _ _ _ (key_swo_by t B) l (FT l)) as S.
  eapply StronglySorted_impl; [|exact S].
  intros a b F. unfold ord, key_lt in F. apply Z.ltb_ge in F. rewrite (compare_antisym t (fst a) (fst b)). lia.
Qed.

Theorem sort_by_stable t B (x : option (val t) * B) (l : list (option (val t) * B)) :
  filter (fun e => key_eqb t (fst x) (fst e)) (sort_by t l) = filter (fun e => key_eqb t (fst x) (fst e)) l.
Proof. apply (Sort.sort_stable _ _ _ (key_swo_by t B) x l I (FT l)). Qed.
