(** C17 correspondence interface: cases, observable outputs, spec predicate, model. *)
From Coq Require Import List Bool ZArith QArith NArith.
Import ListNotations.
From Verif Require Export Common.ListX Common.Order Common.Sort C17.Model C17.Spec.

Inductive case :=
| CPair (t : ty) (x y : option (val t))
| CTriple (t : ty) (x y z : option (val t))
| CSort (t : ty) (rev : bool) (l : list (option (val t)))       (* (sort coll) / (sort (fn [a b] (compare b a)) coll) *)
| CSortBy (t : ty) (rev : bool) (l : list (option (val t))).     (* (sort-by first [[k 0] [k 1] ...]) *)

Inductive out :=
| OInts (l : list Z)      (* CPair: [compare x y; compare y x; (= x y)]; CTriple: the six compares xy yx yz zy xz zx *)
| OPerm (l : list N)      (* sort / sort-by: input positions in output order *)
| OErr (cls : N).         (* an exception: 1 TypeError, 2 other, 3 timeout/hang *)

Definition z_eqb_list := list_eqb Z.eqb.
Definition out_eqb (a b : out) : bool :=
  match a, b with
  | OInts l1, OInts l2 => list_eqb Z.eqb l1 l2
  | OPerm l1, OPerm l2 => list_eqb N.eqb l1 l2
  | OErr a, OErr b => N.eqb a b
  | _, _ => false
  end.

Definition nth_key {t} (l : list (option (val t))) (i : N) : option (val t) :=
  nth (N.to_nat i) l None.

Definition in3 (z : Z) : bool := (z =? -1)%Z || (z =? 0)%Z || (z =? 1)%Z.

Definition spec_ok (c : case) (o : out) : bool :=
  match c, o with
  | CPair t x y, OInts [a; b; e] =>
      Z.eqb a (ref_compare t x y) && Z.eqb b (ref_compare t y x)
      && Z.eqb a (- b) && in3 a && Bool.eqb (Z.eqb a 0) (Z.eqb e 1)
  | CTriple t x y z, OInts [xy; yx; yz; zy; xz; zx] =>
      (* laws on the implementation's own answers *)
      Z.eqb xy (- yx) && Z.eqb yz (- zy) && Z.eqb xz (- zx)
      && (negb ((xy <=? 0)%Z && (yz <=? 0)%Z) || (xz <=? 0)%Z)
      && (negb ((xy <? 0)%Z && (yz <=? 0)%Z) || (xz <? 0)%Z)
      && (negb ((xy <=? 0)%Z && (yz <? 0)%Z) || (xz <? 0)%Z)
  | CSort t rev l, OPerm p | CSortBy t rev l, OPerm p =>
      is_perm_of_range (length l) p
      && stable_sorted (fun i j => if rev then ref_compare t (nth_key l j) (nth_key l i)
                                   else ref_compare t (nth_key l i) (nth_key l j)) p
  | _, _ => false
  end.

Fixpoint index_from {A} (i : N) (l : list A) : list (A * N) :=
  match l with [] => [] | x :: r => (x, i) :: index_from (N.succ i) r end.

Definition model (c : case) : out :=
  match c with
  | CPair t x y => OInts [compare t x y; compare t y x; b2z (key_eqb t x y)]
  | CTriple t x y z => OInts [compare t x y; compare t y x; compare t y z; compare t z y;
                              compare t x z; compare t z x]
  | CSort t rev l | CSortBy t rev l =>
      OPerm (map snd (Sort.sort (fun a b => if rev then key_lt t (fst b) (fst a) else key_lt t (fst a) (fst b))
                                (index_from 0 l)))
  end.
