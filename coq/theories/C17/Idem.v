(** C17 -- sorting an already ordered sequence returns it unchanged, hence [sort] and
    [sort-by] are idempotent: the sorted order is a fixed point, not merely a permutation
    that happens to be ordered. *)
From Coq Require Import List Bool ZArith Lia Permutation Sorted.
Import ListNotations.
From Verif Require Import Common.Order Common.Sort C17.Model C17.Proofs.

Section Fix.
  Context {A : Type}.
  Variable lt : A -> A -> bool.

  Lemma insert_head x l : Forall (Sort.ord lt x) l -> Sort.insert lt x l = x :: l.
  Proof.
    intro F. destruct l as [|y r]; [reflexivity|]. cbn [Sort.insert].
    inversion F as [|? ? Hy _]; subst. unfold Sort.ord in Hy. rewrite Hy. reflexivity.
  Qed.

  Lemma sort_fixed l : StronglySorted (Sort.ord lt) l -> Sort.sort lt l = l.
  Proof.
    intro S. induction S as [|x r S IH F]; [reflexivity|].
    unfold Sort.sort in *. cbn [fold_right]. rewrite IH. apply insert_head. exact F.
  Qed.
End Fix.

(** an input already ordered by [compare] (ties allowed) comes back as it is *)
Theorem sort_of_ordered t l :
  StronglySorted (fun a b => (compare t a b <= 0)%Z) l -> sort t l = l.
Proof.
  intro S. apply sort_fixed. eapply StronglySorted_impl; [|exact S].
  intros a b F. cbv beta in F. unfold Sort.ord, key_lt. apply Z.ltb_ge.
  rewrite (compare_antisym t b a). lia.
Qed.

Theorem sort_idempotent t l : sort t (sort t l) = sort t l.
Proof. apply sort_of_ordered. apply sort_ordered. Qed.

Theorem sort_by_of_ordered t B (l : list (option (val t) * B)) :
  StronglySorted (fun a b => (compare t (fst a) (fst b) <= 0)%Z) l -> sort_by t l = l.
Proof.
  intro S. apply sort_fixed. eapply StronglySorted_impl; [|exact S].
  intros a b F. cbv beta in F. unfold Sort.ord, key_lt. apply Z.ltb_ge.
  rewrite (compare_antisym t (fst b) (fst a)). lia.
Qed.

Theorem sort_by_idempotent t B (l : list (option (val t) * B)) :
  sort_by t (sort_by t l) = sort_by t l.
Proof. apply sort_by_of_ordered. apply sort_by_ordered. Qed.
