(** C17 model: runtime.compare, the [__lt__]/[__eq__] of Keyword, Symbol and
    PersistentVector (kw_lt/sym_lt are regenerated from the source: Gen/Tables.v),
    functools.total_ordering's [__gt__], and runtime.sort / sort_by. *)
From Coq Require Import List Bool ZArith QArith NArith.
Import ListNotations.
From Verif Require Import Common.ListX Common.Order Common.Sort Gen.Prims Gen.Tables.

Inductive ty := TNum | TStr | TKw | TSym | TVec (t : ty).

(** (namespace or None, name) *)
Definition name : Type := option str * str.

Fixpoint val (t : ty) : Type :=
  match t with
  | TNum => Q            (* int, float (finite), Fraction, Decimal: compared exactly *)
  | TStr => str
  | TKw => name
  | TSym => name
  | TVec t' => list (val t')
  end.

Definition Qltb (a b : Q) : bool := (Qnum a * QDen b <? Qnum b * QDen a)%Z.
Definition name_eqb (a b : name) : bool := ostr_eqb (fst a) (fst b) && str_eqb (snd a) (snd b).

Fixpoint lt (t : ty) : val t -> val t -> bool :=
  match t with
  | TNum => Qltb
  | TStr => str_ltb
  | TKw => fun a b => kw_lt (fst a) (snd a) (fst b) (snd b)
  | TSym => fun a b => sym_lt (fst a) (snd a) (fst b) (snd b)
  | TVec t' => vec_lt (lt t')
  end.

(** Python [==] within a family (also basilisp [=] there). *)
Fixpoint eqb (t : ty) : val t -> val t -> bool :=
  match t with
  | TNum => Qeq_bool
  | TStr => str_eqb
  | TKw => name_eqb
  | TSym => name_eqb
  | TVec t' => vec_eqb (eqb t')
  end.

(** Python [x > y]: native for numbers and strings, synthesised by total_ordering for the
    three basilisp classes. *)
Definition gt (t : ty) : val t -> val t -> bool :=
  match t return val t -> val t -> bool with
  | TNum => fun a b => Qltb b a
  | TStr => fun a b => str_ltb b a
  | TKw => gt_total (lt TKw) (eqb TKw)
  | TSym => gt_total (lt TSym) (eqb TSym)
  | TVec t' => gt_total (lt (TVec t')) (eqb (TVec t'))
  end.

(** runtime.compare; [None] is nil. *)
Definition compare (t : ty) (x y : option (val t)) : Z :=
  match x, y with
  | None, None => 0
  | None, Some _ => -1
  | Some _, None => 1
  | Some a, Some b => cmp3 (lt t) (gt t) a b
  end.

(** The key class of runtime.sort: [a < b  iff  compare a b < 0]. *)
Definition key_lt (t : ty) (a b : option (val t)) : bool := (compare t a b <? 0)%Z.
Definition key_eqb (t : ty) (a b : option (val t)) : bool := (compare t a b =? 0)%Z.

(** runtime.sort with the default comparator; CPython's sorted() is modelled by a stable
    insertion sort (see Common/Sort.v, theorem sorted_stable_unique). *)
Definition sort (t : ty) (l : list (option (val t))) : list (option (val t)) :=
  Sort.sort (key_lt t) l.

(** runtime.sort_by with a key function given extensionally: elements are (key, payload). *)
Definition sort_by (t : ty) {B} (l : list (option (val t) * B)) : list (option (val t) * B) :=
  Sort.sort (fun a b => key_lt t (fst a) (fst b)) l.
