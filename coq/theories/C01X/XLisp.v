(** First-order core with loop*/recur, extended with throw and try/catch/finally.
    Outcomes: a value, a pending recur, or a raised exception object. *)
From Coq Require Import List ZArith NArith Bool.
Import ListNotations.
From Verif Require Export C01.Lisp.
From Verif Require C01L.LLisp.

Inductive xexpr :=
| XConst (v : value)
| XLocal (x : N)
| XIf (c t e : xexpr)
| XDo (s r : xexpr)
| XLet (x : N) (i b : xexpr)
| XCall (f : prim) (args : list xexpr)
| XLoop (binds : list (N * xexpr)) (body : xexpr)
| XRecur (args : list xexpr)
| XThrow (e : xexpr)
| XTry (body : xexpr) (h : option (N * N)) (hb : xexpr) (hasfin : bool) (fe : xexpr).
    (* h = Some (class, local) when there is a catch clause with body hb; fe is the finally
       clause when hasfin (absent parts are dummies) *)

Inductive outcome := OVal (v : value) | ORec (vs : list value) | OExc (cls : N) (payload : value).

(** class 0 = Exception catches everything; other classes match exactly *)
Definition catches (hc c : N) : bool := N.eqb hc 0 || N.eqb hc c.

Notation rebind := Verif.C01L.LLisp.rebind.

(** result of evaluating a list left to right: all values, or the first exception *)
Inductive lres := LVals (vs : list value) | LExc (cls : N) (payload : value).

Section Lists.
  Variable ev : env -> xexpr -> option (outcome * trace).
  Fixpoint evals (rho : env) (l : list xexpr) : option (lres * trace) :=
    match l with
    | [] => Some (LVals [], [])
    | a :: r =>
        match ev rho a with
        | Some (OVal v, t1) =>
            match evals rho r with
            | Some (LVals vs, t2) => Some (LVals (v :: vs), t1 ++ t2)
            | Some (LExc c p, t2) => Some (LExc c p, t1 ++ t2)
            | None => None
            end
        | Some (OExc c p, t1) => Some (LExc c p, t1)
        | _ => None
        end
    end.
  Inductive bres := BEnv (rho : env) | BExc (cls : N) (payload : value).
  Fixpoint evbinds (rho : env) (l : list (N * xexpr)) : option (bres * trace) :=
    match l with
    | [] => Some (BEnv rho, [])
    | (x, i) :: r =>
        match ev rho i with
        | Some (OVal v, t1) =>
            match evbinds (upd rho x v) r with Some (b, t2) => Some (b, t1 ++ t2) | None => None end
        | Some (OExc c p, t1) => Some (BExc c p, t1)
        | _ => None
        end
    end.
End Lists.

Fixpoint xeval (fuel : nat) (rho : env) (e : xexpr) : option (outcome * trace) :=
  match fuel with
  | O => None
  | S n =>
      match e with
      | XConst v => Some (OVal v, [])
      | XLocal x => match rho x with Some v => Some (OVal v, []) | None => None end
      | XIf c t e =>
          match xeval n rho c with
          | Some (OVal vc, t1) =>
              match (if falsey vc then xeval n rho e else xeval n rho t) with
              | Some (o, t2) => Some (o, t1 ++ t2)
              | None => None
              end
          | Some (OExc c p, t1) => Some (OExc c p, t1)
          | _ => None
          end
      | XDo s r =>
          match xeval n rho s with
          | Some (OVal _, t1) =>
              match xeval n rho r with Some (o, t2) => Some (o, t1 ++ t2) | None => None end
          | Some (OExc c p, t1) => Some (OExc c p, t1)
          | _ => None
          end
      | XLet x i b =>
          match xeval n rho i with
          | Some (OVal vi, t1) =>
              match xeval n (upd rho x vi) b with Some (o, t2) => Some (o, t1 ++ t2) | None => None end
          | Some (OExc c p, t1) => Some (OExc c p, t1)
          | _ => None
          end
      | XCall f args =>
          match evals (xeval n) rho args with
          | Some (LVals vs, t1) =>
              match apply_prim f vs with Some (v, t2) => Some (OVal v, t1 ++ t2) | None => None end
          | Some (LExc c p, t1) => Some (OExc c p, t1)
          | None => None
          end
      | XLoop binds body =>
          match evbinds (xeval n) rho binds with
          | Some (BEnv rho1, t1) =>
              match xloop n (map fst binds) rho1 body with
              | Some (o, t2) => Some (o, t1 ++ t2)
              | None => None
              end
          | Some (BExc c p, t1) => Some (OExc c p, t1)
          | None => None
          end
      | XRecur args =>
          match evals (xeval n) rho args with
          | Some (LVals vs, t1) => Some (ORec vs, t1)
          | Some (LExc c p, t1) => Some (OExc c p, t1)
          | None => None
          end
      | XThrow e =>
          match xeval n rho e with
          | Some (OVal (VExc c p), t1) => Some (OExc c p, t1)
          | Some (OExc c p, t1) => Some (OExc c p, t1)
          | _ => None                 (* throwing a non-exception: outside the fragment *)
          end
      | XTry body h hb hasfin fe =>
          (* a recur may not cross a try in this fragment (Clojure forbids it; basilisp's
             behaviour there is finding F-02c): the body and handler must not yield ORec *)
          let r1 :=
            match xeval n rho body with
            | Some (OExc c p, t1) =>
                match h with
                | Some (hc, x) =>
                    if catches hc c then
                      match xeval n (upd rho x (VExc c p)) hb with
                      | Some (ORec _, _) => None
                      | Some (o, t2) => Some (o, t1 ++ t2)
                      | None => None
                      end
                    else Some (OExc c p, t1)
                | None => Some (OExc c p, t1)
                end
            | Some (ORec _, _) => None
            | other => other
            end in
          if negb hasfin then r1 else
              match r1 with
              | Some (o, t1) =>
                  match xeval n rho fe with
                  | Some (OVal _, t2) => Some (o, t1 ++ t2)
                  | Some (OExc c p, t2) => Some (OExc c p, t1 ++ t2)   (* an exception in finally replaces the outcome *)
                  | _ => None
                  end
              | None => None
              end
      end
  end

with xloop (fuel : nat) (xs : list N) (rho : env) (body : xexpr) : option (outcome * trace) :=
  match fuel with
  | O => None
  | S n =>
      match xeval n rho body with
      | Some (ORec vs, t1) =>
          match rebind xs vs rho with
          | Some rho1 =>
              match xloop n xs rho1 body with Some (o, t2) => Some (o, t1 ++ t2) | None => None end
          | None => None
          end
      | other => other       (* a value, or an exception leaving the loop *)
      end
  end.
