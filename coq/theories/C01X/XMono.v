(** Fuel monotonicity of the Python semantics and sequencing lemmas. *)
From Coq Require Import List ZArith NArith Bool Lia Arith.
Import ListNotations.
From Verif Require Import C01X.XPy.

Definition ext (f g : frame -> xstmt -> option (sout * frame * trace)) : Prop :=
  forall F s r, f F s = Some r -> g F s = Some r.

Lemma xexecs_ext f g : ext f g -> forall l F r, xexecs f F l = Some r -> xexecs g F l = Some r.
Proof.
  intros E. induction l as [|s l IH]; intros F r H; simpl in *; [exact H|].
  destruct (f F s) as [[[o F1] t1]|] eqn:E1; [|discriminate].
  rewrite (E _ _ _ E1).
  destruct o; try exact H.
  destruct (xexecs f F1 l) as [[[o2 F2] t2]|] eqn:E2; [|discriminate].
  rewrite (IH _ _ E2). exact H.
Qed.

Lemma xexecs_ext' f g : ext f g -> forall l F, match xexecs f F l with Some r => xexecs g F l = Some r | None => True end.
Proof. intros E l F. destruct (xexecs f F l) eqn:X; [|exact I]. eapply xexecs_ext; eauto. Qed.

Lemma mono_step : forall m,
  (forall F s r, xexec1 m F s = Some r -> xexec1 (S m) F s = Some r) /\
  (forall F b r, xwhile m F b = Some r -> xwhile (S m) F b = Some r).
Proof.
  induction m as [|m [IH1 IH2]]; [split; intros; discriminate|].
  assert (E : ext (xexec1 m) (xexec1 (S m))) by (intros F s r; apply IH1).
  split.
  - intros F s r H. destruct s; try exact H.
    + (* if *) cbn [xexec1] in *. destruct (F test) as [v|]; [|discriminate].
      eapply xexecs_ext; [exact E|exact H].
    + (* while *) cbn [xexec1] in *. apply IH2. exact H.
    + (* try *)
      cbn [xexec1] in H.
      change (xexec1 (S (S m)) F (XSTry body handler fin)) with
        (let r1 :=
            match xexecs (xexec1 (S m)) F body with
            | Some (Exc c p, F1, t1) =>
                match handler with
                | Some (hc, x, hb) =>
                    if XLisp.catches hc c then
                      match xexecs (xexec1 (S m)) (set F1 x (VExc c p)) hb with
                      | Some (o, F2, t2) => Some (o, unset F2 x, t1 ++ t2)
                      | None => None
                      end
                    else Some (Exc c p, F1, t1)
                | None => Some (Exc c p, F1, t1)
                end
            | other => other
            end in
          match r1 with
          | Some (o, F1, t1) =>
              match xexecs (xexec1 (S m)) F1 fin with
              | Some (Normal, F2, t2) => Some (o, F2, t1 ++ t2)
              | Some (o2, F2, t2) => Some (o2, F2, t1 ++ t2)
              | None => None
              end
          | None => None
          end).
      cbv zeta in H |- *.
      destruct (xexecs (xexec1 m) F body) as [[[ob F1] t1]|] eqn:Eb; [|discriminate].
      rewrite (xexecs_ext _ _ E _ _ _ Eb).
      assert (Fin : forall o F1 t1,
                 match xexecs (xexec1 m) F1 fin with
                 | Some (Normal, F2, t2) => Some (o, F2, t1 ++ t2)
                 | Some (o2, F2, t2) => Some (o2, F2, t1 ++ t2)
                 | None => None
                 end = Some r ->
                 match xexecs (xexec1 (S m)) F1 fin with
                 | Some (Normal, F2, t2) => Some (o, F2, t1 ++ t2)
                 | Some (o2, F2, t2) => Some (o2, F2, t1 ++ t2)
                 | None => None
                 end = Some r).
      { intros o F1' t1' Hf. destruct (xexecs (xexec1 m) F1' fin) as [[[of F2] t2]|] eqn:Ef; [|discriminate].
        rewrite (xexecs_ext _ _ E _ _ _ Ef). exact Hf. }
      destruct ob as [| | |c p]; try (apply Fin; exact H).
      destruct handler as [[[hc x] hb]|]; [|apply Fin; exact H].
      destruct (XLisp.catches hc c); [|apply Fin; exact H].
      destruct (xexecs (xexec1 m) (set F1 x (VExc c p)) hb) as [[[oh F2] t2]|] eqn:Eh; [|discriminate].
      rewrite (xexecs_ext _ _ E _ _ _ Eh). apply Fin. exact H.
  - intros F b r H. cbn [xwhile] in H.
    destruct (xexecs (xexec1 m) F b) as [[[o F1] t1]|] eqn:Eb; [|discriminate].
    change (xwhile (S (S m)) F b) with
      (match xexecs (xexec1 (S m)) F b with
       | Some (Brk, F1, t1) => Some (Normal, F1, t1)
       | Some (Exc c p, F1, t1) => Some (Exc c p, F1, t1)
       | Some (_, F1, t1) =>
           match xwhile (S m) F1 b with Some (o, F2, t2) => Some (o, F2, t1 ++ t2) | None => None end
       | None => None
       end).
    rewrite (xexecs_ext _ _ E _ _ _ Eb).
    destruct o; try exact H;
      (destruct (xwhile m F1 b) as [[[o2 F2] t2]|] eqn:Ew; [|discriminate];
       rewrite (IH2 _ _ _ Ew); exact H).
Qed.

Lemma xexec1_mono m m' F s r : m <= m' -> xexec1 m F s = Some r -> xexec1 m' F s = Some r.
Proof.
  intros L H. induction L as [|m' L IH]; [exact H|]. apply (proj1 (mono_step m')). exact IH.
Qed.

Lemma xwhile_mono m m' F b r : m <= m' -> xwhile m F b = Some r -> xwhile m' F b = Some r.
Proof.
  intros L H. induction L as [|m' L IH]; [exact H|]. apply (proj2 (mono_step m')). exact IH.
Qed.

Lemma xexec_mono m m' F l r : m <= m' -> xexec m F l = Some r -> xexec m' F l = Some r.
Proof.
  intros L. unfold xexec. apply xexecs_ext. intros F0 s r0. apply xexec1_mono. exact L.
Qed.

Lemma xexec_nil m F : xexec m F [] = Some (Normal, F, []).
Proof. reflexivity. Qed.

Lemma xexec_cons m F s r :
  xexec m F (s :: r) =
    match xexec1 m F s with
    | Some (Normal, F1, t1) =>
        match xexec m F1 r with Some (o, F2, t2) => Some (o, F2, t1 ++ t2) | None => None end
    | other => other
    end.
Proof. reflexivity. Qed.

Lemma xexec_app m F l1 l2 :
  xexec m F (l1 ++ l2) =
    match xexec m F l1 with
    | Some (Normal, F1, t1) =>
        match xexec m F1 l2 with Some (o, F2, t2) => Some (o, F2, t1 ++ t2) | None => None end
    | other => other
    end.
Proof.
  revert F. induction l1 as [|s r IH]; intro F.
  - cbn [app]. rewrite xexec_nil. destruct (xexec m F l2) as [[[o F2] t2]|]; reflexivity.
  - rewrite <- app_comm_cons, !xexec_cons.
    destruct (xexec1 m F s) as [[[o F1] t1]|]; [|reflexivity].
    destruct o; try reflexivity.
    rewrite IH. destruct (xexec m F1 r) as [[[o2 F2] t2]|]; [|reflexivity].
    destruct o2; try reflexivity.
    destruct (xexec m F2 l2) as [[[o3 F3] t3]|]; [|reflexivity].
    rewrite app_assoc. reflexivity.
Qed.

(** sequencing with different fuels *)
Lemma xexec_seq m1 m2 F l1 l2 F1 t1 o F2 t2 :
  xexec m1 F l1 = Some (Normal, F1, t1) -> xexec m2 F1 l2 = Some (o, F2, t2) ->
  xexec (Nat.max m1 m2) F (l1 ++ l2) = Some (o, F2, t1 ++ t2).
Proof.
  intros H1 H2. rewrite xexec_app.
  rewrite (xexec_mono m1 (Nat.max m1 m2) _ _ _ (Nat.le_max_l _ _) H1).
  rewrite (xexec_mono m2 (Nat.max m1 m2) _ _ _ (Nat.le_max_r _ _) H2). reflexivity.
Qed.

Lemma xexec_stop m F l1 l2 o F1 t1 :
  o <> Normal -> xexec m F l1 = Some (o, F1, t1) -> xexec m F (l1 ++ l2) = Some (o, F1, t1).
Proof.
  intros Hn H. rewrite xexec_app, H. destruct o; congruence.
Qed.

Lemma xexec1_S_assign m F x e v t :
  peval F e = Some (v, t) -> xexec1 (S m) F (XAssign x e) = Some (Normal, set F x v, t).
Proof. intro H. cbn [xexec1]. rewrite H. reflexivity. Qed.

Lemma xexec1_S_expr m F e v t :
  peval F e = Some (v, t) -> xexec1 (S m) F (XExpr e) = Some (Normal, F, t).
Proof. intro H. cbn [xexec1]. rewrite H. reflexivity. Qed.

Lemma xexec1_S_if m F tst fb tb v :
  F tst = Some v -> xexec1 (S m) F (XSIf tst fb tb) = xexec m F (if falsey v then fb else tb).
Proof. intro H. cbn [xexec1]. rewrite H. reflexivity. Qed.

Lemma xexec1_S_raise m F e c p t :
  peval F e = Some (VExc c p, t) -> xexec1 (S m) F (XRaise e) = Some (Exc c p, F, t).
Proof. intro H. cbn [xexec1]. rewrite H. reflexivity. Qed.
