(** Python subset with loops and exceptions: raise, try/except-as/finally (the handler's
    name is unbound again when the handler exits, as Python does). *)
From Coq Require Import List ZArith NArith Bool Lia.
Import ListNotations.
From Verif Require Export C01.Lisp C01.Py.
From Verif Require Import C01X.XLisp.
From Verif Require C01L.LPy.

Inductive xstmt :=
| XAssign (n : pname) (e : pexpr)
| XAssignTuple (ns : list pname) (es : list pexpr)
| XExpr (e : pexpr)
| XSIf (test : pname) (fb tb : list xstmt)
| XWhile (body : list xstmt)
| XBreak
| XContinue
| XRaise (e : pexpr)
| XSTry (body : list xstmt) (handler : option (N * pname * list xstmt)) (fin : list xstmt).

Inductive sout := Normal | Brk | Cont | Exc (cls : N) (payload : value).

Definition unset (F : frame) (p : pname) : frame := fun q => if pname_eqb q p then None else F q.

Notation set_all := Verif.C01L.LPy.set_all.

Section Stmts.
  Variable ex1 : frame -> xstmt -> option (sout * frame * trace).
  Fixpoint xexecs (F : frame) (l : list xstmt) : option (sout * frame * trace) :=
    match l with
    | [] => Some (Normal, F, [])
    | s :: r =>
        match ex1 F s with
        | Some (Normal, F1, t1) =>
            match xexecs F1 r with Some (o, F2, t2) => Some (o, F2, t1 ++ t2) | None => None end
        | other => other
        end
    end.
End Stmts.

Fixpoint xexec1 (fuel : nat) (F : frame) (s : xstmt) : option (sout * frame * trace) :=
  match fuel with
  | O => None
  | S n =>
      match s with
      | XAssign x e => match peval F e with Some (v, t) => Some (Normal, set F x v, t) | None => None end
      | XAssignTuple xs es =>
          match peval_list F es with
          | Some (vs, t) => match set_all F xs vs with Some F' => Some (Normal, F', t) | None => None end
          | None => None
          end
      | XExpr e => match peval F e with Some (_, t) => Some (Normal, F, t) | None => None end
      | XSIf t fb tb =>
          match F t with
          | Some v => xexecs (xexec1 n) F (if falsey v then fb else tb)
          | None => None
          end
      | XWhile body => xwhile n F body
      | XBreak => Some (Brk, F, [])
      | XContinue => Some (Cont, F, [])
      | XRaise e =>
          match peval F e with
          | Some (VExc c p, t) => Some (Exc c p, F, t)
          | _ => None
          end
      | XSTry body handler fin =>
          let r1 :=
            match xexecs (xexec1 n) F body with
            | Some (Exc c p, F1, t1) =>
                match handler with
                | Some (hc, x, hb) =>
                    if catches hc c then
                      match xexecs (xexec1 n) (set F1 x (VExc c p)) hb with
                      | Some (o, F2, t2) => Some (o, unset F2 x, t1 ++ t2)
                      | None => None
                      end
                    else Some (Exc c p, F1, t1)
                | None => Some (Exc c p, F1, t1)
                end
            | other => other
            end in
          match r1 with
          | Some (o, F1, t1) =>
              match xexecs (xexec1 n) F1 fin with
              | Some (Normal, F2, t2) => Some (o, F2, t1 ++ t2)
              | Some (o2, F2, t2) => Some (o2, F2, t1 ++ t2)
              | None => None
              end
          | None => None
          end
      end
  end

with xwhile (fuel : nat) (F : frame) (body : list xstmt) : option (sout * frame * trace) :=
  match fuel with
  | O => None
  | S n =>
      match xexecs (xexec1 n) F body with
      | Some (Brk, F1, t1) => Some (Normal, F1, t1)
      | Some (Exc c p, F1, t1) => Some (Exc c p, F1, t1)
      | Some (_, F1, t1) =>
          match xwhile n F1 body with Some (o, F2, t2) => Some (o, F2, t1 ++ t2) | None => None end
      | None => None
      end
  end.

Definition xexec (fuel : nat) := xexecs (xexec1 fuel).
