(** Whole-program theorem for the first-order core with loop*/recur, throw and
    try/catch/finally. *)
From Coq Require Import List ZArith NArith Bool Lia Arith.
Import ListNotations.
From Verif Require Import C01.Sim C01L.LSim C01L.LTop C01X.XLisp C01X.XPy C01X.XGen C01X.XMono C01X.XSim.
Local Open Scope N_scope.

(** If the evaluation rules give an outcome for a closed hazard-free program -- a value, or
    an exception that leaves the program -- then for every sufficiently large fuel the compiled
    code yields exactly that outcome with exactly that trace: a raised exception skips the
    rest of every enclosing form up to the nearest matching catch, the handler runs with its
    local bound to the exception, the finally clause runs exactly once on every way out (and
    an exception raised by it replaces the pending outcome), and an exception leaves any
    number of enclosing loops. *)
Theorem xcompile_correct fuel e o tr :
  xeval fuel (fun _ => None) e = Some (o, tr) -> hazard_free e = true ->
  match o with
  | OVal v => exists m, forall m', (m <= m')%nat -> xrun m' e = Some (XRVal v tr)
  | OExc c _ => exists m, forall m', (m <= m')%nat -> xrun m' e = Some (XRExc c tr)
  | ORec _ => True
  end.
Proof.
  intros He Hh. unfold hazard_free, xrun in *.
  destruct (xgen (fun _ => None) [] 0 e) as [[[d pe] n'] k] eqn:G. subst k.
  destruct (xsim_all fuel e _ _ _ _ _ _ _ _ _ _ R2_empty He G) as (_ & Hrest).
  destruct o as [v|vs|c p]; [| exact I |].
  - destruct Hrest as (m & F' & t1 & t2 & X & P & T & _).
    exists m. intros m' Hm. rewrite (xexec_mono m m' _ _ _ Hm X), P, T. reflexivity.
  - destruct Hrest as (m & F' & X & _).
    exists m. intros m' Hm. rewrite (xexec_mono m m' _ _ _ Hm X). reflexivity.
Qed.

Definition tr1 (z : Z) : xexpr := XCall PTrace [XConst (VInt z)].

(** (try (do (t 1) (throw (ex 1 7)) (t 2)) (catch C1 x (do (t 3) x)) (finally (t 4))) *)
Definition caught : xexpr :=
  XTry (XDo (tr1 1) (XDo (XThrow (XCall (PMkExc 1) [XConst (VInt 7)])) (tr1 2)))
       (Some (1, 0)) (XDo (tr1 3) (XLocal 0)) true (tr1 4).

(** (loop* [i 0] (do (try (if (< i 2) nil (throw (ex 2 i))) (finally (t i))) (recur (inc i)))) *)
Definition escaping : xexpr :=
  XLoop [(0, XConst (VInt 0))]
    (XDo (XTry (XIf (XCall PLt [XLocal 0; XConst (VInt 2)]) (XConst VNil) (XThrow (XCall (PMkExc 2) [XLocal 0])))
               None (XConst VNil) true (XCall PTrace [XLocal 0]))
         (XRecur [XCall PInc [XLocal 0]])).
Example caught_ok :
  hazard_free caught = true /\
  xeval 30 (fun _ => None) caught = Some (OVal (VExc 1 (VInt 7)), [VInt 1; VInt 3; VInt 4]) /\
  xrun 30 caught = Some (XRVal (VExc 1 (VInt 7)) [VInt 1; VInt 3; VInt 4]).
Proof. repeat split; vm_compute; reflexivity. Qed.

Example escaping_ok :
  hazard_free escaping = true /\
  xeval 60 (fun _ => None) escaping = Some (OExc 2 (VInt 2), [VInt 0; VInt 1; VInt 2]) /\
  xrun 60 escaping = Some (XRExc 2 [VInt 0; VInt 1; VInt 2]).
Proof. repeat split; vm_compute; reflexivity. Qed.
