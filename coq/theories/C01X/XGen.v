(** Generator model for the exception extension (generator.py: _throw_to_py_ast,
    _try_to_py_ast / __catch_to_py_ast on top of the loop fragment). *)
From Coq Require Import List ZArith NArith Bool.
Import ListNotations.
From Verif Require Import C01X.XLisp C01X.XPy.
From Verif Require C01.Gen C01L.LGen.
Local Open Scope N_scope.

Definition senv := N -> option pname.
Definition atomic := Verif.C01.Gen.atomic.

Definition xquiet_with (q : xstmt -> bool) : list xstmt -> bool :=
  fix go (l : list xstmt) : bool := match l with [] => true | s :: r => q s && go r end.

Fixpoint xquiet1 (s : xstmt) : bool :=
  match s with
  | XAssign _ e | XExpr e => atomic e
  | XSIf _ fb tb => xquiet_with xquiet1 fb && xquiet_with xquiet1 tb
  | _ => false
  end.
Definition xquiet := xquiet_with xquiet1.

Definition xout := (list xstmt * pexpr * N * bool)%type.

Definition xgen_args (g : N -> xexpr -> xout) : list xexpr -> N -> list xstmt * list pexpr * N * bool :=
  fix go (l : list xexpr) (n : N) :=
    match l with
    | [] => ([], [], n, true)
    | a :: r =>
        let '(d, e, n1, k1) := g n a in
        let '(ds, es, n2, k2) := go r n1 in
        (d ++ ds, e :: es, n2, k1 && k2 && (atomic e || xquiet ds))
    end.

Definition assign_all (names : list pname) (es : list pexpr) : xstmt :=
  match names, es with
  | [x], [e1] => XAssign x e1
  | _, _ => XAssignTuple names es
  end.

Notation nodupb := Verif.C01L.LGen.nodupb.

Definition xgen_binds_with (g : senv -> N -> xexpr -> xout)
  : list (N * xexpr) -> senv -> N -> list xstmt * list pname * senv * N * bool :=
  fix go (l : list (N * xexpr)) (sg : senv) (n : N) :=
    match l with
    | [] => ([], [], sg, n, true)
    | (x, i) :: r =>
        let '(di, ei, n1, k1) := g sg n i in
        let p := NLocal x n1 in
        let '(ds, ps, sg2, n2, k2) := go r (upd sg x p) (n1 + 1) in
        (di ++ [XAssign p ei] ++ ds, p :: ps, sg2, n2, k1 && k2)
    end.

(** does the expression contain a `recur` in tail position (one that would cross a try)? *)
Fixpoint tail_recur (e : xexpr) : bool :=
  match e with
  | XRecur _ => true
  | XIf _ t e => tail_recur t || tail_recur e
  | XDo _ r => tail_recur r
  | XLet _ _ b => tail_recur b
  | XTry b h hb _ _ => tail_recur b || match h with Some _ => tail_recur hb | None => false end
  | _ => false
  end.

Fixpoint xgen (sg : senv) (lp : list pname) (n : N) (e : xexpr) : xout :=
  match e with
  | XConst v => ([], PConst v, n, true)
  | XLocal x => ([], PName (match sg x with Some p => p | None => NLocal x 0 end), n, true)
  | XIf c t e =>
      let '(dc, ec, n1, k1) := xgen sg lp n c in
      let test := NTemp n1 in
      let res := NTemp (n1 + 1) in
      let '(dt, et, n2, k2) := xgen sg lp (n1 + 2) t in
      let '(de, ee, n3, k3) := xgen sg lp n2 e in
      (dc ++ [XAssign test ec; XSIf test (de ++ [XAssign res ee]) (dt ++ [XAssign res et])],
       PName res, n3, k1 && k2 && k3)
  | XDo s r =>
      let '(ds, es, n1, k1) := xgen sg lp n s in
      let '(dr, er, n2, k2) := xgen sg lp n1 r in
      (ds ++ [XExpr es] ++ dr, er, n2, k1 && k2)
  | XLet x i b =>
      let '(di, ei, n1, k1) := xgen sg lp n i in
      let p := NLocal x n1 in
      let '(db, eb, n2, k2) := xgen (upd sg x p) lp (n1 + 1) b in
      (di ++ [XAssign p ei] ++ db, eb, n2, k1 && k2)
  | XCall f args =>
      let '(ds, es, n', k) := xgen_args (fun n a => xgen sg lp n a) args n in
      (ds, PCall f es, n', k)
  | XLoop binds body =>
      let res := NTemp n in
      let '(dbs, names, sg1, n1, k1) := xgen_binds_with (fun sg n i => xgen sg lp n i) binds sg (n + 1) in
      let '(db, eb, n2, k2) := xgen sg1 names n1 body in
      ([XAssign res (PConst VNil)] ++ dbs ++ [XWhile (db ++ [XAssign res eb; XBreak])], PName res, n2,
       k1 && k2 && nodupb (map fst binds))
  | XRecur args =>
      let '(ds, es, n', k) := xgen_args (fun n a => xgen sg lp n a) args n in
      (ds ++ [assign_all lp es; XContinue], PConst VNil, n', k)
  | XThrow x =>
      let '(dx, ex, n1, k1) := xgen sg lp n x in
      (dx ++ [XRaise ex], PConst VNil, n1, k1)
  | XTry body h hb hasfin fe =>
      let res := NTemp n in
      let '(db, eb, n1, k1) := xgen sg lp (n + 1) body in
      let '(hh, n2, k2) :=
        match h with
        | Some (cls, x) =>
            let p := NLocal x n1 in
            let '(dh, eh, n2, k2) := xgen (upd sg x p) lp (n1 + 1) hb in
            (Some (cls, p, dh ++ [XAssign res eh]), n2, k2)
        | None => (None, n1, true)
        end in
      let '(f, n3, k3) :=
        if hasfin then let '(df, ef, n3, k3) := xgen sg lp n2 fe in (df ++ [XExpr ef], n3, k3)
        else ([], n2, true) in
      ([XSTry (db ++ [XAssign res eb]) hh f], PName res, n3,
       k1 && k2 && k3 && negb (tail_recur e))
  end.

Definition xgen_list (sg : senv) (lp : list pname) (n : N) (l : list xexpr) := xgen_args (xgen sg lp) l n.
Definition xgen_binds (sg : senv) (lp : list pname) (n : N) (l : list (N * xexpr)) :=
  xgen_binds_with (fun sg n i => xgen sg lp n i) l sg n.

Lemma xgen_binds_cons sg lp n x i r :
  xgen_binds sg lp n ((x, i) :: r) =
    let '(di, ei, n1, k1) := xgen sg lp n i in
    let p := NLocal x n1 in
    let '(ds, ps, sg2, n2, k2) := xgen_binds (upd sg x p) lp (n1 + 1) r in
    (di ++ [XAssign p ei] ++ ds, p :: ps, sg2, n2, k1 && k2).
Proof. reflexivity. Qed.

Lemma xgen_list_cons sg lp n a r :
  xgen_list sg lp n (a :: r) =
    let '(d, e, n1, k1) := xgen sg lp n a in
    let '(ds, es, n2, k2) := xgen_list sg lp n1 r in
    (d ++ ds, e :: es, n2, k1 && k2 && (atomic e || xquiet ds)).
Proof. reflexivity. Qed.

Definition hazard_free (e : xexpr) : bool :=
  let '(_, _, _, k) := xgen (fun _ => None) [] 0 e in k.

Inductive xresult := XRVal (v : value) (t : trace) | XRExc (cls : N) (t : trace).

Definition xrun (fuel : nat) (e : xexpr) : option xresult :=
  let '(d, pe, _, _) := xgen (fun _ => None) [] 0 e in
  match xexec fuel (fun _ => None) d with
  | Some (Normal, F, t1) => match peval F pe with Some (v, t2) => Some (XRVal v (t1 ++ t2)) | None => None end
  | Some (Exc c _, _, t1) => Some (XRExc c t1)
  | _ => None
  end.
