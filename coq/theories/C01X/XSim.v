(** Forward simulation for the first-order core with loop*/recur, throw and
    try/catch/finally. *)
From Coq Require Import List ZArith NArith Bool Lia Arith.
Import ListNotations.
From Verif Require Import C01.Sim C01L.LSim C01X.XLisp C01X.XPy C01X.XGen C01X.XMono.
Local Open Scope N_scope.

Lemma xquiet_cons s r : xquiet (s :: r) = xquiet1 s && xquiet r.
Proof. reflexivity. Qed.
Lemma xquiet_app a b : xquiet (a ++ b) = xquiet a && xquiet b.
Proof.
  induction a as [|s r IH]; [reflexivity|].
  rewrite <- app_comm_cons, !xquiet_cons, IH, andb_assoc. reflexivity.
Qed.

(** quiet statements run to completion without effects *)
Lemma xquiet_normal : forall m,
  (forall F s o F' t, xquiet1 s = true -> xexec1 m F s = Some (o, F', t) -> o = Normal /\ t = []) /\
  (forall F l o F' t, xquiet l = true -> xexec m F l = Some (o, F', t) -> o = Normal /\ t = []).
Proof.
  induction m as [|m [IH1 IH2]].
  - split; [intros; discriminate|].
    intros F l o F' t Hq H. destruct l as [|s l]; [inversion H; auto|]. rewrite xexec_cons in H. discriminate.
  - assert (S1 : forall F s o F' t, xquiet1 s = true -> xexec1 (S m) F s = Some (o, F', t) -> o = Normal /\ t = []).
    { intros F s o F' t Hq H. destruct s; try discriminate; cbn [xquiet1] in Hq; cbn [xexec1] in H.
      - destruct (peval F e) as [[v t']|] eqn:E; [|discriminate]. inversion H; subst.
        split; [reflexivity|eapply atomic_no_trace; eauto].
      - destruct (peval F e) as [[v t']|] eqn:E; [|discriminate]. inversion H; subst.
        split; [reflexivity|eapply atomic_no_trace; eauto].
      - apply andb_true_iff in Hq as [Q1 Q2]. destruct (F test) as [v|]; [|discriminate].
        fold (xexec m) in H. eapply IH2; [|exact H]. destruct (falsey v); assumption. }
    split; [exact S1|].
    intros F l. revert F. induction l as [|s l IHl]; intros F o F' t Hq H.
    + inversion H; auto.
    + rewrite xquiet_cons in Hq. apply andb_true_iff in Hq as [Q1 Q2]. rewrite xexec_cons in H.
      destruct (xexec1 (S m) F s) as [[[o1 F1] t1]|] eqn:E1; [|discriminate].
      destruct (S1 F s o1 F1 t1 Q1 E1) as [-> ->].
      destruct (xexec (S m) F1 l) as [[[o2 F2] t2]|] eqn:E2; [|discriminate].
      destruct (IHl F1 o2 F2 t2 Q2 E2) as [-> ->]. inversion H; subst. auto.
Qed.

Lemma xquiet_no_exc m F l o F' t : xquiet l = true -> xexec m F l = Some (o, F', t) -> o = Normal /\ t = [].
Proof. apply (proj2 (xquiet_normal m)). Qed.

Lemma exec_assign_all m F lp es vs t F' :
  peval_list F es = Some (vs, t) -> set_all F lp vs = Some F' ->
  xexec1 (S m) F (assign_all lp es) = Some (Normal, F', t).
Proof.
  intros Hp Hs. unfold assign_all.
  destruct lp as [|x [|y r]]; try (cbn [xexec1]; rewrite Hp, Hs; reflexivity).
  destruct es as [|e1 [|e2 er]]; try (cbn [xexec1]; rewrite Hp, Hs; reflexivity).
  simpl in Hp. destruct (peval F e1) as [[v1 t1]|] eqn:E1; [|discriminate].
  inversion Hp; subst. simpl in Hs. inversion Hs; subst.
  cbn [xexec1]. rewrite E1, app_nil_r. reflexivity.
Qed.

Lemma agree_unset n F p : n <= idx p -> agree_below n F (unset F p).
Proof.
  intros L q Hq. unfold unset. destruct (pname_eqb q p) eqn:E; [|reflexivity].
  apply pname_eqb_eq in E. subst. lia.
Qed.

(** ---- the simulation statement ---- *)
Definition xsim (fuel : nat) : Prop :=
  forall e sg lp n rho F o tr d pe n',
    R2 rho sg F n -> xeval fuel rho e = Some (o, tr) -> xgen sg lp n e = (d, pe, n', true) ->
    n <= n' /\
    match o with
    | OVal v =>
        exists m F' t1 t2,
          xexec m F d = Some (Normal, F', t1) /\ peval F' pe = Some (v, t2) /\ tr = t1 ++ t2 /\
          agree_below n F F' /\ nb n' pe = true
    | ORec vs =>
        length vs = length lp ->
        exists m F' F'', xexec m F d = Some (Cont, F'', tr) /\ agree_below n F F' /\ set_all F' lp vs = Some F''
    | OExc c p => exists m F', xexec m F d = Some (Exc c p, F', tr) /\ agree_below n F F'
    end.

Definition xsim_list (fuel : nat) : Prop :=
  forall l sg lp n rho F res tr ds es n',
    R2 rho sg F n -> evals (xeval fuel) rho l = Some (res, tr) -> xgen_list sg lp n l = (ds, es, n', true) ->
    n <= n' /\
    match res with
    | LVals vs =>
        exists m F' t1 t2,
          xexec m F ds = Some (Normal, F', t1) /\ peval_list F' es = Some (vs, t2) /\ tr = t1 ++ t2 /\
          agree_below n F F' /\ forallb (nb n') es = true
    | LExc c p => exists m F', xexec m F ds = Some (Exc c p, F', tr) /\ agree_below n F F'
    end.

Section XexprInd.
  Variable P : xexpr -> Prop.
  Hypothesis HConst : forall v, P (XConst v).
  Hypothesis HLocal : forall x, P (XLocal x).
  Hypothesis HIf : forall c t e, P c -> P t -> P e -> P (XIf c t e).
  Hypothesis HDo : forall s r, P s -> P r -> P (XDo s r).
  Hypothesis HLet : forall x i b, P i -> P b -> P (XLet x i b).
  Hypothesis HCall : forall f args, Forall P args -> P (XCall f args).
  Hypothesis HLoop : forall binds body, Forall (fun xb => P (snd xb)) binds -> P body -> P (XLoop binds body).
  Hypothesis HRecur : forall args, Forall P args -> P (XRecur args).
  Hypothesis HThrow : forall e, P e -> P (XThrow e).
  Hypothesis HTry : forall b h hb hasfin fe, P b -> P hb -> P fe -> P (XTry b h hb hasfin fe).
  Fixpoint xexpr_ind' (e : xexpr) : P e :=
    match e with
    | XConst v => HConst v
    | XLocal x => HLocal x
    | XIf c t e => HIf c t e (xexpr_ind' c) (xexpr_ind' t) (xexpr_ind' e)
    | XDo s r => HDo s r (xexpr_ind' s) (xexpr_ind' r)
    | XLet x i b => HLet x i b (xexpr_ind' i) (xexpr_ind' b)
    | XCall f args =>
        HCall f args ((fix go (l : list xexpr) : Forall P l :=
                         match l with [] => Forall_nil P | a :: r => Forall_cons a (xexpr_ind' a) (go r) end) args)
    | XLoop binds body =>
        HLoop binds body
          ((fix go (l : list (N * xexpr)) : Forall (fun xb => P (snd xb)) l :=
              match l with [] => Forall_nil _ | xb :: r => Forall_cons xb (xexpr_ind' (snd xb)) (go r) end) binds)
          (xexpr_ind' body)
    | XRecur args =>
        HRecur args ((fix go (l : list xexpr) : Forall P l :=
                        match l with [] => Forall_nil P | a :: r => Forall_cons a (xexpr_ind' a) (go r) end) args)
    | XThrow e => HThrow e (xexpr_ind' e)
    | XTry b h hb hasfin fe => HTry b h hb hasfin fe (xexpr_ind' b) (xexpr_ind' hb) (xexpr_ind' fe)
    end.
End XexprInd.

Lemma xgen_mono : forall e sg lp n d pe n' k, xgen sg lp n e = (d, pe, n', k) -> n <= n'.
Proof.
  assert (LL : forall args, Forall (fun e => forall sg lp n d pe n' k, xgen sg lp n e = (d, pe, n', k) -> n <= n') args ->
               forall sg lp n ds es n' k, xgen_list sg lp n args = (ds, es, n', k) -> n <= n').
  { induction args as [|a r IHr]; intros HF sg lp n ds es n' k G.
    - cbv in G. inversion G; lia.
    - rewrite xgen_list_cons in G.
      destruct (xgen sg lp n a) as [[[? ?] b1] ?] eqn:Ga.
      destruct (xgen_list sg lp b1 r) as [[[? ?] b2] ?] eqn:Gr.
      cbv beta iota in G. inversion G; subst. inversion HF as [|? ? Pa Pr]; subst.
      apply Pa in Ga. apply (IHr Pr) in Gr. lia. }
  induction e as [c|x|c t e IHc IHt IHe|s r IHs IHr|x i b IHi IHb|f args IHargs|binds body IHbinds IHbody|args IHargs
                  |e IHe|b h hb hasfin fe IHb IHh IHf]
    using xexpr_ind'; intros sg lp n d pe n' k G; cbn [xgen] in G.
  - inversion G; lia.
  - inversion G; lia.
  - destruct (xgen sg lp n c) as [[[? ?] a1] ?] eqn:G1.
    destruct (xgen sg lp (a1 + 2) t) as [[[? ?] a2] ?] eqn:G2.
    destruct (xgen sg lp a2 e) as [[[? ?] a3] ?] eqn:G3. cbv beta iota zeta in G. inversion G; subst.
    apply IHc in G1. apply IHt in G2. apply IHe in G3. lia.
  - destruct (xgen sg lp n s) as [[[? ?] a1] ?] eqn:G1.
    destruct (xgen sg lp a1 r) as [[[? ?] a2] ?] eqn:G2. cbv beta iota in G. inversion G; subst.
    apply IHs in G1. apply IHr in G2. lia.
  - destruct (xgen sg lp n i) as [[[? ?] a1] ?] eqn:G1. cbv zeta in G.
    destruct (xgen (upd sg x (NLocal x a1)) lp (a1 + 1) b) as [[[? ?] a2] ?] eqn:G2. cbv beta iota in G. inversion G; subst.
    apply IHi in G1. apply IHb in G2. lia.
  - change (xgen_args (fun n a => xgen sg lp n a) args n) with (xgen_list sg lp n args) in G.
    destruct (xgen_list sg lp n args) as [[[ds es] a1] ka] eqn:G1. cbv beta iota in G. inversion G; subst.
    eapply LL; eauto.
  - change (xgen_binds_with (fun sg n i => xgen sg lp n i) binds sg (n + 1)) with (xgen_binds sg lp (n + 1) binds) in G.
    cbv zeta in G.
    destruct (xgen_binds sg lp (n + 1) binds) as [[[[dbs names] sg1] n1] k1] eqn:Gb.
    destruct (xgen sg1 names n1 body) as [[[db eb] n2] k2] eqn:Gbody. cbv beta iota in G. inversion G; subst.
    apply IHbody in Gbody.
    assert (n + 1 <= n1).
    { clear - Gb IHbinds. revert sg dbs names sg1 n1 k1 Gb. generalize (n + 1).
      induction binds as [|[x i] r IHr]; intros m sg dbs names sg1 n1 k1 Gb.
      - cbv in Gb. inversion Gb; lia.
      - rewrite xgen_binds_cons in Gb.
        destruct (xgen sg lp m i) as [[[? ?] b1] ?] eqn:Gi. cbv zeta in Gb.
        destruct (xgen_binds (upd sg x (NLocal x b1)) lp (b1 + 1) r) as [[[[? ?] ?] b2] ?] eqn:Gr.
        cbv beta iota in Gb. inversion Gb; subst.
        inversion IHbinds as [|? ? Pi Pr]; subst. simpl in Pi. apply Pi in Gi. apply (IHr Pr) in Gr. lia. }
    lia.
  - change (xgen_args (fun n a => xgen sg lp n a) args n) with (xgen_list sg lp n args) in G.
    destruct (xgen_list sg lp n args) as [[[ds es] a1] ka] eqn:G1. cbv beta iota in G. inversion G; subst.
    eapply LL; eauto.
  - destruct (xgen sg lp n e) as [[[? ?] a1] ?] eqn:G1. cbv beta iota in G. inversion G; subst.
    apply IHe in G1. exact G1.
  - cbv zeta in G.
    destruct (xgen sg lp (n + 1) b) as [[[db eb] n1] k1] eqn:Gb.
    assert (Lb : n + 1 <= n1) by (eapply IHb; eauto).
    destruct h as [[cls x]|].
    + cbv zeta in G.
      destruct (xgen (upd sg x (NLocal x n1)) lp (n1 + 1) hb) as [[[dh eh] n2] k2] eqn:Gh.
      assert (Lh : n1 + 1 <= n2) by (eapply IHh; eauto).
      destruct hasfin.
      * destruct (xgen sg lp n2 fe) as [[[df ef] n3] k3] eqn:Gf. cbv beta iota in G. inversion G; subst.
        assert (n2 <= n') by (eapply IHf; eauto). lia.
      * cbv beta iota in G. inversion G; subst. lia.
    + destruct hasfin.
      * destruct (xgen sg lp n1 fe) as [[[df ef] n3] k3] eqn:Gf. cbv beta iota in G. inversion G; subst.
        assert (n1 <= n') by (eapply IHf; eauto). lia.
      * cbv beta iota in G. inversion G; subst. lia.
Qed.

Lemma xgen_list_mono : forall r sg lp m ds es n' k, xgen_list sg lp m r = (ds, es, n', k) -> m <= n'.
Proof.
  induction r as [|b r IHr]; intros sg lp m ds es n' k G.
  - cbv in G. inversion G; lia.
  - rewrite xgen_list_cons in G.
    destruct (xgen sg lp m b) as [[[? ?] b1] ?] eqn:Gb.
    destruct (xgen_list sg lp b1 r) as [[[? ?] b2] ?] eqn:Gr. cbv beta iota in G. inversion G; subst.
    apply xgen_mono in Gb. apply IHr in Gr. lia.
Qed.

Lemma xsim_list_of fuel : xsim fuel -> xsim_list fuel.
Proof.
  intros HS l. induction l as [|a r IH]; intros sg lp n rho F res tr ds es n' HR He Hg.
  - simpl in He. inversion He; subst. cbv in Hg. inversion Hg; subst.
    split; [lia|]. exists 1%nat, F, [], []. repeat split; auto using agree_refl.
  - simpl in He.
    rewrite xgen_list_cons in Hg.
    destruct (xgen sg lp n a) as [[[d e] n1] k1] eqn:Ga.
    destruct (xgen_list sg lp n1 r) as [[[ds' es'] n2] k2] eqn:Gr.
    cbv beta iota in Hg. injection Hg as Hg1 Hg2 Hg3 Hk. subst.
    apply andb_true_iff in Hk as [Hk Hhz]. apply andb_true_iff in Hk as [Hk1 Hk2]. subst.
    pose proof (xgen_mono _ _ _ _ _ _ _ _ Ga) as La.
    pose proof (xgen_list_mono _ _ _ _ _ _ _ _ Gr) as Lr.
    destruct (xeval fuel rho a) as [[[va|?|ca pa] ta]|] eqn:Ea; try discriminate.
    + (* the head evaluates to a value *)
      destruct (HS a sg lp n rho F (OVal va) ta d e n1 HR Ea Ga) as (L1 & m1 & F1 & ta1 & ta2 & X1 & P1 & T1 & A1 & N1).
      assert (HR1 : R2 rho sg F1 n1) by (eapply R2_mono; eauto).
      destruct (evals (xeval fuel) rho r) as [[[vr|cr pr] trr]|] eqn:Er; try discriminate.
      * inversion He; subst; clear He.
        destruct (IH sg lp n1 rho F1 (LVals vr) trr ds' es' n' HR1 Er Gr)
          as (L2 & m2 & F2 & ts1 & ts2 & X2 & P2 & T2 & A2 & N2).
        split; [lia|].
        exists (Nat.max m1 m2), F2, (ta1 ++ ts1), (ta2 ++ ts2).
        split; [eapply xexec_seq; eauto|].
        split; [simpl; rewrite (peval_agree n1 F1 F2 e N1 A2), P1, P2; reflexivity|].
        split.
        { subst. apply orb_true_iff in Hhz as [Hat|Hq].
          - rewrite (atomic_no_trace _ _ _ _ Hat P1). rewrite !app_nil_r, ?app_nil_l. apply app_assoc.
          - destruct (xquiet_no_exc _ _ _ _ _ _ Hq X2) as [_ ->]. rewrite !app_nil_r, ?app_nil_l. rewrite app_assoc. reflexivity. }
        split; [eapply agree_trans; eauto|].
        simpl. rewrite (nb_mono n1 n' e L2 N1). exact N2.
      * inversion He; subst; clear He.
        destruct (IH sg lp n1 rho F1 (LExc cr pr) trr ds' es' n' HR1 Er Gr) as (L2 & m2 & F2 & X2 & A2).
        split; [lia|].
        exists (Nat.max m1 m2), F2.
        split; [|eapply agree_trans; eauto].
        (* the later dependencies raise: they are not quiet, so the head's inline expression is atomic *)
        apply orb_true_iff in Hhz as [Hat|Hq].
        -- pose proof (xexec_seq _ _ _ _ _ _ _ _ _ _ X1 X2) as X3.
           rewrite (atomic_no_trace _ _ _ _ Hat P1), app_nil_r. exact X3.
        -- destruct (xquiet_no_exc _ _ _ _ _ _ Hq X2) as [Habs _]. discriminate.
    + (* the head raises *)
      inversion He; subst; clear He.
      destruct (HS a sg lp n rho F (OExc ca pa) tr d e n1 HR Ea Ga) as (L1 & m1 & F1 & X1 & A1).
      split; [lia|]. exists m1, F1. split; [|exact A1].
      apply xexec_stop; [discriminate|exact X1].
Qed.

(** loop bindings: either all bound, or an initialiser raised *)
Definition xsim_binds (fuel : nat) : Prop :=
  forall l sg lp n rho F b tr dbs names sg1 n1,
    R2 rho sg F n -> evbinds (xeval fuel) rho l = Some (b, tr) ->
    xgen_binds sg lp n l = (dbs, names, sg1, n1, true) -> NoDup (map fst l) ->
    n <= n1 /\
    match b with
    | BEnv rho1 =>
        exists m F1,
          xexec m F dbs = Some (Normal, F1, tr) /\ R2 rho1 sg1 F1 n1 /\ agree_below n F F1 /\
          Forall2 (fun x p => sg1 x = Some p /\ idx p < n1) (map fst l) names /\
          Forall (fun p => n <= idx p) names /\ NoDup names /\
          (forall y, ~ In y (map fst l) -> sg1 y = sg y)
    | BExc c p => exists m F1, xexec m F dbs = Some (Exc c p, F1, tr) /\ agree_below n F F1
    end.

Lemma xgen_binds_mono : forall l sg lp n dbs names sg1 n1 k,
  xgen_binds sg lp n l = (dbs, names, sg1, n1, k) -> n <= n1.
Proof.
  induction l as [|[x i] r IH]; intros sg lp n dbs names sg1 n1 k G.
  - cbv in G. inversion G; lia.
  - rewrite xgen_binds_cons in G.
    destruct (xgen sg lp n i) as [[[? ?] b1] ?] eqn:Gi. cbv zeta in G.
    destruct (xgen_binds (upd sg x (NLocal x b1)) lp (b1 + 1) r) as [[[[? ?] ?] b2] ?] eqn:Gr.
    cbv beta iota in G. inversion G; subst. apply xgen_mono in Gi. apply IH in Gr. lia.
Qed.

Lemma xsim_binds_of fuel : xsim fuel -> xsim_binds fuel.
Proof.
  intros HS l. induction l as [|[x i] r IH]; intros sg lp n rho F b tr dbs names sg1 n1 HR He Hg ND.
  - simpl in He. inversion He; subst. cbv in Hg. inversion Hg; subst.
    split; [lia|]. exists 1%nat, F. split; [reflexivity|]. split; [exact HR|].
    repeat split; auto using agree_refl; constructor.
  - simpl in He.
    pose proof (xgen_binds_mono _ _ _ _ _ _ _ _ _ Hg) as Lall.
    rewrite xgen_binds_cons in Hg.
    destruct (xgen sg lp n i) as [[[di ei] n1'] k1] eqn:Gi. cbv zeta in Hg.
    destruct (xgen_binds (upd sg x (NLocal x n1')) lp (n1' + 1) r) as [[[[ds ps] sg2] n2] k2] eqn:Gr.
    cbv beta iota in Hg. injection Hg as Hg1 Hg2 Hg3 Hg4 Hk. subst.
    apply andb_true_iff in Hk as [Hk1 Hk2]. subst.
    simpl in ND. inversion ND as [|? ? Hnin ND']; subst.
    split; [exact Lall|].
    destruct (xeval fuel rho i) as [[[v|?|ci pi] t1]|] eqn:Ei; try discriminate.
    + destruct (HS i sg lp n rho F (OVal v) t1 di ei n1' HR Ei Gi)
        as (L1 & m1 & F1 & ti1 & ti2 & X1 & P1 & T1 & A1 & N1).
      set (p := NLocal x n1') in *.
      assert (HR1 : R2 (upd rho x v) (upd sg x p) (set F1 p v) (n1' + 1)) by (eapply R2_let; eauto).
      assert (Xa : xexec 1 F1 [XAssign p ei] = Some (Normal, set F1 p v, ti2)).
      { rewrite xexec_cons, (xexec1_S_assign 0 F1 p ei v ti2 P1), xexec_nil, app_nil_r. reflexivity. }
      assert (Ap : agree_below n F (set F1 p v)).
      { apply (agree_trans n n F F1 (set F1 p v)); [apply N.le_refl|exact A1|]. apply agree_set. unfold p. simpl. lia. }
      destruct (evbinds (xeval fuel) (upd rho x v) r) as [[b' t2]|] eqn:Er; [|discriminate].
      inversion He; subst; clear He.
      destruct (IH (upd sg x p) lp (n1' + 1) (upd rho x v) (set F1 p v) b t2 ds ps sg1 n1 HR1 Er Gr ND') as (L2 & Hrest).
      destruct b as [rho1|cb pb].
      * destruct Hrest as (m2 & F2 & X2 & HR2 & A2 & FA & FN & NDp & Hout).
        exists (Nat.max m1 (Nat.max 1 m2)), F2.
        split.
        { pose proof (xexec_seq 1 m2 F1 [XAssign p ei] ds _ _ _ _ _ Xa X2) as X3.
          pose proof (xexec_seq m1 (Nat.max 1 m2) F di ([XAssign p ei] ++ ds) _ _ _ _ _ X1 X3) as X4.
          rewrite <- ?app_assoc. rewrite <- ?app_assoc in X4. exact X4. }
        split; [exact HR2|].
        split; [apply (agree_trans n n F (set F1 p v) F2); [apply N.le_refl|exact Ap|apply (agree_weaken n (n1' + 1)); [lia|exact A2]]|].
        split.
        { constructor; [|exact FA]. split; [|unfold p; simpl; lia].
          rewrite Hout by exact Hnin. unfold upd. rewrite N.eqb_refl. reflexivity. }
        split.
        { constructor; [unfold p; simpl; lia|]. eapply Forall_impl; [|exact FN]. intros q Hq. cbv beta in *. lia. }
        split.
        { constructor; [|exact NDp]. intro Hin. rewrite Forall_forall in FN. specialize (FN _ Hin). unfold p in FN. simpl in FN. lia. }
        intros y Hy. rewrite Hout by (intro X; apply Hy; right; exact X).
        unfold upd. destruct (N.eqb y x) eqn:E; [|reflexivity].
        apply N.eqb_eq in E. subst. exfalso. apply Hy. left; reflexivity.
      * destruct Hrest as (m2 & F2 & X2 & A2).
        exists (Nat.max m1 (Nat.max 1 m2)), F2.
        split.
        { pose proof (xexec_seq 1 m2 F1 [XAssign p ei] ds _ _ _ _ _ Xa X2) as X3.
          pose proof (xexec_seq m1 (Nat.max 1 m2) F di ([XAssign p ei] ++ ds) _ _ _ _ _ X1 X3) as X4.
          rewrite <- ?app_assoc. rewrite <- ?app_assoc in X4. exact X4. }
        apply (agree_trans n n F (set F1 p v) F2); [apply N.le_refl|exact Ap|apply (agree_weaken n (n1' + 1)); [lia|exact A2]].
    + inversion He; subst; clear He.
      destruct (HS i sg lp n rho F (OExc ci pi) tr di ei n1' HR Ei Gi) as (L1 & m1 & F1 & X1 & A1).
      exists m1, F1. split; [|exact A1]. apply xexec_stop; [discriminate|exact X1].
Qed.

(** one loop: every iteration of the source loop is one iteration of `while True`; the loop
    is left by a value (break) or by an exception *)
Lemma loop_sim fuel0 : (forall k, (k < fuel0)%nat -> xsim k) ->
  forall k, (k <= fuel0)%nat ->
  forall xs rho1 body o t sg1 names n1 F1 db eb n2 res,
    xloop k xs rho1 body = Some (o, t) ->
    R2 rho1 sg1 F1 n1 -> xgen sg1 names n1 body = (db, eb, n2, true) ->
    Forall2 (fun x p => sg1 x = Some p /\ idx p < n1) xs names -> NoDup names ->
    (forall y q, ~ In y xs -> sg1 y = Some q -> ~ In q names) ->
    Forall (fun p => idx res < idx p) names -> idx res < n1 ->
    match o with
    | OVal v => exists m F2, xwhile m F1 (db ++ [XAssign res eb; XBreak]) = Some (Normal, F2, t) /\
                             F2 res = Some v /\ agree_below (idx res) F1 F2
    | OExc c p => exists m F2, xwhile m F1 (db ++ [XAssign res eb; XBreak]) = Some (Exc c p, F2, t) /\
                               agree_below (idx res) F1 F2
    | ORec _ => False
    end.
Proof.
  intros HS. induction k as [|k IHk]; intros Hk xs rho1 body o t sg1 names n1 F1 db eb n2 res
                                        Hl HR Hg HF ND Hout Hres Hres2; [discriminate|].
  cbn [xloop] in Hl.
  destruct (xeval k rho1 body) as [[[vb|vs|cb pb] t1]|] eqn:Eb; try discriminate.
  - (* value: assign the result and break *)
    inversion Hl; subst; clear Hl.
    destruct (HS k ltac:(lia) body sg1 names n1 rho1 F1 (OVal vb) t db eb n2 HR Eb Hg)
      as (L1 & m & F' & tb1 & tb2 & X & P & T & A & Nb).
    exists (S (Nat.max m 1)), (set F' res vb).
    split.
    { cbn [xwhile].
      assert (Xr : xexec 1 F' [XAssign res eb; XBreak] = Some (Brk, set F' res vb, tb2)).
      { rewrite xexec_cons, (xexec1_S_assign 0 F' res eb vb tb2 P), xexec_cons. cbn [xexec1].
        rewrite app_nil_r. reflexivity. }
      pose proof (xexec_seq m 1 F1 db _ _ _ _ _ _ X Xr) as X2. unfold xexec in X2. rewrite X2, T. reflexivity. }
    split; [apply set_same|].
    apply (agree_trans (idx res) (idx res) F1 F' (set F' res vb)); [apply N.le_refl| |apply agree_set; apply N.le_refl].
    apply (agree_weaken (idx res) n1); [lia|exact A].
  - (* recur *)
    destruct (rebind xs vs rho1) as [rho2|] eqn:Er; [|discriminate].
    destruct (xloop k xs rho2 body) as [[o2 t2]|] eqn:El; [|discriminate].
    inversion Hl; subst; clear Hl.
    assert (Hlen : length vs = length names).
    { rewrite <- (rebind_length _ _ _ _ Er). apply (Forall2_length _ _ _ HF). }
    destruct (HS k ltac:(lia) body sg1 names n1 rho1 F1 (ORec vs) t1 db eb n2 HR Eb Hg) as (L1 & Hrec).
    destruct (Hrec Hlen) as (m & F' & F'' & X & A & Sa).
    assert (HR' : R2 rho1 sg1 F' n1) by (eapply R2_mono; [exact HR|apply N.le_refl|exact A]).
    assert (HR2 : R2 rho2 sg1 F'' n1) by (eapply R2_rebind; eauto).
    pose proof (IHk ltac:(lia) xs rho2 body o t2 sg1 names n1 F'' db eb n2 res El HR2 Hg HF ND Hout Hres Hres2) as Hnext.
    assert (X' : forall m2, xexec (Nat.max m m2) F1 (db ++ [XAssign res eb; XBreak]) = Some (Cont, F'', t1)).
    { intro m2. apply xexec_stop; [discriminate|]. eapply xexec_mono; [apply Nat.le_max_l|exact X]. }
    assert (Ag : forall F2, agree_below (idx res) F'' F2 -> agree_below (idx res) F1 F2).
    { intros F2 A2. apply (agree_trans (idx res) (idx res) F1 F'' F2); [apply N.le_refl| |exact A2].
      intros q Hq. rewrite (set_all_other _ _ _ _ q Sa).
      + apply A. lia.
      + intro Hin. rewrite Forall_forall in Hres. specialize (Hres _ Hin). lia. }
    destruct o as [v|?|c p].
    + destruct Hnext as (m2 & F2 & W & Fr & A2).
      exists (S (Nat.max m m2)), F2.
      split.
      { cbn [xwhile]. specialize (X' m2). unfold xexec in X'. rewrite X'.
        rewrite (xwhile_mono m2 (Nat.max m m2) _ _ _ (Nat.le_max_r _ _) W). reflexivity. }
      split; [exact Fr|apply Ag; exact A2].
    + exact Hnext.
    + destruct Hnext as (m2 & F2 & W & A2).
      exists (S (Nat.max m m2)), F2.
      split.
      { cbn [xwhile]. specialize (X' m2). unfold xexec in X'. rewrite X'.
        rewrite (xwhile_mono m2 (Nat.max m m2) _ _ _ (Nat.le_max_r _ _) W). reflexivity. }
      apply Ag; exact A2.
  - (* the body raises: the exception leaves the loop *)
    inversion Hl; subst; clear Hl.
    destruct (HS k ltac:(lia) body sg1 names n1 rho1 F1 (OExc cb pb) t db eb n2 HR Eb Hg) as (L1 & m & F' & X & A).
    exists (S m), F'.
    split.
    { cbn [xwhile].
      assert (X2 : xexec m F1 (db ++ [XAssign res eb; XBreak]) = Some (Exc cb pb, F', t))
        by (apply xexec_stop; [discriminate|exact X]).
      unfold xexec in X2. rewrite X2. reflexivity. }
    apply (agree_weaken (idx res) n1); [lia|exact A].
Qed.

(** ---- try/catch/finally: the two halves of the Python statement, named ---- *)
Definition py_r1 (m : nat) (F : frame) (body : list xstmt) (handler : option (N * pname * list xstmt))
  : option (sout * frame * trace) :=
  match xexec m F body with
  | Some (Exc c p, F1, t1) =>
      match handler with
      | Some (hc, x, hb) =>
          if catches hc c then
            match xexec m (set F1 x (VExc c p)) hb with
            | Some (o, F2, t2) => Some (o, unset F2 x, t1 ++ t2)
            | None => None
            end
          else Some (Exc c p, F1, t1)
      | None => Some (Exc c p, F1, t1)
      end
  | other => other
  end.

Definition py_fin (m : nat) (r1 : option (sout * frame * trace)) (fin : list xstmt) :=
  match r1 with
  | Some (o, F1, t1) =>
      match xexec m F1 fin with
      | Some (Normal, F2, t2) => Some (o, F2, t1 ++ t2)
      | Some (o2, F2, t2) => Some (o2, F2, t1 ++ t2)
      | None => None
      end
  | None => None
  end.

Lemma xexec1_S_try m F b h f : xexec1 (S m) F (XSTry b h f) = py_fin m (py_r1 m F b h) f.
Proof. reflexivity. Qed.

Lemma py_r1_mono m m' F b h r : (m <= m')%nat -> py_r1 m F b h = Some r -> py_r1 m' F b h = Some r.
Proof.
  intros L H. unfold py_r1 in *.
  destruct (xexec m F b) as [[[o F1] t1]|] eqn:E; [|discriminate].
  rewrite (xexec_mono m m' _ _ _ L E).
  destruct o; try exact H.
  destruct h as [[[hc x] hb]|]; [|exact H].
  destruct (catches hc cls); [|exact H].
  destruct (xexec m (set F1 x (VExc cls payload)) hb) as [[[o2 F2] t2]|] eqn:E2; [|discriminate].
  rewrite (xexec_mono m m' _ _ _ L E2). exact H.
Qed.

Definition src_r1 (fuel : nat) (rho : env) (body : xexpr) (h : option (N * N)) (hb : xexpr) :=
  match xeval fuel rho body with
  | Some (OExc c p, t1) =>
      match h with
      | Some (hc, x) =>
          if catches hc c then
            match xeval fuel (upd rho x (VExc c p)) hb with
            | Some (ORec _, _) => None
            | Some (o, t2) => Some (o, t1 ++ t2)
            | None => None
            end
          else Some (OExc c p, t1)
      | None => Some (OExc c p, t1)
      end
  | Some (ORec _, _) => None
  | other => other
  end.

Definition src_try (fuel : nat) (rho : env) (body : xexpr) (h : option (N * N)) (hb : xexpr) (hasfin : bool) (fe : xexpr) :=
  if negb hasfin then src_r1 fuel rho body h hb else
    match src_r1 fuel rho body h hb with
    | Some (o, t1) =>
        match xeval fuel rho fe with
        | Some (OVal _, t2) => Some (o, t1 ++ t2)
        | Some (OExc c p, t2) => Some (OExc c p, t1 ++ t2)
        | _ => None
        end
    | None => None
    end.

Lemma xeval_S_try fuel rho body h hb hasfin fe :
  xeval (S fuel) rho (XTry body h hb hasfin fe) = src_try fuel rho body h hb hasfin fe.
Proof. reflexivity. Qed.

Lemma xgen_try_inv sg lp n body h hb hasfin fe d pe n' :
  xgen sg lp n (XTry body h hb hasfin fe) = (d, pe, n', true) ->
  exists db eb n1 hh n2 f,
    xgen sg lp (n + 1) body = (db, eb, n1, true) /\
    match h with
    | Some (cls, x) =>
        exists dh eh, xgen (upd sg x (NLocal x n1)) lp (n1 + 1) hb = (dh, eh, n2, true) /\
                      hh = Some (cls, NLocal x n1, dh ++ [XAssign (NTemp n) eh])
    | None => hh = None /\ n2 = n1
    end /\
    (if hasfin then exists df ef, xgen sg lp n2 fe = (df, ef, n', true) /\ f = df ++ [XExpr ef]
     else f = [] /\ n' = n2) /\
    d = [XSTry (db ++ [XAssign (NTemp n) eb]) hh f] /\ pe = PName (NTemp n) /\
    n + 1 <= n1 /\ n1 <= n2 /\ n2 <= n'.
Proof.
  intro G. cbn [xgen] in G. cbv zeta in G.
  destruct (xgen sg lp (n + 1) body) as [[[db eb] n1] k1] eqn:Gb.
  pose proof (xgen_mono _ _ _ _ _ _ _ _ Gb) as Lb.
  destruct h as [[cls x]|].
  - cbv zeta in G.
    destruct (xgen (upd sg x (NLocal x n1)) lp (n1 + 1) hb) as [[[dh eh] n2] k2] eqn:Gh.
    pose proof (xgen_mono _ _ _ _ _ _ _ _ Gh) as Lh.
    destruct hasfin.
    + destruct (xgen sg lp n2 fe) as [[[df ef] n3] k3] eqn:Gf.
      pose proof (xgen_mono _ _ _ _ _ _ _ _ Gf) as Lf.
      cbv beta iota in G. injection G as G1 G2 G3 Hk. subst.
      apply andb_true_iff in Hk as [Hk _]. apply andb_true_iff in Hk as [Hk Hk3].
      apply andb_true_iff in Hk as [Hk1 Hk2]. subst.
      exists db, eb, n1, (Some (cls, NLocal x n1, dh ++ [XAssign (NTemp n) eh])), n2, (df ++ [XExpr ef]).
      split; [reflexivity|]. split; [exists dh, eh; auto|]. split; [exists df, ef; auto|].
      repeat split; lia.
    + cbv beta iota in G. injection G as G1 G2 G3 Hk. subst.
      apply andb_true_iff in Hk as [Hk _]. apply andb_true_iff in Hk as [Hk Hk3].
      apply andb_true_iff in Hk as [Hk1 Hk2]. subst.
      exists db, eb, n1, (Some (cls, NLocal x n1, dh ++ [XAssign (NTemp n) eh])), n', [].
      split; [reflexivity|]. split; [exists dh, eh; auto|]. split; [auto|].
      repeat split; lia.
  - destruct hasfin.
    + destruct (xgen sg lp n1 fe) as [[[df ef] n3] k3] eqn:Gf.
      pose proof (xgen_mono _ _ _ _ _ _ _ _ Gf) as Lf.
      cbv beta iota in G. injection G as G1 G2 G3 Hk. subst.
      apply andb_true_iff in Hk as [Hk _]. apply andb_true_iff in Hk as [Hk Hk3].
      apply andb_true_iff in Hk as [Hk1 Hk2]. subst.
      exists db, eb, n1, None, n1, (df ++ [XExpr ef]).
      split; [reflexivity|]. split; [auto|]. split; [exists df, ef; auto|].
      repeat split; lia.
    + cbv beta iota in G. injection G as G1 G2 G3 Hk. subst.
      apply andb_true_iff in Hk as [Hk _]. apply andb_true_iff in Hk as [Hk Hk3].
      apply andb_true_iff in Hk as [Hk1 Hk2]. subst.
      exists db, eb, n', None, n', [].
      split; [reflexivity|]. split; [auto|]. split; [auto|].
      repeat split; lia.
Qed.

Lemma res_not_local n x k : pname_eqb (NTemp n) (NLocal x k) = false.
Proof.
  destruct (pname_eqb (NTemp n) (NLocal x k)) eqn:E; [|reflexivity].
  apply pname_eqb_eq in E. discriminate.
Qed.

(** the protected part of a try: body, and the handler when the body's exception is caught *)
Lemma try_r1_sim fuel : xsim fuel ->
  forall rho sg lp F n body h hb db eb n1 n2 o t hh,
    R2 rho sg F n ->
    xgen sg lp (n + 1) body = (db, eb, n1, true) ->
    match h with
    | Some (cls, x) =>
        exists dh eh, xgen (upd sg x (NLocal x n1)) lp (n1 + 1) hb = (dh, eh, n2, true) /\
                      hh = Some (cls, NLocal x n1, dh ++ [XAssign (NTemp n) eh])
    | None => hh = None /\ n2 = n1
    end ->
    src_r1 fuel rho body h hb = Some (o, t) ->
    exists m F1,
      match o with
      | OVal v => py_r1 m F (db ++ [XAssign (NTemp n) eb]) hh = Some (Normal, F1, t) /\ F1 (NTemp n) = Some v
      | OExc c p => py_r1 m F (db ++ [XAssign (NTemp n) eb]) hh = Some (Exc c p, F1, t)
      | ORec _ => False
      end /\ agree_below n F F1.
Proof.
  intros HS rho sg lp F n body h hb db eb n1 n2 o t hh HR Gb Hh Hsrc.
  set (res := NTemp n) in *.
  assert (HR0 : R2 rho sg F (n + 1)) by (eapply R2_mono; [exact HR|lia|apply agree_refl]).
  pose proof (xgen_mono _ _ _ _ _ _ _ _ Gb) as Lb.
  unfold src_r1 in Hsrc.
  destruct (xeval fuel rho body) as [[[vb|vs|cb pb] tb]|] eqn:Eb; try discriminate.
  - (* the body yields a value *)
    inversion Hsrc; subst; clear Hsrc.
    destruct (HS body sg lp (n + 1) rho F (OVal vb) t db eb n1 HR0 Eb Gb)
      as (L1 & m1 & F1 & tb1 & tb2 & X & P & T & A & Nb).
    exists (Nat.max m1 1), (set F1 res vb).
    assert (Xs : xexec (Nat.max m1 1) F (db ++ [XAssign res eb]) = Some (Normal, set F1 res vb, tb1 ++ tb2)).
    { eapply xexec_seq; [exact X|].
      rewrite xexec_cons, (xexec1_S_assign 0 F1 res eb vb tb2 P), xexec_nil, app_nil_r. reflexivity. }
    split; [split; [unfold py_r1; rewrite Xs, T; reflexivity|apply set_same]|].
    apply (agree_trans n n F F1 (set F1 res vb)); [apply N.le_refl|apply (agree_weaken n (n + 1)); [lia|exact A]|].
    apply agree_set. unfold res. simpl. lia.
  - (* the body raises *)
    destruct (HS body sg lp (n + 1) rho F (OExc cb pb) tb db eb n1 HR0 Eb Gb) as (L1 & m1 & F1 & X & A).
    assert (Xs : xexec m1 F (db ++ [XAssign res eb]) = Some (Exc cb pb, F1, tb))
      by (apply xexec_stop; [discriminate|exact X]).
    assert (A0 : agree_below n F F1) by (apply (agree_weaken n (n + 1)); [lia|exact A]).
    destruct h as [[cls x]|].
    + destruct Hh as (dh & eh & Gh & ->).
      destruct (catches cls cb) eqn:Ec.
      * set (p := NLocal x n1) in *. set (ex := VExc cb pb) in *.
        assert (HR1 : R2 (upd rho x ex) (upd sg x p) (set F1 p ex) (n1 + 1)).
        { eapply (R2_let rho sg F n x ex p n1 F1); [exact HR|lia|exact A0|reflexivity]. }
        assert (Ap : agree_below n F (set F1 p ex)).
        { apply (agree_trans n n F F1 (set F1 p ex)); [apply N.le_refl|exact A0|]. apply agree_set. unfold p. simpl. lia. }
        destruct (xeval fuel (upd rho x ex) hb) as [[[vh|?|ch ph] th]|] eqn:Eh; try discriminate.
        -- inversion Hsrc; subst; clear Hsrc.
           destruct (HS hb (upd sg x p) lp (n1 + 1) (upd rho x ex) (set F1 p ex) (OVal vh) th dh eh n2 HR1 Eh Gh)
             as (L2 & m2 & F2 & th1 & th2 & X2 & P2 & T2 & A2 & N2).
           assert (Xh : xexec (Nat.max m2 1) (set F1 p ex) (dh ++ [XAssign res eh]) = Some (Normal, set F2 res vh, th1 ++ th2)).
           { eapply xexec_seq; [exact X2|].
             rewrite xexec_cons, (xexec1_S_assign 0 F2 res eh vh th2 P2), xexec_nil, app_nil_r. reflexivity. }
           exists (Nat.max m1 (Nat.max m2 1)), (unset (set F2 res vh) p).
           split; [split|].
           ++ unfold py_r1.
              rewrite (xexec_mono m1 _ _ _ _ (Nat.le_max_l _ _) Xs), Ec. fold ex.
              rewrite (xexec_mono _ (Nat.max m1 (Nat.max m2 1)) _ _ _ (Nat.le_max_r _ _) Xh), T2. reflexivity.
           ++ unfold unset, res, p. rewrite res_not_local. apply set_same.
           ++ apply (agree_trans n n F (set F2 res vh) _); [apply N.le_refl| |apply agree_unset; unfold p; simpl; lia].
              apply (agree_trans n n F F2 _); [apply N.le_refl| |apply agree_set; unfold res; simpl; lia].
              apply (agree_trans n n F (set F1 p ex) F2); [apply N.le_refl|exact Ap|].
              apply (agree_weaken n (n1 + 1)); [lia|exact A2].
        -- inversion Hsrc; subst; clear Hsrc.
           destruct (HS hb (upd sg x p) lp (n1 + 1) (upd rho x ex) (set F1 p ex) (OExc ch ph) th dh eh n2 HR1 Eh Gh)
             as (L2 & m2 & F2 & X2 & A2).
           assert (Xh : xexec m2 (set F1 p ex) (dh ++ [XAssign res eh]) = Some (Exc ch ph, F2, th))
             by (apply xexec_stop; [discriminate|exact X2]).
           exists (Nat.max m1 m2), (unset F2 p).
           split.
           ++ unfold py_r1.
              rewrite (xexec_mono m1 _ _ _ _ (Nat.le_max_l _ _) Xs), Ec. fold ex.
              rewrite (xexec_mono m2 (Nat.max m1 m2) _ _ _ (Nat.le_max_r _ _) Xh). reflexivity.
           ++ apply (agree_trans n n F F2 _); [apply N.le_refl| |apply agree_unset; unfold p; simpl; lia].
              apply (agree_trans n n F (set F1 p ex) F2); [apply N.le_refl|exact Ap|].
              apply (agree_weaken n (n1 + 1)); [lia|exact A2].
      * inversion Hsrc; subst; clear Hsrc.
        exists m1, F1. split; [|exact A0]. unfold py_r1. rewrite Xs, Ec. reflexivity.
    + destruct Hh as [-> _]. inversion Hsrc; subst; clear Hsrc.
      exists m1, F1. split; [|exact A0]. unfold py_r1. rewrite Xs. reflexivity.
Qed.

Lemma xexec_single m F s o F' t : xexec1 m F s = Some (o, F', t) -> xexec m F [s] = Some (o, F', t).
Proof. intro H. rewrite xexec_cons, H. destruct o; rewrite ?xexec_nil, ?app_nil_r; reflexivity. Qed.

(** the simulation, followed by the assignment of the inline expression to a result name *)
Lemma xsim_into fuel : xsim fuel ->
  forall e sg lp n rho F o tr d pe n' res k,
    R2 rho sg F n -> xeval fuel rho e = Some (o, tr) -> xgen sg lp n e = (d, pe, n', true) ->
    k <= idx res -> k <= n ->
    n <= n' /\
    match o with
    | OVal v => exists m F', xexec m F (d ++ [XAssign res pe]) = Some (Normal, F', tr) /\ F' res = Some v /\
                             agree_below k F F'
    | ORec vs => length vs = length lp ->
                 exists m F' F'', xexec m F (d ++ [XAssign res pe]) = Some (Cont, F'', tr) /\
                                  agree_below k F F' /\ set_all F' lp vs = Some F''
    | OExc c p => exists m F', xexec m F (d ++ [XAssign res pe]) = Some (Exc c p, F', tr) /\ agree_below k F F'
    end.
Proof.
  intros HS e sg lp n rho F o tr d pe n' res k HR He Hg Lk Lk2.
  destruct (HS e sg lp n rho F o tr d pe n' HR He Hg) as (L & Hrest). split; [exact L|].
  destruct o as [v|vs|c p].
  - destruct Hrest as (m & F' & t1 & t2 & X & P & T & A & Nb).
    exists (Nat.max m 1), (set F' res v). split.
    { subst tr. eapply xexec_seq; [exact X|].
      rewrite xexec_cons, (xexec1_S_assign 0 F' res pe v t2 P), xexec_nil, app_nil_r. reflexivity. }
    split; [apply set_same|].
    apply (agree_trans k k F F' _); [apply N.le_refl|apply (agree_weaken k n); [lia|exact A]|apply agree_set; exact Lk].
  - intro Hlen. destruct (Hrest Hlen) as (m & F' & F'' & X & A & Sa). exists m, F', F''.
    split; [apply xexec_stop; [discriminate|exact X]|].
    split; [apply (agree_weaken k n); [lia|exact A]|exact Sa].
  - destruct Hrest as (m & F' & X & A). exists m, F'.
    split; [apply xexec_stop; [discriminate|exact X]|apply (agree_weaken k n); [lia|exact A]].
Qed.

Theorem xsim_all : forall fuel, xsim fuel.
Proof.
  induction fuel as [fuel IH] using lt_wf_ind.
  destruct fuel as [|fuel]; [intros e sg lp n rho F o tr d pe n' HR He; discriminate|].
  assert (HS : xsim fuel) by (apply IH; lia).
  pose proof (xsim_list_of fuel HS) as HL.
  pose proof (xsim_binds_of fuel HS) as HB.
  pose proof (xsim_into fuel HS) as HI.
  intros e sg lp n rho F o tr d pe n' HR He Hg.
  destruct e as [c|x|c t e|s r|x i b|f args|binds body|args|e|body h hb hasfin fe].
  - (* const *)
    cbn [xeval] in He. inversion He; subst. cbn [xgen] in Hg. inversion Hg; subst.
    split; [lia|]. exists 1%nat, F, [], []. simpl. repeat split; auto using agree_refl.
  - (* local *)
    cbn [xeval] in He.
    destruct (rho x) as [vx|] eqn:Ex; [|discriminate]. inversion He; subst; clear He.
    cbn [xgen] in Hg. inversion Hg; subst; clear Hg.
    destruct (proj1 HR x vx Ex) as (p & Hs & Hi & Hf). rewrite Hs.
    split; [lia|]. exists 1%nat, F, [], []. simpl. rewrite Hf. repeat split; auto using agree_refl.
    apply N.ltb_lt. exact Hi.
  - (* if *)
    cbn [xeval] in He. cbn [xgen] in Hg.
    destruct (xgen sg lp n c) as [[[dc ec] n1] k1] eqn:Gc.
    destruct (xgen sg lp (n1 + 2) t) as [[[dt et] n2] k2] eqn:Gt.
    destruct (xgen sg lp n2 e) as [[[de ee] n3] k3] eqn:Ge.
    cbv beta iota zeta in Hg. injection Hg as Hg1 Hg2 Hg3 Hk. subst.
    apply andb_true_iff in Hk as [Hk Hk3]. apply andb_true_iff in Hk as [Hk1 Hk2]. subst.
    pose proof (xgen_mono _ _ _ _ _ _ _ _ Gc) as Lc.
    pose proof (xgen_mono _ _ _ _ _ _ _ _ Gt) as Lt.
    pose proof (xgen_mono _ _ _ _ _ _ _ _ Ge) as Le.
    split; [lia|].
    destruct (xeval fuel rho c) as [[[vc|?|cc pc] tc]|] eqn:Ec; try discriminate.
    + destruct (HS c sg lp n rho F (OVal vc) tc dc ec n1 HR Ec Gc)
        as (L1 & m1 & F1 & tc1 & tc2 & X1 & P1 & T1 & A1 & N1).
      set (test := NTemp n1) in *. set (res := NTemp (n1 + 1)) in *.
      set (F1' := set F1 test vc).
      assert (A1' : agree_below n F F1').
      { apply (agree_trans n n F F1 F1'); [apply N.le_refl|exact A1|]. apply agree_set. unfold test. simpl. lia. }
      assert (Xt : xexec (Nat.max m1 1) F (dc ++ [XAssign test ec]) = Some (Normal, F1', tc1 ++ tc2)).
      { eapply xexec_seq; [exact X1|].
        rewrite xexec_cons, (xexec1_S_assign 0 F1 test ec vc tc2 P1), xexec_nil, app_nil_r. reflexivity. }
      assert (Hbr : exists br dbr ebr nb nb',
                 (if falsey vc then xeval fuel rho e else xeval fuel rho t) = xeval fuel rho br /\
                 xgen sg lp nb br = (dbr, ebr, nb', true) /\ n1 + 2 <= nb /\
                 (if falsey vc then de ++ [XAssign res ee] else dt ++ [XAssign res et]) = dbr ++ [XAssign res ebr]).
      { destruct (falsey vc); [exists e, de, ee, n2, n'|exists t, dt, et, (n1 + 2), n2]; repeat split; auto; lia. }
      destruct Hbr as (br & dbr & ebr & nb & nb' & Ebr & Gbr & Lb1 & Elist).
      rewrite Ebr in He. destruct (xeval fuel rho br) as [[ob tb]|] eqn:Eb; [|discriminate].
      inversion He; subst o tr; clear He.
      assert (HRb : R2 rho sg F1' nb) by (eapply R2_mono; [exact HR|lia|exact A1']).
      destruct (HI br sg lp nb rho F1' ob tb dbr ebr nb' res n HRb Eb Gbr ltac:(unfold res; simpl; lia) ltac:(lia))
        as (L3 & Hrest).
      assert (Xi : forall m2 o2 F2,
                 xexec m2 F1' (dbr ++ [XAssign res ebr]) = Some (o2, F2, tb) ->
                 xexec (Nat.max (Nat.max m1 1) (S m2)) F
                   (dc ++ [XAssign test ec; XSIf test (de ++ [XAssign res ee]) (dt ++ [XAssign res et])])
                 = Some (o2, F2, (tc1 ++ tc2) ++ tb)).
      { intros m2 o2 F2 X2.
        assert (Xs : xexec (S m2) F1' [XSIf test (de ++ [XAssign res ee]) (dt ++ [XAssign res et])] = Some (o2, F2, tb)).
        { apply xexec_single. rewrite (xexec1_S_if _ F1' test _ _ vc) by (unfold F1'; apply set_same).
          rewrite Elist. exact X2. }
        pose proof (xexec_seq _ _ F (dc ++ [XAssign test ec]) _ _ _ _ _ _ Xt Xs) as X3.
        rewrite <- app_assoc in X3. exact X3. }
      destruct ob as [v|vs|cb pb].
      * destruct Hrest as (m2 & F2 & X2 & Fr & A2).
        exists (Nat.max (Nat.max m1 1) (S m2)), F2, ((tc1 ++ tc2) ++ tb), [].
        split; [apply Xi; exact X2|].
        split; [simpl; rewrite Fr; reflexivity|].
        split; [rewrite T1, app_nil_r; reflexivity|].
        split; [apply (agree_trans n n F F1' F2); [apply N.le_refl|exact A1'|exact A2]|].
        simpl. apply N.ltb_lt. unfold res. simpl. lia.
      * intro Hlen. destruct (Hrest Hlen) as (m2 & F2 & F2' & X2 & A2 & Sa).
        exists (Nat.max (Nat.max m1 1) (S m2)), F2, F2'.
        split; [rewrite T1; apply Xi; exact X2|].
        split; [apply (agree_trans n n F F1' F2); [apply N.le_refl|exact A1'|exact A2]|exact Sa].
      * destruct Hrest as (m2 & F2 & X2 & A2).
        exists (Nat.max (Nat.max m1 1) (S m2)), F2.
        split; [rewrite T1; apply Xi; exact X2|].
        apply (agree_trans n n F F1' F2); [apply N.le_refl|exact A1'|exact A2].
    + (* the condition raises *)
      inversion He; subst; clear He.
      destruct (HS c sg lp n rho F (OExc cc pc) tr dc ec n1 HR Ec Gc) as (L1 & m1 & F1 & X1 & A1).
      exists m1, F1. split; [apply xexec_stop; [discriminate|exact X1]|exact A1].
  - (* do *)
    cbn [xeval] in He. cbn [xgen] in Hg.
    destruct (xgen sg lp n s) as [[[ds es] n1] k1] eqn:Gs.
    destruct (xgen sg lp n1 r) as [[[dr er] n2] k2] eqn:Gr.
    cbv beta iota in Hg. injection Hg as Hg1 Hg2 Hg3 Hk. subst.
    apply andb_true_iff in Hk as [Hk1 Hk2]. subst.
    pose proof (xgen_mono _ _ _ _ _ _ _ _ Gs) as Ls.
    pose proof (xgen_mono _ _ _ _ _ _ _ _ Gr) as Lr.
    split; [lia|].
    destruct (xeval fuel rho s) as [[[vs0|?|cs ps] ts]|] eqn:Es; try discriminate.
    + destruct (xeval fuel rho r) as [[orr trr]|] eqn:Er; [|discriminate]. inversion He; subst; clear He.
      destruct (HS s sg lp n rho F (OVal vs0) ts ds es n1 HR Es Gs)
        as (L1 & m1 & F1 & ts1 & ts2 & X1 & P1 & T1 & A1 & N1).
      assert (HR1 : R2 rho sg F1 n1) by (eapply R2_mono; eauto).
      destruct (HS r sg lp n1 rho F1 o trr dr pe n' HR1 Er Gr) as (L2 & Hrest).
      assert (Xs : xexec (Nat.max m1 1) F (ds ++ [XExpr es]) = Some (Normal, F1, ts1 ++ ts2)).
      { eapply xexec_seq; [exact X1|].
        rewrite xexec_cons, (xexec1_S_expr 0 F1 es vs0 ts2 P1), xexec_nil, app_nil_r. reflexivity. }
      destruct o as [v|vs|co po].
      * destruct Hrest as (m2 & F2 & tr1 & tr2 & X2 & P2 & T2 & A2 & N2).
        exists (Nat.max (Nat.max m1 1) m2), F2, (ts1 ++ ts2 ++ tr1), tr2.
        split.
        { pose proof (xexec_seq _ _ F (ds ++ [XExpr es]) dr _ _ _ _ _ Xs X2) as X3.
          rewrite <- !app_assoc in X3. exact X3. }
        split; [exact P2|].
        split; [subst; rewrite <- ?app_assoc; reflexivity|].
        split; [eapply agree_trans; eauto|exact N2].
      * intro Hlen. destruct (Hrest Hlen) as (m2 & F2 & F2' & X2 & A2 & Sa).
        exists (Nat.max (Nat.max m1 1) m2), F2, F2'.
        split.
        { pose proof (xexec_seq _ _ F (ds ++ [XExpr es]) dr _ _ _ _ _ Xs X2) as X3.
          rewrite <- !app_assoc in X3. subst. rewrite <- ?app_assoc. exact X3. }
        split; [eapply agree_trans; eauto|exact Sa].
      * destruct Hrest as (m2 & F2 & X2 & A2).
        exists (Nat.max (Nat.max m1 1) m2), F2.
        split.
        { pose proof (xexec_seq _ _ F (ds ++ [XExpr es]) dr _ _ _ _ _ Xs X2) as X3.
          rewrite <- !app_assoc in X3. subst. rewrite <- ?app_assoc. exact X3. }
        eapply agree_trans; eauto.
    + inversion He; subst; clear He.
      destruct (HS s sg lp n rho F (OExc cs ps) tr ds es n1 HR Es Gs) as (L1 & m1 & F1 & X1 & A1).
      exists m1, F1. split; [apply xexec_stop; [discriminate|exact X1]|exact A1].
  - (* let *)
    cbn [xeval] in He. cbn [xgen] in Hg.
    destruct (xgen sg lp n i) as [[[di ei] n1] k1] eqn:Gi. cbv zeta in Hg.
    destruct (xgen (upd sg x (NLocal x n1)) lp (n1 + 1) b) as [[[db eb] n2] k2] eqn:Gb.
    cbv beta iota in Hg. injection Hg as Hg1 Hg2 Hg3 Hk. subst.
    apply andb_true_iff in Hk as [Hk1 Hk2]. subst.
    pose proof (xgen_mono _ _ _ _ _ _ _ _ Gi) as Li.
    pose proof (xgen_mono _ _ _ _ _ _ _ _ Gb) as Lb.
    split; [lia|].
    destruct (xeval fuel rho i) as [[[vi|?|ci pi] ti]|] eqn:Ei; try discriminate.
    + destruct (xeval fuel (upd rho x vi) b) as [[ob tb]|] eqn:Eb; [|discriminate]. inversion He; subst; clear He.
      destruct (HS i sg lp n rho F (OVal vi) ti di ei n1 HR Ei Gi)
        as (L1 & m1 & F1 & ti1 & ti2 & X1 & P1 & T1 & A1 & N1).
      set (p := NLocal x n1) in *.
      assert (HR1 : R2 (upd rho x vi) (upd sg x p) (set F1 p vi) (n1 + 1)) by (eapply R2_let; eauto).
      destruct (HS b (upd sg x p) lp (n1 + 1) (upd rho x vi) (set F1 p vi) o tb db pe n' HR1 Eb Gb) as (L2 & Hrest).
      assert (Xs : xexec (Nat.max m1 1) F (di ++ [XAssign p ei]) = Some (Normal, set F1 p vi, ti1 ++ ti2)).
      { eapply xexec_seq; [exact X1|].
        rewrite xexec_cons, (xexec1_S_assign 0 F1 p ei vi ti2 P1), xexec_nil, app_nil_r. reflexivity. }
      assert (Ap : agree_below n F (set F1 p vi)).
      { apply (agree_trans n n F F1 (set F1 p vi)); [apply N.le_refl|exact A1|]. apply agree_set. unfold p. simpl. lia. }
      assert (Ag : forall F2, agree_below (n1 + 1) (set F1 p vi) F2 -> agree_below n F F2).
      { intros F2 A2. apply (agree_trans n n F (set F1 p vi) F2); [apply N.le_refl|exact Ap|].
        apply (agree_weaken n (n1 + 1)); [lia|exact A2]. }
      destruct o as [v|vs|co po].
      * destruct Hrest as (m2 & F2 & tb1 & tb2 & X2 & P2 & T2 & A2 & N2).
        exists (Nat.max (Nat.max m1 1) m2), F2, (ti1 ++ ti2 ++ tb1), tb2.
        split.
        { pose proof (xexec_seq _ _ F (di ++ [XAssign p ei]) db _ _ _ _ _ Xs X2) as X3.
          rewrite <- !app_assoc in X3. exact X3. }
        split; [exact P2|].
        split; [subst; rewrite <- ?app_assoc; reflexivity|].
        split; [apply Ag; exact A2|exact N2].
      * intro Hlen. destruct (Hrest Hlen) as (m2 & F2 & F2' & X2 & A2 & Sa).
        exists (Nat.max (Nat.max m1 1) m2), F2, F2'.
        split.
        { pose proof (xexec_seq _ _ F (di ++ [XAssign p ei]) db _ _ _ _ _ Xs X2) as X3.
          rewrite <- !app_assoc in X3. subst. rewrite <- ?app_assoc. exact X3. }
        split; [apply Ag; exact A2|exact Sa].
      * destruct Hrest as (m2 & F2 & X2 & A2).
        exists (Nat.max (Nat.max m1 1) m2), F2.
        split.
        { pose proof (xexec_seq _ _ F (di ++ [XAssign p ei]) db _ _ _ _ _ Xs X2) as X3.
          rewrite <- !app_assoc in X3. subst. rewrite <- ?app_assoc. exact X3. }
        apply Ag; exact A2.
    + inversion He; subst; clear He.
      destruct (HS i sg lp n rho F (OExc ci pi) tr di ei n1 HR Ei Gi) as (L1 & m1 & F1 & X1 & A1).
      exists m1, F1. split; [apply xexec_stop; [discriminate|exact X1]|exact A1].
  - (* call *)
    cbn [xeval] in He. cbn [xgen] in Hg.
    change (xgen_args (fun n a => xgen sg lp n a) args n) with (xgen_list sg lp n args) in Hg.
    destruct (xgen_list sg lp n args) as [[[ds es] n1] k1] eqn:Gl.
    cbv beta iota in Hg. injection Hg as Hg1 Hg2 Hg3 Hk. subst.
    destruct (evals (xeval fuel) rho args) as [[[vs|ca pa] ta]|] eqn:Ea; [| |discriminate].
    + destruct (apply_prim f vs) as [[vr tp]|] eqn:Ep; [|discriminate]. inversion He; subst; clear He.
      destruct (HL args sg lp n rho F (LVals vs) ta d es n' HR Ea Gl)
        as (L1 & m & F1 & t1 & t2 & X1 & P1 & T1 & A1 & N1).
      split; [exact L1|].
      exists m, F1, t1, (t2 ++ tp).
      split; [exact X1|].
      split; [rewrite peval_call, P1, Ep; reflexivity|].
      split; [subst; rewrite app_assoc; reflexivity|].
      split; [exact A1|exact N1].
    + inversion He; subst; clear He.
      destruct (HL args sg lp n rho F (LExc ca pa) tr d es n' HR Ea Gl) as (L1 & m & F1 & X1 & A1).
      split; [exact L1|]. exists m, F1. split; [exact X1|exact A1].
  - (* loop *)
    cbn [xeval] in He. cbn [xgen] in Hg.
    change (xgen_binds_with (fun sg n i => xgen sg lp n i) binds sg (n + 1)) with (xgen_binds sg lp (n + 1) binds) in Hg.
    cbv zeta in Hg.
    destruct (xgen_binds sg lp (n + 1) binds) as [[[[dbs names] sg1] n1] k1] eqn:Gb.
    destruct (xgen sg1 names n1 body) as [[[db eb] n2] k2] eqn:Gbody.
    cbv beta iota in Hg. injection Hg as Hg1 Hg2 Hg3 Hk. subst.
    apply andb_true_iff in Hk as [Hk Hnd]. apply andb_true_iff in Hk as [Hk1 Hk2]. subst.
    apply nodupb_NoDup in Hnd.
    set (res := NTemp n) in *.
    set (F0 := set F res VNil).
    assert (A0 : agree_below n F F0) by (apply agree_set; unfold res; simpl; lia).
    assert (HR0 : R2 rho sg F0 (n + 1)) by (eapply R2_mono; [exact HR|lia|exact A0]).
    assert (X0 : xexec 1 F [XAssign res (PConst VNil)] = Some (Normal, F0, [])).
    { rewrite xexec_cons. cbn [xexec1 peval]. rewrite xexec_nil. reflexivity. }
    pose proof (xgen_mono body sg1 names n1 db eb n' true Gbody) as Lb.
    pose proof (xgen_binds_mono _ _ _ _ _ _ _ _ _ Gb) as Lbs.
    split; [lia|].
    destruct (evbinds (xeval fuel) rho binds) as [[[rho1|cb pb] t1]|] eqn:Ebd; [| |discriminate].
    + destruct (xloop fuel (map fst binds) rho1 body) as [[ol t2]|] eqn:El; [|discriminate].
      inversion He; subst o tr; clear He.
      destruct (HB binds sg lp (n + 1) rho F0 (BEnv rho1) t1 dbs names sg1 n1 HR0 Ebd Gb Hnd)
        as (L1 & m1 & F1 & X1 & HR1 & A1 & FA & FN & NDn & Hout).
      assert (Hout' : forall y q, ~ In y (map fst binds) -> sg1 y = Some q -> ~ In q names).
      { intros y q Hy Hq Hin. rewrite (Hout y Hy) in Hq.
        rewrite Forall_forall in FN. specialize (FN _ Hin).
        pose proof (proj2 HR0 y q Hq). lia. }
      assert (Hres : Forall (fun p => idx res < idx p) names).
      { eapply Forall_impl; [|exact FN]. intros q Hq. cbv beta in *. unfold res. simpl. lia. }
      assert (Hres2 : idx res < n1) by (unfold res; simpl; lia).
      pose proof (loop_sim (S fuel) (fun k Hk => IH k Hk) fuel ltac:(lia) (map fst binds) rho1 body ol t2 sg1 names n1 F1
                       db eb n' res El HR1 Gbody FA NDn Hout' Hres Hres2) as Hloop.
      assert (Xall : forall m2 o2 F2,
                 xwhile m2 F1 (db ++ [XAssign res eb; XBreak]) = Some (o2, F2, t2) ->
                 xexec (Nat.max 1 (Nat.max m1 (S m2))) F
                   ([XAssign res (PConst VNil)] ++ dbs ++ [XWhile (db ++ [XAssign res eb; XBreak])])
                 = Some (o2, F2, t1 ++ t2)).
      { intros m2 o2 F2 W.
        assert (Xw : xexec (S m2) F1 [XWhile (db ++ [XAssign res eb; XBreak])] = Some (o2, F2, t2))
          by (apply xexec_single; cbn [xexec1]; exact W).
        pose proof (xexec_seq _ _ F0 dbs _ _ _ _ _ _ X1 Xw) as X2.
        pose proof (xexec_seq _ _ F [XAssign res (PConst VNil)] _ _ _ _ _ _ X0 X2) as X3.
        exact X3. }
      assert (Ag : forall F2, agree_below (idx res) F1 F2 -> agree_below n F F2).
      { intros F2 A2. apply (agree_trans n n F F0 F2); [apply N.le_refl|exact A0|].
        apply (agree_trans n n F0 F1 F2); [apply N.le_refl|apply (agree_weaken n (n + 1)); [lia|exact A1]|].
        exact A2. }
      destruct ol as [v|?|cl pl].
      * destruct Hloop as (m2 & F2 & W & Fr & A2).
        exists (Nat.max 1 (Nat.max m1 (S m2))), F2, (t1 ++ t2), [].
        split; [apply Xall; exact W|].
        split; [simpl; rewrite Fr; reflexivity|].
        split; [rewrite app_nil_r; reflexivity|].
        split; [apply Ag; exact A2|].
        simpl. apply N.ltb_lt. unfold res. simpl. lia.
      * destruct Hloop.
      * destruct Hloop as (m2 & F2 & W & A2).
        exists (Nat.max 1 (Nat.max m1 (S m2))), F2.
        split; [apply Xall; exact W|apply Ag; exact A2].
    + (* an initialiser raises *)
      inversion He; subst o tr; clear He.
      destruct (HB binds sg lp (n + 1) rho F0 (BExc cb pb) t1 dbs names sg1 n1 HR0 Ebd Gb Hnd)
        as (L1 & m1 & F1 & X1 & A1).
      exists (Nat.max 1 m1), F1.
      split.
      { assert (X2 : xexec m1 F0 (dbs ++ [XWhile (db ++ [XAssign res eb; XBreak])]) = Some (Exc cb pb, F1, t1))
          by (apply xexec_stop; [discriminate|exact X1]).
        pose proof (xexec_seq _ _ F [XAssign res (PConst VNil)] _ _ _ _ _ _ X0 X2) as X3. exact X3. }
      apply (agree_trans n n F F0 F1); [apply N.le_refl|exact A0|apply (agree_weaken n (n + 1)); [lia|exact A1]].
  - (* recur *)
    cbn [xeval] in He. cbn [xgen] in Hg.
    change (xgen_args (fun n a => xgen sg lp n a) args n) with (xgen_list sg lp n args) in Hg.
    destruct (xgen_list sg lp n args) as [[[ds es] n1] k1] eqn:Gl.
    cbv beta iota in Hg. injection Hg as Hg1 Hg2 Hg3 Hk. subst.
    destruct (evals (xeval fuel) rho args) as [[[vs|ca pa] ta]|] eqn:Ea; [| |discriminate].
    + inversion He; subst; clear He.
      destruct (HL args sg lp n rho F (LVals vs) tr ds es n' HR Ea Gl)
        as (L1 & m & F1 & t1 & t2 & X1 & P1 & T1 & A1 & N1).
      split; [exact L1|]. intro Hlen.
      destruct (set_all_total F1 lp vs (eq_sym Hlen)) as [F'' Sa].
      exists (Nat.max m 2), F1, F''.
      split; [|split; [exact A1|exact Sa]].
      assert (Xr : xexec 2 F1 [assign_all lp es; XContinue] = Some (Cont, F'', t2)).
      { rewrite xexec_cons, (exec_assign_all 1 F1 lp es vs t2 F'' P1 Sa), xexec_cons. cbn [xexec1].
        rewrite app_nil_r. reflexivity. }
      pose proof (xexec_seq _ _ F ds _ _ _ _ _ _ X1 Xr) as X2. rewrite T1. exact X2.
    + inversion He; subst; clear He.
      destruct (HL args sg lp n rho F (LExc ca pa) tr ds es n' HR Ea Gl) as (L1 & m & F1 & X1 & A1).
      split; [exact L1|]. exists m, F1. split; [apply xexec_stop; [discriminate|exact X1]|exact A1].
  - (* throw *)
    cbn [xeval] in He. cbn [xgen] in Hg.
    destruct (xgen sg lp n e) as [[[dx ex] n1] k1] eqn:Gx.
    cbv beta iota in Hg. injection Hg as Hg1 Hg2 Hg3 Hk. subst.
    destruct (xeval fuel rho e) as [[[v|?|ce pe0] te]|] eqn:Ee; try discriminate.
    + destruct v as [| | | |cv pv]; try discriminate.
      inversion He; subst; clear He.
      destruct (HS e sg lp n rho F (OVal (VExc cv pv)) tr dx ex n' HR Ee Gx)
        as (L1 & m1 & F1 & t1 & t2 & X1 & P1 & T1 & A1 & N1).
      split; [exact L1|]. exists (Nat.max m1 1), F1. split; [|exact A1].
      rewrite T1. eapply xexec_seq; [exact X1|].
      apply xexec_single. apply xexec1_S_raise. exact P1.
    + inversion He; subst; clear He.
      destruct (HS e sg lp n rho F (OExc ce pe0) tr dx ex n' HR Ee Gx) as (L1 & m1 & F1 & X1 & A1).
      split; [exact L1|]. exists m1, F1. split; [apply xexec_stop; [discriminate|exact X1]|exact A1].
  - (* try *)
    rewrite xeval_S_try in He.
    apply xgen_try_inv in Hg as (db & eb & n1 & hh & n2 & f & Gb & Hh & Hf & -> & -> & L1 & L2 & L3).
    set (res := NTemp n) in *.
    split; [lia|].
    unfold src_try in He.
    destruct (src_r1 fuel rho body h hb) as [[o1 t1]|] eqn:E1; [|destruct hasfin; discriminate].
    destruct (try_r1_sim fuel HS rho sg lp F n body h hb db eb n1 n2 o1 t1 hh HR Gb Hh E1) as (m1 & F1 & Hm & A1).
    fold res in Hm.
    assert (Hp : exists o1', py_r1 m1 F (db ++ [XAssign res eb]) hh = Some (o1', F1, t1) /\
                 match o1 with OVal v => o1' = Normal /\ F1 res = Some v | OExc c p => o1' = Exc c p | ORec _ => False end).
    { destruct o1 as [v|?|c p]; [destruct Hm as [Hm Fr]; exists Normal; auto|destruct Hm|exists (Exc c p); auto]. }
    clear Hm. destruct Hp as (o1' & Hp & Ho).
    destruct hasfin; cbn [negb] in He; cbv iota in He.
    + destruct Hf as (df & ef & Gf & ->).
      assert (HRf : R2 rho sg F1 n2) by (eapply R2_mono; [exact HR|lia|exact A1]).
      destruct (xeval fuel rho fe) as [[[vf|?|cf pf] tf]|] eqn:Ef; try discriminate.
      * inversion He; subst o tr; clear He.
        destruct (HS fe sg lp n2 rho F1 (OVal vf) tf df ef n' HRf Ef Gf)
          as (Lf & m2 & F2 & tf1 & tf2 & X2 & P2 & T2 & A2 & N2).
        assert (Xf : xexec (Nat.max m2 1) F1 (df ++ [XExpr ef]) = Some (Normal, F2, tf)).
        { rewrite T2. eapply xexec_seq; [exact X2|].
          rewrite xexec_cons, (xexec1_S_expr 0 F2 ef vf tf2 P2), xexec_nil, app_nil_r. reflexivity. }
        assert (Xall : xexec (S (Nat.max m1 (Nat.max m2 1))) F [XSTry (db ++ [XAssign res eb]) hh (df ++ [XExpr ef])]
                       = Some (o1', F2, t1 ++ tf)).
        { apply xexec_single. rewrite xexec1_S_try.
          rewrite (py_r1_mono m1 _ _ _ _ _ (Nat.le_max_l _ _) Hp). unfold py_fin.
          rewrite (xexec_mono _ (Nat.max m1 (Nat.max m2 1)) _ _ _ (Nat.le_max_r _ _) Xf). reflexivity. }
        assert (Ag : agree_below n F F2).
        { apply (agree_trans n n F F1 F2); [apply N.le_refl|exact A1|apply (agree_weaken n n2); [lia|exact A2]]. }
        destruct o1 as [v|?|c p]; [destruct Ho as [-> Fr]|destruct Ho|subst o1'].
        -- exists (S (Nat.max m1 (Nat.max m2 1))), F2, (t1 ++ tf), [].
           split; [exact Xall|].
           split; [simpl; rewrite (A2 res) by (unfold res; simpl; lia); rewrite Fr; reflexivity|].
           split; [rewrite app_nil_r; reflexivity|].
           split; [exact Ag|]. simpl. apply N.ltb_lt. unfold res. simpl. lia.
        -- exists (S (Nat.max m1 (Nat.max m2 1))), F2. split; [exact Xall|exact Ag].
      * (* the finally clause raises: its exception replaces the outcome *)
        inversion He; subst o tr; clear He.
        destruct (HS fe sg lp n2 rho F1 (OExc cf pf) tf df ef n' HRf Ef Gf) as (Lf & m2 & F2 & X2 & A2).
        assert (Xf : xexec m2 F1 (df ++ [XExpr ef]) = Some (Exc cf pf, F2, tf))
          by (apply xexec_stop; [discriminate|exact X2]).
        exists (S (Nat.max m1 m2)), F2.
        split.
        { apply xexec_single. rewrite xexec1_S_try.
          rewrite (py_r1_mono m1 _ _ _ _ _ (Nat.le_max_l _ _) Hp). unfold py_fin.
          rewrite (xexec_mono _ (Nat.max m1 m2) _ _ _ (Nat.le_max_r _ _) Xf). reflexivity. }
        apply (agree_trans n n F F1 F2); [apply N.le_refl|exact A1|apply (agree_weaken n n2); [lia|exact A2]].
    + destruct Hf as [-> ->]. inversion He; subst o1 t1; clear He.
      assert (Xall : xexec (S m1) F [XSTry (db ++ [XAssign res eb]) hh []] = Some (o1', F1, tr)).
      { apply xexec_single. rewrite xexec1_S_try, Hp. unfold py_fin. rewrite xexec_nil, app_nil_r. reflexivity. }
      destruct o as [v|?|c p]; [destruct Ho as [-> Fr]|destruct Ho|subst o1'].
      * exists (S m1), F1, tr, [].
        split; [exact Xall|].
        split; [simpl; rewrite Fr; reflexivity|].
        split; [rewrite app_nil_r; reflexivity|].
        split; [exact A1|]. simpl. apply N.ltb_lt. unfold res. simpl. lia.
      * exists (S m1), F1. split; [exact Xall|exact A1].
Qed.
