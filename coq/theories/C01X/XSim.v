(** Forward simulation for the first-order core with loop*/recur, throw and
    try/catch/finally. *)
From Coq Require Import List ZArith NArith Bool Lia Arith.
Import ListNotations.
From Verif Require Import C01.Sim C01L.LSim C01X.XLisp C01X.XPy C01X.XGen C01X.XMono.
Local Open Scope N_scope.

Lemma xquiet_cons s r : xquiet (s :: r) = xquiet1 s && xquiet r.
Proof. reflexivity. Qed.
Lemma xquiet_app a b : xquiet (a ++ b) = xquiet a && xquiet b.
Proof.
  induction a as [|s r IH]; [reflexivity|].
  rewrite <- app_comm_cons, !xquiet_cons, IH, andb_assoc. reflexivity.
Qed.

(** quiet statements run to completion without effects *)
Lemma xquiet_normal : forall m,
  (forall F s o F' t, xquiet1 s = true -> xexec1 m F s = Some (o, F', t) -> o = Normal /\ t = []) /\
  (forall F l o F' t, xquiet l = true -> xexec m F l = Some (o, F', t) -> o = Normal /\ t = []).
Proof.
  induction m as [|m [IH1 IH2]].
  - split; [intros; discriminate|].
    intros F l o F' t Hq H. destruct l as [|s l]; [inversion H; auto|]. rewrite xexec_cons in H. discriminate.
  - assert (S1 : forall F s o F' t, xquiet1 s = true -> xexec1 (S m) F s = Some (o, F', t) -> o = Normal /\ t = []).
    { intros F s o F' t Hq H. destruct s; try discriminate; cbn [xquiet1] in Hq; cbn [xexec1] in H.
      - destruct (peval F e) as [[v t']|] eqn:E; [|discriminate]. inversion H; subst.
        split; [reflexivity|eapply atomic_no_trace; eauto].
      - destruct (peval F e) as [[v t']|] eqn:E; [|discriminate]. inversion H; subst.
        split; [reflexivity|eapply atomic_no_trace; eauto].
      - apply andb_true_iff in Hq as [Q1 Q2]. destruct (F test) as [v|]; [|discriminate].
        fold (xexec m) in H. eapply IH2; [|exact H]. destruct (falsey v); assumption. }
    split; [exact S1|].
    intros F l. revert F. induction l as [|s l IHl]; intros F o F' t Hq H.
    + inversion H; auto.
    + rewrite xquiet_cons in Hq. apply andb_true_iff in Hq as [Q1 Q2]. rewrite xexec_cons in H.
      destruct (xexec1 (S m) F s) as [[[o1 F1] t1]|] eqn:E1; [|discriminate].
      destruct (S1 F s o1 F1 t1 Q1 E1) as [-> ->].
      destruct (xexec (S m) F1 l) as [[[o2 F2] t2]|] eqn:E2; [|discriminate].
      destruct (IHl F1 o2 F2 t2 Q2 E2) as [-> ->]. inversion H; subst. auto.
Qed.

Lemma xquiet_no_exc m F l o F' t : xquiet l = true -> xexec m F l = Some (o, F', t) -> o = Normal /\ t = [].
Proof. apply (proj2 (xquiet_normal m)). Qed.

Lemma exec_assign_all m F lp es vs t F' :
  peval_list F es = Some (vs, t) -> set_all F lp vs = Some F' ->
  xexec1 (S m) F (assign_all lp es) = Some (Normal, F', t).
Proof.
  intros Hp Hs. unfold assign_all.
  destruct lp as [|x [|y r]]; try (cbn [xexec1]; rewrite Hp, Hs; reflexivity).
  destruct es as [|e1 [|e2 er]]; try (cbn [xexec1]; rewrite Hp, Hs; reflexivity).
  simpl in Hp. destruct (peval F e1) as [[v1 t1]|] eqn:E1; [|discriminate].
  inversion Hp; subst. simpl in Hs. inversion Hs; subst.
  cbn [xexec1]. rewrite E1, app_nil_r. reflexivity.
Qed.

Lemma agree_unset n F p : n <= idx p -> agree_below n F (unset F p).
Proof.
  intros L q Hq. unfold unset. destruct (pname_eqb q p) eqn:E; [|reflexivity].
  apply pname_eqb_eq in E. subst. lia.
Qed.

(** ---- the simulation statement ---- *)
Definition xsim (fuel : nat) : Prop :=
  forall e sg lp n rho F o tr d pe n',
    R2 rho sg F n -> xeval fuel rho e = Some (o, tr) -> xgen sg lp n e = (d, pe, n', true) ->
    n <= n' /\
    match o with
    | OVal v =>
        exists m F' t1 t2,
          xexec m F d = Some (Normal, F', t1) /\ peval F' pe = Some (v, t2) /\ tr = t1 ++ t2 /\
          agree_below n F F' /\ nb n' pe = true
    | ORec vs =>
        length vs = length lp ->
        exists m F' F'', xexec m F d = Some (Cont, F'', tr) /\ agree_below n F F' /\ set_all F' lp vs = Some F''
    | OExc c p => exists m F', xexec m F d = Some (Exc c p, F', tr) /\ agree_below n F F'
    end.

Definition xsim_list (fuel : nat) : Prop :=
  forall l sg lp n rho F res tr ds es n',
    R2 rho sg F n -> evals (xeval fuel) rho l = Some (res, tr) -> xgen_list sg lp n l = (ds, es, n', true) ->
    n <= n' /\
    match res with
    | LVals vs =>
        exists m F' t1 t2,
          xexec m F ds = Some (Normal, F', t1) /\ peval_list F' es = Some (vs, t2) /\ tr = t1 ++ t2 /\
          agree_below n F F' /\ forallb (nb n') es = true
    | LExc c p => exists m F', xexec m F ds = Some (Exc c p, F', tr) /\ agree_below n F F'
    end.

Section XexprInd.
  Variable P : xexpr -> Prop.
  Hypothesis HConst : forall v, P (XConst v).
  Hypothesis HLocal : forall x, P (XLocal x).
  Hypothesis HIf : forall c t e, P c -> P t -> P e -> P (XIf c t e).
  Hypothesis HDo : forall s r, P s -> P r -> P (XDo s r).
  Hypothesis HLet : forall x i b, P i -> P b -> P (XLet x i b).
  Hypothesis HCall : forall f args, Forall P args -> P (XCall f args).
  Hypothesis HLoop : forall binds body, Forall (fun xb => P (snd xb)) binds -> P body -> P (XLoop binds body).
  Hypothesis HRecur : forall args, Forall P args -> P (XRecur args).
  Hypothesis HThrow : forall e, P e -> P (XThrow e).
  Hypothesis HTry : forall b h hb hasfin fe, P b -> P hb -> P fe -> P (XTry b h hb hasfin fe).
  Fixpoint xexpr_ind' (e : xexpr) : P e :=
    match e with
    | XConst v => HConst v
    | XLocal x => HLocal x
    | XIf c t e => HIf c t e (xexpr_ind' c) (xexpr_ind' t) (xexpr_ind' e)
    | XDo s r => HDo s r (xexpr_ind' s) (xexpr_ind' r)
    | XLet x i b => HLet x i b (xexpr_ind' i) (xexpr_ind' b)
    | XCall f args =>
        HCall f args ((fix go (l : list xexpr) : Forall P l :=
                         match l with [] => Forall_nil P | a :: r => Forall_cons a (xexpr_ind' a) (go r) end) args)
    | XLoop binds body =>
        HLoop binds body
          ((fix go (l : list (N * xexpr)) : Forall (fun xb => P (snd xb)) l :=
              match l with [] => Forall_nil _ | xb :: r => Forall_cons xb (xexpr_ind' (snd xb)) (go r) end) binds)
          (xexpr_ind' body)
    | XRecur args =>
        HRecur args ((fix go (l : list xexpr) : Forall P l :=
                        match l with [] => Forall_nil P | a :: r => Forall_cons a (xexpr_ind' a) (go r) end) args)
    | XThrow e => HThrow e (xexpr_ind' e)
    | XTry b h hb hasfin fe => HTry b h hb hasfin fe (xexpr_ind' b) (xexpr_ind' hb) (xexpr_ind' fe)
    end.
End XexprInd.

Lemma xgen_mono : forall e sg lp n d pe n' k, xgen sg lp n e = (d, pe, n', k) -> n <= n'.
Proof.
  assert (LL : forall args, Forall (fun e => forall sg lp n d pe n' k, xgen sg lp n e = (d, pe, n', k) -> n <= n') args ->
               forall sg lp n ds es n' k, xgen_list sg lp n args = (ds, es, n', k) -> n <= n').
  { induction args as [|a r IHr]; intros HF sg lp n ds es n' k G.
    - cbv in G. inversion G; lia.
    - rewrite xgen_list_cons in G.
      destruct (xgen sg lp n a) as [[[? ?] b1] ?] eqn:Ga.
      destruct (xgen_list sg lp b1 r) as [[[? ?] b2] ?] eqn:Gr.
      cbv beta iota in G. inversion G; subst. inversion HF as [|? ? Pa Pr]; subst.
      apply Pa in Ga. apply (IHr Pr) in Gr. lia. }
  induction e as [c|x|c t e IHc IHt IHe|s r IHs IHr|x i b IHi IHb|f args IHargs|binds body IHbinds IHbody|args IHargs
                  |e IHe|b h hb hasfin fe IHb IHh IHf]
    using xexpr_ind'; intros sg lp n d pe n' k G; cbn [xgen] in G.
  - inversion G; lia.
  - inversion G; lia.
  - destruct (xgen sg lp n c) as [[[? ?] a1] ?] eqn:G1.
    destruct (xgen sg lp (a1 + 2) t) as [[[? ?] a2] ?] eqn:G2.
    destruct (xgen sg lp a2 e) as [[[? ?] a3] ?] eqn:G3. cbv beta iota zeta in G. inversion G; subst.
    apply IHc in G1. apply IHt in G2. apply IHe in G3. lia.
  - destruct (xgen sg lp n s) as [[[? ?] a1] ?] eqn:G1.
    destruct (xgen sg lp a1 r) as [[[? ?] a2] ?] eqn:G2. cbv beta iota in G. inversion G; subst.
    apply IHs in G1. apply IHr in G2. lia.
  - destruct (xgen sg lp n i) as [[[? ?] a1] ?] eqn:G1. cbv zeta in G.
    destruct (xgen (upd sg x (NLocal x a1)) lp (a1 + 1) b) as [[[? ?] a2] ?] eqn:G2. cbv beta iota in G. inversion G; subst.
    apply IHi in G1. apply IHb in G2. lia.
  - change (xgen_args (fun n a => xgen sg lp n a) args n) with (xgen_list sg lp n args) in G.
    destruct (xgen_list sg lp n args) as [[[ds es] a1] ka] eqn:G1. cbv beta iota in G. inversion G; subst.
    eapply LL; eauto.
  - change (xgen_binds_with (fun sg n i => xgen sg lp n i) binds sg (n + 1)) with (xgen_binds sg lp (n + 1) binds) in G.
    cbv zeta in G.
    destruct (xgen_binds sg lp (n + 1) binds) as [[[[dbs names] sg1] n1] k1] eqn:Gb.
    destruct (xgen sg1 names n1 body) as [[[db eb] n2] k2] eqn:Gbody. cbv beta iota in G. inversion G; subst.
    apply IHbody in Gbody.
    assert (n + 1 <= n1).
    { clear - Gb IHbinds. revert sg dbs names sg1 n1 k1 Gb. generalize (n + 1).
      induction binds as [|[x i] r IHr]; intros m sg dbs names sg1 n1 k1 Gb.
      - cbv in Gb. inversion Gb; lia.
      - rewrite xgen_binds_cons in Gb.
        destruct (xgen sg lp m i) as [[[? ?] b1] ?] eqn:Gi. cbv zeta in Gb.
        destruct (xgen_binds (upd sg x (NLocal x b1)) lp (b1 + 1) r) as [[[[? ?] ?] b2] ?] eqn:Gr.
        cbv beta iota in Gb. inversion Gb; subst.
        inversion IHbinds as [|? ? Pi Pr]; subst. simpl in Pi. apply Pi in Gi. apply (IHr Pr) in Gr. lia. }
    lia.
  - change (xgen_args (fun n a => xgen sg lp n a) args n) with (xgen_list sg lp n args) in G.
    destruct (xgen_list sg lp n args) as [[[ds es] a1] ka] eqn:G1. cbv beta iota in G. inversion G; subst.
    eapply LL; eauto.
  - destruct (xgen sg lp n e) as [[[? ?] a1] ?] eqn:G1. cbv beta iota in G. inversion G; subst.
    apply IHe in G1. exact G1.
  - cbv zeta in G.
    destruct (xgen sg lp (n + 1) b) as [[[db eb] n1] k1] eqn:Gb.
    assert (Lb : n + 1 <= n1) by (eapply IHb; eauto).
    destruct h as [[cls x]|].
    + cbv zeta in G.
      destruct (xgen (upd sg x (NLocal x n1)) lp (n1 + 1) hb) as [[[dh eh] n2] k2] eqn:Gh.
      assert (Lh : n1 + 1 <= n2) by (eapply IHh; eauto).
      destruct hasfin.
      * destruct (xgen sg lp n2 fe) as [[[df ef] n3] k3] eqn:Gf. cbv beta iota in G. inversion G; subst.
        assert (n2 <= n') by (eapply IHf; eauto). lia.
      * cbv beta iota in G. inversion G; subst. lia.
    + destruct hasfin.
      * destruct (xgen sg lp n1 fe) as [[[df ef] n3] k3] eqn:Gf. cbv beta iota in G. inversion G; subst.
        assert (n1 <= n') by (eapply IHf; eauto). lia.
      * cbv beta iota in G. inversion G; subst. lia.
Qed.

Lemma xgen_list_mono : forall r sg lp m ds es n' k, xgen_list sg lp m r = (ds, es, n', k) -> m <= n'.
Proof.
  induction r as [|b r IHr]; intros sg lp m ds es n' k G.
  - cbv in G. inversion G; lia.
  - rewrite xgen_list_cons in G.
    destruct (xgen sg lp m b) as [[[? ?] b1] ?] eqn:Gb.
    destruct (xgen_list sg lp b1 r) as [[[? ?] b2] ?] eqn:Gr. cbv beta iota in G. inversion G; subst.
    apply xgen_mono in Gb. apply IHr in Gr. lia.
Qed.

Lemma xsim_list_of fuel : xsim fuel -> xsim_list fuel.
Proof.
  intros HS l. induction l as [|a r IH]; intros sg lp n rho F res tr ds es n' HR He Hg.
  - simpl in He. inversion He; subst. cbv in Hg. inversion Hg; subst.
    split; [lia|]. exists 1%nat, F, [], []. repeat split; auto using agree_refl.
  - simpl in He.
    rewrite xgen_list_cons in Hg.
    destruct (xgen sg lp n a) as [[[d e] n1] k1] eqn:Ga.
    destruct (xgen_list sg lp n1 r) as [[[ds' es'] n2] k2] eqn:Gr.
    cbv beta iota in Hg. injection Hg as Hg1 Hg2 Hg3 Hk. subst.
    apply andb_true_iff in Hk as [Hk Hhz]. apply andb_true_iff in Hk as [Hk1 Hk2]. subst.
    pose proof (xgen_mono _ _ _ _ _ _ _ _ Ga) as La.
    pose proof (xgen_list_mono _ _ _ _ _ _ _ _ Gr) as Lr.
    destruct (xeval fuel rho a) as [[[va|?|ca pa] ta]|] eqn:Ea; try discriminate.
    + (* the head evaluates to a value *)
      destruct (HS a sg lp n rho F (OVal va) ta d e n1 HR Ea Ga) as (L1 & m1 & F1 & ta1 & ta2 & X1 & P1 & T1 & A1 & N1).
      assert (HR1 : R2 rho sg F1 n1) by (eapply R2_mono; eauto).
      destruct (evals (xeval fuel) rho r) as [[[vr|cr pr] trr]|] eqn:Er; try discriminate.
      * inversion He; subst; clear He.
        destruct (IH sg lp n1 rho F1 (LVals vr) trr ds' es' n' HR1 Er Gr)
          as (L2 & m2 & F2 & ts1 & ts2 & X2 & P2 & T2 & A2 & N2).
        split; [lia|].
        exists (Nat.max m1 m2), F2, (ta1 ++ ts1), (ta2 ++ ts2).
        split; [eapply xexec_seq; eauto|].
        split; [simpl; rewrite (peval_agree n1 F1 F2 e N1 A2), P1, P2; reflexivity|].
        split.
        { subst. apply orb_true_iff in Hhz as [Hat|Hq].
          - rewrite (atomic_no_trace _ _ _ _ Hat P1). rewrite !app_nil_r, ?app_nil_l. apply app_assoc.
          - destruct (xquiet_no_exc _ _ _ _ _ _ Hq X2) as [_ ->]. rewrite !app_nil_r, ?app_nil_l. rewrite app_assoc. reflexivity. }
        split; [eapply agree_trans; eauto|].
        simpl. rewrite (nb_mono n1 n' e L2 N1). exact N2.
      * inversion He; subst; clear He.
        destruct (IH sg lp n1 rho F1 (LExc cr pr) trr ds' es' n' HR1 Er Gr) as (L2 & m2 & F2 & X2 & A2).
        split; [lia|].
        exists (Nat.max m1 m2), F2.
        split; [|eapply agree_trans; eauto].
        (* the later dependencies raise: they are not quiet, so the head's inline expression is atomic *)
        apply orb_true_iff in Hhz as [Hat|Hq].
        -- pose proof (xexec_seq _ _ _ _ _ _ _ _ _ _ X1 X2) as X3.
           rewrite (atomic_no_trace _ _ _ _ Hat P1), app_nil_r. exact X3.
        -- destruct (xquiet_no_exc _ _ _ _ _ _ Hq X2) as [Habs _]. discriminate.
    + (* the head raises *)
      inversion He; subst; clear He.
      destruct (HS a sg lp n rho F (OExc ca pa) tr d e n1 HR Ea Ga) as (L1 & m1 & F1 & X1 & A1).
      split; [lia|]. exists m1, F1. split; [|exact A1].
      apply xexec_stop; [discriminate|exact X1].
Qed.

(** loop bindings: either all bound, or an initialiser raised *)
Definition xsim_binds (fuel : nat) : Prop :=
  forall l sg lp n rho F b tr dbs names sg1 n1,
    R2 rho sg F n -> evbinds (xeval fuel) rho l = Some (b, tr) ->
    xgen_binds sg lp n l = (dbs, names, sg1, n1, true) -> NoDup (map fst l) ->
    n <= n1 /\
    match b with
    | BEnv rho1 =>
        exists m F1,
          xexec m F dbs = Some (Normal, F1, tr) /\ R2 rho1 sg1 F1 n1 /\ agree_below n F F1 /\
          Forall2 (fun x p => sg1 x = Some p /\ idx p < n1) (map fst l) names /\
          Forall (fun p => n <= idx p) names /\ NoDup names /\
          (forall y, ~ In y (map fst l) -> sg1 y = sg y)
    | BExc c p => exists m F1, xexec m F dbs = Some (Exc c p, F1, tr) /\ agree_below n F F1
    end.

Lemma xgen_binds_mono : forall l sg lp n dbs names sg1 n1 k,
  xgen_binds sg lp n l = (dbs, names, sg1, n1, k) -> n <= n1.
Proof.
  induction l as [|[x i] r IH]; intros sg lp n dbs names sg1 n1 k G.
  - cbv in G. inversion G; lia.
  - rewrite xgen_binds_cons in G.
    destruct (xgen sg lp n i) as [[[? ?] b1] ?] eqn:Gi. cbv zeta in G.
    destruct (xgen_binds (upd sg x (NLocal x b1)) lp (b1 + 1) r) as [[[[? ?] ?] b2] ?] eqn:Gr.
    cbv beta iota in G. inversion G; subst. apply xgen_mono in Gi. apply IH in Gr. lia.
Qed.

Lemma xsim_binds_of fuel : xsim fuel -> xsim_binds fuel.
Proof.
  intros HS l. induction l as [|[x i] r IH]; intros sg lp n rho F b tr dbs names sg1 n1 HR He Hg ND.
  - simpl in He. inversion He; subst. cbv in Hg. inversion Hg; subst.
    split; [lia|]. exists 1%nat, F. split; [reflexivity|]. split; [exact HR|].
    repeat split; auto using agree_refl; constructor.
  - simpl in He.
    pose proof (xgen_binds_mono _ _ _ _ _ _ _ _ _ Hg) as Lall.
    rewrite xgen_binds_cons in Hg.
    destruct (xgen sg lp n i) as [[[di ei] n1'] k1] eqn:Gi. cbv zeta in Hg.
    destruct (xgen_binds (upd sg x (NLocal x n1')) lp (n1' + 1) r) as [[[[ds ps] sg2] n2] k2] eqn:Gr.
    cbv beta iota in Hg. injection Hg as Hg1 Hg2 Hg3 Hg4 Hk. subst.
    apply andb_true_iff in Hk as [Hk1 Hk2]. subst.
    simpl in ND. inversion ND as [|? ? Hnin ND']; subst.
    split; [exact Lall|].
    destruct (xeval fuel rho i) as [[[v|?|ci pi] t1]|] eqn:Ei; try discriminate.
    + destruct (HS i sg lp n rho F (OVal v) t1 di ei n1' HR Ei Gi)
        as (L1 & m1 & F1 & ti1 & ti2 & X1 & P1 & T1 & A1 & N1).
      set (p := NLocal x n1') in *.
      assert (HR1 : R2 (upd rho x v) (upd sg x p) (set F1 p v) (n1' + 1)) by (eapply R2_let; eauto).
      assert (Xa : xexec 1 F1 [XAssign p ei] = Some (Normal, set F1 p v, ti2)).
      { rewrite xexec_cons, (xexec1_S_assign 0 F1 p ei v ti2 P1), xexec_nil, app_nil_r. reflexivity. }
      assert (Ap : agree_below n F (set F1 p v)).
      { apply (agree_trans n n F F1 (set F1 p v)); [apply N.le_refl|exact A1|]. apply agree_set. unfold p. simpl. lia. }
      destruct (evbinds (xeval fuel) (upd rho x v) r) as [[b' t2]|] eqn:Er; [|discriminate].
      inversion He; subst; clear He.
      destruct (IH (upd sg x p) lp (n1' + 1) (upd rho x v) (set F1 p v) b t2 ds ps sg1 n1 HR1 Er Gr ND') as (L2 & Hrest).
      destruct b as [rho1|cb pb].
      * destruct Hrest as (m2 & F2 & X2 & HR2 & A2 & FA & FN & NDp & Hout).
        exists (Nat.max m1 (Nat.max 1 m2)), F2.
        split.
        { pose proof (xexec_seq 1 m2 F1 [XAssign p ei] ds _ _ _ _ _ Xa X2) as X3.
          pose proof (xexec_seq m1 (Nat.max 1 m2) F di ([XAssign p ei] ++ ds) _ _ _ _ _ X1 X3) as X4.
          rewrite <- ?app_assoc. rewrite <- ?app_assoc in X4. exact X4. }
        split; [exact HR2|].
        split; [apply (agree_trans n n F (set F1 p v) F2); [apply N.le_refl|exact Ap|apply (agree_weaken n (n1' + 1)); [lia|exact A2]]|].
        split.
        { constructor; [|exact FA]. split; [|unfold p; simpl; lia].
          rewrite Hout by exact Hnin. unfold upd. rewrite N.eqb_refl. reflexivity. }
        split.
        { constructor; [unfold p; simpl; lia|]. eapply Forall_impl; [|exact FN]. intros q Hq. cbv beta in *. lia. }
        split.
        { constructor; [|exact NDp]. intro Hin. rewrite Forall_forall in FN. specialize (FN _ Hin). unfold p in FN. simpl in FN. lia. }
        intros y Hy. rewrite Hout by (intro X; apply Hy; right; exact X).
        unfold upd. destruct (N.eqb y x) eqn:E; [|reflexivity].
        apply N.eqb_eq in E. subst. exfalso. apply Hy. left; reflexivity.
      * destruct Hrest as (m2 & F2 & X2 & A2).
        exists (Nat.max m1 (Nat.max 1 m2)), F2.
        split.
        { pose proof (xexec_seq 1 m2 F1 [XAssign p ei] ds _ _ _ _ _ Xa X2) as X3.
          pose proof (xexec_seq m1 (Nat.max 1 m2) F di ([XAssign p ei] ++ ds) _ _ _ _ _ X1 X3) as X4.
          rewrite <- ?app_assoc. rewrite <- ?app_assoc in X4. exact X4. }
        apply (agree_trans n n F (set F1 p v) F2); [apply N.le_refl|exact Ap|apply (agree_weaken n (n1' + 1)); [lia|exact A2]].
    + inversion He; subst; clear He.
      destruct (HS i sg lp n rho F (OExc ci pi) tr di ei n1' HR Ei Gi) as (L1 & m1 & F1 & X1 & A1).
      exists m1, F1. split; [|exact A1]. apply xexec_stop; [discriminate|exact X1].
Qed.

(** one loop: every iteration of the source loop is one iteration of `while True`; the loop
    is left by a value (break) or by an exception *)
Lemma loop_sim fuel0 : (forall k, (k < fuel0)%nat -> xsim k) ->
  forall k, (k <= fuel0)%nat ->
  forall xs rho1 body o t sg1 names n1 F1 db eb n2 res,
    xloop k xs rho1 body = Some (o, t) ->
    R2 rho1 sg1 F1 n1 -> xgen sg1 names n1 body = (db, eb, n2, true) ->
    Forall2 (fun x p => sg1 x = Some p /\ idx p < n1) xs names -> NoDup names ->
    (forall y q, ~ In y xs -> sg1 y = Some q -> ~ In q names) ->
    Forall (fun p => idx res < idx p) names -> idx res < n1 ->
    match o with
    | OVal v => exists m F2, xwhile m F1 (db ++ [XAssign res eb; XBreak]) = Some (Normal, F2, t) /\
                             F2 res = Some v /\ agree_below (idx res) F1 F2
    | OExc c p => exists m F2, xwhile m F1 (db ++ [XAssign res eb; XBreak]) = Some (Exc c p, F2, t) /\
                               agree_below (idx res) F1 F2
    | ORec _ => False
    end.
Proof.
  intros HS. induction k as [|k IHk]; intros Hk xs rho1 body o t sg1 names n1 F1 db eb n2 res
                                        Hl HR Hg HF ND Hout Hres Hres2; [discriminate|].
  cbn [xloop] in Hl.
  destruct (xeval k rho1 body) as [[[vb|vs|cb pb] t1]|] eqn:Eb; try discriminate.
  - (* value: assign the result and break *)
    inversion Hl; subst; clear Hl.
    destruct (HS k ltac:(lia) body sg1 names n1 rho1 F1 (OVal vb) t db eb n2 HR Eb Hg)
      as (L1 & m & F' & tb1 & tb2 & X & P & T & A & Nb).
    exists (S (Nat.max m 1)), (set F' res vb).
    split.
    { cbn [xwhile].
      assert (Xr : xexec 1 F' [XAssign res eb; XBreak] = Some (Brk, set F' res vb, tb2)).
      { rewrite xexec_cons, (xexec1_S_assign 0 F' res eb vb tb2 P), xexec_cons. cbn [xexec1].
        rewrite app_nil_r. reflexivity. }
      pose proof (xexec_seq m 1 F1 db _ _ _ _ _ _ X Xr) as X2. unfold xexec in X2. rewrite X2, T. reflexivity. }
    split; [apply set_same|].
    apply (agree_trans (idx res) (idx res) F1 F' (set F' res vb)); [apply N.le_refl| |apply agree_set; apply N.le_refl].
    apply (agree_weaken (idx res) n1); [lia|exact A].
  - (* recur *)
    destruct (rebind xs vs rho1) as [rho2|] eqn:Er; [|discriminate].
    destruct (xloop k xs rho2 body) as [[o2 t2]|] eqn:El; [|discriminate].
    inversion Hl; subst; clear Hl.
    assert (Hlen : length vs = length names).
    { rewrite <- (rebind_length _ _ _ _ Er). apply (Forall2_length _ _ _ HF). }
    destruct (HS k ltac:(lia) body sg1 names n1 rho1 F1 (ORec vs) t1 db eb n2 HR Eb Hg) as (L1 & Hrec).
    destruct (Hrec Hlen) as (m & F' & F'' & X & A & Sa).
    assert (HR' : R2 rho1 sg1 F' n1) by (eapply R2_mono; [exact HR|apply N.le_refl|exact A]).
    assert (HR2 : R2 rho2 sg1 F'' n1) by (eapply R2_rebind; eauto).
    pose proof (IHk ltac:(lia) xs rho2 body o t2 sg1 names n1 F'' db eb n2 res El HR2 Hg HF ND Hout Hres Hres2) as Hnext.
    assert (X' : forall m2, xexec (Nat.max m m2) F1 (db ++ [XAssign res eb; XBreak]) = Some (Cont, F'', t1)).
    { intro m2. apply xexec_stop; [discriminate|]. eapply xexec_mono; [apply Nat.le_max_l|exact X]. }
    assert (Ag : forall F2, agree_below (idx res) F'' F2 -> agree_below (idx res) F1 F2).
    { intros F2 A2. apply (agree_trans (idx res) (idx res) F1 F'' F2); [apply N.le_refl| |exact A2].
      intros q Hq. rewrite (set_all_other _ _ _ _ q Sa).
      + apply A. lia.
      + intro Hin. rewrite Forall_forall in Hres. specialize (Hres _ Hin). lia. }
    destruct o as [v|?|c p].
    + destruct Hnext as (m2 & F2 & W & Fr & A2).
      exists (S (Nat.max m m2)), F2.
      split.
      { cbn [xwhile]. specialize (X' m2). unfold xexec in X'. rewrite X'.
        rewrite (xwhile_mono m2 (Nat.max m m2) _ _ _ (Nat.le_max_r _ _) W). reflexivity. }
      split; [exact Fr|apply Ag; exact A2].
    + exact Hnext.
    + destruct Hnext as (m2 & F2 & W & A2).
      exists (S (Nat.max m m2)), F2.
      split.
      { cbn [xwhile]. specialize (X' m2). unfold xexec in X'. rewrite X'.
        rewrite (xwhile_mono m2 (Nat.max m m2) _ _ _ (Nat.le_max_r _ _) W). reflexivity. }
      apply Ag; exact A2.
  - (* the body raises: the exception leaves the loop *)
    inversion Hl; subst; clear Hl.
    destruct (HS k ltac:(lia) body sg1 names n1 rho1 F1 (OExc cb pb) t db eb n2 HR Eb Hg) as (L1 & m & F' & X & A).
    exists (S m), F'.
    split.
    { cbn [xwhile].
      assert (X2 : xexec m F1 (db ++ [XAssign res eb; XBreak]) = Some (Exc cb pb, F', t))
        by (apply xexec_stop; [discriminate|exact X]).
      unfold xexec in X2. rewrite X2. reflexivity. }
    apply (agree_weaken (idx res) n1); [lia|exact A].
Qed.
