(** C04 -- what each wrapper function abstracts to (from the laws of [Libs]). *)
From Coq Require Import List Bool ZArith NArith Lia Permutation.
Import ListNotations.
From Verif Require Import Common.ListX C04.Val C04.Lib C04.Model C04.Spec C04.Abs.

Lemma list_eqb_elem_refl l : list_eqb elem_eqb l l = true.
Proof. apply list_eqb_spec; [apply elem_eqb_eq|reflexivity]. Qed.

Lemma coll_equiv_refl c : coll_equiv c c = true.
Proof.
  destruct c; simpl; try apply list_eqb_elem_refl.
  - apply perm_perm_eqb; [apply pair_eqb_eq|reflexivity].
  - apply perm_perm_eqb; [apply elem_eqb_eq|reflexivity].
Qed.

Lemma coll_equiv_map m1 m2 : Permutation m1 m2 -> coll_equiv (CMap m1) (CMap m2) = true.
Proof. intro H. simpl. apply perm_perm_eqb; [apply pair_eqb_eq|assumption]. Qed.

Lemma coll_equiv_set l1 l2 : Permutation l1 l2 -> coll_equiv (CSet l1) (CSet l2) = true.
Proof. intro H. simpl. apply perm_perm_eqb; [apply elem_eqb_eq|assumption]. Qed.

Lemma meta_eqb_refl m : meta_eqb m m = true.
Proof. destruct m; simpl; [apply N.eqb_refl|reflexivity]. Qed.

Lemma sres_eqb_refl r : sres_eqb r r = true.
Proof.
  destruct r; simpl.
  - rewrite coll_equiv_refl, meta_eqb_refl. reflexivity.
  - apply Nat.eqb_refl.
  - apply elem_eqb_refl.
  - apply Bool.eqb_reflx.
  - apply Z.eqb_refl.
  - rewrite Bool.eqb_reflx. apply list_eqb_elem_refl.
  - apply N.eqb_refl.
Qed.

Lemma zlen_perm {A} (l1 l2 : list A) : Permutation l1 l2 -> zlen l1 = zlen l2.
Proof. intro H. unfold zlen. rewrite (Permutation_length H). reflexivity. Qed.

Lemma al_del_notin k m : memk k m = false -> al_del k m = m.
Proof.
  unfold memk. induction m as [|[k' v'] r IH]; simpl; [reflexivity|].
  intro H. apply orb_false_iff in H as [A B]. rewrite A, (IH B). reflexivity.
Qed.

Lemma s_del_notin x l : mem x l = false -> s_del x l = l.
Proof.
  induction l as [|y r IH]; simpl; [reflexivity|].
  intro H. apply orb_false_iff in H as [A B]. rewrite A, (IH B). reflexivity.
Qed.

Lemma has_key_al_get k m : has_key (al_get k m) = memk k m.
Proof.
  destruct (al_get k m) eqn:E; simpl.
  - destruct (memk k m) eqn:F; [reflexivity|]. apply al_get_none_memk in F. congruence.
  - symmetry. apply al_get_none_memk. assumption.
Qed.

Section Wrappers.
  Variable L : Libs.

  (** ** vectors *)
  Lemma fold_ev_append xs : forall e,
    ev_list L (fold_left (ev_append L) xs e) = ev_list L e ++ xs.
  Proof.
    induction xs as [|x r IH]; intro e; simpl; [rewrite app_nil_r; reflexivity|].
    rewrite IH, H_evolver_append, <- app_assoc. reflexivity.
  Qed.

  Lemma abs_vec_cons p xs : pv_list L (vec_cons L p xs) = pv_list L p ++ xs.
  Proof. unfold vec_cons. rewrite H_evolver_persistent, fold_ev_append, H_evolver_of. reflexivity. Qed.

  Lemma abs_vec_with_meta p : pv_list L (vec_with_meta L p) = pv_list L p.
  Proof. unfold vec_with_meta. apply H_pvec_of. Qed.

  Lemma pv_mset_abs p z v :
    match pv_mset L p z v with
    | Some p' => py_set (pv_list L p) z v = Some (pv_list L p')
    | None => py_set (pv_list L p) z v = None
    end.
  Proof. pose proof (H_pvec_mset L p z v) as H. destruct (pv_mset L p z v); simpl in H; auto. Qed.

  Lemma ev_set_abs e z v :
    match ev_set L e z v with
    | Some e' => py_set (ev_list L e) z v = Some (ev_list L e')
    | None => py_set (ev_list L e) z v = None
    end.
  Proof. pose proof (H_evolver_set L e z v) as H. destruct (ev_set L e z v); simpl in H; auto. Qed.

  (** ** lists, queues *)
  Lemma fold_pl_cons xs : forall p, pl_list L (fold_left (pl_cons L) xs p) = rev xs ++ pl_list L p.
  Proof.
    induction xs as [|x r IH]; intro p; simpl; [reflexivity|].
    rewrite IH, H_plist_cons, <- app_assoc. reflexivity.
  Qed.

  Lemma fold_dq_extend1 xs : forall q,
    dq_list L (fold_left (fun q x => dq_extend L q [x]) xs q) = dq_list L q ++ xs.
  Proof.
    induction xs as [|x r IH]; intro q; simpl; [rewrite app_nil_r; reflexivity|].
    rewrite IH, H_pdeque_extend, <- app_assoc. reflexivity.
  Qed.

  (** ** maps: a mutation [mm] represents the association list [m] *)
  Definition Rmut (mm : pmut L) (m : al) : Prop := Permutation (mm_items L mm) m.

  Lemma Rmut_nodupk mm m : Rmut mm m -> nodupk m = true.
  Proof. intro H. rewrite <- (perm_nodupk _ _ H). apply H_mut_nodup. Qed.

  Lemma Rmut_mutate p : Rmut (m_mutate L p) (m_items L p) /\ mm_fin L (m_mutate L p) = false.
  Proof. apply H_map_mutate. Qed.

  Lemma Rmut_set mm m k v : Rmut mm m -> mm_fin L mm = false ->
    exists mm', mm_set L mm k v = Some mm' /\ Rmut mm' (al_set k v m) /\ mm_fin L mm' = false.
  Proof.
    intros R F. destruct (H_mut_set L mm k v F) as (mm' & E & F' & P).
    exists mm'. repeat split; try assumption. unfold Rmut. rewrite P.
    apply perm_al_set; [exact R|apply H_mut_nodup].
  Qed.

  Lemma Rmut_memk mm m k : Rmut mm m -> memk k (mm_items L mm) = memk k m.
  Proof. intro R. apply perm_memk. exact R. Qed.

  Lemma Rmut_dissoc mm m k : Rmut mm m -> mm_fin L mm = false ->
    exists mm', mut_dissoc L mm k = Some mm' /\ Rmut mm' (al_del k m) /\ mm_fin L mm' = false.
  Proof.
    intros R F. unfold mut_dissoc. destruct (memk k (mm_items L mm)) eqn:E.
    - destruct (H_mut_del L mm k F E) as (mm' & D & F' & P). rewrite D.
      exists mm'. repeat split; try assumption. unfold Rmut. rewrite P.
      apply perm_al_del; [exact R|apply H_mut_nodup].
    - rewrite (H_mut_del_absent L mm k F E). exists mm. repeat split; try assumption.
      rewrite (Rmut_memk _ _ k R) in E. rewrite (al_del_notin _ _ E). exact R.
  Qed.

  Lemma mut_dissoc_finished mm k : mm_fin L mm = true -> mut_dissoc L mm k = None.
  Proof. intro F. unfold mut_dissoc. rewrite (H_mut_del_finished L mm k F). reflexivity. Qed.

  Lemma Rmut_finish mm m : Rmut mm m -> Permutation (m_items L (finish L mm)) m.
  Proof. intro R. unfold finish. destruct (H_mut_finish L mm) as (P & _ & _). rewrite P. exact R. Qed.

  Lemma Rmut_finish_snd mm m : Rmut mm m ->
    Rmut (snd (mm_finish L mm)) m /\ mm_fin L (snd (mm_finish L mm)) = true.
  Proof. intro R. destruct (H_mut_finish L mm) as (_ & P & F). split; [unfold Rmut; rewrite P; exact R|exact F]. Qed.

  Lemma Rmut_get mm m k : Rmut mm m -> mm_get L mm k = al_get k m.
  Proof. intro R. rewrite H_mut_get. apply perm_al_get; [exact R|apply H_mut_nodup]. Qed.

  Lemma Rmut_len mm m : Rmut mm m -> mm_len L mm = zlen m.
  Proof. intro R. rewrite H_mut_len. apply zlen_perm. exact R. Qed.

  (** map conj of a list of elements against the specification's c_conj *)
  Lemma mut_conj1_sim mm m x : Rmut mm m -> mm_fin L mm = false ->
    match mut_conj1 L mm x, c_conj1 (CMap m) x with
    | Some mm', Some (CMap m') => Rmut mm' m' /\ mm_fin L mm' = false
    | None, None => True
    | _, _ => False
    end.
  Proof.
    intros R F. unfold mut_conj1, c_conj1.
    destruct x as [[]|[|k [|v [|w r]]]]; auto.
    destruct (Rmut_set mm m k v R F) as (mm' & E & R' & F'). rewrite E. auto.
  Qed.

  Lemma mut_conj_sim xs : forall mm m, Rmut mm m -> mm_fin L mm = false ->
    match mut_conj L mm xs, c_conj (CMap m) xs with
    | Some mm', Some (CMap m') => Rmut mm' m' /\ mm_fin L mm' = false
    | None, None => True
    | _, _ => False
    end.
  Proof.
    induction xs as [|x r IH]; intros mm m R F; cbn [mut_conj c_conj]; [auto|].
    pose proof (mut_conj1_sim mm m x R F) as H.
    destruct (mut_conj1 L mm x) as [mm'|], (c_conj1 (CMap m) x) as [[]|]; try contradiction; auto.
    destruct H as [R' F']. apply IH; assumption.
  Qed.

  Lemma map_cons_sim p xs :
    match map_cons L p xs, c_conj (CMap (m_items L p)) xs with
    | Some p', Some (CMap m') => Permutation (m_items L p') m'
    | None, None => True
    | _, _ => False
    end.
  Proof.
    unfold map_cons. destruct (Rmut_mutate p) as [R F].
    pose proof (mut_conj_sim xs _ _ R F) as H.
    destruct (mut_conj L (m_mutate L p) xs) as [mm'|], (c_conj (CMap (m_items L p)) xs) as [[]|];
      try contradiction; auto.
    destruct H as [R' _]. apply Rmut_finish. exact R'.
  Qed.

  Lemma map_assoc_sim p k v :
    exists p', map_assoc L p k v = Some p' /\ Permutation (m_items L p') (al_set k v (m_items L p)).
  Proof.
    unfold map_assoc. destruct (Rmut_mutate p) as [R F].
    destruct (Rmut_set _ _ k v R F) as (mm' & E & R' & _). rewrite E.
    eexists; split; [reflexivity|]. apply Rmut_finish. exact R'.
  Qed.

  Lemma map_dissoc_sim p k :
    exists p', map_dissoc L p k = Some p' /\ Permutation (m_items L p') (al_del k (m_items L p)).
  Proof.
    unfold map_dissoc. destruct (Rmut_mutate p) as [R F].
    destruct (Rmut_dissoc _ _ k R F) as (mm' & E & R' & _). rewrite E.
    eexists; split; [reflexivity|]. apply Rmut_finish. exact R'.
  Qed.

  Lemma fold_set_sim kvs : forall (acc : pmut L) m, Rmut acc m -> mm_fin L acc = false ->
    exists mm', fold_left (fun acc kv => match acc with Some mm => mm_set L mm (fst kv) (snd kv) | None => None end)
                          kvs (Some acc) = Some mm' /\
                Rmut mm' (fold_left (fun a kv => al_set (fst kv) (snd kv) a) kvs m) /\ mm_fin L mm' = false.
  Proof.
    induction kvs as [|[k v] r IH]; intros acc m R F; simpl; [eauto|].
    destruct (Rmut_set acc m k v R F) as (mm' & E & R' & F'). rewrite E. apply IH; assumption.
  Qed.

  Lemma map_of_kvs_sim kvs :
    exists p, map_of_kvs L kvs = Some p /\ Permutation (m_items L p) (al_of kvs).
  Proof.
    unfold map_of_kvs. destruct (Rmut_mutate (m_empty L)) as [R F]. rewrite H_map_empty in R.
    destruct (fold_set_sim kvs _ _ R F) as (mm' & E & R' & _). rewrite E.
    eexists; split; [reflexivity|]. apply Rmut_finish. exact R'.
  Qed.

  (** ** sets: a mutation [mm] represents the key list [l] *)
  Definition Rkeys (mm : pmut L) (l : list elem) : Prop := Permutation (map fst (mm_items L mm)) l.

  Lemma Rkeys_nodup mm l : Rkeys mm l -> nodup l = true.
  Proof. intro H. rewrite <- (perm_nodup _ _ H). apply (H_mut_nodup L mm). Qed.

  Lemma Rkeys_mutate p : Rkeys (m_mutate L p) (set_keys L p) /\ mm_fin L (m_mutate L p) = false.
  Proof.
    destruct (H_map_mutate L p) as [P F]. split; [|exact F].
    unfold Rkeys, set_keys. apply Permutation_map. exact P.
  Qed.

  Lemma Rkeys_add mm l x : Rkeys mm l -> mm_fin L mm = false ->
    exists mm', mm_set L mm x x = Some mm' /\ Rkeys mm' (s_add x l) /\ mm_fin L mm' = false.
  Proof.
    intros R F. destruct (H_mut_set L mm x x F) as (mm' & E & F' & P).
    exists mm'. repeat split; try assumption. unfold Rkeys.
    rewrite (Permutation_map fst P), map_fst_al_set. apply perm_s_add. exact R.
  Qed.

  Lemma Rkeys_mem mm l x : Rkeys mm l -> memk x (mm_items L mm) = mem x l.
  Proof. intro R. unfold memk. apply perm_mem. exact R. Qed.

  Lemma Rkeys_del mm l x : Rkeys mm l -> mm_fin L mm = false ->
    exists mm', mut_dissoc L mm x = Some mm' /\ Rkeys mm' (s_del x l) /\ mm_fin L mm' = false.
  Proof.
    intros R F. unfold mut_dissoc. destruct (memk x (mm_items L mm)) eqn:E.
    - destruct (H_mut_del L mm x F E) as (mm' & D & F' & P). rewrite D.
      exists mm'. repeat split; try assumption. unfold Rkeys.
      rewrite (Permutation_map fst P), map_fst_al_del. apply perm_s_del; [exact R|apply (H_mut_nodup L mm)].
    - rewrite (H_mut_del_absent L mm x F E). exists mm. repeat split; try assumption.
      rewrite (Rkeys_mem _ _ x R) in E. rewrite (s_del_notin _ _ E). exact R.
  Qed.

  Lemma Rkeys_finish mm l : Rkeys mm l -> Permutation (set_keys L (finish L mm)) l.
  Proof.
    intro R. unfold finish, set_keys. destruct (H_mut_finish L mm) as (P & _ & _).
    rewrite (Permutation_map fst P). exact R.
  Qed.

  Lemma Rkeys_finish_snd mm l : Rkeys mm l ->
    Rkeys (snd (mm_finish L mm)) l /\ mm_fin L (snd (mm_finish L mm)) = true.
  Proof.
    intro R. destruct (H_mut_finish L mm) as (_ & P & F). split; [|exact F].
    unfold Rkeys. rewrite (Permutation_map fst P). exact R.
  Qed.

  Lemma Rkeys_has mm l x : Rkeys mm l -> has_key (mm_get L mm x) = mem x l.
  Proof. intro R. rewrite H_mut_get, has_key_al_get. apply Rkeys_mem. exact R. Qed.

  Lemma Rkeys_len mm l : Rkeys mm l -> mm_len L mm = zlen l.
  Proof.
    intro R. rewrite H_mut_len. unfold zlen. rewrite <- (Permutation_length R), map_length. reflexivity.
  Qed.

  Lemma mut_add_sim xs : forall mm l, Rkeys mm l -> mm_fin L mm = false ->
    exists mm', mut_add L mm xs = Some mm' /\
                Rkeys mm' (fold_left (fun acc x => s_add x acc) xs l) /\ mm_fin L mm' = false.
  Proof.
    induction xs as [|x r IH]; intros mm l R F; simpl; [eauto|].
    destruct (Rkeys_add mm l x R F) as (mm' & E & R' & F'). rewrite E. apply IH; assumption.
  Qed.

  Lemma c_conj_set xs : forall l, c_conj (CSet l) xs = Some (CSet (fold_left (fun acc x => s_add x acc) xs l)).
  Proof. induction xs as [|x r IH]; intro l; simpl; [reflexivity|apply IH]. Qed.

  Lemma set_cons_sim p xs :
    exists p', set_cons L p xs = Some p' /\
               Permutation (set_keys L p') (fold_left (fun acc x => s_add x acc) xs (set_keys L p)).
  Proof.
    unfold set_cons. destruct (Rkeys_mutate p) as [R F].
    destruct (mut_add_sim xs _ _ R F) as (mm' & E & R' & _). rewrite E.
    eexists; split; [reflexivity|]. apply Rkeys_finish. exact R'.
  Qed.

  Lemma set_dissoc_sim p x :
    exists p', map_dissoc L p x = Some p' /\ Permutation (set_keys L p') (s_del x (set_keys L p)).
  Proof.
    unfold map_dissoc. destruct (Rkeys_mutate p) as [R F].
    destruct (Rkeys_del _ _ x R F) as (mm' & E & R' & _). rewrite E.
    eexists; split; [reflexivity|]. apply Rkeys_finish. exact R'.
  Qed.

  Lemma map_fst_dup l : map fst (map (fun x : elem => (x, x)) l) = l.
  Proof. induction l; simpl; congruence. Qed.

  Lemma map_fst_fold_al_set l : forall acc,
    map fst (fold_left (fun a kv => al_set (fst kv) (snd kv) a) (map (fun x : elem => (x, x)) l) acc)
    = fold_left (fun a x => s_add x a) l (map fst acc).
  Proof.
    induction l as [|x r IH]; intro acc; simpl; [reflexivity|].
    rewrite IH, map_fst_al_set. reflexivity.
  Qed.

  Lemma set_of_sim l : Permutation (set_keys L (set_of L l)) (set_of_list l).
  Proof.
    unfold set_keys, set_of, set_of_list.
    rewrite (Permutation_map fst (H_map_of L _)). unfold al_of. rewrite map_fst_fold_al_set. reflexivity.
  Qed.

  Lemma set_of_list_nodup_id l : nodup l = true -> forall acc, (forall x, In x l -> mem x acc = false) ->
    nodup acc = true -> fold_left (fun a x => s_add x a) l acc = acc ++ l.
  Proof.
    induction l as [|x r IH]; intros N acc Hd Na; simpl; [rewrite app_nil_r; reflexivity|].
    simpl in N. apply andb_true_iff in N as [N1 N2].
    unfold s_add at 2. rewrite (Hd x (or_introl eq_refl)).
    rewrite IH; [rewrite <- app_assoc; reflexivity|exact N2| |].
    - intros y Hy. rewrite mem_app. rewrite (Hd y (or_intror Hy)). simpl. rewrite orb_false_r.
      destruct (keq y x) eqn:E; [|reflexivity].
      apply negb_true_iff in N1. rewrite <- (mem_keq _ _ r E) in N1.
      (* y is in r and y ~ x: contradiction with x not in r *)
      exfalso. clear - Hy N1. induction r as [|z r IH]; [contradiction|].
      simpl in N1. apply orb_false_iff in N1 as [A B]. destruct Hy as [->|Hy]; [rewrite keq_refl in A; discriminate|auto].
    - rewrite nodup_app_one, Na, (Hd x (or_introl eq_refl)). reflexivity.
  Qed.

  Lemma set_with_meta_sim p : Permutation (set_keys L (set_with_meta L p)) (set_keys L p).
  Proof.
    unfold set_with_meta. rewrite set_of_sim. unfold set_of_list.
    rewrite set_of_list_nodup_id; [reflexivity| |intros; reflexivity|reflexivity].
    apply (H_map_nodup L p).
  Qed.
End Wrappers.
