(** C04 correspondence interface.
    A case is a history.  The implementation's output lists, per operation, the result it
    observed (collections by iterating them at the time they were produced; transients by the
    identity of the object), then whether re-reading EVERY result after the whole history
    gave the same observation again, then the final contents of every transient.
    [spec_ok] checks the history step by step against Spec.sstep; [model] runs the model of
    the code over the list instance of the libraries. *)
From Coq Require Import List Bool ZArith NArith.
Import ListNotations.
From Verif Require Export Common.ListX C04.Val C04.Lib C04.Syntax C04.Model C04.Spec C04.Abs C04.Variadic.

(** [CHistV gs ops]: a history with variadic calls (C04/Variadic.v).  [ops] is the history with
    every variadic call unfolded to the left fold of the unary operation (a group of
    consecutive operations, each naming the slot of the one before it); [gs] are the group
    sizes.  The implementation performs each group as ONE variadic call and reports one
    observation per group. *)
Inductive case := CHist (ops : list op) | CHistV (gs : list nat) (ops : list op).

Definition model_obs (ops : list op) : list sres := abs_slots ListLibs (irun ListLibs ops).

Inductive out :=
| OOut (obs : list sres) (stable : bool) (cells : list coll)
| OFail (n : N).                         (* the harness could not run the case (timeout, hang, crash) *)

Definition spec_ok (c : case) (o : out) : bool :=
  match c, o with
  | CHist ops, OOut obs stable cells =>
      match srun ops [] obs [] with
      | Some h => stable && cells_ok h cells
      | None => false
      end
  (* the hidden intermediate values of the groups are witnesses taken from the model; [srun]
     checks them against the unary specification like every other result *)
  | CHistV gs ops, OOut vis stable cells =>
      Nat.eqb (list_sum gs) (length ops) && Nat.eqb (length gs) (length vis) &&
      match srun ops [] (fill gs (model_obs ops) vis) [] with
      | Some h => stable && cells_ok h cells
      | None => false
      end
  | _, OFail _ => false
  end.

Definition model (c : case) : out :=
  match c with
  | CHist ops =>
      let st := irun ListLibs ops in
      OOut (abs_slots ListLibs st) true
           (map (fun c => cell_coll (abs_cell ListLibs c)) (heap st))
  | CHistV gs ops =>
      let st := irun ListLibs ops in
      OOut (project gs (abs_slots ListLibs st)) true
           (map (fun c => cell_coll (abs_cell ListLibs c)) (heap st))
  end.

(** observations are compared exactly, except that maps, sets and the seqs enumerating them
    are compared as multisets (their order is the library's business) *)
Definition obs_eqb (a b : sres) : bool :=
  match a, b with
  | RSeq false l1, RSeq false l2 => perm_eqb elem_eqb l1 l2
  | _, _ => sres_eqb a b
  end.

Definition out_eqb (a b : out) : bool :=
  match a, b with
  | OOut o1 s1 c1, OOut o2 s2 c2 =>
      list_eqb obs_eqb o1 o2 && Bool.eqb s1 s2 && list_eqb coll_equiv c1 c2
  | OFail x, OFail y => N.eqb x y
  | _, _ => false
  end.

(** defect tag: bit 0 = a negative index reaches a vector (F-04a), bit 1 = (with-meta c nil)
    on a collection with metadata (F-04b) *)
Definition tag (c : case) : N :=
  match c with
  | CHist ops | CHistV _ ops => ((if indices_nonneg ListLibs ops then 0 else 1)
                  + (if meta_args_nonnil ListLibs ops then 0 else 2))%N
  end.

(** short constructors for the case literals *)
Definition i_ (z : Z) : elem := EA (AInt z).
Definition f_ (z : Z) : elem := EA (AFloat z).
Definition k_ (n : N) : elem := EA (AKw n).
Definition o_ (n : N) : elem := EA (AObj n).
Definition b_ (b : bool) : elem := EA (ABool b).
Definition n_ : elem := EA ANil.
