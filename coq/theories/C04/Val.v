(** C04 -- value universe of the collection model.

    Elements of collections are atoms or vectors of elements (a map entry is the
    2-vector [k; v]).  [keq] is the equality the third-party containers use for keys and
    that the wrappers' [__eq__] uses element-wise: Python [==] (so 1 == 1.0, and bool is a
    subtype of int).  On the universe the correspondence run draws from (nil, false,
    integers >= 1, 1.0, keywords, identity objects, vectors of these) it coincides with
    basilisp's [=]; whether [==] is the right key equality in general is property C05's
    subject, not C04's: here it is the equality of BOTH the model and the specification.

    Then: association lists and duplicate-free lists modulo [keq], with the lemmas that make
    them "finite maps / finite sets modulo permutation". *)
From Coq Require Import List Bool ZArith NArith Lia Permutation.
Import ListNotations.
From Verif Require Import Common.ListX.

Inductive atom :=
| ANil
| ABool (b : bool)
| AInt (z : Z)
| AFloat (z : Z)          (* the float z.0 *)
| AKw (n : N)             (* the keyword :k<n> *)
| AObj (id : N).          (* an object with identity equality and a crafted (colliding) hash *)

Inductive elem :=
| EA (a : atom)
| EV (l : list elem).     (* a vector of elements; map entries are EV [k; v] *)

Section ElemInd.
  Variable P : elem -> Prop.
  Hypothesis HA : forall a, P (EA a).
  Hypothesis HV : forall l, Forall P l -> P (EV l).
  Fixpoint elem_ind' (e : elem) : P e :=
    match e with
    | EA a => HA a
    | EV l => HV l ((fix go (l : list elem) : Forall P l :=
                       match l with
                       | [] => Forall_nil P
                       | x :: r => Forall_cons x (elem_ind' x) (go r)
                       end) l)
    end.
End ElemInd.

(** ** Python equality *)
Definition anum (a : atom) : option Z :=
  match a with
  | ABool b => Some (if b then 1 else 0)%Z
  | AInt z => Some z
  | AFloat z => Some z
  | _ => None
  end.

Definition aeq (a b : atom) : bool :=
  match anum a, anum b with
  | Some x, Some y => Z.eqb x y
  | None, None =>
      match a, b with
      | ANil, ANil => true
      | AKw n, AKw m => N.eqb n m
      | AObj i, AObj j => N.eqb i j
      | _, _ => false
      end
  | _, _ => false
  end.

Fixpoint keq (a b : elem) : bool :=
  match a, b with
  | EA x, EA y => aeq x y
  | EV l1, EV l2 =>
      (fix go (l1 l2 : list elem) : bool :=
         match l1, l2 with
         | [], [] => true
         | x :: r1, y :: r2 => keq x y && go r1 r2
         | _, _ => false
         end) l1 l2
  | _, _ => false
  end.

Lemma keq_EV l1 l2 : keq (EV l1) (EV l2) = list_eqb keq l1 l2.
Proof.
  revert l2; induction l1 as [|x r IH]; intros [|y r2]; simpl; try reflexivity.
  f_equal. apply IH.
Qed.

Lemma aeq_refl a : aeq a a = true.
Proof. destruct a as [| [] | | | |]; unfold aeq; simpl; auto using Z.eqb_refl, N.eqb_refl. Qed.

Lemma aeq_sym a b : aeq a b = aeq b a.
Proof.
  unfold aeq. destruct (anum a) eqn:Ea, (anum b) eqn:Eb; try reflexivity.
  - apply Z.eqb_sym.
  - destruct a, b; try reflexivity; apply N.eqb_sym.
Qed.

Lemma aeq_trans a b c : aeq a b = true -> aeq b c = true -> aeq a c = true.
Proof.
  unfold aeq. destruct (anum a) eqn:Ea, (anum b) eqn:Eb, (anum c) eqn:Ec; try discriminate.
  - intros H1 H2. apply Z.eqb_eq in H1, H2. apply Z.eqb_eq. congruence.
  - destruct a, b; try discriminate; destruct c; try discriminate; try reflexivity;
      intros H1 H2; apply N.eqb_eq in H1, H2; apply N.eqb_eq; congruence.
Qed.

Lemma keq_refl e : keq e e = true.
Proof.
  induction e as [a | l IH] using elem_ind'; [apply aeq_refl|].
  rewrite keq_EV. induction IH as [|x r Hx _ IHr]; simpl; [reflexivity|].
  rewrite Hx. exact IHr.
Qed.

Lemma keq_sym e : forall f, keq e f = keq f e.
Proof.
  induction e as [a | l IH] using elem_ind'; intros [b | l2]; try reflexivity.
  - apply aeq_sym.
  - rewrite !keq_EV. revert l2. induction IH as [|x r Hx _ IHr]; intros [|y r2]; simpl; try reflexivity.
    rewrite Hx, IHr. reflexivity.
Qed.

Lemma keq_trans e : forall f g, keq e f = true -> keq f g = true -> keq e g = true.
Proof.
  induction e as [a | l IH] using elem_ind'; intros [b | l2] [c | l3]; try discriminate.
  - apply aeq_trans.
  - rewrite !keq_EV. revert l2 l3.
    induction IH as [|x r Hx _ IHr]; intros [|y r2] [|z r3]; simpl; try discriminate; try reflexivity.
    intros H1 H2. apply andb_true_iff in H1 as [A1 B1]. apply andb_true_iff in H2 as [A2 B2].
    apply andb_true_iff; split; [eapply Hx|eapply IHr]; eassumption.
Qed.

Lemma keq_false_l a b c : keq a b = true -> keq a c = keq b c.
Proof.
  intro H. destruct (keq b c) eqn:E.
  - eapply keq_trans; eassumption.
  - destruct (keq a c) eqn:E2; [|reflexivity].
    rewrite keq_sym in H. rewrite (keq_trans _ _ _ H E2) in E. discriminate.
Qed.

(** ** Structural (Leibniz) equality, used only to compare observations *)
Definition atom_eqb (a b : atom) : bool :=
  match a, b with
  | ANil, ANil => true
  | ABool x, ABool y => Bool.eqb x y
  | AInt x, AInt y => Z.eqb x y
  | AFloat x, AFloat y => Z.eqb x y
  | AKw x, AKw y => N.eqb x y
  | AObj x, AObj y => N.eqb x y
  | _, _ => false
  end.

Lemma atom_eqb_eq a b : atom_eqb a b = true <-> a = b.
Proof.
  destruct a, b; simpl; split; intro H; try discriminate; try reflexivity;
    try (apply Bool.eqb_prop in H; congruence);
    try (apply Z.eqb_eq in H; congruence);
    try (apply N.eqb_eq in H; congruence);
    inversion H; subst; auto using Bool.eqb_reflx, Z.eqb_refl, N.eqb_refl.
Qed.

Fixpoint elem_eqb (a b : elem) : bool :=
  match a, b with
  | EA x, EA y => atom_eqb x y
  | EV l1, EV l2 =>
      (fix go (l1 l2 : list elem) : bool :=
         match l1, l2 with
         | [], [] => true
         | x :: r1, y :: r2 => elem_eqb x y && go r1 r2
         | _, _ => false
         end) l1 l2
  | _, _ => false
  end.

Lemma elem_eqb_EV l1 l2 : elem_eqb (EV l1) (EV l2) = list_eqb elem_eqb l1 l2.
Proof.
  revert l2; induction l1 as [|x r IH]; intros [|y r2]; simpl; try reflexivity.
  f_equal. apply IH.
Qed.

Lemma elem_eqb_eq e : forall f, elem_eqb e f = true <-> e = f.
Proof.
  induction e as [a | l IH] using elem_ind'; intros [b | l2]; try (simpl; split; discriminate).
  - simpl. rewrite atom_eqb_eq. split; congruence.
  - rewrite elem_eqb_EV.
    assert (list_eqb elem_eqb l l2 = true <-> l = l2) as A.
    { revert l2. induction IH as [|x r Hx _ IHr]; intros [|y r2]; simpl; split; intro H;
        try discriminate; try reflexivity.
      - apply andb_true_iff in H as [A B]. apply Hx in A. apply IHr in B. congruence.
      - inversion H; subst. apply andb_true_iff; split; [apply Hx|apply IHr]; reflexivity. }
    rewrite A. split; congruence.
Qed.

Lemma elem_eqb_refl e : elem_eqb e e = true.
Proof. apply elem_eqb_eq; reflexivity. Qed.

Definition pair_eqb (a b : elem * elem) : bool :=
  elem_eqb (fst a) (fst b) && elem_eqb (snd a) (snd b).

Lemma pair_eqb_eq a b : pair_eqb a b = true <-> a = b.
Proof.
  destruct a, b; unfold pair_eqb; simpl. rewrite andb_true_iff, !elem_eqb_eq. split; [intros []|intro H; inversion H]; subst; auto.
Qed.

(** ** Boolean permutation test (on a type with a reflecting equality) *)
Section PermB.
  Context {A : Type}.
  Variable eqb : A -> A -> bool.
  Hypothesis eqb_eq : forall x y, eqb x y = true <-> x = y.

  Fixpoint remove1 (x : A) (l : list A) : option (list A) :=
    match l with
    | [] => None
    | y :: r => if eqb x y then Some r
                else match remove1 x r with Some r' => Some (y :: r') | None => None end
    end.

  Fixpoint perm_eqb (l1 l2 : list A) : bool :=
    match l1 with
    | [] => match l2 with [] => true | _ => false end
    | x :: r => match remove1 x l2 with Some l2' => perm_eqb r l2' | None => false end
    end.

  Lemma remove1_perm x l l' : remove1 x l = Some l' -> Permutation l (x :: l').
  Proof.
    revert l'; induction l as [|y r IH]; simpl; intros l' H; [discriminate|].
    destruct (eqb x y) eqn:E.
    - apply eqb_eq in E; subst. inversion H; subst. reflexivity.
    - destruct (remove1 x r) as [r'|]; [|discriminate]. inversion H; subst.
      rewrite (IH r' eq_refl). apply perm_swap.
  Qed.

  Lemma remove1_in x l : In x l -> exists l', remove1 x l = Some l'.
  Proof.
    induction l as [|y r IH]; simpl; intros H; [contradiction|].
    destruct (eqb x y) eqn:E; [eauto|].
    destruct H as [H|H]; [subst; assert (eqb x x = true) by (apply eqb_eq; reflexivity); congruence|].
    destruct (IH H) as [l' ->]. eauto.
  Qed.

  Lemma perm_eqb_perm l1 : forall l2, perm_eqb l1 l2 = true -> Permutation l1 l2.
  Proof.
    induction l1 as [|x r IH]; intros l2 H; simpl in H.
    - destruct l2; [constructor|discriminate].
    - destruct (remove1 x l2) as [l2'|] eqn:E; [|discriminate].
      apply remove1_perm in E. rewrite E. constructor. apply IH; assumption.
  Qed.

  Lemma perm_perm_eqb l1 l2 : Permutation l1 l2 -> perm_eqb l1 l2 = true.
  Proof.
    revert l2; induction l1 as [|x r IH]; intros l2 H; simpl.
    - apply Permutation_nil in H; subst; reflexivity.
    - assert (In x l2) as Hin by (eapply Permutation_in; [exact H|left; reflexivity]).
      destruct (remove1_in _ _ Hin) as [l2' E]. rewrite E. apply IH.
      apply remove1_perm in E. eapply Permutation_cons_inv. rewrite H. exact E.
  Qed.

  Lemma perm_eqb_iff l1 l2 : perm_eqb l1 l2 = true <-> Permutation l1 l2.
  Proof. split; [apply perm_eqb_perm|apply perm_perm_eqb]. Qed.
End PermB.

(** ** Duplicate-free lists modulo [keq] (finite sets) *)
Definition mem (x : elem) (l : list elem) : bool := existsb (keq x) l.

Fixpoint nodup (l : list elem) : bool :=
  match l with
  | [] => true
  | x :: r => negb (mem x r) && nodup r
  end.

Definition s_add (x : elem) (l : list elem) : list elem := if mem x l then l else l ++ [x].

Fixpoint s_del (x : elem) (l : list elem) : list elem :=
  match l with
  | [] => []
  | y :: r => if keq x y then r else y :: s_del x r
  end.

(** the stored element equal to x *)
Fixpoint s_find (x : elem) (l : list elem) : option elem :=
  match l with
  | [] => None
  | y :: r => if keq x y then Some y else s_find x r
  end.

(** ** Association lists with keys distinct modulo [keq] (finite maps) *)
Definition al := list (elem * elem).
Definition memk (k : elem) (l : al) : bool := mem k (map fst l).
Definition nodupk (l : al) : bool := nodup (map fst l).

Fixpoint al_get (k : elem) (l : al) : option elem :=
  match l with
  | [] => None
  | (k', v) :: r => if keq k k' then Some v else al_get k r
  end.

(** assoc keeps the key object that is already stored (as Clojure and immutables do) *)
Fixpoint al_set (k v : elem) (l : al) : al :=
  match l with
  | [] => [(k, v)]
  | (k', v') :: r => if keq k k' then (k', v) :: r else (k', v') :: al_set k v r
  end.

Fixpoint al_del (k : elem) (l : al) : al :=
  match l with
  | [] => []
  | (k', v') :: r => if keq k k' then r else (k', v') :: al_del k r
  end.

Lemma mem_app x l1 l2 : mem x (l1 ++ l2) = mem x l1 || mem x l2.
Proof. unfold mem. apply existsb_app. Qed.

Lemma mem_keq x y l : keq x y = true -> mem x l = mem y l.
Proof.
  intro H. induction l as [|z r IH]; simpl; [reflexivity|].
  rewrite IH. f_equal. apply keq_false_l; assumption.
Qed.

Lemma perm_mem x l1 l2 : Permutation l1 l2 -> mem x l1 = mem x l2.
Proof.
  induction 1; simpl; try congruence.
  destruct (keq x y), (keq x x0); reflexivity.
Qed.

Lemma perm_nodup l1 l2 : Permutation l1 l2 -> nodup l1 = nodup l2.
Proof.
  induction 1 as [| x l l' H IH | x y l | l l' l'' H1 IH1 H2 IH2]; simpl; try congruence.
  - rewrite (perm_mem x _ _ H), IH. reflexivity.
  - rewrite (keq_sym y x). destruct (keq x y), (mem x l), (mem y l), (nodup l); reflexivity.
Qed.

Lemma nodup_app_one l x : nodup (l ++ [x]) = nodup l && negb (mem x l).
Proof.
  induction l as [|y r IH]; simpl; [reflexivity|].
  rewrite mem_app, IH. simpl. rewrite (keq_sym y x).
  destruct (mem y r), (keq x y), (nodup r), (mem x r); reflexivity.
Qed.

Lemma nodup_s_add x l : nodup l = true -> nodup (s_add x l) = true.
Proof.
  unfold s_add. intro H. destruct (mem x l) eqn:E; [assumption|].
  rewrite nodup_app_one, H, E. reflexivity.
Qed.

Lemma mem_s_del_other x y l : keq x y = false -> mem y (s_del x l) = mem y l.
Proof.
  intro H. induction l as [|z r IH]; simpl; [reflexivity|].
  destruct (keq x z) eqn:E; simpl.
  - assert (keq y z = false) as ->; [|reflexivity].
    destruct (keq y z) eqn:E2; [|reflexivity].
    rewrite keq_sym in E2. rewrite (keq_trans _ _ _ E E2) in H. discriminate.
  - rewrite IH. reflexivity.
Qed.

Lemma mem_s_del_false y x l : mem y l = false -> mem y (s_del x l) = false.
Proof.
  induction l as [|z r IH]; simpl; [reflexivity|].
  intro H. apply orb_false_iff in H as [A B].
  destruct (keq x z); simpl; [assumption|]. rewrite A, (IH B). reflexivity.
Qed.

Lemma nodup_s_del x l : nodup l = true -> nodup (s_del x l) = true.
Proof.
  induction l as [|y r IH]; simpl; [reflexivity|].
  intro H. apply andb_true_iff in H as [A B].
  destruct (keq x y); [assumption|]. simpl. rewrite (IH B), andb_true_r.
  apply negb_true_iff. apply mem_s_del_false. apply negb_true_iff. assumption.
Qed.

Lemma map_fst_al_set k v l : map fst (al_set k v l) = s_add k (map fst l).
Proof.
  unfold s_add. induction l as [|[k' v'] r IH]; simpl; [reflexivity|].
  destruct (keq k k') eqn:E; simpl; [reflexivity|].
  rewrite IH. destruct (mem k (map fst r)); reflexivity.
Qed.

Lemma map_fst_al_del k l : map fst (al_del k l) = s_del k (map fst l).
Proof.
  induction l as [|[k' v'] r IH]; simpl; [reflexivity|].
  destruct (keq k k'); simpl; [reflexivity|]. rewrite IH. reflexivity.
Qed.

Lemma nodupk_al_set k v l : nodupk l = true -> nodupk (al_set k v l) = true.
Proof. unfold nodupk. rewrite map_fst_al_set. apply nodup_s_add. Qed.

Lemma nodupk_al_del k l : nodupk l = true -> nodupk (al_del k l) = true.
Proof. unfold nodupk. rewrite map_fst_al_del. apply nodup_s_del. Qed.

(** Map(pairs) / hash-map: insert from left to right *)
Definition al_of (l : al) : al := fold_left (fun acc kv => al_set (fst kv) (snd kv) acc) l [].

Lemma nodupk_fold_al_set l : forall acc, nodupk acc = true ->
  nodupk (fold_left (fun acc kv => al_set (fst kv) (snd kv) acc) l acc) = true.
Proof. induction l as [|[k v] r IH]; simpl; intros acc H; [assumption|]. apply IH, nodupk_al_set, H. Qed.

Lemma nodupk_al_of l : nodupk (al_of l) = true.
Proof. apply nodupk_fold_al_set. reflexivity. Qed.

Lemma perm_nodupk (l1 l2 : al) : Permutation l1 l2 -> nodupk l1 = nodupk l2.
Proof. intro H. apply perm_nodup. apply Permutation_map. assumption. Qed.

Lemma perm_memk k (l1 l2 : al) : Permutation l1 l2 -> memk k l1 = memk k l2.
Proof. intro H. apply perm_mem. apply Permutation_map. assumption. Qed.

Lemma al_get_none_memk k l : al_get k l = None <-> memk k l = false.
Proof.
  unfold memk. induction l as [|[k' v'] r IH]; simpl; [tauto|].
  destruct (keq k k'); simpl; [split; discriminate|exact IH].
Qed.

Lemma perm_al_get k (l1 l2 : al) :
  Permutation l1 l2 -> nodupk l1 = true -> al_get k l1 = al_get k l2.
Proof.
  induction 1 as [| [x vx] l l' H IH | [x vx] [y vy] l | l l' l'' H1 IH1 H2 IH2]; intro N; simpl.
  - reflexivity.
  - unfold nodupk in N; simpl in N. apply andb_true_iff in N as [_ N]. rewrite (IH N). reflexivity.
  - unfold nodupk in N; simpl in N. apply andb_true_iff in N as [A _].
    apply negb_true_iff, orb_false_iff in A as [A _].
    destruct (keq k y) eqn:E1, (keq k x) eqn:E2; try reflexivity.
    rewrite keq_sym in E1. rewrite (keq_trans _ _ _ E1 E2) in A. discriminate.
  - rewrite (IH1 N). apply IH2. rewrite <- (perm_nodupk _ _ H1). assumption.
Qed.

Lemma al_set_notin k v l : memk k l = false -> al_set k v l = l ++ [(k, v)].
Proof.
  unfold memk. induction l as [|[k' v'] r IH]; simpl; [reflexivity|].
  intro H. apply orb_false_iff in H as [A B]. rewrite A, (IH B). reflexivity.
Qed.

Lemma perm_al_set k v (l1 l2 : al) :
  Permutation l1 l2 -> nodupk l1 = true -> Permutation (al_set k v l1) (al_set k v l2).
Proof.
  induction 1 as [| [x vx] l l' H IH | [x vx] [y vy] l | l l' l'' H1 IH1 H2 IH2]; intro N; simpl.
  - reflexivity.
  - unfold nodupk in N; simpl in N. apply andb_true_iff in N as [_ N].
    destruct (keq k x); [constructor; assumption|]. constructor. apply IH; assumption.
  - unfold nodupk in N; simpl in N. apply andb_true_iff in N as [A _].
    apply negb_true_iff, orb_false_iff in A as [A _].
    destruct (keq k y) eqn:E1, (keq k x) eqn:E2; try apply perm_swap.
    rewrite keq_sym in E1. rewrite (keq_trans _ _ _ E1 E2) in A. discriminate.
  - rewrite (IH1 N). apply IH2. rewrite <- (perm_nodupk _ _ H1). assumption.
Qed.

Lemma perm_al_del k (l1 l2 : al) :
  Permutation l1 l2 -> nodupk l1 = true -> Permutation (al_del k l1) (al_del k l2).
Proof.
  induction 1 as [| [x vx] l l' H IH | [x vx] [y vy] l | l l' l'' H1 IH1 H2 IH2]; intro N; simpl.
  - reflexivity.
  - unfold nodupk in N; simpl in N. apply andb_true_iff in N as [_ N].
    destruct (keq k x); [assumption|]. constructor. apply IH; assumption.
  - unfold nodupk in N; simpl in N. apply andb_true_iff in N as [A _].
    apply negb_true_iff, orb_false_iff in A as [A _].
    destruct (keq k y) eqn:E1, (keq k x) eqn:E2; try reflexivity; try apply perm_swap.
    rewrite keq_sym in E1. rewrite (keq_trans _ _ _ E1 E2) in A. discriminate.
  - rewrite (IH1 N). apply IH2. rewrite <- (perm_nodupk _ _ H1). assumption.
Qed.

(** sets: the same facts on key lists *)
Lemma perm_s_add x l1 l2 :
  Permutation l1 l2 -> Permutation (s_add x l1) (s_add x l2).
Proof.
  intro H. unfold s_add. rewrite (perm_mem x _ _ H). destruct (mem x l2); [assumption|].
  apply Permutation_app_tail. assumption.
Qed.

Lemma perm_s_del x l1 l2 :
  Permutation l1 l2 -> nodup l1 = true -> Permutation (s_del x l1) (s_del x l2).
Proof.
  induction 1 as [| y l l' H IH | y z l | l l' l'' H1 IH1 H2 IH2]; intro N; simpl.
  - reflexivity.
  - apply andb_true_iff in N as [_ N]. destruct (keq x y); [assumption|]. constructor. apply IH; assumption.
  - simpl in N. apply andb_true_iff in N as [A _].
    apply negb_true_iff, orb_false_iff in A as [A _].
    destruct (keq x z) eqn:E1, (keq x y) eqn:E2; try reflexivity; try apply perm_swap.
    rewrite keq_sym in E1. rewrite (keq_trans _ _ _ E1 E2) in A. discriminate.
  - rewrite (IH1 N). apply IH2. rewrite <- (perm_nodup _ _ H1). assumption.
Qed.

Lemma perm_s_find x l1 l2 :
  Permutation l1 l2 -> nodup l1 = true -> s_find x l1 = s_find x l2.
Proof.
  induction 1 as [| y l l' H IH | y z l | l l' l'' H1 IH1 H2 IH2]; intro N; simpl.
  - reflexivity.
  - apply andb_true_iff in N as [_ N]. rewrite (IH N). reflexivity.
  - simpl in N. apply andb_true_iff in N as [A _].
    apply negb_true_iff, orb_false_iff in A as [A _].
    destruct (keq x z) eqn:E1, (keq x y) eqn:E2; try reflexivity.
    rewrite keq_sym in E1. rewrite (keq_trans _ _ _ E1 E2) in A. discriminate.
  - rewrite (IH1 N). apply IH2. rewrite <- (perm_nodup _ _ H1). assumption.
Qed.

Lemma s_find_mem x l : (exists y, s_find x l = Some y) <-> mem x l = true.
Proof.
  induction l as [|y r IH]; simpl.
  - split; [intros [? ?]; discriminate|discriminate].
  - destruct (keq x y); simpl; [split; eauto|exact IH].
Qed.

Lemma s_find_keq x l y : s_find x l = Some y -> keq x y = true.
Proof.
  induction l as [|z r IH]; simpl; [discriminate|].
  destruct (keq x z) eqn:E; [intro H; inversion H; subst; assumption|exact IH].
Qed.

(** ** Python sequence indexing (negative indices count from the end) *)
Definition py_norm (len i : Z) : option Z :=
  (if (0 <=? i) && (i <? len) then Some i
   else if (i <? 0) && (- len <=? i) then Some (len + i)
   else None)%Z.

Definition zlen {A} (l : list A) : Z := Z.of_nat (length l).

Definition py_nth (l : list elem) (i : Z) : option elem :=
  match py_norm (zlen l) i with
  | Some j => nth_error l (Z.to_nat j)
  | None => None
  end.

Fixpoint set_nth (l : list elem) (n : nat) (x : elem) : list elem :=
  match l, n with
  | [], _ => []
  | _ :: r, O => x :: r
  | y :: r, S n' => y :: set_nth r n' x
  end.

(** pvector.set / evolver.set: in range (negative allowed) replaces, i = len appends,
    anything else is an IndexError *)
Definition py_set (l : list elem) (i : Z) (x : elem) : option (list elem) :=
  if (i =? zlen l)%Z then Some (l ++ [x])
  else match py_norm (zlen l) i with
       | Some j => Some (set_nth l (Z.to_nat j) x)
       | None => None
       end.

(** what Clojure prescribes: indices are 0 .. len-1 (len appends on assoc) *)
Definition clj_nth (l : list elem) (i : Z) : option elem :=
  if (0 <=? i)%Z && (i <? zlen l)%Z then nth_error l (Z.to_nat i) else None.

Definition clj_set (l : list elem) (i : Z) (x : elem) : option (list elem) :=
  if (i =? zlen l)%Z then Some (l ++ [x])
  else if (0 <=? i)%Z && (i <? zlen l)%Z then Some (set_nth l (Z.to_nat i) x) else None.

Lemma py_nth_nonneg l i : (0 <= i)%Z -> py_nth l i = clj_nth l i.
Proof.
  intro H. unfold py_nth, clj_nth, py_norm.
  destruct (0 <=? i)%Z eqn:A; [|lia]. destruct (i <? zlen l)%Z eqn:B; simpl; [reflexivity|].
  destruct (i <? 0)%Z eqn:C; [lia|reflexivity].
Qed.

Lemma py_set_nonneg l i x : (0 <= i)%Z -> py_set l i x = clj_set l i x.
Proof.
  intro H. unfold py_set, clj_set, py_norm.
  destruct (i =? zlen l)%Z; [reflexivity|].
  destruct (0 <=? i)%Z eqn:A; [|lia]. destruct (i <? zlen l)%Z eqn:B; simpl; [reflexivity|].
  destruct (i <? 0)%Z eqn:C; [lia|reflexivity].
Qed.

Fixpoint list_keq (l1 l2 : list elem) : bool :=
  match l1, l2 with
  | [], [] => true
  | x :: r1, y :: r2 => keq x y && list_keq r1 r2
  | _, _ => false
  end.

Lemma list_keq_refl l : list_keq l l = true.
Proof. induction l; simpl; [reflexivity|]. rewrite keq_refl. assumption. Qed.
