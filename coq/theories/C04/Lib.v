(** C04 -- the third-party persistent structures as abstract interfaces.

    [Libs] bundles the carriers and operations of pyrsistent (pvector + evolver, plist,
    pdeque) and immutables (Map + MapMutation) that the basilisp wrappers call, together
    with the algebraic laws a persistent structure has to satisfy.  Every law is stated
    through the structure's own iteration ([pv_list] = list(v), [m_items] = list(m.items())
    ...): the result of each operation iterates like the list-level operation on what the
    argument iterated like.  Objects are Coq values, so "an operation does not disturb its
    argument" is built into the typing; THAT assumption (structural sharing inside
    pvectorc / immutables' HAMT is sound) is not proved here, it is exercised by the
    correspondence run only.

    The models and theorems of C04 take [L : Libs] as a Section variable; [ListLibs] at
    the end instantiates it with plain lists / association lists, which shows that the
    hypotheses are satisfiable and gives the executable model. *)
From Coq Require Import List Bool ZArith NArith Lia Permutation.
Import ListNotations.
From Verif Require Import C04.Val.

(** result of MapMutation.__delitem__ *)
Inductive del_res (M : Type) := DelOk (m : M) | DelKeyError | DelFinished.
Arguments DelOk {M} m.
Arguments DelKeyError {M}.
Arguments DelFinished {M}.

Record Libs := {
  (* ---------------- pyrsistent.pvector ---------------- *)
  pvec : Type;
  pv_list : pvec -> list elem;                      (* iteration *)
  pv_of : list elem -> pvec;                        (* pvector(iterable) *)
  pv_len : pvec -> Z;                               (* len(v) *)
  pv_get : pvec -> Z -> option elem;                (* v[i] with a Python int; None = IndexError *)
  pv_init : pvec -> pvec;                           (* v[:-1] *)
  pv_mset : pvec -> Z -> elem -> option pvec;       (* v.mset(i, x); None = IndexError *)
  pv_hash : pvec -> Z;                              (* what the wrapper's __hash__ derives from _inner *)
  H_pvec_of : forall l, pv_list (pv_of l) = l;
  H_pvec_len : forall v, pv_len v = zlen (pv_list v);
  H_pvec_get : forall v i, pv_get v i = py_nth (pv_list v) i;
  H_pvec_init : forall v, pv_list (pv_init v) = removelast (pv_list v);
  H_pvec_mset : forall v i x, option_map pv_list (pv_mset v i x) = py_set (pv_list v) i x;
  H_pvec_hash : forall a b, pv_list a = pv_list b -> pv_hash a = pv_hash b;
  (* ---------------- its evolver ---------------- *)
  pev : Type;
  ev_list : pev -> list elem;
  pv_evolver : pvec -> pev;                         (* v.evolver() *)
  ev_append : pev -> elem -> pev;                   (* e.append(x) *)
  ev_set : pev -> Z -> elem -> option pev;          (* e.set(i, x); None = IndexError *)
  ev_get : pev -> Z -> option elem;                 (* e[i] *)
  ev_len : pev -> Z;
  ev_del_last : pev -> pev;                         (* del e[-1] on a non-empty evolver *)
  ev_persistent : pev -> pvec * pev;                (* e.persistent(): the vector, and the evolver afterwards *)
  H_evolver_of : forall v, ev_list (pv_evolver v) = pv_list v;
  H_evolver_append : forall e x, ev_list (ev_append e x) = ev_list e ++ [x];
  H_evolver_set : forall e i x, option_map ev_list (ev_set e i x) = py_set (ev_list e) i x;
  H_evolver_get : forall e i, ev_get e i = py_nth (ev_list e) i;
  H_evolver_len : forall e, ev_len e = zlen (ev_list e);
  H_evolver_del_last : forall e, ev_list (ev_del_last e) = removelast (ev_list e);
  H_evolver_persistent : forall e, pv_list (fst (ev_persistent e)) = ev_list e;
  H_evolver_persistent_stays : forall e, ev_list (snd (ev_persistent e)) = ev_list e;
  (* ---------------- pyrsistent.plist ---------------- *)
  plist : Type;
  pl_list : plist -> list elem;
  pl_of : list elem -> plist;
  pl_cons : plist -> elem -> plist;                 (* l.cons(x) *)
  pl_first : plist -> option elem;                  (* l.first; None = AttributeError on the empty list *)
  pl_rest : plist -> plist;
  pl_is_empty : plist -> bool;                      (* l is _EMPTY_PLIST *)
  pl_len : plist -> Z;
  pl_hash : plist -> Z;
  H_plist_of : forall l, pl_list (pl_of l) = l;
  H_plist_cons : forall l x, pl_list (pl_cons l x) = x :: pl_list l;
  H_plist_first : forall l, pl_first l = hd_error (pl_list l);
  H_plist_rest : forall l, pl_list (pl_rest l) = tl (pl_list l);
  H_plist_is_empty : forall l, pl_is_empty l = match pl_list l with [] => true | _ => false end;
  H_plist_len : forall l, pl_len l = zlen (pl_list l);
  H_plist_hash : forall a b, pl_list a = pl_list b -> pl_hash a = pl_hash b;
  (* ---------------- pyrsistent.pdeque ---------------- *)
  pdeque : Type;
  dq_list : pdeque -> list elem;
  dq_of : list elem -> pdeque;
  dq_extend : pdeque -> list elem -> pdeque;        (* d.extend(xs) *)
  dq_left : pdeque -> option elem;                  (* d.left; None = IndexError *)
  dq_popleft : pdeque -> pdeque;
  dq_len : pdeque -> Z;
  dq_hash : pdeque -> Z;
  H_pdeque_of : forall l, dq_list (dq_of l) = l;
  H_pdeque_extend : forall d xs, dq_list (dq_extend d xs) = dq_list d ++ xs;
  H_pdeque_left : forall d, dq_left d = hd_error (dq_list d);
  H_pdeque_popleft : forall d, dq_list (dq_popleft d) = tl (dq_list d);
  H_pdeque_len : forall d, dq_len d = zlen (dq_list d);
  H_pdeque_hash : forall a b, dq_list a = dq_list b -> dq_hash a = dq_hash b;
  (* ---------------- immutables.Map ---------------- *)
  pmap : Type;
  pmut : Type;                                      (* immutables.MapMutation, below *)
  m_items : pmap -> al;                             (* list(m.items()), in the map's own order *)
  m_empty : pmap;                                   (* Map() *)
  m_of : al -> pmap;                                (* Map(iterable of pairs): later pairs win *)
  m_get : pmap -> elem -> option elem;              (* lookup (get with a sentinel / in) *)
  m_len : pmap -> Z;
  m_mutate : pmap -> pmut;                          (* m.mutate() *)
  m_hash : pmap -> Z;                               (* hash(m): order independent *)
  keys_hash : list elem -> Z;                       (* collections.abc.Set._hash over the members *)
  m_eq : pmap -> pmap -> bool;                      (* m == other (same sizes) *)
  (* ---------------- immutables.MapMutation ---------------- *)
  mm_items : pmut -> al;
  mm_fin : pmut -> bool;                            (* finish() has been called *)
  mm_set : pmut -> elem -> elem -> option pmut;     (* mm[k] = v / mm.set(k, v); None = ValueError (finished) *)
  mm_del : pmut -> elem -> del_res pmut;            (* del mm[k] *)
  mm_get : pmut -> elem -> option elem;
  mm_len : pmut -> Z;
  mm_finish : pmut -> pmap * pmut;                  (* mm.finish(): the map, and the mutation afterwards *)
  H_map_nodup : forall m, nodupk (m_items m) = true;
  H_map_empty : m_items m_empty = [];
  H_map_of : forall l, Permutation (m_items (m_of l)) (al_of l);
  H_map_get : forall m k, m_get m k = al_get k (m_items m);
  H_map_len : forall m, m_len m = zlen (m_items m);
  H_map_eq : forall a b, m_eq a b = forallb (fun kv => match al_get (fst kv) (m_items b) with
                                                       | Some v => keq (snd kv) v | None => false end)
                                            (m_items a);
  H_map_hash : forall a b, Permutation (m_items a) (m_items b) -> m_hash a = m_hash b;
  H_keys_hash : forall l1 l2, Permutation l1 l2 -> keys_hash l1 = keys_hash l2;
  H_mut_nodup : forall mm, nodupk (mm_items mm) = true;
  H_map_mutate : forall m, Permutation (mm_items (m_mutate m)) (m_items m) /\ mm_fin (m_mutate m) = false;
  H_mut_set_finished : forall mm k v, mm_fin mm = true -> mm_set mm k v = None;
  H_mut_set : forall mm k v, mm_fin mm = false ->
      exists mm', mm_set mm k v = Some mm' /\ mm_fin mm' = false /\
                  Permutation (mm_items mm') (al_set k v (mm_items mm));
  H_mut_del_finished : forall mm k, mm_fin mm = true -> mm_del mm k = DelFinished;
  H_mut_del_absent : forall mm k, mm_fin mm = false -> memk k (mm_items mm) = false ->
      mm_del mm k = DelKeyError;
  H_mut_del : forall mm k, mm_fin mm = false -> memk k (mm_items mm) = true ->
      exists mm', mm_del mm k = DelOk mm' /\ mm_fin mm' = false /\
                  Permutation (mm_items mm') (al_del k (mm_items mm));
  H_mut_get : forall mm k, mm_get mm k = al_get k (mm_items mm);
  H_mut_len : forall mm, mm_len mm = zlen (mm_items mm);
  H_mut_finish : forall mm, Permutation (m_items (fst (mm_finish mm))) (mm_items mm) /\
                            Permutation (mm_items (snd (mm_finish mm))) (mm_items mm) /\
                            mm_fin (snd (mm_finish mm)) = true;
}.

(** ** The list instance *)

(** an association list with distinct keys, carried with its proof *)
Record lmap := { lm_items : al; lm_ok : nodupk lm_items = true }.
Record lmut := { lu_items : al; lu_fin : bool; lu_ok : nodupk lu_items = true }.

Definition lm_of (l : al) : lmap := {| lm_items := al_of l; lm_ok := nodupk_al_of l |}.

Definition lm_nil : lmap := {| lm_items := []; lm_ok := eq_refl |}.

Definition lu_set (mm : lmut) (k v : elem) : option lmut :=
  if lu_fin mm then None
  else Some {| lu_items := al_set k v (lu_items mm); lu_fin := false;
               lu_ok := nodupk_al_set k v _ (lu_ok mm) |}.

Definition lu_del (mm : lmut) (k : elem) : del_res lmut :=
  if lu_fin mm then DelFinished
  else if memk k (lu_items mm)
       then DelOk {| lu_items := al_del k (lu_items mm); lu_fin := false;
                     lu_ok := nodupk_al_del k _ (lu_ok mm) |}
       else DelKeyError.

Definition list_hash (l : list elem) : Z := 0%Z.   (* hashes are not modelled *)

Definition al_eq_items (a b : al) : bool :=
  forallb (fun kv => match al_get (fst kv) b with Some v => keq (snd kv) v | None => false end) a.

Definition ListLibs : Libs.
Proof.
  refine {|
    pvec := list elem; pv_list := fun l => l; pv_of := fun l => l; pv_len := zlen;
    pv_get := py_nth; pv_init := @removelast elem; pv_mset := py_set; pv_hash := list_hash;
    pev := list elem; ev_list := fun l => l; pv_evolver := fun l => l;
    ev_append := fun l x => l ++ [x]; ev_set := py_set; ev_get := py_nth; ev_len := zlen;
    ev_del_last := @removelast elem; ev_persistent := fun l => (l, l);
    plist := list elem; pl_list := fun l => l; pl_of := fun l => l; pl_cons := fun l x => x :: l;
    pl_first := @hd_error elem; pl_rest := @tl elem;
    pl_is_empty := fun l => match l with [] => true | _ => false end; pl_len := zlen; pl_hash := list_hash;
    pdeque := list elem; dq_list := fun l => l; dq_of := fun l => l; dq_extend := fun l xs => l ++ xs;
    dq_left := @hd_error elem; dq_popleft := @tl elem; dq_len := zlen; dq_hash := list_hash;
    pmap := lmap; m_items := lm_items; m_empty := lm_nil; m_of := lm_of;
    m_get := fun m k => al_get k (lm_items m); m_len := fun m => zlen (lm_items m);
    m_mutate := fun m => {| lu_items := lm_items m; lu_fin := false; lu_ok := lm_ok m |};
    m_hash := fun _ => 0%Z; keys_hash := fun _ => 0%Z; m_eq := fun a b => al_eq_items (lm_items a) (lm_items b);
    pmut := lmut; mm_items := lu_items; mm_fin := lu_fin; mm_set := lu_set; mm_del := lu_del;
    mm_get := fun mm k => al_get k (lu_items mm); mm_len := fun mm => zlen (lu_items mm);
    mm_finish := fun mm => ({| lm_items := lu_items mm; lm_ok := lu_ok mm |},
                            {| lu_items := lu_items mm; lu_fin := true; lu_ok := lu_ok mm |})
  |}; try (intros; reflexivity).
  - intros v i x. destruct (py_set v i x); reflexivity.
  - intros e i x. destruct (py_set e i x); reflexivity.
  - intros m. apply lm_ok.
  - intros mm. apply lu_ok.
  - intros m. simpl. split; reflexivity.
  - intros mm k v H. unfold lu_set. rewrite H. reflexivity.
  - intros mm k v H. unfold lu_set. rewrite H. eexists; split; [reflexivity|]. simpl. split; reflexivity.
  - intros mm k H. unfold lu_del. rewrite H. reflexivity.
  - intros mm k H1 H2. unfold lu_del. rewrite H1, H2. reflexivity.
  - intros mm k H1 H2. unfold lu_del. rewrite H1, H2. eexists; split; [reflexivity|]. simpl. split; reflexivity.
  - intros mm. simpl. repeat split; reflexivity.
Defined.
