(** C04 -- one step of the model is acceptable to the specification.

    [Rheap] relates the model's heap of transient cells to the specification's heap;
    [sim_step st sh o] says: the result of [step] abstracts to something [sstep] accepts,
    and the heaps stay related.  One lemma per operation, then [step_sim] for all. *)
From Coq Require Import List Bool ZArith NArith Lia Permutation.
Import ListNotations.
From Verif Require Import Common.ListX C04.Val C04.Lib C04.Model C04.Spec C04.Abs C04.Wrappers.

(** acceptance, in the shapes the proofs produce *)
Lemma acc_exact r : accept (XExact r) r = true.
Proof. apply sres_eqb_refl. Qed.
Lemma acc_nil : accept xnil (RVal enil) = true.
Proof. reflexivity. Qed.
Lemma acc_bad : accept xbad (RErr EBadRef) = true.
Proof. reflexivity. Qed.
Lemma acc_coll c c' m : coll_equiv c c' = true -> accept (XColl c) (RColl c' m) = true.
Proof. intro H; exact H. Qed.
Lemma acc_coll_same c m : accept (XColl c) (RColl c m) = true.
Proof. apply coll_equiv_refl. Qed.
Lemma acc_collmeta c c' m : coll_equiv c c' = true -> accept (XCollMeta c m) (RColl c' m) = true.
Proof. intro H. simpl. rewrite H, meta_eqb_refl. reflexivity. Qed.
Lemma acc_val e : accept (xval e) (RVal e) = true.
Proof. apply elem_eqb_refl. Qed.

Section Sim.
  Variable L : Libs.

  Definition Rcell (ic : icell L) (sc : scell) : Prop :=
    match ic, sc with
    | ICVec e, SCVec l => ev_list L e = l
    | ICMap mm, SCMap m fin => Rmut L mm m /\ mm_fin L mm = fin
    | ICSet mm, SCSet l fin => Rkeys L mm l /\ mm_fin L mm = fin
    | _, _ => False
    end.
  Definition Rheap (ih : list (icell L)) (sh : list scell) : Prop := Forall2 Rcell ih sh.

  Lemma Rheap_length ih sh : Rheap ih sh -> length ih = length sh.
  Proof. induction 1; simpl; congruence. Qed.

  Lemma Rheap_nth ih sh : Rheap ih sh -> forall a,
    match nth_error ih a, nth_error sh a with
    | Some ic, Some sc => Rcell ic sc
    | None, None => True
    | _, _ => False
    end.
  Proof. induction 1 as [|x y l l' Hxy H IH]; intros [|a]; simpl; auto. apply IH. Qed.

  Lemma Rheap_set ih sh a ic sc : Rheap ih sh -> Rcell ic sc -> Rheap (set_cell L ih a ic) (sset_cell sh a sc).
  Proof.
    intros H C. revert a. induction H as [|x y l l' Hxy H IH]; intros [|a]; simpl; try constructor; auto.
    apply IH.
  Qed.

  Lemma sset_cell_same sh : forall a sc, nth_error sh a = Some sc -> sset_cell sh a sc = sh.
  Proof.
    induction sh as [|x r IH]; intros [|a] sc; simpl; intro H; try discriminate.
    - congruence.
    - rewrite IH; auto.
  Qed.

  Lemma Rheap_set_l ih sh a ic sc : Rheap ih sh -> nth_error sh a = Some sc -> Rcell ic sc ->
    Rheap (set_cell L ih a ic) sh.
  Proof. intros H N C. rewrite <- (sset_cell_same sh a sc N). apply Rheap_set; assumption. Qed.

  Lemma Rheap_app ih sh ic sc : Rheap ih sh -> Rcell ic sc -> Rheap (ih ++ [ic]) (sh ++ [sc]).
  Proof. intros H C. apply Forall2_app; [assumption|]. constructor; [assumption|constructor]. Qed.

  (** operands correspond *)
  Lemma target_cases st sh i : Rheap (heap st) sh ->
    (target L st i = TNil L /\ starget (abs_slots L st) sh i = SNil) \/
    (exists c m, target L st i = TColl L c m /\ starget (abs_slots L st) sh i = SColl (abs_coll L c) m) \/
    (exists a ic sc, target L st i = TTrans L a ic /\ starget (abs_slots L st) sh i = STrans a sc /\
                     Rcell ic sc /\ nth_error sh a = Some sc) \/
    (target L st i = TBad L /\ starget (abs_slots L st) sh i = SBad).
  Proof.
    intro HR. unfold target, starget, abs_slots. rewrite nth_error_map.
    destruct (nth_error (slots st) i) as [[c m|a|e|b|z|o l|cls]|]; simpl; auto.
    - right. left. eauto.
    - pose proof (Rheap_nth _ _ HR a) as H.
      destruct (nth_error (heap st) a) as [ic|], (nth_error sh a) as [sc|] eqn:E; try contradiction; auto.
      right. right. left. exists a, ic, sc. auto.
    - destruct e as [[]|]; auto.
  Qed.

  Definition sim_step (st : ist L) (sh : list scell) (o : op) : Prop :=
    accept (fst (sstep (abs_slots L st) sh o)) (abs_res L (fst (step L st o))) = true /\
    Rheap (snd (step L st o)) (snd (sstep (abs_slots L st) sh o)).

  Ltac cases_on st sh i HR :=
    let E1 := fresh "E1" in let E2 := fresh "E2" in
    destruct (target_cases st sh i HR) as
      [[E1 E2]|[(?c & ?m & E1 & E2)|[(?a & ?ic & ?sc & E1 & E2 & ?HC & ?HN)|[E1 E2]]]];
    rewrite E1, E2.

  Ltac begin := unfold sim_step, step, sstep; cbv beta iota zeta.

  Lemma sim_new st sh : Rheap (heap st) sh ->
    (sim_step st sh ONil) /\ (forall k l, sim_step st sh (ONew k l)) /\ (forall kvs, sim_step st sh (ONewMap kvs)).
  Proof.
    intro HR. split; [|split].
    - begin. simpl. auto.
    - intros [] l; begin; simpl; split; auto.
      + rewrite H_pvec_of. apply list_eqb_elem_refl.
      + rewrite H_plist_of. apply list_eqb_elem_refl.
      + rewrite H_pdeque_of. apply list_eqb_elem_refl.
      + apply (coll_equiv_set (set_of_list l)). symmetry. apply set_of_sim.
    - intro kvs. begin. simpl. destruct (map_of_kvs_sim L kvs) as (p & E & P). rewrite E. simpl.
      split; auto. apply (coll_equiv_map (al_of kvs)). symmetry. exact P.
  Qed.

  (** ** equivalence of abstract collections, at the level of Prop *)
  Inductive cequiv : coll -> coll -> Prop :=
  | ce_vec l : cequiv (CVec l) (CVec l)
  | ce_list l : cequiv (CList l) (CList l)
  | ce_queue l : cequiv (CQueue l) (CQueue l)
  | ce_map m1 m2 : Permutation m1 m2 -> cequiv (CMap m1) (CMap m2)
  | ce_set l1 l2 : Permutation l1 l2 -> cequiv (CSet l1) (CSet l2).

  Lemma cequiv_b a b : cequiv a b -> coll_equiv a b = true.
  Proof.
    destruct 1; simpl; try apply list_eqb_elem_refl.
    - apply perm_perm_eqb; [apply pair_eqb_eq|assumption].
    - apply perm_perm_eqb; [apply elem_eqb_eq|assumption].
  Qed.
  Lemma cequiv_refl a : cequiv a a.
  Proof. destruct a; constructor; reflexivity. Qed.
  Lemma cequiv_trans a b c : cequiv a b -> cequiv b c -> cequiv a c.
  Proof. destruct 1; inversion 1; subst; constructor; etransitivity; eassumption. Qed.
  Lemma cequiv_sym a b : cequiv a b -> cequiv b a.
  Proof. destruct 1; constructor; symmetry; assumption. Qed.

  Lemma acc_coll_ce c c' m : cequiv c c' -> accept (XColl c) (RColl c' m) = true.
  Proof. intro H. apply cequiv_b. exact H. Qed.
  Lemma acc_collmeta_ce c c' m : cequiv c c' -> accept (XCollMeta c m) (RColl c' m) = true.
  Proof. intro H. apply acc_collmeta, cequiv_b. exact H. Qed.

  (** ** views *)
  Lemma items_abs c : items_of L c = c_items (abs_coll L c).
  Proof. destruct c; reflexivity. Qed.
  Lemma ordered_abs c : ordered L c = c_ordered (abs_coll L c).
  Proof. destruct c; reflexivity. Qed.
  Lemma coll_len_abs c : coll_len L c = c_len (abs_coll L c).
  Proof.
    destruct c; unfold c_len; simpl.
    - apply H_pvec_len.
    - apply H_plist_len.
    - apply H_pdeque_len.
    - rewrite H_map_len. unfold zlen. rewrite map_length. reflexivity.
    - rewrite H_map_len. unfold zlen, set_keys. rewrite map_length. reflexivity.
  Qed.

  Lemma zlen_eq0 {A} (l : list A) : (zlen l =? 0)%Z = match l with [] => true | _ => false end.
  Proof. destruct l; reflexivity. Qed.

  Lemma abs_coll_with_meta c : cequiv (abs_coll L c) (abs_coll L (coll_with_meta L c)).
  Proof.
    destruct c; simpl.
    - rewrite abs_vec_with_meta. constructor.
    - rewrite H_plist_of. constructor.
    - rewrite H_pdeque_of. constructor.
    - constructor. reflexivity.
    - constructor. symmetry. apply set_with_meta_sim.
  Qed.

  Lemma abs_coll_empty c : cequiv (c_empty (abs_coll L c)) (abs_coll L (coll_empty L c)).
  Proof.
    destruct c; simpl.
    - rewrite abs_vec_with_meta, H_pvec_of. constructor.
    - rewrite !H_plist_of. constructor.
    - rewrite !H_pdeque_of. constructor.
    - rewrite H_map_empty. constructor. reflexivity.
    - constructor. symmetry. rewrite set_with_meta_sim. apply (set_of_sim L []).
  Qed.

  (** ** conj *)
  Lemma c_conj_vec xs : forall l, c_conj (CVec l) xs = Some (CVec (l ++ xs)).
  Proof. induction xs as [|x r IH]; intro l; simpl; [rewrite app_nil_r; reflexivity|]. rewrite IH, <- app_assoc. reflexivity. Qed.
  Lemma c_conj_queue xs : forall l, c_conj (CQueue l) xs = Some (CQueue (l ++ xs)).
  Proof. induction xs as [|x r IH]; intro l; simpl; [rewrite app_nil_r; reflexivity|]. rewrite IH, <- app_assoc. reflexivity. Qed.
  Lemma c_conj_list xs : forall l, c_conj (CList l) xs = Some (CList (rev xs ++ l)).
  Proof. induction xs as [|x r IH]; intro l; simpl; [reflexivity|]. rewrite IH, <- app_assoc. reflexivity. Qed.

  Lemma real_exc cls : real_exception cls = true -> accept XErr (@RErr coll cls) = true.
  Proof. intro H; exact H. Qed.

  (** the result of conj-ing [xs] onto the collection [c], however the wrapper does it *)
  Definition conj_spec (c : icoll L) (xs : list elem) (r : ires L) : Prop :=
    match c_conj (abs_coll L c) xs with
    | Some c' => exists ic m, r = RColl ic m /\ cequiv c' (abs_coll L ic)
    | None => r = RErr EValue
    end.

  Lemma conj_spec_accept c xs r : conj_spec c xs r ->
    accept (xcoll_or_err (c_conj (abs_coll L c) xs)) (abs_res L r) = true.
  Proof.
    unfold conj_spec. destruct (c_conj (abs_coll L c) xs) as [c'|].
    - intros (ic & m & -> & H). simpl. apply cequiv_b. exact H.
    - intros ->. reflexivity.
  Qed.

  Lemma coll_cons_spec c m xs : conj_spec c xs (coll_cons L c m xs).
  Proof.
    unfold conj_spec. destruct c as [p|p|p|p|p]; simpl abs_coll.
    - rewrite c_conj_vec. eexists _, _. split; [reflexivity|]. simpl. rewrite abs_vec_cons. constructor.
    - rewrite c_conj_list. eexists _, _. split; [reflexivity|]. simpl. unfold list_cons. rewrite fold_pl_cons. constructor.
    - rewrite c_conj_queue. eexists _, _. split; [reflexivity|]. simpl. rewrite H_pdeque_extend. constructor.
    - pose proof (map_cons_sim L p xs) as H. unfold coll_cons.
      destruct (map_cons L p xs) as [p'|], (c_conj (CMap (m_items L p)) xs) as [[]|]; try contradiction.
      + eexists _, _. split; [reflexivity|]. simpl. constructor. symmetry. exact H.
      + reflexivity.
    - rewrite c_conj_set. destruct (set_cons_sim L p xs) as (p' & E & P). unfold coll_cons. rewrite E.
      eexists _, _. split; [reflexivity|]. simpl. constructor. symmetry. exact P.
  Qed.

  Ltac rd := cbn [fst snd abs_res].

  Lemma conj_nil_acc xs : accept (XColl (CList (rev xs))) (abs_res L (conj_nil L xs)) = true.
  Proof.
    unfold conj_nil, list_cons. rd. apply acc_coll_ce. cbn [abs_coll].
    rewrite fold_pl_cons, H_plist_of, app_nil_r. constructor.
  Qed.

  Lemma sim_conj st sh i xs : Rheap (heap st) sh -> sim_step st sh (OConj i xs).
  Proof.
    intro HR. begin. cases_on st sh i HR; destruct xs as [|x r]; rd; (split; [|exact HR]);
      try reflexivity.
    - apply conj_nil_acc.
    - apply acc_coll_same.
    - apply (conj_spec_accept c (x :: r)). apply coll_cons_spec.
  Qed.

  (** ** vectors: with a non-negative key Python indexing is Clojure indexing *)
  Lemma neg_key_int k z : neg_key k = false -> key_int k = Some z -> (0 <= z)%Z.
  Proof. unfold neg_key. intros H E. rewrite E in H. apply Z.ltb_ge in H. exact H. Qed.

  Lemma vec_assoc_sim p m k v : neg_key k = false ->
    accept (v_assoc (pv_list L p) k v) (abs_res L (vec_assoc L p m k v)) = true.
  Proof.
    intro N. unfold v_assoc, vec_assoc. destruct (key_int k) as [z|] eqn:E; [|reflexivity].
    pose proof (neg_key_int k z N E) as Hz. rewrite <- (py_set_nonneg _ _ _ Hz).
    pose proof (pv_mset_abs L p z v) as H. destruct (pv_mset L p z v) as [p'|]; rewrite H.
    - rd. apply acc_coll_same.
    - reflexivity.
  Qed.

  Lemma vec_val_at_sim p k d : neg_key k = false -> vec_val_at L p k d = v_get (pv_list L p) k d.
  Proof.
    intro N. unfold v_get, vec_val_at. destruct (key_int k) as [z|] eqn:E; [|reflexivity].
    rewrite H_pvec_get, (py_nth_nonneg _ _ (neg_key_int k z N E)). reflexivity.
  Qed.

  Lemma hz_vec st i k p m (o : op) :
    (is_vec L (target L st i) && neg_key k)%bool = false -> target L st i = TColl L (IVec p) m -> neg_key k = false.
  Proof. intros H E. rewrite E in H. exact H. Qed.

  Lemma hz_tvec st i k a e (o : op) :
    (is_vec L (target L st i) && neg_key k)%bool = false -> target L st i = TTrans L a (ICVec e) -> neg_key k = false.
  Proof. intros H E. rewrite E in H. exact H. Qed.

  Lemma map_assoc_acc p m k v :
    accept (XColl (CMap (al_set k v (m_items L p))))
           (abs_res L match map_assoc L p k v with Some p' => RColl (IMap p') m | None => RErr EValue end) = true.
  Proof.
    destruct (map_assoc_sim L p k v) as (p' & E & P). rewrite E. rd. apply acc_coll_ce. constructor. symmetry. exact P.
  Qed.

  Lemma sim_assoc st sh i k v : Rheap (heap st) sh -> hazard_neg L st (OAssoc i k v) = false ->
    sim_step st sh (OAssoc i k v).
  Proof.
    intros HR HZ. begin. cbn [hazard_neg] in HZ. cases_on st sh i HR; rd; (split; [|exact HR]); try reflexivity; try (destruct ic; reflexivity).
    - pose proof (map_assoc_acc (m_empty L) None k v) as H. rewrite H_map_empty in H. exact H.
    - destruct c as [p|p|p|p|p]; cbn [abs_coll]; try reflexivity.
      + apply vec_assoc_sim. eapply hz_vec; eauto. exact ONil.
      + apply map_assoc_acc.
  Qed.

  Lemma sim_update st sh i k : Rheap (heap st) sh -> hazard_neg L st (OUpdate i k) = false ->
    sim_step st sh (OUpdate i k).
  Proof.
    intros HR HZ. begin. cbn [hazard_neg] in HZ. cases_on st sh i HR; rd; (split; [|exact HR]); try reflexivity; try (destruct ic; reflexivity).
    - pose proof (map_assoc_acc (m_empty L) None k (upd_fn enil)) as H. rewrite H_map_empty in H. exact H.
    - destruct c as [p|p|p|p|p]; cbn [abs_coll]; try reflexivity.
      + assert (neg_key k = false) as N by (eapply hz_vec; eauto; exact ONil).
        rewrite (vec_val_at_sim p k enil N). apply vec_assoc_sim. exact N.
      + rewrite H_map_get. apply map_assoc_acc.
  Qed.

  Lemma sim_dissoc st sh i k : Rheap (heap st) sh -> sim_step st sh (ODissoc i k).
  Proof.
    intros HR. begin. cases_on st sh i HR; rd; (split; [|exact HR]); try reflexivity; try (destruct ic; reflexivity).
    - destruct c as [p|p|p|p|p]; cbn [abs_coll]; try reflexivity.
      destruct (map_dissoc_sim L p k) as (p' & E & P). rewrite E. rd. apply acc_coll_ce. constructor. symmetry. exact P.
  Qed.

  Lemma sim_disj st sh i x : Rheap (heap st) sh -> sim_step st sh (ODisj i x).
  Proof.
    intros HR. begin. cases_on st sh i HR; rd; (split; [|exact HR]); try reflexivity; try (destruct ic; reflexivity).
    - destruct c as [p|p|p|p|p]; cbn [abs_coll]; try reflexivity.
      destruct (set_dissoc_sim L p x) as (p' & E & P). rewrite E. rd. apply acc_coll_ce. constructor. symmetry. exact P.
  Qed.

  Lemma sim_pop st sh i : Rheap (heap st) sh -> sim_step st sh (OPop i).
  Proof.
    intros HR. begin. cases_on st sh i HR; rd; (split; [|exact HR]); try reflexivity; try (destruct ic; reflexivity).
    - destruct c as [p|p|p|p|p]; cbn [abs_coll]; try reflexivity.
      + unfold vec_pop. rewrite H_pvec_len, zlen_eq0. destruct (pv_list L p) eqn:E; [reflexivity|].
        rd. apply acc_coll_ce. cbn [abs_coll]. rewrite H_pvec_init, E. constructor.
      + rewrite H_plist_is_empty. destruct (pl_list L p) eqn:E; [reflexivity|].
        rd. apply acc_coll_ce. cbn [abs_coll]. rewrite H_plist_rest, E. constructor.
      + rewrite H_pdeque_len, zlen_eq0. destruct (dq_list L p) eqn:E; [reflexivity|].
        rd. apply acc_coll_ce. cbn [abs_coll]. rewrite H_pdeque_popleft, E. constructor.
  Qed.

  Lemma nth_error_last (l : list elem) d : l <> [] -> nth_error l (length l - 1) = Some (last l d).
  Proof.
    induction l as [|x r IH]; [congruence|]. intros _. destruct r as [|y r']; [reflexivity|].
    replace (length (x :: y :: r') - 1)%nat with (S (length (y :: r') - 1)) by (simpl; lia).
    cbn [nth_error]. rewrite IH by discriminate. reflexivity.
  Qed.

  Lemma py_nth_last l : l <> [] -> py_nth l (-1) = Some (last l enil).
  Proof.
    intro H. unfold py_nth, py_norm. assert (1 <= zlen l)%Z as Hl by (destruct l; [congruence|unfold zlen; simpl; lia]).
    replace (0 <=? -1)%Z with false by reflexivity. cbn [andb].
    replace (-1 <? 0)%Z with true by reflexivity. cbn [andb].
    destruct (- zlen l <=? -1)%Z eqn:E; [|apply Z.leb_gt in E; lia].
    replace (Z.to_nat (zlen l + -1)) with (length l - 1)%nat by (unfold zlen; lia).
    apply nth_error_last. exact H.
  Qed.

  Lemma sim_peek st sh i : Rheap (heap st) sh -> sim_step st sh (OPeek i).
  Proof.
    intros HR. begin. cases_on st sh i HR; rd; (split; [|exact HR]); try reflexivity; try (destruct ic; reflexivity).
    - destruct c as [p|p|p|p|p]; cbn [abs_coll]; try reflexivity.
      + unfold vec_peek. rewrite H_pvec_len, zlen_eq0, H_pvec_get. destruct (pv_list L p) as [|x r] eqn:E; [reflexivity|].
        rewrite py_nth_last by discriminate. rd. apply acc_val.
      + rewrite H_plist_first. destruct (pl_list L p); apply acc_val.
      + rewrite H_pdeque_left. destruct (dq_list L p); apply acc_val.
  Qed.

  Lemma sim_empty st sh i : Rheap (heap st) sh -> sim_step st sh (OEmpty i).
  Proof.
    intros HR. begin. cases_on st sh i HR; rd; (split; [|exact HR]); try reflexivity; try (destruct ic; reflexivity).
    apply acc_coll_ce. apply abs_coll_empty.
  Qed.

  Lemma sim_with_meta st sh i m : Rheap (heap st) sh -> hazard_meta L st (OWithMeta i m) = false ->
    sim_step st sh (OWithMeta i m).
  Proof.
    intros HR HZ. begin. cbn [hazard_meta] in HZ. destruct m as [n|].
    - cases_on st sh i HR; rd; (split; [|exact HR]); try reflexivity; try (destruct ic; reflexivity).
      apply acc_collmeta_ce. apply abs_coll_with_meta.
    - cases_on st sh i HR; rd; (split; [|exact HR]); try reflexivity; try (destruct ic; reflexivity).
      rewrite E1 in HZ. destruct m; [discriminate|]. apply acc_collmeta_ce. apply cequiv_refl.
  Qed.

  Lemma sim_meta st sh i : Rheap (heap st) sh -> sim_step st sh (OMeta i).
  Proof.
    intros HR. begin. cases_on st sh i HR; rd; (split; [|exact HR]); try reflexivity; try (destruct ic; reflexivity).
    destruct m; rd; [apply acc_exact|reflexivity].
  Qed.

  (** ** into *)
  Lemma remeta_spec c0 ic m : cequiv c0 (abs_coll L ic) ->
    exists ic', remeta L ic m = RColl ic' m /\ cequiv c0 (abs_coll L ic').
  Proof.
    intro H. unfold remeta. destruct m as [n|].
    - eexists; split; [reflexivity|]. eapply cequiv_trans; [exact H|apply abs_coll_with_meta].
    - eexists; split; [reflexivity|exact H].
  Qed.

  Definition into_coll (c : icoll L) (m : option N) (xs : list elem) : ires L :=
    match c with
    | IVec p => remeta L (IVec (fst (ev_persistent L (fold_left (ev_append L) xs (pv_evolver L p))))) m
    | IMap p => match map_cons L p xs with Some p' => remeta L (IMap p') m | None => RErr EValue end
    | ISet p => match set_cons L p xs with Some p' => remeta L (ISet p') m | None => RErr EValue end
    | IList p => RColl (IList (list_cons L p xs)) m
    | IQueue p => RColl (IQueue (fold_left (fun q x => dq_extend L q [x]) xs p)) m
    end.

  Lemma into_coll_spec c m xs : conj_spec c xs (into_coll c m xs).
  Proof.
    unfold conj_spec, into_coll. destruct c as [p|p|p|p|p]; simpl abs_coll.
    - rewrite c_conj_vec.
      destruct (remeta_spec (CVec (pv_list L p ++ xs))
                  (IVec (fst (ev_persistent L (fold_left (ev_append L) xs (pv_evolver L p))))) m) as (ic' & E & H).
      { simpl. rewrite H_evolver_persistent, fold_ev_append, H_evolver_of. constructor. }
      rewrite E. eauto.
    - rewrite c_conj_list. eexists _, _. split; [reflexivity|]. simpl. unfold list_cons. rewrite fold_pl_cons. constructor.
    - rewrite c_conj_queue. eexists _, _. split; [reflexivity|]. simpl. rewrite fold_dq_extend1. constructor.
    - pose proof (map_cons_sim L p xs) as H.
      destruct (map_cons L p xs) as [p'|], (c_conj (CMap (m_items L p)) xs) as [[]|]; try contradiction.
      + destruct (remeta_spec (CMap m0) (IMap p') m) as (ic' & E & H'); [constructor; symmetry; exact H|].
        rewrite E. eauto.
      + reflexivity.
    - rewrite c_conj_set. destruct (set_cons_sim L p xs) as (p' & E & P). rewrite E.
      destruct (remeta_spec (CSet (fold_left (fun acc x => s_add x acc) xs (set_keys L p))) (ISet p') m) as (ic' & E' & H').
      { constructor. symmetry. exact P. }
      rewrite E'. eauto.
  Qed.

  Lemma sim_into st sh i j : Rheap (heap st) sh -> sim_step st sh (OInto i j).
  Proof.
    intros HR. begin. unfold op_into. cases_on st sh i HR.
    - (* to = nil *)
      cases_on st sh j HR; rd; (split; [|exact HR]); try reflexivity.
      cbn [into_items]. rewrite items_abs. destruct (c_items (abs_coll L c)) as [|x r] eqn:E; [reflexivity|].
      apply conj_nil_acc.
    - (* to = a collection *)
      cases_on st sh j HR; rd; (split; [|exact HR]); try reflexivity.
      + cbn [into_items]. change (XColl (abs_coll L c)) with (xcoll_or_err (c_conj (abs_coll L c) [])).
        apply (conj_spec_accept c []). apply (into_coll_spec c m []).
      + cbn [into_items]. rewrite <- items_abs. apply (conj_spec_accept c (items_of L c0)).
        apply (into_coll_spec c m (items_of L c0)).
    - (* to = a transient *)
      cases_on st sh j HR; rd; (split; [|exact HR]); try reflexivity.
      cbn [into_items]. destruct (items_of L c); reflexivity.
    - rd. split; [reflexivity|exact HR].
  Qed.

  (** ** merge *)
  Lemma fold_al_set_nodup m : forall acc, nodupk m = true -> (forall k, memk k m = true -> memk k acc = false) ->
    fold_left (fun a kv => al_set (fst kv) (snd kv) a) m acc = acc ++ m.
  Proof.
    induction m as [|[k v] r IH]; intros acc N D; simpl; [rewrite app_nil_r; reflexivity|].
    unfold nodupk in N. simpl in N. apply andb_true_iff in N as [N1 N2].
    assert (memk k acc = false) as Hk.
    { apply D. unfold memk. simpl. rewrite keq_refl. reflexivity. }
    rewrite (al_set_notin _ _ _ Hk). rewrite IH; [rewrite <- app_assoc; reflexivity|exact N2|].
    intros k' H'. unfold memk. rewrite map_app, mem_app. simpl. rewrite orb_false_r.
    assert (memk k' acc = false) as Ha by (apply D; unfold memk; simpl; unfold memk in H'; rewrite H'; apply orb_true_r).
    unfold memk in Ha. rewrite Ha. simpl. destruct (keq k' k) eqn:E; [|reflexivity].
    apply negb_true_iff in N1. unfold memk in H'. rewrite (mem_keq _ _ _ E) in H'. congruence.
  Qed.

  Lemma al_of_nodup m : nodupk m = true -> al_of m = m.
  Proof. intro N. unfold al_of. rewrite fold_al_set_nodup; auto. Qed.

  (** merging a nil / map argument into a mutation *)
  Lemma merge_arg_sim mm m t s : Rmut L mm m -> mm_fin L mm = false ->
    (t = TNil L /\ s = SNil) \/ (exists p mt, t = TColl L (IMap p) mt /\ s = SColl (CMap (m_items L p)) mt) ->
    exists m2 mm', Spec.merge_arg s = Some m2 /\ Model.merge_arg L mm t = Some mm' /\
                   Rmut L mm' (fold_left (fun a kv => al_set (fst kv) (snd kv) a) m2 m) /\ mm_fin L mm' = false.
  Proof.
    intros R F [[-> ->]|(p & mt & -> & ->)]; simpl.
    - exists [], mm. auto.
    - destruct (fold_set_sim L (m_items L p) mm m R F) as (mm' & E & R' & F'). exists (m_items L p), mm'. auto.
  Qed.

  Definition mergeable (t : tgt L) (s : stgt) : Prop :=
    (t = TNil L /\ s = SNil) \/ (exists p mt, t = TColl L (IMap p) mt /\ s = SColl (CMap (m_items L p)) mt).

  Lemma merge_defined ta sa tb sb : mergeable ta sa -> mergeable tb sb ->
    (ta = TNil L /\ tb = TNil L) \/
    exists m1 m2 pr, Spec.merge_arg sa = Some m1 /\ Spec.merge_arg sb = Some m2 /\
      op_merge L ta tb = RColl (IMap pr) None /\
      Permutation (m_items L pr) (fold_left (fun a kv => al_set (fst kv) (snd kv) a) m2 m1).
  Proof.
    intros Ha Hb. destruct (Rmut_mutate L (m_empty L)) as [R0 F0]. rewrite H_map_empty in R0.
    destruct (merge_arg_sim _ _ ta sa R0 F0 Ha) as (m1 & mm1 & S1 & M1 & R1 & F1).
    destruct (merge_arg_sim _ _ tb sb R1 F1 Hb) as (m2 & mm2 & S2 & M2 & R2 & F2).
    assert (fold_left (fun a kv => al_set (fst kv) (snd kv) a) m1 [] = m1) as Em1.
    { destruct Ha as [[_ ->]|(p & mt & _ & ->)]; simpl in S1; inversion S1; subst; [reflexivity|].
      apply al_of_nodup. apply H_map_nodup. }
    rewrite Em1 in R1, R2.
    destruct Ha as [[-> ->]|(pa & ma & -> & ->)], Hb as [[-> ->]|(pb & mb & -> & ->)]; [left; auto| | |];
      right; exists m1, m2, (finish L mm2); (repeat split; try assumption);
      try (apply Rmut_finish; exact R2); unfold op_merge; rewrite M1, M2; reflexivity.
  Qed.

  Lemma acc_any_res (r : ires L) : (forall c, r <> RErr c \/ (c <=? 7)%N = true) -> accept XAny (abs_res L r) = true.
  Proof. intro H. destruct r; try reflexivity. simpl. destruct (H cls) as [N|E]; [congruence|exact E]. Qed.

  Lemma op_merge_shape ta tb : (exists p, op_merge L ta tb = RColl (IMap p) None) \/ op_merge L ta tb = RErr EValue \/
    op_merge L ta tb = RErr EBadRef \/ op_merge L ta tb = RVal enil.
  Proof.
    unfold op_merge. destruct ta, tb; auto;
      repeat match goal with |- context [match ?x with Some _ => _ | None => _ end] => destruct x end; eauto.
  Qed.

  Lemma merge_any ta tb : accept XAny (abs_res L (op_merge L ta tb)) = true.
  Proof.
    destruct (op_merge_shape ta tb) as [(p & E)|[E|[E|E]]]; rewrite E; reflexivity.
  Qed.

  Lemma sim_merge st sh i j : Rheap (heap st) sh -> sim_step st sh (OMerge i j).
  Proof.
    intros HR. begin. split; [|exact HR]. rd.
    destruct (target_cases st sh i HR) as [[A1 A2]|[(ca & ma & A1 & A2)|[(aa & ia & sa & A1 & A2 & _)|[A1 A2]]]];
    destruct (target_cases st sh j HR) as [[B1 B2]|[(cb & mb & B1 & B2)|[(ab & ib & sb & B1 & B2 & _)|[B1 B2]]]];
    rewrite A1, A2; rewrite ?B1, ?B2; try reflexivity; try apply merge_any.
    - (* nil, coll *)
      destruct cb as [p|p|p|p|p]; try apply merge_any.
      destruct (merge_defined (TNil L) SNil (TColl L (IMap p) mb) (SColl (CMap (m_items L p)) mb)) as [[_ H]|(m1 & m2 & pr & S1 & S2 & E & P)];
        [left; auto|right; eauto|discriminate|].
      cbn [abs_coll]. rewrite S1, S2, E. rd. apply acc_coll_ce. constructor. symmetry. exact P.
    - (* coll, nil *)
      destruct ca as [p|p|p|p|p]; try apply merge_any.
      destruct (merge_defined (TColl L (IMap p) ma) (SColl (CMap (m_items L p)) ma) (TNil L) SNil) as [[H _]|(m1 & m2 & pr & S1 & S2 & E & P)];
        [right; eauto|left; auto|discriminate|].
      cbn [abs_coll]. rewrite S1, S2, E. rd. apply acc_coll_ce. constructor. symmetry. exact P.
    - (* coll, coll *)
      destruct ca as [p|p|p|p|p], cb as [q|q|q|q|q]; try apply merge_any.
      destruct (merge_defined (TColl L (IMap p) ma) (SColl (CMap (m_items L p)) ma)
                              (TColl L (IMap q) mb) (SColl (CMap (m_items L q)) mb)) as [[H _]|(m1 & m2 & pr & S1 & S2 & E & P)];
        [right; eauto|right; eauto|discriminate|].
      cbn [abs_coll]. rewrite S1, S2, E. rd. apply acc_coll_ce. constructor. symmetry. exact P.
    - (* coll, transient *)
      destruct ca; cbn [abs_coll Spec.merge_arg]; apply merge_any.
  Qed.

  (** ** reads *)
  Lemma acc_seq o l : accept (xseq o l) (abs_res L (seq_res L o l)) = true.
  Proof. destruct l; [reflexivity|]. unfold xseq, seq_res. rd. apply acc_exact. Qed.

  Lemma sim_seq st sh i : Rheap (heap st) sh -> sim_step st sh (OSeq i).
  Proof.
    intros HR. begin. cases_on st sh i HR; rd; (split; [|exact HR]); try reflexivity.
    rewrite coll_len_abs, ordered_abs, items_abs. unfold c_len. rewrite zlen_eq0.
    destruct (c_items (abs_coll L c)) eqn:E; [reflexivity|]. rewrite <- E. apply acc_seq.
  Qed.

  Lemma sim_rseq st sh i : Rheap (heap st) sh -> sim_step st sh (ORseq i).
  Proof.
    intros HR. begin. cases_on st sh i HR; rd; (split; [|exact HR]); try reflexivity.
    destruct c; cbn [abs_coll]; try reflexivity. apply acc_seq.
  Qed.

  Lemma sim_count st sh i : Rheap (heap st) sh -> sim_step st sh (OCount i).
  Proof.
    intros HR. begin. cases_on st sh i HR; rd; (split; [|exact HR]); try reflexivity.
    - rewrite coll_len_abs. apply acc_exact.
    - destruct ic as [e|mm|mm], sc as [l|m f|l f]; simpl in HC; try contradiction; rd.
      + subst l. rewrite H_evolver_len. apply acc_exact.
      + destruct HC as [R _]. rewrite (Rmut_len L _ _ R). unfold cell_len, c_len, zlen. simpl. rewrite map_length. apply Z.eqb_refl.
      + destruct HC as [R _]. rewrite (Rkeys_len L _ _ R). apply acc_exact.
  Qed.

  Lemma nth_error_clj (l : list elem) z : (0 <= z)%Z -> nth_error l (Z.to_nat z) = clj_nth l z.
  Proof.
    intro H. unfold clj_nth. destruct (0 <=? z)%Z eqn:A; [|apply Z.leb_gt in A; lia].
    destruct (z <? zlen l)%Z eqn:B; [reflexivity|]. simpl. apply nth_error_None. apply Z.ltb_ge in B. unfold zlen in B. lia.
  Qed.

  Lemma key_int_num k z : key_int k = Some z -> key_num k = Some z.
  Proof. destruct k as [[]|]; simpl; congruence. Qed.

  Lemma acc_nth_res (o : option elem) nf :
    accept match o, nf with Some e, _ => xval e | None, Some d => xval d | None, None => XErr end
           (abs_res L match o, nf with Some e, _ => RVal e | None, Some d => RVal d | None, None => RErr EIndex end) = true.
  Proof. destruct o, nf; try apply acc_val; reflexivity. Qed.

  Lemma vec_nth_sim l k nf (g : Z -> option elem) : neg_key k = false -> (forall z, g z = py_nth l z) ->
    accept (v_nth l k nf)
      (abs_res L match key_int k with
                 | Some z => match g z, nf with Some e, _ => RVal e | None, Some d => RVal d | None, None => RErr EIndex end
                 | None => RErr EType end) = true.
  Proof.
    intros N G. unfold v_nth. destruct (key_int k) as [z|] eqn:E; [|reflexivity].
    rewrite G, (py_nth_nonneg _ _ (neg_key_int k z N E)). apply acc_nth_res.
  Qed.

  Lemma list_nth_sim p k nf : accept (v_nth (pl_list L p) k nf) (abs_res L (list_nth L p k nf)) = true.
  Proof.
    unfold v_nth, list_nth. destruct (key_int k) as [z|] eqn:E.
    - rewrite (key_int_num k z E). destruct (0 <=? z)%Z eqn:A.
      + apply Z.leb_le in A. rewrite (nth_error_clj _ _ A). apply acc_nth_res.
      + replace (clj_nth (pl_list L p) z) with (@None elem) by (unfold clj_nth; rewrite A; reflexivity).
        apply (acc_nth_res None).
    - destruct (match key_num k with Some z => if (0 <=? z)%Z then nth_error (pl_list L p) (Z.to_nat z) else None | None => None end), nf;
        reflexivity.
  Qed.

  Lemma sim_nth st sh i k nf : Rheap (heap st) sh -> hazard_neg L st (ONth i k nf) = false ->
    sim_step st sh (ONth i k nf).
  Proof.
    intros HR HZ. begin. cbn [hazard_neg] in HZ. cases_on st sh i HR; rd; (split; [|exact HR]); try reflexivity.
    - apply acc_val.
    - destruct c as [p|p|p|p|p]; cbn [abs_coll]; try reflexivity.
      + unfold vec_nth. apply vec_nth_sim; [eapply hz_vec; eauto; exact ONil|apply H_pvec_get].
      + apply list_nth_sim.
    - destruct ic as [e|mm|mm], sc as [l|m f|l f]; simpl in HC; try contradiction; try reflexivity.
      subst l. unfold tvec_nth. apply vec_nth_sim; [eapply hz_tvec; eauto; exact ONil|apply H_evolver_get].
  Qed.

  Lemma set_get_acc l k dd (present : bool) : present = mem k l ->
    accept match s_find k l with Some y => XKeq y | None => xval dd end
           (abs_res L (RVal (if present then k else dd))) = true.
  Proof.
    intros ->. destruct (s_find k l) as [y|] eqn:E.
    - assert (mem k l = true) as -> by (apply s_find_mem; eauto). rd. simpl. rewrite keq_sym. eapply s_find_keq; eauto.
    - assert (mem k l = false) as ->.
      { destruct (mem k l) eqn:M; [|reflexivity]. apply s_find_mem in M as [y Hy]. congruence. }
      apply acc_val.
  Qed.

  Lemma sim_get st sh i k d : Rheap (heap st) sh -> hazard_neg L st (OGet i k d) = false ->
    sim_step st sh (OGet i k d).
  Proof.
    intros HR HZ. begin. cbn [hazard_neg] in HZ. cases_on st sh i HR; rd; (split; [|exact HR]); try apply acc_val; try reflexivity.
    - destruct c as [p|p|p|p|p]; cbn [abs_coll]; try apply acc_val.
      + rewrite vec_val_at_sim by (eapply hz_vec; eauto; exact ONil). apply acc_val.
      + rewrite H_map_get. apply acc_val.
      + apply set_get_acc. rewrite H_map_get, has_key_al_get. reflexivity.
    - destruct ic as [e|mm|mm], sc as [l|m f|l f]; simpl in HC; try contradiction.
      + subst l. unfold tvec_val_at, v_get. destruct (key_int k) as [z|] eqn:E; [|reflexivity].
        assert (neg_key k = false) as N by (eapply hz_tvec; eauto; exact ONil).
        rewrite H_evolver_get, (py_nth_nonneg _ _ (neg_key_int k z N E)). apply acc_val.
      + destruct HC as [R _]. rewrite (Rmut_get L _ _ k R). apply acc_val.
      + destruct HC as [R _]. apply set_get_acc. apply Rkeys_has. exact R.
  Qed.

  Lemma sim_contains st sh i k : Rheap (heap st) sh -> sim_step st sh (OContains i k).
  Proof.
    intros HR. begin. cases_on st sh i HR; rd; (split; [|exact HR]); try reflexivity.
    - destruct c as [p|p|p|p|p]; cbn [abs_coll]; try reflexivity.
      + unfold vec_contains, v_contains. rewrite H_pvec_len. apply acc_exact.
      + rewrite H_map_get, has_key_al_get. apply acc_exact.
      + rewrite H_map_get, has_key_al_get. apply acc_exact.
    - destruct ic as [e|mm|mm], sc as [l|m f|l f]; simpl in HC; try contradiction.
      + subst l. unfold tvec_contains, v_contains. destruct (key_int k) as [z|] eqn:E.
        * rewrite (key_int_num k z E), H_evolver_len. apply acc_exact.
        * destruct (key_num k); reflexivity.
      + destruct HC as [R _]. rewrite (Rmut_get L _ _ k R), has_key_al_get. apply acc_exact.
      + destruct HC as [R _]. rewrite (Rkeys_has L _ _ k R). apply acc_exact.
  Qed.

  (** ** transients *)
  Lemma sim_transient st sh i : Rheap (heap st) sh -> sim_step st sh (OTransient i).
  Proof.
    intros HR. begin. pose proof (Rheap_length _ _ HR) as Len.
    cases_on st sh i HR; try (rd; split; [reflexivity|exact HR]).
    - destruct c as [p|p|p|p|p]; cbn [abs_coll]; rd; try (split; [reflexivity|exact HR]).
      + split; [rewrite Len; apply acc_exact|]. apply Rheap_app; [exact HR|]. simpl. apply H_evolver_of.
      + split; [rewrite Len; apply acc_exact|]. apply Rheap_app; [exact HR|]. simpl. apply Rmut_mutate.
      + split; [rewrite Len; apply acc_exact|]. apply Rheap_app; [exact HR|]. simpl. apply Rkeys_mutate.
  Qed.

  Lemma sim_persistent st sh i : Rheap (heap st) sh -> sim_step st sh (OPersistent i).
  Proof.
    intros HR. begin.
    cases_on st sh i HR; try (rd; split; [reflexivity|exact HR]).
    - destruct ic as [e|mm|mm], sc as [l|m f|l f]; simpl in HC; try contradiction; rd.
      + subst l. split.
        * apply acc_coll_ce. cbn [abs_coll]. rewrite H_evolver_persistent. constructor.
        * eapply Rheap_set_l; [exact HR|exact HN|]. simpl. apply H_evolver_persistent_stays.
      + destruct HC as [R _]. split.
        * apply acc_coll_ce. cbn [abs_coll]. constructor. symmetry. apply Rmut_finish. exact R.
        * apply Rheap_set; [exact HR|]. simpl. apply Rmut_finish_snd. exact R.
      + destruct HC as [R _]. split.
        * apply acc_coll_ce. cbn [abs_coll]. constructor. symmetry. apply Rkeys_finish. exact R.
        * apply Rheap_set; [exact HR|]. simpl. apply Rkeys_finish_snd. exact R.
  Qed.

  Lemma sim_conjT st sh i x : Rheap (heap st) sh -> sim_step st sh (OConjT i x).
  Proof.
    intros HR. begin.
    cases_on st sh i HR; try (rd; split; [reflexivity|exact HR]).
    destruct ic as [e|mm|mm], sc as [l|m f|l f]; simpl in HC; try contradiction.
    - subst l. rd. split; [apply acc_exact|]. apply Rheap_set; [exact HR|]. simpl. apply H_evolver_append.
    - destruct HC as [R F]. destruct f.
      + (* after persistent! *)
        unfold mut_conj1. destruct x as [[]|[|k [|v [|w r]]]]; rd; try (split; [reflexivity|exact HR]).
        * split; [reflexivity|]. eapply Rheap_set_l; [exact HR|exact HN|]. simpl. auto.
        * rewrite (H_mut_set_finished L mm k v F). rd. split; [reflexivity|exact HR].
      + pose proof (mut_conj1_sim L mm m x R F) as H.
        destruct (mut_conj1 L mm x) as [mm'|], (c_conj1 (CMap m) x) as [[]|]; try contradiction; rd.
        * destruct H as [R' F']. split; [apply acc_exact|]. apply Rheap_set; [exact HR|]. simpl. auto.
        * split; [reflexivity|exact HR].
    - destruct HC as [R F]. destruct f.
      + rewrite (H_mut_set_finished L mm x x F). rd. split; [reflexivity|exact HR].
      + destruct (Rkeys_add L mm l x R F) as (mm' & E & R' & F'). rewrite E. rd.
        split; [apply acc_exact|]. apply Rheap_set; [exact HR|]. simpl. auto.
  Qed.

  Lemma sim_assocT st sh i k v : Rheap (heap st) sh -> hazard_neg L st (OAssocT i k v) = false ->
    sim_step st sh (OAssocT i k v).
  Proof.
    intros HR HZ. begin. cbn [hazard_neg] in HZ.
    cases_on st sh i HR; try (rd; split; [reflexivity|exact HR]).
    destruct ic as [e|mm|mm], sc as [l|m f|l f]; simpl in HC; try contradiction.
    - subst l. unfold tvec_assoc. destruct (key_int k) as [z|] eqn:E; [|rd; split; [reflexivity|exact HR]].
      assert (neg_key k = false) as N by (eapply hz_tvec; eauto; exact ONil).
      rewrite <- (py_set_nonneg _ _ _ (neg_key_int k z N E)).
      pose proof (ev_set_abs L e z v) as H. destruct (ev_set L e z v) as [e'|]; rewrite H; rd.
      + split; [apply acc_exact|]. apply Rheap_set; [exact HR|]. reflexivity.
      + split; [reflexivity|exact HR].
    - destruct HC as [R F]. destruct f.
      + rewrite (H_mut_set_finished L mm k v F). rd. split; [reflexivity|exact HR].
      + destruct (Rmut_set L mm m k v R F) as (mm' & E & R' & F'). rewrite E. rd.
        split; [apply acc_exact|]. apply Rheap_set; [exact HR|]. simpl. auto.
    - destruct f; rd; (split; [reflexivity|exact HR]).
  Qed.

  Lemma sim_dissocT st sh i k : Rheap (heap st) sh -> sim_step st sh (ODissocT i k).
  Proof.
    intros HR. begin.
    cases_on st sh i HR; try (rd; split; [reflexivity|exact HR]).
    destruct ic as [e|mm|mm], sc as [l|m f|l f]; simpl in HC; try contradiction;
      try (rd; split; [reflexivity|exact HR]).
    - destruct HC as [R F]. destruct f.
      + rewrite (mut_dissoc_finished L mm k F). rd. split; [reflexivity|exact HR].
      + destruct (Rmut_dissoc L mm m k R F) as (mm' & E & R' & F'). rewrite E. rd.
        split; [apply acc_exact|]. apply Rheap_set; [exact HR|]. simpl. auto.
  Qed.

  Lemma sim_disjT st sh i x : Rheap (heap st) sh -> sim_step st sh (ODisjT i x).
  Proof.
    intros HR. begin.
    cases_on st sh i HR; try (rd; split; [reflexivity|exact HR]).
    destruct ic as [e|mm|mm], sc as [l|m f|l f]; simpl in HC; try contradiction;
      try (rd; split; [reflexivity|exact HR]).
    - destruct HC as [R F]. destruct f.
      + rewrite (mut_dissoc_finished L mm x F). rd. split; [reflexivity|exact HR].
      + destruct (Rkeys_del L mm l x R F) as (mm' & E & R' & F'). rewrite E. rd.
        split; [apply acc_exact|]. apply Rheap_set; [exact HR|]. simpl. auto.
  Qed.

  Lemma sim_popT st sh i : Rheap (heap st) sh -> sim_step st sh (OPopT i).
  Proof.
    intros HR. begin.
    cases_on st sh i HR; try (rd; split; [reflexivity|exact HR]).
    destruct ic as [e|mm|mm], sc as [l|m f|l f]; simpl in HC; try contradiction;
      try (rd; split; [reflexivity|exact HR]).
    subst l. rewrite H_evolver_len, zlen_eq0. destruct (ev_list L e) as [|x r] eqn:E; rd.
    - split; [reflexivity|exact HR].
    - split; [apply acc_exact|]. apply Rheap_set; [exact HR|]. simpl. rewrite H_evolver_del_last, E. reflexivity.
  Qed.

  (** ** equality *)
  Lemma forallb_ext' {A} (f g : A -> bool) l : (forall x, f x = g x) -> forallb f l = forallb g l.
  Proof. intro H. induction l; simpl; [reflexivity|]. rewrite H, IHl. reflexivity. Qed.

  Lemma coll_eq_abs a b : coll_eq L a b = coll_equal (abs_coll L a) (abs_coll L b).
  Proof.
    destruct a as [p|p|p|p|p], b as [q|q|q|q|q]; try reflexivity.
    - simpl. rewrite !H_map_len, H_map_eq. reflexivity.
    - simpl. rewrite !H_map_len.
      assert (forall r, zlen (set_keys L r) = zlen (m_items L r)) as Z
        by (intro r; unfold zlen, set_keys; rewrite map_length; reflexivity).
      rewrite !Z. f_equal. apply forallb_ext'. intro x. rewrite H_map_get, has_key_al_get. reflexivity.
  Qed.

  Lemma sim_eq st sh i j : Rheap (heap st) sh -> sim_step st sh (OEq i j).
  Proof.
    intros HR. begin. unfold tgt_eq. split; [|exact HR]. rd.
    destruct (target_cases st sh i HR) as [[A1 A2]|[(ca & ma & A1 & A2)|[(aa & ia & sa & A1 & A2 & _)|[A1 A2]]]];
    destruct (target_cases st sh j HR) as [[B1 B2]|[(cb & mb & B1 & B2)|[(ab & ib & sb & B1 & B2 & _)|[B1 B2]]]];
    rewrite A1, A2; rewrite ?B1, ?B2; try reflexivity.
    - rewrite coll_eq_abs. apply acc_exact.
    - apply acc_exact.
  Qed.

  (** ** every operation *)
  Theorem step_sim st sh o : Rheap (heap st) sh ->
    hazard_neg L st o = false -> hazard_meta L st o = false -> sim_step st sh o.
  Proof.
    intros HR H1 H2. destruct o.
    - apply sim_new; assumption.
    - apply sim_new; assumption.
    - apply sim_new; assumption.
    - apply sim_conj; assumption.
    - apply sim_assoc; assumption.
    - apply sim_dissoc; assumption.
    - apply sim_disj; assumption.
    - apply sim_pop; assumption.
    - apply sim_peek; assumption.
    - apply sim_into; assumption.
    - apply sim_empty; assumption.
    - apply sim_with_meta; assumption.
    - apply sim_meta; assumption.
    - apply sim_update; assumption.
    - apply sim_merge; assumption.
    - apply sim_seq; assumption.
    - apply sim_rseq; assumption.
    - apply sim_count; assumption.
    - apply sim_nth; assumption.
    - apply sim_get; assumption.
    - apply sim_contains; assumption.
    - apply sim_transient; assumption.
    - apply sim_persistent; assumption.
    - apply sim_conjT; assumption.
    - apply sim_assocT; assumption.
    - apply sim_dissocT; assumption.
    - apply sim_disjT; assumption.
    - apply sim_popT; assumption.
    - apply sim_eq; assumption.
  Qed.
End Sim.
