(** C04 -- what the property prescribes: plain mathematical models.

    A vector, list or queue is a [list elem]; a map is an association list with keys
    distinct modulo [keq], taken modulo permutation; a set is a duplicate-free list modulo
    permutation.  Metadata is a separate component; it takes no part in [=] (see
    [coll_equal]) and is prescribed only for [with-meta] (exactly the given value) and
    [meta].  Transients are cells holding a model collection; the mutating operations
    update the cell and return the same handle.

    The specification is a checker of observed histories: [sstep pre h o] computes, from
    the results observed so far [pre] and the specification's own heap [h], what the next
    result may be ([expect]) and the heap afterwards; [srun] folds it over a history.
    Expectations are exact for sequences and scalars, modulo permutation for maps and
    sets, "some exception" where Clojure raises, and "unspecified" outside the domain
    (operations Clojure does not define on that type, use of a map/set transient after
    persistent!, non-integer indices of nth).  Indices are Python ints (so bool counts);
    negative indices are NOT indices: (get v -1) is the default, (nth v -1) and
    (assoc v -1 x) are errors.  A vector transient stays usable after persistent!
    (Clojure would raise; the property only asks that earlier values do not change). *)
From Coq Require Import List Bool ZArith NArith Lia Permutation.
Import ListNotations.
From Verif Require Import Common.ListX C04.Val.
From Verif Require Export C04.Syntax.

Inductive coll :=
| CVec (l : list elem)
| CList (l : list elem)
| CQueue (l : list elem)
| CMap (m : al)
| CSet (l : list elem).

Definition sres := res coll.

Inductive scell :=
| SCVec (l : list elem)
| SCMap (m : al) (fin : bool)        (* fin: persistent! has been called *)
| SCSet (l : list elem) (fin : bool).

(** ** collection-level operations *)
Definition set_of_list (l : list elem) : list elem := fold_left (fun acc x => s_add x acc) l [].

Definition c_items (c : coll) : list elem :=
  match c with
  | CVec l | CList l | CQueue l | CSet l => l
  | CMap m => map entry m
  end.
Definition c_ordered (c : coll) : bool := match c with CMap _ | CSet _ => false | _ => true end.
Definition c_len (c : coll) : Z := zlen (c_items c).
Definition c_empty (c : coll) : coll :=
  match c with
  | CVec _ => CVec [] | CList _ => CList [] | CQueue _ => CQueue [] | CMap _ => CMap [] | CSet _ => CSet []
  end.

(** conj of one element; None = an exception *)
Definition c_conj1 (c : coll) (x : elem) : option coll :=
  match c with
  | CVec l => Some (CVec (l ++ [x]))
  | CList l => Some (CList (x :: l))
  | CQueue l => Some (CQueue (l ++ [x]))
  | CSet l => Some (CSet (s_add x l))
  | CMap m => match x with
              | EA ANil => Some (CMap m)
              | EV [k; v] => Some (CMap (al_set k v m))
              | _ => None
              end
  end.
Fixpoint c_conj (c : coll) (xs : list elem) : option coll :=
  match xs with
  | [] => Some c
  | x :: r => match c_conj1 c x with Some c' => c_conj c' r | None => None end
  end.

Definition last_or_nil (l : list elem) : elem := last l enil.
Definition hd_or_nil (l : list elem) : elem := hd enil l.

(** equality of collection values: sequential kinds by their elements, maps as finite maps,
    sets as finite sets; never the metadata *)
Definition c_seq_class (c : coll) : bool := match c with CVec _ | CList _ | CQueue _ => true | _ => false end.
Definition al_sub (a b : al) : bool :=
  forallb (fun kv => match al_get (fst kv) b with Some v => keq (snd kv) v | None => false end) a.
Definition coll_equal (a b : coll) : bool :=
  match a, b with
  | CMap m1, CMap m2 => (zlen m1 =? zlen m2)%Z && al_sub m1 m2
  | CSet l1, CSet l2 => (zlen l1 =? zlen l2)%Z && forallb (fun x => mem x l2) l1
  | _, _ => c_seq_class a && c_seq_class b && list_keq (c_items a) (c_items b)
  end.

(** ** expectations *)
Inductive expect :=
| XExact (r : sres)                   (* exactly this result *)
| XColl (c : coll)                    (* a collection with these contents (maps, sets: modulo permutation) *)
| XCollMeta (c : coll) (m : option N) (* ... carrying exactly this metadata *)
| XKeq (e : elem)                     (* a scalar equal ([keq]) to e *)
| XErr                                (* some exception *)
| XAny.                               (* unspecified *)

Definition coll_equiv (a b : coll) : bool :=
  match a, b with
  | CVec l1, CVec l2 | CList l1, CList l2 | CQueue l1, CQueue l2 => list_eqb elem_eqb l1 l2
  | CMap m1, CMap m2 => perm_eqb pair_eqb m1 m2
  | CSet l1, CSet l2 => perm_eqb elem_eqb l1 l2
  | _, _ => false
  end.

Definition meta_eqb : option N -> option N -> bool := option_eqb N.eqb.

Definition sres_eqb (a b : sres) : bool :=
  match a, b with
  | RColl c1 m1, RColl c2 m2 => coll_equiv c1 c2 && meta_eqb m1 m2
  | RTrans x, RTrans y => Nat.eqb x y
  | RVal x, RVal y => elem_eqb x y
  | RBool x, RBool y => Bool.eqb x y
  | RNum x, RNum y => Z.eqb x y
  | RSeq o1 l1, RSeq o2 l2 => Bool.eqb o1 o2 && list_eqb elem_eqb l1 l2
  | RErr x, RErr y => N.eqb x y
  | _, _ => false
  end.

Definition real_exception (cls : N) : bool := (1 <=? cls)%N && (cls <=? 7)%N.

Definition accept (x : expect) (r : sres) : bool :=
  match x, r with
  | XExact r0, _ => sres_eqb r0 r
  | XColl c, RColl c' _ => coll_equiv c c'
  | XCollMeta c m, RColl c' m' => coll_equiv c c' && meta_eqb m m'
  | XKeq e, RVal e' => keq e e'
  | XErr, RErr cls => real_exception cls
  | XAny, RErr cls => (cls <=? 7)%N
  | XAny, _ => true
  | _, _ => false
  end.

(** ** operands *)
Inductive stgt :=
| SNil
| SColl (c : coll) (m : option N)
| STrans (a : nat) (cell : scell)
| SBad.

Definition starget (pre : list sres) (h : list scell) (i : nat) : stgt :=
  match nth_error pre i with
  | Some (RVal (EA ANil)) => SNil
  | Some (RColl c m) => SColl c m
  | Some (RTrans a) => match nth_error h a with Some cell => STrans a cell | None => SBad end
  | _ => SBad
  end.

Fixpoint sset_cell (h : list scell) (a : nat) (c : scell) : list scell :=
  match h, a with
  | [], _ => []
  | _ :: r, O => c :: r
  | x :: r, S a' => x :: sset_cell r a' c
  end.

Definition xnil : expect := XExact (RVal enil).
Definition xbad : expect := XExact (RErr EBadRef).
Definition xval (e : elem) : expect := XExact (RVal e).
Definition xcoll_or_err (o : option coll) : expect := match o with Some c => XColl c | None => XErr end.
Definition xseq (ord : bool) (l : list elem) : expect :=
  match l with [] => xnil | _ => XExact (RSeq ord l) end.

(** vectors as maps from the indices 0 .. len-1 *)
Definition v_assoc (l : list elem) (k v : elem) : expect :=
  match key_int k with
  | Some z => match clj_set l z v with Some l' => XColl (CVec l') | None => XErr end
  | None => XErr
  end.
Definition v_get (l : list elem) (k : elem) (d : elem) : elem :=
  match key_int k with
  | Some z => opt_or (clj_nth l z) d
  | None => d
  end.
Definition v_nth (l : list elem) (k : elem) (nf : option elem) : expect :=
  match key_int k with
  | Some z => match clj_nth l z, nf with
              | Some e, _ => xval e
              | None, Some d => xval d
              | None, None => XErr
              end
  | None => XAny
  end.
Definition v_contains (l : list elem) (k : elem) : bool :=
  match key_int k with
  | Some z => (0 <=? z)%Z && (z <? zlen l)%Z
  | None => false
  end.

Definition merge_arg (t : stgt) : option al :=
  match t with
  | SNil => Some []
  | SColl (CMap m) _ => Some m
  | _ => None
  end.

Definition cell_coll (c : scell) : coll :=
  match c with SCVec l => CVec l | SCMap m _ => CMap m | SCSet l _ => CSet l end.
Definition cell_len (c : scell) : Z := c_len (cell_coll c).

(** ** one step of the specification *)
Definition sstep (pre : list sres) (h : list scell) (o : op) : expect * list scell :=
  let T := starget pre h in
  let pure (x : expect) := (x, h) in
  match o with
  | ONil => pure xnil
  | ONew KVec l => pure (XColl (CVec l))
  | ONew KList l => pure (XColl (CList l))
  | ONew KQueue l => pure (XColl (CQueue l))
  | ONew KSet l => pure (XColl (CSet (set_of_list l)))
  | ONewMap kvs => pure (XColl (CMap (al_of kvs)))
  | OConj i xs =>
      pure match T i, xs with
           | SBad, _ => xbad
           | SNil, [] => xnil
           | SColl c _, [] => XColl c
           | STrans _ _, [] => XAny
           | SNil, _ => XColl (CList (rev xs))
           | SColl c _, _ => xcoll_or_err (c_conj c xs)
           | STrans _ _, _ => XErr
           end
  | OAssoc i k v =>
      pure match T i with
           | SBad => xbad
           | SNil => XColl (CMap [(k, v)])
           | SColl (CVec l) _ => v_assoc l k v
           | SColl (CMap m) _ => XColl (CMap (al_set k v m))
           | _ => XErr
           end
  | ODissoc i k =>
      pure match T i with
           | SBad => xbad
           | SNil => xnil
           | SColl (CMap m) _ => XColl (CMap (al_del k m))
           | _ => XErr
           end
  | ODisj i x =>
      pure match T i with
           | SBad => xbad
           | SNil => xnil
           | SColl (CSet l) _ => XColl (CSet (s_del x l))
           | _ => XErr
           end
  | OPop i =>
      pure match T i with
           | SBad => xbad
           | SNil => xnil
           | SColl (CVec []) _ | SColl (CList []) _ | SColl (CQueue []) _ => XErr
           | SColl (CVec l) _ => XColl (CVec (removelast l))
           | SColl (CList l) _ => XColl (CList (tl l))
           | SColl (CQueue l) _ => XColl (CQueue (tl l))
           | _ => XErr
           end
  | OPeek i =>
      pure match T i with
           | SBad => xbad
           | SNil => xnil
           | SColl (CVec l) _ => xval (last_or_nil l)
           | SColl (CList l) _ | SColl (CQueue l) _ => xval (hd_or_nil l)
           | _ => XErr
           end
  | OInto i j =>
      pure match T i, T j with
           | SBad, _ | _, SBad => xbad
           | _, STrans _ _ => XErr
           | STrans _ _, _ => XAny
           | SNil, SNil => xnil
           | SNil, SColl f _ => match c_items f with [] => xnil | xs => XColl (CList (rev xs)) end
           | SColl c _, SNil => XColl c
           | SColl c _, SColl f _ => xcoll_or_err (c_conj c (c_items f))
           end
  | OEmpty i =>
      pure match T i with
           | SBad => xbad
           | SNil => xnil
           | SColl c _ => XColl (c_empty c)
           | STrans _ _ => XAny
           end
  | OWithMeta i m =>
      pure match T i, m with
           | SBad, _ => xbad
           | SColl c _, _ => XCollMeta c m
           | SNil, Some _ => XErr
           | _, _ => XAny
           end
  | OMeta i =>
      pure match T i with
           | SBad => xbad
           | SColl _ (Some n) => XExact (RNum (Z.of_N n))
           | SColl _ None | SNil => xnil
           | STrans _ _ => XAny
           end
  | OUpdate i k =>
      pure match T i with
           | SBad => xbad
           | SNil => XColl (CMap [(k, upd_fn enil)])
           | SColl (CVec l) _ => v_assoc l k (upd_fn (v_get l k enil))
           | SColl (CMap m) _ => XColl (CMap (al_set k (upd_fn (opt_or (al_get k m) enil)) m))
           | _ => XErr
           end
  | OMerge i j =>
      pure match T i, T j with
           | SBad, _ | _, SBad => xbad
           | SNil, SNil => xnil
           | a, b => match merge_arg a, merge_arg b with
                     | Some m1, Some m2 => XColl (CMap (fold_left (fun acc kv => al_set (fst kv) (snd kv) acc) m2 m1))
                     | _, _ => XAny
                     end
           end
  | OSeq i =>
      pure match T i with
           | SBad => xbad
           | SNil => xnil
           | SColl c _ => xseq (c_ordered c) (c_items c)
           | STrans _ _ => XErr
           end
  | ORseq i =>
      pure match T i with
           | SBad => xbad
           | SColl (CVec l) _ => xseq true (rev l)
           | _ => XErr
           end
  | OCount i =>
      pure match T i with
           | SBad => xbad
           | SNil => XExact (RNum 0)
           | SColl c _ => XExact (RNum (c_len c))
           | STrans _ cell => XExact (RNum (cell_len cell))
           end
  | ONth i k nf =>
      pure match T i with
           | SBad => xbad
           | SNil => xval (opt_or nf enil)
           | SColl (CVec l) _ | SColl (CList l) _ | STrans _ (SCVec l) => v_nth l k nf
           | SColl (CQueue _) _ => XAny
           | _ => XErr
           end
  | OGet i k d =>
      let dd := opt_or d enil in
      pure match T i with
           | SBad => xbad
           | SNil => xval dd
           | SColl (CVec l) _ => xval (v_get l k dd)
           | SColl (CMap m) _ | STrans _ (SCMap m _) => xval (opt_or (al_get k m) dd)
           | SColl (CSet l) _ | STrans _ (SCSet l _) => match s_find k l with Some y => XKeq y | None => xval dd end
           | SColl _ _ => xval dd
           | STrans _ (SCVec l) => match key_int k with Some _ => xval (v_get l k dd) | None => XAny end
           end
  | OContains i k =>
      pure match T i with
           | SBad => xbad
           | SNil => XExact (RBool false)
           | SColl (CVec l) _ => XExact (RBool (v_contains l k))
           | SColl (CMap m) _ | STrans _ (SCMap m _) => XExact (RBool (memk k m))
           | SColl (CSet l) _ | STrans _ (SCSet l _) => XExact (RBool (mem k l))
           | SColl _ _ => XErr
           | STrans _ (SCVec l) => match key_int k with Some _ => XExact (RBool (v_contains l k)) | None => XAny end
           end
  | OTransient i =>
      match T i with
      | SBad => pure xbad
      | SColl (CVec l) _ => (XExact (RTrans (length h)), h ++ [SCVec l])
      | SColl (CMap m) _ => (XExact (RTrans (length h)), h ++ [SCMap m false])
      | SColl (CSet l) _ => (XExact (RTrans (length h)), h ++ [SCSet l false])
      | _ => pure XErr
      end
  | OPersistent i =>
      match T i with
      | SBad => pure xbad
      | STrans a (SCVec l) => (XColl (CVec l), h)
      | STrans a (SCMap m _) => (XColl (CMap m), sset_cell h a (SCMap m true))
      | STrans a (SCSet l _) => (XColl (CSet l), sset_cell h a (SCSet l true))
      | _ => pure XErr
      end
  | OConjT i x =>
      match T i with
      | SBad => pure xbad
      | STrans a (SCVec l) => (XExact (RTrans a), sset_cell h a (SCVec (l ++ [x])))
      | STrans a (SCMap m false) =>
          match c_conj1 (CMap m) x with
          | Some (CMap m') => (XExact (RTrans a), sset_cell h a (SCMap m' false))
          | _ => pure XErr
          end
      | STrans a (SCSet l false) => (XExact (RTrans a), sset_cell h a (SCSet (s_add x l) false))
      | STrans _ _ => pure XAny                       (* after persistent!: nothing changes *)
      | _ => pure XErr
      end
  | OAssocT i k v =>
      match T i with
      | SBad => pure xbad
      | STrans a (SCVec l) =>
          match key_int k with
          | Some z => match clj_set l z v with
                      | Some l' => (XExact (RTrans a), sset_cell h a (SCVec l'))
                      | None => pure XErr
                      end
          | None => pure XErr
          end
      | STrans a (SCMap m false) => (XExact (RTrans a), sset_cell h a (SCMap (al_set k v m) false))
      | STrans _ (SCMap _ true) => pure XAny
      | _ => pure XErr
      end
  | ODissocT i k =>
      match T i with
      | SBad => pure xbad
      | STrans a (SCMap m false) => (XExact (RTrans a), sset_cell h a (SCMap (al_del k m) false))
      | STrans _ (SCMap _ true) => pure XAny
      | _ => pure XErr
      end
  | ODisjT i x =>
      match T i with
      | SBad => pure xbad
      | STrans a (SCSet l false) => (XExact (RTrans a), sset_cell h a (SCSet (s_del x l) false))
      | STrans _ (SCSet _ true) => pure XAny
      | _ => pure XErr
      end
  | OPopT i =>
      match T i with
      | SBad => pure xbad
      | STrans a (SCVec []) => pure XErr
      | STrans a (SCVec l) => (XExact (RTrans a), sset_cell h a (SCVec (removelast l)))
      | _ => pure XErr
      end
  | OEq i j =>
      pure match T i, T j with
           | SBad, _ | _, SBad => xbad
           | SNil, SNil => XExact (RBool true)
           | SColl c1 _, SColl c2 _ => XExact (RBool (coll_equal c1 c2))
           | STrans a1 _, STrans a2 _ => XExact (RBool (Nat.eqb a1 a2))
           | _, _ => XExact (RBool false)
           end
  end.

(** ** a whole history: [obs] are the observed results, one per operation.
    Returns the specification's final heap when every result is acceptable. *)
Fixpoint srun (ops : list op) (pre rest : list sres) (h : list scell) : option (list scell) :=
  match ops, rest with
  | [], [] => Some h
  | o :: ops', r :: rest' =>
      let (x, h') := sstep pre h o in
      if accept x r then srun ops' (pre ++ [r]) rest' h' else None
  | _, _ => None
  end.

Definition legal (ops : list op) (obs : list sres) : bool :=
  match srun ops [] obs [] with Some _ => true | None => false end.

(** the final contents of the transients (observed through persistent!) against the final heap *)
Definition cells_ok (h : list scell) (obs : list coll) : bool :=
  (Nat.eqb (length h) (length obs)) &&
  forallb (fun p => coll_equiv (cell_coll (fst p)) (snd p)) (combine h obs).
