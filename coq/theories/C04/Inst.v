(** C04 -- the list instance: the executable model meets the specification on every guarded
    history; concrete witnesses where the current code does not (kernel-checked by vm_compute). *)
From Coq Require Import List Bool ZArith NArith Lia Permutation.
Import ListNotations.
From Verif Require Import Common.ListX C04.Val C04.Lib C04.Model C04.Spec C04.Abs C04.Corr C04.Wrappers C04.Sim C04.Proofs.

Theorem model_meets_spec ops :
  indices_nonneg ListLibs ops = true -> meta_args_nonnil ListLibs ops = true ->
  spec_ok (CHist ops) (model (CHist ops)) = true.
Proof.
  intros G1 G2. destruct (history_refines_partial ListLibs ops G1 G2) as (h & S & C).
  unfold spec_ok, model. rewrite S, C. reflexivity.
Qed.

Lemma tag_zero_iff ops :
  tag (CHist ops) = 0%N <-> indices_nonneg ListLibs ops = true /\ meta_args_nonnil ListLibs ops = true.
Proof.
  unfold tag. destruct (indices_nonneg ListLibs ops), (meta_args_nonnil ListLibs ops); simpl; split;
    try (intros [? ?]); try discriminate; auto.
Qed.

(** ** F-04a: a negative index reaches pyrsistent *)
Definition v123 : op := ONew KVec [i_ 1; i_ 2; i_ 3].
Definition neg_witnesses : list (list op) :=
  [ [v123; OGet 0 (i_ (-1)) None];                        (* (get [1 2 3] -1)      => 3, not nil *)
    [v123; ONth 0 (i_ (-1)) (Some (k_ 9))];               (* (nth [1 2 3] -1 :nf)  => 3, not :nf *)
    [v123; ONth 0 (i_ (-1)) None];                        (* (nth [1 2 3] -1)      => 3, not an error *)
    [v123; OAssoc 0 (i_ (-1)) (k_ 1)];                    (* (assoc [1 2 3] -1 :x) => [1 2 :x], not an error *)
    [v123; OUpdate 0 (i_ (-3))];                          (* (update [1 2 3] -3 f) => [[:u 1] 2 3] *)
    [v123; OTransient 0; OAssocT 1 (i_ (-1)) (k_ 1)];     (* (assoc! t -1 :x) *)
    [v123; OTransient 0; OGet 1 (i_ (-2)) None] ].        (* (get t -2)            => 2 *)

Definition fails (ops : list op) : bool := negb (spec_ok (CHist ops) (model (CHist ops))).

Theorem negative_index_refuted :
  forallb (fun ops => fails ops && negb (indices_nonneg ListLibs ops) && meta_args_nonnil ListLibs ops) neg_witnesses = true.
Proof. vm_compute. reflexivity. Qed.

(** what the model computes on the first witness, and that contains? disagrees with get *)
Example negative_index_values :
  model (CHist [v123; OGet 0 (i_ (-1)) None; OContains 0 (i_ (-1)); OAssoc 0 (i_ (-1)) (k_ 1)]) =
  OOut [RColl (CVec [i_ 1; i_ 2; i_ 3]) None; RVal (i_ 3); RBool false; RColl (CVec [i_ 1; i_ 2; k_ 1]) None]
       true [].
Proof. vm_compute. reflexivity. Qed.

(** ** F-04b: (with-meta c nil) keeps the old metadata *)
Definition meta_witness : list op :=
  [ONew KVec [i_ 1]; OWithMeta 0 (Some 1%N); OWithMeta 1 None; OMeta 2].

Theorem with_meta_nil_refuted :
  fails meta_witness && negb (meta_args_nonnil ListLibs meta_witness) && indices_nonneg ListLibs meta_witness = true.
Proof. vm_compute. reflexivity. Qed.

Example with_meta_nil_values :
  model (CHist meta_witness) =
  OOut [RColl (CVec [i_ 1]) None; RColl (CVec [i_ 1]) (Some 1%N); RColl (CVec [i_ 1]) (Some 1%N); RNum 1]
       true [].
Proof. vm_compute. reflexivity. Qed.

(** ** the guards are met by a history that uses every kind, transients, aliasing, a
    transient after persistent!, hash-colliding keys and metadata *)
Definition sample : list op :=
  [ ONew KVec [i_ 1; f_ 1; o_ 0];          (* 0 *)
    OConj 0 [k_ 1; n_];                     (* 1 *)
    OTransient 1;                           (* 2 *)
    OConjT 2 (i_ 7);                        (* 3: same transient *)
    OAssocT 3 (i_ 0) (b_ false);            (* 4 *)
    OPersistent 2;                          (* 5 *)
    OConjT 2 (i_ 8);                        (* 6: after persistent! *)
    OPersistent 6;                          (* 7 *)
    ONewMap [(i_ 1, k_ 1); (o_ 0, k_ 2)];   (* 8 *)
    OAssoc 8 (f_ 1) n_;                     (* 9: 1.0 is the key 1 *)
    OWithMeta 9 (Some 5%N);                 (* 10 *)
    ODissoc 10 (o_ 0);                      (* 11 *)
    OMerge 8 11;                            (* 12 *)
    OTransient 12;                          (* 13 *)
    OAssocT 13 (k_ 3) (i_ 3);               (* 14 *)
    OPersistent 13;                         (* 15 *)
    OAssocT 13 (k_ 4) (i_ 4);               (* 16: ValueError *)
    ONew KSet [i_ 1; f_ 1; o_ 0];           (* 17 *)
    ODisj 17 (f_ 1);                        (* 18 *)
    OInto 17 1;                             (* 19 *)
    ONew KList [i_ 1; i_ 2];                (* 20 *)
    OPop 20; OPop 21; OConj 22 [i_ 3];      (* 21 22 23 *)
    ONew KQueue [i_ 1; i_ 2];               (* 24 *)
    OPop 24; OPeek 25; OInto 25 0;          (* 25 26 27 *)
    ONil; OConj 28 [i_ 1]; OAssoc 28 (i_ 1) (i_ 2); OUpdate 0 (i_ 3); ONth 5 (i_ 0) None; OGet 17 (f_ 1) None;
    OEq 1 5; OEq 10 9; OMeta 10; OMeta 11; OSeq 7; ORseq 7; OCount 13; OContains 13 (k_ 3); OEmpty 10 ].

Example guards_nonvacuous :
  indices_nonneg ListLibs sample = true /\ meta_args_nonnil ListLibs sample = true /\
  spec_ok (CHist sample) (model (CHist sample)) = true.
Proof. vm_compute. auto. Qed.

(** the hypotheses bundled in [Libs] are satisfiable *)
Theorem libs_satisfiable : inhabited Libs.
Proof. exact (inhabits ListLibs). Qed.

(** ** variadic calls (C04/Variadic.v): the n-ary call is the left fold of the unary step *)
Lemma new_slots_length (L : Libs) ops : forall st, length (new_slots L st ops) = length ops.
Proof. induction ops as [|o r IH]; intro st; simpl; [reflexivity|]. rewrite IH. reflexivity. Qed.

Lemma model_obs_length ops : length (model_obs ops) = length ops.
Proof.
  unfold model_obs, abs_slots, irun. rewrite map_length, slots_irun_from, app_length, new_slots_length.
  reflexivity.
Qed.

(** running a group [chain] after a history [pre] IS folding the unary step over it from the
    state [pre] leaves: its slots are the successive results of [step], its heap the fold's *)
Theorem variadic_is_fold (L : Libs) pre chain :
  slots (irun L (pre ++ chain)) = slots (irun L pre) ++ new_slots L (irun L pre) chain /\
  heap (irun L (pre ++ chain)) = heap (fold_left (istep L) chain (irun L pre)).
Proof. rewrite irun_app. split; [apply slots_irun_from|reflexivity]. Qed.

(** after an exception nothing happens: a unary step of a group applied to the slot of an
    exception returns EBadRef and leaves the heap alone *)
Lemma target_err (L : Libs) (st : ist L) i cls :
  nth_error (slots st) i = Some (RErr cls) -> target L st i = TBad L.
Proof. unfold target. intros ->. reflexivity. Qed.

Theorem variadic_error_stops (L : Libs) (st : ist L) o i cls :
  chain_op o = Some i -> nth_error (slots st) i = Some (RErr cls) ->
  step L st o = (RErr EBadRef, heap st).
Proof.
  intros HC HE. apply (target_err L) in HE.
  destruct o; simpl in HC; try discriminate; injection HC as <-; unfold step; rewrite HE; reflexivity.
Qed.

(** what the call returns: the last result when no step raises, else the first exception *)
Lemma variadic_result (g : list sres) (x : sres) (cls : N) (r : list sres) :
  forallb (fun r => negb (is_err r)) g = true ->
  vresult (g ++ [x]) = x /\ vresult (g ++ RErr cls :: r) = RErr cls.
Proof. intro H. split; [apply vresult_last|apply vresult_first_error]; exact H. Qed.

(** hence the correspondence's verdict on a history with variadic calls is covered by the
    refinement theorem: under the two guards the model's visible results are accepted *)
Theorem variadic_model_meets_spec gs ops :
  list_sum gs = length ops ->
  indices_nonneg ListLibs ops = true -> meta_args_nonnil ListLibs ops = true ->
  spec_ok (CHistV gs ops) (model (CHistV gs ops)) = true.
Proof.
  intros HS G1 G2. pose proof (model_meets_spec ops G1 G2) as M.
  unfold spec_ok, model in *. cbv zeta in *. fold (model_obs ops) in *.
  rewrite fill_project by (rewrite model_obs_length; exact HS).
  apply andb_true_iff; split; [apply andb_true_iff; split|exact M]; apply Nat.eqb_eq;
    [exact HS|symmetry; apply project_length].
Qed.

(** a history without variadic calls: the grouped form says the same as the plain one *)
Lemma variadic_conservative ops :
  model (CHistV (map (fun _ => 1) (model_obs ops)) ops) = model (CHist ops).
Proof. unfold model. cbv zeta. f_equal. apply (@project_ones coll (model_obs ops)). Qed.

(** (disj #{:k1} :k2 :k1) = #{} -- an absent element first; (dissoc {:k1 1} :k2 :k1) = {};
    (assoc [] 0 :k1 1 :k2) = [:k1 :k2]; (assoc! (transient [7]) 0 :k1 5 :k2) raises and has set slot 0 *)
Example variadic_values :
  model (CHistV [1; 2; 1; 2; 1; 2; 1; 1; 2; 1]
    [ONew KSet [k_ 1]; ODisj 0 (k_ 2); ODisj 1 (k_ 1);
     ONewMap [(k_ 1, i_ 1)]; ODissoc 3 (k_ 2); ODissoc 4 (k_ 1);
     ONew KVec []; OAssoc 6 (i_ 0) (k_ 1); OAssoc 7 (i_ 1) (k_ 2);
     ONew KVec [i_ 7]; OTransient 9; OAssocT 10 (i_ 0) (k_ 1); OAssocT 11 (i_ 5) (k_ 2); OGet 10 (i_ 0) None]) =
  OOut [RColl (CSet [k_ 1]) None; RColl (CSet []) None; RColl (CMap [(k_ 1, i_ 1)]) None; RColl (CMap []) None;
        RColl (CVec []) None; RColl (CVec [k_ 1; k_ 2]) None; RColl (CVec [i_ 7]) None; RTrans 0;
        RErr EIndex; RVal (k_ 1)] true [CVec [k_ 1]].
Proof. vm_compute. reflexivity. Qed.
