(** C04 -- the list instance: the executable model meets the specification on every guarded
    history; concrete witnesses where the current code does not (kernel-checked by vm_compute). *)
From Coq Require Import List Bool ZArith NArith Lia Permutation.
Import ListNotations.
From Verif Require Import Common.ListX C04.Val C04.Lib C04.Model C04.Spec C04.Abs C04.Corr C04.Wrappers C04.Sim C04.Proofs.

Theorem model_meets_spec ops :
  indices_nonneg ListLibs ops = true -> meta_args_nonnil ListLibs ops = true ->
  spec_ok (CHist ops) (model (CHist ops)) = true.
Proof.
  intros G1 G2. destruct (history_refines_partial ListLibs ops G1 G2) as (h & S & C).
  unfold spec_ok, model. rewrite S, C. reflexivity.
Qed.

Lemma tag_zero_iff ops :
  tag (CHist ops) = 0%N <-> indices_nonneg ListLibs ops = true /\ meta_args_nonnil ListLibs ops = true.
Proof.
  unfold tag. destruct (indices_nonneg ListLibs ops), (meta_args_nonnil ListLibs ops); simpl; split;
    try (intros [? ?]); try discriminate; auto.
Qed.

(** ** F-04a: a negative index reaches pyrsistent *)
Definition v123 : op := ONew KVec [i_ 1; i_ 2; i_ 3].
Definition neg_witnesses : list (list op) :=
  [ [v123; OGet 0 (i_ (-1)) None];                        (* (get [1 2 3] -1)      => 3, not nil *)
    [v123; ONth 0 (i_ (-1)) (Some (k_ 9))];               (* (nth [1 2 3] -1 :nf)  => 3, not :nf *)
    [v123; ONth 0 (i_ (-1)) None];                        (* (nth [1 2 3] -1)      => 3, not an error *)
    [v123; OAssoc 0 (i_ (-1)) (k_ 1)];                    (* (assoc [1 2 3] -1 :x) => [1 2 :x], not an error *)
    [v123; OUpdate 0 (i_ (-3))];                          (* (update [1 2 3] -3 f) => [[:u 1] 2 3] *)
    [v123; OTransient 0; OAssocT 1 (i_ (-1)) (k_ 1)];     (* (assoc! t -1 :x) *)
    [v123; OTransient 0; OGet 1 (i_ (-2)) None] ].        (* (get t -2)            => 2 *)

Definition fails (ops : list op) : bool := negb (spec_ok (CHist ops) (model (CHist ops))).

Theorem negative_index_refuted :
  forallb (fun ops => fails ops && negb (indices_nonneg ListLibs ops) && meta_args_nonnil ListLibs ops) neg_witnesses = true.
Proof. vm_compute. reflexivity. Qed.

(** what the model computes on the first witness, and that contains? disagrees with get *)
Example negative_index_values :
  model (CHist [v123; OGet 0 (i_ (-1)) None; OContains 0 (i_ (-1)); OAssoc 0 (i_ (-1)) (k_ 1)]) =
  OOut [RColl (CVec [i_ 1; i_ 2; i_ 3]) None; RVal (i_ 3); RBool false; RColl (CVec [i_ 1; i_ 2; k_ 1]) None]
       true [].
Proof. vm_compute. reflexivity. Qed.

(** ** F-04b: (with-meta c nil) keeps the old metadata *)
Definition meta_witness : list op :=
  [ONew KVec [i_ 1]; OWithMeta 0 (Some 1%N); OWithMeta 1 None; OMeta 2].

Theorem with_meta_nil_refuted :
  fails meta_witness && negb (meta_args_nonnil ListLibs meta_witness) && indices_nonneg ListLibs meta_witness = true.
Proof. vm_compute. reflexivity. Qed.

Example with_meta_nil_values :
  model (CHist meta_witness) =
  OOut [RColl (CVec [i_ 1]) None; RColl (CVec [i_ 1]) (Some 1%N); RColl (CVec [i_ 1]) (Some 1%N); RNum 1]
       true [].
Proof. vm_compute. reflexivity. Qed.

(** ** the guards are met by a history that uses every kind, transients, aliasing, a
    transient after persistent!, hash-colliding keys and metadata *)
Definition sample : list op :=
  [ ONew KVec [i_ 1; f_ 1; o_ 0];          (* 0 *)
    OConj 0 [k_ 1; n_];                     (* 1 *)
    OTransient 1;                           (* 2 *)
    OConjT 2 (i_ 7);                        (* 3: same transient *)
    OAssocT 3 (i_ 0) (b_ false);            (* 4 *)
    OPersistent 2;                          (* 5 *)
    OConjT 2 (i_ 8);                        (* 6: after persistent! *)
    OPersistent 6;                          (* 7 *)
    ONewMap [(i_ 1, k_ 1); (o_ 0, k_ 2)];   (* 8 *)
    OAssoc 8 (f_ 1) n_;                     (* 9: 1.0 is the key 1 *)
    OWithMeta 9 (Some 5%N);                 (* 10 *)
    ODissoc 10 (o_ 0);                      (* 11 *)
    OMerge 8 11;                            (* 12 *)
    OTransient 12;                          (* 13 *)
    OAssocT 13 (k_ 3) (i_ 3);               (* 14 *)
    OPersistent 13;                         (* 15 *)
    OAssocT 13 (k_ 4) (i_ 4);               (* 16: ValueError *)
    ONew KSet [i_ 1; f_ 1; o_ 0];           (* 17 *)
    ODisj 17 (f_ 1);                        (* 18 *)
    OInto 17 1;                             (* 19 *)
    ONew KList [i_ 1; i_ 2];                (* 20 *)
    OPop 20; OPop 21; OConj 22 [i_ 3];      (* 21 22 23 *)
    ONew KQueue [i_ 1; i_ 2];               (* 24 *)
    OPop 24; OPeek 25; OInto 25 0;          (* 25 26 27 *)
    ONil; OConj 28 [i_ 1]; OAssoc 28 (i_ 1) (i_ 2); OUpdate 0 (i_ 3); ONth 5 (i_ 0) None; OGet 17 (f_ 1) None;
    OEq 1 5; OEq 10 9; OMeta 10; OMeta 11; OSeq 7; ORseq 7; OCount 13; OContains 13 (k_ 3); OEmpty 10 ].

Example guards_nonvacuous :
  indices_nonneg ListLibs sample = true /\ meta_args_nonnil ListLibs sample = true /\
  spec_ok (CHist sample) (model (CHist sample)) = true.
Proof. vm_compute. auto. Qed.

(** the hypotheses bundled in [Libs] are satisfiable *)
Theorem libs_satisfiable : inhabited Libs.
Proof. exact (inhabits ListLibs). Qed.
