(** C04 -- executable model of the WRAPPER LAYER as it is in /repo:
    basilisp.lang.vector / list / queue / map / set (persistent wrappers and transients),
    the single-dispatch functions of basilisp.lang.runtime (conj assoc update get nth
    contains count) and the collection functions of basilisp.core (conj assoc dissoc disj
    pop peek into empty update merge with-meta meta seq rseq transient persistent! conj!
    assoc! dissoc! disj! pop! =), over the abstract libraries [L : Libs].

    Persistent wrappers are pure values (inner library object + metadata); the wrappers
    use __slots__ and assign _inner/_meta only in __init__ (checked on the source by the
    translator item [coll_wrappers_shape]).  Transients are cells of an explicit heap; a
    transient value is the address of its cell, so `conj!` returning `self` aliases.

    Quirks are modelled as they are (each is named where it occurs):
      Q1  negative indices reach pyrsistent unguarded in val_at / nth / assoc / assoc! (F-04a)
      Q2  (with-meta o nil) returns o itself (F-04b)
      Q3  PersistentVector.pop is a slice and drops the metadata; list pop too; merge and
          persistent! return values without metadata (into restores the metadata of `to`)
      Q4  bool is an int for vector indices; (nth list 1.0) compares with ==
      Q5  a vector transient stays usable after persistent!; a map/set transient raises
          ValueError on writes (but (conj! t nil) is a no-op), reads keep working
      Q6  (get set k) returns k itself, not the stored element
      Q7  nth is not supported on queues; (into t []) on a transient returns the transient
    A history is a list of operations, each naming the earlier results it uses by position. *)
From Coq Require Import List Bool ZArith NArith Lia.
Import ListNotations.
From Verif Require Import C04.Val C04.Lib.
From Verif Require Export C04.Syntax.

Section Model.
  Variable L : Libs.

  Inductive icoll :=
  | IVec (p : pvec L)
  | IList (p : plist L)
  | IQueue (p : pdeque L)
  | IMap (p : pmap L)
  | ISet (p : pmap L).          (* keys are the members; values repeat them *)

  Inductive icell :=
  | ICVec (e : pev L)
  | ICMap (mm : pmut L)
  | ICSet (mm : pmut L).

  Definition ires := res icoll.
  Record ist := { slots : list ires; heap : list icell }.

  (** *** basilisp.lang.vector.PersistentVector *)
  Definition vec_cons (p : pvec L) (xs : list elem) : pvec L :=
    fst (ev_persistent L (fold_left (ev_append L) xs (pv_evolver L p))).
  Definition vec_with_meta (p : pvec L) : pvec L := pv_of L (pv_list L p).      (* vector(self._inner, meta) *)
  Definition vec_assoc (p : pvec L) (m : option N) (k v : elem) : ires :=       (* Q1, Q4 *)
    match key_int k with
    | Some z => match pv_mset L p z v with
                | Some p' => RColl (IVec p') m
                | None => RErr EIndex
                end
    | None => RErr EType
    end.
  Definition vec_contains (p : pvec L) (k : elem) : bool :=
    match key_int k with
    | Some z => (0 <=? z)%Z && (z <? pv_len L p)%Z
    | None => false
    end.
  Definition vec_val_at (p : pvec L) (k : elem) (d : elem) : elem :=            (* Q1; IndexError, TypeError -> default *)
    match key_int k with
    | Some z => opt_or (pv_get L p z) d
    | None => d
    end.
  Definition vec_nth (p : pvec L) (k : elem) (nf : option elem) : ires :=       (* Q1; only IndexError is caught *)
    match key_int k with
    | Some z => match pv_get L p z, nf with
                | Some e, _ => RVal e
                | None, Some d => RVal d
                | None, None => RErr EIndex
                end
    | None => RErr EType
    end.
  Definition vec_peek (p : pvec L) : ires :=
    if (pv_len L p =? 0)%Z then RVal enil
    else match pv_get L p (-1) with Some e => RVal e | None => RErr EIndex end.
  Definition vec_pop (p : pvec L) : ires :=                                     (* Q3: self[:-1] has no meta *)
    if (pv_len L p =? 0)%Z then RErr EIndex else RColl (IVec (pv_init L p)) None.

  (** *** TransientVector (cell holds the evolver) *)
  Definition tvec_assoc (e : pev L) (k v : elem) : pev L + N :=                 (* Q1, Q4 *)
    match key_int k with
    | Some z => match ev_set L e z v with Some e' => inl e' | None => inr EIndex end
    | None => inr EType
    end.
  Definition tvec_val_at (e : pev L) (k : elem) (d : elem) : ires :=            (* only IndexError is caught *)
    match key_int k with
    | Some z => RVal (opt_or (ev_get L e z) d)
    | None => RErr EType
    end.
  Definition tvec_nth (e : pev L) (k : elem) (nf : option elem) : ires :=
    match key_int k with
    | Some z => match ev_get L e z, nf with
                | Some x, _ => RVal x
                | None, Some d => RVal d
                | None, None => RErr EIndex
                end
    | None => RErr EType
    end.
  Definition tvec_contains (e : pev L) (k : elem) : ires :=                     (* 0 <= k < len, any number *)
    match key_num k with
    | Some z => RBool ((0 <=? z)%Z && (z <? ev_len L e)%Z)
    | None => RErr EType
    end.

  (** *** PersistentMap / TransientMap *)
  Definition finish (mm : pmut L) : pmap L := fst (mm_finish L mm).
  Definition map_assoc (p : pmap L) (k v : elem) : option (pmap L) :=
    match mm_set L (m_mutate L p) k v with Some mm => Some (finish mm) | None => None end.
  Definition mut_dissoc (mm : pmut L) (k : elem) : option (pmut L) :=           (* None = ValueError *)
    match mm_del L mm k with
    | DelOk mm' => Some mm'
    | DelKeyError => Some mm
    | DelFinished => None
    end.
  Definition map_dissoc (p : pmap L) (k : elem) : option (pmap L) :=
    match mut_dissoc (m_mutate L p) k with Some mm => Some (finish mm) | None => None end.
  (** one element of a map conj: nil is skipped, a 2-vector is an entry, anything else raises *)
  Definition mut_conj1 (mm : pmut L) (x : elem) : option (pmut L) :=
    match x with
    | EA ANil => Some mm
    | EV [k; v] => mm_set L mm k v
    | _ => None
    end.
  Fixpoint mut_conj (mm : pmut L) (xs : list elem) : option (pmut L) :=
    match xs with
    | [] => Some mm
    | x :: r => match mut_conj1 mm x with Some mm' => mut_conj mm' r | None => None end
    end.
  Definition map_cons (p : pmap L) (xs : list elem) : option (pmap L) :=
    match mut_conj (m_mutate L p) xs with Some mm => Some (finish mm) | None => None end.
  Definition map_of_kvs (kvs : al) : option (pmap L) :=                         (* lmap.from_entries *)
    match fold_left (fun acc kv => match acc with Some mm => mm_set L mm (fst kv) (snd kv) | None => None end)
                    kvs (Some (m_mutate L (m_empty L))) with
    | Some mm => Some (finish mm)
    | None => None
    end.
  Definition has_key (o : option elem) : bool := match o with Some _ => true | None => false end.

  (** *** PersistentSet / TransientSet *)
  Fixpoint mut_add (mm : pmut L) (xs : list elem) : option (pmut L) :=
    match xs with
    | [] => Some mm
    | x :: r => match mm_set L mm x x with Some mm' => mut_add mm' r | None => None end
    end.
  Definition set_cons (p : pmap L) (xs : list elem) : option (pmap L) :=
    match mut_add (m_mutate L p) xs with Some mm => Some (finish mm) | None => None end.
  Definition set_keys (p : pmap L) : list elem := map fst (m_items L p).
  Definition set_of (l : list elem) : pmap L := m_of L (map (fun x => (x, x)) l).   (* from_iterable *)
  Definition set_with_meta (p : pmap L) : pmap L := set_of (set_keys p).

  (** *** PersistentList / PersistentQueue *)
  Definition list_cons (p : plist L) (xs : list elem) : plist L := fold_left (pl_cons L) xs p.
  Definition list_nth (p : plist L) (k : elem) (nf : option elem) : ires :=     (* _nth_iseq: i == j; Q4 *)
    let found := match key_num k with
                 | Some z => if (0 <=? z)%Z then nth_error (pl_list L p) (Z.to_nat z) else None
                 | None => None
                 end in
    match found, nf with
    | Some e, _ => RVal e
    | None, Some d => RVal d
    | None, None => RErr EIndex
    end.

  (** *** common views *)
  Definition items_of (c : icoll) : list elem :=                                (* iteration / reduce order *)
    match c with
    | IVec p => pv_list L p
    | IList p => pl_list L p
    | IQueue p => dq_list L p
    | IMap p => map entry (m_items L p)
    | ISet p => set_keys p
    end.
  Definition ordered (c : icoll) : bool := match c with IMap _ | ISet _ => false | _ => true end.
  Definition coll_len (c : icoll) : Z :=
    match c with
    | IVec p => pv_len L p
    | IList p => pl_len L p
    | IQueue p => dq_len L p
    | IMap p | ISet p => m_len L p
    end.
  Definition coll_empty (c : icoll) : icoll :=                                  (* EMPTY.with_meta(meta) *)
    match c with
    | IVec _ => IVec (vec_with_meta (pv_of L []))
    | IList _ => IList (pl_of L (pl_list L (pl_of L [])))
    | IQueue _ => IQueue (dq_of L (dq_list L (dq_of L [])))
    | IMap _ => IMap (m_empty L)
    | ISet _ => ISet (set_with_meta (set_of []))
    end.
  Definition coll_with_meta (c : icoll) : icoll :=
    match c with
    | IVec p => IVec (vec_with_meta p)
    | IList p => IList (pl_of L (pl_list L p))
    | IQueue p => IQueue (dq_of L (dq_list L p))
    | IMap p => IMap p
    | ISet p => ISet (set_with_meta p)
    end.

  (** coll.cons(xs...): runtime.conj on an IPersistentCollection *)
  Definition coll_cons (c : icoll) (m : option N) (xs : list elem) : ires :=
    match c with
    | IVec p => RColl (IVec (vec_cons p xs)) m
    | IList p => RColl (IList (list_cons p xs)) m
    | IQueue p => RColl (IQueue (dq_extend L p xs)) m
    | IMap p => match map_cons p xs with Some p' => RColl (IMap p') m | None => RErr EValue end
    | ISet p => match set_cons p xs with Some p' => RColl (ISet p') m | None => RErr EValue end
    end.
  Definition conj_nil (xs : list elem) : ires := RColl (IList (list_cons (pl_of L []) xs)) None.

  (** *** operands *)
  Inductive tgt :=
  | TNil
  | TColl (c : icoll) (m : option N)
  | TTrans (a : nat) (cell : icell)
  | TBad.

  Definition target (st : ist) (i : nat) : tgt :=
    match nth_error (slots st) i with
    | Some (RVal (EA ANil)) => TNil
    | Some (RColl c m) => TColl c m
    | Some (RTrans a) => match nth_error (heap st) a with Some cell => TTrans a cell | None => TBad end
    | _ => TBad
    end.

  Fixpoint set_cell (h : list icell) (a : nat) (c : icell) : list icell :=
    match h, a with
    | [], _ => []
    | _ :: r, O => c :: r
    | x :: r, S a' => x :: set_cell r a' c
    end.

  (** *** equality (basilisp.core/=) on operands *)
  Definition seq_class (c : icoll) : bool := match c with IVec _ | IList _ | IQueue _ => true | _ => false end.
  Definition coll_eq (a b : icoll) : bool :=
    match a, b with
    | IMap p, IMap q => (m_len L p =? m_len L q)%Z && m_eq L p q
    | ISet p, ISet q => (m_len L p =? m_len L q)%Z && forallb (fun x => has_key (m_get L q x)) (set_keys p)
    | _, _ => seq_class a && seq_class b && list_keq (items_of a) (items_of b)
    end.
  Definition coll_hash (c : icoll) : Z :=
    match c with
    | IVec p => pv_hash L p
    | IList p => pl_hash L p
    | IQueue p => dq_hash L p
    | IMap p => m_hash L p
    | ISet p => keys_hash L (set_keys p)                                       (* self._hash() *)
    end.
  Definition tgt_eq (a b : tgt) : ires :=
    match a, b with
    | TBad, _ | _, TBad => RErr EBadRef
    | TNil, TNil => RBool true
    | TColl c1 _, TColl c2 _ => RBool (coll_eq c1 c2)
    | TTrans a1 _, TTrans a2 _ => RBool (Nat.eqb a1 a2)
    | _, _ => RBool false
    end.

  (** (with-meta c m) applied to a value without metadata: nil leaves it alone (Q2, harmless here) *)
  Definition remeta (c : icoll) (m : option N) : ires :=
    match m with None => RColl c None | Some _ => RColl (coll_with_meta c) m end.

  (** *** (into to from): (reduce conj! (transient to) from) / (reduce conj to from) *)
  Definition into_items (from : tgt) : option (list elem) :=                    (* None: TypeError (cannot be reduced) *)
    match from with
    | TNil => Some []
    | TColl c _ => Some (items_of c)
    | _ => None
    end.
  Definition op_into (to from : tgt) : ires :=
    match to, from with
    | TBad, _ | _, TBad => RErr EBadRef
    | _, TTrans _ _ => RErr EType
    | TTrans a _, _ => match into_items from with
                       | Some [] => RTrans a                                    (* Q7 *)
                       | _ => RErr EType
                       end
    | TNil, _ => match into_items from with
                 | Some [] => RVal enil
                 | Some xs => conj_nil xs
                 | None => RErr EType
                 end
    | TColl c m, _ =>
        match into_items from with
        | None => RErr EType
        | Some xs =>
            match c with
            (* evolveable: (with-meta (persistent! (reduce conj! (transient to) from)) (meta to)) *)
            | IVec p => remeta (IVec (fst (ev_persistent L (fold_left (ev_append L) xs (pv_evolver L p))))) m
            | IMap p => match map_cons p xs with Some p' => remeta (IMap p') m | None => RErr EValue end
            | ISet p => match set_cons p xs with Some p' => remeta (ISet p') m | None => RErr EValue end
            | IList p => RColl (IList (list_cons p xs)) m                       (* reduce conj *)
            | IQueue p => RColl (IQueue (fold_left (fun q x => dq_extend L q [x]) xs p)) m
            end
        end
    end.

  (** *** (merge a b): (when (some identity maps) (persistent! (reduce* #(conj! (or %1 {}) %2) (transient {}) maps))) *)
  Definition merge_arg (mm : pmut L) (x : tgt) : option (pmut L) :=             (* TransientMap.cons_transient(x) *)
    match x with
    | TNil => Some mm
    | TColl (IMap p) _ => fold_left (fun acc kv => match acc with Some mm => mm_set L mm (fst kv) (snd kv) | None => None end)
                                    (m_items L p) (Some mm)
    | TColl c _ => match items_of c with                                        (* MapEntry.from_vec: any sized iterable of 2 *)
                   | [k; v] => mm_set L mm k v
                   | _ => None
                   end
    | _ => None
    end.
  Definition op_merge (a b : tgt) : ires :=
    match a, b with
    | TBad, _ | _, TBad => RErr EBadRef
    | TNil, TNil => RVal enil
    | _, _ => match merge_arg (m_mutate L (m_empty L)) a with
              | Some mm => match merge_arg mm b with
                           | Some mm' => RColl (IMap (finish mm')) None         (* Q3 *)
                           | None => RErr EValue
                           end
              | None => RErr EValue
              end
    end.

  Definition seq_res (ord : bool) (l : list elem) : ires :=
    match l with [] => RVal enil | _ => RSeq ord l end.

  (** *** one step: the result and the heap afterwards *)
  Definition step (st : ist) (o : op) : ires * list icell :=
    let h := heap st in
    let pure (r : ires) := (r, h) in
    match o with
    | ONil => pure (RVal enil)
    | ONew KVec l => pure (RColl (IVec (pv_of L l)) None)
    | ONew KList l => pure (RColl (IList (pl_of L l)) None)
    | ONew KQueue l => pure (RColl (IQueue (dq_of L l)) None)
    | ONew KSet l => pure (RColl (ISet (set_of l)) None)
    | ONewMap kvs => pure (match map_of_kvs kvs with Some p => RColl (IMap p) None | None => RErr EValue end)
    | OConj i xs =>
        pure match target st i, xs with
             | TBad, _ => RErr EBadRef
             | TNil, [] => RVal enil
             | TColl c m, [] => RColl c m                                      (* (conj c) is c *)
             | TTrans a _, [] => RTrans a
             | TNil, _ => conj_nil xs
             | TColl c m, _ => coll_cons c m xs
             | TTrans _ _, _ => RErr EType
             end
    | OAssoc i k v =>
        pure match target st i with
             | TBad => RErr EBadRef
             | TNil => match map_assoc (m_empty L) k v with Some p => RColl (IMap p) None | None => RErr EValue end
             | TColl (IVec p) m => vec_assoc p m k v
             | TColl (IMap p) m => match map_assoc p k v with Some p' => RColl (IMap p') m | None => RErr EValue end
             | _ => RErr EType
             end
    | ODissoc i k =>
        pure match target st i with
             | TBad => RErr EBadRef
             | TNil => RVal enil
             | TColl (IMap p) m => match map_dissoc p k with Some p' => RColl (IMap p') m | None => RErr EValue end
             | _ => RErr EAttr
             end
    | ODisj i x =>
        pure match target st i with
             | TBad => RErr EBadRef
             | TNil => RVal enil
             | TColl (ISet p) m => match map_dissoc p x with Some p' => RColl (ISet p') m | None => RErr EValue end
             | _ => RErr EAttr
             end
    | OPop i =>
        pure match target st i with
             | TBad => RErr EBadRef
             | TNil => RVal enil
             | TColl (IVec p) _ => vec_pop p
             | TColl (IList p) _ => if pl_is_empty L p then RErr EIndex else RColl (IList (pl_rest L p)) None
             | TColl (IQueue p) m => if (dq_len L p =? 0)%Z then RErr EIndex else RColl (IQueue (dq_popleft L p)) m
             | _ => RErr EAttr
             end
    | OPeek i =>
        pure match target st i with
             | TBad => RErr EBadRef
             | TNil => RVal enil
             | TColl (IVec p) _ => vec_peek p
             | TColl (IList p) _ => RVal (opt_or (pl_first L p) enil)
             | TColl (IQueue p) _ => RVal (opt_or (dq_left L p) enil)
             | _ => RErr EAttr
             end
    | OInto i j => pure (op_into (target st i) (target st j))
    | OEmpty i =>
        pure match target st i with
             | TBad => RErr EBadRef
             | TColl c m => RColl (coll_empty c) m
             | _ => RVal enil                                                   (* not coll?: nil *)
             end
    | OWithMeta i None =>                                                       (* Q2: (if meta ... o) *)
        pure match target st i with
             | TBad => RErr EBadRef
             | TNil => RVal enil
             | TColl c m => RColl c m
             | TTrans a _ => RTrans a
             end
    | OWithMeta i (Some n) =>
        pure match target st i with
             | TBad => RErr EBadRef
             | TColl c _ => RColl (coll_with_meta c) (Some n)
             | _ => RErr EAttr
             end
    | OMeta i =>
        pure match target st i with
             | TBad => RErr EBadRef
             | TColl _ (Some n) => RNum (Z.of_N n)
             | _ => RVal enil
             end
    | OUpdate i k =>
        pure match target st i with
             | TBad => RErr EBadRef
             | TNil => match map_assoc (m_empty L) k (upd_fn enil) with Some p => RColl (IMap p) None | None => RErr EValue end
             | TColl (IVec p) m => vec_assoc p m k (upd_fn (vec_val_at p k enil))
             | TColl (IMap p) m => match map_assoc p k (upd_fn (opt_or (m_get L p k) enil)) with
                                   | Some p' => RColl (IMap p') m | None => RErr EValue end
             | _ => RErr EType
             end
    | OMerge i j => pure (op_merge (target st i) (target st j))
    | OSeq i =>
        pure match target st i with
             | TBad => RErr EBadRef
             | TNil => RVal enil
             | TColl c _ => if (coll_len c =? 0)%Z then RVal enil else seq_res (ordered c) (items_of c)
             | TTrans _ _ => RErr EType
             end
    | ORseq i =>
        pure match target st i with
             | TBad => RErr EBadRef
             | TColl (IVec p) _ => seq_res true (rev (pv_list L p))
             | _ => RErr EAttr
             end
    | OCount i =>
        pure match target st i with
             | TBad => RErr EBadRef
             | TNil => RNum 0
             | TColl c _ => RNum (coll_len c)
             | TTrans _ (ICVec e) => RNum (ev_len L e)
             | TTrans _ (ICMap mm) | TTrans _ (ICSet mm) => RNum (mm_len L mm)
             end
    | ONth i k nf =>
        pure match target st i with
             | TBad => RErr EBadRef
             | TNil => RVal (opt_or nf enil)
             | TColl (IVec p) _ => vec_nth p k nf
             | TColl (IList p) _ => list_nth p k nf
             | TTrans _ (ICVec e) => tvec_nth e k nf
             | _ => RErr EType                                                  (* Q7: queues too *)
             end
    | OGet i k d =>
        let dd := opt_or d enil in
        pure match target st i with
             | TBad => RErr EBadRef
             | TNil => RVal dd
             | TColl (IVec p) _ => RVal (vec_val_at p k dd)
             | TColl (IMap p) _ => RVal (opt_or (m_get L p k) dd)
             | TColl (ISet p) _ => RVal (if has_key (m_get L p k) then k else dd)       (* Q6 *)
             | TColl _ _ => RVal dd
             | TTrans _ (ICVec e) => tvec_val_at e k dd
             | TTrans _ (ICMap mm) => RVal (opt_or (mm_get L mm k) dd)
             | TTrans _ (ICSet mm) => RVal (if has_key (mm_get L mm k) then k else dd)
             end
    | OContains i k =>
        pure match target st i with
             | TBad => RErr EBadRef
             | TNil => RBool false
             | TColl (IVec p) _ => RBool (vec_contains p k)
             | TColl (IMap p) _ | TColl (ISet p) _ => RBool (has_key (m_get L p k))
             | TColl _ _ => RErr EType
             | TTrans _ (ICVec e) => tvec_contains e k
             | TTrans _ (ICMap mm) | TTrans _ (ICSet mm) => RBool (has_key (mm_get L mm k))
             end
    | OTransient i =>
        match target st i with
        | TBad => pure (RErr EBadRef)
        | TColl (IVec p) _ => (RTrans (length h), h ++ [ICVec (pv_evolver L p)])
        | TColl (IMap p) _ => (RTrans (length h), h ++ [ICMap (m_mutate L p)])
        | TColl (ISet p) _ => (RTrans (length h), h ++ [ICSet (m_mutate L p)])
        | _ => pure (RErr EInfo)
        end
    | OPersistent i =>
        match target st i with
        | TBad => pure (RErr EBadRef)
        | TTrans a (ICVec e) => (RColl (IVec (fst (ev_persistent L e))) None,      (* Q3, Q5 *)
                                 set_cell h a (ICVec (snd (ev_persistent L e))))
        | TTrans a (ICMap mm) => (RColl (IMap (finish mm)) None, set_cell h a (ICMap (snd (mm_finish L mm))))
        | TTrans a (ICSet mm) => (RColl (ISet (finish mm)) None, set_cell h a (ICSet (snd (mm_finish L mm))))
        | _ => pure (RErr EInfo)
        end
    | OConjT i x =>
        match target st i with
        | TBad => pure (RErr EBadRef)
        | TTrans a (ICVec e) => (RTrans a, set_cell h a (ICVec (ev_append L e x)))
        | TTrans a (ICMap mm) => match mut_conj1 mm x with                           (* Q5 *)
                                 | Some mm' => (RTrans a, set_cell h a (ICMap mm'))
                                 | None => pure (RErr EValue)
                                 end
        | TTrans a (ICSet mm) => match mm_set L mm x x with
                                 | Some mm' => (RTrans a, set_cell h a (ICSet mm'))
                                 | None => pure (RErr EValue)
                                 end
        | _ => pure (RErr EAttr)
        end
    | OAssocT i k v =>
        match target st i with
        | TBad => pure (RErr EBadRef)
        | TTrans a (ICVec e) => match tvec_assoc e k v with                          (* Q1 *)
                                | inl e' => (RTrans a, set_cell h a (ICVec e'))
                                | inr cls => pure (RErr cls)
                                end
        | TTrans a (ICMap mm) => match mm_set L mm k v with
                                 | Some mm' => (RTrans a, set_cell h a (ICMap mm'))
                                 | None => pure (RErr EValue)
                                 end
        | _ => pure (RErr EAttr)
        end
    | ODissocT i k =>
        match target st i with
        | TBad => pure (RErr EBadRef)
        | TTrans a (ICMap mm) => match mut_dissoc mm k with
                                 | Some mm' => (RTrans a, set_cell h a (ICMap mm'))
                                 | None => pure (RErr EValue)
                                 end
        | _ => pure (RErr EAttr)
        end
    | ODisjT i x =>
        match target st i with
        | TBad => pure (RErr EBadRef)
        | TTrans a (ICSet mm) => match mut_dissoc mm x with
                                 | Some mm' => (RTrans a, set_cell h a (ICSet mm'))
                                 | None => pure (RErr EValue)
                                 end
        | _ => pure (RErr EAttr)
        end
    | OPopT i =>
        match target st i with
        | TBad => pure (RErr EBadRef)
        | TTrans a (ICVec e) => if (ev_len L e =? 0)%Z then pure (RErr EIndex)
                                else (RTrans a, set_cell h a (ICVec (ev_del_last L e)))
        | _ => pure (RErr EAttr)
        end
    | OEq i j => pure (tgt_eq (target st i) (target st j))
    end.

  Definition istep (st : ist) (o : op) : ist :=
    let (r, h) := step st o in {| slots := slots st ++ [r]; heap := h |}.

  Definition ist0 : ist := {| slots := []; heap := [] |}.
  Definition irun_from (st : ist) (ops : list op) : ist := fold_left istep ops st.
  Definition irun (ops : list op) : ist := irun_from ist0 ops.

  (** *** hazards: the executable guards of the partial theorems *)
  Definition neg_key (k : elem) : bool :=
    match key_int k with Some z => (z <? 0)%Z | None => false end.
  Definition is_vec (t : tgt) : bool :=
    match t with TColl (IVec _) _ | TTrans _ (ICVec _) => true | _ => false end.
  (** Q1 fires: a negative integer key reaches a vector or a vector transient *)
  Definition hazard_neg (st : ist) (o : op) : bool :=
    match o with
    | OAssoc i k _ | OUpdate i k | ONth i k _ | OGet i k _ | OAssocT i k _ => is_vec (target st i) && neg_key k
    | _ => false
    end.
  (** Q2 fires: (with-meta c nil) on a collection that carries metadata *)
  Definition hazard_meta (st : ist) (o : op) : bool :=
    match o with
    | OWithMeta i None => match target st i with TColl _ (Some _) => true | _ => false end
    | _ => false
    end.

  Fixpoint guard_from (hz : ist -> op -> bool) (st : ist) (ops : list op) : bool :=
    match ops with
    | [] => true
    | o :: r => negb (hz st o) && guard_from hz (istep st o) r
    end.
  Definition indices_nonneg (ops : list op) : bool := guard_from hazard_neg ist0 ops.
  Definition meta_args_nonnil (ops : list op) : bool := guard_from hazard_meta ist0 ops.
End Model.

Arguments IVec {L} p.
Arguments IList {L} p.
Arguments IQueue {L} p.
Arguments IMap {L} p.
Arguments ISet {L} p.
Arguments ICVec {L} e.
Arguments ICMap {L} mm.
Arguments ICSet {L} mm.
Arguments slots {L} i.
Arguments heap {L} i.
