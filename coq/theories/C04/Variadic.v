(** C04 -- variadic calls: (disj s a b ..), (dissoc m k1 k2 ..), (assoc c k1 v1 k2 v2 ..),
    (conj! t a b ..), (assoc! t k1 v1 k2 v2 ..), (dissoc! t k1 k2 ..), (disj! t a b ..).

    The property prescribes (and the unchanged code computes) the n-ary call as the LEFT FOLD
    of the unary one.  The operation type stays unary; a variadic call is a GROUP of
    consecutive unary operations of a history: the first one names the operand of the call,
    every later one names the slot of the one before it (for a transient that is the same
    cell).  The group's slots are those of the fold; what the CALL returns is

       the first exception among the group's results, else the last result        [vpos]

    (a unary operation applied to the slot of an exception is a bad reference on both sides:
    it returns EBadRef and leaves the heap alone, so nothing happens after the first
    exception -- [step_bad_ref] in Inst.v).  Group sizes [gs] sum to the length of the
    history; a plain operation is a group of one.

    [project gs m]  the visible results (one per group) of the slot list [m]
    [fill gs m vis] the slot list [m] with, in every group, the call's result replaced by the
                    observed one [vis]: the hidden intermediate values are WITNESSES taken
                    from [m]; [srun] checks each of them against the unary specification
                    like any other result, so a wrong witness can only make the check fail. *)
From Coq Require Import List Bool Arith ZArith NArith Lia.
Import ListNotations.
From Verif Require Import C04.Val C04.Syntax.

Section Groups.
  Context {C : Type}.

  Definition is_err (r : res C) : bool := match r with RErr _ => true | _ => false end.

  (** position, in a group, of the result of the call *)
  Fixpoint vpos (g : list (res C)) : nat :=
    match g with
    | [] => 0
    | x :: r => match r with
                | [] => 0
                | _ => if is_err x then 0 else S (vpos r)
                end
    end.

  Fixpoint set_nth (k : nat) (v : res C) (g : list (res C)) : list (res C) :=
    match g, k with
    | [], _ => []
    | _ :: r, O => v :: r
    | x :: r, S k' => x :: set_nth k' v r
    end.

  Definition vresult (g : list (res C)) : res C := nth (vpos g) g (RErr EOther).

  Fixpoint project (gs : list nat) (m : list (res C)) : list (res C) :=
    match gs with
    | [] => []
    | n :: gs' => vresult (firstn n m) :: project gs' (skipn n m)
    end.

  Fixpoint fill (gs : list nat) (m vis : list (res C)) : list (res C) :=
    match gs, vis with
    | n :: gs', v :: vis' => set_nth (vpos (firstn n m)) v (firstn n m) ++ fill gs' (skipn n m) vis'
    | _, _ => []
    end.

  Lemma set_nth_same d : forall g k, set_nth k (nth k g d) g = g.
  Proof. induction g as [|x r IH]; intros [|k]; simpl; try reflexivity. rewrite IH. reflexivity. Qed.

  Lemma fill_project : forall gs m, list_sum gs = length m -> fill gs m (project gs m) = m.
  Proof.
    induction gs as [|n gs IH]; intros m H; simpl in *.
    - destruct m; [reflexivity|discriminate].
    - unfold vresult. rewrite set_nth_same, IH, firstn_skipn; [reflexivity|].
      rewrite skipn_length. lia.
  Qed.

  Lemma project_length : forall gs m, length (project gs m) = length gs.
  Proof. induction gs as [|n gs IH]; intro m; simpl; [reflexivity|]. rewrite IH. reflexivity. Qed.

  Lemma vpos_cons y r : r <> [] -> vpos (y :: r) = if is_err y then 0 else S (vpos r).
  Proof. destruct r; [congruence|reflexivity]. Qed.

  (** no exception in the group: the call returns what the last unary step returned *)
  Lemma vresult_last g x : forallb (fun r => negb (is_err r)) g = true -> vresult (g ++ [x]) = x.
  Proof.
    unfold vresult. induction g as [|y r IH]; simpl app; intro H; [reflexivity|].
    simpl in H. apply andb_true_iff in H as [Hy Hr]. apply negb_true_iff in Hy.
    rewrite vpos_cons by (destruct r; discriminate). rewrite Hy. simpl. apply IH. exact Hr.
  Qed.

  (** an exception at some step: the call returns the first one *)
  Lemma vresult_first_error g cls r : forallb (fun r => negb (is_err r)) g = true ->
    vresult (g ++ RErr cls :: r) = RErr cls.
  Proof.
    unfold vresult. induction g as [|y g' IH]; simpl app; intro H.
    - destruct r; reflexivity.
    - simpl in H. apply andb_true_iff in H as [Hy Hr]. apply negb_true_iff in Hy.
      rewrite vpos_cons by (destruct g'; discriminate). rewrite Hy. simpl. apply IH. exact Hr.
  Qed.

  (** singletons: a history without variadic calls is projected to itself *)
  Lemma project_ones : forall m, project (map (fun _ => 1) m) m = m.
  Proof. induction m as [|x r IH]; simpl; [reflexivity|]. unfold vresult. simpl. rewrite IH. reflexivity. Qed.
End Groups.

(** the unary operations a variadic call unfolds to, with their operand *)
Definition chain_op (o : op) : option nat :=
  match o with
  | OConj i _ | OAssoc i _ _ | ODissoc i _ | ODisj i _
  | OConjT i _ | OAssocT i _ _ | ODissocT i _ | ODisjT i _ => Some i
  | _ => None
  end.
