(** C04 -- syntax shared by the model of the code and the specification: operations of a
    history, results, exception classes, and the few value-level helpers both sides use. *)
From Coq Require Import List Bool ZArith NArith.
Import ListNotations.
From Verif Require Import C04.Val.

(** results of an operation, over the representation [C] of persistent collections *)
Inductive res (C : Type) :=
| RColl (c : C) (m : option N)         (* a persistent collection and its metadata ({:m n}) *)
| RTrans (a : nat)                     (* a transient: address of its cell *)
| RVal (e : elem)                      (* a scalar (nil included) *)
| RBool (b : bool)
| RNum (z : Z)
| RSeq (ord : bool) (l : list elem)    (* a non-empty seq; ord = false when it enumerates a map or set *)
| RErr (cls : N).                      (* an exception *)
Arguments RColl {C} c m.
Arguments RTrans {C} a.
Arguments RVal {C} e.
Arguments RBool {C} b.
Arguments RNum {C} z.
Arguments RSeq {C} ord l.
Arguments RErr {C} cls.

(** exception classes *)
Definition EBadRef : N := 0.     (* harness level: the operand is not a collection, nil or transient *)
Definition EIndex : N := 1.
Definition EType : N := 2.
Definition EValue : N := 3.
Definition EAttr : N := 4.
Definition EKey : N := 5.
Definition EInfo : N := 6.       (* basilisp ExceptionInfo *)
Definition EOther : N := 7.
Definition EHash : N := 8.       (* harness level: equal values with different hashes *)
Definition EHang : N := 9.

Inductive kind := KVec | KList | KQueue | KSet.

Inductive op :=
| ONil                                          (* the value nil *)
| ONew (k : kind) (l : list elem)               (* (vector ..) (list ..) (queue [..]) (hash-set ..) *)
| ONewMap (kvs : al)                            (* (hash-map k v ..) *)
| OConj (i : nat) (xs : list elem)              (* (conj c x ..) *)
| OAssoc (i : nat) (k v : elem)
| ODissoc (i : nat) (k : elem)
| ODisj (i : nat) (x : elem)
| OPop (i : nat)
| OPeek (i : nat)
| OInto (i j : nat)                             (* (into to from) *)
| OEmpty (i : nat)
| OWithMeta (i : nat) (m : option N)            (* (with-meta c {:m n}) / (with-meta c nil) *)
| OMeta (i : nat)
| OUpdate (i : nat) (k : elem)                  (* (update c k (fn [old] [:u old])) *)
| OMerge (i j : nat)
| OSeq (i : nat)
| ORseq (i : nat)
| OCount (i : nat)
| ONth (i : nat) (k : elem) (nf : option elem)
| OGet (i : nat) (k : elem) (d : option elem)
| OContains (i : nat) (k : elem)
| OTransient (i : nat)
| OPersistent (i : nat)
| OConjT (i : nat) (x : elem)                   (* (conj! t x) *)
| OAssocT (i : nat) (k v : elem)
| ODissocT (i : nat) (k : elem)
| ODisjT (i : nat) (x : elem)
| OPopT (i : nat)
| OEq (i j : nat).                              (* (= a b) *)

(** the function used by OUpdate *)
Definition upd_tag : elem := EA (AKw 99).
Definition upd_fn (old : elem) : elem := EV [upd_tag; old].
Definition enil : elem := EA ANil.
Definition entry (kv : elem * elem) : elem := EV [fst kv; snd kv].

(** Python int-ness of a key (bool is a subclass of int) and numeric value *)
Definition key_int (k : elem) : option Z :=
  match k with
  | EA (AInt z) => Some z
  | EA (ABool b) => Some (if b then 1 else 0)%Z
  | _ => None
  end.
Definition key_num (k : elem) : option Z :=
  match k with EA a => anum a | _ => None end.

Definition opt_or (o : option elem) (d : elem) : elem := match o with Some e => e | None => d end.

