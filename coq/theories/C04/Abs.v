(** C04 -- abstraction of the model's state to the observations the specification reads:
    a persistent wrapper abstracts to what iterating its inner object yields (in the
    object's own order), a transient cell to the contents of its evolver / mutation. *)
From Coq Require Import List Bool ZArith NArith.
Import ListNotations.
From Verif Require Import C04.Val C04.Lib C04.Model C04.Spec.

Section Abs.
  Variable L : Libs.

  Definition abs_coll (c : icoll L) : coll :=
    match c with
    | IVec p => CVec (pv_list L p)
    | IList p => CList (pl_list L p)
    | IQueue p => CQueue (dq_list L p)
    | IMap p => CMap (m_items L p)
    | ISet p => CSet (set_keys L p)
    end.

  Definition abs_res (r : ires L) : sres :=
    match r with
    | RColl c m => RColl (abs_coll c) m
    | RTrans a => RTrans a
    | RVal e => RVal e
    | RBool b => RBool b
    | RNum z => RNum z
    | RSeq o l => RSeq o l
    | RErr c => RErr c
    end.

  Definition abs_cell (c : icell L) : scell :=
    match c with
    | ICVec e => SCVec (ev_list L e)
    | ICMap mm => SCMap (mm_items L mm) (mm_fin L mm)
    | ICSet mm => SCSet (map fst (mm_items L mm)) (mm_fin L mm)
    end.

  Definition abs_slots (st : ist L) : list sres := map abs_res (slots st).
  Definition abs_heap (st : ist L) : list scell := map abs_cell (heap st).
End Abs.
