(** C04 -- theorems over whole (branching) histories, for every [L : Libs]. *)
From Coq Require Import List Bool ZArith NArith Lia Permutation.
Import ListNotations.
From Verif Require Import Common.ListX C04.Val C04.Lib C04.Model C04.Spec C04.Abs C04.Wrappers C04.Sim.

Section Proofs.
  Variable L : Libs.

  (** ** histories only append results *)
  Fixpoint new_slots (st : ist L) (ops : list op) : list (ires L) :=
    match ops with
    | [] => []
    | o :: r => fst (step L st o) :: new_slots (istep L st o) r
    end.

  Lemma istep_slots st o : slots (istep L st o) = slots st ++ [fst (step L st o)].
  Proof. unfold istep. destruct (step L st o); reflexivity. Qed.
  Lemma istep_heap st o : heap (istep L st o) = snd (step L st o).
  Proof. unfold istep. destruct (step L st o); reflexivity. Qed.

  Lemma slots_irun_from ops : forall st, slots (irun_from L st ops) = slots st ++ new_slots st ops.
  Proof.
    induction ops as [|o r IH]; intro st; simpl; [rewrite app_nil_r; reflexivity|].
    unfold irun_from in *. simpl. rewrite IH, istep_slots, <- app_assoc. reflexivity.
  Qed.

  Lemma irun_app ops1 ops2 : irun L (ops1 ++ ops2) = irun_from L (irun L ops1) ops2.
  Proof. unfold irun, irun_from. apply fold_left_app. Qed.

  Theorem old_values_stable ops1 ops2 i r :
    nth_error (slots (irun L ops1)) i = Some r ->
    nth_error (slots (irun L (ops1 ++ ops2))) i = Some r.
  Proof.
    intro H. rewrite irun_app, slots_irun_from. rewrite nth_error_app1; [exact H|].
    apply nth_error_Some. congruence.
  Qed.

  (** ... in particular the source of a transient, whatever is done to the transient *)
  Corollary transient_source_stable ops1 i r ops2 :
    nth_error (slots (irun L ops1)) i = Some r ->
    nth_error (slots (irun L (ops1 ++ OTransient i :: ops2))) i = Some r.
  Proof. apply old_values_stable. Qed.

  (** ** the run refines the specification *)
  Lemma run_sim ops : forall st sh, Rheap L (heap st) sh ->
    guard_from L (hazard_neg L) st ops = true -> guard_from L (hazard_meta L) st ops = true ->
    exists shf, srun ops (abs_slots L st) (map (abs_res L) (new_slots st ops)) sh = Some shf /\
                Rheap L (heap (irun_from L st ops)) shf.
  Proof.
    induction ops as [|o r IH]; intros st sh HR G1 G2.
    - exists sh. split; [reflexivity|exact HR].
    - simpl in G1, G2. apply andb_true_iff in G1 as [N1 G1]. apply andb_true_iff in G2 as [N2 G2].
      apply negb_true_iff in N1, N2.
      destruct (step_sim L st sh o HR N1 N2) as [A HR'].
      cbn [new_slots map srun]. destruct (sstep (abs_slots L st) sh o) as [x sh'] eqn:E.
      cbn [fst snd] in A, HR'. rewrite A.
      rewrite <- istep_heap in HR'.
      destruct (IH (istep L st o) sh' HR' G1 G2) as (shf & S & HRf).
      exists shf. split; [|exact HRf].
      unfold abs_slots in S. rewrite istep_slots, map_app in S. exact S.
  Qed.

  Lemma Rheap_cells_ok ih sh : Rheap L ih sh ->
    cells_ok sh (map (fun c => cell_coll (abs_cell L c)) ih) = true.
  Proof.
    intro H. unfold cells_ok. rewrite map_length, <- (Rheap_length L _ _ H), Nat.eqb_refl. simpl.
    induction H as [|ic sc ih sh C H IH]; simpl; [reflexivity|]. rewrite IH, andb_true_r.
    apply cequiv_b. destruct ic, sc; simpl in C; try contradiction; simpl.
    - subst. constructor.
    - constructor. symmetry. apply C.
    - constructor. symmetry. apply C.
  Qed.

  Theorem history_refines_partial ops :
    indices_nonneg L ops = true -> meta_args_nonnil L ops = true ->
    exists h, srun ops [] (abs_slots L (irun L ops)) [] = Some h /\
              cells_ok h (map (fun c => cell_coll (abs_cell L c)) (heap (irun L ops))) = true.
  Proof.
    intros G1 G2. destruct (run_sim ops (ist0 L) [] (Forall2_nil _) G1 G2) as (h & S & HR).
    exists h. split.
    - unfold abs_slots, irun. rewrite slots_irun_from. exact S.
    - apply Rheap_cells_ok. exact HR.
  Qed.

  Corollary history_legal_partial ops :
    indices_nonneg L ops = true -> meta_args_nonnil L ops = true ->
    legal ops (abs_slots L (irun L ops)) = true.
  Proof. intros G1 G2. unfold legal. destruct (history_refines_partial ops G1 G2) as (h & -> & _). reflexivity. Qed.

  (** ** metadata *)
  (** equality and hash are computed from the inner objects alone *)
  Lemma meta_not_inspected c d m1 m2 n1 n2 :
    tgt_eq L (TColl L c m1) (TColl L d n1) = tgt_eq L (TColl L c m2) (TColl L d n2).
  Proof. reflexivity. Qed.

  Lemma forallb_perm {A} (f : A -> bool) l1 l2 : Permutation l1 l2 -> forallb f l1 = forallb f l2.
  Proof.
    induction 1; simpl; try congruence.
    destruct (f x), (f y); reflexivity.
  Qed.

  Lemma coll_equal_cequiv_l a a' b : cequiv a a' -> coll_equal a b = coll_equal a' b.
  Proof.
    destruct 1 as [l|l|l|m1 m2 P|l1 l2 P]; try reflexivity; destruct b; try reflexivity; simpl.
    - rewrite (zlen_perm _ _ P). f_equal. apply forallb_perm. exact P.
    - rewrite (zlen_perm _ _ P). f_equal. apply forallb_perm. exact P.
  Qed.

  Lemma coll_equal_cequiv_r a b b' : cequiv b b' ->
    (forall m, b = CMap m -> nodupk m = true) -> coll_equal a b = coll_equal a b'.
  Proof.
    destruct 1 as [l|l|l|m1 m2 P|l1 l2 P]; try reflexivity; intro N; destruct a; try reflexivity; simpl.
    - rewrite (zlen_perm _ _ P). f_equal. apply forallb_ext'. intros [k v]. simpl.
      rewrite (perm_al_get k _ _ P (N _ eq_refl)). reflexivity.
    - rewrite (zlen_perm _ _ P). f_equal. apply forallb_ext'. intro x. apply perm_mem. exact P.
  Qed.

  Lemma abs_map_nodup c : forall m, abs_coll L c = CMap m -> nodupk m = true.
  Proof. destruct c; simpl; intros m0 H; inversion H; subst. apply H_map_nodup. Qed.

  Theorem with_meta_copy_equal_and_same_hash c d :
    coll_eq L (coll_with_meta L c) d = coll_eq L c d /\
    coll_eq L d (coll_with_meta L c) = coll_eq L d c /\
    coll_eq L c (coll_with_meta L c) = coll_eq L c c /\
    coll_hash L (coll_with_meta L c) = coll_hash L c.
  Proof.
    pose proof (abs_coll_with_meta L c) as E.
    rewrite !coll_eq_abs. repeat split.
    - symmetry. apply coll_equal_cequiv_l. exact E.
    - symmetry. apply coll_equal_cequiv_r; [exact E|apply abs_map_nodup].
    - symmetry. apply coll_equal_cequiv_r; [exact E|apply abs_map_nodup].
    - destruct c; simpl.
      + apply H_pvec_hash. apply abs_vec_with_meta.
      + apply H_plist_hash. apply H_plist_of.
      + apply H_pdeque_hash. apply H_pdeque_of.
      + reflexivity.
      + apply H_keys_hash. apply set_with_meta_sim.
  Qed.

  Lemma list_keq_refl' l : list_keq l l = true.
  Proof. apply list_keq_refl. Qed.

  Lemma al_sub_refl m : nodupk m = true -> al_sub m m = true.
  Proof.
    intro N. unfold al_sub. apply forallb_forall. intros [k v] Hin. simpl.
    assert (al_get k m = Some v) as ->; [|apply keq_refl].
    induction m as [|[k' v'] r IH]; [contradiction|].
    unfold nodupk in N. simpl in N. apply andb_true_iff in N as [N1 N2]. simpl.
    destruct Hin as [Hin|Hin].
    - inversion Hin; subst. rewrite keq_refl. reflexivity.
    - destruct (keq k k') eqn:E; [|apply IH; assumption].
      exfalso. apply negb_true_iff in N1. rewrite keq_sym in E. rewrite (mem_keq _ _ _ E) in N1.
      assert (mem k (map fst r) = true); [|congruence].
      clear - Hin. induction r as [|[a b] r IH]; [contradiction|]. simpl.
      destruct Hin as [H|H]; [inversion H; subst; rewrite keq_refl; reflexivity|]. rewrite (IH H). apply orb_true_r.
  Qed.

  Lemma mem_self_all l : forallb (fun x => mem x l) l = true.
  Proof.
    apply forallb_forall. intros x Hin. induction l as [|y r IH]; [contradiction|]. simpl.
    destruct Hin as [->|H]; [rewrite keq_refl; reflexivity|]. rewrite (IH H). apply orb_true_r.
  Qed.

  Lemma coll_eq_refl c : coll_eq L c c = true.
  Proof.
    rewrite coll_eq_abs. destruct c; simpl; try apply list_keq_refl.
    - rewrite Z.eqb_refl. simpl. apply al_sub_refl. apply H_map_nodup.
    - rewrite Z.eqb_refl. simpl. apply mem_self_all.
  Qed.

  (** (with-meta c m) on a collection: an equal value carrying exactly m; the heap and every
      earlier result are left alone.  The guard excludes m = nil on a collection that has
      metadata (quirk Q2, finding F-04b). *)
  Theorem with_meta_exact_partial st i m c m0 :
    target L st i = TColl L c m0 -> hazard_meta L st (OWithMeta i m) = false ->
    exists c', step L st (OWithMeta i m) = (RColl c' m, heap st) /\
               cequiv (abs_coll L c) (abs_coll L c') /\
               coll_eq L c c' = true /\ coll_hash L c' = coll_hash L c /\
               slots (istep L st (OWithMeta i m)) = slots st ++ [RColl c' m].
  Proof.
    intros T HZ. unfold hazard_meta in HZ. unfold istep, step. rewrite T in *. destruct m as [n|].
    - exists (coll_with_meta L c). repeat split.
      + apply abs_coll_with_meta.
      + destruct (with_meta_copy_equal_and_same_hash c c) as (_ & _ & E & _). rewrite E. apply coll_eq_refl.
      + apply with_meta_copy_equal_and_same_hash; exact c.
    - destruct m0; [discriminate|]. exists c. repeat split.
      + apply cequiv_refl.
      + apply coll_eq_refl.
  Qed.

  (** which operations keep, set or drop the metadata: whenever an operation returns a
      collection, its metadata is given by this table *)
  Definition src_meta (st : ist L) (i : nat) : option N :=
    match target L st i with TColl _ _ m => m | _ => None end.
  Definition meta_rule (st : ist L) (o : op) : option N :=
    match o with
    | OConj i _ | OAssoc i _ _ | ODissoc i _ | ODisj i _ | OUpdate i _ | OEmpty i | OInto i _ => src_meta st i
    | OPop i => match target L st i with TColl _ (IQueue _) m => m | _ => None end      (* Q3 *)
    | OWithMeta i (Some n) => Some n
    | OWithMeta i None => src_meta st i                                              (* Q2 *)
    | _ => None                                  (* constructors, merge, persistent! : no metadata *)
    end.

  Ltac crush_meta :=
    repeat match goal with
           | |- context [match ?x with _ => _ end] => destruct x
           end; intro H; inversion H; subst; reflexivity.

  Theorem meta_table st o c' m' : fst (step L st o) = RColl c' m' -> m' = meta_rule st o.
  Proof.
    unfold meta_rule, src_meta.
    destruct o; unfold step; cbv beta iota zeta; cbn [fst];
      try (destruct (target L st i) as [|c m|a cell|]; cbn [fst]).
    all: try solve [intro H; inversion H; subst; reflexivity].
    all: try solve [unfold coll_cons, conj_nil, vec_assoc, vec_pop, op_into, op_merge, remeta, tgt_eq, seq_res,
                    vec_peek, vec_nth, list_nth, tvec_nth, tvec_val_at, tvec_contains, tvec_assoc;
                    crush_meta].
  Qed.

  (** ** transients *)
  Definition roundtrip (c : icoll L) : option (icoll L) :=
    match c with
    | IVec p => Some (IVec (fst (ev_persistent L (pv_evolver L p))))
    | IMap p => Some (IMap (finish L (m_mutate L p)))
    | ISet p => Some (ISet (finish L (m_mutate L p)))
    | _ => None
    end.

  (** (persistent! (transient c)) has the contents of c, c's slot is untouched, and the two
      steps of the model compute exactly [roundtrip] *)
  Theorem transient_roundtrip st i c m c' :
    target L st i = TColl L c m -> roundtrip c = Some c' ->
    let st1 := istep L st (OTransient i) in
    let st2 := istep L st1 (OPersistent (length (slots st))) in
    slots st2 = slots st ++ [RTrans (length (heap st)); RColl c' None] /\
    cequiv (abs_coll L c) (abs_coll L c') /\ coll_eq L c c' = true.
  Proof.
    intros T R st1 st2.
    assert (cequiv (abs_coll L c) (abs_coll L c')) as CE.
    { destruct c; simpl in R; inversion R; subst; simpl.
      - rewrite H_evolver_persistent, H_evolver_of. constructor.
      - constructor. symmetry. apply Rmut_finish. apply Rmut_mutate.
      - constructor. symmetry. apply Rkeys_finish. apply Rkeys_mutate. }
    split; [|split; [exact CE|]].
    - assert (step L st (OTransient i) = (RTrans (length (heap st)), heap st ++ [match c with
                | IVec p => ICVec (pv_evolver L p) | IMap p => ICMap (m_mutate L p)
                | ISet p => ICSet (m_mutate L p) | _ => ICVec (pv_evolver L (pv_of L [])) end])) as E1.
      { unfold step. rewrite T. destruct c; simpl in R; try discriminate; reflexivity. }
      subst st2 st1. rewrite !istep_slots, <- app_assoc. cbn [app]. rewrite E1. cbn [fst]. do 3 f_equal.
      unfold step. unfold target. rewrite istep_slots, istep_heap, E1. cbn [fst snd].
      rewrite nth_error_app2 by lia. rewrite Nat.sub_diag. cbn [nth_error].
      rewrite nth_error_app2 by lia. rewrite Nat.sub_diag. cbn [nth_error].
      destruct c; simpl in R; inversion R; subst; reflexivity.
    - rewrite coll_eq_abs, <- (coll_equal_cequiv_r _ _ _ CE (abs_map_nodup c)), <- coll_eq_abs. apply coll_eq_refl.
  Qed.

  Theorem meta_irrelevant_eq_hash (c d : icoll L) (m1 m2 n1 n2 : option N) :
    tgt_eq L (TColl L c m1) (TColl L d n1) = tgt_eq L (TColl L c m2) (TColl L d n2) /\
    coll_eq L (coll_with_meta L c) d = coll_eq L c d /\
    coll_eq L d (coll_with_meta L c) = coll_eq L d c /\
    coll_eq L c (coll_with_meta L c) = true /\
    coll_hash L (coll_with_meta L c) = coll_hash L c.
  Proof.
    destruct (with_meta_copy_equal_and_same_hash c d) as (A & B & C & D).
    rewrite (coll_eq_refl c) in C.
    exact (conj (meta_not_inspected c d m1 m2 n1 n2) (conj A (conj B (conj C D)))).
  Qed.
End Proofs.

(** facts about the specification itself *)
Theorem nonneg_index_is_clojure_index l i x : (0 <= i)%Z ->
  py_nth l i = clj_nth l i /\ py_set l i x = clj_set l i x.
Proof. intro H. exact (conj (py_nth_nonneg l i H) (py_set_nonneg l i x H)). Qed.

Theorem spec_maps_modulo_permutation k v (l1 l2 : al) :
  Permutation l1 l2 -> nodupk l1 = true ->
  al_get k l1 = al_get k l2 /\ Permutation (al_set k v l1) (al_set k v l2) /\
  Permutation (al_del k l1) (al_del k l2) /\ nodupk (al_set k v l1) = true /\ nodupk (al_del k l1) = true.
Proof.
  intros P N.
  exact (conj (perm_al_get k l1 l2 P N) (conj (perm_al_set k v l1 l2 P N)
        (conj (perm_al_del k l1 l2 P N) (conj (nodupk_al_set k v l1 N) (nodupk_al_del k l1 N))))).
Qed.

Theorem spec_sets_modulo_permutation x (l1 l2 : list elem) :
  Permutation l1 l2 -> nodup l1 = true ->
  mem x l1 = mem x l2 /\ Permutation (s_add x l1) (s_add x l2) /\ Permutation (s_del x l1) (s_del x l2) /\
  nodup (s_add x l1) = true /\ nodup (s_del x l1) = true.
Proof.
  intros P N.
  exact (conj (perm_mem x l1 l2 P) (conj (perm_s_add x l1 l2 P) (conj (perm_s_del x l1 l2 P N)
        (conj (nodup_s_add x l1 N) (nodup_s_del x l1 N))))).
Qed.

Theorem key_equality_is_an_equivalence :
  (forall a, keq a a = true) /\ (forall a b, keq a b = keq b a) /\
  (forall a b c, keq a b = true -> keq b c = true -> keq a c = true).
Proof. exact (conj keq_refl (conj keq_sym keq_trans)). Qed.
