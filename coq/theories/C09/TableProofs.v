(** C09 -- obligations on the definitions regenerated from runtime.py and reader.py
    (harness/tr/tr_syntaxquote.py).  Reflective: a special form dropped from
    runtime._SPECIAL_FORMS, or a builder constant of the reader renamed, breaks a named lemma. *)
From Coq Require Import String.
From Coq Require Import List NArith Bool.
Import ListNotations.
From Verif Require Import Common.ListX Gen.Tables C09.DLang C09.SyntaxQuote.

(** the special forms a template may mention: were one of them missing from the table, the
    resolver would qualify it with the current namespace and the expansion would not compile *)
Definition required_special : list str :=
  map s_ ["quote"; "if"; "do"; "def"; "let*"; "fn*"; "loop*"; "letfn*"; "recur"; "var"; "throw";
          "try"; "catch"; "finally"; "set!"; "."; ".-"; "import*"; "require*"; "deftype*";
          "reify*"; "await"; "yield"]%string.

Lemma special_forms_ok :
  forallb (fun x => mem x sq_special_forms) required_special = true
  /\ mem amp sq_special_forms = false.
Proof. vm_compute. auto. Qed.

Definition builder_name (f : form) : str * str :=
  match f with
  | FSym (Some ns) (SN n) => (ns, n)
  | FSym None (SN n) => ([], n)
  | _ => ([], [])
  end.

Definition model_builders : list (str * str) :=
  map builder_name [c_seq; c_concat; c_list; c_apply; c_vector; c_hash_map; c_hash_set; q_quote].

Lemma builders_ok : model_builders = sq_builders.
Proof. vm_compute. reflexivity. Qed.

Lemma shapes_ok : sq_resolve_shape = 1%N /\ sq_expand_shape = 1%N.
Proof. split; reflexivity. Qed.
