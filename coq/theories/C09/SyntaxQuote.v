(** C09 -- MODEL of syntax-quote in src/basilisp/lang/reader.py:
    [_read_sym] (symbols inside a syntax-quoted template are resolved through the resolver at
    read time), runtime.resolve_alias (the resolver), [_process_syntax_quoted_form] /
    [_expand_syntax_quote] (rebuilding collections from seq/concat/list/apply forms), the
    per-template gensym environment of [ReaderContext.syntax_quoted], and a small evaluator for
    exactly the code the reader emits.  Nested syntax-quotes are outside the model. *)
From Coq Require Import String Ascii.
From Coq Require Import List NArith ZArith Bool Lia.
Import ListNotations.
From Verif Require Import Common.ListX.
From Verif Require Export C09.DLang.

Definition s_ (x : string) : str := map N_of_ascii (list_ascii_of_string x).

(** A symbol name is either text or a name made by genname(prefix): "prefix_k".  Keeping the
    generated names in their own constructor is the usual gensym abstraction. *)
Inductive sname := SN (s : str) | SG (prefix : str) (k : N).

Definition sname_eqb (a b : sname) : bool :=
  match a, b with
  | SN x, SN y => str_eqb x y
  | SG p j, SG q k => str_eqb p q && N.eqb j k
  | _, _ => false
  end.

(** Forms (data = code).  [FHole h] stands for the h-th expression the user wrote under an
    unquote: opaque code whose value is supplied by the environment. *)
Inductive form :=
| FNil
| FBool (b : bool)
| FInt (z : Z)
| FStr (s : str)
| FKw (ns : option str) (n : str)
| FSym (ns : option str) (n : sname)
| FList (l : list form)
| FVec (l : list form)
| FMap (l : list (form * form))
| FSet (l : list form)
| FHole (h : N).

Definition ostr_eqb := option_eqb str_eqb.

Fixpoint form_eqb (a b : form) : bool :=
  match a, b with
  | FNil, FNil => true
  | FBool x, FBool y => Bool.eqb x y
  | FInt x, FInt y => Z.eqb x y
  | FStr x, FStr y => str_eqb x y
  | FKw n1 s1, FKw n2 s2 => ostr_eqb n1 n2 && str_eqb s1 s2
  | FSym n1 s1, FSym n2 s2 => ostr_eqb n1 n2 && sname_eqb s1 s2
  | FHole x, FHole y => N.eqb x y
  | FList l1, FList l2 | FVec l1, FVec l2 | FSet l1, FSet l2 =>
      (fix go (l1 l2 : list form) : bool :=
         match l1, l2 with
         | [], [] => true
         | x :: t, y :: u => form_eqb x y && go t u
         | _, _ => false
         end) l1 l2
  | FMap l1, FMap l2 =>
      (fix go (l1 l2 : list (form * form)) : bool :=
         match l1, l2 with
         | [], [] => true
         | (k1, v1) :: t, (k2, v2) :: u => form_eqb k1 k2 && form_eqb v1 v2 && go t u
         | _, _ => false
         end) l1 l2
  | _, _ => false
  end.

(** equality of observables: maps and sets up to order *)
Fixpoint form_equiv (a b : form) : bool :=
  match a, b with
  | FNil, FNil => true
  | FBool x, FBool y => Bool.eqb x y
  | FInt x, FInt y => Z.eqb x y
  | FStr x, FStr y => str_eqb x y
  | FKw n1 s1, FKw n2 s2 => ostr_eqb n1 n2 && str_eqb s1 s2
  | FSym n1 s1, FSym n2 s2 => ostr_eqb n1 n2 && sname_eqb s1 s2
  | FHole x, FHole y => N.eqb x y
  | FList l1, FList l2 | FVec l1, FVec l2 =>
      (fix go (l1 l2 : list form) : bool :=
         match l1, l2 with
         | [], [] => true
         | x :: t, y :: u => form_equiv x y && go t u
         | _, _ => false
         end) l1 l2
  | FSet l1, FSet l2 =>
      Nat.eqb (length l1) (length l2) &&
      (fix all1 (l1 : list form) : bool :=
         match l1 with
         | [] => true
         | x :: t => (fix ex (l2 : list form) : bool :=
                        match l2 with [] => false | y :: u => form_equiv x y || ex u end) l2
                     && all1 t
         end) l1
  | FMap l1, FMap l2 =>
      Nat.eqb (length l1) (length l2) &&
      (fix all1 (l1 : list (form * form)) : bool :=
         match l1 with
         | [] => true
         | (k, v) :: t => (fix ex (l2 : list (form * form)) : bool :=
                             match l2 with
                             | [] => false
                             | (k', v') :: u => (form_equiv k k' && form_equiv v v') || ex u
                             end) l2
                          && all1 t
         end) l1
  | _, _ => false
  end.

(** self-evaluating literals *)
Inductive atom := ANil | ABool (b : bool) | AInt (z : Z) | AStr (s : str) | AKw (ns : option str) (n : str).
Definition atom_form (a : atom) : form :=
  match a with
  | ANil => FNil | ABool b => FBool b | AInt z => FInt z | AStr s => FStr s | AKw ns n => FKw ns n
  end.

(** * Templates: what stands behind a backquote, as written *)
Inductive tmpl :=
| TAtom (a : atom)                     (* nil, booleans, numbers, strings, keywords *)
| TSym (ns : option str) (n : str)     (* a symbol as written (not ending in #) *)
| TGen (prefix : str)                  (* prefix# *)
| TList (l : tmpls)
| TVec (l : tmpls)
| TSet (l : tmpls)                     (* elements in the iteration order of the set literal *)
| TMap (l : tmpls)                     (* k v k v ... in the iteration order of the map literal *)
| TUnq (h : N)                         (* ~expr *)
| TSplice (h : N)                      (* ~@expr *)
with tmpls := TNil | TCons (t : tmpl) (r : tmpls).

Scheme tmpl_mind := Induction for tmpl Sort Prop
  with tmpls_mind := Induction for tmpls Sort Prop.
Combined Scheme tmpl_mutind from tmpl_mind, tmpls_mind.

(** * The resolver: runtime.resolve_alias over a namespace *)
Record nsrec := {
  cur : str;                               (* name of the current namespace *)
  interns : list (str * (str * str));      (* symbol name -> (namespace, name) of the Var *)
  refers : list (str * (str * str));
  aliases : list (str * str);              (* alias -> namespace name *)
  special : list str                       (* runtime._SPECIAL_FORMS *)
}.

(** Namespace.find: interns first, then refers *)
Definition ns_find (R : nsrec) (n : str) : option (str * str) :=
  match assoc n (interns R) with
  | Some v => Some v
  | None => assoc n (refers R)
  end.

Definition resolve_alias (R : nsrec) (ns : option str) (n : str) : option str * str :=
  match ns with
  | None =>
      if mem n (special R) then (None, n)
      else match ns_find R n with
           | Some (vns, vn) => (Some vns, vn)
           | None => (Some (cur R), n)
           end
  | Some a =>
      match assoc a (aliases R) with
      | Some full => (Some full, n)
      | None => (Some a, n)
      end
  end.

Definition amp : str := s_ "&".
Definition starts_with_dot (n : str) : bool :=
  match n with c :: _ => N.eqb c 46%N | [] => false end.

(** reader._read_sym inside a syntax-quoted template, for a name not ending in # *)
Definition read_sym (R : nsrec) (ns : option str) (n : str) : option str * str :=
  match ns with
  | None => if str_eqb n amp || starts_with_dot n then (None, n) else resolve_alias R ns n
  | Some _ => resolve_alias R ns n
  end.

(** * Expansion *)
Definition core_ns : str := s_ "basilisp.core".
Definition csym (n : string) : form := FSym (Some core_ns) (SN (s_ n)).
Definition q_quote : form := FSym None (SN (s_ "quote")).
Definition c_seq := csym "seq".
Definition c_concat := csym "concat".
Definition c_list := csym "list".
Definition c_apply := csym "apply".
Definition c_vector := csym "vector".
Definition c_hash_map := csym "hash-map".
Definition c_hash_set := csym "hash-set".

Definition quoted (f : form) : form := FList [q_quote; f].

(** gensym state: the template's environment {name# -> symbol} and the global counter *)
Definition gstate := (list (str * N) * N)%type.

Definition gen_lookup (g : list (str * N)) (p : str) : option N := assoc p g.

(** [_process_syntax_quoted_form] (with [_read_sym] folded in) and [_expand_syntax_quote].
    None = SyntaxError "Cannot splice outside collection". *)
Fixpoint expand (R : nsrec) (t : tmpl) (st : gstate) : option (form * gstate) :=
  match t with
  | TAtom a => Some (atom_form a, st)
  | TSym ns n => let r := read_sym R ns n in Some (quoted (FSym (fst r) (SN (snd r))), st)
  | TGen p =>
      match gen_lookup (fst st) p with
      | Some k => Some (quoted (FSym None (SG p k)), st)
      | None => let k := snd st in
                Some (quoted (FSym None (SG p k)), ((p, k) :: fst st, N.succ k))
      end
  | TUnq h => Some (FHole h, st)
  | TSplice _ => None
  | TList l =>
      match expand_elems R l st with
      | Some (parts, st') => Some (FList [c_seq; FList (c_concat :: parts)], st')
      | None => None
      end
  | TVec l =>
      match expand_elems R l st with
      | Some (parts, st') => Some (FList [c_apply; c_vector; FList (c_concat :: parts)], st')
      | None => None
      end
  | TSet l =>
      match expand_elems R l st with
      | Some (parts, st') => Some (FList [c_apply; c_hash_set; FList (c_concat :: parts)], st')
      | None => None
      end
  | TMap l =>
      match expand_elems R l st with
      | Some (parts, st') => Some (FList [c_apply; c_hash_map; FList (c_concat :: parts)], st')
      | None => None
      end
  end
with expand_elems (R : nsrec) (l : tmpls) (st : gstate) : option (list form * gstate) :=
  match l with
  | TNil => Some ([], st)
  | TCons e r =>
      match (match e with
             | TUnq h => Some (FList [c_list; FHole h], st)
             | TSplice h => Some (FHole h, st)
             | _ => match expand R e st with
                    | Some (f, st') => Some (FList [c_list; f], st')
                    | None => None
                    end
             end) with
      | Some (part, st1) =>
          match expand_elems R r st1 with
          | Some (parts, st2) => Some (part :: parts, st2)
          | None => None
          end
      | None => None
      end
  end.

(** reading one template: `syntax_quoted()` pushes an EMPTY gensym environment; the counter is
    global and only grows *)
Definition read_template (R : nsrec) (t : tmpl) (counter : N) : option (form * N) :=
  match expand R t ([], counter) with
  | Some (f, st) => Some (f, snd st)
  | None => None
  end.

(** * Evaluating the emitted code *)
Definition E_TYPE : N := 1%N.
Definition E_INDEX : N := 2%N.
Definition E_SYNTAX : N := 5%N.
Definition E_OTHER : N := 3%N.

(** (seq v) as a Coq list, for the values unquote-splicing may meet *)
Definition fseq_elems (v : form) : res (list form) :=
  match v with
  | FNil => Ok []
  | FList l | FVec l | FSet l => Ok l
  | FStr s => Ok (map (fun c => FStr [c]) s)
  | FMap l => Ok (map (fun kv => FVec [fst kv; snd kv]) l)
  | _ => Err E_TYPE
  end.

Fixpoint fput (k v : form) (l : list (form * form)) : list (form * form) :=
  match l with
  | [] => [(k, v)]
  | (k', v') :: t => if form_eqb k k' then (k, v) :: t else (k', v') :: fput k v t
  end.

Fixpoint fpair_up (fuel : nat) (l : list form) (acc : list (form * form)) : res form :=
  match fuel with
  | O => Ok (FMap acc)
  | S f =>
      match l with
      | [] => Ok (FMap acc)
      | [_] => Err E_INDEX
      | k :: v :: t => fpair_up f t (fput k v acc)
      end
  end.
Definition mk_map (l : list form) : res form := fpair_up (S (length l)) l [].

Fixpoint fadd (x : form) (l : list form) : list form :=
  match l with
  | [] => [x]
  | y :: t => if form_eqb x y then y :: t else y :: fadd x t
  end.
Definition mk_set (l : list form) : form := FSet (fold_left (fun acc x => fadd x acc) l []).

(** (seq coll): nil for an empty collection *)
Definition mk_seq (l : list form) : form := match l with [] => FNil | _ => FList l end.

Definition head_is (f : form) (c : form) : bool := form_eqb f c.

(** (concat c1 c2 ...) on realized collections *)
Fixpoint cat_elems (vs : list form) : res (list form) :=
  match vs with
  | [] => Ok []
  | v :: t => a <- fseq_elems v ;; b <- cat_elems t ;; Ok (a ++ b)
  end.

(** values of the holes *)
Definition holes := list form.
Definition hole_val (sg : holes) (h : N) : form := nth (N.to_nat h) sg FNil.

(** The evaluator returns the value and the trace of holes in evaluation order. Function
    arguments are evaluated left to right; concat/seq/apply realize their argument fully. *)
Fixpoint ev (sg : holes) (f : form) {struct f} : res (form * list N) :=
  let ev_args :=
    fix ev_args (l : list form) : res (list form * list N) :=
      match l with
      | [] => Ok ([], [])
      | a :: t => r <- ev sg a ;; rs <- ev_args t ;; Ok (fst r :: fst rs, snd r ++ snd rs)
      end in
  match f with
  | FHole h => Ok (hole_val sg h, [h])
  | FNil | FBool _ | FInt _ | FStr _ | FKw _ _ => Ok (f, [])
  | FList (hd :: args) =>
      if head_is hd q_quote then
        match args with [d] => Ok (d, []) | _ => Err E_OTHER end
      else if head_is hd c_list then
        r <- ev_args args ;; Ok (FList (fst r), snd r)
      else if head_is hd c_concat then
        r <- ev_args args ;; l <- cat_elems (fst r) ;; Ok (FList l, snd r)
      else if head_is hd c_seq then
        match args with
        | [a] => r <- ev sg a ;; l <- fseq_elems (fst r) ;; Ok (mk_seq l, snd r)
        | _ => Err E_OTHER
        end
      else if head_is hd c_apply then
        match args with
        | [fn; a] =>
            r <- ev sg a ;; l <- fseq_elems (fst r) ;;
            if head_is fn c_vector then Ok (FVec l, snd r)
            else if head_is fn c_hash_set then Ok (mk_set l, snd r)
            else if head_is fn c_hash_map then m <- mk_map l ;; Ok (m, snd r)
            else Err E_OTHER
        | _ => Err E_OTHER
        end
      else Err E_OTHER
  | _ => Err E_OTHER
  end.

Fixpoint ev_args (sg : holes) (l : list form) : res (list form * list N) :=
  match l with
  | [] => Ok ([], [])
  | a :: t => r <- ev sg a ;; rs <- ev_args sg t ;; Ok (fst r :: fst rs, snd r ++ snd rs)
  end.
