(** C09 -- SPECIFICATION of destructuring: [bind p v en] extends the environment [en] with
    what pattern [p] binds on value [v], defined by structural recursion on the pattern
    directly through the oracle (nth with nil default, nthnext, get with default): no
    temporaries, no binding lists, no definitions.

    Scope rules (the part of the meaning that nth/get do not fix), chosen once here:
      - names are bound sequentially in the order written; a later binding of the same name
        shadows an earlier one;
      - an :as name is bound first (before the elements of its pattern); for a map pattern it
        is bound to the value after keyword-argument coercion;
      - user expressions (:or defaults, keys of {pat key} entries) see the enclosing scope and
        the names of the pattern bound before them; :or defaults are evaluated eagerly
        (as the third argument of get), once per binder;
      - in a map pattern the order is :keys, :strs, :syms, {sym key} entries, then the values
        of all nested {pattern key} entries are fetched, then the nested patterns bind. *)
From Coq Require Import List NArith Bool.
Import ListNotations.
From Verif Require Import Common.ListX.
From Verif Require Export C09.DLang.

Section SpecA.
  Variable O : oracle.
  Notation val := (val O).
  Notation expr := (expr O).
  Notation env := (env O).
  Notation pat := (pat O).
  Notation pats := (pats O).
  Notation pentries := (pentries O).

  Definition bind_as (a : option str) (v : val) (en : env) : env :=
    match a with Some x => (NU x, v) :: en | None => en end.

  (** what a map pattern destructures: a seq is keyword arguments (a single element: that
      element), anything else is taken as it is *)
  Definition coerce (v : val) : res val :=
    if seqp O v
    then nx <- next_ O v ;; if truthy O nx then hashmap_ O v else first_ O v
    else Ok v.

  Definition get_or (m kv : val) (d : option expr) (en : env) : res val :=
    match d with
    | Some de => dv <- eval en de ;; get_ O m kv dv
    | None => get_ O m kv (vnil O)
    end.

  (** :keys / :strs / :syms : the key is a constant made from the binder *)
  Fixpoint bind_consts {A} (mk : A -> val) (nm : A -> str) (l : list A)
           (ors : list (str * expr)) (m : val) (en : env) : res env :=
    match l with
    | [] => Ok en
    | q :: t =>
        x <- get_or m (mk q) (assoc (nm q) ors) en ;;
        bind_consts mk nm t ors m ((NU (nm q), x) :: en)
    end.

  (** {sym key} entries *)
  Fixpoint bind_named (es : pentries) (ors : list (str * expr)) (m : val) (en : env) : res env :=
    match es with
    | MNil => Ok en
    | MCons (PSym x) k t =>
        kv <- eval en k ;;
        v <- get_or m kv (assoc x ors) en ;;
        bind_named t ors m ((NU x, v) :: en)
    | MCons _ _ t => bind_named t ors m en
    end.

  Definition pat_alias (p : pat) : option str :=
    match p with PSym _ => None | PVec _ _ a => a | PMap _ _ _ _ _ a => a end.

  (** values of the nested {pattern key} entries (their :as names become visible at once) *)
  Fixpoint fetch_others (es : pentries) (m : val) (en : env) : res (list val * env) :=
    match es with
    | MNil => Ok ([], en)
    | MCons p k t =>
        if is_psym p then fetch_others t m en
        else
          kv <- eval en k ;;
          x <- get_ O m kv (vnil O) ;;
          r <- fetch_others t m (bind_as (pat_alias p) x en) ;;
          Ok (x :: fst r, snd r)
    end.

End SpecA.

Arguments bind_as {O} a v en.
Arguments pat_alias {O} p.

Fixpoint bind (O : oracle) (p : pat O) (v : val O) (en : env O) : res (env O) :=
  match p with
  | PSym x => Ok ((NU x, v) :: en)
  | PVec ps rest as_ =>
      en1 <- bind_seq O ps 0%N v (bind_as as_ v en) ;;
      match rest with
      | None => Ok en1
      | Some r => t <- nthnext_ O v (plen ps) ;; Ok ((NU r, t) :: en1)
      end
  | PMap kg strs sg es ors as_ =>
      m <- coerce O v ;;
      en1 <- bind_consts O (fun q => vkw O (fst q) (snd q)) snd (norm_groups kg) ors m
                         (bind_as as_ m en) ;;
      en2 <- bind_consts O (vstr O) (fun s => s) strs ors m en1 ;;
      en3 <- bind_consts O (fun q => vsym O (fst q) (snd q)) snd (norm_groups sg) ors m en2 ;;
      en4 <- bind_named O es ors m en3 ;;
      r <- fetch_others O es m en4 ;;
      bind_others O es (fst r) (snd r)
  end
with bind_seq (O : oracle) (ps : pats O) (i : N) (v : val O) (en : env O) : res (env O) :=
  match ps with
  | PNil => Ok en
  | PCons p t =>
      x <- nth_ O v i ;;
      en1 <- bind O p x en ;;
      bind_seq O t (N.succ i) v en1
  end
with bind_others (O : oracle) (es : pentries O) (xs : list (val O)) (en : env O)
  : res (env O) :=
  match es with
  | MNil => Ok en
  | MCons p _ t =>
      if is_psym p then bind_others O t xs en
      else match xs with
           | x :: xs' => en1 <- bind O p x en ;; bind_others O t xs' en1
           | [] => Ok en
           end
  end.

Section SpecB.
  Variable O : oracle.
  Notation val := (val O).
  Notation expr := (expr O).
  Notation env := (env O).
  Notation pat := (pat O).
  Notation pats := (pats O).
  Notation pentries := (pentries O).
  Notation bind := (bind O).
  Notation collect_ := (collect_ O).

  (** (let [p1 e1 p2 e2 ...] ...) *)
  Fixpoint bind_let (bs : list (pat * expr)) (en : env) : res env :=
    match bs with
    | [] => Ok en
    | (p, e) :: t => v <- eval en e ;; en1 <- bind p v en ;; bind_let t en1
    end.

  (** fn parameters: the actual arguments are values; the rest pattern (if any) receives the
      sequence of surplus arguments, through -collect-keyword-args when it is a map pattern.
      [bind_params_rest_first] is the order core.lpy uses (rest pattern first); the property's
      left-to-right reading is [bind_params]. *)
  Fixpoint bind_args (ps : list pat) (vs : list val) (en : env) : res env :=
    match ps, vs with
    | p :: pt, v :: vt => en1 <- bind p v en ;; bind_args pt vt en1
    | _, _ => Ok en
    end.

  Definition bind_rest (rest : option pat) (rv : val) (en : env) : res env :=
    match rest with
    | None => Ok en
    | Some (PMap kg strs sg es ors as_ as p) => m <- collect_ rv ;; bind p m en
    | Some p => bind p rv en
    end.

  Definition bind_params (ps : list pat) (rest : option pat) (vs : list val) (rv : val)
             (en : env) : res env :=
    en1 <- bind_args ps vs en ;; bind_rest rest rv en1.

  Definition bind_params_rest_first (ps : list pat) (rest : option pat) (vs : list val)
             (rv : val) (en : env) : res env :=
    en1 <- bind_rest rest rv en ;; bind_args ps vs en1.

  (** loop: every init expression sees the names destructured by the earlier bindings *)
  Definition bind_loop := bind_let.

  (** GUARDS (executable).  The :as name of a pattern doubles as the temporary its elements
      are fetched from, so it must not be re-bound inside the pattern; in a map pattern the
      :as names of later nested entries must not be bound by earlier nested entries (their
      values are fetched before any nested pattern binds).  Patterns whose binders are
      pairwise distinct satisfy both. *)
  Definition alias_free (a : option str) (l : list str) : bool :=
    match a with Some x => negb (mem x l) | None => true end.

  Fixpoint later_aliases (es : pentries) : list str :=
    match es with
    | MNil => []
    | MCons p _ t => (if is_psym p then [] else opt_list (pat_alias p)) ++ later_aliases t
    end.

  Fixpoint others_ok (es : pentries) : bool :=
    match es with
    | MNil => true
    | MCons p _ t =>
        (if is_psym p then true
         else forallb (fun a => negb (mem a (binders p))) (later_aliases t))
        && others_ok t
    end.

End SpecB.

Arguments later_aliases {O} es.
Arguments others_ok {O} es.

Fixpoint alias_ok {O : oracle} (p : pat O) : bool :=
  match p with
  | PSym _ => true
  | PVec ps rest as_ =>
      alias_free as_ (binders_seq ps ++ opt_list rest) && alias_ok_seq ps
  | PMap kg strs sg es ors as_ =>
      alias_free as_ (map snd (norm_groups kg) ++ strs ++ map snd (norm_groups sg)
                      ++ binders_named es ++ binders_others es)
      && alias_ok_entries es && others_ok es
  end
with alias_ok_seq {O : oracle} (ps : pats O) : bool :=
  match ps with PNil => true | PCons p t => alias_ok p && alias_ok_seq t end
with alias_ok_entries {O : oracle} (es : pentries O) : bool :=
  match es with MNil => true | MCons p _ t => alias_ok p && alias_ok_entries t end.

Section SpecC.
  Variable O : oracle.
  Notation env := (env O).
  Notation pat := (pat O).

  Definition distinct_binders (p : pat) : Prop := NoDup (binders p).

  (** Agreement of two environments on the names a user can write. *)
  Definition agree (e1 e2 : env) : Prop := forall x, lookup (NU x) e1 = lookup (NU x) e2.

  Definition sim (r1 r2 : res env) : Prop :=
    match r1, r2 with
    | Ok e1, Ok e2 => agree e1 e2
    | Err a, Err b => a = b
    | _, _ => False
    end.
End SpecC.

Arguments distinct_binders {O} p.
Arguments agree {O} e1 e2.
Arguments sim {O} r1 r2.
