(** C09 -- proofs about destructuring: the binding lists emitted by the (repaired) macros
    compute, on the names a user can write, exactly the environment of the specification,
    for every pattern of any nesting, every value and every oracle. *)
From Coq Require Import List NArith Bool Lia.
Import ListNotations.
From Verif Require Import Common.ListX C09.DLang C09.Destructure C09.DSpec.

Section Proofs.
  Variable O : oracle.
  Variable datum_of : expr O -> val O.
  Notation val := (val O).
  Notation expr := (expr O).
  Notation env := (env O).
  Notation pat := (pat O).
  Notation pats := (pats O).
  Notation pentries := (pentries O).
  Notation ddef := (ddef O).
  Notation ddefs := (ddefs O).
  Notation dentries := (dentries O).
  Notation mkdef := (mkdef O).
  Notation mkdefs := (mkdefs O).
  Notation mkentries := (mkentries O).
  Notation dbind := (dbind O cur_shape datum_of).
  Notation dbind_seq := (dbind_seq O cur_shape datum_of).
  Notation dbind_nested := (dbind_nested O cur_shape datum_of).
  Notation dbind_ns := (dbind_ns O cur_shape datum_of).
  Notation named_bindings := (named_bindings O cur_shape datum_of).
  Notation child_bindings := (child_bindings O).
  Notation dname := (dname O).
  Notation is_sym := (is_sym O).
  Notation bind := (bind O).
  Notation bind_seq := (bind_seq O).
  Notation bind_others := (bind_others O).

  (** * Generic facts about let* *)
  Lemma eval_let_app (l1 l2 : list (name * expr)) : forall en,
    eval_let (l1 ++ l2) en = (en1 <- eval_let l1 en ;; eval_let l2 en1).
  Proof.
    induction l1 as [|[x e] t IH]; intro en; simpl; [reflexivity|].
    destruct (eval en e); simpl; [apply IH|reflexivity].
  Qed.

  Lemma eval_let_frame (bs : list (name * expr)) : forall en en' y,
    eval_let bs en = Ok en' -> ~ In y (map fst bs) -> lookup y en' = lookup y en.
  Proof.
    induction bs as [|[x e] t IH]; intros en en' y H N; simpl in *.
    - inversion H; reflexivity.
    - destruct (eval en e) as [v|c] eqn:E; simpl in H; [|discriminate].
      rewrite (IH _ _ _ H) by tauto. simpl.
      destruct (name_eqb y x) eqn:Q; [|reflexivity].
      apply name_eqb_eq in Q. subst. tauto.
  Qed.

  (** environments with the same lookups are interchangeable *)
  Definition equiv (e1 e2 : env) : Prop := forall y, lookup y e1 = lookup y e2.

  Lemma eval_equiv (e : expr) : forall a b, equiv a b -> eval a e = eval b e.
  Proof.
    induction e; intros a b Q; simpl;
      try rewrite (IHe _ _ Q); try rewrite (IHe1 _ _ Q); try rewrite (IHe2 _ _ Q);
      try rewrite (IHe3 _ _ Q); try reflexivity.
    rewrite Q; reflexivity.
  Qed.

  Lemma equiv_cons x v (e1 e2 : env) : equiv e1 e2 -> equiv ((x, v) :: e1) ((x, v) :: e2).
  Proof. intros Q y; simpl. destruct (name_eqb y x); [reflexivity|apply Q]. Qed.

  Definition requiv (r1 r2 : res env) : Prop :=
    match r1, r2 with
    | Ok a, Ok b => equiv a b
    | Err a, Err b => a = b
    | _, _ => False
    end.

  Lemma eval_let_equiv (bs : list (name * expr)) : forall e1 e2,
    equiv e1 e2 -> requiv (eval_let bs e1) (eval_let bs e2).
  Proof.
    induction bs as [|[x e] t IH]; intros e1 e2 Q; simpl; [exact Q|].
    rewrite (eval_equiv e _ _ Q). destruct (eval e2 e); simpl; [|reflexivity].
    apply IH, equiv_cons, Q.
  Qed.

  Lemma equiv_top x v (en : env) : lookup x en = Some v -> equiv ((x, v) :: en) en.
  Proof.
    intros H y; simpl. destruct (name_eqb y x) eqn:Q; [|reflexivity].
    apply name_eqb_eq in Q; subst; symmetry; exact H.
  Qed.

  Lemma agree_equiv_l (a b c : env) : equiv a b -> agree b c -> agree a c.
  Proof. intros Q A x; rewrite Q; apply A. Qed.

  Lemma sim_requiv_l (r1 r1' r2 : res env) : requiv r1 r1' -> sim r1' r2 -> sim r1 r2.
  Proof.
    destruct r1, r1', r2; simpl; intros Q S; try contradiction; try congruence;
      try (eapply agree_equiv_l; eassumption).
  Qed.

  Lemma agree_cons x v (e1 e2 : env) : agree e1 e2 -> agree ((NU x, v) :: e1) ((NU x, v) :: e2).
  Proof. intros A y; simpl. destruct (str_eqb y x); [reflexivity|apply A]. Qed.

  Lemma agree_tmp k v (e1 e2 : env) : agree e1 e2 -> agree ((NG k, v) :: e1) e2.
  Proof. intros A y; simpl; apply A. Qed.

  Lemma agree_refl (e : env) : agree e e.
  Proof. intro; reflexivity. Qed.

  (** user expressions only see user names *)
  Lemma eval_agree (e : expr) : forall a b, user_expr e = true -> agree a b -> eval a e = eval b e.
  Proof.
    induction e; intros a b U A; simpl in *;
      repeat match goal with H : _ && _ = true |- _ => apply andb_true_iff in H; destruct H end;
      try rewrite (IHe _ _ U A);
      try (rewrite (IHe1 a b), (IHe2 a b) by assumption);
      try (rewrite (IHe3 a b) by assumption);
      try reflexivity.
    destruct x; [rewrite A; reflexivity|discriminate].
  Qed.

  (** sim with a continuation *)
  Lemma sim_bind (r1 r2 : res env) (k1 k2 : env -> res env) :
    sim r1 r2 -> (forall a b, r1 = Ok a -> r2 = Ok b -> agree a b -> sim (k1 a) (k2 b)) ->
    sim (bindr r1 k1) (bindr r2 k2).
  Proof.
    destruct r1, r2; simpl; intros S K; try contradiction; [|exact S].
    apply K; auto.
  Qed.

  (** * Which names a binding list binds *)
  Definition usr_in (l : list str) (y : name) : Prop := exists x, y = NU x /\ In x l.
  Definition tmp_in (n n' : N) (y : name) : Prop := exists k, y = NG k /\ (n <= k < n')%N.

  Lemma usr_incl l l' y : usr_in l y -> incl l l' -> usr_in l' y.
  Proof. intros [x [E I]] H; exists x; split; [exact E|apply H, I]. Qed.

  Lemma tmp_widen a b a' b' y : tmp_in a b y -> (a' <= a)%N -> (b <= b')%N -> tmp_in a' b' y.
  Proof. intros [k [E I]] H1 H2; exists k; split; [exact E|lia]. Qed.

  Lemma names_widen l l' a b a' b' y :
    usr_in l y \/ tmp_in a b y -> incl l l' -> (a' <= a)%N -> (b <= b')%N ->
    usr_in l' y \/ tmp_in a' b' y.
  Proof. intros [H|H] I H1 H2; [left; eapply usr_incl; eauto|right; eapply tmp_widen; eauto]. Qed.

  Lemma alias_name_facts a n nm n1 :
    alias_name a n = (nm, n1) ->
    (n <= n1)%N /\ (usr_in (opt_list a) nm \/ tmp_in n n1 nm).
  Proof.
    destruct a as [x|]; simpl; intro H; inversion H; subst; split; try lia.
    - left; exists x; simpl; auto.
    - right; exists n; split; [reflexivity|lia].
  Qed.

  Lemma mkdef_shape p n d n' :
    mkdef p n = (d, n') ->
    is_sym d = is_psym p /\
    dname d = match p with PSym x => NU x | _ => fst (alias_name (pat_alias p) n) end.
  Proof.
    destruct p; simpl; intro H.
    - inversion H; subst; simpl; auto.
    - destruct (alias_name as_ n) as [nm n1]; destruct (mkdefs ps n1) as [cs n2].
      inversion H; subst; simpl; auto.
    - destruct (alias_name as_ n) as [nm n1]; destruct (mkentries es n1) as [cs n2].
      inversion H; subst; simpl; auto.
  Qed.

  Ltac inapp H := repeat (first [rewrite map_app in H | rewrite in_app_iff in H]).

  Lemma names_get_binding b nm k d : fst (get_binding O b nm k d) = b.
  Proof. destruct d; reflexivity. Qed.

  Lemma names_kw nm ors l y :
    In y (map fst (map (kw_binding O nm ors) l)) -> usr_in (map snd l) y.
  Proof.
    rewrite map_map. intro H. apply in_map_iff in H as [q [E I]].
    unfold kw_binding in E. rewrite names_get_binding in E. subst.
    exists (snd q); split; [reflexivity|apply in_map, I].
  Qed.
  Lemma names_sym nm ors l y :
    In y (map fst (map (sym_binding O nm ors) l)) -> usr_in (map snd l) y.
  Proof.
    rewrite map_map. intro H. apply in_map_iff in H as [q [E I]].
    unfold sym_binding in E. rewrite names_get_binding in E. subst.
    exists (snd q); split; [reflexivity|apply in_map, I].
  Qed.
  Lemma names_str nm ors l y :
    In y (map fst (map (str_binding O nm ors) l)) -> usr_in l y.
  Proof.
    rewrite map_map. intro H. apply in_map_iff in H as [q [E I]].
    unfold str_binding in E. rewrite names_get_binding in E. subst.
    exists q; split; [reflexivity|exact I].
  Qed.

  Lemma names_named_binding nm ors k b : fst (named_binding O cur_shape datum_of nm ors k b) = b.
  Proof. unfold named_binding. destruct (ors_get O ors b); reflexivity. Qed.

  Lemma names_facts :
    (forall p n d n', mkdef p n = (d, n') ->
        (n <= n')%N /\ (usr_in (binders p) (dname d) \/ tmp_in n n' (dname d)) /\
        forall y, In y (map fst (dbind d)) -> usr_in (binders p) y \/ tmp_in n n' y)
    /\ (forall ps n cs n', mkdefs ps n = (cs, n') ->
        (n <= n')%N /\
        forall nm i y, In y (map fst (dbind_seq nm i cs)) ->
                       usr_in (binders_seq ps) y \/ tmp_in n n' y)
    /\ (forall es n cs n', mkentries es n = (cs, n') ->
        (n <= n')%N /\
        (forall nm ors y, In y (map fst (named_bindings nm ors cs)) -> usr_in (binders_named es) y) /\
        (forall nm y, In y (map fst (child_bindings nm cs)) ->
                      usr_in (binders_others es) y \/ tmp_in n n' y) /\
        (forall y, In y (map fst (dbind_nested cs)) ->
                   usr_in (binders_others es) y \/ tmp_in n n' y)).
  Proof.
    apply pat_mutind.
    - (* PSym *)
      intros x n d n' H. simpl in H. inversion H; subst. simpl. split; [lia|]. split.
      + left; exists x; simpl; auto.
      + tauto.
    - (* PVec *)
      intros ps IH rest as_ n d n' H. simpl in H.
      destruct (alias_name as_ n) as [nm n1] eqn:EA.
      destruct (mkdefs ps n1) as [cs n2] eqn:EC. inversion H; subst; clear H.
      destruct (alias_name_facts _ _ _ _ EA) as [L1 NM].
      destruct (IH _ _ _ EC) as [L2 SEQ]. simpl.
      split; [lia|]. split.
      + eapply names_widen; [exact NM| |lia|lia]. intros z Hz; apply in_or_app; auto.
      + intros y Hy. rewrite app_nil_r in Hy. inapp Hy. destruct Hy as [Hy|Hy].
        * eapply names_widen; [eapply SEQ; exact Hy| |lia|lia].
          intros z Hz. apply in_or_app; right; apply in_or_app; auto.
        * destruct rest as [r|]; simpl in Hy; [|tauto]. destruct Hy as [Hy|[]]. subst.
          left; exists r; split; [reflexivity|].
          apply in_or_app; right; apply in_or_app; right; simpl; auto.
    - (* PMap *)
      intros kg strs sg es IH ors as_ n d n' H. simpl in H.
      destruct (alias_name as_ n) as [nm n1] eqn:EA.
      destruct (mkentries es n1) as [cs n2] eqn:EC. inversion H; subst; clear H.
      destruct (alias_name_facts _ _ _ _ EA) as [L1 NM].
      destruct (IH _ _ _ EC) as [L2 [NAMED [CHILD NESTED]]]. simpl.
      split; [lia|].
      assert (NM' : usr_in (opt_list as_ ++ map snd (norm_groups kg) ++ strs ++
                            map snd (norm_groups sg) ++ binders_named es ++ binders_others es) nm
                    \/ tmp_in n n' nm).
      { eapply names_widen; [exact NM| |lia|lia]. intros z Hz; apply in_or_app; auto. }
      split; [exact NM'|].
      intros y [Hy|Hy]; [subst; exact NM'|].
      inapp Hy.
      destruct Hy as [Hy|[Hy|[Hy|[Hy|[Hy|Hy]]]]].
      + left. eapply usr_incl; [eapply names_kw; exact Hy|].
        intros z Hz. apply in_or_app; right; apply in_or_app; auto.
      + left. eapply usr_incl; [eapply names_str; exact Hy|].
        intros z Hz. apply in_or_app; right; apply in_or_app; right; apply in_or_app; auto.
      + left. eapply usr_incl; [eapply names_sym; exact Hy|].
        intros z Hz. do 3 (apply in_or_app; right). apply in_or_app; auto.
      + left. eapply usr_incl; [eapply NAMED; exact Hy|].
        intros z Hz. do 4 (apply in_or_app; right). apply in_or_app; auto.
      + eapply names_widen; [eapply CHILD; exact Hy| |lia|lia].
        intros z Hz. do 5 (apply in_or_app; right). exact Hz.
      + eapply names_widen; [eapply NESTED; exact Hy| |lia|lia].
        intros z Hz. do 5 (apply in_or_app; right). exact Hz.
    - (* PNil *)
      intros n cs n' H. simpl in H. inversion H; subst. split; [lia|]. simpl; tauto.
    - (* PCons *)
      intros p IHp t IHt n cs n' H. simpl in H.
      destruct (mkdef p n) as [d n1] eqn:ED. destruct (mkdefs t n1) as [ds n2] eqn:ET.
      inversion H; subst; clear H.
      destruct (IHp _ _ _ ED) as [L1 [DN DB]]. destruct (IHt _ _ _ ET) as [L2 SEQ].
      split; [lia|]. intros nm i y Hy. simpl in Hy.
      destruct Hy as [Hy|Hy].
      + subst. eapply names_widen; [exact DN| |lia|lia]. intros z Hz; apply in_or_app; auto.
      + inapp Hy. destruct Hy as [Hy|Hy].
        * destruct (is_sym d); [simpl in Hy; tauto|].
          eapply names_widen; [apply DB; exact Hy| |lia|lia]. intros z Hz; apply in_or_app; auto.
        * eapply names_widen; [eapply SEQ; exact Hy| |lia|lia]. intros z Hz; apply in_or_app; auto.
    - (* MNil *)
      intros n cs n' H. simpl in H. inversion H; subst. split; [lia|]. simpl. tauto.
    - (* MCons *)
      intros p IHp k t IHt n cs n' H. simpl in H.
      destruct (mkdef p n) as [d n1] eqn:ED. destruct (mkentries t n1) as [ds n2] eqn:ET.
      inversion H; subst; clear H.
      destruct (IHp _ _ _ ED) as [L1 [DN DB]]. destruct (IHt _ _ _ ET) as [L2 [NAMED [CHILD NESTED]]].
      destruct (mkdef_shape _ _ _ _ ED) as [SY DNAME].
      split; [lia|]. split; [|split].
      + intros nm ors y Hy. simpl in Hy. inapp Hy. destruct Hy as [Hy|Hy].
        * rewrite SY in Hy. destruct p; simpl in Hy; try tauto.
          destruct Hy as [Hy|[]]. rewrite names_named_binding, DNAME in Hy. subst.
          exists x; simpl; auto.
        * eapply usr_incl; [eapply NAMED; exact Hy|]. intros z Hz; simpl; apply in_or_app; auto.
      + intros nm y Hy. simpl in Hy. inapp Hy. destruct Hy as [Hy|Hy].
        * rewrite SY in Hy. simpl. destruct (is_psym p); simpl in Hy; [tauto|].
          destruct Hy as [Hy|[]]. subst.
          eapply names_widen; [exact DN| |lia|lia]. intros z Hz; apply in_or_app; auto.
        * eapply names_widen; [eapply CHILD; exact Hy| |lia|lia]. intros z Hz; simpl; apply in_or_app; auto.
      + intros y Hy. simpl in Hy. inapp Hy. destruct Hy as [Hy|Hy].
        * rewrite SY in Hy. simpl. destruct (is_psym p); simpl in Hy; [tauto|].
          eapply names_widen; [apply DB; exact Hy| |lia|lia]. intros z Hz; apply in_or_app; auto.
        * eapply names_widen; [eapply NESTED; exact Hy| |lia|lia]. intros z Hz; simpl; apply in_or_app; auto.
  Qed.

  (** * The emitted expressions compute what the specification says *)
  Lemma eval_kwargs nm (en : env) x :
    lookup nm en = Some x -> eval en (kwargs_expr O nm) = coerce O x.
  Proof.
    intro H. unfold kwargs_expr, coerce. simpl. rewrite H. simpl.
    destruct (seqp O x); [|reflexivity].
    destruct (next_ O x); simpl; [|reflexivity]. destruct (truthy O a); reflexivity.
  Qed.

  Lemma get_binding_eta b nm k d :
    get_binding O b nm k d = (b, snd (get_binding O b nm k d)).
  Proof. destruct d; reflexivity. Qed.

  Lemma assoc_user (ors : list (str * expr)) x de :
    forall_snd user_expr ors = true -> assoc x ors = Some de -> user_expr de = true.
  Proof.
    unfold forall_snd. induction ors as [|[y e] t IH]; simpl; intros U H; [discriminate|].
    apply andb_true_iff in U as [U1 U2]. destruct (str_eqb x y); [inversion H; subst; exact U1|auto].
  Qed.

  Lemma eval_get_binding b nm k d (em es : env) m :
    lookup nm em = Some m -> agree em es -> user_expr k = true ->
    (forall de, d = Some de -> user_expr de = true) ->
    eval em (snd (get_binding O b nm k d)) = (kv <- eval es k ;; get_or O m kv d es).
  Proof.
    intros L A Uk Ud. destruct d as [de|]; simpl; rewrite L; simpl;
      rewrite (eval_agree k _ _ Uk A); destruct (eval es k); simpl; try reflexivity.
    rewrite (eval_agree de _ _ (Ud _ eq_refl) A). reflexivity.
  Qed.

  Lemma lookup_cons_ne x y v (en : env) : x <> y -> lookup x ((y, v) :: en) = lookup x en.
  Proof. intro N. simpl. apply name_eqb_neq in N. rewrite N. reflexivity. Qed.

  Lemma consts_sim {A} (mk : A -> val) (nmof : A -> str) nm ors m (l : list A) :
    forall_snd user_expr ors = true ->
    forall em es, agree em es -> lookup nm em = Some m ->
    (forall q, In q l -> nm <> NU (nmof q)) ->
    sim (eval_let (map (fun q => get_binding O (NU (nmof q)) nm (EConst (mk q))
                                             (assoc (nmof q) ors)) l) em)
        (bind_consts O mk nmof l ors m es).
  Proof.
    intro U. induction l as [|q t IH]; intros em es AG L N; simpl; [exact AG|].
    rewrite get_binding_eta. simpl eval_let.
    rewrite (eval_get_binding (NU (nmof q)) nm (EConst (mk q)) (assoc (nmof q) ors) em es m L AG eq_refl) by (intros de E; eapply assoc_user; eauto).
    simpl. destruct (get_or O m (mk q) (assoc (nmof q) ors) es) as [x|c]; simpl; [|reflexivity].
    apply IH.
    - apply agree_cons, AG.
    - rewrite lookup_cons_ne; [exact L|apply N; simpl; auto].
    - intros q' I; apply N; simpl; auto.
  Qed.

  Lemma named_sim (es : pentries) : forall n cs n' nm ors m em es',
    mkentries es n = (cs, n') -> user_entries es = true -> forall_snd user_expr ors = true ->
    agree em es' -> lookup nm em = Some m -> (forall x, In x (binders_named es) -> nm <> NU x) ->
    sim (eval_let (named_bindings nm ors cs) em) (bind_named O es ors m es').
  Proof.
    induction es as [|p k t IH]; intros n cs n' nm ors m em es' H U Uo A L N; simpl in H.
    - inversion H; subst. simpl. exact A.
    - destruct (mkdef p n) as [d n1] eqn:ED. destruct (mkentries t n1) as [ds n2] eqn:ET.
      inversion H; subst; clear H. simpl in U.
      apply andb_true_iff in U as [U U3]. apply andb_true_iff in U as [U1 U2].
      destruct (mkdef_shape _ _ _ _ ED) as [SY DN].
      simpl named_bindings. rewrite SY.
      destruct p as [x| |]; simpl is_psym; cbv iota.
      + rewrite DN. unfold named_binding. simpl ors_get. simpl quote_or_key. cbv iota.
        change (match assoc x ors with
                | Some de => (NU x, EGet3 (EVar nm) k de)
                | None => (NU x, EGet2 (EVar nm) k)
                end) with (get_binding O (NU x) nm k (assoc x ors)).
        rewrite get_binding_eta. simpl app. simpl eval_let.
        rewrite (eval_get_binding _ _ _ _ em es' m L A U2) by (intros de E; eapply assoc_user; eauto).
        simpl bind_named. destruct (eval es' k) as [kv|c]; simpl; [|reflexivity].
        destruct (get_or O m kv (assoc x ors) es') as [v|c]; simpl; [|reflexivity].
        eapply IH; eauto.
        * apply agree_cons, A.
        * rewrite lookup_cons_ne; [exact L|apply N; simpl; auto].
        * intros y I; apply N; simpl; auto.
      + simpl. eapply IH; eauto.
      + simpl. eapply IH; eauto.
  Qed.

  (** * Nested {pattern key} entries: values first, patterns afterwards *)
  Fixpoint others_d (cs : dentries) : list ddef :=
    match cs with
    | KNil => []
    | KCons _ c t => (if is_sym c then [] else [c]) ++ others_d t
    end.

  Definition bound_to (ds : list ddef) (xs : list val) (en : env) : Prop :=
    Forall2 (fun c x => lookup (dname c) en = Some x) ds xs.

  Lemma child_names nm (cs : dentries) :
    map fst (child_bindings nm cs) = map dname (others_d cs).
  Proof.
    induction cs as [|k c t IH]; simpl; [reflexivity|].
    rewrite !map_app, IH. destruct (is_sym c); reflexivity.
  Qed.

  Lemma others_names (es : pentries) : forall n cs n',
    mkentries es n = (cs, n') ->
    forall c, In c (others_d cs) -> usr_in (later_aliases es) (dname c) \/ tmp_in n n' (dname c).
  Proof.
    induction es as [|p k t IH]; intros n cs n' H c I; simpl in H.
    - inversion H; subst. simpl in I. tauto.
    - destruct (mkdef p n) as [d n1] eqn:ED. destruct (mkentries t n1) as [ds n2] eqn:ET.
      inversion H; subst; clear H.
      destruct (mkdef_shape _ _ _ _ ED) as [SY DN].
      destruct (proj1 names_facts _ _ _ _ ED) as [L1 _].
      destruct (proj2 (proj2 names_facts) _ _ _ _ ET) as [L2 _].
      simpl in I. apply in_app_iff in I as [I|I].
      + rewrite SY in I. simpl. destruct (is_psym p) eqn:PS; simpl in I; [tauto|].
        destruct I as [I|[]]. subst c.
        destruct (proj1 names_facts _ _ _ _ ED) as [_ [[[a [E1 I1]]|T] _]].
        * left. rewrite DN in E1. rewrite DN.
          destruct p as [x| |]; try discriminate; simpl pat_alias in *;
            (destruct as_ as [a'|]; simpl in E1; [|discriminate]; simpl;
             exists a'; split; [reflexivity|simpl; auto]).
        * right. eapply tmp_widen; [exact T|lia|lia].
      + destruct (IH _ _ _ ET c I) as [Q|Q].
        * left. eapply usr_incl; [exact Q|]. intros z Hz; simpl; apply in_or_app; auto.
        * right. eapply tmp_widen; [exact Q|lia|lia].
  Qed.

  Lemma bound_to_frame ds xs (e1 e2 : env) :
    bound_to ds xs e1 -> (forall c, In c ds -> lookup (dname c) e2 = lookup (dname c) e1) ->
    bound_to ds xs e2.
  Proof.
    unfold bound_to. induction 1; intro F; constructor.
    - rewrite F; [assumption|simpl; auto].
    - apply IHForall2. intros c I; apply F; simpl; auto.
  Qed.

  Lemma forallb_mem_false (l bs : list str) a :
    forallb (fun a => negb (mem a bs)) l = true -> In a l -> ~ In a bs.
  Proof.
    intros F I. rewrite forallb_forall in F. specialize (F _ I).
    apply negb_true_iff in F. apply mem_false in F. exact F.
  Qed.

  (** a name bound inside the block of pattern [p] (allocated from counter n to n1) differs
      from the names of the nested entries that follow it *)
  Lemma later_differs (p : pat) n d n1 (t : pentries) ds n2 y c :
    mkdef p n = (d, n1) -> mkentries t n1 = (ds, n2) ->
    forallb (fun a => negb (mem a (binders p))) (later_aliases t) = true ->
    usr_in (binders p) y \/ tmp_in n n1 y ->
    In c (others_d ds) -> dname c <> y.
  Proof.
    intros ED ET F Y I E.
    destruct (others_names _ _ _ _ ET c I) as [[a [E1 I1]]|[k [E1 R1]]];
      destruct Y as [[b [E2 I2]]|[k2 [E2 R2]]]; rewrite E in E1; rewrite E1 in E2;
      inversion E2; subst.
    - eapply forallb_mem_false; eauto.
    - lia.
  Qed.

  Lemma child_sim (es : pentries) : forall n cs n' nm m em es',
    mkentries es n = (cs, n') -> user_entries es = true -> others_ok es = true ->
    agree em es' -> lookup nm em = Some m ->
    (forall x, In x (binders_others es) -> nm <> NU x) -> (forall k, nm = NG k -> (k < n)%N) ->
    match eval_let (child_bindings nm cs) em, fetch_others O es m es' with
    | Ok em1, Ok r => agree em1 (snd r) /\ bound_to (others_d cs) (fst r) em1
    | Err a, Err b => a = b
    | _, _ => False
    end.
  Proof.
    induction es as [|p k t IH]; intros n cs n' nm m em es' H U OK AG L N1 N2; simpl in H.
    - inversion H; subst. simpl. split; [exact AG|constructor].
    - destruct (mkdef p n) as [d n1] eqn:ED. destruct (mkentries t n1) as [ds n2] eqn:ET.
      inversion H; subst; clear H. simpl in U, OK.
      apply andb_true_iff in U as [U U3]. apply andb_true_iff in U as [U1 U2].
      apply andb_true_iff in OK as [OK1 OK2].
      destruct (mkdef_shape _ _ _ _ ED) as [SY DN].
      destruct (proj1 names_facts _ _ _ _ ED) as [L1 [DNF _]].
      simpl child_bindings. simpl others_d. simpl fetch_others. rewrite SY.
      destruct (is_psym p) eqn:PS.
      + simpl. eapply IH; eauto.
        * intros x I. apply N1. simpl. rewrite PS. exact I.
        * intros k0 E. specialize (N2 _ E). lia.
      + simpl app. simpl eval_let. rewrite L. simpl.
        rewrite (eval_agree k _ _ U2 AG). destruct (eval es' k) as [kv|c]; simpl; [|reflexivity].
        destruct (get_ O m kv (vnil O)) as [x|c]; simpl; [|reflexivity].
        assert (AG' : agree ((dname d, x) :: em) (bind_as (pat_alias p) x es')).
        { rewrite DN. destruct p as [z| |]; try discriminate; simpl pat_alias;
            (destruct as_ as [a|]; simpl; [apply agree_cons, AG|apply agree_tmp, AG]). }
        assert (NE : nm <> dname d).
        { intro E. destruct DNF as [[a [E1 I1]]|[k0 [E1 R1]]].
          - apply (N1 a); [simpl; rewrite PS; apply in_or_app; auto|congruence].
          - specialize (N2 k0). rewrite E, E1 in N2. specialize (N2 eq_refl). lia. }
        assert (L' : lookup nm ((dname d, x) :: em) = Some m)
          by (rewrite lookup_cons_ne; [exact L|exact NE]).
        specialize (IH n1 ds n' nm m _ _ ET U3 OK2 AG' L').
        destruct (eval_let (child_bindings nm ds) ((dname d, x) :: em)) as [em1|c1] eqn:EV;
          destruct (fetch_others O t m (bind_as (pat_alias p) x es')) as [[xs es1]|c2];
          simpl in *.
        * destruct IH as [A1 B1].
          { intros z I. apply N1. simpl. rewrite PS. apply in_or_app; auto. }
          { intros k0 E. specialize (N2 _ E). lia. }
          split; [exact A1|]. constructor; [|exact B1].
          rewrite (eval_let_frame _ _ _ _ EV).
          { simpl. rewrite name_eqb_refl. reflexivity. }
          { rewrite child_names. intro I. apply in_map_iff in I as [c [E I]].
            eapply later_differs; eauto. }
        * apply IH; [intros z I; apply N1; simpl; rewrite PS; apply in_or_app; auto
                    |intros k0 E; specialize (N2 _ E); lia].
        * apply IH; [intros z I; apply N1; simpl; rewrite PS; apply in_or_app; auto
                    |intros k0 E; specialize (N2 _ E); lia].
        * apply IH; [intros z I; apply N1; simpl; rewrite PS; apply in_or_app; auto
                    |intros k0 E; specialize (N2 _ E); lia].
  Qed.

  (** * The simulation *)
  Definition nm_safe (nm : name) (n : N) (bs : list str) : Prop :=
    (forall x, In x bs -> nm <> NU x) /\ (forall k, nm = NG k -> (k < n)%N).

  Lemma safe_notin nm n n' L (bs : list (name * expr)) :
    (forall y, In y (map fst bs) -> usr_in L y \/ tmp_in n n' y) -> nm_safe nm n L ->
    ~ In nm (map fst bs).
  Proof.
    intros F [S1 S2] I. destruct (F _ I) as [[a [E I1]]|[k [E R]]].
    - exact (S1 _ I1 E).
    - specialize (S2 _ E). lia.
  Qed.

  Lemma nm_safe_incl nm n n1 L L' : nm_safe nm n L -> incl L' L -> (n <= n1)%N -> nm_safe nm n1 L'.
  Proof.
    intros [S1 S2] I LE. split; [intros x Hx; apply S1, I, Hx|intros k E; specialize (S2 _ E); lia].
  Qed.

  Lemma sim_seg (bs rest_bs : list (name * expr)) (r2 : res env) (k : env -> res env) nm m em :
    sim (eval_let bs em) r2 ->
    ~ In nm (map fst bs) -> lookup nm em = Some m ->
    (forall em' es', agree em' es' -> lookup nm em' = Some m -> sim (eval_let rest_bs em') (k es')) ->
    sim (eval_let (bs ++ rest_bs) em) (bindr r2 k).
  Proof.
    intros S NI L K. rewrite eval_let_app. apply sim_bind; [exact S|].
    intros a b E1 E2 AG. apply K; [exact AG|].
    rewrite (eval_let_frame _ _ _ _ E1 NI). exact L.
  Qed.

  Lemma agree_shadow a (m x : val) (em es : env) :
    agree em es -> agree ((NU a, m) :: (NU a, x) :: em) ((NU a, m) :: es).
  Proof. intros AG y; simpl. destruct (str_eqb y a); [reflexivity|apply AG]. Qed.

  Lemma alias_safe as_ n nm n1 L :
    alias_name as_ n = (nm, n1) -> alias_free as_ L = true -> nm_safe nm n1 L.
  Proof.
    destruct as_ as [a|]; simpl; intros E F; inversion E; subst; split.
    - intros x I Q. inversion Q; subst. apply negb_true_iff, mem_false in F. tauto.
    - intros k Q; discriminate.
    - intros x I Q; discriminate.
    - intros k Q. inversion Q; subst. lia.
  Qed.

  Lemma eval_let_cons x e (t : list (name * expr)) (en : env) :
    eval_let ((x, e) :: t) en = (v <- eval en e ;; eval_let t ((x, v) :: en)).
  Proof. reflexivity. Qed.

  Lemma dbind_ns_names (c : ddef) y : In y (map fst (dbind_ns c)) -> In y (map fst (dbind c)).
  Proof. unfold Destructure.dbind_ns. destruct (is_sym c); simpl; tauto. Qed.

  Lemma dbind_sim :
    (forall p n d n' em es x,
        mkdef p n = (d, n') -> user_pat p = true -> alias_ok p = true -> agree em es ->
        sim (eval_let (dbind_ns d) ((dname d, x) :: em)) (bind p x es))
    /\ (forall ps n cs n' nm i em es x,
        mkdefs ps n = (cs, n') -> user_pats ps = true -> alias_ok_seq ps = true ->
        agree em es -> lookup nm em = Some x -> nm_safe nm n (binders_seq ps) ->
        sim (eval_let (dbind_seq nm i cs) em) (bind_seq ps i x es))
    /\ (forall es n cs n' em es' xs,
        mkentries es n = (cs, n') -> user_entries es = true -> alias_ok_entries es = true ->
        others_ok es = true -> agree em es' -> bound_to (others_d cs) xs em ->
        sim (eval_let (dbind_nested cs) em) (bind_others es xs es')).
  Proof.
    apply pat_mutind.
    - (* PSym *)
      intros x0 n d n' em es x H _ _ AG. simpl in H. inversion H; subst. simpl.
      apply agree_cons, AG.
    - (* PVec *)
      intros ps IH rest as_ n d n' em es x H U OK AG. simpl in H.
      destruct (alias_name as_ n) as [nm n1] eqn:EA.
      destruct (mkdefs ps n1) as [cs n2] eqn:EC. inversion H; subst; clear H.
      simpl in U, OK. apply andb_true_iff in OK as [AF OK].
      pose proof (alias_safe _ _ _ _ _ EA AF) as SAFE.
      destruct (proj1 (proj2 names_facts) _ _ _ _ EC) as [L2 SEQN].
      unfold Destructure.dbind_ns. simpl is_sym. cbv iota. simpl dname. simpl dbind.
      rewrite app_nil_r. simpl bind.
      assert (AG0 : agree ((nm, x) :: em) (bind_as as_ x es)).
      { destruct as_ as [a|]; simpl in EA; inversion EA; subst; simpl;
          [apply agree_cons, AG|apply agree_tmp, AG]. }
      assert (L0 : lookup nm ((nm, x) :: em) = Some x) by (simpl; rewrite name_eqb_refl; reflexivity).
      eapply sim_seg with (nm := nm) (m := x).
      + eapply IH; eauto.
        eapply nm_safe_incl; [exact SAFE| |lia]. intros z Hz; apply in_or_app; auto.
      + eapply safe_notin; [intros y Hy; eapply SEQN; exact Hy|].
        eapply nm_safe_incl; [exact SAFE| |lia]. intros z Hz; apply in_or_app; auto.
      + exact L0.
      + intros em1 es1 AG1 L1. destruct rest as [r|]; simpl.
        * rewrite L1. simpl. destruct (nthnext_ O x (plen ps)); simpl; [apply agree_cons, AG1|reflexivity].
        * exact AG1.
    - (* PMap *)
      intros kg strs sg es0 IH ors as_ n d n' em es x H U OK AG. simpl in H.
      destruct (alias_name as_ n) as [nm n1] eqn:EA.
      destruct (mkentries es0 n1) as [cs n2] eqn:EC. inversion H; subst; clear H.
      simpl in U, OK. apply andb_true_iff in U as [Uo Ue].
      apply andb_true_iff in OK as [OK OKo]. apply andb_true_iff in OK as [AF OKe].
      pose proof (alias_safe _ _ _ _ _ EA AF) as SAFE.
      destruct (proj2 (proj2 names_facts) _ _ _ _ EC) as [L2 [NAMED [CHILD NESTED]]].
      unfold Destructure.dbind_ns. simpl is_sym. cbv iota. simpl dname. simpl dbind.
      rewrite eval_let_cons. simpl bind.
      rewrite (eval_kwargs nm ((nm, x) :: em) x) by (simpl; rewrite name_eqb_refl; reflexivity).
      destruct (coerce O x) as [m|c]; simpl; [|reflexivity].
      assert (AG0 : agree ((nm, m) :: (nm, x) :: em) (bind_as as_ m es)).
      { destruct as_ as [a|]; simpl in EA; inversion EA; subst; simpl;
          [apply agree_shadow, AG|apply agree_tmp, agree_tmp, AG]. }
      assert (L0 : lookup nm ((nm, m) :: (nm, x) :: em) = Some m)
        by (simpl; rewrite name_eqb_refl; reflexivity).
      set (Lall := map snd (norm_groups kg) ++ strs ++ map snd (norm_groups sg)
                   ++ binders_named es0 ++ binders_others es0) in *.
      (* :keys *)
      eapply sim_seg with (nm := nm) (m := m).
      { apply (consts_sim (fun q => vkw O (fst q) (snd q)) snd nm ors m (norm_groups kg) Uo _ _ AG0 L0).
        intros q I. apply (proj1 SAFE). unfold Lall. apply in_or_app; left. apply in_map, I. }
      { eapply safe_notin with (L := Lall) (n' := n'); [|exact SAFE].
        intros y Hy. left. eapply usr_incl; [eapply names_kw; exact Hy|].
        intros z Hz. unfold Lall. apply in_or_app; auto. }
      { exact L0. }
      intros em1 es1 AG1 L1.
      (* :strs *)
      eapply sim_seg with (nm := nm) (m := m).
      { apply (consts_sim (vstr O) (fun s => s) nm ors m strs Uo _ _ AG1 L1).
        intros q I. apply (proj1 SAFE). unfold Lall. apply in_or_app; right; apply in_or_app; auto. }
      { eapply safe_notin with (L := Lall) (n' := n'); [|exact SAFE].
        intros y Hy. left. eapply usr_incl; [eapply names_str; exact Hy|].
        intros z Hz. unfold Lall. apply in_or_app; right; apply in_or_app; auto. }
      { exact L1. }
      intros em2 es2 AG2 L2'.
      (* :syms *)
      eapply sim_seg with (nm := nm) (m := m).
      { apply (consts_sim (fun q => vsym O (fst q) (snd q)) snd nm ors m (norm_groups sg) Uo _ _ AG2 L2').
        intros q I. apply (proj1 SAFE). unfold Lall. do 2 (apply in_or_app; right).
        apply in_or_app; left. apply in_map, I. }
      { eapply safe_notin with (L := Lall) (n' := n'); [|exact SAFE].
        intros y Hy. left. eapply usr_incl; [eapply names_sym; exact Hy|].
        intros z Hz. unfold Lall. do 2 (apply in_or_app; right). apply in_or_app; auto. }
      { exact L2'. }
      intros em3 es3 AG3 L3.
      (* {sym key} *)
      eapply sim_seg with (nm := nm) (m := m).
      { eapply named_sim; eauto.
        intros z I. apply (proj1 SAFE). unfold Lall. do 3 (apply in_or_app; right).
        apply in_or_app; auto. }
      { eapply safe_notin with (L := Lall) (n' := n'); [|exact SAFE].
        intros y Hy. left. eapply usr_incl; [eapply NAMED; exact Hy|].
        intros z Hz. unfold Lall. do 3 (apply in_or_app; right). apply in_or_app; auto. }
      { exact L3. }
      intros em4 es4 AG4 L4.
      (* nested entries: values, then patterns *)
      rewrite eval_let_app.
      pose proof (child_sim es0 n1 cs n' nm m em4 es4 EC Ue OKo AG4 L4) as CS.
      destruct (eval_let (child_bindings nm cs) em4) as [em5|c1];
        destruct (fetch_others O es0 m es4) as [r|c2]; simpl in *.
      + destruct CS as [AG5 B5].
        { intros z I. apply (proj1 SAFE). unfold Lall. do 4 (apply in_or_app; right). exact I. }
        { apply (proj2 SAFE). }
        eapply IH; eauto.
      + exfalso; apply CS; [intros z I; apply (proj1 SAFE); unfold Lall; do 4 (apply in_or_app; right); exact I
                  |apply (proj2 SAFE)].
      + exfalso; apply CS; [intros z I; apply (proj1 SAFE); unfold Lall; do 4 (apply in_or_app; right); exact I
                  |apply (proj2 SAFE)].
      + apply CS; [intros z I; apply (proj1 SAFE); unfold Lall; do 4 (apply in_or_app; right); exact I
                  |apply (proj2 SAFE)].
    - (* PNil *)
      intros n cs n' nm i em es x H _ _ AG _ _. simpl in H. inversion H; subst. simpl. exact AG.
    - (* PCons *)
      intros p IHp t IHt n cs n' nm i em es x H U OK AG L SAFE. simpl in H.
      destruct (mkdef p n) as [d n1] eqn:ED. destruct (mkdefs t n1) as [ds n2] eqn:ET.
      inversion H; subst; clear H. simpl in U, OK.
      apply andb_true_iff in U as [U1 U2]. apply andb_true_iff in OK as [OK1 OK2].
      destruct (proj1 names_facts _ _ _ _ ED) as [L1 [DNF DBN]].
      simpl dbind_seq. simpl eval_let. rewrite L. simpl bind_seq. simpl.
      destruct (nth_ O x i) as [y|c]; simpl; [|reflexivity].
      change (if is_sym d then [] else dbind d) with (dbind_ns d).
      assert (NE : nm <> dname d).
      { intro E. destruct SAFE as [S1 S2]. destruct DNF as [[a [E1 I1]]|[k0 [E1 R1]]].
        - apply (S1 a); [simpl; apply in_or_app; auto|congruence].
        - specialize (S2 k0). rewrite E, E1 in S2. specialize (S2 eq_refl). lia. }
      eapply sim_seg with (nm := nm) (m := x).
      + eapply IHp; eauto.
      + intro I. apply dbind_ns_names in I. destruct SAFE as [S1 S2].
        destruct (DBN _ I) as [[a [E I1]]|[k0 [E R]]].
        * apply (S1 a); [simpl; apply in_or_app; auto|exact E].
        * specialize (S2 _ E). lia.
      + rewrite lookup_cons_ne; [exact L|exact NE].
      + intros em1 es1 AG1 L1'. eapply IHt; eauto.
        eapply nm_safe_incl; [exact SAFE| |lia]. intros z Hz; simpl; apply in_or_app; auto.
    - (* MNil *)
      intros n cs n' em es' xs H _ _ _ AG _. simpl in H. inversion H; subst. simpl. exact AG.
    - (* MCons *)
      intros p IHp k t IHt n cs n' em es' xs H U OK OKo AG B. simpl in H.
      destruct (mkdef p n) as [d n1] eqn:ED. destruct (mkentries t n1) as [ds n2] eqn:ET.
      inversion H; subst; clear H. simpl in U, OK, OKo.
      apply andb_true_iff in U as [U U3]. apply andb_true_iff in U as [U1 U2].
      apply andb_true_iff in OK as [OK1 OK2]. apply andb_true_iff in OKo as [OKo1 OKo2].
      destruct (mkdef_shape _ _ _ _ ED) as [SY DN].
      destruct (proj1 names_facts _ _ _ _ ED) as [L1 [DNF DBN]].
      simpl dbind_nested. simpl bind_others. simpl others_d in B. rewrite SY in *.
      destruct (is_psym p) eqn:PS.
      + simpl. eapply IHt; eauto.
      + simpl in B. inversion B as [|c0 x0 l0 xs' LK B']; subst; clear B.
        rewrite eval_let_app.
        apply sim_bind.
        * eapply sim_requiv_l.
          -- apply eval_let_equiv. intro y. symmetry. apply (equiv_top _ _ _ LK).
          -- pose proof (IHp n d n1 em es' x0 ED U1 OK1 AG) as S.
             unfold Destructure.dbind_ns in S. rewrite SY in S. exact S.
        * intros em1 es1 E1 E2 AG1. eapply IHt; eauto.
          eapply bound_to_frame; [exact B'|].
          intros c I. eapply eval_let_frame; [exact E1|].
          intro I2.
          exact (later_differs p n d n1 t ds n' (dname c) c ED ET OKo1 (DBN _ I2) I eq_refl).
  Qed.

  (** * Top level: (destructure [binding expr]) and the let macro *)
  Theorem destructure_sound p e n em es :
    user_pat p = true -> user_expr e = true -> alias_ok p = true -> agree em es ->
    sim (eval_let (fst (destructure O cur_shape datum_of p e n)) em)
        (v <- eval es e ;; bind p v es).
  Proof.
    intros U Ue OK AG. unfold destructure.
    destruct (mkdef p n) as [d n'] eqn:ED. simpl fst. rewrite eval_let_cons.
    rewrite (eval_agree e _ _ Ue AG). destruct (eval es e) as [v|c]; simpl; [|reflexivity].
    eapply (proj1 dbind_sim); eauto.
  Qed.

  Definition let_ok (bs : list (pat * expr)) : bool :=
    forallb (fun pe => user_pat (fst pe) && user_expr (snd pe) && alias_ok (fst pe)) bs.

  Theorem let_sound (bs : list (pat * expr)) : forall n em es,
    let_ok bs = true -> agree em es ->
    sim (eval_let (fst (let_bindings O cur_shape datum_of bs n)) em) (bind_let O bs es).
  Proof.
    induction bs as [|[p e] t IH]; intros n em es OK AG; simpl; [exact AG|].
    simpl in OK. apply andb_true_iff in OK as [OK1 OK2].
    apply andb_true_iff in OK1 as [OK1 OK1c]. apply andb_true_iff in OK1 as [OK1a OK1b].
    pose proof (destructure_sound p e n em es OK1a OK1b OK1c AG) as S.
    destruct (destructure O cur_shape datum_of p e n) as [l1 n1].
    destruct (let_bindings O cur_shape datum_of t n1) as [l2 n2] eqn:EL. simpl fst in *.
    rewrite eval_let_app.
    replace (v <- eval es e;; en1 <- bind p v es;; bind_let O t en1)
      with (en1 <- (v <- eval es e;; bind p v es);; bind_let O t en1)
      by (destruct (eval es e); reflexivity).
    apply sim_bind; [exact S|]. intros a b _ _ AG1.
    specialize (IH n1 a b OK2 AG1). rewrite EL in IH. exact IH.
  Qed.

  (** * Patterns with pairwise distinct binders satisfy the guard *)
  Lemma nodup_app {A} (l1 l2 : list A) :
    NoDup (l1 ++ l2) -> NoDup l1 /\ NoDup l2 /\ (forall x, In x l1 -> ~ In x l2).
  Proof.
    induction l1 as [|a t IH]; simpl; intro H.
    - split; [constructor|]. split; [exact H|]. tauto.
    - inversion H as [|? ? NI ND]; subst. destruct (IH ND) as [H1 [H2 H3]].
      split; [constructor; [intro I; apply NI, in_or_app; auto|exact H1]|].
      split; [exact H2|]. intros x [E|I]; [subst; intro I; apply NI, in_or_app; auto|auto].
  Qed.

  Lemma alias_free_nodup as_ L : NoDup (opt_list as_ ++ L) -> alias_free as_ L = true.
  Proof.
    destruct as_ as [a|]; simpl; intro H; [|reflexivity].
    inversion H; subst. apply negb_true_iff, mem_false. assumption.
  Qed.

  Lemma alias_in_binders (p : pat) a : pat_alias p = Some a -> In a (binders p).
  Proof. destruct p; simpl; intro H; try discriminate; subst; simpl; auto. Qed.

  Lemma later_aliases_incl (es : pentries) : incl (later_aliases es) (binders_others es).
  Proof.
    induction es as [|p k t IH]; simpl; intros a I; [tauto|].
    apply in_app_iff in I as [I|I]; apply in_or_app.
    - left. destruct (is_psym p); simpl in I; [tauto|].
      destruct (pat_alias p) as [b|] eqn:E; simpl in I; [|tauto].
      destruct I as [I|[]]; subst. apply alias_in_binders, E.
    - right. apply IH, I.
  Qed.

  Lemma distinct_alias_ok :
    (forall p : pat, NoDup (binders p) -> alias_ok p = true)
    /\ (forall ps : pats, NoDup (binders_seq ps) -> alias_ok_seq ps = true)
    /\ (forall es : pentries, NoDup (binders_others es) ->
                             alias_ok_entries es = true /\ others_ok es = true).
  Proof.
    apply pat_mutind.
    - reflexivity.
    - intros ps IH rest as_ H. simpl in *. apply andb_true_iff. split.
      + apply alias_free_nodup, H.
      + apply IH. apply nodup_app in H as [_ [H _]]. apply nodup_app in H as [H _]. exact H.
    - intros kg strs sg es IH ors as_ H. simpl in *.
      assert (Ho : NoDup (binders_others es)).
      { apply nodup_app in H as [_ [H _]]. do 4 (apply nodup_app in H as [_ [H _]]). exact H. }
      destruct (IH Ho) as [I1 I2].
      rewrite (alias_free_nodup _ _ H), I1, I2. reflexivity.
    - reflexivity.
    - intros p IHp t IHt H. simpl in *. apply nodup_app in H as [H1 [H2 _]].
      rewrite (IHp H1), (IHt H2). reflexivity.
    - intros _. split; reflexivity.
    - intros p IHp k t IHt H. simpl in *. apply nodup_app in H as [H1 [H2 H3]].
      destruct (IHt H2) as [I1 I2]. rewrite I1, I2.
      destruct (is_psym p) eqn:PS.
      + split; [|reflexivity]. destruct p; try discriminate. reflexivity.
      + rewrite (IHp H1). split; [reflexivity|]. rewrite andb_true_r.
        apply forallb_forall. intros a I. apply negb_true_iff, mem_false.
        intro I'. apply (H3 _ I'). apply later_aliases_incl, I.
  Qed.

  Theorem destructure_sound_distinct p e n em es :
    user_pat p = true -> user_expr e = true -> distinct_binders p -> agree em es ->
    sim (eval_let (fst (destructure O cur_shape datum_of p e n)) em)
        (v <- eval es e ;; bind p v es).
  Proof.
    intros U Ue D AG. apply destructure_sound; auto. apply (proj1 distinct_alias_ok), D.
  Qed.

  (** * fn parameters and loop bindings: the parameter / loop variable (the :as name or a
      temporary) is bound to the argument -- by the call, by loop*, or by recur -- and the
      let* placed in the body then binds what the pattern binds on that value. *)
  Theorem param_block_sound p n d n' em es v :
    mkdef p n = (d, n') -> user_pat p = true -> alias_ok p = true -> agree em es ->
    sim (eval_let (dbind_ns d) ((dname d, v) :: em)) (bind p v es).
  Proof. intros; eapply (proj1 dbind_sim); eauto. Qed.
End Proofs.
