(** C09 -- vocabulary shared by the model (Destructure.v) and the specification (DSpec.v) of
    destructuring: results, binder names, the ORACLE (nth / nthnext / get / seq? / next / first /
    apply hash-map / -collect-keyword-args: the functions the property names, kept abstract),
    the small expression language the destructuring macros emit code in, and the surface
    syntax of binding patterns. *)
From Coq Require Import List NArith Bool Lia.
Import ListNotations.
From Verif Require Import Common.ListX.

Inductive res (A : Type) := Ok (a : A) | Err (c : N).
Arguments Ok {A} a.
Arguments Err {A} c.

Definition bindr {A B} (r : res A) (f : A -> res B) : res B :=
  match r with Ok a => f a | Err c => Err c end.
Notation "x <- r ;; k" := (bindr r (fun x => k)) (at level 61, r at next level, right associativity).

(** exception class of "unable to resolve symbol" (a CompilerException at analysis time) *)
Definition E_UNBOUND : N := 9%N.

(** Binder names: symbols written by the user, and the temporaries `vec_arg__N` / `map_arg__N`
    produced by (gensym).  Keeping them in separate constructors is the usual abstraction of
    gensym: a user never writes a name the counter will produce (ASSUMPTIONS of the check). *)
Inductive name := NU (s : str) | NG (k : N).

Definition name_eqb (a b : name) : bool :=
  match a, b with
  | NU s, NU t => str_eqb s t
  | NG j, NG k => N.eqb j k
  | _, _ => false
  end.

Lemma name_eqb_eq a b : name_eqb a b = true <-> a = b.
Proof.
  destruct a, b; simpl; split; intro H; try discriminate; try reflexivity.
  - apply str_eqb_eq in H; congruence.
  - inversion H; apply str_eqb_eq; reflexivity.
  - apply N.eqb_eq in H; congruence.
  - inversion H; apply N.eqb_refl.
Qed.

Lemma name_eqb_refl a : name_eqb a a = true.
Proof. apply name_eqb_eq; reflexivity. Qed.

Lemma name_eqb_neq a b : name_eqb a b = false <-> a <> b.
Proof.
  split; intro H.
  - intro E; subst; rewrite name_eqb_refl in H; discriminate.
  - destruct (name_eqb a b) eqn:E; [apply name_eqb_eq in E; contradiction|reflexivity].
Qed.

Fixpoint assoc {A} (x : str) (l : list (str * A)) : option A :=
  match l with
  | [] => None
  | (y, a) :: t => if str_eqb x y then Some a else assoc x t
  end.

Fixpoint mem (x : str) (l : list str) : bool :=
  match l with [] => false | y :: t => str_eqb x y || mem x t end.

Lemma mem_In x l : mem x l = true <-> In x l.
Proof.
  induction l as [|y t IH]; simpl; [split; [discriminate|tauto]|].
  rewrite orb_true_iff, IH, str_eqb_eq. split; intros [H|H]; auto.
Qed.

Lemma mem_false x l : mem x l = false <-> ~ In x l.
Proof.
  rewrite <- mem_In. destruct (mem x l); split; intro H; try reflexivity; try discriminate;
    try (exfalso; apply H; reflexivity); try (intro; discriminate).
Qed.

(** The functions the property is stated in terms of.  Everything is proved for EVERY oracle;
    Values.v gives the executable instance the correspondence runs. *)
Record oracle := {
  val : Type;
  vnil : val;
  vkw : option str -> str -> val;          (* keyword literal  :ns/name *)
  vsym : option str -> str -> val;         (* (quote ns/name) *)
  vstr : str -> val;
  nth_ : val -> N -> res val;              (* (nth v i nil) *)
  nthnext_ : val -> N -> res val;          (* (nthnext v i) *)
  get_ : val -> val -> val -> res val;     (* (get m k default); (get m k) passes nil *)
  seqp : val -> bool;                      (* (seq? v) *)
  truthy : val -> bool;
  next_ : val -> res val;
  first_ : val -> res val;
  hashmap_ : val -> res val;               (* (apply hash-map v) *)
  collect_ : val -> res val                (* (-collect-keyword-args v) *)
}.

Section Lang.
  Variable O : oracle.
  Notation val := (val O).

  (** The code the macros emit, plus whatever the user wrote (init expressions, :or defaults,
      map keys): user expressions are arbitrary terms of the same language. *)
  Inductive expr :=
  | EConst (v : val)
  | EVar (x : name)
  | ENth (e : expr) (i : N)                (* (basilisp.core/nth e i nil) *)
  | ENthNext (e : expr) (i : N)            (* (basilisp.core/nthnext e i) *)
  | EGet2 (e k : expr)                     (* (basilisp.core/get e k) *)
  | EGet3 (e k d : expr)                   (* (basilisp.core/get e k d): d is evaluated eagerly *)
  | ENext (e : expr)
  | EFirst (e : expr)
  | EHashMap (e : expr)                    (* (basilisp.core/apply basilisp.core/hash-map e) *)
  | ECollect (e : expr)                    (* (basilisp.core/-collect-keyword-args e) *)
  | EIfSeqP (c t f : expr)                 (* (if (basilisp.core/seq? c) t f) *)
  | EIf (c t f : expr).

  Definition env := list (name * val).

  Fixpoint lookup (x : name) (en : env) : option val :=
    match en with
    | [] => None
    | (y, v) :: t => if name_eqb x y then Some v else lookup x t
    end.

  Fixpoint eval (en : env) (e : expr) : res val :=
    match e with
    | EConst v => Ok v
    | EVar x => match lookup x en with Some v => Ok v | None => Err E_UNBOUND end
    | ENth e i => v <- eval en e ;; nth_ O v i
    | ENthNext e i => v <- eval en e ;; nthnext_ O v i
    | EGet2 e k => m <- eval en e ;; kv <- eval en k ;; get_ O m kv (vnil O)
    | EGet3 e k d => m <- eval en e ;; kv <- eval en k ;; dv <- eval en d ;; get_ O m kv dv
    | ENext e => v <- eval en e ;; next_ O v
    | EFirst e => v <- eval en e ;; first_ O v
    | EHashMap e => v <- eval en e ;; hashmap_ O v
    | ECollect e => v <- eval en e ;; collect_ O v
    | EIfSeqP c t f => v <- eval en c ;; if seqp O v then eval en t else eval en f
    | EIf c t f => v <- eval en c ;; if truthy O v then eval en t else eval en f
    end.

  (** let*: sequential, each binding sees the previous ones; a later binding of a name shadows. *)
  Fixpoint eval_let (bs : list (name * expr)) (en : env) : res env :=
    match bs with
    | [] => Ok en
    | (x, e) :: t => v <- eval en e ;; eval_let t ((x, v) :: en)
    end.

  (** An expression the user wrote mentions no gensym'd temporary. *)
  Fixpoint user_expr (e : expr) : bool :=
    match e with
    | EConst _ => true
    | EVar (NU _) => true
    | EVar (NG _) => false
    | ENth e _ | ENthNext e _ | ENext e | EFirst e | EHashMap e | ECollect e => user_expr e
    | EGet2 a b => user_expr a && user_expr b
    | EGet3 a b c | EIfSeqP a b c | EIf a b c => user_expr a && user_expr b && user_expr c
    end.

  (** Surface syntax of binding forms, as the reader hands them to the macros.
      [:keys]-like groups carry the namespace of the group keyword ([:ns/keys]) and, per
      element, the element's own namespace ([:keys [ns/a]]).  Map entries [{pat key}] are in
      the iteration order of the map literal. *)
  Definition qname := (option str * str)%type.

  Inductive pat :=
  | PSym (x : str)
  | PVec (ps : pats) (rest : option str) (as_ : option str)
  | PMap (kgroups : list (option str * list qname)) (strs : list str)
         (sgroups : list (option str * list qname))
         (es : pentries) (ors : list (str * expr)) (as_ : option str)
  with pats := PNil | PCons (p : pat) (t : pats)
  with pentries := MNil | MCons (p : pat) (k : expr) (t : pentries).

  Scheme pat_mind := Induction for pat Sort Prop
    with pats_mind := Induction for pats Sort Prop
    with pentries_mind := Induction for pentries Sort Prop.
  Combined Scheme pat_mutind from pat_mind, pats_mind, pentries_mind.

  Fixpoint plen (ps : pats) : N :=
    match ps with PNil => 0%N | PCons _ t => N.succ (plen t) end.

  Definition is_psym (p : pat) : bool := match p with PSym _ => true | _ => false end.

  (** [(cond->> syms kw-ns (map #(symbol kw-ns (name %))))]: a namespaced group keyword
      overrides the namespace of every element. *)
  Definition norm_group (g : option str * list qname) : list qname :=
    match fst g with
    | Some ns => map (fun q => (Some ns, snd q)) (snd g)
    | None => snd g
    end.
  Definition norm_groups (gs : list (option str * list qname)) : list qname :=
    flat_map norm_group gs.

  Definition opt_list (a : option str) : list str := match a with Some x => [x] | None => [] end.

  Fixpoint binders_named (es : pentries) : list str :=
    match es with
    | MNil => []
    | MCons p _ t => (match p with PSym x => [x] | _ => [] end) ++ binders_named t
    end.

End Lang.

Arguments EConst {O} v.
Arguments EVar {O} x.
Arguments ENth {O} e i.
Arguments ENthNext {O} e i.
Arguments EGet2 {O} e k.
Arguments EGet3 {O} e k d.
Arguments ENext {O} e.
Arguments EFirst {O} e.
Arguments EHashMap {O} e.
Arguments ECollect {O} e.
Arguments EIfSeqP {O} c t f.
Arguments EIf {O} c t f.
Arguments PSym {O} x.
Arguments PVec {O} ps rest as_.
Arguments PMap {O} kgroups strs sgroups es ors as_.
Arguments PNil {O}.
Arguments PCons {O} p t.
Arguments MNil {O}.
Arguments MCons {O} p k t.
Arguments lookup {O} x en.
Arguments eval {O} en e.
Arguments eval_let {O} bs en.
Arguments user_expr {O} e.
Arguments binders_named {O} es.
Arguments plen {O} ps.
Arguments is_psym {O} p.

(** The mutual fixpoints are stated outside the section (with the oracle as an explicit
    uniform parameter): Coq's [simpl] does not refold mutual fixpoints discharged from a
    section. *)
(** every name a pattern binds (including :as and & names), in binding order *)
Fixpoint binders {O : oracle} (p : pat O) : list str :=
  match p with
  | PSym x => [x]
  | PVec ps rest as_ => opt_list as_ ++ binders_seq ps ++ opt_list rest
  | PMap kg strs sg es ors as_ =>
      opt_list as_ ++ map snd (norm_groups kg) ++ strs ++ map snd (norm_groups sg)
      ++ binders_named es ++ binders_others es
  end
with binders_seq {O : oracle} (ps : pats O) : list str :=
  match ps with PNil => [] | PCons p t => binders p ++ binders_seq t end
with binders_others {O : oracle} (es : pentries O) : list str :=
  match es with
  | MNil => []
  | MCons p _ t => (if is_psym p then [] else binders p) ++ binders_others t
  end.

Definition forall_snd {A B} (f : B -> bool) (l : list (A * B)) : bool :=
  forallb (fun x => f (snd x)) l.

(** every expression inside the pattern (:or defaults, map keys) was written by the user *)
Fixpoint user_pat {O : oracle} (p : pat O) : bool :=
  match p with
  | PSym _ => true
  | PVec ps _ _ => user_pats ps
  | PMap _ _ _ es ors _ => forall_snd user_expr ors && user_entries es
  end
with user_pats {O : oracle} (ps : pats O) : bool :=
  match ps with PNil => true | PCons p t => user_pat p && user_pats t end
with user_entries {O : oracle} (es : pentries O) : bool :=
  match es with MNil => true | MCons p k t => user_pat p && user_expr k && user_entries t end.
