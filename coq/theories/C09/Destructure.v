(** C09 -- MODEL of the destructuring support of src/basilisp/core.lpy (section
    "Destructuring Support"): [destructure-def] (pattern -> definition map with the names of
    the temporaries), [destructure-binding] (definition -> flat let* binding list),
    [destructure], and the binding lists the [let] / [fn] / [loop] macros build from them.

    Transcribed construct by construct.  A [shape] records the two places where the code was
    repaired (fixes/C09-*.patch); the current tree is [cur_shape], the tree before the repairs
    is [old_shape]:
      - [reemit]  : destructure-binding :vector appended the bindings of every nested child a
                    second time after the rest binding (so under d vector levels a nested
                    pattern was destructured 2^d times, after its later siblings);
      - [quote_or_key] : named-binding wrapped the key of a {sym key} entry in (quote ...)
                    exactly when the symbol had an :or default. *)
From Coq Require Import List NArith Bool Lia.
Import ListNotations.
From Verif Require Import Common.ListX.
From Verif Require Export C09.DLang.

Record shape := { reemit : bool; quote_or_key : bool }.
Definition cur_shape := {| reemit := false; quote_or_key := false |}.
Definition old_shape := {| reemit := true; quote_or_key := true |}.

Section Defs.
  Variable O : oracle.
  Notation val := (val O).
  Notation expr := (expr O).
  Notation pat := (pat O).
  Notation pats := (pats O).
  Notation pentries := (pentries O).
  (** What destructure-def returns: {:name :type :children :rest ...}. *)
  Inductive ddef :=
  | DSym (x : name)                                              (* {:type :symbol :name x} *)
  | DVec (nm : name) (cs : ddefs) (rest : option (N * name))      (* :rest {:starts k :name r} *)
  | DMap (nm : name) (keys : list qname) (strs : list str) (syms : list qname)
         (ors : list (str * expr)) (cs : dentries)                (* :children [{:key k :binding d}] *)
  with ddefs := DNil | DCons (d : ddef) (t : ddefs)
  with dentries := KNil | KCons (k : expr) (d : ddef) (t : dentries).

  Definition dname (d : ddef) : name :=
    match d with DSym x => x | DVec nm _ _ => nm | DMap nm _ _ _ _ _ => nm end.
  Definition is_sym (d : ddef) : bool := match d with DSym _ => true | _ => false end.

  (** [(or (:as arg) (gensym "vec_arg_"))]: the :as name IS the temporary when given. *)
  Definition alias_name (a : option str) (n : N) : name * N :=
    match a with Some x => (NU x, n) | None => (NG n, N.succ n) end.

End Defs.

Arguments DSym {O} x.
Arguments DVec {O} nm cs rest.
Arguments DMap {O} nm keys strs syms ors cs.
Arguments DNil {O}.
Arguments DCons {O} d t.
Arguments KNil {O}.
Arguments KCons {O} k d t.

(** destructure-def, threading the gensym counter.  (Mutual fixpoints are stated outside
    sections: [simpl] does not refold mutual fixpoints discharged from a section.) *)
Fixpoint mkdef (O : oracle) (p : pat O) (n : N) : ddef O * N :=
  match p with
  | PSym x => (DSym (NU x), n)
  | PVec ps rest as_ =>
      let (nm, n1) := alias_name as_ n in
      let (cs, n2) := mkdefs O ps n1 in
      (DVec nm cs (option_map (fun r => (plen ps, NU r)) rest), n2)
  | PMap kg strs sg es ors as_ =>
      let (nm, n1) := alias_name as_ n in
      let (cs, n2) := mkentries O es n1 in
      (DMap nm (norm_groups kg) strs (norm_groups sg) ors cs, n2)
  end
with mkdefs (O : oracle) (ps : pats O) (n : N) : ddefs O * N :=
  match ps with
  | PNil => (DNil, n)
  | PCons p t =>
      let (d, n1) := mkdef O p n in
      let (ds, n2) := mkdefs O t n1 in
      (DCons d ds, n2)
  end
with mkentries (O : oracle) (es : pentries O) (n : N) : dentries O * N :=
  match es with
  | MNil => (KNil, n)
  | MCons p k t =>
      let (d, n1) := mkdef O p n in
      let (ds, n2) := mkentries O t n1 in
      (KCons k d ds, n2)
  end.

Section Bindings.
  Variable O : oracle.
  Notation val := (val O).
  Notation expr := (expr O).
  Notation ddef := (ddef O).
  Notation dentries := (dentries O).
  Notation dname := (dname O).
  Notation is_sym := (is_sym O).
  Variable sh : shape.
  (** the datum a key FORM denotes under (quote ...); only consulted by the old shape *)
  Variable datum_of : expr -> val.

  (** [(contains? ors sym)] / [(get ors sym)] for a binder *)
  Definition ors_get (ors : list (str * expr)) (b : name) : option expr :=
    match b with NU x => assoc x ors | NG _ => None end.

  Definition get_binding (b nm : name) (k : expr) (d : option expr) : name * expr :=
    match d with
    | Some de => (b, EGet3 (EVar nm) k de)
    | None => (b, EGet2 (EVar nm) k)
    end.

  (** kw-binding / map-binding name / sym-binding of destructure-binding :map *)
  Definition kw_binding (nm : name) (ors : list (str * expr)) (q : qname) : name * expr :=
    get_binding (NU (snd q)) nm (EConst (vkw O (fst q) (snd q))) (assoc (snd q) ors).
  Definition str_binding (nm : name) (ors : list (str * expr)) (s : str) : name * expr :=
    get_binding (NU s) nm (EConst (vstr O s)) (assoc s ors).
  Definition sym_binding (nm : name) (ors : list (str * expr)) (q : qname) : name * expr :=
    get_binding (NU (snd q)) nm (EConst (vsym O (fst q) (snd q))) (assoc (snd q) ors).

  (** named-binding: a {sym key} entry.  Old shape: `(get m (quote ~key) default) with an :or
      default, `(get m ~key) without. *)
  Definition named_binding (nm : name) (ors : list (str * expr)) (k : expr) (b : name)
    : name * expr :=
    match ors_get ors b with
    | Some de => (b, EGet3 (EVar nm) (if quote_or_key sh then EConst (datum_of k) else k) de)
    | None => (b, EGet2 (EVar nm) k)
    end.

  Fixpoint named_bindings (nm : name) (ors : list (str * expr)) (cs : dentries)
    : list (name * expr) :=
    match cs with
    | KNil => []
    | KCons k c t =>
        (if is_sym c then [named_binding nm ors k (dname c)] else []) ++ named_bindings nm ors t
    end.

  (** child-binding: the alias of a nested {pattern key} entry *)
  Fixpoint child_bindings (nm : name) (cs : dentries) : list (name * expr) :=
    match cs with
    | KNil => []
    | KCons k c t =>
        (if is_sym c then [] else [(dname c, EGet2 (EVar nm) k)]) ++ child_bindings nm t
    end.

  (** `(if (seq? m) (if (next m) (apply hash-map m) (first m)) m) *)
  Definition kwargs_expr (nm : name) : expr :=
    EIfSeqP (EVar nm) (EIf (ENext (EVar nm)) (EHashMap (EVar nm)) (EFirst (EVar nm))) (EVar nm).

  Definition rest_binding (nm : name) (rest : option (N * name)) : list (name * expr) :=
    match rest with Some (k, r) => [(r, ENthNext (EVar nm) k)] | None => [] end.

End Bindings.

(** destructure-binding.  Every call site in core.lpy guards with
    [(not= :symbol (:type child))]; on a :symbol definition the multimethod would throw. *)
Fixpoint dbind (O : oracle) (sh : shape) (datum_of : expr O -> val O) (d : ddef O)
  : list (name * expr O) :=
  match d with
  | DSym _ => []
  | DVec nm cs rest =>
      dbind_seq O sh datum_of nm 0%N cs ++ rest_binding O nm rest
      ++ (if reemit sh then dbind_again O sh datum_of cs else [])
  | DMap nm keys strs syms ors cs =>
      (nm, kwargs_expr O nm)
      :: map (kw_binding O nm ors) keys
      ++ map (str_binding O nm ors) strs
      ++ map (sym_binding O nm ors) syms
      ++ named_bindings O sh datum_of nm ors cs
      ++ child_bindings O nm cs
      ++ dbind_nested O sh datum_of cs
  end
with dbind_seq (O : oracle) (sh : shape) (datum_of : expr O -> val O)
               (nm : name) (i : N) (cs : ddefs O) : list (name * expr O) :=
  match cs with
  | DNil => []
  | DCons c t =>
      ((dname O c, ENth (EVar nm) i) :: (if is_sym O c then [] else dbind O sh datum_of c))
      ++ dbind_seq O sh datum_of nm (N.succ i) t
  end
with dbind_again (O : oracle) (sh : shape) (datum_of : expr O -> val O) (cs : ddefs O)
  : list (name * expr O) :=
  match cs with
  | DNil => []
  | DCons c t => (if is_sym O c then [] else dbind O sh datum_of c) ++ dbind_again O sh datum_of t
  end
with dbind_nested (O : oracle) (sh : shape) (datum_of : expr O -> val O) (cs : dentries O)
  : list (name * expr O) :=
  match cs with
  | KNil => []
  | KCons _ c t => (if is_sym O c then [] else dbind O sh datum_of c) ++ dbind_nested O sh datum_of t
  end.

Section Macros.
  Variable O : oracle.
  Notation val := (val O).
  Notation expr := (expr O).
  Notation pat := (pat O).
  Notation ddef := (ddef O).
  Variable sh : shape.
  Variable datum_of : expr -> val.
  Notation mkdef := (mkdef O).
  Notation dname := (dname O).
  Notation is_sym := (is_sym O).
  Notation dbind := (dbind O sh datum_of).

  Definition dbind_ns (d : ddef) : list (name * expr) := if is_sym d then [] else dbind d.

  (** (destructure [binding expr]) *)
  Definition destructure (p : pat) (e : expr) (n : N) : list (name * expr) * N :=
    let (d, n') := mkdef p n in ((dname d, e) :: dbind_ns d, n').

  (** the let macro: `(let* [~@(mapcat destructure (partition 2 bindings))] ~@body) *)
  Fixpoint let_bindings (bs : list (pat * expr)) (n : N) : list (name * expr) * N :=
    match bs with
    | [] => ([], n)
    | (p, e) :: t =>
        let (l1, n1) := destructure p e n in
        let (l2, n2) := let_bindings t n1 in
        (l1 ++ l2, n2)
    end.

  (** loop-with-destructuring: the loop* binding vector [name init ...] and the let* list that
      is placed inside the loop body (re-evaluated on every recur). *)
  Fixpoint loop_parts (bs : list (pat * expr)) (n : N)
    : list (name * expr) * list (name * expr) * N :=
    match bs with
    | [] => ([], [], n)
    | (p, e) :: t =>
        let (d, n1) := mkdef p n in
        let '(bv, inner, n2) := loop_parts t n1 in
        ((dname d, e) :: bv, dbind_ns d ++ inner, n2)
    end.

  (** fn-arity-with-destructuring: parameter names, rest parameter name, and the let* list
      wrapped around the body: the rest pattern's bindings come FIRST. *)
  Fixpoint fn_defs (ps : list pat) (n : N) : list ddef * N :=
    match ps with
    | [] => ([], n)
    | p :: t => let (d, n1) := mkdef p n in let (ds, n2) := fn_defs t n1 in (d :: ds, n2)
    end.

  Definition fn_rest_binding (rd : option ddef) : list (name * expr) :=
    match rd with
    | None => []
    | Some d =>
        (match d with
         | DMap nm _ _ _ _ _ => [(nm, ECollect (EVar nm))]
         | _ => []
         end) ++ dbind_ns d
    end.

  Definition fn_parts (ps : list pat) (rest : option pat) (n : N)
    : list name * option name * list (name * expr) * N :=
    let (rd, n1) := match rest with
                    | Some r => let (d, n1) := mkdef r n in (Some d, n1)
                    | None => (None, n)
                    end in
    let (ds, n2) := fn_defs ps n1 in
    (map dname ds, option_map dname rd, fn_rest_binding rd ++ flat_map dbind_ns ds, n2).
End Macros.
