(** C09 -- proofs about syntax-quote: the code the reader emits evaluates to the substitution
    instance of the template (holes once, left to right; collection types preserved except
    that an empty list becomes nil), symbols are resolved, auto-gensyms are one symbol per
    template and fresh across templates. *)
From Coq Require Import List NArith ZArith Bool Lia.
Import ListNotations.
From Verif Require Import Common.ListX C09.DLang C09.SyntaxQuote C09.SQSpec.

(** * 1. The stateful expansion is the pure expansion under the final gensym assignment *)
Definition agrees (g : str -> N) (e : list (str * N)) : Prop :=
  forall p k, assoc p e = Some k -> g p = k.
Definition mono (e1 e2 : list (str * N)) : Prop :=
  forall p k, assoc p e1 = Some k -> assoc p e2 = Some k.

Lemma mono_refl e : mono e e.
Proof. intros p k H; exact H. Qed.
Lemma mono_trans a b c : mono a b -> mono b c -> mono a c.
Proof. intros H1 H2 p k H; apply H2, H1, H. Qed.
Lemma agrees_mono g a b : mono a b -> agrees g b -> agrees g a.
Proof. intros M A p k H; apply A, M, H. Qed.

Lemma str_eqb_sym a b : str_eqb a b = str_eqb b a.
Proof.
  destruct (str_eqb a b) eqn:E1, (str_eqb b a) eqn:E2; try reflexivity.
  - apply str_eqb_eq in E1; subst. rewrite str_eqb_refl in E2; discriminate.
  - apply str_eqb_eq in E2; subst. rewrite str_eqb_refl in E1; discriminate.
Qed.

Lemma expand_pure_eq :
  (forall t R st code st', expand R t st = Some (code, st') ->
     mono (fst st) (fst st') /\ forall g, agrees g (fst st') -> expand_pure R g t = Some code)
  /\ (forall l R st parts st', expand_elems R l st = Some (parts, st') ->
     mono (fst st) (fst st') /\
     forall g, agrees g (fst st') -> expand_elems_pure R g l = Some parts).
Proof.
  apply tmpl_mutind.
  - intros a R st code st' H. simpl in H. inversion H; subst. split; [apply mono_refl|reflexivity].
  - intros ns n R st code st' H. simpl in H. inversion H; subst. split; [apply mono_refl|reflexivity].
  - intros p R [e c] code st' H. simpl in H. unfold gen_lookup in H.
    destruct (assoc p e) as [k|] eqn:E; inversion H; subst; clear H; simpl.
    + split; [apply mono_refl|]. intros g A. rewrite (A _ _ E). reflexivity.
    + split.
      * intros q k Hq. simpl. destruct (str_eqb q p) eqn:Q; [|exact Hq].
        apply str_eqb_eq in Q; subst. congruence.
      * intros g A. rewrite (A p c); [reflexivity|]. simpl. rewrite str_eqb_refl. reflexivity.
  - intros l IH R st code st' H. simpl in H.
    destruct (expand_elems R l st) as [[parts st1]|] eqn:E; inversion H; subst; clear H.
    destruct (IH _ _ _ _ E) as [M P]. split; [exact M|]. intros g A. simpl. rewrite (P g A). reflexivity.
  - intros l IH R st code st' H. simpl in H.
    destruct (expand_elems R l st) as [[parts st1]|] eqn:E; inversion H; subst; clear H.
    destruct (IH _ _ _ _ E) as [M P]. split; [exact M|]. intros g A. simpl. rewrite (P g A). reflexivity.
  - intros l IH R st code st' H. simpl in H.
    destruct (expand_elems R l st) as [[parts st1]|] eqn:E; inversion H; subst; clear H.
    destruct (IH _ _ _ _ E) as [M P]. split; [exact M|]. intros g A. simpl. rewrite (P g A). reflexivity.
  - intros l IH R st code st' H. simpl in H.
    destruct (expand_elems R l st) as [[parts st1]|] eqn:E; inversion H; subst; clear H.
    destruct (IH _ _ _ _ E) as [M P]. split; [exact M|]. intros g A. simpl. rewrite (P g A). reflexivity.
  - intros h R st code st' H. simpl in H. inversion H; subst. split; [apply mono_refl|reflexivity].
  - intros h R st code st' H. simpl in H. discriminate.
  - intros R st parts st' H. simpl in H. inversion H; subst. split; [apply mono_refl|reflexivity].
  - intros e IHe r IHr R st parts st' H.
    assert (GEN : forall part st1,
               (match e with
                | TUnq h => Some (FList [c_list; FHole h], st)
                | TSplice h => Some (FHole h, st)
                | _ => match expand R e st with
                       | Some (f, st') => Some (FList [c_list; f], st')
                       | None => None
                       end
                end) = Some (part, st1) ->
               mono (fst st) (fst st1) /\
               forall g, agrees g (fst st1) ->
                 (match e with
                  | TUnq h => Some (FList [c_list; FHole h])
                  | TSplice h => Some (FHole h)
                  | _ => match expand_pure R g e with
                         | Some f => Some (FList [c_list; f])
                         | None => None
                         end
                  end) = Some part).
    { intros part st1 HE.
      destruct e; try (inversion HE; subst; split; [apply mono_refl|reflexivity]);
        (match type of HE with
         | match expand R ?t st with _ => _ end = _ =>
             destruct (expand R t st) as [[f st2]|] eqn:EX; inversion HE; subst; clear HE;
             destruct (IHe _ _ _ _ EX) as [M P]; split; [exact M|];
             intros g A; rewrite (P g A); reflexivity
         end). }
    simpl in H.
    match type of H with
    | match ?X with _ => _ end = _ => destruct X as [[part st1]|] eqn:EP; [|discriminate]
    end.
    destruct (expand_elems R r st1) as [[parts2 st2]|] eqn:ER; inversion H; subst; clear H.
    destruct (GEN _ _ eq_refl) as [M1 P1]. destruct (IHr _ _ _ _ ER) as [M2 P2].
    split; [eapply mono_trans; eauto|].
    intros g A. simpl.
    rewrite (P1 g (agrees_mono _ _ _ M2 A)). rewrite (P2 g A). reflexivity.
Qed.

(** * 2. Evaluating the pure expansion gives the substitution instance *)
Lemma ev_args_local sg l :
  (fix ev_args (l : list form) : res (list form * list N) :=
     match l with
     | [] => Ok ([], [])
     | a :: t => r <- ev sg a ;; rs <- ev_args t ;; Ok (fst r :: fst rs, snd r ++ snd rs)
     end) l = ev_args sg l.
Proof. induction l as [|a t IH]; simpl; [reflexivity|]. rewrite IH. reflexivity. Qed.

Lemma ev_quote sg d : ev sg (quoted d) = Ok (d, []).
Proof. reflexivity. Qed.

Lemma ev_list1 sg f : ev sg (FList [c_list; f]) = (r <- ev sg f ;; Ok (FList [fst r], snd r ++ [])).
Proof. simpl. destruct (ev sg f); reflexivity. Qed.

Lemma ev_concat sg parts :
  ev sg (FList (c_concat :: parts)) =
  (r <- ev_args sg parts ;; l <- cat_elems (fst r) ;; Ok (FList l, snd r)).
Proof.
  change (ev sg (FList (c_concat :: parts))) with
    (r <- (fix ev_args (l : list form) : res (list form * list N) :=
             match l with
             | [] => Ok ([], [])
             | a :: t => r <- ev sg a ;; rs <- ev_args t ;; Ok (fst r :: fst rs, snd r ++ snd rs)
             end) parts ;; l <- cat_elems (fst r) ;; Ok (FList l, snd r)).
  rewrite ev_args_local. reflexivity.
Qed.

Lemma ev_seq sg a :
  ev sg (FList [c_seq; a]) = (r <- ev sg a ;; l <- fseq_elems (fst r) ;; Ok (mk_seq l, snd r)).
Proof. reflexivity. Qed.
Lemma ev_apply_vector sg a :
  ev sg (FList [c_apply; c_vector; a]) = (r <- ev sg a ;; l <- fseq_elems (fst r) ;; Ok (FVec l, snd r)).
Proof. reflexivity. Qed.
Lemma ev_apply_set sg a :
  ev sg (FList [c_apply; c_hash_set; a]) = (r <- ev sg a ;; l <- fseq_elems (fst r) ;; Ok (mk_set l, snd r)).
Proof. reflexivity. Qed.
Lemma ev_apply_map sg a :
  ev sg (FList [c_apply; c_hash_map; a]) =
  (r <- ev sg a ;; l <- fseq_elems (fst r) ;; m <- mk_map l ;; Ok (m, snd r)).
Proof. reflexivity. Qed.

Lemma ev_atom sg a : ev sg (atom_form a) = Ok (atom_form a, []).
Proof. destruct a; reflexivity. Qed.

(** the argument a collection element contributes to (concat ...) *)
Definition chunk_val (c : chunk) : form := if fst c then snd c else FList [snd c].

Lemma cat_chunks cs : cat_elems (map chunk_val cs) = flatten cs.
Proof.
  induction cs as [|[sp v] t IH]; simpl; [reflexivity|].
  destruct sp; unfold chunk_val at 1; simpl; rewrite IH.
  - reflexivity.
  - destruct (flatten t); reflexivity.
Qed.

Ltac coll_case IH :=
  rewrite ev_concat, (IH _ eq_refl); simpl subst_gen;
  match goal with
  | |- context [subst_elems ?m ?R ?g ?sg ?l] =>
      destruct (subst_elems m R g sg l) as [[cs tr]|c]; simpl; [|reflexivity];
      rewrite cat_chunks; destruct (flatten cs) as [fl|c]; simpl; reflexivity
  end.

Lemma ev_expand_pure R g sg :
  (forall t code, expand_pure R g t = Some code -> ev sg code = subst_seq R g sg t)
  /\ (forall l parts, expand_elems_pure R g l = Some parts ->
        ev_args sg parts
        = (x <- subst_elems mk_seq R g sg l ;; Ok (map chunk_val (fst x), snd x))).
Proof.
  unfold subst_seq. apply tmpl_mutind.
  - intros a code H. simpl in H. inversion H; subst. apply ev_atom.
  - intros ns n code H. simpl in H. inversion H; subst. apply ev_quote.
  - intros p code H. simpl in H. inversion H; subst. apply ev_quote.
  - intros l IH code H. simpl in H.
    destruct (expand_elems_pure R g l) as [parts|] eqn:E; inversion H; subst; clear H.
    rewrite ev_seq. coll_case IH.
  - intros l IH code H. simpl in H.
    destruct (expand_elems_pure R g l) as [parts|] eqn:E; inversion H; subst; clear H.
    rewrite ev_apply_vector. coll_case IH.
  - intros l IH code H. simpl in H.
    destruct (expand_elems_pure R g l) as [parts|] eqn:E; inversion H; subst; clear H.
    rewrite ev_apply_set. coll_case IH.
  - intros l IH code H. simpl in H.
    destruct (expand_elems_pure R g l) as [parts|] eqn:E; inversion H; subst; clear H.
    rewrite ev_apply_map. coll_case IH.
  - intros h code H. simpl in H. inversion H; subst. reflexivity.
  - intros h code H. simpl in H. discriminate.
  - intros parts H. simpl in H. inversion H; subst. reflexivity.
  - intros e IHe r IHr parts H.
    simpl in H.
    match type of H with
    | match ?X with _ => _ end = _ => destruct X as [part|] eqn:EP; [|discriminate]
    end.
    destruct (expand_elems_pure R g r) as [parts2|] eqn:ER; inversion H; subst; clear H.
    specialize (IHr _ eq_refl).
    assert (FIRST : ev sg part =
                    (a <- (match e with
                           | TUnq h => Ok ((false, hole_val sg h), [h])
                           | TSplice h => Ok ((true, hole_val sg h), [h])
                           | _ => x <- subst_gen mk_seq R g sg e ;; Ok ((false, fst x), snd x)
                           end) ;;
                     Ok (chunk_val (fst a), snd a))).
    { destruct e; try (inversion EP; subst; reflexivity);
        (match type of EP with
         | match expand_pure R g ?t with _ => _ end = _ =>
             destruct (expand_pure R g t) as [f|] eqn:EX; inversion EP; subst; clear EP;
             rewrite ev_list1, (IHe _ eq_refl);
             destruct (subst_gen mk_seq R g sg t) as [[v tr]|c]; simpl; [rewrite app_nil_r|]; reflexivity
         end). }
    simpl ev_args. simpl subst_elems. rewrite FIRST, IHr.
    match goal with
    | |- context [a <- ?X ;; Ok (chunk_val (fst a), snd a)] =>
        destruct X as [[ch ta]|ca]; simpl; [|reflexivity]
    end.
    destruct (subst_elems mk_seq R g sg r) as [[cs tr]|c]; simpl; reflexivity.
Qed.

(** * 3. The main theorem about evaluation *)
Theorem sq_eval_seq R t st code st' sg :
  expand R t st = Some (code, st') ->
  forall g, agrees g (fst st') -> ev sg code = subst_seq R g sg t.
Proof.
  intros H g A. destruct (proj1 expand_pure_eq _ _ _ _ _ H) as [_ P].
  apply (proj1 (ev_expand_pure R g sg)). apply P, A.
Qed.

(** with every list node non-empty, (seq ...) returns the list itself *)
Lemma flatten_nonempty sg l R g cs tr :
  subst_elems mk_seq R g sg l = Ok (cs, tr) -> some_nonempty sg l = true ->
  forall fl, flatten cs = Ok fl -> fl <> [].
Proof.
  revert cs tr. induction l as [|e r IH]; intros cs tr H NE fl F; simpl in *; [discriminate|].
  match type of H with
  | (a <- ?X ;; _) = _ => destruct X as [[ch ta]|ca] eqn:EA; simpl in H; [|discriminate]
  end.
  destruct (subst_elems mk_seq R g sg r) as [[cs2 tr2]|c] eqn:ER; simpl in H; [|discriminate].
  inversion H; subst; clear H. simpl in F.
  destruct ch as [sp v]. destruct sp.
  - (* a splice *)
    destruct e; simpl in EA;
      try (match type of EA with
           | (x <- ?Y ;; _) = _ => destruct Y as [[? ?]|?]; simpl in EA; discriminate
           end); try discriminate.
    inversion EA; subst; clear EA. simpl in NE.
    destruct (fseq_elems (hole_val sg h)) as [a1|c1] eqn:FS; simpl in F; [|discriminate].
    destruct (flatten cs2) as [b|c2] eqn:FL; simpl in F; [|discriminate]. inversion F; subst.
    destruct a1 as [|x a1]; simpl in *; [|discriminate].
    eapply IH; eauto.
  - destruct (flatten cs2) as [b|c2]; simpl in F; [|discriminate]. inversion F; subst. discriminate.
Qed.

Lemma subst_seq_eq R g sg :
  (forall t, ne_ok sg t = true -> subst_gen mk_seq R g sg t = subst_gen FList R g sg t)
  /\ (forall l, ne_ok_elems sg l = true ->
                subst_elems mk_seq R g sg l = subst_elems FList R g sg l).
Proof.
  apply tmpl_mutind; try (intros; reflexivity).
  - intros l IH NE. simpl in NE. apply andb_true_iff in NE as [N1 N2]. simpl.
    rewrite <- (IH N2).
    destruct (subst_elems mk_seq R g sg l) as [[cs tr]|c] eqn:E; simpl; [|reflexivity].
    destruct (flatten cs) as [fl|c] eqn:F; simpl; [|reflexivity].
    pose proof (flatten_nonempty _ _ _ _ _ _ E N1 _ F) as NN.
    destruct fl; [contradiction|reflexivity].
  - intros l IH NE. simpl in *. rewrite (IH NE). reflexivity.
  - intros l IH NE. simpl in *. rewrite (IH NE). reflexivity.
  - intros l IH NE. simpl in *. rewrite (IH NE). reflexivity.
  - intros e IHe r IHr NE. simpl in NE. apply andb_true_iff in NE as [N1 N2].
    simpl. rewrite (IHr N2).
    destruct e; try reflexivity; rewrite (IHe N1); reflexivity.
Qed.

Theorem sq_eval_partial R t st code st' sg :
  expand R t st = Some (code, st') -> ne_ok sg t = true ->
  forall g, agrees g (fst st') -> ev sg code = subst R g sg t.
Proof.
  intros H NE g A. rewrite (sq_eval_seq _ _ _ _ _ sg H g A).
  unfold subst_seq, subst. apply (proj1 (subst_seq_eq R g sg)), NE.
Qed.

(** holes are evaluated exactly once each, in textual order *)
Lemma subst_trace ml R g sg :
  (forall t v tr, subst_gen ml R g sg t = Ok (v, tr) -> tr = holes_of t)
  /\ (forall l cs tr, subst_elems ml R g sg l = Ok (cs, tr) -> tr = holes_elems l).
Proof.
  apply tmpl_mutind; simpl; intros;
    try (match goal with H : Ok _ = Ok _ |- _ => inversion H; subst; reflexivity end);
    try discriminate.
  - destruct (subst_elems ml R g sg l) as [[cs tr']|c] eqn:E; simpl in *; [|discriminate].
    destruct (flatten cs); simpl in *; [|discriminate]. inversion H0; subst. eapply H; eauto.
  - destruct (subst_elems ml R g sg l) as [[cs tr']|c] eqn:E; simpl in *; [|discriminate].
    destruct (flatten cs); simpl in *; [|discriminate]. inversion H0; subst. eapply H; eauto.
  - destruct (subst_elems ml R g sg l) as [[cs tr']|c] eqn:E; simpl in *; [|discriminate].
    destruct (flatten cs); simpl in *; [|discriminate]. inversion H0; subst. eapply H; eauto.
  - destruct (subst_elems ml R g sg l) as [[cs tr']|c] eqn:E; simpl in *; [|discriminate].
    destruct (flatten cs) as [fl|]; simpl in *; [|discriminate].
    destruct (mk_map fl); simpl in *; [|discriminate]. inversion H0; subst. eapply H; eauto.
  - match type of H1 with
    | (a <- ?X ;; _) = _ => destruct X as [[ch ta]|ca] eqn:EA; simpl in H1; [|discriminate]
    end.
    destruct (subst_elems ml R g sg r) as [[cs2 tr2]|c] eqn:ER; simpl in H1; [|discriminate].
    inversion H1; subst; clear H1. rewrite (H0 _ _ eq_refl). f_equal.
    destruct t; simpl in *;
      try (inversion EA; subst; reflexivity);
      try (match type of EA with
           | (x <- ?Y ;; _) = _ => destruct Y as [[v tv]|?] eqn:EY; simpl in EA; [|discriminate];
                                   inversion EA; subst; eapply H; eauto
           end).
Qed.

(** * 4. Auto-gensyms *)
Definition ginv (c0 : N) (st : gstate) : Prop :=
  (forall p k, assoc p (fst st) = Some k -> (c0 <= k < snd st)%N)
  /\ (forall p q k, assoc p (fst st) = Some k -> assoc q (fst st) = Some k -> p = q)
  /\ (c0 <= snd st)%N.

Lemma expand_ginv c0 :
  (forall t R st code st', expand R t st = Some (code, st') -> ginv c0 st ->
     ginv c0 st' /\ (snd st <= snd st')%N /\
     forall p, In p (gens t) -> exists k, assoc p (fst st') = Some k)
  /\ (forall l R st parts st', expand_elems R l st = Some (parts, st') -> ginv c0 st ->
     ginv c0 st' /\ (snd st <= snd st')%N /\
     forall p, In p (gens_elems l) -> exists k, assoc p (fst st') = Some k).
Proof.
  apply tmpl_mutind.
  - intros a R st code st' H I. simpl in H. inversion H; subst. split; [exact I|]. split; [lia|]. simpl; tauto.
  - intros ns n R st code st' H I. simpl in H. inversion H; subst. split; [exact I|]. split; [lia|]. simpl; tauto.
  - intros p R [e c] code st' H [I1 [I2 I3]]. simpl in *. unfold gen_lookup in H. simpl in H.
    destruct (assoc p e) as [k|] eqn:E; inversion H; subst; clear H; simpl.
    + split; [split; [exact I1|split; [exact I2|exact I3]]|]. split; [lia|]. intros q [Q|[]]; subst. eauto.
    + split; [|split; [lia|]].
      * repeat split; simpl.
        -- simpl in H. destruct (str_eqb p0 p) eqn:Q.
           ++ inversion H; subst. lia.
           ++ specialize (I1 _ _ H). lia.
        -- simpl in H. destruct (str_eqb p0 p) eqn:Q.
           ++ inversion H; subst. lia.
           ++ specialize (I1 _ _ H). lia.
        -- intros q1 q2 k0 H1 H2. simpl in H1, H2.
           destruct (str_eqb q1 p) eqn:Q1, (str_eqb q2 p) eqn:Q2.
           ++ apply str_eqb_eq in Q1, Q2. congruence.
           ++ inversion H1; subst. specialize (I1 _ _ H2). lia.
           ++ inversion H2; subst. specialize (I1 _ _ H1). lia.
           ++ eapply I2; eauto.
        -- lia.
      * intros q [Q|[]]; subst. exists c. rewrite str_eqb_refl. reflexivity.
  - intros l IH R st code st' H I. simpl in H.
    destruct (expand_elems R l st) as [[parts st1]|] eqn:E; inversion H; subst; clear H.
    exact (IH _ _ _ _ E I).
  - intros l IH R st code st' H I. simpl in H.
    destruct (expand_elems R l st) as [[parts st1]|] eqn:E; inversion H; subst; clear H.
    exact (IH _ _ _ _ E I).
  - intros l IH R st code st' H I. simpl in H.
    destruct (expand_elems R l st) as [[parts st1]|] eqn:E; inversion H; subst; clear H.
    exact (IH _ _ _ _ E I).
  - intros l IH R st code st' H I. simpl in H.
    destruct (expand_elems R l st) as [[parts st1]|] eqn:E; inversion H; subst; clear H.
    exact (IH _ _ _ _ E I).
  - intros h R st code st' H I. simpl in H. inversion H; subst. split; [exact I|]. split; [lia|]. simpl; tauto.
  - intros h R st code st' H I. simpl in H. discriminate.
  - intros R st parts st' H I. simpl in H. inversion H; subst. split; [exact I|]. split; [lia|]. simpl; tauto.
  - intros e IHe r IHr R st parts st' H I.
    assert (GEN : forall part st1,
               (match e with
                | TUnq h => Some (FList [c_list; FHole h], st)
                | TSplice h => Some (FHole h, st)
                | _ => match expand R e st with
                       | Some (f, st') => Some (FList [c_list; f], st')
                       | None => None
                       end
                end) = Some (part, st1) ->
               ginv c0 st1 /\ (snd st <= snd st1)%N /\ mono (fst st) (fst st1) /\
               forall p, In p (gens e) -> exists k, assoc p (fst st1) = Some k).
    { intros part st1 HE.
      destruct e; try (inversion HE; subst; split; [exact I|]; split; [lia|]; split;
                       [apply mono_refl|simpl; tauto]);
        (match type of HE with
         | match expand R ?t st with _ => _ end = _ =>
             destruct (expand R t st) as [[f st2]|] eqn:EX; inversion HE; subst; clear HE;
             destruct (IHe _ _ _ _ EX I) as [G1 [G2 G3]];
             split; [exact G1|]; split; [exact G2|]; split;
             [exact (proj1 (proj1 expand_pure_eq _ _ _ _ _ EX))|exact G3]
         end). }
    simpl in H.
    match type of H with
    | match ?X with _ => _ end = _ => destruct X as [[part st1]|] eqn:EP; [|discriminate]
    end.
    destruct (expand_elems R r st1) as [[parts2 st2]|] eqn:ER; inversion H; subst; clear H.
    destruct (GEN _ _ eq_refl) as [G1 [G2 [M1 G3]]].
    destruct (IHr _ _ _ _ ER G1) as [H1 [H2 H3]].
    split; [exact H1|]. split; [lia|].
    intros p Hp. simpl in Hp. apply in_app_iff in Hp as [Hp|Hp].
    + destruct (G3 _ Hp) as [k Hk]. exists k.
      exact (proj1 (proj2 expand_pure_eq _ _ _ _ _ ER) _ _ Hk).
    + exact (H3 _ Hp).
Qed.

Definition assign (e : list (str * N)) (p : str) : N :=
  match assoc p e with Some k => k | None => 0%N end.

Lemma assign_agrees e : agrees (assign e) e.
Proof. intros p k H. unfold assign. rewrite H. reflexivity. Qed.

(** reading ONE template: one symbol per auto-gensym name, all of them new *)
Theorem gensym_one_per_template R t c code c' :
  read_template R t c = Some (code, c') ->
  exists g, expand_pure R g t = Some code
            /\ (forall p, In p (gens t) -> (c <= g p < c')%N)
            /\ (forall p q, In p (gens t) -> In q (gens t) -> g p = g q -> p = q)
            /\ (c <= c')%N.
Proof.
  unfold read_template. intro H.
  destruct (expand R t ([], c)) as [[f st]|] eqn:E; inversion H; subst; clear H.
  assert (I0 : ginv c ([], c)) by (repeat split; simpl; try discriminate; lia).
  destruct (proj1 (expand_ginv c) _ _ _ _ _ E I0) as [[I1 [I2 I3]] [LE AS]].
  exists (assign (fst st)). split; [|split; [|split]].
  - apply (proj1 expand_pure_eq _ _ _ _ _ E), assign_agrees.
  - intros p Hp. destruct (AS _ Hp) as [k Hk]. unfold assign. rewrite Hk. exact (I1 _ _ Hk).
  - intros p q Hp Hq EQ. destruct (AS _ Hp) as [k Hk]. destruct (AS _ Hq) as [k' Hk'].
    unfold assign in EQ. rewrite Hk, Hk' in EQ. subst. eapply I2; eauto.
  - simpl in LE. exact LE.
Qed.

(** reading two templates one after the other (other users of the global counter may run in
    between): no generated symbol of the second equals one of the first *)
Theorem gensym_fresh_across R1 R2 t1 t2 c code1 c1 c1' code2 c2 :
  read_template R1 t1 c = Some (code1, c1) -> (c1 <= c1')%N ->
  read_template R2 t2 c1' = Some (code2, c2) ->
  exists g1 g2, expand_pure R1 g1 t1 = Some code1 /\ expand_pure R2 g2 t2 = Some code2
                /\ forall p q, In p (gens t1) -> In q (gens t2) -> g1 p <> g2 q.
Proof.
  intros H1 LE H2.
  destruct (gensym_one_per_template _ _ _ _ _ H1) as [g1 [E1 [B1 _]]].
  destruct (gensym_one_per_template _ _ _ _ _ H2) as [g2 [E2 [B2 _]]].
  exists g1, g2. split; [exact E1|]. split; [exact E2|].
  intros p q Hp Hq EQ. specialize (B1 _ Hp). specialize (B2 _ Hq). lia.
Qed.

(** * 5. Resolution *)
Definition plain (R : nsrec) (n : str) : Prop :=
  mem n (special R) = false /\ str_eqb n amp = false /\ starts_with_dot n = false.

Theorem sq_resolves R n :
  plain R n ->
  (forall vns vn, ns_find R n = Some (vns, vn) -> read_sym R None n = (Some vns, vn))
  /\ (ns_find R n = None -> read_sym R None n = (Some (cur R), n))
  /\ fst (read_sym R None n) <> None.
Proof.
  intros [P1 [P2 P3]]. unfold read_sym, resolve_alias. rewrite P2, P3, P1. simpl.
  split; [|split].
  - intros vns vn H. rewrite H. reflexivity.
  - intro H. rewrite H. reflexivity.
  - destruct (ns_find R n) as [[vns vn]|]; simpl; discriminate.
Qed.

Theorem sq_special_bare R n :
  mem n (special R) = true \/ str_eqb n amp = true \/ starts_with_dot n = true ->
  read_sym R None n = (None, n).
Proof.
  unfold read_sym, resolve_alias. intros [H|[H|H]].
  - destruct (str_eqb n amp || starts_with_dot n); [reflexivity|]. rewrite H. reflexivity.
  - rewrite H. reflexivity.
  - rewrite H, orb_true_r. reflexivity.
Qed.

Theorem sq_alias R a n :
  (forall full, assoc a (aliases R) = Some full -> read_sym R (Some a) n = (Some full, n))
  /\ (assoc a (aliases R) = None -> read_sym R (Some a) n = (Some a, n)).
Proof.
  unfold read_sym, resolve_alias. split; [intros full H|intro H]; rewrite H; reflexivity.
Qed.

(** Hygiene: a symbol that denotes a Var where the template is written denotes the same Var
    wherever the expansion is compiled, whatever locals are in scope there. *)
Theorem sq_hygienic globals R U locals n vns vn :
  plain R n ->
  ns_find R n = Some (vns, vn) ->
  var_exists globals vns vn = true ->
  (str_eqb vns (cur U) = true -> ns_find U vn = Some (vns, vn)) ->
  denote globals U locals (fst (read_sym R None n)) (snd (read_sym R None n)) = DVar vns vn.
Proof.
  intros P F G OWN. rewrite (proj1 (sq_resolves R n P) _ _ F). simpl.
  destruct (str_eqb vns (cur U)) eqn:Q.
  - rewrite (OWN eq_refl). reflexivity.
  - rewrite G. reflexivity.
Qed.

(** ... whereas the unqualified symbol itself is captured by a local of that name *)
Lemma unqualified_captured globals U locals n :
  mem n locals = true -> denote globals U locals None n = DLocal n.
Proof. intro H. simpl. rewrite H. reflexivity. Qed.
