(** C09 -- kernel-checked witnesses: what the code did before the two repairs (old shapes),
    the two open findings (scope of loop inits / rest-pattern defaults; empty list templates),
    what happens outside the guard, and non-vacuity of the guarded theorems. *)
From Coq Require Import List NArith ZArith Bool Lia String.
Import ListNotations.
From Verif Require Import C09.Corr C09.DProofs C09.SQProofs.
Open Scope N_scope.

Definition a_ := s_ "a".
Definition b_ := s_ "b".
Definition c_ := s_ "c".
Definition k_ := s_ "k".
Definition x_ := s_ "x".
Definition y_ := s_ "y".
Definition r_ := s_ "r".
Definition m_ := s_ "m".
Definition all_ := s_ "all".

Definition only_quote := {| reemit := false; quote_or_key := true |}.
Definition only_reemit := {| reemit := true; quote_or_key := false |}.

Definition agree_out (sh : shape) (bs : list (pat C * expr C)) (outs : list str) : bool :=
  out_eqb (finish outs (model_let sh bs)) (finish outs (bind_let C bs [])).

(** * F-09a (repaired): (let [{a 'x :or {a 1}} {'x 5}] a) gave 1: with an :or default the key of
    a {sym key} entry was quoted a second time *)
Definition w_09a : list (pat C * expr C) :=
  [(PMap [] [] [] (MCons (@PSym C a_) (@EConst C (VSym None x_)) (@MNil C)) [(a_, @EConst C (VInt 1))] None,
    @EConst C (VMap [(VSym None x_, VInt 5)]))].

Lemma or_quoted_key_old_shape_refuted :
  finish [a_] (model_let only_quote w_09a) = OVals [VInt 1]
  /\ finish [a_] (bind_let C w_09a []) = OVals [VInt 5]
  /\ agree_out cur_shape w_09a [a_] = true.
Proof. vm_compute. auto. Qed.

(** the same with a key that is a local: (let [k :x {a k :or {a 1}} {:x 5}] a) *)
Definition w_09a' : list (pat C * expr C) :=
  [(@PSym C k_, @EConst C (VKw None x_));
   (PMap [] [] [] (MCons (@PSym C a_) (@EVar C (NU k_)) (@MNil C)) [(a_, @EConst C (VInt 1))] None,
    @EConst C (VMap [(VKw None x_, VInt 5)]))].

Lemma or_quoted_local_key_old_shape_refuted :
  finish [a_] (model_let only_quote w_09a') = OVals [VInt 1]
  /\ finish [a_] (bind_let C w_09a' []) = OVals [VInt 5]
  /\ agree_out cur_shape w_09a' [a_] = true.
Proof. vm_compute. auto. Qed.

(** * F-09b (repaired): (let [b 1 [{:keys [a] :or {a b}} b] [{} 2]] a) gave 2: the bindings of a
    nested pattern were emitted a second time after its later siblings *)
Definition w_09b : list (pat C * expr C) :=
  [(@PSym C b_, @EConst C (VInt 1));
   (PVec (PCons (PMap [(None, [(None, a_)])] [] [] (@MNil C) [(a_, @EVar C (NU b_))] None)
                (PCons (@PSym C b_) (@PNil C))) None None,
    @EConst C (VVec [VMap []; VInt 2]))].

Lemma nested_reemit_old_shape_refuted :
  finish [a_; b_] (model_let only_reemit w_09b) = OVals [VInt 2; VInt 2]
  /\ finish [a_; b_] (bind_let C w_09b []) = OVals [VInt 1; VInt 2]
  /\ agree_out cur_shape w_09b [a_; b_] = true.
Proof. vm_compute. auto. Qed.

(** ... and a pattern nested under d vector levels was destructured 2^d times: the binding
    list of [[...[a]...]] had 2^d entries, now d+1 *)
Fixpoint nestp (d : nat) : pat C :=
  match d with
  | O => @PSym C a_
  | S k => PVec (PCons (nestp k) (@PNil C)) None None
  end.

Lemma nest_len_old : forall d n,
  List.length (dbind_ns C old_shape c_datum (fst (mkdef C (nestp d) n))) = (2 ^ d - 1)%nat.
Proof.
  induction d as [|d IH]; intro n; [reflexivity|].
  simpl nestp. simpl mkdef.
  destruct (mkdef C (nestp d) (N.succ n)) as [c n1] eqn:E.
  specialize (IH (N.succ n)). rewrite E in IH. simpl in IH.
  simpl. unfold dbind_ns in IH. rewrite !app_nil_r, !app_length, IH.
  assert (1 <= 2 ^ d)%nat by (clear; induction d; simpl; lia). simpl. lia.
Qed.

Lemma nest_len_cur : forall d n,
  List.length (dbind_ns C cur_shape c_datum (fst (mkdef C (nestp d) n))) = d.
Proof.
  induction d as [|d IH]; intro n; [reflexivity|].
  simpl nestp. simpl mkdef.
  destruct (mkdef C (nestp d) (N.succ n)) as [c n1] eqn:E.
  specialize (IH (N.succ n)). rewrite E in IH. simpl in IH.
  simpl. unfold dbind_ns in IH. rewrite !app_nil_r, IH. reflexivity.
Qed.

Theorem reemit_exponential_old_shape : forall d e n,
  List.length (fst (destructure C old_shape c_datum (nestp d) e n)) = (2 ^ d)%nat
  /\ List.length (fst (destructure C cur_shape c_datum (nestp d) e n)) = S d.
Proof.
  intros d e n. unfold destructure.
  pose proof (nest_len_old d n) as H1. pose proof (nest_len_cur d n) as H2.
  destruct (mkdef C (nestp d) n) as [dd n']. simpl in *. rewrite H1, H2.
  assert (1 <= 2 ^ d)%nat by (clear; induction d; simpl; lia). split; lia.
Qed.

(** * F-09c (open): loop init expressions and defaults of a fn rest pattern do not see the names
    destructured by earlier bindings / parameters *)
Definition w_09c_loop : case :=
  CLoop [(PVec (PCons (@PSym C a_) (PCons (@PSym C b_) (@PNil C))) None None, @EConst C (VVec [VInt 1; VInt 2]));
         (@PSym C c_, @EVar C (NU a_))] None [c_].

Lemma loop_init_scope_refuted :
  model w_09c_loop = OErr E_UNBOUND /\ spec_ok w_09c_loop (OVals [VInt 1]) = true
  /\ spec_ok w_09c_loop (model w_09c_loop) = false.
Proof. vm_compute. auto. Qed.

Definition w_09c_fn : case :=
  CFn [PMap [(None, [(None, x_)])] [] [] (@MNil C) [] None]
      (Some (PMap [(None, [(None, y_)])] [] [] (@MNil C) [(y_, @EVar C (NU x_))] None))
      [VMap [(VKw None x_, VInt 1)]] [x_; y_].

Lemma fn_rest_default_scope_refuted :
  model w_09c_fn = OErr E_UNBOUND /\ spec_ok w_09c_fn (OVals [VInt 1; VInt 1]) = true
  /\ spec_ok w_09c_fn (model w_09c_fn) = false.
Proof. vm_compute. auto. Qed.

(** * F-09d (open): an empty list template evaluates to nil, not to () *)
Definition R0 : nsrec :=
  {| cur := s_ "user"; interns := []; refers := []; aliases := []; special := [s_ "if"] |}.

Lemma sq_empty_list_refuted :
  exists t code st,
    expand R0 t ([], 0) = Some (code, st)
    /\ ev [] code = Ok (FNil, [])
    /\ subst R0 (fun _ => 0) [] t = Ok (FList [], []).
Proof. exists (TList TNil). eexists. eexists. vm_compute. auto. Qed.

Lemma sq_empty_splice_refuted :
  exists t code st,
    expand R0 t ([], 0) = Some (code, st)
    /\ ev [FVec []] code = Ok (FNil, [0])
    /\ subst R0 (fun _ => 0) [FVec []] t = Ok (FList [], [0]).
Proof. exists (TList (TCons (TSplice 0) TNil)). eexists. eexists. vm_compute. auto. Qed.

(** * Outside the guard: an :as name re-bound inside its own pattern *)
Definition w_alias : list (pat C * expr C) :=
  [(PVec (PCons (@PSym C a_) (PCons (@PSym C b_) (@PNil C))) None (Some a_),
    @EConst C (VVec [VVec [VInt 7; VInt 8]; VInt 2]))].

Lemma dup_alias_outside_guard :
  alias_ok (fst (hd (@PSym C a_, @EConst C VNil) w_alias)) = false
  /\ finish [a_; b_] (model_let cur_shape w_alias) = OVals [VVec [VInt 7; VInt 8]; VInt 8]
  /\ finish [a_; b_] (bind_let C w_alias []) = OVals [VVec [VInt 7; VInt 8]; VInt 2].
Proof. vm_compute. auto. Qed.

(** duplicate plain binders are inside the guard: the later binding wins *)
Definition w_dup : list (pat C * expr C) :=
  [(PVec (PCons (PVec (PCons (@PSym C a_) (@PNil C)) None None) (PCons (@PSym C a_) (@PNil C))) None None,
    @EConst C (VVec [VVec [VInt 1]; VInt 2]))].

Lemma dup_binders_later_wins :
  let_ok C w_dup = true
  /\ finish [a_] (model_let cur_shape w_dup) = OVals [VInt 2]
  /\ finish [a_] (bind_let C w_dup []) = OVals [VInt 2].
Proof. vm_compute. auto. Qed.

(** * :or applies exactly when the key is absent (a present nil stays nil) *)
Lemma or_default_iff_absent l k d :
  (massoc k l = None -> c_get (VMap l) k d = Ok d)
  /\ (forall v, massoc k l = Some v -> c_get (VMap l) k d = Ok v).
Proof. unfold c_get. split; [intro H|intros v H]; rewrite H; reflexivity. Qed.

(** * :or is keyed on CONTAINMENT of the name in the :or map, not on the truthiness of the default
    form.  For every kind of map binder (:keys / :strs / :syms element, {sym key} entry): when :or
    has an entry for the name, the emitted binding is the 3-argument get with that default, and on
    a map that lacks the key it evaluates to the default's value [dv] -- for EVERY [dv], false and
    nil included.  (A transcription with [(if-let [d (get ors sym)] ...)] instead of
    [(contains? ors sym)] would emit [EGet2] for a literal false and bind nil.) *)
Lemma or_default_any_value :
  forall (sh : shape) (datum : expr C -> cval) (nm : name) (ors : list (str * expr C)) (x : str)
         (ns : option str) (de : expr C) (l : list (cval * cval)) (dv : cval) (en : env C),
    assoc x ors = Some de ->
    lookup nm en = Some (VMap l) ->
    eval en de = Ok dv ->
    (kw_binding C nm ors (ns, x) = (NU x, @EGet3 C (EVar nm) (@EConst C (VKw ns x)) de)
     /\ (massoc (VKw ns x) l = None -> eval en (snd (kw_binding C nm ors (ns, x))) = Ok dv))
    /\ (str_binding C nm ors x = (NU x, @EGet3 C (EVar nm) (@EConst C (VStr x)) de)
        /\ (massoc (VStr x) l = None -> eval en (snd (str_binding C nm ors x)) = Ok dv))
    /\ (sym_binding C nm ors (ns, x) = (NU x, @EGet3 C (EVar nm) (@EConst C (VSym ns x)) de)
        /\ (massoc (VSym ns x) l = None -> eval en (snd (sym_binding C nm ors (ns, x))) = Ok dv))
    /\ (forall k kv, named_binding C cur_shape datum nm ors k (NU x) = (NU x, @EGet3 C (EVar nm) k de)
        /\ (eval en k = Ok kv -> massoc kv l = None ->
            eval en (snd (named_binding C cur_shape datum nm ors k (NU x))) = Ok dv)).
Proof.
  intros sh datum nm ors x ns de l dv en Ha Hl Hd.
  unfold kw_binding, str_binding, sym_binding, named_binding, ors_get, get_binding.
  cbn [fst snd quote_or_key cur_shape]. rewrite Ha. cbn [snd].
  assert (G : forall k kv, eval en k = Ok kv -> massoc kv l = None ->
                           eval en (@EGet3 C (EVar nm) k de) = Ok dv).
  { intros k kv Hk Hm. cbn [eval]. rewrite Hl, Hk, Hd. cbn. unfold c_get. rewrite Hm. reflexivity. }
  repeat split; try (intro Hm; eapply G; [reflexivity|exact Hm]).
  intros Hk Hm. eapply G; eassumption.
Qed.

(** end to end, model and specification: (let [{:keys [a] :or {a false}} {}] a) = false, with a nil
    default nil, with 0 the integer 0; a present nil / false is kept *)
Definition w_or (d v : option cval) : list (pat C * expr C) :=
  [(PMap [(None, [(None, a_)])] [] [] (@MNil C)
         (match d with Some dv => [(a_, @EConst C dv)] | None => [] end) None,
    @EConst C (VMap (match v with Some x => [(VKw None a_, x)] | None => [] end)))].

Example or_falsey_defaults :
  let run d v := (finish [a_] (model_let cur_shape (w_or d v)), finish [a_] (bind_let C (w_or d v) [])) in
  run (Some (VBool false)) None = (OVals [VBool false], OVals [VBool false])
  /\ run (Some VNil) None = (OVals [VNil], OVals [VNil])
  /\ run (Some (VInt 0)) None = (OVals [VInt 0], OVals [VInt 0])
  /\ run None None = (OVals [VNil], OVals [VNil])
  /\ run (Some (VBool false)) (Some VNil) = (OVals [VNil], OVals [VNil])
  /\ run (Some (VInt 1)) (Some (VBool false)) = (OVals [VBool false], OVals [VBool false])
  /\ out_eqb (OVals [VBool false]) (OVals [VNil]) = false.
Proof. vm_compute. repeat split. Qed.

(** * Non-vacuity: a depth-3 pattern with every construct meets the premises, and binds *)
Definition p_big : pat C :=
  PVec (PCons (PMap [(None, [(None, a_); (Some (s_ "q"), b_)])] [c_] [(None, [(None, x_)])]
                    (MCons (PVec (PCons (@PSym C y_) (@PNil C)) (Some r_) None) (@EConst C (VKw None k_)) (@MNil C))
                    [(a_, @EConst C (VInt 9)); (c_, @EVar C (NU a_))] (Some m_))
              (@PNil C)) None (Some all_).

Definition v_big : cval :=
  VVec [VMap [(VKw (Some (s_ "q")) b_, VInt 2); (VSym None x_, VInt 3);
              (VKw None k_, VVec [VInt 4; VInt 5; VInt 6])]].

Example guards_nonvacuous :
  user_pat p_big = true /\ alias_ok p_big = true /\ distinct_binders p_big
  /\ finish [a_; b_; c_; x_; y_; r_] (model_let cur_shape [(p_big, @EConst C v_big)])
     = OVals [VInt 9; VInt 2; VInt 9; VInt 3; VInt 4; VList [VInt 5; VInt 6]].
Proof.
  split; [reflexivity|]. split; [reflexivity|]. split; [|vm_compute; reflexivity].
  unfold distinct_binders. vm_compute.
  repeat (constructor; [simpl; intuition discriminate|]). constructor.
Qed.

Example sq_nonvacuous :
  let t := TList (TCons (TSym None (s_ "if")) (TCons (TGen x_) (TCons (TVec (TCons (TGen x_)
             (TCons (TUnq 0) (TCons (TSplice 1) TNil)))) (TCons (TSym None a_) TNil)))) in
  ne_ok [FInt 1; FVec [FInt 2; FInt 3]] t = true
  /\ exists code c', read_template R0 t 7 = Some (code, c')
     /\ ev [FInt 1; FVec [FInt 2; FInt 3]] code
        = Ok (FList [FSym None (SN (s_ "if")); FSym None (SG x_ 7);
                     FVec [FSym None (SG x_ 7); FInt 1; FInt 2; FInt 3];
                     FSym (Some (s_ "user")) (SN a_)], [0; 1]).
Proof. split; [reflexivity|]. eexists. eexists. vm_compute. auto. Qed.
