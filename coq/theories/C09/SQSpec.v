(** C09 -- SPECIFICATION of syntax-quote: substitution semantics of quasi-quotation.
    A template denotes the data structure of the same shape in which
      - every symbol is replaced by its resolution in the namespace where the template is
        written ([read_sym], characterised by the resolution theorems),
      - every auto-gensym [p#] is replaced by ONE symbol [p_(g p)] for an assignment [g] of the
        template,
      - [~e] is replaced by the value of e and [~@e] by the elements of the value of e,
      - lists stay lists, vectors vectors, maps maps, sets sets.
    The holes are evaluated exactly once each, left to right (the trace), all elements of a
    collection before its splices are flattened (function-call semantics). *)
From Coq Require Import List NArith ZArith Bool.
Import ListNotations.
From Verif Require Import Common.ListX.
From Verif Require Export C09.SyntaxQuote.

(** an evaluated collection element: a single value or a value to be spliced *)
Definition chunk := (bool * form)%type.

Fixpoint flatten (cs : list chunk) : res (list form) :=
  match cs with
  | [] => Ok []
  | (false, v) :: t => b <- flatten t ;; Ok (v :: b)
  | (true, v) :: t => a <- fseq_elems v ;; b <- flatten t ;; Ok (a ++ b)
  end.

(** [mklist] is what a list template with these elements denotes: [FList] for the property,
    [mk_seq] (nil when empty) for what (seq (concat ...)) computes. *)
Fixpoint subst_gen (mklist : list form -> form) (R : nsrec) (g : str -> N) (sg : holes)
         (t : tmpl) : res (form * list N) :=
  match t with
  | TAtom a => Ok (atom_form a, [])
  | TSym ns n => let r := read_sym R ns n in Ok (FSym (fst r) (SN (snd r)), [])
  | TGen p => Ok (FSym None (SG p (g p)), [])
  | TUnq h => Ok (hole_val sg h, [h])
  | TSplice _ => Err E_SYNTAX
  | TList l =>
      r <- subst_elems mklist R g sg l ;; fl <- flatten (fst r) ;; Ok (mklist fl, snd r)
  | TVec l =>
      r <- subst_elems mklist R g sg l ;; fl <- flatten (fst r) ;; Ok (FVec fl, snd r)
  | TSet l =>
      r <- subst_elems mklist R g sg l ;; fl <- flatten (fst r) ;; Ok (mk_set fl, snd r)
  | TMap l =>
      r <- subst_elems mklist R g sg l ;; fl <- flatten (fst r) ;; m <- mk_map fl ;; Ok (m, snd r)
  end
with subst_elems (mklist : list form -> form) (R : nsrec) (g : str -> N) (sg : holes)
                 (l : tmpls) : res (list chunk * list N) :=
  match l with
  | TNil => Ok ([], [])
  | TCons e r =>
      a <- (match e with
            | TUnq h => Ok ((false, hole_val sg h), [h])
            | TSplice h => Ok ((true, hole_val sg h), [h])
            | _ => x <- subst_gen mklist R g sg e ;; Ok ((false, fst x), snd x)
            end) ;;
      b <- subst_elems mklist R g sg r ;;
      Ok (fst a :: fst b, snd a ++ snd b)
  end.

(** the property's reading: the enclosing collection type is preserved *)
Definition subst := subst_gen FList.
(** what the emitted (seq (concat ...)) computes: an empty list template yields nil *)
Definition subst_seq := subst_gen mk_seq.

(** GUARD: no list node of the template ends up without elements *)
Definition chunk_nonempty (sg : holes) (e : tmpl) : bool :=
  match e with
  | TSplice h => match fseq_elems (hole_val sg h) with Ok (_ :: _) => true | _ => false end
  | _ => true
  end.

Fixpoint some_nonempty (sg : holes) (l : tmpls) : bool :=
  match l with TNil => false | TCons e r => chunk_nonempty sg e || some_nonempty sg r end.

Fixpoint ne_ok (sg : holes) (t : tmpl) : bool :=
  match t with
  | TList l => some_nonempty sg l && ne_ok_elems sg l
  | TVec l | TSet l | TMap l => ne_ok_elems sg l
  | _ => true
  end
with ne_ok_elems (sg : holes) (l : tmpls) : bool :=
  match l with TNil => true | TCons e r => ne_ok sg e && ne_ok_elems sg r end.

(** the auto-gensym prefixes occurring in a template *)
Fixpoint gens (t : tmpl) : list str :=
  match t with
  | TGen p => [p]
  | TList l | TVec l | TSet l | TMap l => gens_elems l
  | _ => []
  end
with gens_elems (l : tmpls) : list str :=
  match l with TNil => [] | TCons e r => gens e ++ gens_elems r end.

(** the holes of a template in textual order *)
Fixpoint holes_of (t : tmpl) : list N :=
  match t with
  | TUnq h | TSplice h => [h]
  | TList l | TVec l | TSet l | TMap l => holes_elems l
  | _ => []
  end
with holes_elems (l : tmpls) : list N :=
  match l with TNil => [] | TCons e r => holes_of e ++ holes_elems r end.

(** expansion with the gensym assignment given as a function (no state) *)
Fixpoint expand_pure (R : nsrec) (g : str -> N) (t : tmpl) : option form :=
  match t with
  | TAtom a => Some (atom_form a)
  | TSym ns n => let r := read_sym R ns n in Some (quoted (FSym (fst r) (SN (snd r))))
  | TGen p => Some (quoted (FSym None (SG p (g p))))
  | TUnq h => Some (FHole h)
  | TSplice _ => None
  | TList l =>
      match expand_elems_pure R g l with
      | Some parts => Some (FList [c_seq; FList (c_concat :: parts)])
      | None => None
      end
  | TVec l =>
      match expand_elems_pure R g l with
      | Some parts => Some (FList [c_apply; c_vector; FList (c_concat :: parts)])
      | None => None
      end
  | TSet l =>
      match expand_elems_pure R g l with
      | Some parts => Some (FList [c_apply; c_hash_set; FList (c_concat :: parts)])
      | None => None
      end
  | TMap l =>
      match expand_elems_pure R g l with
      | Some parts => Some (FList [c_apply; c_hash_map; FList (c_concat :: parts)])
      | None => None
      end
  end
with expand_elems_pure (R : nsrec) (g : str -> N) (l : tmpls) : option (list form) :=
  match l with
  | TNil => Some []
  | TCons e r =>
      match (match e with
             | TUnq h => Some (FList [c_list; FHole h])
             | TSplice h => Some (FHole h)
             | _ => match expand_pure R g e with
                    | Some f => Some (FList [c_list; f])
                    | None => None
                    end
             end) with
      | Some part =>
          match expand_elems_pure R g r with
          | Some parts => Some (part :: parts)
          | None => None
          end
      | None => None
      end
  end.

(** use-site lookup of a symbol by the analyzer (analyzer.py _resolve_sym): an unqualified
    symbol is looked up among the locals first, then in the current namespace; a qualified
    symbol never denotes a local: it is looked up in the current namespace when the
    namespace part names it, otherwise among all Vars by (namespace, name). *)
Inductive denot := DLocal (n : str) | DVar (ns n : str) | DNone.

Definition denot_eqb (a b : denot) : bool :=
  match a, b with
  | DLocal x, DLocal y => str_eqb x y
  | DVar a1 a2, DVar b1 b2 => str_eqb a1 b1 && str_eqb a2 b2
  | DNone, DNone => true
  | _, _ => false
  end.

Definition var_exists (globals : list (str * str)) (ns n : str) : bool :=
  existsb (fun v => str_eqb (fst v) ns && str_eqb (snd v) n) globals.

Definition denote (globals : list (str * str)) (U : nsrec) (locals : list str)
           (ns : option str) (n : str) : denot :=
  match ns with
  | None =>
      if mem n locals then DLocal n
      else match ns_find U n with Some (vns, vn) => DVar vns vn | None => DNone end
  | Some q =>
      if str_eqb q (cur U)
      then match ns_find U n with Some (vns, vn) => DVar vns vn | None => DNone end
      else if var_exists globals q n then DVar q n
      else match assoc q (aliases U) with
           | Some full => if var_exists globals full n then DVar full n else DNone
           | None => DNone
           end
  end.
