(** C09 correspondence interface: cases, observable outputs, spec predicate, model.
    Destructuring cases run over the executable oracle [C] of Values.v; syntax-quote cases over
    the forms of SyntaxQuote.v with the special-form table regenerated from runtime.py. *)
From Coq Require Import List Bool ZArith NArith.
Import ListNotations.
From Verif Require Export Common.ListX C09.DLang C09.Destructure C09.DSpec C09.Values
  C09.SyntaxQuote C09.SQSpec.
From Verif Require Import Gen.Tables.

(** namespace state of a syntax-quote case; the special forms come from the generated table *)
Record nslite := { l_cur : str; l_interns : list (str * (str * str));
                   l_refers : list (str * (str * str)); l_aliases : list (str * str) }.
Definition full_ns (L : nslite) : nsrec :=
  {| cur := l_cur L; interns := l_interns L; refers := l_refers L; aliases := l_aliases L;
     special := sq_special_forms |}.

Inductive case :=
(* (let [p e ...] [outs...]) *)
| CLet (bs : list (pat C * expr C)) (outs : list str)
(* ((fn [ps... & rest] [outs...]) args...) ; the rest pattern receives the surplus arguments *)
| CFn (ps : list (pat C)) (rest : option (pat C)) (args : list cval) (outs : list str)
(* (loop [p e ... i 0] (if (= i 0) (recur 'v ... 1) [outs...])) ; without recur values: no recur *)
| CLoop (bs : list (pat C * expr C)) (rec : option (list cval)) (outs : list str)
(* read `template in namespace L; evaluate the form read with the holes bound to sg *)
| CSq (L : nslite) (t : tmpl) (sg : holes)
(* hygiene: the symbol ns/n written in a template of namespace L, after expansion compiled in
   namespace U where [locals] are in scope and the Vars [globals] exist *)
| CUse (L U : nslite) (globals : list (str * str)) (locals : list str) (ns : option str) (n : str).

Inductive out :=
| OVals (l : list cval)                              (* the vector of bound locals *)
| OSq (rd : form) (v : res form) (tr : list N)       (* form read; its value; holes in evaluation order *)
| ODen (d : denot)
| OErr (c : N).  (* 1 TypeError 2 IndexError 3 other 4 timeout/hang 5 SyntaxError 7 form and
                    macroexpansion disagree 9 CompilerException *)

Definition res_eqb (a b : res form) : bool :=
  match a, b with
  | Ok x, Ok y => form_equiv x y
  | Err x, Err y => N.eqb x y
  | _, _ => false
  end.

Definition out_eqb (a b : out) : bool :=
  match a, b with
  | OVals l1, OVals l2 => list_eqb cval_equiv l1 l2
  | OSq r1 v1 t1, OSq r2 v2 t2 => form_equiv r1 r2 && res_eqb v1 v2 && list_eqb N.eqb t1 t2
  | ODen x, ODen y => denot_eqb x y
  | OErr x, OErr y => N.eqb x y
  | _, _ => false
  end.

Definition no_datum (e : expr C) : cval := VNil.

Fixpoint lookups (outs : list str) (en : env C) : res (list cval) :=
  match outs with
  | [] => Ok []
  | x :: t => match lookup (NU x) en with
              | Some v => r <- lookups t en ;; Ok (v :: r)
              | None => Err E_UNBOUND
              end
  end.

Definition finish (outs : list str) (r : res (env C)) : out :=
  match (en <- r ;; lookups outs en) with Ok l => OVals l | Err c => OErr c end.

(** the surplus arguments as the rest parameter's value *)
Definition rest_val (n : nat) (args : list cval) : cval := seq_of (skipn n args).

Fixpoint bind_names (ns : list name) (vs : list cval) (en : env C) : env C :=
  match ns, vs with
  | x :: nt, v :: vt => bind_names nt vt ((x, v) :: en)
  | _, _ => en
  end.

(** * model: the transcribed macros (current shape) *)
Definition model_let (sh : shape) (bs : list (pat C * expr C)) : res (env C) :=
  eval_let (fst (let_bindings C sh c_datum bs 0%N)) [].

Definition model_fn (sh : shape) (ps : list (pat C)) (rest : option (pat C)) (args : list cval)
  : res (env C) :=
  let '(names, rname, bindings, _) := fn_parts C sh c_datum ps rest 0%N in
  let en0 := bind_names names args [] in
  let en1 := match rname with
             | Some r => (r, rest_val (length ps) args) :: en0
             | None => en0
             end in
  eval_let bindings en1.

Definition model_loop (sh : shape) (bs : list (pat C * expr C)) (rec : option (list cval))
  : res (env C) :=
  let '(bv, inner, _) := loop_parts C sh c_datum bs 0%N in
  match rec with
  | None => en <- eval_let bv [] ;; eval_let inner en
  | Some vs =>
      en <- eval_let bv [] ;; _ <- eval_let inner en ;;
      eval_let inner (bind_names (map fst bv) vs [])
  end.

Definition sq_gamma (R : nsrec) (t : tmpl) : str -> N :=
  match expand R t ([], 0%N) with
  | Some (_, st) => fun p => match assoc p (fst st) with Some k => k | None => 0%N end
  | None => fun _ => 0%N
  end.

Definition split_res (r : res (form * list N)) : res form * list N :=
  match r with Ok (v, tr) => (Ok v, tr) | Err c => (Err c, []) end.

Definition model (c : case) : out :=
  match c with
  | CLet bs outs => finish outs (model_let cur_shape bs)
  | CFn ps rest args outs => finish outs (model_fn cur_shape ps rest args)
  | CLoop bs rec outs => finish outs (model_loop cur_shape bs rec)
  | CSq L t sg =>
      match read_template (full_ns L) t 0%N with
      | Some (code, _) => let r := split_res (ev sg code) in OSq code (fst r) (snd r)
      | None => OErr E_SYNTAX
      end
  | CUse L U globals locals ns n =>
      let r := read_sym (full_ns L) ns n in
      ODen (denote globals (full_ns U) locals (fst r) (snd r))
  end.

(** * spec *)
Definition zip_consts (ps : list (pat C)) (vs : list cval) : list (pat C * expr C) :=
  map (fun pv : pat C * cval => (fst pv, @EConst C (snd pv))) (combine ps vs).

Definition spec_env (c : case) : res (env C) :=
  match c with
  | CLet bs _ => bind_let C bs []
  | CFn ps rest args _ =>
      bind_params C ps rest (firstn (length ps) args) (rest_val (length ps) args) []
  | CLoop bs None _ => bind_loop C bs []
  | CLoop bs (Some vs) _ =>
      _ <- bind_loop C bs [] ;; bind_let C (zip_consts (map fst bs) vs) []
  | _ => Err 0%N
  end.

Definition spec_ok (c : case) (o : out) : bool :=
  match c with
  | CLet _ outs | CFn _ _ _ outs | CLoop _ _ outs => out_eqb (finish outs (spec_env c)) o
  | CSq L t sg =>
      let R := full_ns L in
      match o with
      | OSq _ v tr =>
          (* the value is the substitution instance; holes once, in textual order *)
          let r := split_res (subst R (sq_gamma R t) sg t) in
          res_eqb (fst r) v && (match v with Ok _ => list_eqb N.eqb tr (holes_of t) | Err _ => true end)
      | OErr c => match subst R (sq_gamma R t) sg t with
                  | Err c' => N.eqb c c' && N.eqb c E_SYNTAX
                  | Ok _ => false
                  end
      | _ => false
      end
  | CUse L U globals locals ns n =>
      (* what the symbol denotes where the template is written (no locals there) is what the
         expansion denotes at the use site *)
      match o with
      | ODen d =>
          let R := full_ns L in
          match ns with
          | None =>
              if mem n (special R) || str_eqb n amp || starts_with_dot n then true
              else match ns_find R n with
                   | Some (vns, vn) => denot_eqb d (DVar vns vn)
                   | None => (* not a Var yet: the name is pinned to the defining namespace *)
                       denot_eqb d (if var_exists globals (cur R) n then DVar (cur R) n else DNone)
                   end
          | Some _ => match d with DLocal _ => false | _ => true end
          end
      | _ => false
      end
  end.
