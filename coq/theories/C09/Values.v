(** C09 -- an executable instance of the oracle: Clojure/basilisp values (nil, booleans,
    integers, strings, keywords, symbols, lists/seqs, vectors, maps, sets) with the semantics
    of nth (nil default), nthnext, get (with default), seq?, next, first, apply hash-map and
    -collect-keyword-args as measured on the implementation (runtime.py nth/get/nthnext),
    including nil, too-short and wrongly-typed arguments.  The correspondence run evaluates
    model and specification over this instance; the theorems hold for every oracle. *)
From Coq Require Import List NArith ZArith Bool.
Import ListNotations.
From Verif Require Import Common.ListX C09.DLang.

Inductive cval :=
| VNil
| VBool (b : bool)
| VInt (z : Z)
| VStr (s : str)
| VKw (ns : option str) (n : str)
| VSym (ns : option str) (n : str)
| VList (l : list cval)            (* a list or any other seq *)
| VVec (l : list cval)
| VMap (l : list (cval * cval))    (* association list without duplicate keys *)
| VSet (l : list cval).

Definition ostr_eqb := option_eqb str_eqb.

(** structural equality (used for map lookup on scalar keys) *)
Fixpoint cval_eqb (a b : cval) : bool :=
  match a, b with
  | VNil, VNil => true
  | VBool x, VBool y => Bool.eqb x y
  | VInt x, VInt y => Z.eqb x y
  | VStr x, VStr y => str_eqb x y
  | VKw n1 s1, VKw n2 s2 => ostr_eqb n1 n2 && str_eqb s1 s2
  | VSym n1 s1, VSym n2 s2 => ostr_eqb n1 n2 && str_eqb s1 s2
  | VList l1, VList l2 | VVec l1, VVec l2 | VSet l1, VSet l2 =>
      (fix go (l1 l2 : list cval) : bool :=
         match l1, l2 with
         | [], [] => true
         | x :: t, y :: u => cval_eqb x y && go t u
         | _, _ => false
         end) l1 l2
  | VMap l1, VMap l2 =>
      (fix go (l1 l2 : list (cval * cval)) : bool :=
         match l1, l2 with
         | [], [] => true
         | (k1, v1) :: t, (k2, v2) :: u => cval_eqb k1 k2 && cval_eqb v1 v2 && go t u
         | _, _ => false
         end) l1 l2
  | _, _ => false
  end.

(** equality of observables: maps and sets up to the order of their entries *)
Fixpoint cval_equiv (a b : cval) : bool :=
  match a, b with
  | VNil, VNil => true
  | VBool x, VBool y => Bool.eqb x y
  | VInt x, VInt y => Z.eqb x y
  | VStr x, VStr y => str_eqb x y
  | VKw n1 s1, VKw n2 s2 => ostr_eqb n1 n2 && str_eqb s1 s2
  | VSym n1 s1, VSym n2 s2 => ostr_eqb n1 n2 && str_eqb s1 s2
  | VList l1, VList l2 | VVec l1, VVec l2 =>
      (fix go (l1 l2 : list cval) : bool :=
         match l1, l2 with
         | [], [] => true
         | x :: t, y :: u => cval_equiv x y && go t u
         | _, _ => false
         end) l1 l2
  | VSet l1, VSet l2 =>
      Nat.eqb (length l1) (length l2) &&
      (fix all1 (l1 : list cval) : bool :=
         match l1 with
         | [] => true
         | x :: t => (fix ex (l2 : list cval) : bool :=
                        match l2 with [] => false | y :: u => cval_equiv x y || ex u end) l2
                     && all1 t
         end) l1
  | VMap l1, VMap l2 =>
      Nat.eqb (length l1) (length l2) &&
      (fix all1 (l1 : list (cval * cval)) : bool :=
         match l1 with
         | [] => true
         | (k, v) :: t => (fix ex (l2 : list (cval * cval)) : bool :=
                             match l2 with
                             | [] => false
                             | (k', v') :: u => (cval_equiv k k' && cval_equiv v v') || ex u
                             end) l2
                          && all1 t
         end) l1
  | _, _ => false
  end.

Definition E_TYPE : N := 1%N.      (* TypeError *)
Definition E_INDEX : N := 2%N.     (* IndexError: odd number of arguments to hash-map *)

(** (seq v) as a Coq list *)
Definition seq_elems (v : cval) : res (list cval) :=
  match v with
  | VNil => Ok []
  | VList l | VVec l | VSet l => Ok l
  | VStr s => Ok (map (fun c => VStr [c]) s)
  | VMap l => Ok (map (fun kv => VVec [fst kv; snd kv]) l)
  | _ => Err E_TYPE
  end.

Definition seq_of (l : list cval) : cval := match l with [] => VNil | _ => VList l end.

(** (nth v i nil) *)
Definition c_nth (v : cval) (i : N) : res cval :=
  match v with
  | VNil => Ok VNil
  | VList l | VVec l => Ok (nth (N.to_nat i) l VNil)
  | VStr s => Ok (match nth_error s (N.to_nat i) with Some c => VStr [c] | None => VNil end)
  | _ => Err E_TYPE
  end.

(** (nthnext v i) *)
Definition c_nthnext (v : cval) (i : N) : res cval :=
  l <- seq_elems v ;; Ok (seq_of (skipn (N.to_nat i) l)).

Fixpoint massoc (k : cval) (l : list (cval * cval)) : option cval :=
  match l with
  | [] => None
  | (k', v) :: t => if cval_eqb k k' then Some v else massoc k t
  end.

(** Python indexing: 0 <= i < len, or -len <= i < 0 counted from the end *)
Definition py_index {A} (l : list A) (z : Z) : option A :=
  let n := Z.of_nat (length l) in
  if (0 <=? z)%Z && (z <? n)%Z then nth_error l (Z.to_nat z)
  else if (z <? 0)%Z && (- n <=? z)%Z then nth_error l (Z.to_nat (n + z))
  else None.

(** (get m k d): never raises *)
Definition c_get (m k d : cval) : res cval :=
  Ok (match m with
      | VMap l => match massoc k l with Some v => v | None => d end
      | VVec l => match k with
                  | VInt z => match py_index l z with Some v => v | None => d end
                  | _ => d
                  end
      | VStr s => match k with
                  | VInt z => match py_index s z with Some c => VStr [c] | None => d end
                  | _ => d
                  end
      | VSet l => if existsb (cval_eqb k) l then k else d
      | _ => d
      end).

Definition c_seqp (v : cval) : bool := match v with VList _ => true | _ => false end.
Definition c_truthy (v : cval) : bool :=
  match v with VNil => false | VBool false => false | _ => true end.

Definition c_next (v : cval) : res cval :=
  l <- seq_elems v ;; Ok (seq_of (tl l)).
Definition c_first (v : cval) : res cval :=
  l <- seq_elems v ;; Ok (match l with x :: _ => x | [] => VNil end).

Fixpoint mput (k v : cval) (l : list (cval * cval)) : list (cval * cval) :=
  match l with
  | [] => [(k, v)]
  | (k', v') :: t => if cval_eqb k k' then (k, v) :: t else (k', v') :: mput k v t
  end.

(** (hash-map k1 v1 k2 v2 ...): a later pair replaces an earlier one with the same key *)
Fixpoint pair_up (fuel : nat) (l : list cval) (acc : list (cval * cval)) : res cval :=
  match fuel with
  | O => Ok (VMap acc)
  | S f =>
      match l with
      | [] => Ok (VMap acc)
      | [_] => Err E_INDEX
      | k :: v :: t => pair_up f t (mput k v acc)
      end
  end.

Definition c_hashmap (v : cval) : res cval :=
  l <- seq_elems v ;; pair_up (S (length l)) l [].

(** (-collect-keyword-args kwargs) *)
Definition c_collect (v : cval) : res cval :=
  l <- seq_elems v ;;
  match rev l with
  | [] => Ok VNil
  | VMap lm :: ri =>
      let flat := rev ri ++ flat_map (fun kv => [fst kv; snd kv]) lm in
      pair_up (S (length flat)) flat []
  | _ => pair_up (S (length l)) l []
  end.

Definition C : oracle := {|
  val := cval;
  vnil := VNil;
  vkw := VKw;
  vsym := VSym;
  vstr := VStr;
  nth_ := c_nth;
  nthnext_ := c_nthnext;
  get_ := c_get;
  seqp := c_seqp;
  truthy := c_truthy;
  next_ := c_next;
  first_ := c_first;
  hashmap_ := c_hashmap;
  collect_ := c_collect
|}.

(** the datum a key form stands for under (quote ...): self-evaluating literals stay, a
    variable reference is the symbol, a quoted symbol 'x is the list (quote x) *)
Definition c_datum (e : expr C) : cval :=
  match e with
  | EConst (VSym ns n) => VList [VSym None [113; 117; 111; 116; 101]%N; VSym ns n]
  | EConst v => v
  | EVar (NU x) => VSym None x
  | _ => VNil
  end.
