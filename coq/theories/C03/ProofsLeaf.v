(** C03 proofs, part 5: [_read_next] dispatch and the round trip of every leaf of the universe. *)
From Coq Require Import List NArith ZArith Bool Lia.
Import ListNotations.
From Verif Require Import Common.ListX Gen.Prims Gen.Tables C19.Bencode C19.BencodeProofs C19.Edn C19.EdnProofs.
From Verif Require Import C03.Printer C03.ReadBack C03.Guard C03.ProofsBase C03.ProofsNum C03.ProofsFloat C03.ProofsTok.
Local Open Scope N_scope.

(** * Character facts by reflection *)
Definition head_ok (c : N) : bool := negb (is_ws c) && negb (mem c [41; 93; 125]).

Definition safe_kind_facts (c : N) : bool :=
  implb (safe c) (head_ok c && (is_digit c || (c =? 45) || (kind c =? 10)) && negb (c =? 58)).
Lemma safe_kind_all : forallb safe_kind_facts (map N.of_nat (seq 33 94)) = true.
Proof. vm_compute. reflexivity. Qed.

Lemma safe_kind c : safe c = true -> head_ok c = true /\ (is_digit c = true \/ c = 45 \/ kind c = 10) /\ c <> 58.
Proof.
  intro S. pose proof (safe_range c S) as R.
  pose proof (range_reflect safe_kind_facts 33 94 safe_kind_all c) as F.
  assert (F' : safe_kind_facts c = true) by (apply F; simpl; lia). clear F.
  unfold safe_kind_facts in F'. rewrite S in F'. cbn [implb] in F'.
  apply andb_true_iff in F' as [F' F3]. apply andb_true_iff in F' as [F1 F2].
  apply negb_true_iff, N.eqb_neq in F3. repeat split; auto.
  apply orb_true_iff in F2 as [F2|F2]; [apply orb_true_iff in F2 as [F2|F2]|].
  - left. exact F2.
  - right. left. apply N.eqb_eq. exact F2.
  - right. right. apply N.eqb_eq. exact F2.
Qed.

Definition digit_kind_facts (c : N) : bool := implb (is_digit c) (head_ok c && (kind c =? 7)).
Lemma digit_kind_all : forallb digit_kind_facts (map N.of_nat (seq 48 10)) = true.
Proof. vm_compute. reflexivity. Qed.
Lemma digit_kind c : is_digit c = true -> head_ok c = true /\ kind c = 7.
Proof.
  intro D. pose proof (digit_range c D) as R.
  pose proof (range_reflect digit_kind_facts 48 10 digit_kind_all c) as F.
  assert (F' : digit_kind_facts c = true) by (apply F; simpl; lia). clear F.
  unfold digit_kind_facts in F'. rewrite D in F'. cbn [implb] in F'.
  apply andb_true_iff in F' as [F1 F2]. apply N.eqb_eq in F2. auto.
Qed.

Lemma drop_ws_head c t : is_ws c = false -> drop_ws (c :: t) = c :: t.
Proof. intro H. simpl. rewrite H. reflexivity. Qed.

Lemma head_ok_ws c : head_ok c = true -> is_ws c = false.
Proof. unfold head_ok. intro H. apply andb_true_iff in H as [H _]. apply negb_true_iff in H. exact H. Qed.

Section Leaf.
  Variable py_float py_dec py_imag py_uuid py_inst : str -> option str.
  Variable re_ok : str -> bool.
  Notation read_next := (read_next py_float py_dec py_imag py_uuid py_inst re_ok).
  Notation read_coll := (read_coll py_float py_dec py_imag py_uuid py_inst re_ok).
  Notation read_num := (read_num py_float py_dec py_imag).
  Notation classify := (classify py_float py_dec py_imag).

  (** [reads text x sz]: wherever the text is followed by a separator, a closing bracket or the
      end of the input, the reader (with at least [sz] units of fuel) reads exactly [x] and
      stops right after the text *)
  Definition reads (text : str) (x : value) (sz : nat) : Prop :=
    forall f rest, rest_ok rest = true -> (sz <= f)%nat -> read_next f (text ++ rest) = ROk (x, rest).

  Lemma reads_mono text x a b : (a <= b)%nat -> reads text x a -> reads text x b.
  Proof. intros L H f rest R F. apply H; [exact R|lia]. Qed.

  (** ** dispatch equations *)
  Lemma next_num f c t : kind c = 7 -> read_next (S f) (c :: t) = read_num (c :: t) [].
  Proof. intro K. cbn [ReadBack.read_next]. rewrite K. reflexivity. Qed.
  Lemma next_sym f c t : kind c = 10 -> read_next (S f) (c :: t) = read_sym (c :: t).
  Proof. intro K. cbn [ReadBack.read_next]. rewrite K. reflexivity. Qed.
  Lemma next_kw f t : read_next (S f) (58 :: t) = read_kw t.
  Proof. reflexivity. Qed.
  Lemma next_str f t : read_next (S f) (34 :: t) = bind (read_str_body false t []) (fun '(s, r) => ROk (VStr s, r)).
  Proof. reflexivity. Qed.
  Lemma next_regex f t : read_next (S f) (35 :: 34 :: t) =
    bind (read_str_body true t []) (fun '(s, r) => if re_ok s then ROk (VRegex s, r) else RErr 1).
  Proof. reflexivity. Qed.
  Lemma next_const f t : read_next (S f) (35 :: 35 :: t) = read_const t.
  Proof. reflexivity. Qed.

  (** ** words: nil true false, and symbols *)
  Lemma sym_text_next f ns nm rest : name_ok nm = true -> ns_ok ns = true -> dash_ok (qualified ns nm) = true ->
    rest_ok rest = true ->
    read_next (S f) (qualified ns nm ++ rest) = read_sym (qualified ns nm ++ rest).
  Proof.
    intros H1 H2 DO R. destruct (qualified_head ns nm H1 H2) as (c & t & E & Sc & D).
    destruct (safe_kind c Sc) as (_ & K & _). rewrite E in *. simpl app.
    destruct K as [K|[K|K]]; [congruence| |apply next_sym, K].
    subst c. rewrite next_num by reflexivity.
    assert (NB : match t ++ rest with c2 :: _ => begin_num c2 | [] => false end = false).
    { destruct t as [|c2 t2].
      - simpl. destruct rest as [|r0 rr]; [reflexivity|]. apply (rest_ok_facts r0 rr R).
      - simpl in DO. simpl. apply negb_true_iff in DO. exact DO. }
    transitivity (if match t ++ rest with c2 :: _ => begin_num c2 | [] => false end
                  then read_num (t ++ rest) [45]
                  else read_sym (45 :: t ++ rest)); [reflexivity|]. rewrite NB. reflexivity.
  Qed.

  Lemma reads_sym ns nm : name_ok nm = true -> ns_ok ns = true -> dash_ok (qualified ns nm) = true ->
    reserved nm = false -> reads (qualified ns nm) (VSym ns nm None) 1.
  Proof.
    intros H1 H2 DO RS f rest R F. destruct f as [|f]; [lia|].
    rewrite sym_text_next by assumption. apply read_sym_ok; auto. apply rest_ok_term, R.
  Qed.

  Lemma reads_word (w : str) (v : value) : name_ok w = true -> dash_ok w = true ->
    (forall rest, rest_term rest -> read_sym (w ++ rest) = ROk (v, rest)) -> reads w v 1.
  Proof.
    intros H1 DO HS f rest R F. destruct f as [|f]; [lia|].
    change w with (qualified None w). rewrite sym_text_next by (auto; reflexivity).
    apply HS, rest_ok_term, R.
  Qed.

  Lemma read_sym_word (w : str) rest : name_ok w = true -> rest_term rest ->
    read_sym (w ++ rest) =
    (if ends_with 35 w then RErr 1
     else if str_eqb w s_nil then ROk (VNil, rest) else if str_eqb w s_true then ROk (VBool true, rest)
     else if str_eqb w s_false then ROk (VBool false, rest) else ROk (VSym None w None, rest)).
  Proof.
    intros H R. unfold read_sym. change (w ++ rest) with (qualified None w ++ rest).
    rewrite (read_namespaced_qualified' None w rest H eq_refl R). reflexivity.
  Qed.

  Lemma reads_nil : reads s_nil VNil 1.
  Proof. apply reads_word; [reflexivity|reflexivity|]. intros rest R. rewrite read_sym_word by (auto; reflexivity). reflexivity. Qed.
  Lemma reads_true : reads s_true (VBool true) 1.
  Proof. apply reads_word; [reflexivity|reflexivity|]. intros rest R. rewrite read_sym_word by (auto; reflexivity). reflexivity. Qed.
  Lemma reads_false : reads s_false (VBool false) 1.
  Proof. apply reads_word; [reflexivity|reflexivity|]. intros rest R. rewrite read_sym_word by (auto; reflexivity). reflexivity. Qed.

  (** ** keywords *)
  Lemma reads_kw ns nm : kw_ok3 ns nm = true -> reads (58 :: qualified ns nm) (VKw ns nm) 1.
  Proof.
    intros K f rest R F. destruct f as [|f]; [lia|]. simpl app. rewrite next_kw.
    apply read_kw_ok; [exact K|apply rest_ok_term, R].
  Qed.

  (** ** numbers *)
  Lemma reads_num tok v : (exists c t, tok = c :: t /\ kind c = 7) -> scan_ok tok = true ->
    (forall rest, classify tok rest = ROk (v, rest)) -> reads tok v 1.
  Proof.
    intros (c & t & E & K) S C f rest R F. destruct f as [|f]; [lia|].
    rewrite E. simpl app. rewrite next_num by exact K. change (c :: t ++ rest) with ((c :: t) ++ rest).
    rewrite <- E. rewrite (read_num_scan py_float py_dec py_imag tok [] rest S R). apply C.
  Qed.

  Lemma kind_45 : kind 45 = 7. Proof. reflexivity. Qed.

  Lemma sign_digit_head sg c t : is_sign sg -> is_digit c = true ->
    exists c' t', sg ++ c :: t = c' :: t' /\ kind c' = 7 /\ head_ok c' = true.
  Proof.
    intros [->| ->] D.
    - exists c, t. destruct (digit_kind c D). auto.
    - exists 45, (c :: t). repeat split; reflexivity.
  Qed.

  Lemma dec_Z_head z : exists c t, dec_Z z = c :: t /\ kind c = 7 /\ head_ok c = true.
  Proof.
    unfold dec_Z. destruct (dec_N_spec (Z.abs_N z)) as (_ & D & NE).
    destruct (dec_N (Z.abs_N z)) as [|c t] eqn:E; [congruence|].
    simpl in D. apply andb_true_iff in D as [Dc _]. destruct (digit_kind c Dc).
    destruct (z <? 0)%Z; [exists 45, (c :: t)|exists c, t]; repeat split; auto.
  Qed.

  Lemma reads_int z : reads (dec_Z z) (VInt z) 1.
  Proof.
    destruct (dec_Z_head z) as (c & t & E & K & _).
    apply reads_num; [eauto|apply dec_Z_scan|]. intro rest. apply classify_int.
  Qed.

  Lemma reads_ratio n d : (2 <= d)%Z -> Z.gcd n d = 1%Z -> reads (dec_Z n ++ 47 :: dec_Z d) (VRatio n d) 1.
  Proof.
    intros D G. destruct (dec_Z_head n) as (c & t & E & K & _).
    apply reads_num.
    - exists c, (t ++ 47 :: dec_Z d). rewrite E. auto.
    - apply (ratio_scan n d). lia.
    - intro rest. apply (classify_ratio py_float py_dec py_imag n d rest D G).
  Qed.

  (** floats: every text of the repr grammar goes to float(text) *)
  Lemma float_routing tok rest : repr_grammar tok = true ->
    classify tok rest = tok_or_err (py_float tok) (fun t => VFloat (FTok t)) rest.
  Proof.
    intro G. destruct (repr_grammar_shape tok G) as (sg & Hs & [(ip & fp & E & Hi & Df)|(d0 & fr & es & ds & E & Hd & Hf & Hes & Dd)]).
    - assert (Hf : is_frac (46 :: fp)) by (right; exists fp; auto).
      assert (Hx : is_sfx []) by (left; reflexivity).
      assert (Hne : 46 :: fp <> [] \/ (@nil N) <> []) by (left; discriminate).
      pose proof (classify_noexp py_float py_dec py_imag sg ip (46 :: fp) [] rest Hs Hi Hf Hx Hne) as C.
      rewrite app_nil_r in C. rewrite E. exact C.
    - assert (He : is_E 101) by (left; reflexivity).
      assert (Hx : is_sfx []) by (left; reflexivity).
      pose proof (classify_exp py_float py_dec py_imag sg d0 fr 101 es ds [] rest Hs Hd Hf He Hes Dd Hx) as C.
      rewrite app_nil_r in C. rewrite E. exact C.
  Qed.

  Lemma repr_scan_head tok : repr_grammar tok = true ->
    scan_ok tok = true /\ exists c t, tok = c :: t /\ kind c = 7 /\ head_ok c = true.
  Proof.
    intro G. destruct (repr_grammar_shape tok G) as (sg & Hs & [(ip & fp & E & Hi & Df)|(d0 & fr & es & ds & E & Hd & Hf & Hes & Dd)]).
    - split.
      + rewrite E. apply (scan_noexp sg ip (46 :: fp)); auto. right. eauto.
      + destruct (int_body_digits ip Hi) as [Di NE]. destruct ip as [|c t]; [congruence|].
        simpl in Di. apply andb_true_iff in Di as [Dc _]. rewrite E. simpl app. apply sign_digit_head; assumption.
    - split.
      + rewrite E. apply scan_exp; auto. left. reflexivity.
      + rewrite E. simpl app. apply sign_digit_head; assumption.
  Qed.

  Lemma dec_routing tok rest : dec_grammar tok = true ->
    classify (tok ++ [77]) rest = tok_or_err (py_dec tok) VDec rest.
  Proof.
    intro G. destruct (dec_grammar_shape tok G) as (sg & Hs & [(ip & fr & E & Hi & Hf)|(d0 & fr & es & ds & E & Hd & Hf & Hes & Dd)]).
    - assert (Hx : is_sfx [77]) by (right; reflexivity).
      assert (Hne : fr <> [] \/ [77] <> []) by (right; discriminate).
      rewrite E. exact (classify_noexp py_float py_dec py_imag sg ip fr [77] rest Hs Hi Hf Hx Hne).
    - assert (He : is_E 69) by (right; reflexivity).
      assert (Hx : is_sfx [77]) by (right; reflexivity).
      rewrite E. exact (classify_exp py_float py_dec py_imag sg d0 fr 69 es ds [77] rest Hs Hd Hf He Hes Dd Hx).
  Qed.

  Lemma scan_ok_M tok : scan_ok tok = true -> (forall t, tok <> t ++ [45]) -> scan_ok (tok ++ [77]) = true.
  Proof. intros S NL. apply scan_ok_app; [exact S|reflexivity|exact NL]. Qed.

  Lemma dec_scan_head tok : dec_grammar tok = true ->
    scan_ok (tok ++ [77]) = true /\ exists c t, tok = c :: t /\ kind c = 7 /\ head_ok c = true.
  Proof.
    intro G. destruct (dec_grammar_shape tok G) as (sg & Hs & [(ip & fr & E & Hi & Hf)|(d0 & fr & es & ds & E & Hd & Hf & Hes & Dd)]).
    - split.
      + rewrite E. replace ((sg ++ ip ++ fr) ++ [77]) with (sg ++ ip ++ (fr ++ [77])) by (rewrite <- !app_assoc; reflexivity).
        destruct (int_body_digits ip Hi) as [Di NE]. destruct ip as [|c t]; [congruence|].
        pose proof Di as Di'. simpl in Di'. apply andb_true_iff in Di' as [Dc Dt].
        simpl app. apply scan_sign; [exact Hs|exact Dc|]. apply scan_simple.
        change (c :: t ++ fr ++ [77]) with ((c :: t) ++ fr ++ [77]).
        rewrite !forallb_app, (digits_simple _ Di), (frac_simple fr Hf). reflexivity.
      + destruct (int_body_digits ip Hi) as [Di NE]. destruct ip as [|c t]; [congruence|].
        simpl in Di. apply andb_true_iff in Di as [Dc _]. rewrite E. simpl app. apply sign_digit_head; assumption.
    - split.
      + rewrite E. apply scan_ok_M; [apply scan_exp; auto; right; reflexivity|].
        intros t' E'. destruct (digits1_inv ds Dd) as [Dds NEds].
        assert (X : ends_with 45 (sg ++ (d0 :: fr) ++ 69 :: es :: ds) = true) by (rewrite E', ends_with_app_last; reflexivity).
        rewrite app_assoc in X. change (69 :: es :: ds) with ([69; es] ++ ds) in X. rewrite app_assoc in X.
        rewrite ends_with_digit_tail in X; [discriminate|reflexivity|exact Dds|exact NEds].
      + rewrite E. simpl app. apply sign_digit_head; assumption.
  Qed.

  (** ** special floats *)
  Lemma reads_const (nm : str) (k : N) : name_ok nm = true -> assoc_str nm rd_numeric_constants = Some k ->
    reads (35 :: 35 :: nm) (VFloat (if k =? 0 then FNaN else if k =? 1 then FInf else FNegInf)) 1.
  Proof.
    intros H A f rest R F. destruct f as [|f]; [lia|]. simpl app. rewrite next_const. unfold read_const.
    change (nm ++ rest) with (qualified None nm ++ rest).
    rewrite (read_namespaced_qualified' None nm rest H eq_refl (rest_ok_term rest R)). rewrite A. reflexivity.
  Qed.
  Lemma reads_inf : reads t_inf (VFloat FInf) 1.
  Proof. exact (reads_const [73; 110; 102] 1 eq_refl eq_refl). Qed.
  Lemma reads_ninf : reads t_ninf (VFloat FNegInf) 1.
  Proof. exact (reads_const [45; 73; 110; 102] 2 eq_refl eq_refl). Qed.
  Lemma reads_nan : reads t_nan (VFloat FNaN) 1.
  Proof. exact (reads_const [78; 97; 78] 0 eq_refl eq_refl). Qed.

  (** ** strings, patterns, tagged strings *)
  Lemma reads_str s : reads (34 :: escape s ++ [34]) (VStr s) 1.
  Proof.
    intros f rest R F. destruct f as [|f]; [lia|]. simpl app. rewrite next_str, <- app_assoc. simpl app.
    rewrite read_str_escape. reflexivity.
  Qed.

  Lemma reads_regex p : regex_plain p = true -> re_ok p = true ->
    reads (35 :: 34 :: escape_legacy p ++ [34]) (VRegex p) 1.
  Proof.
    intros P OK f rest R F. destruct f as [|f]; [lia|]. simpl app. rewrite next_regex, <- app_assoc. simpl app.
    rewrite (escape_legacy_plain p P), (read_str_plain true p [] rest P). simpl. rewrite OK. reflexivity.
  Qed.

  (** a tag symbol of safe characters followed by a space and a form *)
  Lemma next_tag f (tag : str) X : name_ok tag = true -> reserved tag = false ->
    (exists c t, tag = c :: t /\ negb ((c =? 123) || (c =? 34) || (c =? 35) || (c =? 58) || (c =? 40) || (c =? 39)
                                       || (c =? 95) || (c =? 33) || (c =? 63)) && negb (is_ws c || is_digit c) = true) ->
    str_eqb tag [98] = false -> str_eqb tag [102] = false ->
    forall c0 t0, X = c0 :: t0 -> is_ws c0 = false ->
    read_next (S f) (35 :: tag ++ 32 :: X) =
    bind (read_next f X) (fun '(v, r'') => bind (resolve_tag py_uuid py_inst None tag v) (fun x => ROk (x, r''))).
  Proof.
    intros H RS (c & t & E & HC) NB NF c0 t0 EX W.
    assert (RSym : read_sym (tag ++ 32 :: X) = ROk (VSym None tag None, 32 :: X)).
    { change (tag ++ 32 :: X) with (qualified None tag ++ 32 :: X).
      apply read_sym_ok; [exact H|reflexivity|exact RS|]. simpl. reflexivity. }
    rewrite E in *. simpl app. cbn [ReadBack.read_next]. change (kind 35) with 5. cbv iota.
    apply andb_true_iff in HC as [HC1 HC2]. apply negb_true_iff in HC1, HC2.
    repeat (apply orb_false_iff in HC1 as [HC1 ?]).
    rewrite HC1, H0, H1, H2, H3, H4, H5, H6, H7. cbn [orb]. rewrite HC2. cbv iota.
    change (c :: t ++ 32 :: X) with ((c :: t) ++ 32 :: X). rewrite RSym. cbn [bind].
    rewrite NB, NF. cbn [drop_ws]. change (is_ws 32) with true. cbv iota.
    rewrite EX. rewrite (drop_ws_head c0 t0 W). reflexivity.
  Qed.

  Lemma reads_tagged_str (tag : str) (k : N) (f0 : str -> option str) (pfx : str) s :
    pfx = 35 :: tag ++ [32; 34] ->
    name_ok tag = true -> reserved tag = false ->
    (exists c t, tag = c :: t /\ negb ((c =? 123) || (c =? 34) || (c =? 35) || (c =? 58) || (c =? 40) || (c =? 39)
                                       || (c =? 95) || (c =? 33) || (c =? 63)) && negb (is_ws c || is_digit c) = true) ->
    str_eqb tag [98] = false -> str_eqb tag [102] = false ->
    (forall v, resolve_tag py_uuid py_inst None tag v = tagged_str f0 k v) ->
    plain_text s = true -> f0 s = Some s ->
    reads (pfx ++ s ++ [34]) (VTag k s) 2.
  Proof.
    intros EP H RS HC NB NF RT P FS f rest R F. destruct f as [|[|f]]; try lia.
    subst pfx. simpl app. rewrite <- !app_assoc. simpl app.
    rewrite (next_tag (S f) tag (34 :: s ++ 34 :: rest) H RS HC NB NF 34 (s ++ 34 :: rest) eq_refl eq_refl).
    rewrite next_str. rewrite (read_str_plain false s [] rest P). cbn [bind app].
    rewrite RT. unfold tagged_str. rewrite FS. reflexivity.
  Qed.

  Lemma reads_uuid s : plain_text s = true -> py_uuid s = Some s -> reads (t_uuid ++ s ++ [34]) (VTag 0 s) 2.
  Proof.
    intros P U. apply (reads_tagged_str t_s_uuid 0 py_uuid); try reflexivity; try assumption.
    eexists _, _. split; reflexivity.
  Qed.
  Lemma reads_inst s : plain_text s = true -> py_inst s = Some s -> reads (t_inst ++ s ++ [34]) (VTag 1 s) 2.
  Proof.
    intros P U. apply (reads_tagged_str t_s_inst 1 py_inst); try reflexivity; try assumption.
    eexists _, _. split; reflexivity.
  Qed.
End Leaf.
