(** C03 proofs, part 8: the statements exported to Properties/C03.v -- corollaries of the
    round trip, reflective table obligations, refutations with concrete witnesses. *)
From Coq Require Import List NArith ZArith Bool Lia.
Import ListNotations.
From Verif Require Import Common.ListX Gen.Prims Gen.Tables C19.Bencode C19.BencodeProofs C19.Edn C19.EdnProofs.
From Verif Require Import C03.Printer C03.ReadBack C03.Guard C03.Spec C03.ProofsBase C03.ProofsNum C03.ProofsFloat
  C03.ProofsTok C03.ProofsLeaf C03.ProofsColl C03.ProofsMain C03.Corr.
Local Open Scope N_scope.

Section Top.
  Variable py_float py_dec py_imag py_uuid py_inst : str -> option str.
  Variable re_ok : str -> bool.
  Variable is_repr is_dec is_imag is_uuid is_inst : str -> bool.
  Hypothesis H_float_repr_inverse : forall t, is_repr t = true -> py_float t = Some t.
  Hypothesis H_repr_grammar : forall t, is_repr t = true -> repr_grammar t = true.
  Hypothesis H_dec_str_inverse : forall t, is_dec t = true -> py_dec t = Some t.
  Hypothesis H_dec_grammar : forall t, is_dec t = true -> dec_grammar t = true.
  Hypothesis H_imag_inverse : forall t, is_imag t = true -> imag_plain t = true -> py_imag t = Some t.
  Hypothesis H_uuid_inverse : forall t, is_uuid t = true -> py_uuid t = Some t.
  Hypothesis H_inst_inverse : forall t, is_inst t = true -> py_inst t = Some t.

  Notation read_text := (read_text py_float py_dec py_imag py_uuid py_inst re_ok).
  Notation G := (guard is_repr is_dec is_imag is_uuid is_inst re_ok).
  Notation reads := (reads py_float py_dec py_imag py_uuid py_inst re_ok).

  Definition rt := roundtrip py_float py_dec py_imag py_uuid py_inst re_ok is_repr is_dec is_imag is_uuid is_inst
                     H_float_repr_inverse H_repr_grammar H_dec_str_inverse H_dec_grammar H_imag_inverse
                     H_uuid_inverse H_inst_inverse.

  (** the main statement *)
  Theorem roundtrip_guarded pc v : G pc v = true -> read_text (print pc v) = ROk [v].
  Proof. apply rt. Qed.

  (** strings: every string, every continuation *)
  Theorem string_roundtrip pc s : p_readably pc = true -> read_text (print pc (VStr s)) = ROk [VStr s].
  Proof. intro R. apply rt. simpl. exact R. Qed.

  Theorem int_roundtrip pc z : read_text (print pc (VInt z)) = ROk [VInt z].
  Proof. apply rt. reflexivity. Qed.

  Theorem ratio_roundtrip pc n d : (2 <= d)%Z -> Z.gcd n d = 1%Z ->
    read_text (print pc (VRatio n d)) = ROk [VRatio n d].
  Proof.
    intros D Gc. apply rt. simpl. apply andb_true_iff. split; [apply Z.leb_le, D|apply Z.eqb_eq, Gc].
  Qed.

  Theorem kw_sym_roundtrip pc ns nm :
    (kw_ok3 ns nm = true -> read_text (print pc (VKw ns nm)) = ROk [VKw ns nm])
    /\ (sym_ok3 ns nm = true -> read_text (print pc (VSym ns nm None)) = ROk [VSym ns nm None]).
  Proof.
    split; intro K; apply rt; simpl; rewrite K; reflexivity.
  Qed.

  Theorem float_roundtrip pc tok : is_repr tok = true ->
    read_text (print pc (VFloat (FTok tok))) = ROk [VFloat (FTok tok)].
  Proof. intro R. apply rt. exact R. Qed.

  Theorem special_float_roundtrip pc :
    read_text (print pc (VFloat FInf)) = ROk [VFloat FInf]
    /\ read_text (print pc (VFloat FNegInf)) = ROk [VFloat FNegInf]
    /\ read_text (print pc (VFloat FNaN)) = ROk [VFloat FNaN].
  Proof. repeat split; apply rt; reflexivity. Qed.

  (** metadata: with *print-meta* on, the value comes back WITH its metadata *)
  Theorem meta_roundtrip pc v : p_meta pc = true -> G pc v = true -> read_text (print pc v) = ROk [v].
  Proof. intros _. apply rt. Qed.

  (** printing the re-read value gives the same text; two values with the same text are equal *)
  Theorem reprint_fixpoint pc v : G pc v = true ->
    exists b, read_text (print pc v) = ROk [b] /\ print pc b = print pc v.
  Proof. intro Gv. exists v. split; [apply rt, Gv|reflexivity]. Qed.

  Theorem print_injective pc v1 v2 : G pc v1 = true -> G pc v2 = true -> print pc v1 = print pc v2 -> v1 = v2.
  Proof.
    intros G1 G2 E. pose proof (rt pc v1 G1) as R1. pose proof (rt pc v2 G2) as R2.
    rewrite E, R2 in R1. inversion R1. reflexivity.
  Qed.
End Top.

(** collections: ANY elements that round-trip (guarded or not), any number of them, in a list /
    vector / set; nesting of any depth follows by induction (ProofsMain.RT_all) *)
Theorem coll_roundtrip py_float py_dec py_imag py_uuid py_inst re_ok k (l : list (str * value * nat)) :
  plain_kind k = true ->
  Forall (fun e => elem_ok py_float py_dec py_imag py_uuid py_inst re_ok (fst (fst e)) (snd (fst e)) (snd e)) l ->
  reads py_float py_dec py_imag py_uuid py_inst re_ok
        (open_of k ++ join sp (map (fun e => fst (fst e)) l) ++ [close_of k])
        (VSeq k (map (fun e => snd (fst e)) l) None) (2 + list_sum (map snd l)).
Proof. apply reads_plain_seq. Qed.

(** every text of CPython's repr(float) grammar is routed to float(text) *)
Theorem float_routing_all py_float py_dec py_imag tok rest : repr_grammar tok = true ->
  classify py_float py_dec py_imag tok rest = tok_or_err (py_float tok) (fun t => VFloat (FTok t)) rest.
Proof. apply float_routing. Qed.

Theorem string_reader_inverts_printer s acc rest :
  read_str_body false (escape s ++ 34 :: rest) acc = ROk (acc ++ s, rest).
Proof. apply read_str_escape. Qed.

(** * The guard is inhabited by a value using every constructor *)
Definition idf (t : str) : option str := Some t.
Definition yes (t : str) : bool := true.
Definition sample_meta : option (list (value * value)) := Some [(VKw None [97], VInt 1)].
Definition sample : value :=
  VSeq KVec
    [VNil; VBool true; VInt (-5); VRatio (-7) 2; VFloat (FTok [49; 101; 43; 50; 51]); VFloat FNaN;
     VDec [49; 46; 53; 48]; VImag [49; 46; 53]; VStr [34; 92; 233; 20013; 97];
     VKw (Some [120; 46; 121]) [107]; VSym None [45; 97] sample_meta;
     VSeq KQueue [VNil] sample_meta; VSeq KList [] None; VSeq KSet [VInt 1] None;
     VSeq KPyList [VSeq KPyTuple [VInt 1] None; VSeq KPySet [] None] None;
     VMap false [(VKw (Some [120]) [97], VInt 1); (VSym (Some [120]) [98] None, VStr [])] sample_meta;
     VMap true [(VStr [107], VInt 2)] None;
     VTag 0 [56; 49; 102]; VTag 1 [50; 48]; VRegex [97; 43]; VBytes [0; 255; 39; 92; 65]]
    sample_meta.
Definition pc_all : pctl := PC true true true true.

Lemma sample_guard : guard yes yes yes yes yes yes pc_all sample = true.
Proof. vm_compute. reflexivity. Qed.

Lemma sample_reads : read_text idf idf idf idf idf yes (print pc_all sample) = ROk [sample].
Proof. vm_compute. reflexivity. Qed.

(** * Table obligations (reflective: a changed table breaks exactly these) *)
Lemma table_str_escapes : str_tables_ok = true.
Proof. vm_compute. reflexivity. Qed.

Definition delim_of (name : str) : option (str * str) := assoc_str name pr_delims.
Definition n_list : str := [80; 101; 114; 115; 105; 115; 116; 101; 110; 116; 76; 105; 115; 116].
Definition n_vector : str := [80; 101; 114; 115; 105; 115; 116; 101; 110; 116; 86; 101; 99; 116; 111; 114].
Definition n_set : str := [80; 101; 114; 115; 105; 115; 116; 101; 110; 116; 83; 101; 116].
Definition n_queue : str := [80; 101; 114; 115; 105; 115; 116; 101; 110; 116; 81; 117; 101; 117; 101].
Definition n_map : str := [80; 101; 114; 115; 105; 115; 116; 101; 110; 116; 77; 97; 112].
Definition n_py_list : str := [95; 108; 114; 101; 112; 114; 95; 112; 121; 95; 108; 105; 115; 116].
Definition n_py_tuple : str := [95; 108; 114; 101; 112; 114; 95; 112; 121; 95; 116; 117; 112; 108; 101].
Definition n_py_set : str := [95; 108; 114; 101; 112; 114; 95; 112; 121; 95; 115; 101; 116].
Definition n_py_dict : str := [95; 108; 114; 101; 112; 114; 95; 112; 121; 95; 100; 105; 99; 116].
Definition delim_eqb (o : option (str * str)) (a : str) (b : N) : bool :=
  match o with Some (x, y) => str_eqb x a && str_eqb y [b] | None => false end.
Definition delims_ok : bool :=
  delim_eqb (delim_of n_list) (open_of KList) (close_of KList)
  && delim_eqb (delim_of n_vector) (open_of KVec) (close_of KVec)
  && delim_eqb (delim_of n_set) (open_of KSet) (close_of KSet)
  && delim_eqb (delim_of n_queue) (open_of KQueue) (close_of KQueue)
  && delim_eqb (delim_of n_map) [123] 125
  && delim_eqb (delim_of n_py_list) (open_of KPyList) (close_of KPyList)
  && delim_eqb (delim_of n_py_tuple) (open_of KPyTuple) (close_of KPyTuple)
  && delim_eqb (delim_of n_py_set) (open_of KPySet) (close_of KPySet)
  && delim_eqb (delim_of n_py_dict) (t_py ++ [123]) 125.
Lemma table_delims : delims_ok = true.
Proof. vm_compute. reflexivity. Qed.

Definition fstr_of (name : str) : option (list str) := assoc_str name pr_fstrings.
Definition n_f_bytes : str := [95; 108; 114; 101; 112; 114; 95; 98; 121; 116; 101; 115].
Definition n_f_datetime : str := [95; 108; 114; 101; 112; 114; 95; 100; 97; 116; 101; 116; 105; 109; 101].
Definition n_f_uuid : str := [95; 108; 114; 101; 112; 114; 95; 117; 117; 105; 100].
Definition n_f_pattern : str := [95; 108; 114; 101; 112; 114; 95; 112; 97; 116; 116; 101; 114; 110].
Definition n_f_fraction : str := [95; 108; 114; 101; 112; 114; 95; 102; 114; 97; 99; 116; 105; 111; 110].
Definition n_f_decimal : str := [95; 108; 114; 101; 112; 114; 95; 100; 101; 99; 105; 109; 97; 108].
Definition fstr_eqb (o : option (list str)) (l : list str) : bool :=
  match o with Some x => list_eqb str_eqb x l | None => false end.
Definition fstrings_ok : bool :=
  fstr_eqb (fstr_of n_f_bytes) [t_bytes; [34]]
  && fstr_eqb (fstr_of n_f_datetime) [t_inst; [34]]
  && fstr_eqb (fstr_of n_f_uuid) [t_uuid; [34]]
  && fstr_eqb (fstr_of n_f_pattern) [[35; 34]; [34]]
  && fstr_eqb (fstr_of n_f_fraction) [[]; [47]; []]
  && fstr_eqb (fstr_of n_f_decimal) [[]; [77]].
Lemma table_fstrings : fstrings_ok = true.
Proof. vm_compute. reflexivity. Qed.

Lemma table_special_floats :
  list_eqb str_eqb pr_special_floats [t_inf; t_ninf; t_nan] = true
  /\ str_eqb (fst pr_separators) sp = true /\ str_eqb (snd pr_separators) comma_sp = true.
Proof. vm_compute. repeat split; reflexivity. Qed.

(** the reader's constants: ## names, whitespace class, token terminators, \u lengths *)
Fixpoint in_ranges (c : N) (r : list (N * N)) : bool :=
  match r with [] => false | (lo, hi) :: t => ((lo <=? c) && (c <=? hi)) || in_ranges c t end.
Definition ws_agree (c : N) : bool := Bool.eqb (is_ws c) ((c =? 44) || in_ranges c rd_uc_space).
Lemma table_whitespace : forallb ws_agree (map N.of_nat (seq 0 (Nat.mul 124 100))) = true.
Proof. vm_compute. reflexivity. Qed.

Definition terminators_ok : bool :=
  forallb (fun kv => Bool.eqb (mem (fst kv) lisp_dispatch_chars) (negb (mem (fst kv) rd_ns_term_exempt))) rd_dispatch
  && forallb (fun c => mem c (map fst rd_dispatch)) lisp_dispatch_chars.
Lemma table_terminators : terminators_ok = true.
Proof. vm_compute. reflexivity. Qed.

Lemma table_reader_consts :
  assoc_str [73; 110; 102] rd_numeric_constants = Some 1
  /\ assoc_str [45; 73; 110; 102] rd_numeric_constants = Some 2
  /\ assoc_str [78; 97; 78] rd_numeric_constants = Some 0
  /\ rd_unicode_lens = [4; 8]
  /\ forallb (fun kv => match assoc (fst kv) rd_bytes_escapes with Some r => r =? snd kv | None => false end)
             rd_str_escapes = true.
Proof. vm_compute. repeat split; reflexivity. Qed.

(** print settings: the defaults claim readability *)
Lemma table_print_defaults :
  assoc_str [80; 82; 73; 78; 84; 95; 82; 69; 65; 68; 65; 66; 76; 89] pr_print_defaults = Some 1
  /\ assoc_str [80; 82; 73; 78; 84; 95; 76; 69; 78; 71; 84; 72] pr_print_defaults = Some 0
  /\ assoc_str [80; 82; 73; 78; 84; 95; 76; 69; 86; 69; 76] pr_print_defaults = Some 0.
Proof. vm_compute. repeat split; reflexivity. Qed.

(** * Refutations.  Each witness is a case of the correspondence run (and of known_findings.json):
    the model of the code as it is violates the property's spec on it. *)
Definition violates (c : case) : Prop := spec_ok c (model c) = false.

(** F-03a / F-03b (fixed by fixes/C03-str-printer-literal.patch): the former string printer,
    unicode_escape + requoting, is not inverted by the string reader *)
Lemma legacy_escape_refuted :
  read_str_body false (escape_legacy [31] ++ [34]) [] = RErr 1                (* \x1f : unknown escape *)
  /\ read_str_body false (escape_legacy [233] ++ [34]) [] = RErr 1            (* \xe9 *)
  /\ read_str_body false (escape_legacy [20013; 97] ++ [34]) [] = RErr 1      (* 中a : five hex digits *)
  /\ read_str_body false (escape_legacy [20013; 45] ++ [34]) [] = ROk ([20013; 45], []).
Proof. vm_compute. repeat split; reflexivity. Qed.

Definition w_regex_backslash : case := Case 0 pc_default lim_nil (VRegex [92; 115]) [] [].
Definition w_regex_quote : case := Case 0 pc_default lim_nil (VRegex [97; 34; 98]) [] [].
Lemma regex_refuted : violates w_regex_backslash /\ violates w_regex_quote
  /\ model w_regex_backslash = OOk [35; 34; 92; 92; 115; 34] 1 (VRegex [92; 92; 115]) 0 true.
Proof. vm_compute. repeat split; reflexivity. Qed.

Definition w_int_limit : case := Case 0 pc_default lim_nil (VInt (10 ^ 4300)) [] [].
Lemma int_limit_refuted : violates w_int_limit /\ model w_int_limit = OPrintErr 2.
Proof. vm_compute. split; reflexivity. Qed.

Definition w_bytes_quote : case := Case 0 pc_default lim_nil (VBytes [34]) [] [].
Lemma bytes_quote_refuted : violates w_bytes_quote.
Proof. vm_compute. reflexivity. Qed.

Definition w_imag_exp : case := Case 0 pc_default lim_nil (VImag [49; 69; 43; 49; 54]) [] [].
Definition w_imag_negzero : case := Case 0 pc_default lim_nil (VImag [45; 48]) [([106; 45; 48], [48])] [].
Lemma imag_refuted : violates w_imag_exp /\ violates w_imag_negzero.
Proof. vm_compute. split; reflexivity. Qed.

Definition w_kw_space : case := Case 0 pc_default lim_nil (VKw None [97; 32; 98]) [] [].
Definition w_sym_empty : case := Case 0 pc_default lim_nil (VSym None [] None) [] [].
Definition w_sym_digit : case := Case 0 pc_default lim_nil (VSym None [49; 97] None) [] [].
Definition w_sym_nil : case := Case 0 pc_default lim_nil (VSym None [110; 105; 108] None) [] [].
Definition w_sym_gensym : case := Case 0 pc_default lim_nil (VSym None [97; 35] None) [] [].
Definition w_kw_slash : case := Case 0 pc_default lim_nil (VKw None [97; 47; 98]) [] [].
Lemma names_refuted :
  violates w_kw_space /\ violates w_sym_empty /\ violates w_sym_digit /\ violates w_sym_nil
  /\ violates w_sym_gensym /\ violates w_kw_slash.
Proof. vm_compute. repeat split; reflexivity. Qed.

Definition w_dec_nan : case := Case 0 (PC true false false true) lim_nil (VDecS FNaN) [] [].
Lemma dec_special_refuted : violates w_dec_nan.
Proof. vm_compute. reflexivity. Qed.

Definition w_nsmap_nil : case :=
  Case 0 (PC false false true true) lim_nil (VMap false [(VSym (Some [120]) [110; 105; 108] None, VInt 1)] None) [] [].
Lemma nsmap_refuted : violates w_nsmap_nil.
Proof. vm_compute. reflexivity. Qed.

Definition w_meta_reprint : case := Case 0 (PC false true false true) lim_nil (VSeq KVec [] None) [] [].
Lemma meta_reprint_refuted : violates w_meta_reprint.
Proof. vm_compute. reflexivity. Qed.

Definition w_eofthrow : case := Case 1 pc_default lim_nil (VKw None kw_eofthrow) [] [].
Lemma eofthrow_refuted : violates w_eofthrow /\ model w_eofthrow = OReadErr (58 :: kw_eofthrow) 2.
Proof. vm_compute. split; reflexivity. Qed.

(** the 4300-digit test of the model is "10^4300 <= |z|" *)
Lemma int_too_long_spec z : int_too_long z = (10 ^ 4300 <=? Z.abs_N z).
Proof.
  unfold int_too_long. set (n := Z.abs_N z).
  assert (P1 : 2 ^ 14284 < 10 ^ 4300) by (apply N.ltb_lt; vm_compute; reflexivity).
  assert (P2 : 10 ^ 4300 < 2 ^ 14285) by (apply N.ltb_lt; vm_compute; reflexivity).
  destruct (N.leb_spec (N.size n) 14284) as [L|L].
  - symmetry. apply N.leb_gt. pose proof (N.size_gt n) as S.
    assert (2 ^ N.size n <= 2 ^ 14284) by (apply N.pow_le_mono_r; lia). lia.
  - destruct (N.leb_spec 14286 (N.size n)) as [L2|L2]; [|reflexivity].
    symmetry. apply N.leb_le. pose proof (N.size_le n) as S. rewrite N.succ_double_spec in S.
    assert (2 ^ 14286 <= 2 ^ N.size n) by (apply N.pow_le_mono_r; lia).
    assert (X : 2 ^ 14286 = 2 * 2 ^ 14285) by (change 14286 with (N.succ 14285); apply N.pow_succ_r'). lia.
Qed.

(** the model prescribes that two printings of one value agree *)
Lemma print_deterministic_model : forall c,
  match model c with OOk _ _ _ _ det => det = true | _ => True end.
Proof.
  intros [via pc lim v orc badre]. unfold model. destruct (vexists long_int v); [exact I|].
  destruct (read_text _ _ _ _ _ _ _) as [[|b r]| |]; try exact I.
  destruct ((via =? 1) && value_eqb false b (VKw None kw_eofthrow)); [exact I|reflexivity].
Qed.
