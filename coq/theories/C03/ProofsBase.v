(** C03 proofs, part 1: characters, tokens, strings, byte strings, numbers. *)
From Coq Require Import List NArith ZArith Bool Lia.
Import ListNotations.
From Verif Require Import Common.ListX Gen.Prims Gen.Tables C19.Bencode C19.BencodeProofs C19.Edn C19.EdnProofs.
From Verif Require Import C03.Printer C03.ReadBack C03.Guard.
Local Open Scope N_scope.

(** * What may follow a printed value: nothing, a space, a comma, a closing bracket *)
Definition rest_ok (rest : str) : bool :=
  match rest with [] => true | c :: _ => mem c [32; 44; 41; 93; 125] end.

Definition closer_facts (c : N) : bool :=
  term Lisp c && negb (is_digit c) && negb (c =? 45) && negb (maybe_num c) && negb (begin_num c)
  && negb (is_hex c).

Lemma rest_ok_head c t : rest_ok (c :: t) = true -> closer_facts c = true.
Proof.
  simpl. rewrite !orb_false_r. intro H.
  repeat (apply orb_true_iff in H as [H|H]); apply N.eqb_eq in H; subst; vm_compute; reflexivity.
Qed.

Lemma rest_ok_facts c t : rest_ok (c :: t) = true ->
  term Lisp c = true /\ is_digit c = false /\ (c =? 45) = false /\ maybe_num c = false /\ begin_num c = false.
Proof.
  intro H. apply rest_ok_head in H. unfold closer_facts in H.
  repeat (apply andb_true_iff in H as [H ?]).
  repeat match goal with X : negb _ = true |- _ => apply negb_true_iff in X end. auto.
Qed.

(** a token ends at any terminator *)
Definition rest_term (rest : str) : Prop := match rest with [] => True | c :: _ => term Lisp c = true end.

Lemma rest_ok_term rest : rest_ok rest = true -> rest_term rest.
Proof. destruct rest as [|c t]; [exact (fun _ => I)|]. intro H. apply rest_ok_facts in H. apply H. Qed.

Lemma take_token_term tok rest :
  forallb safe tok = true -> rest_term rest -> take_token Lisp (tok ++ rest) = (tok, rest).
Proof.
  intros S R. induction tok as [|c t IH]; simpl.
  - destruct rest as [|c r]; [reflexivity|]. simpl in R. simpl. rewrite R. reflexivity.
  - simpl in S. apply andb_true_iff in S as [Sc St]. rewrite (safe_not_term Lisp c Sc), (IH St). reflexivity.
Qed.

Lemma take_token_qualified' ns nm rest :
  name_ok nm = true -> ns_ok ns = true -> rest_term rest ->
  take_token Lisp (qualified ns nm ++ rest) = (qualified ns nm, rest).
Proof.
  intros Hn Hs R. destruct (valid_qualified ns nm Hn Hs) as (_ & _ & Sf).
  destruct ns as [n|]; unfold qualified.
  - rewrite forallb_app in Sf. apply andb_true_iff in Sf as [Sn Sm].
    rewrite <- app_assoc. rewrite (take_token_prefix Lisp n _ Sn).
    change ((47 :: nm) ++ rest) with (47 :: (nm ++ rest)).
    cbn [take_token]. rewrite term_slash, (take_token_term nm rest Sm R). reflexivity.
  - apply take_token_term; assumption.
Qed.

Lemma read_namespaced_qualified' ns nm rest :
  name_ok nm = true -> ns_ok ns = true -> rest_term rest ->
  read_namespaced Lisp (qualified ns nm ++ rest) = ROk ((ns, nm), rest).
Proof.
  intros Hn Hs R. destruct (valid_qualified ns nm Hn Hs) as (V & Sp & _).
  unfold read_namespaced. rewrite (take_token_qualified' ns nm rest Hn Hs R), V, Sp. reflexivity.
Qed.

(** * Symbols and keywords *)
Section Leaves.
  Variable py_float py_dec py_imag py_uuid py_inst : str -> option str.
  Variable re_ok : str -> bool.
  Notation read_next := (read_next py_float py_dec py_imag py_uuid py_inst re_ok).
  Notation read_coll := (read_coll py_float py_dec py_imag py_uuid py_inst re_ok).
  Notation read_num := (read_num py_float py_dec py_imag).
  Notation classify := (classify py_float py_dec py_imag).

  Lemma read_sym_ok ns nm rest : name_ok nm = true -> ns_ok ns = true -> reserved nm = false ->
    rest_term rest -> read_sym (qualified ns nm ++ rest) = ROk (VSym ns nm None, rest).
  Proof.
    intros H1 H2 H3 R. unfold read_sym. rewrite (read_namespaced_qualified' ns nm rest H1 H2 R).
    destruct (name_ok_inv nm H1) as (c & t & E & D & S & Sc).
    rewrite (ends_with_safe nm S).
    unfold reserved in H3. apply orb_false_iff in H3 as [H3 Hf]. apply orb_false_iff in H3 as [Hn Ht].
    destruct ns as [n|].
    - simpl in H2. apply andb_true_iff in H2 as [_ Sg]. rewrite Sg. reflexivity.
    - cbn match. rewrite Hn, Ht, Hf. reflexivity.
  Qed.

  Lemma read_kw_ok ns nm rest : kw_ok3 ns nm = true -> rest_term rest ->
    read_kw (qualified ns nm ++ rest) = ROk (VKw ns nm, rest).
  Proof.
    unfold kw_ok3. intros H R. apply andb_true_iff in H as [H1 H2].
    destruct (qualified_head ns nm H1 H2) as (c & t & E & Sc & D).
    unfold read_kw.
    assert (A : starts_with 58 (qualified ns nm ++ rest) = false).
    { rewrite E. simpl. destruct (safe_fact c Sc) as (_ & _ & _ & _ & N58 & _). apply N.eqb_neq, N58. }
    assert (B : match qualified ns nm ++ rest with c :: _ => is_digit c | [] => false end = false).
    { rewrite E. simpl. exact D. }
    rewrite A, B. rewrite (read_namespaced_qualified' ns nm rest H1 H2 R). reflexivity.
  Qed.

  (** * Strings *)
  Definition str_tables_ok : bool :=
    forallb (fun kr => match snd kr with
                       | [b; e] => (b =? 92) && match assoc e rd_str_escapes with
                                                | Some k => k =? fst kr
                                                | None => false
                                                end
                       | _ => false
                       end) pr_str_escapes
    && is_some (assoc 92 pr_str_escapes) && is_some (assoc 34 pr_str_escapes).

  Lemma str_tables_ok_true : str_tables_ok = true.
  Proof. vm_compute. reflexivity. Qed.

  Lemma esc_char_read c t acc :
    read_str_body false (esc_char c ++ t) acc = read_str_body false t (acc ++ [c]).
  Proof.
    pose proof str_tables_ok_true as T. unfold str_tables_ok in T.
    apply andb_true_iff in T as [T T34]. apply andb_true_iff in T as [T T92].
    unfold esc_char. destruct (assoc c pr_str_escapes) as [r|] eqn:E.
    - apply assoc_in in E. rewrite forallb_forall in T. specialize (T _ E). cbn [snd fst] in T.
      destruct r as [|b [|e [|? ?]]]; try discriminate.
      apply andb_true_iff in T as [Tb Te]. apply N.eqb_eq in Tb. subst b.
      destruct (assoc e rd_str_escapes) as [k|] eqn:Ek; [|discriminate].
      apply N.eqb_eq in Te. subst k. cbn [app read_str_body]. change (92 =? 92) with true. cbn iota.
      rewrite Ek. reflexivity.
    - assert (N92 : (c =? 92) = false).
      { apply N.eqb_neq. intro X. subst c. rewrite E in T92. discriminate. }
      assert (N34 : (c =? 34) = false).
      { apply N.eqb_neq. intro X. subst c. rewrite E in T34. discriminate. }
      cbn [app read_str_body]. rewrite N92, N34. reflexivity.
  Qed.

  (** the string printer followed by the string reader is the identity, for EVERY string *)
  Lemma read_str_escape s : forall acc rest,
    read_str_body false (escape s ++ 34 :: rest) acc = ROk (acc ++ s, rest).
  Proof.
    induction s as [|c t IH]; intros acc rest.
    - simpl. rewrite app_nil_r. reflexivity.
    - unfold escape in *. simpl flat_map. rewrite <- app_assoc, esc_char_read, IH, <- app_assoc. reflexivity.
  Qed.

  (** text without backslash and double quote is read literally, raw or not *)
  Lemma plain_char_facts c : plain_char c = true -> (c =? 92) = false /\ (c =? 34) = false.
  Proof.
    unfold plain_char. intro H. apply andb_true_iff in H as [H A]. apply andb_true_iff in H as [_ B].
    apply negb_true_iff in A, B. auto.
  Qed.

  Lemma read_str_plain raw s : forall acc rest, plain_text s = true ->
    read_str_body raw (s ++ 34 :: rest) acc = ROk (acc ++ s, rest).
  Proof.
    induction s as [|c t IH]; intros acc rest H.
    - simpl. rewrite app_nil_r. reflexivity.
    - simpl in H. apply andb_true_iff in H as [Hc Ht]. destruct (plain_char_facts c Hc) as [A B].
      cbn [app read_str_body]. rewrite A, B, (IH _ _ Ht), <- app_assoc. reflexivity.
  Qed.

  (** unicode_escape and the requoting leave plain text alone *)
  Lemma escape_legacy_plain p : plain_text p = true -> escape_legacy p = p.
  Proof.
    unfold escape_legacy, py_unicode_escape, requote. induction p as [|c t IH]; [reflexivity|].
    intro H. simpl in H. apply andb_true_iff in H as [Hc Ht]. destruct (plain_char_facts c Hc) as [A B].
    unfold plain_char in Hc. apply andb_true_iff in Hc as [Hc _]. apply andb_true_iff in Hc as [Hc _].
    apply andb_true_iff in Hc as [L U].
    simpl flat_map at 2. unfold ue_char at 1.
    assert (c =? 9 = false) by (apply N.eqb_neq; apply N.leb_le in L; lia).
    assert (c =? 10 = false) by (apply N.eqb_neq; apply N.leb_le in L; lia).
    assert (c =? 13 = false) by (apply N.eqb_neq; apply N.leb_le in L; lia).
    rewrite H, H0, H1, A, L, U. cbn [andb]. rewrite flat_map_app. simpl flat_map at 1. rewrite B, app_nil_r.
    simpl. f_equal. apply IH, Ht.
  Qed.
End Leaves.
