(** C03 model of the code as it is: the printer ([Printer.v]), the reader restricted to the
    printer's output ([ReadBack.v]) and the executable guards / finding signatures
    ([Guard.v]), and the printer with the two remaining print-control settings, *print-length*
    and *print-level* ([Limits.v]: [printl pc lim v]; [printl pc lim_nil v = print pc v]).  The
    round trip the property talks about is [read_text (print pc v)]. *)
From Verif Require Export C03.Printer C03.ReadBack C03.Guard C03.Limits.
