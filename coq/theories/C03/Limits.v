(** C03, the printer with ALL print-control settings: [prl] is [Printer.pr] with the two remaining
    keyword arguments of [obj.lrepr], [print_length] and [print_level], following
    [seq_lrepr] (obj.py: lists, vectors, sets, queues, #py list / tuple / set, and every ISeq) and
    [map_lrepr] (map.py: maps and #py dict) -- the only two functions of src/basilisp that
    abbreviate their output (translator item [pr_trunc_guards] scans for others) -- as they are
    after fixes/C03-print-dup-ignores-level.patch:

      seq_lrepr / map_lrepr (iterable, start, end, meta, **kwargs):
        if not print_dup and isinstance(print_level, int) and print_level < 1:  return "#"
        kwargs = (print_level decremented when it is an int)
        if not print_dup and isinstance(print_length, int):
            items = the first print_length items, followed by "..." when there are more
        seq_lrepr:  the metadata is printed with the DECREMENTED level;
        map_lrepr:  the metadata is printed with level None; the shared namespace of the keys
                    (#:ns{...}) is determined on ALL entries, before the truncation
      a symbol prints its metadata with the level it received; "#py " is put in front of what
      seq_lrepr / map_lrepr return (so a #py collection beyond the level prints "#py #").

    Whether each of the four tests carries the conjunct [not print_dup] is READ FROM THE SOURCE
    on every run (generated table [pr_trunc_guards], record [tguards]): the model follows the
    code, and the theorem [C03_print_dup_ignores_limits] needs the obligation
    [C03_table_trunc_guards] (all four conjuncts present).

    Limits: [print_length] is [None] (nil) or a natural number; [print_level] is [None] or an
    integer.  (Booleans, which Python also counts as [int], and negative lengths, on which
    [islice] raises, are outside.) *)
From Coq Require Import List NArith ZArith Bool.
Import ListNotations.
From Verif Require Import Common.ListX Gen.Prims Gen.Tables C19.Bencode C19.Edn C03.Printer.
Local Open Scope N_scope.

Record plim := PL { l_length : option N; l_level : option Z }.
Definition lim_nil : plim := PL None None.

(** does the test of [print_level] / [print_length] in [seq_lrepr] / [map_lrepr] start with
    [not print_dup and]? *)
Record tguards := TG { g_seq_level : bool; g_seq_length : bool; g_map_level : bool; g_map_length : bool }.
Definition all_guarded (tg : tguards) : bool :=
  g_seq_level tg && g_seq_length tg && g_map_level tg && g_map_length tg.

(** the guards of the code as it is: rows of [pr_trunc_guards] in the translator's fixed order
    seq_lrepr.print_level, seq_lrepr.print_length, map_lrepr.print_level, map_lrepr.print_length *)
Definition the_guards : tguards :=
  match map snd pr_trunc_guards with
  | [a; b; c; d] => TG a b c d
  | _ => TG false false false false
  end.

Definition t_hash : str := [35].             (* SURPASSED_PRINT_LEVEL *)
Definition t_dots : str := [46; 46; 46].     (* SURPASSED_PRINT_LENGTH *)

(** [[not print_dup and] isinstance(print_level, int) and print_level < 1] *)
Definition level_hit (g dup : bool) (lvl : option Z) : bool :=
  (if g then negb dup else true) && match lvl with Some n => (n <? 1)%Z | None => false end.
(** [_dec_print_level] *)
Definition dec_level (lvl : option Z) : option Z :=
  match lvl with Some n => Some (n - 1)%Z | None => None end.
(** [[not print_dup and] isinstance(print_length, int)]: the length that applies *)
Definition length_on (g dup : bool) (len : option N) : option N :=
  if (if g then negb dup else true) then len else None.
(** [items = list(islice(it, n + 1)); if len(items) > n: items.pop(); trailer = ["..."]] *)
Definition truncate (len : option N) (items : list str) : list str :=
  match len with
  | Some n => firstn (N.to_nat n) items
              ++ (if Nat.ltb (N.to_nat n) (length items) then [t_dots] else [])
  | None => items
  end.

Definition is_py (k : skind) : bool :=
  match k with KPyList | KPyTuple | KPySet => true | _ => false end.
(** the [start] argument of [seq_lrepr] ([open_of] without the "#py " the caller prepends) *)
Definition open_in (k : skind) : str :=
  match k with
  | KList | KPyTuple => [40] | KVec | KPyList => [91] | KSet | KPySet => [35; 123]
  | KQueue => t_queue ++ [40]
  end.

(** [map_lrepr] after its level test and without the metadata: [tr] is the truncation of the
    entry texts, [rec strip x] prints a key / value (with the decremented level) *)
Definition mapbody_g (pc : pctl) (tr : list str -> list str) (rec : bool -> value -> str)
  (m : list (value * value)) : str :=
  let sh := if p_nsmaps pc then shared_ns m else None in
  (match sh with Some n => 35 :: 58 :: n | None => [] end)
  ++ 123 :: join comma_sp (tr (map (fun kv => rec (is_some sh) (fst kv) ++ 32 :: rec false (snd kv)) m))
  ++ [125].

(** [^{lrepr(meta, **kwargs)} ]: [map_lrepr] of the metadata map (which has no metadata of its
    own); [hit]: its level test fires, [body]: what it prints otherwise *)
Definition metapfx_g (pc : pctl) (hit : bool) (body : list (value * value) -> str)
  (meta : option (list (value * value))) : str :=
  match meta with
  | Some mm => if p_meta pc then 94 :: (if hit then t_hash else body mm) ++ [32] else []
  | None => []
  end.

Fixpoint prl (tg : tguards) (pc : pctl) (len : option N) (lvl : option Z) (strip : bool) (v : value)
  {struct v} : str :=
  let dup := p_dup pc in
  (* the entries of a map whose own level test saw [lv] are printed with [dec_level lv] *)
  let mapbody := fun (lv : option Z) (m : list (value * value)) =>
    mapbody_g pc (truncate (length_on (g_map_length tg) dup len))
              (fun s x => prl tg pc len (dec_level lv) s x) m in
  (* a metadata map printed with print_level = [lv] *)
  let metapfx := fun (lv : option Z) (meta : option (list (value * value))) =>
    metapfx_g pc (level_hit (g_map_level tg) dup lv) (mapbody lv) meta in
  match v with
  | VSym ns nm meta => if strip then nm else metapfx lvl meta ++ qualified ns nm
  | VSeq k l meta =>
      (if is_py k then t_py else [])
      ++ (if level_hit (g_seq_level tg) dup lvl then t_hash
          else (if has_meta k then metapfx (dec_level lvl) meta else [])
               ++ open_in k
               ++ join sp (truncate (length_on (g_seq_length tg) dup len)
                             (map (prl tg pc len (dec_level lvl) false) l))
               ++ [close_of k])
  | VMap py m meta =>
      (if py then t_py else [])
      ++ (if level_hit (g_map_level tg) dup lvl then t_hash
          else (if py then [] else metapfx None meta) ++ mapbody lvl m)
  | _ => pr pc strip v
  end.

(** [obj.lrepr(v, print_dup=, print_length=, print_level=, print_meta=, ...)] of the current tree *)
Definition printl (pc : pctl) (lim : plim) (v : value) : str :=
  prl the_guards pc (l_length lim) (l_level lim) false v.
