(** C03: the executable guards of the partial theorems, shared by the proofs and by the
    correspondence run (Corr.v uses them as finding signatures).  No proofs here. *)
From Coq Require Import List NArith ZArith Bool.
Import ListNotations.
From Verif Require Import Common.ListX Gen.Prims Gen.Tables C19.Bencode C19.Edn C03.Printer C03.ReadBack.
Local Open Scope N_scope.

(** printable ASCII without the double quote and the backslash *)
Definition plain_char (c : N) : bool := (32 <=? c) && (c <? 127) && negb (c =? 34) && negb (c =? 92).
Definition plain_text (s : str) : bool := forallb plain_char s.

(** F-03d: the regex printer escapes with unicode_escape, the regex reader does not unescape *)
Definition regex_plain (p : str) : bool := plain_text p.

(** F-03f: repr(bytes) never escapes the double quote *)
Definition bytes_ok (b : list N) : bool := negb (mem 34 b) && forallb (fun c => c <? 256) b.

(** F-03g: what the reader's complex_literal accepts: digits, optionally a dot and digits, no
    exponent, not inf/nan; and not the negative zero (the sign is applied to an int) *)
Definition imag_plain (tok : str) : bool := dec_frac (strip_minus tok) && negb (str_eqb tok [45; 48]).

(** CPython's repr(float) for finite floats: -?D+.D+ with a canonical integer part, or
    -?D(.D+)?e[+-]DD+ *)
Definition one_digit (l : str) : bool := match l with [c] => is_digit c | _ => false end.
Definition repr_grammar (tok : str) : bool :=
  let b := strip_minus tok in
  match split_at 101 b with
  | None =>
      match split_at 46 b with
      | Some (ip, fp) => int_body ip && digits1 fp
      | None => false
      end
  | Some (m, e) =>
      (match split_at 46 m with
       | Some (ip, fp) => one_digit ip && digits1 fp
       | None => one_digit m
       end)
      && match e with
         | s :: ds => ((s =? 43) || (s =? 45)) && forallb is_digit ds && (2 <=? length ds)%nat
         | [] => false
         end
  end.

(** Python's str(Decimal) for finite decimals: -?D+(.D+)? with a canonical integer part, or
    -?D(.D+)?E[+-]D+ *)
Definition dec_grammar (tok : str) : bool :=
  let b := strip_minus tok in
  match split_at 69 b with
  | None =>
      match split_at 46 b with
      | Some (ip, fp) => int_body ip && digits1 fp
      | None => int_body b
      end
  | Some (m, e) =>
      (match split_at 46 m with
       | Some (ip, fp) => one_digit ip && digits1 fp
       | None => one_digit m
       end)
      && match e with
         | s :: ds => ((s =? 43) || (s =? 45)) && digits1 ds
         | [] => false
         end
  end.

(** symbols: C19's [sym_ok] (safe printable ASCII names, no leading digit, a leading minus not
    followed by a digit or minus, not nil/true/false, namespace segments non-empty), and the
    same for the bare name, which is what a namespace-prefixed map prints *)
Definition reserved (nm : str) : bool := str_eqb nm s_nil || str_eqb nm s_true || str_eqb nm s_false.
Definition sym_ok3 (ns : option str) (nm : str) : bool :=
  name_ok nm && ns_ok ns && dash_ok (qualified ns nm) && dash_ok nm && negb (reserved nm).
Definition kw_ok3 (ns : option str) (nm : str) : bool := name_ok nm && ns_ok ns.

Definition is_none {A} (o : option A) : bool := match o with None => true | Some _ => false end.

(** F-03e: more than 4300 decimal digits, i.e. 10^4300 <= |z|.  10^4300 has 14285 bits; the
    bit size decides except for numbers of exactly that size (Proofs: [int_too_long_spec]). *)
Definition int_too_long (z : Z) : bool :=
  let n := Z.abs_N z in
  let bits := N.size n in
  if bits <=? 14284 then false else if 14286 <=? bits then true else (10 ^ 4300 <=? n).

Section Guard.
  Variable is_repr is_dec is_imag is_uuid is_inst re_ok : str -> bool.
  Variable pc : pctl.

  (** a map printed with a namespace prefix loses the metadata of its symbol keys *)
  Definition nsmap_ok (m : list (value * value)) : bool :=
    if p_nsmaps pc then
      match shared_ns m with
      | Some _ => forallb (fun kv => match fst kv with VSym _ _ (Some _) => false | _ => true end) m
      | None => true
      end
    else true.

  Fixpoint guard (v : value) {struct v} : bool :=
    let gm := fun (m : list (value * value)) =>
      forallb (fun kv => guard (fst kv) && guard (snd kv)) m && nsmap_ok m in
    let gmeta := fun (meta : option (list (value * value))) =>
      match meta with Some mm => p_meta pc && gm mm | None => true end in
    match v with
    | VNil | VBool _ | VInt _ => true
    | VStr _ => p_readably pc
    | VRatio n d => (2 <=? d)%Z && (Z.gcd n d =? 1)%Z
    | VFloat (FTok t) => is_repr t
    | VFloat _ => true
    | VDec t => p_dup pc && is_dec t
    | VDecS _ => false
    | VImag t => is_imag t && imag_plain t
    | VKw ns nm => kw_ok3 ns nm
    | VSym ns nm meta => sym_ok3 ns nm && gmeta meta
    | VSeq k l meta => forallb guard l && (if has_meta k then gmeta meta else is_none meta)
    | VMap py m meta => gm m && (if py then is_none meta else gmeta meta)
    | VTag t s => (t <? 2) && plain_text s && (if t =? 0 then is_uuid s else is_inst s)
    | VRegex p => p_readably pc && regex_plain p && re_ok p
    | VBytes b => bytes_ok b
    end.
End Guard.

(** ** Finding signatures (bit set), evaluated on every case of the correspondence run *)
Section Tags.
  Variable pc : pctl.
  Fixpoint vexists (p : value -> bool) (v : value) {struct v} : bool :=
    let em := fun (m : list (value * value)) => existsb (fun kv => vexists p (fst kv) || vexists p (snd kv)) m in
    let emeta := fun (meta : option (list (value * value))) =>
      match meta with Some mm => em mm | None => false end in
    p v || match v with
           | VSym _ _ meta => emeta meta
           | VSeq _ l meta => existsb (vexists p) l || emeta meta
           | VMap _ m meta => em m || emeta meta
           | _ => false
           end.

  Definition bad_regex (v : value) : bool := match v with VRegex p => negb (regex_plain p) | _ => false end.
  Definition long_int (v : value) : bool :=
    match v with VInt z => int_too_long z | VRatio n d => int_too_long n || int_too_long d | _ => false end.
  Definition bad_bytes (v : value) : bool := match v with VBytes b => negb (bytes_ok b) | _ => false end.
  Definition bad_imag (v : value) : bool := match v with VImag t => negb (imag_plain t) | _ => false end.
  Definition bad_name (v : value) : bool :=
    match v with VKw ns nm => negb (kw_ok3 ns nm) | VSym ns nm _ => negb (sym_ok3 ns nm) | _ => false end.
  Definition dec_special (v : value) : bool := match v with VDecS _ => true | _ => false end.
  Definition nsmap_loss (v : value) : bool :=
    match v with
    | VMap _ m _ => p_nsmaps pc && is_some (shared_ns m)
                    && existsb (fun kv => match fst kv with
                                          | VSym _ nm meta => reserved nm || (p_meta pc && is_some meta)
                                          | _ => false
                                          end) m
    | _ => false
    end.

  Definition tag_of (v : value) : N :=
    (if vexists bad_regex v then 1 else 0) + (if vexists long_int v then 2 else 0)
    + (if vexists bad_bytes v then 4 else 0) + (if vexists bad_imag v then 8 else 0)
    + (if vexists bad_name v then 16 else 0) + (if vexists dec_special v then 32 else 0)
    + (if vexists nsmap_loss v then 64 else 0)
    + (if p_meta pc && loc_carrier pc v then 128 else 0).
End Tags.
