(** C03, what the property prescribes, independently of how printer and reader work:
    reading the printed text yields exactly ONE form, EQUAL to the original and of the SAME
    TYPE (constructor), with metadata preserved when *print-meta* is on; printing is
    deterministic and printing the re-read value gives the same text.

    Equality is the equality of the language on the data universe: sets and maps are
    unordered, a float is its repr token, metadata (compared only when print-meta is on) is a map
    where "no metadata" and the empty map are identified and the four location keys the
    reader adds are disregarded by the observer. *)
From Coq Require Import List NArith ZArith Bool.
Import ListNotations.
From Verif Require Import Common.ListX Gen.Prims C03.Printer C03.Limits.
Local Open Scope N_scope.

Definition flt_eqb (a b : flt) : bool :=
  match a, b with
  | FInf, FInf | FNegInf, FNegInf | FNaN, FNaN => true
  | FTok x, FTok y => str_eqb x y
  | _, _ => false
  end.

Definition skind_eqb (a b : skind) : bool :=
  match a, b with
  | KList, KList | KVec, KVec | KSet, KSet | KQueue, KQueue
  | KPyList, KPyList | KPyTuple, KPyTuple | KPySet, KPySet => true
  | _, _ => false
  end.
Definition unordered (k : skind) : bool := match k with KSet | KPySet => true | _ => false end.
Definition nilb {A} (l : list A) : bool := match l with [] => true | _ => false end.

(** [cm]: compare metadata *)
Fixpoint value_eqb (cm : bool) (a b : value) {struct a} : bool :=
  let all2 := fix all2 (x y : list value) {struct x} : bool :=
    match x, y with
    | [], [] => true
    | p :: x', q :: y' => value_eqb cm p q && all2 x' y'
    | _, _ => false
    end in
  let sub := fix sub (x y : list value) {struct x} : bool :=
    match x with [] => true | p :: x' => existsb (value_eqb cm p) y && sub x' y end in
  let msub := fix msub (x y : list (value * value)) {struct x} : bool :=
    match x with
    | [] => true
    | (k, v) :: x' => existsb (fun kv => value_eqb cm k (fst kv) && value_eqb cm v (snd kv)) y && msub x' y
    end in
  let metaeq := fun (ma mb : option (list (value * value))) =>
    negb cm ||
    match ma, mb with
    | Some x, Some y => Nat.eqb (length x) (length y) && msub x y
    | Some x, None => nilb x
    | None, Some y => nilb y
    | None, None => true
    end in
  match a, b with
  | VNil, VNil => true
  | VBool x, VBool y => Bool.eqb x y
  | VInt x, VInt y => Z.eqb x y
  | VRatio n1 d1, VRatio n2 d2 => Z.eqb n1 n2 && Z.eqb d1 d2
  | VFloat x, VFloat y => flt_eqb x y
  | VDec x, VDec y => str_eqb x y
  | VDecS x, VDecS y => flt_eqb x y
  | VImag x, VImag y => str_eqb x y
  | VStr x, VStr y => str_eqb x y
  | VKw n1 s1, VKw n2 s2 => ostr_eqb n1 n2 && str_eqb s1 s2
  | VSym n1 s1 m1, VSym n2 s2 m2 => ostr_eqb n1 n2 && str_eqb s1 s2 && metaeq m1 m2
  | VSeq k1 x m1, VSeq k2 y m2 =>
      skind_eqb k1 k2
      && (if unordered k1 then Nat.eqb (length x) (length y) && sub x y else all2 x y)
      && (if has_meta k1 then metaeq m1 m2 else true)
  | VMap p1 x m1, VMap p2 y m2 =>
      Bool.eqb p1 p2 && Nat.eqb (length x) (length y) && msub x y && (if p1 then true else metaeq m1 m2)
  | VTag t1 x, VTag t2 y => N.eqb t1 t2 && str_eqb x y
  | VRegex x, VRegex y => str_eqb x y
  | VBytes x, VBytes y => list_eqb N.eqb x y
  | _, _ => false
  end.

(** Does the printer claim that this value is readable under these settings?  A [Decimal]
    needs *print-dup* (without it its text is that of a float); strings and patterns need
    *print-readably*. *)
Fixpoint has_decimal (v : value) : bool :=
  match v with
  | VDec _ | VDecS _ => true
  | VSeq _ l _ => existsb has_decimal l
  | VMap _ m _ => existsb (fun kv => has_decimal (fst kv) || has_decimal (snd kv)) m
  | _ => false
  end.
Definition claims (pc : pctl) (v : value) : bool :=
  p_readably pc && (p_dup pc || negb (has_decimal v)).

(** Non-nil *print-length* / *print-level* abbreviate the output ("..." and "#") and then make no
    claim of readability -- except under *print-dup*, which prescribes the full, re-readable
    text whatever the two limits are. *)
Definition lim_is_nil (lim : plim) : bool :=
  match lim with PL None None => true | _ => false end.
Definition claims_lim (pc : pctl) (lim : plim) (v : value) : bool :=
  claims pc v && (p_dup pc || lim_is_nil lim).

(** The observation of one round trip: how many forms were read, the first of them, whether
    printing it again gave the same text (0 no, 1 yes, 2 not determined: the re-read value
    walks its unordered collections in another order), whether two printings agreed. *)
Definition roundtrip_ok (pc : pctl) (v : value) (n : N) (back : value) (refix : N) (det : bool) : bool :=
  (n =? 1) && value_eqb (p_meta pc) v back && negb (refix =? 0) && det.
