(** C03 correspondence interface: cases, observable outputs, spec predicate, model, defect
    tag.  Does not import any proof file. *)
From Coq Require Import List Bool ZArith NArith.
Import ListNotations.
From Verif Require Import C19.Edn.
From Verif Require Export Common.ListX C03.Model C03.Limits C03.Spec.
Local Open Scope N_scope.

(** [via] 0: obj.lrepr / reader.read_str, 1: pr-str / read-string (and read-seq for the count).
    [lim]: print_length / print_level handed to obj.lrepr, *print-length* / *print-level* bound
    around pr-str.
    [orc]: what CPython answers for the number-like tokens of the printed text whose canonical
    form differs from the token (float/Decimal/complex constructors followed by printing);
    every other token is its own canonical form.  [badre]: patterns re.compile rejects. *)
(** big integers are written in the case files as base-2^60 digits, most significant first
    (Coq's parser is quadratic in the length of a numeral) *)
Definition zbig (neg : bool) (chunks : list N) : Z :=
  let n := fold_left (fun acc c => N.lor (N.shiftl acc 60) c) chunks 0 in
  if neg then (- Z.of_N n)%Z else Z.of_N n.

Inductive case := Case (via : N) (pc : pctl) (lim : plim) (v : value) (orc : list (str * str)) (badre : list str).

Inductive out :=
| OOk (text : str) (n : N) (back : value) (refix : N) (det : bool)
      (* printed text; number of forms read (>= 1); the first form; printing it again gives the
         same text: 0 no, 1 yes, 2 undetermined (iteration order); two printings agree *)
| ONone (text : str)                      (* the text contains no form *)
| OReadErr (text : str) (cls : N)         (* the reader raised: 1 reader.SyntaxError, 2 another class *)
| OPrintErr (cls : N)                     (* the printer raised: 2 ValueError, 3 another class *)
| OErr (cls : N).                         (* harness trouble 2, timeout/hang 3, model out of fuel 9 *)

Definition out_eqb (m i : out) : bool :=
  match m, i with
  | OOk t1 n1 b1 r1 d1, OOk t2 n2 b2 r2 d2 =>
      str_eqb t1 t2 && N.eqb n1 n2 && value_eqb true b1 b2
      && ((r1 =? 2) || (r2 =? 2) || (r1 =? r2)) && Bool.eqb d1 d2
  | ONone t1, ONone t2 => str_eqb t1 t2
  | OReadErr t1 7, (OOk t2 _ _ _ _ | ONone t2 | OReadErr t2 _) => str_eqb t1 t2   (* the model does not claim to know *)
  | OReadErr t1 c1, OReadErr t2 c2 => str_eqb t1 t2 && N.eqb c1 c2
  | OPrintErr a, OPrintErr b => N.eqb a b
  | OErr a, OErr b => N.eqb a b
  | _, _ => false
  end.

Definition spec_ok (c : case) (o : out) : bool :=
  let '(Case _ pc lim v _ _) := c in
  if negb (claims_lim pc lim v) then true                   (* the printer does not claim readability here *)
  else match o with
       | OOk _ n back refix det => roundtrip_ok pc v n back refix det
       | _ => false
       end.

(** keys of [orc] are prefixed with f (float), d (Decimal), j (complex) *)
Definition orc_fn (orc : list (str * str)) (pfx : N) (t : str) : option str :=
  match assoc_str (pfx :: t) orc with Some r => Some r | None => Some t end.

(** core/read-string passes the keyword :eofthrow to the reader as its end-of-input sentinel
    (and asks for an error at the end of input): a top-level form identical to it, i.e. that
    very keyword, is taken for the end of the input and EOFError is raised (F-03l) *)
Definition kw_eofthrow : str := [101; 111; 102; 116; 104; 114; 111; 119].

Definition model (c : case) : out :=
  let '(Case via pc lim v orc badre) := c in
  if vexists long_int v then OPrintErr 2                       (* CPython's 4300-digit limit of str(int) *)
  else
    let text := printl pc lim v in
    match read_text (orc_fn orc 102) (orc_fn orc 100) (orc_fn orc 106) (@Some str) (@Some str) (fun p => negb (existsb (str_eqb p) badre)) text with
    | ROk [] => ONone text
    | ROk (b :: rest) =>
        if (via =? 1) && value_eqb false b (VKw None kw_eofthrow) then OReadErr text 2   (* F-03l *)
        else
        OOk text (N.of_nat (S (length rest))) b
            (if negb (p_dup pc || lim_is_nil lim) then 2      (* abbreviated text, no claim: re-printing not modelled *)
             else if p_meta pc && loc_carrier pc b then 0     (* the reader's location keys get printed *)
             else if str_eqb (printl pc lim b) text then 1 else 0)
            true
    | RErr e => OReadErr text e
    | RFuel => OErr 9
    end.

Definition tag (c : case) : N :=
  let '(Case via pc _ v _ _) := c in
  tag_of pc v + (if (via =? 1) && value_eqb false v (VKw None kw_eofthrow) then 256 else 0).
