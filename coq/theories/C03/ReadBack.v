(** C03, the reader restricted to what the printer can emit: executable model of
    [basilisp.lang.reader] (src/basilisp/lang/reader.py) -- [_read_next] dispatch, [_read_num]
    (token scanning with the pushback limit, the eight numeric regexes in the order they are
    tried, how each branch computes its value), [_read_str] with the escape table and the
    GREEDY hex reader of [_read_unicode_escape_seq], the raw-string branch used by regex
    literals, [_read_byte_str], [_read_kw] / [_read_sym] / [_read_namespaced], collections,
    [_read_meta], [_read_namespaced_map], [##] constants and the data readers of
    [#py #queue #uuid #inst].

    Error classes of [RErr]: 1 = reader.SyntaxError (UnexpectedEOFError included), 2 = another
    exception class escapes, 7 = the input is outside this model (quote, deref, syntax-quote,
    character literals, comments, [#(] [#'] [#_] [#?] [#f], auto-resolved [::kw], record tags,
    several [^] in a row).  Python's [\d] / [\s] / [str.isnumeric] are approximated by the
    ASCII digits and the Unicode white-space list of C19's [is_ws] (tied to the regenerated
    class tables in Proofs by [ws_table_ok]).

    The reader attaches location metadata (line, col, end-line, end-col) to every symbol,
    list, vector, set and map it reads; values here are compared modulo those four keys, the
    predicate [loc_carrier] says which values carry them (see F-03k). *)
From Coq Require Import List NArith ZArith Bool Lia.
Import ListNotations.
From Verif Require Import Common.ListX Gen.Prims Gen.Tables C19.Bencode C19.Edn C03.Printer.
Local Open Scope N_scope.

(** ** Characters *)
Definition is_hex (c : N) : bool :=
  is_digit c || ((65 <=? c) && (c <=? 70)) || ((97 <=? c) && (c <=? 102)).
Definition hexval (c : N) : N := if is_digit c then c - 48 else if c <=? 70 then c - 55 else c - 87.
Fixpoint hex_value (acc : N) (l : str) : N :=
  match l with [] => acc | c :: t => hex_value (16 * acc + hexval c) t end.
Definition is_alnum_ascii (c : N) : bool :=
  is_digit c || ((65 <=? c) && (c <=? 90)) || ((97 <=? c) && (c <=? 122)).
Definition is_nil {A} (l : list A) : bool := match l with [] => true | _ => false end.

(** ** Strings: [_read_str] after the opening quote.  [raw = true] is the branch regex
    literals use: the backslash is kept, the character after it is NOT protected, so a double
    quote ends the literal even after a backslash *)
Fixpoint read_str_body (raw : bool) (l : str) (acc : str) {struct l} : rres (str * str) :=
  match l with
  | [] => RErr 1
  | c :: t =>
      if c =? 92 then
        match t with
        | [] => RErr 1
        | e :: t' =>
            if raw then
              if e =? 34 then ROk (acc ++ [92], t') else read_str_body raw t' (acc ++ [92; e])
            else
              match assoc e rd_str_escapes with
              | Some r => read_str_body raw t' (acc ++ [r])
              | None =>
                  if (e =? 117) || (e =? 85) then
                    (* _read_unicode_escape_seq: ALL following hex digits, then the count must be 4 or 8 *)
                    (fix hex (l' : str) (hs : str) {struct l'} : rres (str * str) :=
                       match l' with
                       | [] => RErr 1
                       | h :: r =>
                           if is_hex h then hex r (hs ++ [h])
                           else if mem (N.of_nat (length hs)) rd_unicode_lens && (hex_value 0 hs <? 1114112)
                                then read_str_body raw l' (acc ++ [hex_value 0 hs])
                                else RErr 1
                       end) t' []
                  else RErr 1
              end
        end
      else if c =? 34 then ROk (acc, t)
      else read_str_body raw t (acc ++ [c])
  end.

(** ** Byte strings: [_read_byte_str] after the opening quote *)
Fixpoint read_bytes_body (l : str) (acc : list N) {struct l} : rres (list N * str) :=
  match l with
  | [] => RErr 1
  | c :: t =>
      if (c <? 1) || (127 <? c) then RErr 1
      else if c =? 92 then
        match t with
        | [] => RErr 1
        | e :: t' =>
            match assoc e rd_bytes_escapes with
            | Some r => read_bytes_body t' (acc ++ [r])
            | None =>
                if e =? 120 then
                  match t' with
                  | h1 :: h2 :: t'' =>
                      if is_hex h1 && is_hex h2 then read_bytes_body t'' (acc ++ [16 * hexval h1 + hexval h2])
                      else RErr 7
                  | _ => RErr 1
                  end
                else if 127 <? e then RErr 7
                else read_bytes_body t' (acc ++ [92; e])      (* unknown escapes are kept with their backslash *)
            end
        end
      else if c =? 34 then ROk (acc, t)
      else read_bytes_body t (acc ++ [c])
  end.

(** ** Numbers: the regexes of reader.py :67-79 as full-match predicates on a token *)
Definition strip_last (c : N) (s : str) : str := if ends_with c s then removelast s else s.
Definition digits1 (l : str) : bool := negb (is_nil l) && forallb is_digit l.          (* one or more digits *)
Definition dec_frac (l : str) : bool :=                                                 (* digits, optionally a dot and more digits *)
  match split_at 46 l with
  | Some (ip, fp) => digits1 ip && forallb is_digit fp
  | None => digits1 l
  end.
Definition strip_sign (l : str) : str :=
  match l with c :: t => if (c =? 43) || (c =? 45) then t else l | [] => l end.
Fixpoint split_e (l : str) : option (str * str) :=                  (* at the first e or E *)
  match l with
  | [] => None
  | x :: t => if (x =? 101) || (x =? 69) then Some ([], t)
              else match split_e t with Some (a, b) => Some (x :: a, b) | None => None end
  end.

Definition re_integer (s : str) : bool := int_body (strip_minus (strip_last 78 s)).
Definition re_float (s : str) : bool :=
  let b := strip_minus (strip_last 77 s) in
  match split_at 46 b with
  | Some (ip, fp) => int_body ip && forallb is_digit fp
  | None => int_body b
  end.
Definition re_octal (s : str) : bool :=
  match strip_minus (strip_last 78 s) with
  | 48 :: ds => negb (is_nil ds) && forallb (fun c => (48 <=? c) && (c <=? 55)) ds
  | _ => false
  end.
Definition re_hex (s : str) : bool :=
  match strip_minus (strip_last 78 s) with
  | 48 :: x :: ds => ((x =? 88) || (x =? 120)) && negb (is_nil ds) && forallb is_hex ds
  | _ => false
  end.
Definition re_ratio (s : str) : bool :=
  match split_at 47 s with
  | Some (a, b) => digits1 (strip_minus a) && digits1 b
  | None => false
  end.
Definition re_sci (s : str) : bool :=
  match split_e (strip_minus s) with
  | Some (m, e) => dec_frac m && digits1 (strip_sign (strip_last 77 e))
  | None => false
  end.
Definition re_radix (s : str) : bool :=
  match split_at 114 (strip_minus s) with
  | Some (bs, ds) => digits1 bs && (length bs <=? 2)%nat && negb (is_nil ds) && forallb is_alnum_ascii ds
  | None => false
  end.
Definition re_complex (s : str) : bool :=
  let b := strip_minus s in ends_with 74 b && dec_frac (removelast b).

(** digit values for int(text, base) *)
Definition alnum_val (c : N) : N :=
  if is_digit c then c - 48 else if c <=? 90 then c - 55 else c - 87.
Fixpoint base_value (base acc : N) (l : str) : option N :=
  match l with
  | [] => Some acc
  | c :: t => if alnum_val c <? base then base_value base (base * acc + alnum_val c) t else None
  end.

(** [Fraction(n, d)] normalised; an integral fraction is returned as an int *)
Definition mk_ratio (n d : Z) : value :=
  let g := Z.gcd n d in
  let n' := (n / g)%Z in let d' := (d / g)%Z in
  if (d' =? 1)%Z then VInt n' else VRatio n' d'.

Fixpoint pairs_of (l : list value) : option (list (value * value)) :=
  match l with
  | [] => Some []
  | k :: v :: t => option_map (cons (k, v)) (pairs_of t)
  | [_] => None
  end.

Definition sgn (neg : bool) (n : N) : Z := if neg then (- Z.of_N n)%Z else Z.of_N n.

Section Reader.
  (** CPython, as parameters: [repr(float(t))], [str(Decimal(t))], the printed form of
      [complex(0, float(t) or int(t))], [str(UUID(t))], [isoformat(fromisoformat(t))]
      ([None] = the constructor raises), and whether [re.compile] accepts a pattern *)
  Variable py_float py_dec py_imag py_uuid py_inst : str -> option str.
  Variable re_ok : str -> bool.

  Definition tok_or_err (r : option str) (k : str -> value) (rest : str) : rres (value * str) :=
    match r with Some t => ROk (k t, rest) | None => RErr 1 end.

  (** [_read_num] after the token [s] has been collected: the first regex that matches decides *)
  Definition classify (s : str) (rest : str) : rres (value * str) :=
    let neg := is_neg s in
    if re_integer s then
      match py_int (strip_last 78 s) with Some z => ROk (VInt z, rest) | None => RErr 2 end
    else if re_float s then
      if ends_with 77 s then tok_or_err (py_dec (removelast s)) VDec rest
      else tok_or_err (py_float s) (fun t => VFloat (FTok t)) rest
    else if re_octal s then
      match strip_minus (strip_last 78 s) with
      | _ :: ds => match base_value 8 0 ds with Some n => ROk (VInt (sgn neg n), rest) | None => RErr 1 end
      | [] => RErr 1
      end
    else if re_hex s then
      match strip_minus (strip_last 78 s) with
      | _ :: _ :: ds => match base_value 16 0 ds with Some n => ROk (VInt (sgn neg n), rest) | None => RErr 1 end
      | _ => RErr 1
      end
    else if re_ratio s then
      match split_at 47 s with
      | Some (a, b) =>
          match py_int a, py_int b with
          | Some n, Some d =>
              if (n =? 0)%Z then ROk (VInt 0, rest)
              else if (d =? 0)%Z then RErr 1                            (* ZeroDivisionError -> syntax error *)
              else ROk (mk_ratio n d, rest)
          | _, _ => RErr 2
          end
      | None => RErr 1
      end
    else if re_sci s then
      (* REPAIRED (fixes/C03-sci-notation-float.patch): float(s); was significand * 10**exponent *)
      if ends_with 77 s then tok_or_err (py_dec (removelast s)) VDec rest
      else tok_or_err (py_float s) (fun t => VFloat (FTok t)) rest
    else if re_radix s then
      match split_at 114 (strip_minus s) with
      | Some (bs, ds) =>
          match py_int bs with
          | Some b =>
              if ((2 <=? b) && (b <=? 36))%Z then
                match base_value (Z.to_N b) 0 ds with Some n => ROk (VInt (sgn neg n), rest) | None => RErr 1 end
              else RErr 1
          | None => RErr 2
          end
      | None => RErr 1
      end
    else if re_complex s then tok_or_err (py_imag (removelast s)) VImag rest
    else RErr 1.

  (** ** Symbols and keywords *)
  Definition read_sym (l : str) : rres (value * str) :=
    match read_namespaced Lisp l with
    | ROk ((ns, nm), rest) =>
        if ends_with 35 nm then RErr 1                                  (* gensym outside syntax quote *)
        else if (match ns with Some n => negb (segs_ok n) | None => false end) then RErr 1
        else match ns with
             | None =>
                 if str_eqb nm s_nil then ROk (VNil, rest)
                 else if str_eqb nm s_true then ROk (VBool true, rest)
                 else if str_eqb nm s_false then ROk (VBool false, rest)
                 else ROk (VSym None nm None, rest)
             | Some n => ROk (VSym (Some n) nm None, rest)
             end
    | RErr e => RErr e
    | RFuel => RFuel
    end.

  (** after the leading colon *)
  Definition read_kw (l : str) : rres (value * str) :=
    if starts_with 58 l then RErr 7                                     (* ::auto-resolved *)
    else if (match l with c :: _ => is_digit c | [] => false end)
    then let (ds, rest) := take_digits l in ROk (VKw None ds, rest)     (* CLJ-1252 numeric keywords *)
    else
      match read_namespaced Lisp l with
      | ROk ((ns, nm), rest) => ROk (VKw ns nm, rest)
      | RErr e => RErr e
      | RFuel => RFuel
      end.

  (** [_read_num]: collect the token; a minus sign that is not followed by a digit or another
      minus sign sends the whole token to the symbol reader, after pushing back what was
      consumed (at most 3 characters can be pushed back) *)
  Fixpoint read_num (l : str) (chars : str) {struct l} : rres (value * str) :=
    match l with
    | [] => classify chars []
    | c :: t =>
        if c =? 45 then
          if (match t with c2 :: _ => begin_num c2 | [] => false end)
          then read_num t (chars ++ [45])
          else if pushback_ok chars then read_sym (chars ++ l) else RErr 1
        else if maybe_num c then read_num t (chars ++ [c])
        else classify chars l
    end.

  (** ## constants: [_read_numeric_constant] after the two sharps *)
  Fixpoint assoc_str {A} (k : str) (t : list (str * A)) : option A :=
    match t with
    | [] => None
    | (k', v) :: r => if str_eqb k k' then Some v else assoc_str k r
    end.
  Definition read_const (l : str) : rres (value * str) :=
    match read_namespaced Lisp l with
    | ROk ((None, nm), rest) =>
        match assoc_str nm rd_numeric_constants with
        | Some k => ROk (VFloat (if k =? 0 then FNaN else if k =? 1 then FInf else FNegInf), rest)
        | None => RErr 1
        end
    | ROk ((Some _, _), _) => RErr 1
    | RErr e => RErr e
    | RFuel => RFuel
    end.

  (** ** Data readers *)
  Definition py_from_lisp (v : value) : rres value :=
    match v with
    | VSeq KList l _ => ROk (VSeq KPyTuple l None)
    | VSeq KVec l _ => ROk (VSeq KPyList l None)
    | VSeq KSet l _ => ROk (VSeq KPySet l None)
    | VMap false m _ => ROk (VMap true m None)
    | _ => RErr 1
    end.
  Definition queue_from (v : value) : rres value :=
    match v with
    | VSeq KList l _ | VSeq KVec l _ | VSeq KSet l _ => ROk (VSeq KQueue l None)
    | _ => RErr 7
    end.
  Definition tagged_str (f : str -> option str) (t : N) (v : value) : rres value :=
    match v with
    | VStr s => match f s with Some s' => ROk (VTag t s') | None => RErr 1 end
    | _ => RErr 7
    end.

  Definition t_s_py : str := [112; 121].
  Definition t_s_queue : str := [113; 117; 101; 117; 101].
  Definition t_s_uuid : str := [117; 117; 105; 100].
  Definition t_s_inst : str := [105; 110; 115; 116].

  Definition resolve_tag (ns : option str) (nm : str) (v : value) : rres value :=
    match ns with
    | None =>
        if str_eqb nm t_s_py then py_from_lisp v
        else if str_eqb nm t_s_queue then queue_from v
        else if str_eqb nm t_s_uuid then tagged_str py_uuid 0 v
        else if str_eqb nm t_s_inst then tagged_str py_inst 1 v
        else if mem 46 nm then RErr 7                                   (* record / type constructor *)
        else RErr 1                                                     (* No data reader found for tag *)
    | Some _ => RErr 1
    end.

  (** [_read_meta]: only the map form of metadata is modelled (the printer emits no other) *)
  Definition attach_meta (mm : list (value * value)) (o : value) : rres value :=
    match o with
    | VSym ns nm None => ROk (VSym ns nm (Some mm))
    | VSeq k l None => if has_meta k then ROk (VSeq k l (Some mm)) else RErr 1
    | VMap false m None => ROk (VMap false m (Some mm))
    | VSym _ _ (Some _) | VSeq _ _ (Some _) | VMap false _ (Some _) => RErr 7
    | _ => RErr 1                                                       (* Can not attach metadata to ... *)
    end.

  (** [_map_key_processor] of a map read with a namespace prefix *)
  Definition ns_key (n : str) (k : value) : value :=
    match k with
    | VKw None nm => VKw (Some n) nm
    | VKw (Some [95]) nm => VKw None nm
    | VSym None nm _ => VSym (Some n) nm None
    | VSym (Some [95]) nm _ => VSym None nm None
    | _ => k
    end.

  Definition bind {A B} (r : rres A) (k : A -> rres B) : rres B :=
    match r with ROk a => k a | RErr e => RErr e | RFuel => RFuel end.

  (** [_read_map] once the elements up to the closing brace have been read *)
  Definition finish_map (ns : option str) (vs : list value) (r : str) : rres (value * str) :=
    match pairs_of vs with
    | Some m =>
        ROk (VMap false (match ns with
                         | Some n => map (fun kv => (ns_key n (fst kv), snd kv)) m
                         | None => m
                         end) None, r)
    | None => RErr 1
    end.

  (** which reader the first character selects ([_read_next]) *)
  Definition kind (c : N) : N :=
    if begin_num c then 7
    else if is_ws c then 8
    else if c =? 40 then 1 else if c =? 91 then 2 else if c =? 123 then 3 else if c =? 34 then 4
    else if c =? 35 then 5
    else if c =? 94 then 11
    else if (c =? 39) || (c =? 92) || (c =? 59) || (c =? 96) || (c =? 126) || (c =? 64) then 6
    else if c =? 58 then 9
    else 10.

  Fixpoint read_next (fuel : nat) (l : str) {struct fuel} : rres (value * str) :=
    match fuel with
    | O => RFuel
    | S f =>
        match l with
        | [] => RErr 1
        | c :: t =>
            let k := kind c in
            if k =? 7 then read_num l []
            else if k =? 8 then read_next f (drop_ws t)
            else if k =? 1 then bind (read_coll f 41 t []) (fun '(vs, r) => ROk (VSeq KList vs None, r))
            else if k =? 2 then bind (read_coll f 93 t []) (fun '(vs, r) => ROk (VSeq KVec vs None, r))
            else if k =? 3 then bind (read_coll f 125 t []) (fun '(vs, r) => finish_map None vs r)
            else if k =? 4 then bind (read_str_body false t []) (fun '(s, r) => ROk (VStr s, r))
            else if k =? 5 then
              match t with
              | [] => RErr 1
              | c2 :: t2 =>
                  if c2 =? 123 then bind (read_coll f 125 t2 []) (fun '(vs, r) => ROk (VSeq KSet vs None, r))
                  else if c2 =? 34 then
                    bind (read_str_body true t2 [])
                         (fun '(s, r) => if re_ok s then ROk (VRegex s, r) else RErr 1)
                  else if c2 =? 35 then read_const t2
                  else if c2 =? 58 then
                    (* _read_namespaced_map *)
                    if starts_with 58 t2 then RErr 7
                    else bind (read_namespaced Lisp t2)
                           (fun '((kns, mns), r) =>
                              match kns with
                              | Some _ => RErr 1
                              | None => match drop_ws r with
                                        | 123 :: r' => bind (read_coll f 125 r' []) (fun '(vs, r'') => finish_map (Some mns) vs r'')
                                        | _ => RErr 1
                                        end
                              end)
                  else if (c2 =? 40) || (c2 =? 39) || (c2 =? 95) || (c2 =? 33) || (c2 =? 63) then RErr 7
                  else if is_ws c2 || is_digit c2 then RErr 1
                  else
                    (* a tag: _read_sym, then #b / #f, else the next form goes to the data reader *)
                    bind (read_sym t)
                      (fun '(tag, r) =>
                         match tag with
                         | VSym ns nm _ =>
                             let generic :=
                               match drop_ws r with
                               | [] => RErr 1
                               | r' => bind (read_next f r') (fun '(v, r'') => bind (resolve_tag ns nm v) (fun x => ROk (x, r'')))
                               end in
                             match ns with
                             | None =>
                                 if str_eqb nm [98] then
                                   match drop_ws r with
                                   | 34 :: r' => bind (read_bytes_body r' []) (fun '(b, r'') => ROk (VBytes b, r''))
                                   | _ => RErr 1
                                   end
                                 else if str_eqb nm [102] then RErr 7
                                 else generic
                             | Some _ => generic
                             end
                         | _ => RErr 1                                   (* #nil #true #false *)
                         end)
              end
            else if k =? 11 then
              match drop_ws t with
              | [] => RErr 1
              | t1 =>
                  bind (read_next f t1)
                    (fun '(m, r) =>
                       match m with
                       | VMap false mm _ =>
                           match drop_ws r with
                           | [] => RErr 1
                           | r1 => bind (read_next f r1) (fun '(o, r2) => bind (attach_meta mm o) (fun x => ROk (x, r2)))
                           end
                       | VSym _ _ _ | VKw _ _ | VSeq KVec _ _ => RErr 7
                       | _ => RErr 1
                       end)
              end
            else if k =? 6 then RErr 7
            else if k =? 9 then read_kw t
            else read_sym l
        end
    end
  with read_coll (fuel : nat) (close : N) (l : str) (acc : list value) {struct fuel}
    : rres (list value * str) :=
    match fuel with
    | O => RFuel
    | S f =>
        match drop_ws l with
        | [] => RErr 1
        | c :: t =>
            if c =? close then ROk (acc, t)
            else bind (read_next f (c :: t)) (fun '(v, r) => read_coll f close r (acc ++ [v]))
        end
    end.

  (** [read] / [read_str]: every form of the text *)
  Fixpoint read_all (n fuel : nat) (l : str) (acc : list value) {struct n} : rres (list value) :=
    match n with
    | O => RFuel
    | S n' =>
        match drop_ws l with
        | [] => ROk acc
        | l' => bind (read_next fuel l') (fun '(v, r) => read_all n' fuel r (acc ++ [v]))
        end
    end.
  (** fuel: one unit per nesting level of the recursive-descent reader; [4 * length + 4]
      is more than any text can use (ProofsMain.roundtrip shows it suffices for printed text) *)
  Definition read_text (s : str) : rres (list value) := read_all (S (length s)) (4 * length s + 4) s [].
End Reader.

(** ** Which re-read values print differently under *print-meta* (F-03k): the reader attaches
    location metadata to every symbol, list, vector, set and map it reads -- also to the map
    given after a caret, so a queue (which carries none itself) counts as soon as it has
    metadata.  The keys of a namespace-prefixed map are rebuilt by [_map_key_processor] and
    carry none. *)
Section Loc.
  Variable pc : pctl.
  Fixpoint loc_carrier (v : value) : bool :=
    match v with
    | VSym _ _ _ => true
    | VSeq k l meta =>
        (match k with KList | KVec | KSet => true | KQueue => is_some meta | _ => false end)
        || existsb loc_carrier l
    | VMap py m _ =>
        negb py
        || (let rebuilt := p_nsmaps pc && is_some (shared_ns m) in
            existsb (fun kv => (negb rebuilt && loc_carrier (fst kv)) || loc_carrier (snd kv)) m)
    | _ => false
    end.
End Loc.
