(** C03 proofs, part 4: from the executable grammars ([repr_grammar], [dec_grammar],
    [imag_plain]) to the shapes of ProofsFloat, the scanner condition, and imaginary numbers. *)
From Coq Require Import List NArith ZArith Bool Lia.
Import ListNotations.
From Verif Require Import Common.ListX Gen.Prims Gen.Tables C19.Bencode C19.BencodeProofs C19.Edn C19.EdnProofs.
From Verif Require Import C03.Printer C03.ReadBack C03.Guard C03.ProofsBase C03.ProofsNum C03.ProofsFloat.
Local Open Scope N_scope.

Lemma split_at_inv c l : forall a b, split_at c l = Some (a, b) ->
  l = a ++ c :: b /\ forallb (fun x => negb (x =? c)) a = true.
Proof.
  induction l as [|x t IH]; simpl; intros a b H; [discriminate|].
  destruct (N.eqb_spec x c) as [->|NE].
  - inversion H; subst. split; reflexivity.
  - destruct (split_at c t) as [[a' b']|]; [|discriminate]. inversion H; subst.
    destruct (IH a' b eq_refl) as [E F]. split; [simpl; f_equal; exact E|].
    simpl. apply N.eqb_neq in NE. rewrite NE, F. reflexivity.
Qed.

Lemma sign_split tok : exists sg, is_sign sg /\ tok = sg ++ strip_minus tok.
Proof.
  destruct tok as [|c t]; [exists []; split; [left|]; reflexivity|].
  unfold strip_minus. destruct (N.eqb_spec c 45) as [->|NE].
  - exists [45]. split; [right|]; reflexivity.
  - exists []. split; [left|]; reflexivity.
Qed.

Lemma one_digit_inv l : one_digit l = true -> exists d, l = [d] /\ is_digit d = true.
Proof. destruct l as [|d [|? ?]]; try discriminate. simpl. eauto. Qed.

(** repr(float): one of the two shapes *)
Lemma repr_grammar_shape tok : repr_grammar tok = true ->
  exists sg, is_sign sg /\
    ((exists ip fp, tok = sg ++ ip ++ 46 :: fp /\ int_body ip = true /\ digits1 fp = true)
     \/ (exists d0 fr es ds, tok = sg ++ (d0 :: fr) ++ 101 :: es :: ds /\ is_digit d0 = true /\ is_frac fr
                             /\ is_es es /\ digits1 ds = true)).
Proof.
  unfold repr_grammar. intro H. destruct (sign_split tok) as (sg & Hs & E). exists sg. split; [exact Hs|].
  destruct (split_at 101 (strip_minus tok)) as [[m e]|] eqn:SE.
  - right. destruct (split_at_inv _ _ _ _ SE) as [EB _]. apply andb_true_iff in H as [Hm He].
    destruct e as [|es ds]; [discriminate|]. apply andb_true_iff in He as [He L]. apply andb_true_iff in He as [Hes Dds].
    assert (Dd : digits1 ds = true).
    { unfold digits1. rewrite Dds. destruct ds; [discriminate|reflexivity]. }
    assert (Es : is_es es).
    { apply orb_true_iff in Hes as [X|X]; apply N.eqb_eq in X; [left|right]; exact X. }
    destruct (split_at 46 m) as [[ip fp]|] eqn:SD.
    + destruct (split_at_inv _ _ _ _ SD) as [EM _]. apply andb_true_iff in Hm as [Ho Df].
      destruct (one_digit_inv ip Ho) as (d0 & -> & Dd0).
      exists d0, (46 :: fp), es, ds. repeat split; auto.
      * rewrite E at 1. rewrite EB, EM. reflexivity.
      * right. exists fp. auto.
    + destruct (one_digit_inv m Hm) as (d0 & -> & Dd0).
      exists d0, [], es, ds. repeat split; auto.
      * rewrite E at 1. rewrite EB. reflexivity.
      * left. reflexivity.
  - left. destruct (split_at 46 (strip_minus tok)) as [[ip fp]|] eqn:SD; [|discriminate].
    destruct (split_at_inv _ _ _ _ SD) as [EB _]. apply andb_true_iff in H as [Hi Df].
    exists ip, fp. repeat split; auto. rewrite E at 1. rewrite EB. reflexivity.
Qed.

(** str(Decimal) *)
Lemma dec_grammar_shape tok : dec_grammar tok = true ->
  exists sg, is_sign sg /\
    ((exists ip fr, tok = sg ++ ip ++ fr /\ int_body ip = true /\ is_frac fr)
     \/ (exists d0 fr es ds, tok = sg ++ (d0 :: fr) ++ 69 :: es :: ds /\ is_digit d0 = true /\ is_frac fr
                             /\ is_es es /\ digits1 ds = true)).
Proof.
  unfold dec_grammar. intro H. destruct (sign_split tok) as (sg & Hs & E). exists sg. split; [exact Hs|].
  destruct (split_at 69 (strip_minus tok)) as [[m e]|] eqn:SE.
  - right. destruct (split_at_inv _ _ _ _ SE) as [EB _]. apply andb_true_iff in H as [Hm He].
    destruct e as [|es ds]; [discriminate|]. apply andb_true_iff in He as [Hes Dd].
    assert (Es : is_es es).
    { apply orb_true_iff in Hes as [X|X]; apply N.eqb_eq in X; [left|right]; exact X. }
    destruct (split_at 46 m) as [[ip fp]|] eqn:SD.
    + destruct (split_at_inv _ _ _ _ SD) as [EM _]. apply andb_true_iff in Hm as [Ho Df].
      destruct (one_digit_inv ip Ho) as (d0 & -> & Dd0).
      exists d0, (46 :: fp), es, ds. repeat split; auto.
      * rewrite E at 1. rewrite EB, EM. reflexivity.
      * right. exists fp. auto.
    + destruct (one_digit_inv m Hm) as (d0 & -> & Dd0).
      exists d0, [], es, ds. repeat split; auto.
      * rewrite E at 1. rewrite EB. reflexivity.
      * left. reflexivity.
  - left. destruct (split_at 46 (strip_minus tok)) as [[ip fp]|] eqn:SD.
    + destruct (split_at_inv _ _ _ _ SD) as [EB _]. apply andb_true_iff in H as [Hi Df].
      exists ip, (46 :: fp). repeat split; auto.
      * rewrite E at 1. rewrite EB. reflexivity.
      * right. exists fp. auto.
    + exists (strip_minus tok), []. repeat split; auto.
      * rewrite app_nil_r. exact E.
      * left. reflexivity.
Qed.

(** * The scanner accepts these texts *)
Definition simple_char (c : N) : bool := maybe_num c && negb (c =? 45).

Lemma scan_simple l : forallb simple_char l = true -> scan_ok l = true.
Proof.
  induction l as [|c t IH]; [reflexivity|]. intro H. simpl in H. apply andb_true_iff in H as [Hc Ht].
  unfold simple_char in Hc. apply andb_true_iff in Hc as [M N45]. apply negb_true_iff in N45.
  simpl. rewrite N45, M, (IH Ht). reflexivity.
Qed.

Lemma digit_simple c : is_digit c = true -> simple_char c = true.
Proof. intro D. destruct (digit_fact c D) as (_ & _ & N45 & _ & M & _). unfold simple_char. rewrite M, N45. reflexivity. Qed.

Lemma digits_simple l : forallb is_digit l = true -> forallb simple_char l = true.
Proof. intro D. rewrite forallb_forall in *. intros x I. apply digit_simple, D, I. Qed.

Lemma frac_simple fr : is_frac fr -> forallb simple_char fr = true.
Proof.
  intros [->|(fp & -> & D)]; [reflexivity|]. destruct (digits1_inv fp D) as [Df _].
  simpl. change (simple_char 46) with true. apply digits_simple, Df.
Qed.

Lemma scan_ok_cons_plain x l : (x =? 45) = false -> scan_ok (x :: l) = maybe_num x && scan_ok l.
Proof. intro H. simpl. rewrite H. reflexivity. Qed.
Lemma scan_ok_cons_minus c l : scan_ok (45 :: c :: l) = begin_num c && scan_ok (c :: l).
Proof. reflexivity. Qed.

Lemma scan_sign sg c t : is_sign sg -> is_digit c = true -> scan_ok (c :: t) = true -> scan_ok (sg ++ c :: t) = true.
Proof.
  intros [->| ->] D S; [exact S|]. simpl app. rewrite scan_ok_cons_minus.
  destruct (digit_fact c D) as (_ & _ & _ & _ & _ & B). rewrite B. exact S.
Qed.

Lemma scan_noexp sg ip fr : is_sign sg -> int_body ip = true -> is_frac fr -> scan_ok (sg ++ ip ++ fr) = true.
Proof.
  intros Hs Hi Hf. destruct (int_body_digits ip Hi) as [Di NE]. destruct ip as [|c t]; [congruence|].
  pose proof Di as Di'. simpl in Di'. apply andb_true_iff in Di' as [Dc Dt].
  simpl app. apply scan_sign; [exact Hs|exact Dc|]. apply scan_simple.
  change (c :: t ++ fr) with ((c :: t) ++ fr). rewrite forallb_app, (digits_simple _ Di), (frac_simple fr Hf). reflexivity.
Qed.

Lemma scan_exp sg d0 fr e es ds : is_sign sg -> is_digit d0 = true -> is_frac fr -> is_E e -> is_es es ->
  digits1 ds = true -> scan_ok (sg ++ (d0 :: fr) ++ e :: es :: ds) = true.
Proof.
  intros Hs Hd Hf He Hes Hds. destruct (digits1_cons ds Hds) as (c & t & -> & Dc & Dt).
  simpl app. apply scan_sign; [exact Hs|exact Hd|].
  replace (d0 :: fr ++ e :: es :: c :: t) with ((d0 :: fr ++ [e]) ++ es :: c :: t)
    by (simpl; rewrite <- app_assoc; reflexivity).
  apply scan_ok_app.
  - apply scan_simple. simpl. rewrite (digit_simple d0 Hd). simpl. rewrite forallb_app, (frac_simple fr Hf).
    simpl. destruct He; subst; reflexivity.
  - destruct Hes as [->| ->].
    + rewrite scan_ok_cons_plain by reflexivity. change (maybe_num 43) with true. cbn [andb].
      apply digits_scan. simpl. rewrite Dc, Dt. reflexivity.
    + rewrite scan_ok_cons_minus.
      destruct (digit_fact c Dc) as (_ & _ & N45 & _ & M & B). rewrite B. cbn [andb].
      apply digits_scan. simpl. rewrite Dc, Dt. reflexivity.
  - intros t' E'. assert (X : ends_with 45 (d0 :: fr ++ [e]) = true) by (rewrite E', ends_with_app_last; reflexivity).
    change (d0 :: fr ++ [e]) with ((d0 :: fr) ++ [e]) in X. rewrite ends_with_app_last in X.
    destruct He; subst; discriminate.
Qed.

(** * Imaginary numbers without exponent *)
Section Imag.
  Variable py_float py_dec py_imag : str -> option str.
  Notation classify := (classify py_float py_dec py_imag).

  Lemma forallb_last_false {A} (P : A -> bool) l x : P x = false -> forallb P (l ++ [x]) = false.
  Proof. intro H. rewrite forallb_app. simpl. rewrite H, andb_false_r. reflexivity. Qed.

  Lemma imag_shape tok : dec_frac (strip_minus tok) = true ->
    exists sg c t, is_sign sg /\ tok = sg ++ c :: t /\ is_digit c = true /\ strip_minus tok = c :: t
                   /\ forallb (fun x => is_digit x || (x =? 46)) t = true.
  Proof.
    intro H. destruct (sign_split tok) as (sg & Hs & E). unfold dec_frac in H.
    destruct (split_at 46 (strip_minus tok)) as [[ip fp]|] eqn:SD.
    - destruct (split_at_inv _ _ _ _ SD) as [EB _]. apply andb_true_iff in H as [Di Df].
      destruct (digits1_cons ip Di) as (c & t & -> & Dc & Dt).
      exists sg, c, (t ++ 46 :: fp). repeat split; auto.
      + rewrite E at 1. rewrite EB. reflexivity.
      + rewrite forallb_app. simpl. rewrite forallb_forall in *.
        assert (X : forallb (fun x => is_digit x || (x =? 46)) t = true).
        { rewrite forallb_forall. intros x I. rewrite (Dt x I). reflexivity. }
        rewrite X. simpl. rewrite forallb_forall. intros x I. rewrite (Df x I). reflexivity.
    - destruct (digits1_cons _ H) as (c & t & EB & Dc & Dt).
      exists sg, c, t. repeat split; auto.
      + rewrite E at 1. rewrite EB. reflexivity.
      + rewrite forallb_forall in *. intros x I. rewrite (Dt x I). reflexivity.
  Qed.

  Lemma classify_imag tok rest : dec_frac (strip_minus tok) = true ->
    classify (tok ++ [74]) rest = tok_or_err (py_imag tok) VImag rest.
  Proof.
    intro H. destruct (imag_shape tok H) as (sg & c & t & Hs & E & Dc & SM & Dt).
    assert (SMs : strip_minus (tok ++ [74]) = (c :: t) ++ [74]).
    { rewrite E, <- app_assoc. simpl app. apply strip_minus_sign; assumption. }
    assert (E78 : ends_with 78 (tok ++ [74]) = false) by (apply last_not; reflexivity).
    assert (E77 : ends_with 77 (tok ++ [74]) = false) by (apply last_not; reflexivity).
    assert (IN74 : In 74 ((c :: t) ++ [74])) by (apply in_or_app; right; left; reflexivity).
    assert (NI : re_integer (tok ++ [74]) = false).
    { unfold re_integer. rewrite (strip_last_no _ _ E78), SMs. apply (int_body_nondigit _ 74); [exact IN74|reflexivity]. }
    assert (NF : re_float (tok ++ [74]) = false).
    { unfold re_float. rewrite (strip_last_no _ _ E77), SMs.
      destruct (split_at 46 ((c :: t) ++ [74])) as [[ip fp]|] eqn:SD.
      - destruct (split_at_inv _ _ _ _ SD) as [EB NA].
        assert (L : exists fp', fp = fp' ++ [74]).
        { clear - EB. revert fp EB. generalize (c :: t) as l. intros l. revert ip.
          induction l as [|x r IH]; intros ip fp EB.
          - destruct ip as [|? [|? ?]]; simpl in EB; inversion EB.
          - destruct ip as [|y ip'].
            + simpl in EB. inversion EB; subst. exists r. reflexivity.
            + simpl in EB. inversion EB; subst. eapply IH. eassumption. }
        destruct L as (fp' & ->). rewrite forallb_last_false by reflexivity. apply andb_false_r.
      - apply (int_body_nondigit _ 74); [exact IN74|reflexivity]. }
    assert (NO : re_octal (tok ++ [74]) = false).
    { unfold re_octal. rewrite (strip_last_no _ _ E78), SMs. simpl app.
      destruct (N.eqb_spec c 48) as [->|NE].
      - rewrite forallb_last_false by reflexivity. apply andb_false_r.
      - destruct c as [|p]; [reflexivity|].
        destruct p as [p|p|]; try reflexivity; destruct p as [p|p|]; try reflexivity;
          destruct p as [p|p|]; try reflexivity; destruct p as [p|p|]; try reflexivity;
          destruct p as [p|p|]; try reflexivity; destruct p as [p|p|]; try reflexivity. congruence. }
    assert (NH : re_hex (tok ++ [74]) = false).
    { unfold re_hex. rewrite (strip_last_no _ _ E78), SMs. simpl app.
      destruct (N.eqb_spec c 48) as [->|NE].
      - destruct t as [|x r]; [reflexivity|]. simpl app. simpl in Dt. apply andb_true_iff in Dt as [Dx _].
        assert (((x =? 88) || (x =? 120)) = false).
        { apply orb_true_iff in Dx as [Dx|Dx].
          - apply digit_range in Dx. apply orb_false_iff. split; apply N.eqb_neq; lia.
          - apply N.eqb_eq in Dx. subst x. reflexivity. }
        rewrite H0. reflexivity.
      - destruct c as [|p]; [reflexivity|].
        destruct p as [p|p|]; try reflexivity; destruct p as [p|p|]; try reflexivity;
          destruct p as [p|p|]; try reflexivity; destruct p as [p|p|]; try reflexivity;
          destruct p as [p|p|]; try reflexivity; destruct p as [p|p|]; try reflexivity. congruence. }
    (* the characters of the token: a minus sign, digits, dots, J *)
    assert (CH : forall x, In x (tok ++ [74]) -> x = 45 \/ is_digit x = true \/ x = 46 \/ x = 74).
    { intros x I. apply in_app_or in I as [I|I].
      - rewrite E in I. apply in_app_or in I as [I|I].
        + destruct Hs as [->| ->]; [destruct I|]. destruct I as [<-|[]]. left. reflexivity.
        + destruct I as [<-|I]; [right; left; exact Dc|]. rewrite forallb_forall in Dt. specialize (Dt x I).
          apply orb_true_iff in Dt as [Dx|Dx]; [right; left; exact Dx|]. apply N.eqb_eq in Dx. auto.
      - destruct I as [<-|[]]. auto. }
    assert (NOCH : forall y, y <> 45 -> is_digit y = false -> y <> 46 -> y <> 74 ->
                   forallb (fun x => negb (x =? y)) (tok ++ [74]) = true).
    { intros y A B C D. rewrite forallb_forall. intros x I. apply negb_true_iff, N.eqb_neq. intro X. subst x.
      destruct (CH y I) as [X|[X|[X|X]]]; congruence. }
    assert (NR : re_ratio (tok ++ [74]) = false).
    { unfold re_ratio. rewrite split_at_none; [reflexivity|]. apply NOCH; try discriminate; reflexivity. }
    assert (NS : re_sci (tok ++ [74]) = false).
    { unfold re_sci. rewrite SMs. rewrite split_e_none; [reflexivity|].
      rewrite forallb_forall. intros x I. apply negb_true_iff, orb_false_iff.
      assert (I' : In x (tok ++ [74])).
      { rewrite E, <- app_assoc. apply in_or_app. right. exact I. }
      destruct (CH x I') as [X|[X|[X|X]]]; try (subst x; split; reflexivity).
      apply digit_range in X. split; apply N.eqb_neq; lia. }
    assert (NX : re_radix (tok ++ [74]) = false).
    { unfold re_radix. rewrite SMs. rewrite split_at_none; [reflexivity|].
      rewrite forallb_forall. intros x I. apply negb_true_iff, N.eqb_neq. intro X. subst x.
      assert (I' : In 114 (tok ++ [74])).
      { rewrite E, <- app_assoc. apply in_or_app. right. exact I. }
      destruct (CH 114 I') as [X|[X|[X|X]]]; discriminate. }
    assert (CX : re_complex (tok ++ [74]) = true).
    { unfold re_complex. rewrite SMs, ends_with_app_last, removelast_app_last, <- SM. exact H. }
    unfold classify. rewrite NI, NF, NO, NH, NR, NS, NX, CX, removelast_app_last. reflexivity.
  Qed.

  Lemma scan_imag tok : dec_frac (strip_minus tok) = true -> scan_ok (tok ++ [74]) = true.
  Proof.
    intro H. destruct (imag_shape tok H) as (sg & c & t & Hs & E & Dc & SM & Dt).
    rewrite E, <- app_assoc. simpl app. apply scan_sign; [exact Hs|exact Dc|].
    apply scan_simple. simpl. rewrite (digit_simple c Dc). simpl. rewrite forallb_app. simpl.
    change (simple_char 74) with true. rewrite andb_true_r.
    rewrite forallb_forall in *. intros x I. specialize (Dt x I). apply orb_true_iff in Dt as [Dx|Dx].
    - apply digit_simple, Dx.
    - apply N.eqb_eq in Dx. subst x. reflexivity.
  Qed.
End Imag.
