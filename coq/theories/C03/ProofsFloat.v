(** C03 proofs, part 3: floats, decimals, imaginary numbers.  Every text of CPython's
    repr(float) grammar (and of str(Decimal) followed by M, and every exponent-free imaginary
    literal) is routed by the reader's regexes to the branch that hands the WHOLE text to the
    CPython constructor. *)
From Coq Require Import List NArith ZArith Bool Lia.
Import ListNotations.
From Verif Require Import Common.ListX Gen.Prims Gen.Tables C19.Bencode C19.BencodeProofs C19.Edn C19.EdnProofs.
From Verif Require Import C03.Printer C03.ReadBack C03.Guard C03.ProofsBase C03.ProofsNum.
Local Open Scope N_scope.

(** * Shapes *)
Definition is_sign (sg : str) : Prop := sg = [] \/ sg = [45].
Definition is_frac (fr : str) : Prop := fr = [] \/ exists fp, fr = 46 :: fp /\ digits1 fp = true.
Definition is_sfx (sfx : str) : Prop := sfx = [] \/ sfx = [77].
Definition is_E (e : N) : Prop := e = 101 \/ e = 69.
Definition is_es (c : N) : Prop := c = 43 \/ c = 45.

Lemma digits1_inv l : digits1 l = true -> forallb is_digit l = true /\ l <> [].
Proof.
  unfold digits1. intro H. apply andb_true_iff in H as [A B]. split; [exact B|].
  destruct l; [discriminate|discriminate].
Qed.

Lemma digits1_cons l : digits1 l = true -> exists c t, l = c :: t /\ is_digit c = true /\ forallb is_digit t = true.
Proof.
  intro H. destruct (digits1_inv l H) as [D NE]. destruct l as [|c t]; [congruence|].
  simpl in D. apply andb_true_iff in D as [Dc Dt]. eauto.
Qed.

Lemma frac_digits_dot fr : is_frac fr -> forallb (fun c => is_digit c || (c =? 46)) fr = true.
Proof.
  intros [->|(fp & -> & D)]; [reflexivity|]. destruct (digits1_inv fp D) as [Df _].
  simpl. rewrite forallb_forall in *. intros x I. rewrite (Df x I). reflexivity.
Qed.

Lemma strip_minus_sign sg c t : is_sign sg -> is_digit c = true -> strip_minus (sg ++ c :: t) = c :: t.
Proof. intros [->| ->] D; [apply strip_minus_digit, D|reflexivity]. Qed.

Lemma last_not c l x : (x =? c) = false -> ends_with c (l ++ [x]) = false.
Proof. intro H. rewrite ends_with_app_last. exact H. Qed.

Lemma ends_with_digit_tail c l d : is_digit c = false -> forallb is_digit d = true -> d <> [] ->
  ends_with c (l ++ d) = false.
Proof. intros NC D NE. rewrite ends_with_app by assumption. apply ends_with_digits; assumption. Qed.

Lemma dec_frac_shape ip fr : digits1 ip = true -> is_frac fr -> dec_frac (ip ++ fr) = true.
Proof.
  intros D [->|(fp & -> & Df)]; unfold dec_frac.
  - rewrite app_nil_r. destruct (digits1_inv ip D) as [Di _].
    rewrite split_at_none by (apply (digits_no 46); [reflexivity|exact Di]). exact D.
  - destruct (digits1_inv ip D) as [Di _]. destruct (digits1_inv fp Df) as [Dfp _].
    rewrite split_at_first by (apply (digits_no 46); [reflexivity|exact Di]). rewrite D, Dfp. reflexivity.
Qed.

Lemma int_body_digits1 ip : int_body ip = true -> digits1 ip = true.
Proof. intro H. destruct (int_body_digits ip H) as [D NE]. unfold digits1. rewrite D. destruct ip; [congruence|reflexivity]. Qed.

Section Floats.
  Variable py_float py_dec py_imag : str -> option str.
  Notation classify := (classify py_float py_dec py_imag).

  (** the value the float / sci branches compute for text [tok] followed by [sfx] *)
  Definition fl_result (tok sfx : str) (rest : str) : rres (value * str) :=
    match sfx with
    | [] => tok_or_err (py_float tok) (fun t => VFloat (FTok t)) rest
    | _ => tok_or_err (py_dec tok) VDec rest
    end.

  (** ** no exponent: sign, canonical integer part, optional fraction, optional M *)
  Lemma classify_noexp sg ip fr sfx rest :
    is_sign sg -> int_body ip = true -> is_frac fr -> is_sfx sfx -> (fr <> [] \/ sfx <> []) ->
    classify ((sg ++ ip ++ fr) ++ sfx) rest = fl_result (sg ++ ip ++ fr) sfx rest.
  Proof.
    intros Hs Hi Hf Hx Hne.
    destruct (int_body_digits ip Hi) as [Di NEi]. destruct ip as [|c t]; [congruence|].
    pose proof Di as Di'. simpl in Di'. apply andb_true_iff in Di' as [Dc Dt].
    set (tok := sg ++ (c :: t) ++ fr).
    assert (SMtok : strip_minus tok = (c :: t) ++ fr).
    { unfold tok. simpl app. apply strip_minus_sign; assumption. }
    assert (SMs : strip_minus (tok ++ sfx) = (c :: t) ++ fr ++ sfx).
    { unfold tok. rewrite <- !app_assoc. simpl app. apply strip_minus_sign; assumption. }
    assert (TOKNE : tok <> []) by (unfold tok; destruct sg; discriminate).
    (* the last character of tok is a digit *)
    assert (LASTD : forall x, is_digit x = false -> ends_with x tok = false).
    { intros x NX. unfold tok. destruct Hf as [->|(fp & -> & Dfp)].
      - rewrite app_nil_r. apply ends_with_digit_tail; [exact NX|exact Di|discriminate].
      - destruct (digits1_inv fp Dfp) as [Dfp' NEfp].
        rewrite app_assoc. change (46 :: fp) with ([46] ++ fp). rewrite app_assoc.
        apply ends_with_digit_tail; assumption. }
    assert (E78 : ends_with 78 (tok ++ sfx) = false).
    { destruct Hx as [->| ->]; [rewrite app_nil_r; apply LASTD; reflexivity|apply last_not; reflexivity]. }
    assert (NI : re_integer (tok ++ sfx) = false).
    { unfold re_integer. rewrite (strip_last_no _ _ E78), SMs.
      destruct Hne as [NF|NX].
      - destruct Hf as [->|(fp & -> & _)]; [congruence|].
        apply (int_body_nondigit _ 46); [|reflexivity]. apply in_or_app. right. left. reflexivity.
      - destruct Hx as [->| ->]; [congruence|].
        apply (int_body_nondigit _ 77); [|reflexivity].
        apply in_or_app. right. apply in_or_app. right. left. reflexivity. }
    assert (SL77 : strip_last 77 (tok ++ sfx) = tok).
    { destruct Hx as [->| ->].
      - rewrite app_nil_r. apply strip_last_no, LASTD. reflexivity.
      - unfold strip_last. rewrite ends_with_app_last. change (77 =? 77) with true. cbv iota.
        apply removelast_app_last. }
    assert (FL : re_float (tok ++ sfx) = true).
    { unfold re_float. rewrite SL77, SMtok. destruct Hf as [->|(fp & -> & Dfp)].
      - rewrite app_nil_r. rewrite split_at_none by (apply (digits_no 46); [reflexivity|exact Di]). exact Hi.
      - destruct (digits1_inv fp Dfp) as [Dfp' _].
        rewrite split_at_first by (apply (digits_no 46); [reflexivity|exact Di]). rewrite Hi, Dfp'. reflexivity. }
    unfold classify. fold tok. rewrite NI, FL. unfold fl_result.
    destruct Hx as [->| ->].
    - rewrite app_nil_r. rewrite (LASTD 77 eq_refl). reflexivity.
    - rewrite ends_with_app_last. change (77 =? 77) with true. cbv iota. rewrite removelast_app_last. reflexivity.
  Qed.

  (** ** exponent: sign, ONE digit, optional fraction, e or E, a sign, digits, optional M *)
  Lemma classify_exp sg d0 fr e es ds sfx rest :
    is_sign sg -> is_digit d0 = true -> is_frac fr -> is_E e -> is_es es -> digits1 ds = true -> is_sfx sfx ->
    classify ((sg ++ (d0 :: fr) ++ e :: es :: ds) ++ sfx) rest = fl_result (sg ++ (d0 :: fr) ++ e :: es :: ds) sfx rest.
  Proof.
    intros Hs Hd Hf He Hes Hds Hx.
    destruct (digits1_inv ds Hds) as [Dds NEds].
    set (body := (d0 :: fr) ++ e :: es :: ds).
    set (tok := sg ++ body).
    assert (EN : is_digit e = false) by (destruct He; subst; reflexivity).
    assert (SMtok : strip_minus tok = body) by (apply strip_minus_sign; assumption).
    assert (SMs : strip_minus (tok ++ sfx) = body ++ sfx).
    { unfold tok. rewrite <- app_assoc. unfold body. simpl app. apply strip_minus_sign; assumption. }
    assert (LASTD : forall x, is_digit x = false -> ends_with x tok = false).
    { intros x NX. unfold tok, body. rewrite app_assoc.
      change (e :: es :: ds) with ([e; es] ++ ds). rewrite app_assoc.
      apply ends_with_digit_tail; assumption. }
    assert (E78 : ends_with 78 (tok ++ sfx) = false).
    { destruct Hx as [->| ->]; [rewrite app_nil_r; apply LASTD; reflexivity|apply last_not; reflexivity]. }
    assert (INe : In e (body ++ sfx)).
    { unfold body. apply in_or_app. left. apply in_or_app. right. left. reflexivity. }
    assert (NI : re_integer (tok ++ sfx) = false).
    { unfold re_integer. rewrite (strip_last_no _ _ E78), SMs. apply (int_body_nondigit _ e); assumption. }
    assert (SL77 : strip_last 77 (tok ++ sfx) = tok).
    { destruct Hx as [->| ->].
      - rewrite app_nil_r. apply strip_last_no, LASTD. reflexivity.
      - unfold strip_last. rewrite ends_with_app_last. change (77 =? 77) with true. cbv iota.
        apply removelast_app_last. }
    assert (N46e : (e =? 46) = false) by (destruct He; subst; reflexivity).
    assert (N46es : (es =? 46) = false) by (destruct Hes; subst; reflexivity).
    assert (NF : re_float (tok ++ sfx) = false).
    { unfold re_float. rewrite SL77, SMtok. unfold body. destruct Hf as [->|(fp & -> & Dfp)].
      - rewrite split_at_none.
        + apply (int_body_nondigit _ e); [right; left; reflexivity|exact EN].
        + simpl. destruct (digit_fact d0 Hd) as (_ & _ & _ & N46 & _). rewrite N46, N46e, N46es. simpl.
          apply (digits_no 46); [reflexivity|exact Dds].
      - destruct (digits1_inv fp Dfp) as [Dfp' _].
        change ((d0 :: 46 :: fp) ++ e :: es :: ds) with ([d0] ++ 46 :: (fp ++ e :: es :: ds)).
        rewrite split_at_first by (simpl; destruct (digit_fact d0 Hd) as (_ & _ & _ & N46 & _); rewrite N46; reflexivity).
        rewrite forallb_app. simpl. rewrite EN, andb_false_r, andb_false_r. reflexivity. }
    (* after the sign: d0, then a dot or the exponent letter *)
    assert (HD2 : exists x r, body ++ sfx = d0 :: x :: r /\ (x = 46 \/ x = e)).
    { unfold body. destruct Hf as [->|(fp & -> & _)]; simpl; eauto. }
    destruct HD2 as (x & r & EB & Hx2).
    assert (XO : ((48 <=? x) && (x <=? 55)) = false) by (destruct Hx2 as [->| ->]; [reflexivity|destruct He; subst; reflexivity]).
    assert (XH : ((x =? 88) || (x =? 120)) = false) by (destruct Hx2 as [->| ->]; [reflexivity|destruct He; subst; reflexivity]).
    assert (NO : re_octal (tok ++ sfx) = false).
    { unfold re_octal. rewrite (strip_last_no _ _ E78), SMs, EB.
      destruct (N.eqb_spec d0 48) as [->|NE].
      - simpl. rewrite XO. reflexivity.
      - destruct d0 as [|p]; [reflexivity|].
        destruct p as [p|p|]; try reflexivity; destruct p as [p|p|]; try reflexivity;
          destruct p as [p|p|]; try reflexivity; destruct p as [p|p|]; try reflexivity;
          destruct p as [p|p|]; try reflexivity; destruct p as [p|p|]; try reflexivity. congruence. }
    assert (NH : re_hex (tok ++ sfx) = false).
    { unfold re_hex. rewrite (strip_last_no _ _ E78), SMs, EB.
      destruct (N.eqb_spec d0 48) as [->|NE].
      - rewrite XH. reflexivity.
      - destruct d0 as [|p]; [reflexivity|].
        destruct p as [p|p|]; try reflexivity; destruct p as [p|p|]; try reflexivity;
          destruct p as [p|p|]; try reflexivity; destruct p as [p|p|]; try reflexivity;
          destruct p as [p|p|]; try reflexivity; destruct p as [p|p|]; try reflexivity. congruence. }
    assert (NR : re_ratio (tok ++ sfx) = false).
    { unfold re_ratio. rewrite split_at_none; [reflexivity|].
      unfold tok, body. rewrite !forallb_app.
      assert (A1 : forallb (fun x0 => negb (x0 =? 47)) sg = true) by (destruct Hs as [->| ->]; reflexivity).
      assert (A2 : forallb (fun x0 => negb (x0 =? 47)) (d0 :: fr) = true).
      { pose proof (frac_digits_dot fr Hf) as F. simpl. destruct (digit_fact d0 Hd) as (_ & _ & _ & _ & _).
        assert ((d0 =? 47) = false) by (apply N.eqb_neq; apply digit_range in Hd; lia). rewrite H. simpl.
        rewrite forallb_forall in *. intros y I. specialize (F y I). apply negb_true_iff, N.eqb_neq. intro Ey. subst y.
        discriminate. }
      assert (A3 : forallb (fun x0 => negb (x0 =? 47)) (e :: es :: ds) = true).
      { simpl. assert ((e =? 47) = false) by (destruct He; subst; reflexivity).
        assert ((es =? 47) = false) by (destruct Hes; subst; reflexivity). rewrite H, H0. simpl.
        apply (digits_no 47); [reflexivity|exact Dds]. }
      assert (A4 : forallb (fun x0 => negb (x0 =? 47)) sfx = true) by (destruct Hx as [->| ->]; reflexivity).
      rewrite A1, A2, A3, A4. reflexivity. }
    assert (SC : re_sci (tok ++ sfx) = true).
    { unfold re_sci. rewrite SMs. unfold body. rewrite <- app_assoc. simpl app.
      change (d0 :: fr ++ e :: es :: ds ++ sfx) with ((d0 :: fr) ++ e :: (es :: ds ++ sfx)).
      rewrite (split_e_first e _ _ He).
      - change (d0 :: fr) with ([d0] ++ fr). rewrite dec_frac_shape; [|unfold digits1; simpl; rewrite Hd; reflexivity|exact Hf].
        cbn [andb].
        assert (SL : strip_last 77 (es :: ds ++ sfx) = es :: ds).
        { destruct Hx as [->| ->].
          - rewrite app_nil_r. apply strip_last_no. rewrite ends_with_cons by assumption.
            apply ends_with_digits; [reflexivity|exact Dds].
          - unfold strip_last. change (es :: ds ++ [77]) with ((es :: ds) ++ [77]).
            rewrite ends_with_app_last. change (77 =? 77) with true. cbv iota. apply removelast_app_last. }
        rewrite SL. unfold strip_sign. destruct Hes as [->| ->]; exact Hds.
      - pose proof (frac_digits_dot fr Hf) as F. simpl.
        assert (((d0 =? 101) || (d0 =? 69)) = false).
        { apply digit_range in Hd. apply orb_false_iff. split; apply N.eqb_neq; lia. }
        rewrite H. simpl. rewrite forallb_forall in *. intros y I. specialize (F y I).
        apply negb_true_iff, orb_false_iff. apply orb_true_iff in F as [F|F].
        + apply digit_range in F. split; apply N.eqb_neq; lia.
        + apply N.eqb_eq in F. subst y. split; reflexivity. }
    unfold classify. fold body. fold tok. rewrite NI, NF, NO, NH, NR, SC. unfold fl_result.
    destruct Hx as [->| ->].
    - rewrite app_nil_r. rewrite (LASTD 77 eq_refl). reflexivity.
    - rewrite ends_with_app_last. change (77 =? 77) with true. cbv iota. rewrite removelast_app_last. reflexivity.
  Qed.
End Floats.
