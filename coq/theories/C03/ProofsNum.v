(** C03 proofs, part 2: numbers.  The token scanner of [_read_num], and for every numeric
    text the printer emits the proof that the reader's regexes route it to the branch that
    computes the right value. *)
From Coq Require Import List NArith ZArith Bool Lia.
Import ListNotations.
From Verif Require Import Common.ListX Gen.Prims Gen.Tables C19.Bencode C19.BencodeProofs C19.Edn C19.EdnProofs.
From Verif Require Import C03.Printer C03.ReadBack C03.Guard C03.ProofsBase.
Local Open Scope N_scope.

(** * The scanner *)
Fixpoint scan_ok (l : str) : bool :=
  match l with
  | [] => true
  | c :: t =>
      if c =? 45 then (match t with c2 :: _ => begin_num c2 | [] => false end) && scan_ok t
      else maybe_num c && scan_ok t
  end.

Section Num.
  Variable py_float py_dec py_imag : str -> option str.
  Notation read_num := (read_num py_float py_dec py_imag).
  Notation classify := (classify py_float py_dec py_imag).

  Lemma read_num_minus chars c t : begin_num c = true ->
    read_num (45 :: c :: t) chars = read_num (c :: t) (chars ++ [45]).
  Proof.
    intro B.
    transitivity (if begin_num c then read_num (c :: t) (chars ++ [45])
                  else if pushback_ok chars then read_sym (chars ++ 45 :: c :: t) else RErr 1); [reflexivity|].
    rewrite B. reflexivity.
  Qed.

  Lemma read_num_scan tok : forall chars rest, scan_ok tok = true -> rest_ok rest = true ->
    read_num (tok ++ rest) chars = classify (chars ++ tok) rest.
  Proof.
    induction tok as [|c t IH]; intros chars rest S R.
    - simpl. rewrite app_nil_r. destruct rest as [|r0 rr]; [reflexivity|].
      destruct (rest_ok_facts r0 rr R) as (_ & _ & N45 & MN & _).
      cbn [read_num]. rewrite N45, MN. reflexivity.
    - simpl in S. destruct (N.eqb_spec c 45) as [->|NE].
      + apply andb_true_iff in S as [B S]. destruct t as [|c2 t2]; [discriminate|].
        simpl app. rewrite (read_num_minus chars c2 _ B).
        change (c2 :: t2 ++ rest) with ((c2 :: t2) ++ rest).
        rewrite (IH _ _ S R), <- app_assoc. reflexivity.
      + apply andb_true_iff in S as [M S]. simpl app. cbn [read_num].
        apply N.eqb_neq in NE. rewrite NE, M, (IH _ _ S R), <- app_assoc. reflexivity.
  Qed.
End Num.

(** * Small facts about tokens *)
Lemma digits_scan l : forallb is_digit l = true -> scan_ok l = true.
Proof.
  induction l as [|c t IH]; [reflexivity|]. intro H. simpl in H. apply andb_true_iff in H as [Hc Ht].
  destruct (digit_fact c Hc) as (_ & _ & N45 & _ & M & _). simpl. rewrite N45, M, (IH Ht). reflexivity.
Qed.

Lemma scan_ok_app a b : scan_ok a = true -> scan_ok b = true ->
  (forall t, a <> t ++ [45]) -> scan_ok (a ++ b) = true.
Proof.
  induction a as [|c t IH]; intros A B NL; [exact B|].
  simpl in A. simpl app. simpl. destruct (c =? 45) eqn:E.
  - apply andb_true_iff in A as [A1 A2]. destruct t as [|c2 t2]; [discriminate|].
    change (match (c2 :: t2) ++ b with [] => false | c0 :: _ => begin_num c0 end) with (begin_num c2).
    rewrite A1. cbn [andb]. apply IH; auto.
    intros t' E'. apply (NL (c :: t')). simpl. rewrite E'. reflexivity.
  - apply andb_true_iff in A as [A1 A2]. rewrite A1. simpl. apply IH; auto.
    intros t' E'. apply (NL (c :: t')). simpl. rewrite E'. reflexivity.
Qed.

Lemma split_at_none c l : forallb (fun x => negb (x =? c)) l = true -> split_at c l = None.
Proof.
  induction l as [|x t IH]; [reflexivity|]. intro H. simpl in H. apply andb_true_iff in H as [Hx Ht].
  apply negb_true_iff in Hx. simpl. rewrite Hx, (IH Ht). reflexivity.
Qed.

Lemma split_at_first c a b : forallb (fun x => negb (x =? c)) a = true -> split_at c (a ++ c :: b) = Some (a, b).
Proof.
  induction a as [|x t IH]; intro H.
  - simpl. rewrite N.eqb_refl. reflexivity.
  - simpl in H. apply andb_true_iff in H as [Hx Ht]. apply negb_true_iff in Hx.
    simpl. rewrite Hx, (IH Ht). reflexivity.
Qed.

Lemma split_e_none l : forallb (fun x => negb ((x =? 101) || (x =? 69))) l = true -> split_e l = None.
Proof.
  induction l as [|x t IH]; [reflexivity|]. intro H. simpl in H. apply andb_true_iff in H as [Hx Ht].
  apply negb_true_iff in Hx. simpl. rewrite Hx, (IH Ht). reflexivity.
Qed.

Lemma split_e_first e a b : (e = 101 \/ e = 69) ->
  forallb (fun x => negb ((x =? 101) || (x =? 69))) a = true -> split_e (a ++ e :: b) = Some (a, b).
Proof.
  intros He. induction a as [|x t IH]; intro H.
  - simpl. destruct He; subst; reflexivity.
  - simpl in H. apply andb_true_iff in H as [Hx Ht]. apply negb_true_iff in Hx.
    simpl. rewrite Hx, (IH Ht). reflexivity.
Qed.

Lemma digits_no c l : is_digit c = false -> forallb is_digit l = true -> forallb (fun x => negb (x =? c)) l = true.
Proof.
  intros NC D. rewrite forallb_forall in *. intros x I. apply negb_true_iff, N.eqb_neq. intro E. subst x.
  rewrite (D c I) in NC. discriminate.
Qed.

Lemma digits_no_e l : forallb is_digit l = true -> forallb (fun x => negb ((x =? 101) || (x =? 69))) l = true.
Proof.
  intro D. rewrite forallb_forall in *. intros x I. specialize (D x I). apply digit_range in D.
  apply negb_true_iff, orb_false_iff. split; apply N.eqb_neq; lia.
Qed.

Lemma ends_with_app_last c l x : ends_with c (l ++ [x]) = (x =? c).
Proof.
  induction l as [|y t IH]; [reflexivity|]. simpl app.
  destruct (t ++ [x]) as [|z r] eqn:E; [destruct t; discriminate|]. exact IH.
Qed.

Lemma removelast_app_last {A} (l : list A) x : removelast (l ++ [x]) = l.
Proof. rewrite removelast_app by discriminate. simpl. apply app_nil_r. Qed.

Lemma ends_with_digits c l : is_digit c = false -> forallb is_digit l = true -> ends_with c l = false.
Proof.
  intros NC. induction l as [|x t IH]; [reflexivity|]. intro D. simpl in D. apply andb_true_iff in D as [Dx Dt].
  destruct t as [|y r].
  - simpl. apply N.eqb_neq. intro E. subst x. congruence.
  - change (ends_with c (x :: y :: r)) with (ends_with c (y :: r)). apply IH, Dt.
Qed.

Lemma ends_with_cons c x l : l <> [] -> ends_with c (x :: l) = ends_with c l.
Proof. destruct l; [congruence|reflexivity]. Qed.

Lemma ends_with_app c a b : b <> [] -> ends_with c (a ++ b) = ends_with c b.
Proof.
  intro NB. induction a as [|x t IH]; [reflexivity|]. simpl app. rewrite ends_with_cons; [exact IH|].
  destruct t; simpl; [exact NB|discriminate].
Qed.

Lemma strip_last_no c l : ends_with c l = false -> strip_last c l = l.
Proof. unfold strip_last. intros ->. reflexivity. Qed.

Lemma strip_minus_neg l : strip_minus (45 :: l) = l.
Proof. reflexivity. Qed.

Lemma strip_minus_digit c t : is_digit c = true -> strip_minus (c :: t) = c :: t.
Proof. intro D. unfold strip_minus. destruct (digit_fact c D) as (_ & _ & N45 & _). rewrite N45. reflexivity. Qed.

Lemma int_body_nondigit l c : In c l -> is_digit c = false -> int_body l = false.
Proof.
  intros I NC. destruct (int_body l) eqn:E; [|reflexivity].
  apply int_body_digits in E as [D _]. rewrite forallb_forall in D. rewrite (D c I) in NC. discriminate.
Qed.

(** * Integers: every [Z] *)
Section Ints.
  Variable py_float py_dec py_imag : str -> option str.
  Notation classify := (classify py_float py_dec py_imag).

  Lemma dec_Z_scan z : scan_ok (dec_Z z) = true.
  Proof.
    unfold dec_Z. destruct (dec_N_spec (Z.abs_N z)) as (_ & D & NE).
    destruct (z <? 0)%Z; [|apply digits_scan, D].
    destruct (dec_N (Z.abs_N z)) as [|c t] eqn:E; [congruence|].
    simpl in D. apply andb_true_iff in D as [Dc Dt]. destruct (digit_fact c Dc) as (_ & _ & N45 & _ & M & B).
    cbn [scan_ok]. change (45 =? 45) with true. cbv iota. rewrite B. cbn [andb].
    rewrite N45, M. cbn [andb]. apply digits_scan, Dt.
  Qed.

  Lemma dec_Z_no_suffix c z : is_digit c = false -> c <> 45 -> ends_with c (dec_Z z) = false.
  Proof.
    intros NC N45. unfold dec_Z. destruct (dec_N_spec (Z.abs_N z)) as (_ & D & NE).
    destruct (z <? 0)%Z; [|apply ends_with_digits; assumption].
    rewrite ends_with_cons by assumption. apply ends_with_digits; assumption.
  Qed.

  Lemma strip_minus_dec_Z z : strip_minus (dec_Z z) = dec_N (Z.abs_N z).
  Proof.
    unfold dec_Z. destruct (z <? 0)%Z; [reflexivity|].
    destruct (dec_N_spec (Z.abs_N z)) as (_ & D & NE).
    destruct (dec_N (Z.abs_N z)) as [|c t]; [congruence|].
    simpl in D. apply andb_true_iff in D as [Dc _]. apply strip_minus_digit, Dc.
  Qed.

  Lemma classify_int z rest : classify (dec_Z z) rest = ROk (VInt z, rest).
  Proof.
    unfold classify, re_integer.
    rewrite (strip_last_no 78 (dec_Z z)) by (apply dec_Z_no_suffix; [reflexivity|discriminate]).
    rewrite strip_minus_dec_Z, int_body_dec_N, py_int_dec_Z. reflexivity.
  Qed.

  (** * Ratios *)
  Lemma dec_Z_no_slash z : forallb (fun x => negb (x =? 47)) (dec_Z z) = true.
  Proof.
    rewrite forallb_forall. intros x I. apply dec_Z_chars in I. apply negb_true_iff, N.eqb_neq. lia.
  Qed.

  Lemma digits1_dec_N n : digits1 (dec_N n) = true.
  Proof.
    destruct (dec_N_spec n) as (_ & D & NE). unfold digits1. rewrite D.
    destruct (dec_N n); [congruence|reflexivity].
  Qed.

  Lemma dec_Z_pos d : (0 < d)%Z -> dec_Z d = dec_N (Z.abs_N d).
  Proof. intro P. unfold dec_Z. destruct (Z.ltb_spec d 0); [lia|reflexivity]. Qed.

  Definition ratio_tok (n d : Z) : str := dec_Z n ++ 47 :: dec_Z d.

  Lemma ratio_scan n d : (0 < d)%Z -> scan_ok (ratio_tok n d) = true.
  Proof.
    intro P. unfold ratio_tok. apply scan_ok_app.
    - apply dec_Z_scan.
    - cbn [scan_ok]. change (47 =? 45) with false. cbv iota. change (maybe_num 47) with true. cbn [andb].
      rewrite (dec_Z_pos d P). apply digits_scan. apply (dec_N_spec (Z.abs_N d)).
    - intros t E. assert (X : ends_with 45 (dec_Z n) = true) by (rewrite E, ends_with_app_last; reflexivity).
      unfold dec_Z in X. destruct (dec_N_spec (Z.abs_N n)) as (_ & D & NE).
      destruct (n <? 0)%Z.
      + rewrite ends_with_cons in X by assumption. rewrite ends_with_digits in X; [discriminate|reflexivity|exact D].
      + rewrite ends_with_digits in X; [discriminate|reflexivity|exact D].
  Qed.

  Lemma in_ratio_slash n d : In 47 (ratio_tok n d).
  Proof. unfold ratio_tok. apply in_or_app. right. left. reflexivity. Qed.

  Lemma ends_ratio c n d : (0 < d)%Z -> is_digit c = false -> ends_with c (ratio_tok n d) = false.
  Proof.
    intros P NC. unfold ratio_tok. rewrite ends_with_app by discriminate.
    rewrite (dec_Z_pos d P). destruct (dec_N_spec (Z.abs_N d)) as (_ & D & NE).
    rewrite ends_with_cons by assumption. apply ends_with_digits; assumption.
  Qed.

  Lemma dec_N_head_nonzero n : n <> 0 -> exists c t, dec_N n = c :: t /\ c <> 48 /\ is_digit c = true.
  Proof.
    intro NZ. destruct (dec_N_canonical n NZ) as (c & t & E & N48 & D).
    exists c, t. simpl in D. apply andb_true_iff in D as [Dc _]. auto.
  Qed.

  Lemma classify_ratio n d rest : (2 <= d)%Z -> Z.gcd n d = 1%Z ->
    classify (ratio_tok n d) rest = ROk (VRatio n d, rest).
  Proof.
    intros D2 G. assert (P : (0 < d)%Z) by lia.
    assert (NZ : n <> 0%Z).
    { intro E. subst n. rewrite Z.gcd_0_l in G. lia. }
    assert (NZN : Z.abs_N n <> 0) by lia.
    unfold classify.
    (* not an integer, not a float: the token contains a slash *)
    assert (A : re_integer (ratio_tok n d) = false).
    { unfold re_integer. rewrite strip_last_no by (apply ends_ratio; [exact P|reflexivity]).
      apply (int_body_nondigit _ 47); [|reflexivity].
      unfold ratio_tok, dec_Z. destruct (n <? 0)%Z.
      - rewrite <- app_comm_cons, strip_minus_neg. apply in_or_app. right. left. reflexivity.
      - destruct (dec_N_head_nonzero _ NZN) as (c & t & E & _ & Dc). rewrite E, <- app_comm_cons.
        rewrite (strip_minus_digit c _ Dc). right. apply in_or_app. right. left. reflexivity. }
    assert (SM : exists c t, strip_minus (ratio_tok n d) = c :: t ++ 47 :: dec_Z d /\ c <> 48 /\ is_digit c = true
                             /\ forallb is_digit t = true).
    { destruct (dec_N_canonical _ NZN) as (c & t & E & N48 & D). pose proof D as D'. simpl in D'.
      apply andb_true_iff in D' as [Dc Dt]. exists c, t. unfold ratio_tok, dec_Z.
      destruct (n <? 0)%Z.
      - rewrite <- app_comm_cons, strip_minus_neg, E. auto.
      - rewrite E, <- app_comm_cons, (strip_minus_digit c _ Dc). auto. }
    destruct SM as (c & t & SM & N48 & Dc & Dt).
    assert (B : re_float (ratio_tok n d) = false).
    { unfold re_float. rewrite strip_last_no by (apply ends_ratio; [exact P|reflexivity]).
      rewrite SM. rewrite split_at_none.
      - apply (int_body_nondigit _ 47); [|reflexivity]. right. apply in_or_app. right. left. reflexivity.
      - change (c :: t ++ 47 :: dec_Z d) with ((c :: t) ++ 47 :: dec_Z d). rewrite forallb_app.
        rewrite (digits_no 46 (c :: t)); [|reflexivity|simpl; rewrite Dc, Dt; reflexivity].
        simpl. rewrite (dec_Z_pos d P). apply (digits_no 46); [reflexivity|apply (dec_N_spec (Z.abs_N d))]. }
    assert (C : re_octal (ratio_tok n d) = false).
    { unfold re_octal. rewrite strip_last_no by (apply ends_ratio; [exact P|reflexivity]).
      rewrite SM. destruct (N.eqb_spec c 48); [congruence|]. destruct c as [|p]; [reflexivity|].
      destruct p as [p|p|]; try reflexivity; destruct p as [p|p|]; try reflexivity;
        destruct p as [p|p|]; try reflexivity; destruct p as [p|p|]; try reflexivity;
        destruct p as [p|p|]; try reflexivity; destruct p as [p|p|]; try reflexivity. congruence. }
    assert (Dh : re_hex (ratio_tok n d) = false).
    { unfold re_hex. rewrite strip_last_no by (apply ends_ratio; [exact P|reflexivity]).
      rewrite SM. destruct c as [|p]; [reflexivity|].
      destruct p as [p|p|]; try reflexivity; destruct p as [p|p|]; try reflexivity;
        destruct p as [p|p|]; try reflexivity; destruct p as [p|p|]; try reflexivity;
        destruct p as [p|p|]; try reflexivity; destruct p as [p|p|]; try reflexivity. congruence. }
    rewrite A, B, C, Dh.
    assert (SP : split_at 47 (ratio_tok n d) = Some (dec_Z n, dec_Z d)).
    { unfold ratio_tok. apply split_at_first, dec_Z_no_slash. }
    unfold re_ratio. rewrite SP, strip_minus_dec_Z, digits1_dec_N, (dec_Z_pos d P), digits1_dec_N.
    cbn [andb]. rewrite <- (dec_Z_pos d P), !py_int_dec_Z.
    destruct (Z.eqb_spec n 0); [congruence|]. destruct (Z.eqb_spec d 0); [lia|].
    unfold mk_ratio. rewrite G, !Z.div_1_r. destruct (Z.eqb_spec d 1); [lia|]. reflexivity.
  Qed.
End Ints.
