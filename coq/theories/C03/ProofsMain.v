(** C03 proofs, part 7: the round trip of every guarded value, by structural induction
    (any depth, any width), and of the whole text through [read_text]. *)
From Coq Require Import List NArith ZArith Bool Lia.
Import ListNotations.
From Verif Require Import Common.ListX Gen.Prims Gen.Tables C19.Bencode C19.BencodeProofs C19.Edn C19.EdnProofs.
From Verif Require Import C03.Printer C03.ReadBack C03.Guard C03.ProofsBase C03.ProofsNum C03.ProofsFloat C03.ProofsTok
  C03.ProofsLeaf C03.ProofsColl.
Local Open Scope N_scope.

(** * Induction over nested values *)
Definition is_leaf (v : value) : bool :=
  match v with VSym _ _ _ | VSeq _ _ _ | VMap _ _ _ => false | _ => true end.

Section ValueInd.
  Variable P : value -> Prop.
  Definition Pm (m : list (value * value)) : Prop := Forall (fun kv => P (fst kv) /\ P (snd kv)) m.
  Definition Po (meta : option (list (value * value))) : Prop :=
    match meta with Some mm => Pm mm | None => True end.
  Hypothesis Hleaf : forall v, is_leaf v = true -> P v.
  Hypothesis Hsym : forall ns nm meta, Po meta -> P (VSym ns nm meta).
  Hypothesis Hseq : forall k l meta, Forall P l -> Po meta -> P (VSeq k l meta).
  Hypothesis Hmap : forall py m meta, Pm m -> Po meta -> P (VMap py m meta).
  Fixpoint value_ind' (v : value) : P v :=
    let gm := fix gm (m : list (value * value)) : Pm m :=
      match m with
      | [] => Forall_nil _
      | kv :: t => Forall_cons kv (conj (value_ind' (fst kv)) (value_ind' (snd kv))) (gm t)
      end in
    let go := fun meta : option (list (value * value)) =>
      match meta return Po meta with Some mm => gm mm | None => I end in
    let gl := fix gl (l : list value) : Forall P l :=
      match l with [] => Forall_nil _ | x :: t => Forall_cons x (value_ind' x) (gl t) end in
    match v with
    | VSym ns nm meta => Hsym ns nm meta (go meta)
    | VSeq k l meta => Hseq k l meta (gl l) (go meta)
    | VMap py m meta => Hmap py m meta (gm m) (go meta)
    | VNil => Hleaf VNil eq_refl
    | VBool b => Hleaf (VBool b) eq_refl
    | VInt z => Hleaf (VInt z) eq_refl
    | VRatio n d => Hleaf (VRatio n d) eq_refl
    | VFloat f => Hleaf (VFloat f) eq_refl
    | VDec t => Hleaf (VDec t) eq_refl
    | VDecS f => Hleaf (VDecS f) eq_refl
    | VImag t => Hleaf (VImag t) eq_refl
    | VStr s => Hleaf (VStr s) eq_refl
    | VKw ns nm => Hleaf (VKw ns nm) eq_refl
    | VTag t s => Hleaf (VTag t s) eq_refl
    | VRegex p => Hleaf (VRegex p) eq_refl
    | VBytes b => Hleaf (VBytes b) eq_refl
    end.
End ValueInd.

(** fuel a value needs *)
Fixpoint vsize (v : value) : nat :=
  let ms := fun (m : list (value * value)) =>
    list_sum (map (fun kv => (vsize (fst kv) + vsize (snd kv))%nat) m) in
  let mz := fun (meta : option (list (value * value))) =>
    match meta with Some mm => (4 + ms mm)%nat | None => 0%nat end in
  match v with
  | VSym _ _ meta => (1 + mz meta)%nat
  | VSeq _ l meta => (3 + list_sum (map vsize l) + mz meta)%nat
  | VMap _ m meta => (3 + ms m + mz meta)%nat
  | VTag _ _ => 2%nat
  | _ => 1%nat
  end.
Definition msize (m : list (value * value)) : nat :=
  list_sum (map (fun kv => (vsize (fst kv) + vsize (snd kv))%nat) m).
Definition mzsize (meta : option (list (value * value))) : nat :=
  match meta with Some mm => (4 + msize mm)%nat | None => 0%nat end.
Lemma vsize_sym ns nm meta : vsize (VSym ns nm meta) = (1 + mzsize meta)%nat. Proof. reflexivity. Qed.
Lemma vsize_seq k l meta : vsize (VSeq k l meta) = (3 + list_sum (map vsize l) + mzsize meta)%nat. Proof. reflexivity. Qed.
Lemma vsize_map py m meta : vsize (VMap py m meta) = (3 + msize m + mzsize meta)%nat. Proof. reflexivity. Qed.
Lemma vsize_pos v : (1 <= vsize v)%nat.
Proof. destruct v; simpl; lia. Qed.

Lemma join_len sepr (texts : list str) : (list_sum (map (@length N) texts) <= length (join sepr texts))%nat.
Proof.
  induction texts as [|x t IH]; [simpl; lia|].
  cbn [join map]. rewrite app_length. destruct t as [|y t']; [simpl; lia|].
  rewrite app_length. change (list_sum (length x :: map (@length N) (y :: t')))
    with (length x + list_sum (map (@length N) (y :: t')))%nat. lia.
Qed.

Lemma shared_ns_spec m n : shared_ns m = Some n ->
  n <> [] /\ m <> [] /\ forall kv, In kv m -> key_ns (fst kv) = Some n.
Proof.
  unfold shared_ns. destruct m as [|[k v] t]; [discriminate|].
  destruct (key_ns k) as [n0|] eqn:K; [|discriminate].
  destruct (negb (match n0 with [] => true | _ => false end) && forallb _ t) eqn:C; [|discriminate].
  intro E. inversion E; subst n0. apply andb_true_iff in C as [NE A].
  split; [destruct n; [discriminate|discriminate]|]. split; [discriminate|].
  intros kv [<-|I]; [exact K|]. rewrite forallb_forall in A. specialize (A kv I).
  unfold ostr_eqb in A. apply (option_eqb_spec str_eqb str_eqb_eq) in A. exact A.
Qed.

Section Main.
  Variable py_float py_dec py_imag py_uuid py_inst : str -> option str.
  Variable re_ok : str -> bool.
  Variable is_repr is_dec is_imag is_uuid is_inst : str -> bool.
  (** CPython: [repr] / [str] print texts of the stated grammars and the constructors invert them *)
  Hypothesis H_float_repr_inverse : forall t, is_repr t = true -> py_float t = Some t.
  Hypothesis H_repr_grammar : forall t, is_repr t = true -> repr_grammar t = true.
  Hypothesis H_dec_str_inverse : forall t, is_dec t = true -> py_dec t = Some t.
  Hypothesis H_dec_grammar : forall t, is_dec t = true -> dec_grammar t = true.
  Hypothesis H_imag_inverse : forall t, is_imag t = true -> imag_plain t = true -> py_imag t = Some t.
  Hypothesis H_uuid_inverse : forall t, is_uuid t = true -> py_uuid t = Some t.
  Hypothesis H_inst_inverse : forall t, is_inst t = true -> py_inst t = Some t.
  Variable pc : pctl.

  Notation read_next := (read_next py_float py_dec py_imag py_uuid py_inst re_ok).
  Notation reads := (reads py_float py_dec py_imag py_uuid py_inst re_ok).
  Notation elem_ok := (elem_ok py_float py_dec py_imag py_uuid py_inst re_ok).
  Notation G := (guard is_repr is_dec is_imag is_uuid is_inst re_ok pc).
  Notation classify := (classify py_float py_dec py_imag).

  (** the statement proved by induction: head character, round trip, and the fuel bound *)
  Definition RT (v : value) : Prop :=
    G v = true ->
    elem_ok (pr pc false v) v (vsize v) /\ (vsize v <= 4 * length (pr pc false v))%nat.

  Ltac head c t := exists c, t; split; [reflexivity|vm_compute; reflexivity].

  Lemma mk_rt text v sz : (exists c t, text = c :: t /\ head_ok c = true) -> reads text v sz ->
    (1 <= sz)%nat -> (sz <= 2)%nat ->
    elem_ok text v sz /\ (sz <= 4 * length text)%nat.
  Proof.
    intros (c & t & E & H) R L U. split; [repeat split; eauto|]. rewrite E. simpl. lia.
  Qed.

  Lemma RT_leaf v : is_leaf v = true -> RT v.
  Proof.
    destruct v; try discriminate; intros _ Gv; simpl in Gv.
    - apply mk_rt; [head 110 [105; 108]|apply reads_nil|simpl; lia|simpl; lia].
    - destruct b; (apply mk_rt; [eexists _, _; split; [reflexivity|vm_compute; reflexivity]| |simpl; lia|simpl; lia]);
        [apply reads_true|apply reads_false].
    - destruct (dec_Z_head z) as (c & t & E & _ & HO).
      apply mk_rt; [exists c, t; auto|apply reads_int|simpl; lia|simpl; lia].
    - apply andb_true_iff in Gv as [D2 Gc]. apply Z.leb_le in D2. apply Z.eqb_eq in Gc.
      destruct (dec_Z_head n) as (c & t & E & _ & HO).
      apply mk_rt; [exists c, (t ++ 47 :: dec_Z d); simpl; rewrite E; auto|apply reads_ratio; assumption|simpl; lia|simpl; lia].
    - destruct f.
      + apply mk_rt; [head 35 [35; 73; 110; 102]|apply reads_inf|simpl; lia|simpl; lia].
      + apply mk_rt; [head 35 [35; 45; 73; 110; 102]|apply reads_ninf|simpl; lia|simpl; lia].
      + apply mk_rt; [head 35 [35; 78; 97; 78]|apply reads_nan|simpl; lia|simpl; lia].
      + pose proof (H_repr_grammar tok Gv) as GR. destruct (repr_scan_head tok GR) as (SC & c & t & E & K & HO).
        apply mk_rt; [exists c, t; auto| |simpl; lia|simpl; lia].
        simpl. apply reads_num; [eauto|exact SC|]. intro rest.
        rewrite (float_routing py_float py_dec py_imag tok rest GR), (H_float_repr_inverse tok Gv). reflexivity.
    - apply andb_true_iff in Gv as [DUP Gd]. pose proof (H_dec_grammar tok Gd) as GR.
      destruct (dec_scan_head tok GR) as (SC & c & t & E & K & HO).
      assert (EP : pr pc false (VDec tok) = tok ++ [77]) by (simpl; rewrite DUP; reflexivity).
      rewrite EP. apply mk_rt; [exists c, (t ++ [77]); rewrite E; auto| |simpl; lia|simpl; lia].
      apply reads_num; [exists c, (t ++ [77]); rewrite E; auto|exact SC|]. intro rest.
      rewrite (dec_routing py_float py_dec py_imag tok rest GR), (H_dec_str_inverse tok Gd). reflexivity.
    - apply andb_true_iff in Gv as [Gi PL]. pose proof PL as PL'. unfold imag_plain in PL'.
      apply andb_true_iff in PL' as [DF _].
      destruct (imag_shape tok DF) as (sg & c & t & Hs & E & Dc & _ & _).
      destruct (sign_digit_head sg c t Hs Dc) as (c' & t' & E' & K & HO).
      simpl pr. apply mk_rt; [exists c', (t' ++ [74]); rewrite E, E'; auto| |simpl; lia|simpl; lia].
      apply reads_num; [exists c', (t' ++ [74]); rewrite E, E'; auto|apply scan_imag, DF|]. intro rest.
      rewrite (classify_imag py_float py_dec py_imag tok rest DF), (H_imag_inverse tok Gi PL). reflexivity.
    - assert (EP : pr pc false (VStr s) = 34 :: escape s ++ [34]) by (simpl; rewrite Gv; reflexivity).
      rewrite EP. apply mk_rt; [exists 34, (escape s ++ [34]); split; [reflexivity|vm_compute; reflexivity]|apply reads_str|simpl; lia|simpl; lia].
    - apply mk_rt; [exists 58, (qualified ns nm); split; [reflexivity|vm_compute; reflexivity]|apply reads_kw, Gv|simpl; lia|simpl; lia].
    - apply andb_true_iff in Gv as [Gv Gs]. apply andb_true_iff in Gv as [T2 PT]. apply N.ltb_lt in T2.
      assert (ET : t = 0 \/ t = 1) by lia. destruct ET as [->| ->]; cbn [N.eqb] in Gs.
      + apply mk_rt; [eexists _, _; split; [reflexivity|vm_compute; reflexivity]| |simpl; lia|simpl; lia].
        apply reads_uuid; [exact PT|apply H_uuid_inverse, Gs].
      + apply mk_rt; [eexists _, _; split; [reflexivity|vm_compute; reflexivity]| |simpl; lia|simpl; lia].
        apply reads_inst; [exact PT|apply H_inst_inverse, Gs].
    - apply andb_true_iff in Gv as [Gv OK]. apply andb_true_iff in Gv as [RD PL].
      assert (EP : pr pc false (VRegex p) = 35 :: 34 :: escape_legacy p ++ [34]) by (simpl; rewrite RD; reflexivity).
      rewrite EP. apply mk_rt; [eexists _, _; split; [reflexivity|vm_compute; reflexivity]| |simpl; lia|simpl; lia].
      apply reads_regex; assumption.
    - apply mk_rt; [eexists _, _; split; [reflexivity|vm_compute; reflexivity]| |simpl; lia|simpl; lia].
      apply reads_bytes, Gv.
  Qed.

  (** ** map keys printed without their namespace *)
  Definition bare (k : value) : value :=
    match k with VKw _ nm => VKw None nm | VSym _ nm _ => VSym None nm None | _ => k end.

  Lemma stripped_key k n : G k = true -> key_ns k = Some n ->
    elem_ok (pr pc true k) (bare k) 1 /\ (1 <= 4 * length (pr pc true k))%nat /\ name_ok n = true
    /\ (match k with VSym _ _ (Some _) => True | _ => ns_key n (bare k) = k end).
  Proof.
    intros Gk K. destruct k; try discriminate; simpl in K, Gk; subst ns.
    - unfold kw_ok3 in Gk. apply andb_true_iff in Gk as [H1 H2]. pose proof H2 as H2'. simpl in H2'.
      apply andb_true_iff in H2' as [Hn _].
      destruct (name_ok_inv nm H1) as (c & t & E & D & S & Sc).
      repeat split; auto.
      + exists 58, nm. split; [reflexivity|vm_compute; reflexivity].
      + simpl. apply (reads_kw py_float py_dec py_imag py_uuid py_inst re_ok None nm).
        unfold kw_ok3. rewrite H1. reflexivity.
      + simpl. lia.
    - apply andb_true_iff in Gk as [SO _]. unfold sym_ok3 in SO.
      apply andb_true_iff in SO as [SO RS]. apply andb_true_iff in SO as [SO DN].
      apply andb_true_iff in SO as [SO DQ]. apply andb_true_iff in SO as [H1 H2]. apply negb_true_iff in RS.
      pose proof H2 as H2'. simpl in H2'. apply andb_true_iff in H2' as [Hn _].
      destruct (name_ok_inv nm H1) as (c & t & E & D & S & Sc). destruct (safe_kind c Sc) as (HO & _ & _).
      repeat split; auto.
      + exists c, t. simpl. auto.
      + simpl. apply (reads_sym py_float py_dec py_imag py_uuid py_inst re_ok None nm); auto.
      + simpl. rewrite E. simpl. lia.
      + destruct meta; [exact I|reflexivity].
  Qed.

  (** ** maps, given the entries *)
  Lemma map_core m : Pm RT m ->
    forallb (fun kv => G (fst kv) && G (snd kv)) m = true ->
    nsmap_ok pc m = true ->
    elem_ok (mapbody pc m) (VMap false m None) (2 + msize m)
    /\ (4 + msize m <= 4 * length (mapbody pc m))%nat.
  Proof.
    intros IH GM NS. unfold mapbody, nsmap_ok in *.
    destruct (if p_nsmaps pc then shared_ns m else None) as [n|] eqn:SH.
    - (* namespace prefix *)
      destruct (p_nsmaps pc); [|discriminate]. rewrite SH in NS.
      destruct (shared_ns_spec m n SH) as (NEn & NEm & KN).
      set (es := map (fun kv => ((pr pc true (fst kv), bare (fst kv), 1%nat),
                                 (pr pc false (snd kv), snd kv, vsize (snd kv)))) m).
      assert (Hn : name_ok n = true).
      { destruct m as [|kv t]; [congruence|]. simpl in GM. apply andb_true_iff in GM as [Gkv _].
        apply andb_true_iff in Gkv as [Gk _]. destruct (stripped_key (fst kv) n Gk (KN kv (or_introl eq_refl))) as (_ & _ & X & _).
        exact X. }
      assert (OK : Forall (e_ok py_float py_dec py_imag py_uuid py_inst re_ok) es
                   /\ map (fun kv => (ns_key n (fst kv), snd kv)) (map e_pair es) = m
                   /\ (list_sum (map e_sz es) <= msize m)%nat
                   /\ (msize m <= 4 * list_sum (map (fun e => length (e_text e)) es))%nat).
      { unfold es. clear es. revert GM NS KN. clear NEm SH. induction IH as [|kv t [RK RV] _ IHt]; intros GM NS KN.
        - split; [constructor|]. split; [reflexivity|]. split; unfold msize; simpl; lia.
        - simpl in GM, NS. apply andb_true_iff in GM as [Gkv GM]. apply andb_true_iff in Gkv as [Gk Gv].
          apply andb_true_iff in NS as [NK NS].
          destruct (IHt GM NS (fun kv' I => KN kv' (or_intror I))) as (A & B & C & D).
          destruct (stripped_key (fst kv) n Gk (KN kv (or_introl eq_refl))) as (EK & LK & _ & BK).
          destruct (RV Gv) as (EV & LV).
          assert (BK' : ns_key n (bare (fst kv)) = fst kv).
          { revert NK BK. destruct (fst kv); intros NK BK; try exact BK. destruct meta; [discriminate|exact BK]. }
          assert (VK : vsize (fst kv) = 1%nat).
          { pose proof (KN kv (or_introl eq_refl)) as KK. revert NK KK.
            destruct (fst kv); intros NK KK; try reflexivity; try discriminate.
            destruct meta; [discriminate|reflexivity]. }
          repeat split.
          + constructor; [split; assumption|exact A].
          + cbn [map]. f_equal; [|exact B]. unfold e_pair. cbn [fst snd]. rewrite BK'. destruct kv; reflexivity.
          + cbn [map list_sum fold_right]. unfold e_sz at 1. cbn [fst snd]. unfold msize in *. cbn [map list_sum fold_right]. rewrite VK. unfold list_sum in *. lia.
          + cbn [map list_sum fold_right]. unfold e_text at 1. cbn [fst snd]. unfold msize in *. cbn [map list_sum fold_right].
            rewrite app_length. cbn [length]. rewrite VK. unfold list_sum in *. lia. }
      destruct OK as (OK & EM & SZ & LEN).
      assert (TX : map (fun kv => pr pc true (fst kv) ++ 32 :: pr pc false (snd kv)) m = map e_text es).
      { unfold es. rewrite map_map. reflexivity. }
      cbn [is_some]. rewrite TX. split.
      + repeat split.
        * exists 35, (58 :: n ++ 123 :: join comma_sp (map e_text es) ++ [125]). split; [reflexivity|vm_compute; reflexivity].
        * apply (reads_mono py_float py_dec py_imag py_uuid py_inst re_ok _ _ (2 + list_sum (map e_sz es))); [lia|].
          rewrite <- EM at 1.
          exact (reads_ns_map py_float py_dec py_imag py_uuid py_inst re_ok n es Hn OK).
        * lia.
      + simpl. rewrite !app_length. simpl. rewrite app_length. simpl.
        pose proof (join_len comma_sp (map e_text es)) as J. rewrite map_map in J. lia.
    - (* no prefix *)
      set (es := map (fun kv => ((pr pc false (fst kv), fst kv, vsize (fst kv)),
                                 (pr pc false (snd kv), snd kv, vsize (snd kv)))) m).
      assert (OK : Forall (e_ok py_float py_dec py_imag py_uuid py_inst re_ok) es
                   /\ (msize m <= 4 * list_sum (map (fun e => length (e_text e)) es))%nat).
      { unfold es. clear es NS SH. revert GM. induction IH as [|kv t [RK RV] _ IHt]; intros GM.
        - split; [cbn [map]; constructor|unfold msize; simpl; lia].
        - simpl in GM. apply andb_true_iff in GM as [Gkv GM]. apply andb_true_iff in Gkv as [Gk Gv].
          destruct (IHt GM) as (A & D). destruct (RK Gk) as (EK & LK). destruct (RV Gv) as (EV & LV).
          split.
          + constructor; [split; assumption|exact A].
          + cbn [map list_sum fold_right]. unfold e_text at 1. cbn [fst snd]. unfold msize in *. cbn [map list_sum fold_right].
            rewrite app_length. cbn [length]. unfold list_sum in *. lia. }
      destruct OK as (OK & LEN).
      assert (EM : map e_pair es = m).
      { unfold es. rewrite map_map. unfold e_pair. cbn [fst snd]. clear. induction m as [|[k v] t IH]; [reflexivity|].
        simpl. rewrite IH. reflexivity. }
      assert (SZ : list_sum (map e_sz es) = msize m).
      { unfold es, msize. rewrite map_map. reflexivity. }
      assert (TX : map (fun kv => pr pc false (fst kv) ++ 32 :: pr pc false (snd kv)) m = map e_text es).
      { unfold es. rewrite map_map. reflexivity. }
      cbn [is_some]. rewrite TX. simpl app. split.
      + repeat split.
        * exists 123, (join comma_sp (map e_text es) ++ [125]). split; [reflexivity|vm_compute; reflexivity].
        * rewrite <- SZ. rewrite <- EM at 1.
          exact (reads_plain_map py_float py_dec py_imag py_uuid py_inst re_ok es OK).
        * lia.
      + simpl. rewrite app_length. simpl.
        pose proof (join_len comma_sp (map e_text es)) as J. rewrite map_map in J. lia.
  Qed.

  (** ** a form with its metadata *)
  Lemma gmeta_inv meta :
    (match meta with
     | Some mm => p_meta pc && (forallb (fun kv => G (fst kv) && G (snd kv)) mm && nsmap_ok pc mm)
     | None => true
     end) = true ->
    match meta with
    | Some mm => p_meta pc = true /\ forallb (fun kv => G (fst kv) && G (snd kv)) mm = true /\ nsmap_ok pc mm = true
    | None => True
    end.
  Proof.
    destruct meta as [mm|]; [|trivial]. intro H. apply andb_true_iff in H as [A B]. apply andb_true_iff in B as [B C]. auto.
  Qed.

  Lemma with_meta meta ctext core v szc :
    Po RT meta ->
    (match meta with
     | Some mm => p_meta pc = true /\ forallb (fun kv => G (fst kv) && G (snd kv)) mm = true /\ nsmap_ok pc mm = true
     | None => True
     end) ->
    elem_ok ctext core szc -> (szc <= 4 * length ctext)%nat ->
    (match meta with Some mm => attach_meta mm core = ROk v | None => core = v end) ->
    elem_ok (metapfx pc meta ++ ctext) v (szc + mzsize meta)
    /\ (szc + mzsize meta <= 4 * length (metapfx pc meta ++ ctext))%nat.
  Proof.
    intros IH GM (HC & RC & LC) LEN AT. destruct meta as [mm|].
    - destruct GM as (PM & GMM & NS). destruct (map_core mm IH GMM NS) as ((HM & RM & LM) & LENM).
      unfold metapfx. rewrite PM. cbn [mzsize]. split.
      + repeat split.
        * exists 94, ((mapbody pc mm ++ [32]) ++ ctext). split; [reflexivity|vm_compute; reflexivity].
        * simpl app. rewrite <- app_assoc.
          apply (reads_mono py_float py_dec py_imag py_uuid py_inst re_ok _ _ (S ((2 + msize mm) + szc))); [lia|].
          exact (reads_meta py_float py_dec py_imag py_uuid py_inst re_ok (mapbody pc mm) mm ctext core v _ _ HM HC RM RC AT).
        * lia.
      + simpl. rewrite !app_length. simpl. lia.
    - subst v. simpl. rewrite Nat.add_0_r. repeat split; auto.
  Qed.

  (** ** the induction *)
  Lemma elems_ok l : Forall RT l -> forallb G l = true ->
    Forall (fun e => elem_ok (fst (fst e)) (snd (fst e)) (snd e)) (map (fun v => (pr pc false v, v, vsize v)) l)
    /\ (list_sum (map vsize l) <= 4 * list_sum (map (fun v => length (pr pc false v)) l))%nat.
  Proof.
    intros IH. induction IH as [|v t RV _ IHt]; intro GL; [split; [constructor|simpl; lia]|].
    simpl in GL. apply andb_true_iff in GL as [Gv Gt]. destruct (IHt Gt) as (A & B). destruct (RV Gv) as (EV & LV).
    split; [constructor; [exact EV|exact A]|simpl; lia].
  Qed.

  Lemma seq_core k l : plain_kind k = true -> Forall RT l -> forallb G l = true ->
    elem_ok (open_of k ++ join sp (map (pr pc false) l) ++ [close_of k]) (VSeq k l None) (2 + list_sum (map vsize l))
    /\ (4 + list_sum (map vsize l) <= 4 * length (open_of k ++ join sp (map (pr pc false) l) ++ [close_of k]))%nat.
  Proof.
    intros PK IH GL. destruct (elems_ok l IH GL) as (OK & LEN).
    pose proof (reads_plain_seq py_float py_dec py_imag py_uuid py_inst re_ok k _ PK OK) as R.
    rewrite !map_map in R. cbn [fst snd] in R. rewrite map_id in R.
    split.
    - repeat split; [|exact R|lia]. destruct k; try discriminate; eexists _, _; (split; [reflexivity|vm_compute; reflexivity]).
    - rewrite !app_length. pose proof (join_len sp (map (pr pc false) l)) as J. rewrite map_map in J.
      assert (1 <= length (open_of k))%nat by (destruct k; simpl; lia). simpl length at 3. lia.
  Qed.

  Lemma inner_seq k : { k' | plain_kind k' = true /\ (plain_kind k = true -> k' = k) }.
  Proof.
    destruct k; [exists KList|exists KVec|exists KSet|exists KList|exists KVec|exists KList|exists KSet];
      split; try reflexivity; try discriminate; intros _; reflexivity.
  Qed.

  Theorem RT_all v : RT v.
  Proof.
    induction v using value_ind'.
    - apply RT_leaf; assumption.
    - (* symbols *)
      intro Gv. simpl in Gv. apply andb_true_iff in Gv as [SO GM]. apply gmeta_inv in GM.
      unfold sym_ok3 in SO. apply andb_true_iff in SO as [SO RS]. apply andb_true_iff in SO as [SO DN].
      apply andb_true_iff in SO as [SO DQ]. apply andb_true_iff in SO as [H1 H2]. apply negb_true_iff in RS.
      destruct (qualified_head ns nm H1 H2) as (c & t & E & Sc & D). destruct (safe_kind c Sc) as (HO & _ & _).
      rewrite pr_sym, vsize_sym.
      apply (with_meta meta (qualified ns nm) (VSym ns nm None) (VSym ns nm meta) 1 H GM).
      + repeat split; [exists c, t; auto| |lia].
        apply (reads_sym py_float py_dec py_imag py_uuid py_inst re_ok ns nm); auto.
      + rewrite E. simpl. lia.
      + destruct meta; reflexivity.
    - (* sequences *)
      intro Gv. simpl in Gv. apply andb_true_iff in Gv as [GL GM].
      rewrite pr_seq, vsize_seq.
      destruct k.
      + apply gmeta_inv in GM. destruct (seq_core KList l eq_refl H GL) as (A & B).
        replace (3 + list_sum (map vsize l) + mzsize meta)%nat with ((3 + list_sum (map vsize l)) + mzsize meta)%nat by lia.
        apply (with_meta meta _ (VSeq KList l None) (VSeq KList l meta) _ H0 GM).
        * destruct A as (A1 & A2 & A3). repeat split; [exact A1| |lia].
          apply (reads_mono py_float py_dec py_imag py_uuid py_inst re_ok _ _ _ _ (Nat.le_succ_diag_r _) A2).
        * lia.
        * destruct meta; reflexivity.
      + apply gmeta_inv in GM. destruct (seq_core KVec l eq_refl H GL) as (A & B).
        apply (with_meta meta _ (VSeq KVec l None) (VSeq KVec l meta) _ H0 GM).
        * destruct A as (A1 & A2 & A3). repeat split; [exact A1| |lia].
          apply (reads_mono py_float py_dec py_imag py_uuid py_inst re_ok _ _ _ _ (Nat.le_succ_diag_r _) A2).
        * lia.
        * destruct meta; reflexivity.
      + apply gmeta_inv in GM. destruct (seq_core KSet l eq_refl H GL) as (A & B).
        apply (with_meta meta _ (VSeq KSet l None) (VSeq KSet l meta) _ H0 GM).
        * destruct A as (A1 & A2 & A3). repeat split; [exact A1| |lia].
          apply (reads_mono py_float py_dec py_imag py_uuid py_inst re_ok _ _ _ _ (Nat.le_succ_diag_r _) A2).
        * lia.
        * destruct meta; reflexivity.
      + (* queue *)
        apply gmeta_inv in GM. destruct (seq_core KList l eq_refl H GL) as ((A1 & A2 & A3) & B).
        change (open_of KQueue ++ join sp (map (pr pc false) l) ++ [close_of KQueue])
          with (t_queue ++ (open_of KList ++ join sp (map (pr pc false) l) ++ [close_of KList])).
        apply (with_meta meta _ (VSeq KQueue l None) (VSeq KQueue l meta) _ H0 GM).
        * repeat split; [eexists _, _; split; [reflexivity|vm_compute; reflexivity]| |lia].
          exact (reads_queue py_float py_dec py_imag py_uuid py_inst re_ok _ (VSeq KList l None) (VSeq KQueue l None) _ A1 A2 eq_refl).
        * rewrite ?app_length in B. rewrite ?app_length. cbn [length t_queue t_py open_of app] in *. rewrite ?app_length in *. cbn [length] in *. lia.
        * destruct meta; reflexivity.
      + (* #py [ ] *)
        destruct meta; [discriminate|]. destruct (seq_core KVec l eq_refl H GL) as ((A1 & A2 & A3) & B).
        change (open_of KPyList ++ join sp (map (pr pc false) l) ++ [close_of KPyList])
          with (t_py ++ (open_of KVec ++ join sp (map (pr pc false) l) ++ [close_of KVec])).
        simpl app at 1. cbn [mzsize]. rewrite Nat.add_0_r. split.
        * repeat split; [eexists _, _; split; [reflexivity|vm_compute; reflexivity]| |lia].
          exact (reads_py py_float py_dec py_imag py_uuid py_inst re_ok _ (VSeq KVec l None) (VSeq KPyList l None) _ A1 A2 eq_refl).
        * rewrite ?app_length in B. rewrite ?app_length. cbn [length t_queue t_py open_of app] in *. rewrite ?app_length in *. cbn [length] in *. lia.
      + destruct meta; [discriminate|]. destruct (seq_core KList l eq_refl H GL) as ((A1 & A2 & A3) & B).
        change (open_of KPyTuple ++ join sp (map (pr pc false) l) ++ [close_of KPyTuple])
          with (t_py ++ (open_of KList ++ join sp (map (pr pc false) l) ++ [close_of KList])).
        simpl app at 1. cbn [mzsize]. rewrite Nat.add_0_r. split.
        * repeat split; [eexists _, _; split; [reflexivity|vm_compute; reflexivity]| |lia].
          exact (reads_py py_float py_dec py_imag py_uuid py_inst re_ok _ (VSeq KList l None) (VSeq KPyTuple l None) _ A1 A2 eq_refl).
        * rewrite ?app_length in B. rewrite ?app_length. cbn [length t_queue t_py open_of app] in *. rewrite ?app_length in *. cbn [length] in *. lia.
      + destruct meta; [discriminate|]. destruct (seq_core KSet l eq_refl H GL) as ((A1 & A2 & A3) & B).
        change (open_of KPySet ++ join sp (map (pr pc false) l) ++ [close_of KPySet])
          with (t_py ++ (open_of KSet ++ join sp (map (pr pc false) l) ++ [close_of KSet])).
        simpl app at 1. cbn [mzsize]. rewrite Nat.add_0_r. split.
        * repeat split; [eexists _, _; split; [reflexivity|vm_compute; reflexivity]| |lia].
          exact (reads_py py_float py_dec py_imag py_uuid py_inst re_ok _ (VSeq KSet l None) (VSeq KPySet l None) _ A1 A2 eq_refl).
        * rewrite ?app_length in B. rewrite ?app_length. cbn [length t_queue t_py open_of app] in *. rewrite ?app_length in *. cbn [length] in *. lia.
    - (* maps *)
      intro Gv. simpl in Gv. apply andb_true_iff in Gv as [GMm GM]. apply andb_true_iff in GMm as [GE NS].
      destruct (map_core m H GE NS) as ((A1 & A2 & A3) & B).
      rewrite pr_map, vsize_map. destruct py.
      + destruct meta; [discriminate|]. cbn [mzsize]. rewrite Nat.add_0_r. split.
        * repeat split; [eexists _, _; split; [reflexivity|vm_compute; reflexivity]| |lia].
          exact (reads_py py_float py_dec py_imag py_uuid py_inst re_ok _ (VMap false m None) (VMap true m None) _ A1 A2 eq_refl).
        * rewrite ?app_length in B. rewrite ?app_length. cbn [length t_queue t_py open_of app] in *. rewrite ?app_length in *. cbn [length] in *. lia.
      + apply gmeta_inv in GM.
        apply (with_meta meta _ (VMap false m None) (VMap false m meta) _ H0 GM).
        * repeat split; [exact A1| |lia].
          apply (reads_mono py_float py_dec py_imag py_uuid py_inst re_ok _ _ _ _ (Nat.le_succ_diag_r _) A2).
        * lia.
        * destruct meta; reflexivity.
  Qed.

  (** ** the whole text *)
  Notation read_text := (read_text py_float py_dec py_imag py_uuid py_inst re_ok).
  Notation read_all := (read_all py_float py_dec py_imag py_uuid py_inst re_ok).

  Theorem roundtrip v : G v = true -> read_text (print pc v) = ROk [v].
  Proof.
    intro Gv. destruct (RT_all v Gv) as (((c & t & E & HO) & R & _) & L).
    unfold read_text, print.
    pose proof (R (4 * length (pr pc false v) + 4)%nat [] eq_refl) as R'. rewrite app_nil_r in R'.
    assert (F : (vsize v <= 4 * length (pr pc false v) + 4)%nat) by lia. specialize (R' F).
    set (fuel := (4 * length (pr pc false v) + 4)%nat) in *.
    assert (DW : drop_ws (pr pc false v) = pr pc false v) by (rewrite E; apply drop_ws_head, head_ok_ws, HO).
    transitivity (match drop_ws (pr pc false v) with
                  | [] => ROk []
                  | l' => bind (read_next fuel l')
                            (fun '(v0, r) => read_all (length (pr pc false v)) fuel r ([] ++ [v0]))
                  end); [reflexivity|].
    rewrite DW. rewrite E at 1. rewrite <- E. rewrite R'. cbn [bind].
    rewrite E at 1. reflexivity.
  Qed.
End Main.
