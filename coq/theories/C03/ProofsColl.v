(** C03 proofs, part 6: byte strings, collections, maps, tagged collections and metadata, each
    GIVEN that the elements round-trip (the induction itself is in ProofsMain). *)
From Coq Require Import List NArith ZArith Bool Lia.
Import ListNotations.
From Verif Require Import Common.ListX Gen.Prims Gen.Tables C19.Bencode C19.BencodeProofs C19.Edn C19.EdnProofs.
From Verif Require Import C03.Printer C03.ReadBack C03.Guard C03.ProofsBase C03.ProofsNum C03.ProofsFloat C03.ProofsTok
  C03.ProofsLeaf.
Local Open Scope N_scope.

(** * Top-level names for the local definitions of [pr] *)
Definition mapbody (pc : pctl) (m : list (value * value)) : str :=
  let sh := if p_nsmaps pc then shared_ns m else None in
  (match sh with Some n => 35 :: 58 :: n | None => [] end)
  ++ 123 :: join comma_sp (map (fun kv => pr pc (is_some sh) (fst kv) ++ 32 :: pr pc false (snd kv)) m)
  ++ [125].
Definition metapfx (pc : pctl) (meta : option (list (value * value))) : str :=
  match meta with
  | Some mm => if p_meta pc then 94 :: mapbody pc mm ++ [32] else []
  | None => []
  end.

Lemma pr_sym pc ns nm meta : pr pc false (VSym ns nm meta) = metapfx pc meta ++ qualified ns nm.
Proof. reflexivity. Qed.
Lemma pr_seq pc k l meta : pr pc false (VSeq k l meta) =
  (if has_meta k then metapfx pc meta else []) ++ open_of k ++ join sp (map (pr pc false) l) ++ [close_of k].
Proof. reflexivity. Qed.
Lemma pr_map pc py m meta : pr pc false (VMap py m meta) = (if py then t_py else metapfx pc meta) ++ mapbody pc m.
Proof. reflexivity. Qed.

(** * Byte strings *)
Definition br_shape_ok (q c : N) : bool :=
  match br_char q c with
  | [x] => (x =? c) && negb ((x <? 1) || (127 <? x)) && negb (x =? 92) && negb (x =? 34)
  | [b; e] => (b =? 92) && match assoc e rd_bytes_escapes with Some r => r =? c | None => false end
  | [b; x; h1; h2] => (b =? 92) && (x =? 120) && is_none (assoc 120 rd_bytes_escapes)
                      && is_hex h1 && is_hex h2 && (16 * hexval h1 + hexval h2 =? c)
  | _ => false
  end.

Lemma br_all_34 : forallb (fun c => (c =? 34) || br_shape_ok 34 c) (map N.of_nat (seq 0 256)) = true.
Proof. vm_compute. reflexivity. Qed.
Lemma br_all_39 : forallb (fun c => (c =? 34) || (c =? 39) || br_shape_ok 39 c) (map N.of_nat (seq 0 256)) = true.
Proof. vm_compute. reflexivity. Qed.

Lemma br_shape q c : (q = 34 \/ q = 39) -> c <? 256 = true -> c <> 34 -> c <> q -> br_shape_ok q c = true.
Proof.
  intros Hq L N34 Nq. apply N.ltb_lt in L. destruct Hq as [->| ->].
  - pose proof (range_reflect _ 0 256 br_all_34 c) as F. cbv beta in F.
    assert (X : (c =? 34) || br_shape_ok 34 c = true) by (apply F; simpl; lia).
    apply orb_true_iff in X as [X|X]; [apply N.eqb_eq in X; congruence|exact X].
  - pose proof (range_reflect _ 0 256 br_all_39 c) as F. cbv beta in F.
    assert (X : (c =? 34) || (c =? 39) || br_shape_ok 39 c = true) by (apply F; simpl; lia).
    apply orb_true_iff in X as [X|X]; [apply orb_true_iff in X as [X|X]; apply N.eqb_eq in X; congruence|exact X].
Qed.

Lemma br_char_read q c t acc : br_shape_ok q c = true ->
  read_bytes_body (br_char q c ++ t) acc = read_bytes_body t (acc ++ [c]).
Proof.
  unfold br_shape_ok. destruct (br_char q c) as [|x [|e [|h1 [|h2 [|? ?]]]]]; try discriminate; intro H.
  - apply andb_true_iff in H as [H N34]. apply andb_true_iff in H as [H N92]. apply andb_true_iff in H as [Ex R].
    apply N.eqb_eq in Ex. subst x. apply negb_true_iff in N34, N92, R.
    cbn [app read_bytes_body]. rewrite R, N92, N34. reflexivity.
  - apply andb_true_iff in H as [Eb H]. apply N.eqb_eq in Eb. subst x.
    destruct (assoc e rd_bytes_escapes) as [r|] eqn:A; [|discriminate]. apply N.eqb_eq in H. subst r.
    cbn [app read_bytes_body]. change ((92 <? 1) || (127 <? 92)) with false. change (92 =? 92) with true. cbv iota.
    rewrite A. reflexivity.
  - repeat (apply andb_true_iff in H as [H ?]). apply N.eqb_eq in H, H4, H0. subst x e.
    cbn [app read_bytes_body]. change ((92 <? 1) || (127 <? 92)) with false. change (92 =? 92) with true. cbv iota.
    destruct (assoc 120 rd_bytes_escapes); [discriminate|]. change (120 =? 120) with true. cbv iota.
    rewrite H2, H1. cbn [andb]. rewrite H0. reflexivity.
Qed.

Lemma read_bytes_repr q b : (q = 34 \/ q = 39) ->
  forallb (fun c => (c <? 256) && negb (c =? 34) && negb (c =? q)) b = true ->
  forall acc rest, read_bytes_body (flat_map (br_char q) b ++ 34 :: rest) acc = ROk (acc ++ b, rest).
Proof.
  intros Hq. induction b as [|c t IH]; intros H acc rest.
  - simpl. rewrite app_nil_r. reflexivity.
  - simpl in H. apply andb_true_iff in H as [Hc Ht]. apply andb_true_iff in Hc as [Hc Nq].
    apply andb_true_iff in Hc as [L N34]. apply negb_true_iff, N.eqb_neq in Nq, N34.
    simpl flat_map. rewrite <- app_assoc, (br_char_read q c _ acc (br_shape q c Hq L N34 Nq)), (IH Ht), <- app_assoc.
    reflexivity.
Qed.

Lemma mem_false_forall c l : mem c l = false -> forallb (fun x => negb (x =? c)) l = true.
Proof.
  unfold mem. induction l as [|x t IH]; [reflexivity|]. simpl. intro H. apply orb_false_iff in H as [A B].
  rewrite N.eqb_sym, A. simpl. apply IH, B.
Qed.

Lemma bytes_guard_quote b : bytes_ok b = true ->
  (bytes_quote b = 34 \/ bytes_quote b = 39)
  /\ forallb (fun c => (c <? 256) && negb (c =? 34) && negb (c =? bytes_quote b)) b = true.
Proof.
  unfold bytes_ok, bytes_quote. intro H. apply andb_true_iff in H as [N34 L]. apply negb_true_iff in N34.
  rewrite N34. cbn [negb]. rewrite andb_true_r. pose proof (mem_false_forall 34 b N34) as F34.
  destruct (mem 39 b) eqn:M39.
  - split; [left; reflexivity|]. rewrite forallb_forall in *. intros x I. rewrite (L x I), (F34 x I). reflexivity.
  - split; [right; reflexivity|]. pose proof (mem_false_forall 39 b M39) as F39.
    rewrite forallb_forall in *. intros x I. rewrite (L x I), (F34 x I), (F39 x I). reflexivity.
Qed.

Section Coll.
  Variable py_float py_dec py_imag py_uuid py_inst : str -> option str.
  Variable re_ok : str -> bool.
  Notation read_next := (read_next py_float py_dec py_imag py_uuid py_inst re_ok).
  Notation read_coll := (read_coll py_float py_dec py_imag py_uuid py_inst re_ok).
  Notation reads := (reads py_float py_dec py_imag py_uuid py_inst re_ok).
  Variable pc : pctl.

  Lemma reads_bytes b : bytes_ok b = true -> reads (t_bytes ++ bytes_repr_body b ++ [34]) (VBytes b) 1.
  Proof.
    intros G f rest R F. destruct f as [|f]; [lia|].
    destruct (bytes_guard_quote b G) as [Hq Hb].
    unfold t_bytes, bytes_repr_body. simpl app. rewrite <- app_assoc. simpl app.
    transitivity (bind (read_bytes_body (flat_map (br_char (bytes_quote b)) b ++ 34 :: rest) [])
                       (fun '(b0, r'') => ROk (VBytes b0, r''))); [reflexivity|].
    rewrite (read_bytes_repr _ b Hq Hb). reflexivity.
  Qed.

  (** * Items: separator, text, the value the text reads as, fuel *)
  Record item := Item { i_sep : str; i_text : str; i_val : value; i_sz : nat }.
  Definition item_ok (i : item) : Prop :=
    (i_sep i = [32] \/ i_sep i = [44; 32])
    /\ (exists c t, i_text i = c :: t /\ head_ok c = true)
    /\ reads (i_text i) (i_val i) (i_sz i) /\ (1 <= i_sz i)%nat.
  Definition body (items : list item) : str := concat (map (fun i => i_sep i ++ i_text i) items).

  Lemma drop_ws_idem l : drop_ws (drop_ws l) = drop_ws l.
  Proof. induction l as [|c t IH]; [reflexivity|]. simpl. destruct (is_ws c) eqn:W; [exact IH|]. simpl. rewrite W. reflexivity. Qed.

  Lemma read_coll_drop f close l acc : read_coll f close l acc = read_coll f close (drop_ws l) acc.
  Proof. destruct f; [reflexivity|]. cbn [ReadBack.read_coll]. rewrite drop_ws_idem. reflexivity. Qed.

  Lemma read_coll_sep f close w X acc : (w = [32] \/ w = [44; 32]) ->
    read_coll f close (w ++ X) acc = read_coll f close X acc.
  Proof.
    intros [->| ->]; rewrite (read_coll_drop f close (_ ++ X)), (read_coll_drop f close X); reflexivity.
  Qed.

  Definition is_closer (c : N) : bool := mem c [41; 93; 125].
  Lemma closer_facts' close : is_closer close = true ->
    is_ws close = false /\ rest_ok [close] = true /\ head_ok close = false.
  Proof.
    unfold is_closer. simpl. rewrite !orb_false_r. intro H.
    repeat (apply orb_true_iff in H as [H|H]); apply N.eqb_eq in H; subst; vm_compute; auto.
  Qed.

  Lemma rest_ok_body items close rest : Forall item_ok items -> is_closer close = true ->
    rest_ok (body items ++ close :: rest) = true.
  Proof.
    intros HF C. destruct items as [|i more].
    - simpl. destruct (closer_facts' close C) as (_ & R & _). exact R.
    - inversion HF as [|? ? (Hs & _) _]; subst. unfold body. simpl.
      destruct Hs as [->| ->]; reflexivity.
  Qed.

  Lemma read_coll_step f close c t acc : is_ws c = false -> (c =? close) = false ->
    read_coll (S f) close (c :: t) acc =
    bind (read_next f (c :: t)) (fun '(v, r) => read_coll f close r (acc ++ [v])).
  Proof. intros W C. cbn [ReadBack.read_coll drop_ws]. rewrite W, C. reflexivity. Qed.

  Lemma read_coll_close f close t acc : is_ws close = false ->
    read_coll (S f) close (close :: t) acc = ROk (acc, t).
  Proof. intro W. cbn [ReadBack.read_coll drop_ws]. rewrite W, N.eqb_refl. reflexivity. Qed.

  Lemma read_items items : Forall item_ok items ->
    forall f acc rest close, is_closer close = true ->
    (1 + list_sum (map i_sz items) <= f)%nat ->
    read_coll f close (body items ++ close :: rest) acc = ROk (acc ++ map i_val items, rest).
  Proof.
    induction items as [|i more IH]; intros HF f acc rest close C L.
    - destruct f as [|f]; [simpl in L; lia|]. destruct (closer_facts' close C) as (W & _).
      change (body [] ++ close :: rest) with (close :: rest). rewrite (read_coll_close f close rest acc W).
      simpl. rewrite app_nil_r. reflexivity.
    - inversion HF as [|? ? Hi Hm]; subst. destruct Hi as (Hs & (c & t & Et & HO) & Hr & Hz).
      destruct f as [|f]; [simpl in L; lia|].
      unfold body. simpl map. simpl concat. fold (body more). rewrite <- !app_assoc.
      rewrite (read_coll_sep (S f) close (i_sep i) _ acc Hs).
      pose proof (head_ok_ws c HO) as W.
      assert (CC : (c =? close) = false).
      { apply N.eqb_neq. intro X. subst c. destruct (closer_facts' close C) as (_ & _ & HN). congruence. }
      rewrite Et. simpl app. rewrite (read_coll_step f close c _ acc W CC).
      change (c :: t ++ body more ++ close :: rest) with ((c :: t) ++ body more ++ close :: rest).
      rewrite <- Et. simpl in L.
      rewrite (Hr f (body more ++ close :: rest) (rest_ok_body more close rest Hm C)) by lia.
      cbn [bind]. rewrite (IH Hm f (acc ++ [i_val i]) rest close C) by lia.
      rewrite <- app_assoc. reflexivity.
  Qed.

  (** [join] as a body: one more separator in front *)
  Lemma join_body sepr (texts : list str) : texts <> [] ->
    sepr ++ join sepr texts = concat (map (fun t => sepr ++ t) texts).
  Proof.
    induction texts as [|x t IH]; [congruence|]. intros _. destruct t as [|y t'].
    - simpl. rewrite !app_nil_r. reflexivity.
    - change (join sepr (x :: y :: t')) with (x ++ sepr ++ join sepr (y :: t')).
      rewrite IH by discriminate. simpl. rewrite <- !app_assoc. reflexivity.
  Qed.

  Lemma read_coll_join f close (items : list item) rest acc sepr :
    (sepr = [32] \/ sepr = [44; 32]) -> Forall (fun i => i_sep i = sepr) items ->
    read_coll f close (join sepr (map i_text items) ++ close :: rest) acc =
    read_coll f close (body items ++ close :: rest) acc.
  Proof.
    intros Hs HF. destruct items as [|i more]; [reflexivity|].
    rewrite <- (read_coll_sep f close sepr (join sepr _ ++ _) acc Hs), app_assoc.
    rewrite join_body by discriminate. f_equal. f_equal. unfold body. rewrite map_map.
    clear - HF. induction HF as [|j l E _ IH]; [reflexivity|]. simpl. rewrite E, IH. reflexivity.
  Qed.

  (** ** the three bracketed sequences *)
  Definition plain_kind (k : skind) : bool := match k with KList | KVec | KSet => true | _ => false end.

  Lemma next_open f k X : plain_kind k = true ->
    read_next (S f) (open_of k ++ X) = bind (read_coll f (close_of k) X []) (fun '(vs, r) => ROk (VSeq k vs None, r)).
  Proof. destruct k; try discriminate; reflexivity. Qed.

  Definition elem_ok (text : str) (x : value) (sz : nat) : Prop :=
    (exists c t, text = c :: t /\ head_ok c = true) /\ reads text x sz /\ (1 <= sz)%nat.

  Lemma reads_plain_seq k (l : list (str * value * nat)) : plain_kind k = true ->
    Forall (fun e => elem_ok (fst (fst e)) (snd (fst e)) (snd e)) l ->
    reads (open_of k ++ join sp (map (fun e => fst (fst e)) l) ++ [close_of k])
          (VSeq k (map (fun e => snd (fst e)) l) None) (2 + list_sum (map snd l)).
  Proof.
    intros PK HF f rest R L. destruct f as [|f]; [lia|].
    rewrite <- !app_assoc. rewrite (next_open f k _ PK). simpl app.
    set (items := map (fun e => Item [32] (fst (fst e)) (snd (fst e)) (snd e)) l).
    assert (T : map (fun e => fst (fst e)) l = map i_text items) by (unfold items; rewrite map_map; reflexivity).
    assert (V : map (fun e => snd (fst e)) l = map i_val items) by (unfold items; rewrite map_map; reflexivity).
    assert (Z : map snd l = map i_sz items) by (unfold items; rewrite map_map; reflexivity).
    assert (OK : Forall item_ok items).
    { unfold items. clear - HF. induction HF as [|e l (Hh & Hr & Hz) _ IH]; [constructor|].
      simpl. constructor; [|exact IH]. repeat split; auto. }
    assert (SP : Forall (fun i => i_sep i = sp) items).
    { unfold items. clear. induction l; simpl; constructor; auto. }
    rewrite T, (read_coll_join f (close_of k) items rest [] sp (or_introl eq_refl) SP).
    rewrite (read_items items OK f [] rest (close_of k)); [|destruct k; try discriminate; reflexivity|rewrite <- Z; lia].
    rewrite V. reflexivity.
  Qed.

  (** ** maps *)
  Lemma pairs_of_flat (m : list (value * value)) :
    pairs_of (concat (map (fun kv => [fst kv; snd kv]) m)) = Some m.
  Proof. induction m as [|[k v] m IH]; [reflexivity|]. simpl. simpl in IH. rewrite IH. reflexivity. Qed.

  Lemma next_map f X : read_next (S f) (123 :: X) = bind (read_coll f 125 X []) (fun '(vs, r) => finish_map None vs r).
  Proof. reflexivity. Qed.

  (** entries: key text, key value read, key fuel; value text, value, fuel *)
  Definition entry := ((str * value * nat) * (str * value * nat))%type.
  Definition e_text (e : entry) : str := fst (fst (fst e)) ++ 32 :: fst (fst (snd e)).
  Definition e_items (e : entry) : list item :=
    [Item comma_sp (fst (fst (fst e))) (snd (fst (fst e))) (snd (fst e));
     Item sp (fst (fst (snd e))) (snd (fst (snd e))) (snd (snd e))].
  Definition e_ok (e : entry) : Prop :=
    elem_ok (fst (fst (fst e))) (snd (fst (fst e))) (snd (fst e))
    /\ elem_ok (fst (fst (snd e))) (snd (fst (snd e))) (snd (snd e)).
  Definition e_pair (e : entry) : value * value := (snd (fst (fst e)), snd (fst (snd e))).
  Definition e_sz (e : entry) : nat := (snd (fst e) + snd (snd e))%nat.

  Lemma read_entries f (es : list entry) rest acc : Forall e_ok es ->
    (1 + list_sum (map e_sz es) <= f)%nat ->
    read_coll f 125 (join comma_sp (map e_text es) ++ 125 :: rest) acc =
    ROk (acc ++ concat (map (fun e => [fst (e_pair e); snd (e_pair e)]) es), rest).
  Proof.
    intros HF L.
    set (items := concat (map e_items es)).
    assert (OK : Forall item_ok items).
    { unfold items. clear - HF. induction HF as [|e l ((Hh1 & Hr1 & Hz1) & (Hh2 & Hr2 & Hz2)) _ IH]; [constructor|].
      simpl. constructor; [|constructor; [|exact IH]].
      - repeat split; auto.
      - repeat split; auto. }
    assert (B : forall X, read_coll f 125 (join comma_sp (map e_text es) ++ X) acc = read_coll f 125 (body items ++ X) acc).
    { intro X. destruct es as [|e more]; [reflexivity|].
      rewrite <- (read_coll_sep f 125 comma_sp (join comma_sp _ ++ _) acc (or_intror eq_refl)), app_assoc.
      rewrite join_body by discriminate. f_equal. f_equal. unfold items, body. clear.
      generalize (e :: more) as l0. intro l0.
      induction l0 as [|x l IH]; [reflexivity|]. simpl. simpl in IH. rewrite IH. unfold e_text, comma_sp, sp.
      simpl. rewrite <- !app_assoc. reflexivity. }
    rewrite B. rewrite (read_items items OK f acc rest 125 eq_refl).
    - f_equal. f_equal. f_equal. unfold items. clear. induction es as [|e l IH]; [reflexivity|]. simpl. rewrite IH. reflexivity.
    - assert (Z : list_sum (map i_sz items) = list_sum (map e_sz es)).
      { unfold items. clear. induction es as [|e l IH]; [reflexivity|]. simpl. rewrite IH. unfold e_sz. lia. }
      rewrite Z. exact L.
  Qed.

  Lemma map_pairs (es : list entry) : concat (map (fun e => [fst (e_pair e); snd (e_pair e)]) es)
    = concat (map (fun kv => [fst kv; snd kv]) (map e_pair es)).
  Proof. rewrite map_map. reflexivity. Qed.

  (** a map without namespace prefix *)
  Lemma reads_plain_map (es : list entry) : Forall e_ok es ->
    reads (123 :: join comma_sp (map e_text es) ++ [125]) (VMap false (map e_pair es) None)
          (2 + list_sum (map e_sz es)).
  Proof.
    intros HF f rest R L. destruct f as [|f]; [lia|]. simpl app. rewrite next_map, <- app_assoc. simpl app.
    rewrite (read_entries f es rest [] HF) by lia. simpl app. cbn [bind]. unfold finish_map.
    rewrite map_pairs, pairs_of_flat. reflexivity.
  Qed.

  (** a map with namespace prefix [n]: the entries read are those of the stripped keys *)
  Lemma reads_ns_map (n : str) (es : list entry) : name_ok n = true -> Forall e_ok es ->
    reads (35 :: 58 :: n ++ 123 :: join comma_sp (map e_text es) ++ [125])
          (VMap false (map (fun kv => (ns_key n (fst kv), snd kv)) (map e_pair es)) None)
          (2 + list_sum (map e_sz es)).
  Proof.
    intros Hn HF f rest R L. destruct f as [|f]; [lia|].
    destruct (name_ok_inv n Hn) as (c & t & E & D & S & Sc). destruct (safe_kind c Sc) as (_ & _ & N58).
    set (X := join comma_sp (map e_text es) ++ [125]).
    assert (RN : read_namespaced Lisp (n ++ 123 :: X ++ rest) = ROk ((None, n), 123 :: X ++ rest)).
    { change (n ++ 123 :: X ++ rest) with (qualified None n ++ 123 :: X ++ rest).
      apply read_namespaced_qualified'; [exact Hn|reflexivity|]. simpl. reflexivity. }
    simpl app. rewrite <- app_assoc. simpl app.
    transitivity (if starts_with 58 (n ++ 123 :: X ++ rest) then RErr 7
                  else bind (read_namespaced Lisp (n ++ 123 :: X ++ rest))
                         (fun '((kns, mns), r) =>
                            match kns with
                            | Some _ => RErr 1
                            | None => match drop_ws r with
                                      | 123 :: r' => bind (read_coll f 125 r' []) (fun '(vs, r'') => finish_map (Some mns) vs r'')
                                      | _ => RErr 1
                                      end
                            end)); [reflexivity|].
    assert (SW : starts_with 58 (n ++ 123 :: X ++ rest) = false).
    { rewrite E. simpl. apply N.eqb_neq. exact N58. }
    rewrite SW, RN. cbn [bind]. cbn [drop_ws]. change (is_ws 123) with false. cbv iota.
    unfold X. rewrite <- app_assoc. simpl app.
    rewrite (read_entries f es rest [] HF) by lia. simpl app. cbn [bind]. unfold finish_map.
    rewrite map_pairs, pairs_of_flat. reflexivity.
  Qed.

  (** ** tagged collections: #py and #queue *)
  Lemma py_tag_facts : name_ok t_s_py = true /\ reserved t_s_py = false
    /\ str_eqb t_s_py [98] = false /\ str_eqb t_s_py [102] = false.
  Proof. repeat split; reflexivity. Qed.

  Lemma reads_tagged (tag : str) text inner outer sz :
    name_ok tag = true -> reserved tag = false ->
    (exists c t, tag = c :: t /\ negb ((c =? 123) || (c =? 34) || (c =? 35) || (c =? 58) || (c =? 40) || (c =? 39)
                                       || (c =? 95) || (c =? 33) || (c =? 63)) && negb (is_ws c || is_digit c) = true) ->
    str_eqb tag [98] = false -> str_eqb tag [102] = false ->
    (exists c t, text = c :: t /\ head_ok c = true) ->
    reads text inner sz -> resolve_tag py_uuid py_inst None tag inner = ROk outer ->
    reads (35 :: tag ++ 32 :: text) outer (S sz).
  Proof.
    intros H RS HC NB NF (c0 & t0 & ET & HO) HR RT f rest R F. destruct f as [|f]; [lia|].
    simpl app. rewrite <- app_assoc. simpl app.
    assert (EX : text ++ rest = c0 :: (t0 ++ rest)) by (rewrite ET; reflexivity).
    rewrite (next_tag py_float py_dec py_imag py_uuid py_inst re_ok f tag (text ++ rest) H RS HC NB NF c0 (t0 ++ rest) EX
               (head_ok_ws c0 HO)).
    rewrite (HR f rest R) by lia. cbn [bind]. rewrite RT. reflexivity.
  Qed.

  Lemma reads_py text inner outer sz : (exists c t, text = c :: t /\ head_ok c = true) ->
    reads text inner sz -> py_from_lisp inner = ROk outer -> reads (t_py ++ text) outer (S sz).
  Proof.
    intros HH HR PY. apply (reads_tagged t_s_py text inner outer sz); try reflexivity; try assumption.
    eexists _, _. split; reflexivity.
  Qed.

  Lemma reads_queue text inner outer sz : (exists c t, text = c :: t /\ head_ok c = true) ->
    reads text inner sz -> queue_from inner = ROk outer -> reads (t_queue ++ text) outer (S sz).
  Proof.
    intros HH HR PY. apply (reads_tagged t_s_queue text inner outer sz); try reflexivity; try assumption.
    eexists _, _. split; reflexivity.
  Qed.

  (** ** metadata: caret, the map, a space, the form *)
  Lemma reads_meta mtext mm ctext core v szm szc :
    (exists c t, mtext = c :: t /\ head_ok c = true) -> (exists c t, ctext = c :: t /\ head_ok c = true) ->
    reads mtext (VMap false mm None) szm -> reads ctext core szc -> attach_meta mm core = ROk v ->
    reads (94 :: mtext ++ [32] ++ ctext) v (S (szm + szc)).
  Proof.
    intros (c1 & t1 & E1 & H1) (c2 & t2 & E2 & H2) HM HC AT f rest R F. destruct f as [|f]; [lia|].
    simpl app. rewrite <- !app_assoc. simpl app.
    assert (R1 : rest_ok (32 :: ctext ++ rest) = true) by reflexivity.
    transitivity (match drop_ws (mtext ++ 32 :: ctext ++ rest) with
                  | [] => RErr 1
                  | t1' =>
                      bind (read_next f t1')
                        (fun '(m, r) =>
                           match m with
                           | VMap false mm0 _ =>
                               match drop_ws r with
                               | [] => RErr 1
                               | r1 => bind (read_next f r1) (fun '(o, r2) => bind (attach_meta mm0 o) (fun x => ROk (x, r2)))
                               end
                           | VSym _ _ _ | VKw _ _ | VSeq KVec _ _ => RErr 7
                           | _ => RErr 1
                           end)
                  end); [reflexivity|].
    rewrite E1. simpl app. rewrite (drop_ws_head c1 _ (head_ok_ws c1 H1)).
    change (c1 :: t1 ++ 32 :: ctext ++ rest) with ((c1 :: t1) ++ 32 :: ctext ++ rest). rewrite <- E1.
    rewrite (HM f _ R1) by lia. cbn [bind]. cbn [drop_ws]. change (is_ws 32) with true. cbv iota.
    rewrite E2. simpl app. rewrite (drop_ws_head c2 _ (head_ok_ws c2 H2)).
    change (c2 :: t2 ++ rest) with ((c2 :: t2) ++ rest). rewrite <- E2.
    rewrite (HC f rest R) by lia. cbn [bind]. rewrite AT. reflexivity.
  Qed.
End Coll.
