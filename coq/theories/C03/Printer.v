(** C03, the readable printer: executable model of [basilisp.lang.obj.lrepr]
    (src/basilisp/lang/obj.py) and of the [_lrepr] methods of symbol.py, keyword.py, list.py,
    vector.py, set.py, queue.py, map.py ([map_lrepr] with namespace-prefix printing), as
    called by [runtime.lrepr] / [pr-str] with [*print-length*] = [*print-level*] = nil (the
    only settings that claim readability), on the readable universe.

    Strings are [list N] of code points.  Maps and sets are lists in the order the printer
    walks them.  What lives in CPython rather than in basilisp is a token:
      - a finite float is the text [repr] prints for it ([FTok]);
      - a [Decimal] is the text [str] prints for it;
      - an imaginary number is [repr(complex(0, x)).upper()] without the final J;
      - a UUID / instant is [str(uuid)] / [datetime.isoformat()].
    [py_unicode_escape] (used by the regex printer, and by the string printer before the repair
    fixes/C03-str-printer-literal.patch) and [bytes_repr_body] (CPython's [repr(bytes)]) are
    written out. *)
From Coq Require Import List NArith ZArith Bool Lia.
Import ListNotations.
From Verif Require Import Common.ListX Gen.Prims Gen.Tables C19.Bencode C19.Edn.
Local Open Scope N_scope.

(** ** Print control: *print-dup* *print-meta* *print-namespace-maps* *print-readably* *)
Record pctl := PC { p_dup : bool; p_meta : bool; p_nsmaps : bool; p_readably : bool }.

Inductive flt := FInf | FNegInf | FNaN | FTok (tok : str).

Inductive skind := KList | KVec | KSet | KQueue | KPyList | KPyTuple | KPySet.

Inductive value :=
| VNil
| VBool (b : bool)
| VInt (z : Z)
| VRatio (n d : Z)                       (* fractions.Fraction: d >= 2, gcd n d = 1 *)
| VFloat (f : flt)
| VDec (tok : str)                       (* decimal.Decimal, finite: the text of [str] *)
| VDecS (f : flt)                        (* Decimal Infinity / -Infinity / NaN ([FTok] unused) *)
| VImag (tok : str)                      (* complex(0, x) *)
| VStr (s : str)
| VKw (ns : option str) (nm : str)
| VSym (ns : option str) (nm : str) (meta : option (list (value * value)))
| VSeq (k : skind) (l : list value) (meta : option (list (value * value)))
| VMap (py : bool) (m : list (value * value)) (meta : option (list (value * value)))
| VTag (t : N) (s : str)                 (* 0: uuid.UUID, 1: datetime.datetime; [s] is the text printed *)
| VRegex (p : str)
| VBytes (b : list N).

(** ** Small pieces of text *)
Definition t_inf : str := [35; 35; 73; 110; 102].               (* ##Inf *)
Definition t_ninf : str := [35; 35; 45; 73; 110; 102].          (* ##-Inf *)
Definition t_nan : str := [35; 35; 78; 97; 78].                 (* ##NaN *)
Definition t_py : str := [35; 112; 121; 32].                    (* #py + space *)
Definition t_queue : str := [35; 113; 117; 101; 117; 101; 32].  (* #queue + space *)
Definition t_uuid : str := [35; 117; 117; 105; 100; 32; 34].    (* #uuid space dquote *)
Definition t_inst : str := [35; 105; 110; 115; 116; 32; 34].    (* #inst space dquote *)
Definition t_bytes : str := [35; 98; 32; 34].                   (* #b space dquote *)

Definition print_flt (f : flt) : str :=
  match f with FInf => t_inf | FNegInf => t_ninf | FNaN => t_nan | FTok tok => tok end.

(** ** Strings: [o.translate(_STR_ESCAPES)] (obj.py, after the repair); the table
    [pr_str_escapes] is regenerated from obj.py *)
Definition esc_char (c : N) : str :=
  match assoc c pr_str_escapes with Some r => r | None => [c] end.
Definition escape (s : str) : str := flat_map esc_char s.

(** ** Python's [unicode_escape] encoder (Objects/unicodeobject.c, PyUnicode_AsUnicodeEscapeString) *)
Definition hexdig (n : N) : N := if n <? 10 then 48 + n else 87 + n.       (* lower case *)
Fixpoint hexn (k : nat) (n : N) : str :=
  match k with O => [] | S k' => hexn k' (n / 16) ++ [hexdig (n mod 16)] end.

Definition ue_char (c : N) : str :=
  if c =? 9 then [92; 116] else if c =? 10 then [92; 110] else if c =? 13 then [92; 114]
  else if c =? 92 then [92; 92]
  else if (32 <=? c) && (c <? 127) then [c]                      (* printable ASCII *)
  else if c <? 256 then 92 :: 120 :: hexn 2 c                    (* \xNN *)
  else if c <? 65536 then 92 :: 117 :: hexn 4 c                  (* \uNNNN *)
  else 92 :: 85 :: hexn 8 c.                                     (* \UNNNNNNNN *)
Definition py_unicode_escape (s : str) : str := flat_map ue_char s.

(** [.replace] of the double quote by backslash double quote *)
Definition requote (s : str) : str := flat_map (fun c => if c =? 34 then [92; 34] else [c]) s.

(** the string printer before the repair, kept for the record of F-03a / F-03b *)
Definition escape_legacy (s : str) : str := requote (py_unicode_escape s).

(** ** CPython's [repr(bytes)] without the b and the quotes (Objects/bytesobject.c,
    PyBytes_Repr): the quote is the double quote exactly when the bytes contain a single
    quote and no double quote *)
Definition bytes_quote (b : list N) : N :=
  if mem 39 b && negb (mem 34 b) then 34 else 39.
Definition br_char (q : N) (c : N) : str :=
  if (c =? q) || (c =? 92) then [92; c]
  else if c =? 9 then [92; 116] else if c =? 10 then [92; 110] else if c =? 13 then [92; 114]
  else if (c <? 32) || (127 <=? c) then 92 :: 120 :: hexn 2 c
  else [c].
Definition bytes_repr_body (b : list N) : str := flat_map (br_char (bytes_quote b)) b.

(** ** Collections *)
Definition has_meta (k : skind) : bool :=
  match k with KList | KVec | KSet | KQueue => true | _ => false end.

Definition open_of (k : skind) : str :=
  match k with
  | KList => [40] | KVec => [91] | KSet => [35; 123]
  | KQueue => t_queue ++ [40]
  | KPyList => t_py ++ [91] | KPyTuple => t_py ++ [40] | KPySet => t_py ++ [35; 123]
  end.
Definition close_of (k : skind) : N :=
  match k with
  | KList | KQueue | KPyTuple => 41
  | KVec | KPyList => 93
  | KSet | KPySet => 125
  end.

(** [SEQ_PRINT_SEPARATOR.join] and [MAP_PRINT_SEPARATOR.join] *)
Fixpoint join (sep : str) (ws : list str) : str :=
  match ws with
  | [] => []
  | x :: t => x ++ match t with [] => [] | _ => sep ++ join sep t end
  end.
Definition sp : str := [32].
Definition comma_sp : str := [44; 32].

(** map.py [check_same_ns]: the namespace shared by all keys, [None] when a key is not named
    or has no namespace, when namespaces differ, when the map is empty or the shared
    namespace is the empty string ([if ns_name_shared:]) *)
Definition key_ns (k : value) : option str :=
  match k with VKw ns _ => ns | VSym ns _ _ => ns | _ => None end.
Definition shared_ns (m : list (value * value)) : option str :=
  match m with
  | [] => None
  | (k, _) :: t =>
      match key_ns k with
      | Some n => if negb (match n with [] => true | _ => false end)
                     && forallb (fun kv => ostr_eqb (key_ns (fst kv)) (Some n)) t
                  then Some n else None
      | None => None
      end
  end.
Definition is_some {A} (o : option A) : bool := match o with Some _ => true | None => false end.

(** [strip = true]: the value is a key of a map printed with a namespace prefix, its
    namespace (and, for a symbol, its metadata: [k.with_name(k.name)]) is dropped *)
Fixpoint pr (pc : pctl) (strip : bool) (v : value) {struct v} : str :=
  let mapbody := fun (m : list (value * value)) =>
    let sh := if p_nsmaps pc then shared_ns m else None in
    (match sh with Some n => 35 :: 58 :: n | None => [] end)
    ++ 123 :: join comma_sp (map (fun kv => pr pc (is_some sh) (fst kv) ++ 32 :: pr pc false (snd kv)) m)
    ++ [125] in
  let metapfx := fun (meta : option (list (value * value))) =>
    match meta with
    | Some mm => if p_meta pc then 94 :: mapbody mm ++ [32] else []
    | None => []
    end in
  match v with
  | VNil => s_nil
  | VBool true => s_true
  | VBool false => s_false
  | VInt z => dec_Z z
  | VRatio n d => dec_Z n ++ 47 :: dec_Z d
  | VFloat f => print_flt f
  | VDec tok => if p_dup pc then tok ++ [77] else tok
  | VDecS f => print_flt f
  | VImag tok => tok ++ [74]
  | VStr s => if p_readably pc then 34 :: escape s ++ [34] else s
  | VKw ns nm => 58 :: (if strip then nm else qualified ns nm)
  | VSym ns nm meta => if strip then nm else metapfx meta ++ qualified ns nm
  | VSeq k l meta =>
      (if has_meta k then metapfx meta else [])
      ++ open_of k ++ join sp (map (pr pc false) l) ++ [close_of k]
  | VMap py m meta => (if py then t_py else metapfx meta) ++ mapbody m
  | VTag t s => (if t =? 0 then t_uuid else t_inst) ++ s ++ [34]
  | VRegex p => 35 :: 34 :: (if p_readably pc then escape_legacy p else p) ++ [34]
  | VBytes b => t_bytes ++ bytes_repr_body b ++ [34]
  end.

Definition print (pc : pctl) (v : value) : str := pr pc false v.

(** the print settings under which [pr-str] claims to be readable *)
Definition pc_default : pctl := PC false false false true.

(** CPython refuses [str(int)] above 4300 digits (sys.get_int_max_str_digits, F-03e) *)
Definition int_max_str_digits : nat := 4300.
