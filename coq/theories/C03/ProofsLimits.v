(** C03 proofs, extension: the printer with *print-length* / *print-level* ([Limits.prl]).
    - with both limits nil it IS the printer of Printer.v ([prl_nil_limits]), whatever the
      truncation guards are;
    - when every truncation test carries the conjunct [not print_dup] (the obligation
      [table_trunc_guards] over the table regenerated from obj.py / map.py), *print-dup*
      makes the two limits irrelevant for every value, every length, every level
      ([prl_dup_ignores_limits]);
    - the guards are needed: without the conjunct of the level test (the code before
      fixes/C03-print-dup-ignores-level.patch) or of the length test of [map_lrepr], the
      text printed under *print-dup* is abbreviated and the reader rejects it
      ([legacy_level_refuted], [unguarded_map_length_refuted]). *)
From Coq Require Import List NArith ZArith Bool Lia.
Import ListNotations.
From Verif Require Import Common.ListX Gen.Prims Gen.Tables C19.Bencode C19.Edn.
From Verif Require Import C03.Printer C03.ReadBack C03.Guard C03.Limits C03.ProofsMain C03.ProofsTop.
Local Open Scope N_scope.

(** * Unfolding equations *)
Definition idl (x : list str) : list str := x.

Lemma open_of_split k : open_of k = (if is_py k then t_py else []) ++ open_in k.
Proof. destruct k; reflexivity. Qed.

Lemma pr_sym pc strip ns nm meta :
  pr pc strip (VSym ns nm meta)
  = if strip then nm else metapfx_g pc false (mapbody_g pc idl (pr pc)) meta ++ qualified ns nm.
Proof. destruct meta; reflexivity. Qed.

Lemma pr_seq pc strip k l meta :
  pr pc strip (VSeq k l meta)
  = (if is_py k then t_py else [])
    ++ (if has_meta k then metapfx_g pc false (mapbody_g pc idl (pr pc)) meta else [])
    ++ open_in k ++ join sp (map (pr pc false) l) ++ [close_of k].
Proof.
  change (pr pc strip (VSeq k l meta))
    with ((if has_meta k then metapfx_g pc false (mapbody_g pc idl (pr pc)) meta else [])
          ++ open_of k ++ join sp (map (pr pc false) l) ++ [close_of k]).
  rewrite open_of_split. destruct k; simpl; try reflexivity; now rewrite <- !app_assoc.
Qed.

Lemma pr_map pc strip py m meta :
  pr pc strip (VMap py m meta)
  = (if py then t_py else [])
    ++ (if py then [] else metapfx_g pc false (mapbody_g pc idl (pr pc)) meta) ++ mapbody_g pc idl (pr pc) m.
Proof. destruct py; [reflexivity|]. destruct meta; reflexivity. Qed.

Lemma prl_sym tg pc len lvl strip ns nm meta :
  prl tg pc len lvl strip (VSym ns nm meta)
  = if strip then nm
    else metapfx_g pc (level_hit (g_map_level tg) (p_dup pc) lvl)
           (mapbody_g pc (truncate (length_on (g_map_length tg) (p_dup pc) len))
                      (fun s x => prl tg pc len (dec_level lvl) s x)) meta
         ++ qualified ns nm.
Proof. reflexivity. Qed.

Lemma prl_seq tg pc len lvl strip k l meta :
  prl tg pc len lvl strip (VSeq k l meta)
  = (if is_py k then t_py else [])
    ++ (if level_hit (g_seq_level tg) (p_dup pc) lvl then t_hash
        else (if has_meta k
              then metapfx_g pc (level_hit (g_map_level tg) (p_dup pc) (dec_level lvl))
                     (mapbody_g pc (truncate (length_on (g_map_length tg) (p_dup pc) len))
                                (fun s x => prl tg pc len (dec_level (dec_level lvl)) s x)) meta
              else [])
             ++ open_in k
             ++ join sp (truncate (length_on (g_seq_length tg) (p_dup pc) len)
                           (map (prl tg pc len (dec_level lvl) false) l))
             ++ [close_of k]).
Proof. reflexivity. Qed.

Lemma prl_map tg pc len lvl strip py m meta :
  prl tg pc len lvl strip (VMap py m meta)
  = (if py then t_py else [])
    ++ (if level_hit (g_map_level tg) (p_dup pc) lvl then t_hash
        else (if py then []
              else metapfx_g pc (level_hit (g_map_level tg) (p_dup pc) None)
                     (mapbody_g pc (truncate (length_on (g_map_length tg) (p_dup pc) len))
                                (fun s x => prl tg pc len (dec_level None) s x)) meta)
             ++ mapbody_g pc (truncate (length_on (g_map_length tg) (p_dup pc) len))
                  (fun s x => prl tg pc len (dec_level lvl) s x) m).
Proof. reflexivity. Qed.

Lemma prl_leaf tg pc len lvl strip v : is_leaf v = true -> prl tg pc len lvl strip v = pr pc strip v.
Proof. destruct v; try discriminate; reflexivity. Qed.

(** * The abbreviation never fires: a set of levels [L], closed under decrement and containing
    nil, on which no level test fires, and a length that no length test sees *)
Section Inert.
  Variable tg : tguards.
  Variable pc : pctl.
  Variable len : option N.
  Variable L : option Z -> Prop.
  Hypothesis L_none : L None.
  Hypothesis L_dec : forall lv, L lv -> L (dec_level lv).
  Hypothesis seq_level_off : forall lv, L lv -> level_hit (g_seq_level tg) (p_dup pc) lv = false.
  Hypothesis map_level_off : forall lv, L lv -> level_hit (g_map_level tg) (p_dup pc) lv = false.
  Hypothesis seq_length_off : length_on (g_seq_length tg) (p_dup pc) len = None.
  Hypothesis map_length_off : length_on (g_map_length tg) (p_dup pc) len = None.

  Let P (v : value) : Prop := forall strip lv, L lv -> prl tg pc len lv strip v = pr pc strip v.

  Lemma inert_mapbody : forall m lv, Pm P m -> L lv ->
    mapbody_g pc (truncate (length_on (g_map_length tg) (p_dup pc) len)) (fun s x => prl tg pc len lv s x) m
    = mapbody_g pc idl (pr pc) m.
  Proof.
    intros m lv Hm Hl. unfold mapbody_g. rewrite map_length_off. unfold truncate, idl.
    set (b := is_some (if p_nsmaps pc then shared_ns m else None)). clearbody b.
    assert (E : map (fun kv => prl tg pc len lv b (fst kv) ++ 32 :: prl tg pc len lv false (snd kv)) m
                = map (fun kv => pr pc b (fst kv) ++ 32 :: pr pc false (snd kv)) m).
    { induction Hm as [|kv t [Hk Hv] _ IH]; [reflexivity|].
      simpl. rewrite IH. now rewrite (Hk _ _ Hl), (Hv _ _ Hl). }
    now rewrite E.
  Qed.

  Lemma inert_metapfx : forall meta lv, Po P meta -> L lv ->
    metapfx_g pc (level_hit (g_map_level tg) (p_dup pc) lv)
      (mapbody_g pc (truncate (length_on (g_map_length tg) (p_dup pc) len))
                 (fun s x => prl tg pc len (dec_level lv) s x)) meta
    = metapfx_g pc false (mapbody_g pc idl (pr pc)) meta.
  Proof.
    intros [mm|] lv Hm Hl; [|reflexivity]. simpl. rewrite (map_level_off _ Hl).
    now rewrite (inert_mapbody mm (dec_level lv) Hm (L_dec _ Hl)).
  Qed.

  Lemma inert_all : forall v, P v.
  Proof.
    induction v using value_ind'; intros strip lv Hl.
    - now apply prl_leaf.
    - rewrite prl_sym, pr_sym. destruct strip; [reflexivity|].
      now rewrite (inert_metapfx meta lv H Hl).
    - rewrite prl_seq, pr_seq, (seq_level_off _ Hl), seq_length_off.
      rewrite (inert_metapfx meta (dec_level lv) H0 (L_dec _ Hl)). unfold truncate.
      assert (E : map (prl tg pc len (dec_level lv) false) l = map (pr pc false) l).
      { induction H as [|x t Hx _ IH]; [reflexivity|].
        simpl. now rewrite IH, (Hx _ _ (L_dec _ Hl)). }
      now rewrite E.
    - rewrite prl_map, pr_map, (map_level_off _ Hl).
      rewrite (inert_metapfx meta None H0 L_none).
      now rewrite (inert_mapbody m (dec_level lv) H (L_dec _ Hl)).
  Qed.
End Inert.

(** * With both limits nil, [prl] is the printer of Printer.v -- whatever the guards *)
Theorem prl_nil_limits : forall tg pc strip v, prl tg pc None None strip v = pr pc strip v.
Proof.
  intros tg pc strip v.
  apply (inert_all tg pc None (fun lv => lv = None)); try reflexivity.
  - intros lv ->. reflexivity.
  - intros lv ->. unfold level_hit. apply andb_false_r.
  - intros lv ->. unfold level_hit. apply andb_false_r.
  - unfold length_on. now destruct (if g_seq_length tg then _ else _).
  - unfold length_on. now destruct (if g_map_length tg then _ else _).
Qed.

(** * Under *print-dup*, guarded tests never fire: every length, every level, every value *)
Theorem prl_dup_ignores_limits : forall tg pc len lvl strip v,
  all_guarded tg = true -> p_dup pc = true ->
  prl tg pc len lvl strip v = pr pc strip v.
Proof.
  intros tg pc len lvl strip v Hg Hd.
  unfold all_guarded in Hg. apply andb_prop in Hg as [Hg G4]. apply andb_prop in Hg as [Hg G3].
  apply andb_prop in Hg as [G1 G2].
  apply (inert_all tg pc len (fun _ => True)); intros; try exact I;
    unfold level_hit, length_on; rewrite ?G1, ?G2, ?G3, ?G4, ?Hd; reflexivity.
Qed.

Theorem prl_guarded_both : forall tg pc len lvl strip v,
  all_guarded tg = true -> p_dup pc = true ->
  prl tg pc len lvl strip v = pr pc strip v /\ prl tg pc None None strip v = pr pc strip v.
Proof. intros. split; [now apply prl_dup_ignores_limits|apply prl_nil_limits]. Qed.

(** the guards of the current tree: the obligation over the regenerated table *)
Lemma table_trunc_guards : the_guards = TG true true true true /\ length pr_trunc_guards = 4%nat.
Proof. vm_compute. split; reflexivity. Qed.

Theorem printl_nil : forall pc v, printl pc lim_nil v = print pc v.
Proof. intros. apply prl_nil_limits. Qed.

Theorem printl_dup_ignores_limits : forall pc lim v, p_dup pc = true -> printl pc lim v = print pc v.
Proof.
  intros pc lim v Hd. unfold printl, print. apply prl_dup_ignores_limits; [|exact Hd].
  now rewrite (proj1 table_trunc_guards).
Qed.

Theorem printl_dup_eq_nil : forall pc lim v, p_dup pc = true -> printl pc lim v = printl pc lim_nil v.
Proof. intros. now rewrite printl_dup_ignores_limits, printl_nil. Qed.

(** the round trip under *print-dup*, whatever *print-length* / *print-level* are *)
Section DupRoundtrip.
  Variable py_float py_dec py_imag py_uuid py_inst : str -> option str.
  Variable re_ok : str -> bool.
  Variable is_repr is_dec is_imag is_uuid is_inst : str -> bool.
  Hypothesis H_float_repr_inverse : forall t, is_repr t = true -> py_float t = Some t.
  Hypothesis H_repr_grammar : forall t, is_repr t = true -> repr_grammar t = true.
  Hypothesis H_dec_str_inverse : forall t, is_dec t = true -> py_dec t = Some t.
  Hypothesis H_dec_grammar : forall t, is_dec t = true -> dec_grammar t = true.
  Hypothesis H_imag_inverse : forall t, is_imag t = true -> imag_plain t = true -> py_imag t = Some t.
  Hypothesis H_uuid_inverse : forall t, is_uuid t = true -> py_uuid t = Some t.
  Hypothesis H_inst_inverse : forall t, is_inst t = true -> py_inst t = Some t.

  Theorem dup_roundtrip_any_limits pc lim v :
    p_dup pc = true -> guard is_repr is_dec is_imag is_uuid is_inst re_ok pc v = true ->
    read_text py_float py_dec py_imag py_uuid py_inst re_ok (printl pc lim v) = ROk [v].
  Proof.
    intros Hd Hg. rewrite (printl_dup_ignores_limits pc lim v Hd).
    exact (roundtrip_guarded _ _ _ _ _ _ _ _ _ _ _ H_float_repr_inverse H_repr_grammar H_dec_str_inverse
             H_dec_grammar H_imag_inverse H_uuid_inverse H_inst_inverse pc v Hg).
  Qed.
End DupRoundtrip.

(** * The guards are needed.  [[1 [2 [3]]]] and [{:a 1, :b 2, :c 3}] under *print-dup*:
    - the code before the repair tested the level without [not print_dup];
    - the seeded regression drops the conjunct from the length test of [map_lrepr]. *)
Definition pc_dup : pctl := PC true false false true.
Definition w_nested : value :=
  VSeq KVec [VInt 1; VSeq KVec [VInt 2; VSeq KVec [VInt 3] None] None] None.
Definition w_map3 : value :=
  VMap false [(VKw None [97], VInt 1); (VKw None [98], VInt 2); (VKw None [99], VInt 3)] None.
Definition read0 := read_text (@Some str) (@Some str) (@Some str) (@Some str) (@Some str) (fun _ => true).

Lemma legacy_level_refuted :
  let tg := TG false true false true in
  prl tg pc_dup None (Some 1%Z) false w_nested = [91; 49; 32; 35; 93]              (* [1 #] *)
  /\ prl tg pc_dup None (Some 0%Z) false w_nested = [35]                             (* # *)
  /\ (exists e, read0 (prl tg pc_dup None (Some 1%Z) false w_nested) = RErr e)
  /\ read0 (print pc_dup w_nested) = ROk [w_nested].
Proof. vm_compute. repeat split; try reflexivity. eexists; reflexivity. Qed.

Lemma unguarded_map_length_refuted :
  let tg := TG true true true false in
  prl tg pc_dup (Some 2) None false w_map3
  = [123; 58; 97; 32; 49; 44; 32; 58; 98; 32; 50; 44; 32; 46; 46; 46; 125]          (* {:a 1, :b 2, ...} *)
  /\ (exists e, read0 (prl tg pc_dup (Some 2) None false w_map3) = RErr e)
  /\ read0 (print pc_dup w_map3) = ROk [w_map3].
Proof. vm_compute. repeat split; try reflexivity. eexists; reflexivity. Qed.

(** truncation as the code does it when *print-dup* is off (what the correspondence compares on
    the settings that do not claim readability) *)
Example truncation_examples :
  let tg := TG true true true true in
  let pc := PC false true false true in
  let m1 := Some [(VKw None [97], VInt 1)] in
  let v := VSeq KVec [VInt 1; VSeq KPyList [VInt 2; VInt 3; VInt 4] None; w_map3] m1 in
  prl tg pc (Some 2) None false v
    = [94; 123; 58; 97; 32; 49; 125; 32; 91; 49; 32; 35; 112; 121; 32; 91; 50; 32; 51; 32; 46; 46; 46; 93; 32; 46; 46; 46; 93]
      (* ^{:a 1} [1 #py [2 3 ...] ...] *)
  /\ prl tg pc None (Some 1%Z) false v
    = [94; 35; 32; 91; 49; 32; 35; 112; 121; 32; 35; 32; 35; 93]                     (* ^# [1 #py # #] *)
  /\ prl tg pc (Some 0) (Some 2%Z) false v
    = [94; 123; 46; 46; 46; 125; 32; 91; 46; 46; 46; 93].                            (* ^{...} [...] *)
Proof. vm_compute. repeat split; reflexivity. Qed.
